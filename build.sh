#!/bin/sh
# serialised harness build (same lock as lib/common.py build_harness)
cd "$(dirname "$0")"
mkdir -p work
exec flock work/.cargo.lock sh -c 'cd harness && cargo build --offline "$@" 2>&1 | grep -E "^error|^warning: unused|Finished" -A12 | head -60' sh "$@"
