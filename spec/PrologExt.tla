------------------------------ MODULE PrologExt ------------------------------
(* Extension of the abstract machine Prolog.tla (layer A) used by the checks C12 and C11.       *)
(* Prolog.tla itself is not modified: StepX(m) looks at the goal on top of the goal stack,      *)
(* handles the goal forms below itself and delegates everything else to Prolog!Step; the        *)
(* result of a delegated step is post-processed (cleanup handlers of frames removed by an       *)
(* exception, wake-up of suspended goals, dif/2 constraints).                                    *)
(*                                                                                               *)
(*  setup_call_cleanup(S, G, C)  (library(iso_ext); ISO/IEC JTC1 SC22 WG17 N215 draft):          *)
(*      once(S); an entry of kind "scc" is pushed on m.cps (it snapshots the store, so that      *)
(*      backtracking into it *is* the failure of G: the entry's continuation runs C and fails);  *)
(*      G runs under call/1; the marker '$scc_exit' after G tests whether G left choice points.  *)
(*      The cleanup is started (frame '$scc_mark'(U) increments m.cl[U]) exactly once:           *)
(*        - G exits and no choice point of G remains: ignore(C), errors of C propagate           *)
(*        - G fails (the entry is backtracked into): ignore(C) then fail, errors of C propagate  *)
(*        - a cut removes the entry: ignore(C) with the bindings at the time of the cut,         *)
(*          innermost handler first                                                              *)
(*        - an exception unwinds over the entry: C runs under the store of the entry, its        *)
(*          bindings are discarded, innermost first, then the unwinding continues.               *)
(*      What happens with an *error raised by C* while a cut or an exception is being processed  *)
(*      is not stated by the property (the tree ignores it; recorded in DESIGN.md as observed    *)
(*      behaviour): the machine does the same and sets m.unspec so that the driver does not      *)
(*      judge such behaviours.                                                                   *)
(*  atom_length/2, arg/3: builtin error sources (ISO 8.16.1.3, 8.5.2.3) and their success cases. *)
(*  bb_b_put/2 (library(iso_ext)): backtrackable global variable.  The value lives in the store  *)
(*      (pseudo-variable '$bb:Key'), so choice-point snapshots and catch frames restore it;       *)
(*      the value is held by reference.  bb_get/2 prefers it over the bb_put/2 value.  A bb_put   *)
(*      on a key that currently has a backtrackable value is outside the specified fragment      *)
(*      (the property says both "b_put values revert" and "put values persist").                 *)
(*  freeze/2 (library(freeze)), dif/2 (library(dif)): suspended goals and disequalities are       *)
(*      attributes, i.e. part of the store: posting them in a branch that fails leaves no trace.  *)
(*      A goal suspended on V runs as soon as V is bound to a non-variable, before the next goal; *)
(*      a dif/2 constraint fails the step that makes its sides identical.  Orders the documents   *)
(*      leave open (two suspended variables bound by one unification, merging two non-empty       *)
(*      suspension lists, a freeze and a violated dif on the same step) end the behaviour with    *)
(*      status "unspec"; such behaviours are not emitted.                                         *)
EXTENDS Prolog

(* the machine record of Prolog!Load plus the fields of this module *)
LoadX(prog, dyn, q) ==
  Load(prog, dyn, q) @@
  [cl |-> <<>>,          \* cl[u]: how often the cleanup of setup_call_cleanup instance u was started
   unspec |-> FALSE,     \* an outcome the property does not determine was taken (see above)
   nested |-> FALSE,     \* classification only: a cleanup entry was removed by a cut or by failure while the entry directly
                         \* below it is another cleanup entry whose goal is still running
   condb |-> {},         \* heights of m.cps that are the cut barrier of a running if-then-else condition
   condcut |-> FALSE,    \* classification only: a cut local to an if-then-else condition was executed
   diffrz |-> FALSE,     \* classification only: a variable had a suspended goal and a dif/2 constraint at the same time
   snap |-> EmptyStore]  \* store recorded by the marker goal '$snap' (compared by '$chk')

(* ---- pseudo-variables of the store ---- *)
OvVar(key)  == [t |-> "v", n |-> "$bb:" \o key, i |-> 0, a |-> <<>>]
FrzVar(x)   == [t |-> "v", n |-> "$frz:" \o x.n, i |-> x.i, a |-> <<>>]
AttVars     == [t |-> "v", n |-> "$attvars", i |-> 0, a |-> <<>>]
DifVar      == [t |-> "v", n |-> "$difs", i |-> 0, a |-> <<>>]

RECURSIVE ListItems(_)
ListItems(l) == IF IsF(l, ".", 2) THEN <<l.a[1]>> \o ListItems(l.a[2]) ELSE <<>>

StGet(st, v) == IF v \in DOMAIN st THEN st[v] ELSE Nil
Pending(st, x) == ListItems(StGet(st, FrzVar(x)))

(* The Context argument of error(Formal, Context) is implementation defined; the machine writes '$ctx'.    *)
(* A unification that succeeds only because two such contexts are equal is not specified: flag unspec.    *)
RECURSIVE HasCtx(_)
HasCtx(x) == IF x.t = "c" THEN \E j \in 1..Len(x.a) : HasCtx(x.a[j]) ELSE IsA(x, "$ctx")

(* ---- setup_call_cleanup ---- *)
RECURSIVE SccIdx(_, _, _)      \* indices of "scc" entries above lo, topmost first
SccIdx(cps, i, lo) == IF i <= lo THEN <<>>
                      ELSE (IF cps[i].kind = "scc" THEN <<i>> ELSE <<>>) \o SccIdx(cps, i - 1, lo)
RECURSIVE TopNonCatch(_, _)
TopNonCatch(cps, j) == IF j = 0 THEN 0 ELSE IF cps[j].kind # "catch" THEN j ELSE TopNonCatch(cps, j - 1)

MarkF(u) == F(C1("$scc_mark", I(u)), 0)
Guarded(c, u) == C1("ignore", C3("catch", c, VI("_scc", u), A("$unspec")))
FailFrames(c, u) == <<F(C1("$scc_markf", I(u)), 0), F(C1("ignore", c), 0), F(Fail, 0)>>
ExitFrames(c, u) == <<MarkF(u), F(C1("ignore", c), 0)>>
CutFrames1(e)    == <<MarkF(e.r.i), F(Guarded(e.c, e.r.i), 0)>>
ExcFrames(e)     == <<MarkF(e.r.i), F(Guarded(e.c, e.r.i), 0), F(Fail, 0)>>
RECURSIVE CutFrames(_, _)
CutFrames(cps, idx) == IF idx = <<>> THEN <<>> ELSE CutFrames1(cps[idx[1]]) \o CutFrames(cps, Tail(idx))

CutTo(m0, target, rest) ==
  LET idx == SccIdx(m0.cps, Len(m0.cps), target) IN
  [m0 EXCEPT !.cps = SubSeq(m0.cps, 1, target),
             !.gs = CutFrames(m0.cps, idx) \o rest,
             !.nested = @ \/ (idx # <<>> /\ target >= 1 /\ m0.cps[target].kind = "scc")]

(* run the handlers of the entries idx (topmost first) of old.cps, each under its own store, then *)
(* continue with goal stack gsF under store stF on top of base.cps                                *)
Resume(old, base, idx, gsF, stF) ==
  LET n == Len(idx)
      later == [j \in 1..(n - 1) |-> LET e == old.cps[idx[n + 1 - j]] IN CP("alt", ExcFrames(e), e.st, None, None)]
      e1 == old.cps[idx[1]]
  IN [base EXCEPT !.cps = base.cps \o <<CP("alt", gsF, stF, None, None)>> \o later,
                  !.gs = ExcFrames(e1), !.st = e1.st]

(* m1 = result of a step from m that did not execute a cut: find out whether an exception removed *)
(* "scc" entries (Prolog!Unwind truncates m.cps below an active catch entry, or to <<>>)          *)
PostThrow(m, m1) ==
  IF m1.phase = "done" THEN
     IF m1.status = "exc" THEN
        LET idx == SccIdx(m.cps, Len(m.cps), 0) IN
        IF idx = <<>> THEN m1
        ELSE Resume(m, [m1 EXCEPT !.phase = "run", !.status = "run", !.ball = None], idx,
                    <<F(C1("throw", m1.ball), 0)>>, EmptyStore)
     ELSE m1
  ELSE IF Len(m1.cps) >= Len(m.cps) THEN m1
  ELSE LET j == TopNonCatch(m.cps, Len(m.cps)) IN
       IF j >= 1 /\ Len(m1.cps) = j - 1 THEN m1          \* plain backtracking (entry j was resumed)
       ELSE LET idx == SccIdx(m.cps, Len(m.cps), Len(m1.cps))
                cp == m.cps[Len(m1.cps) + 1]              \* the catch frame whose catcher unified with the ball
                m2 == IF HasCtx(Apply(cp.st, cp.c)) THEN [m1 EXCEPT !.unspec = TRUE] ELSE m1
            IN IF idx = <<>> THEN m2 ELSE Resume(m, m2, idx, m2.gs, m2.st)

(* ---- attributes: suspended goals and disequalities ---- *)
RECURSIVE AnyIdentical(_, _)
AnyIdentical(st, ps) == IF ps = <<>> THEN FALSE
                        ELSE Identical(st, ps[1].a[1], ps[1].a[2]) \/ AnyIdentical(st, Tail(ps))
ToWake(st) == SelectSeq(ListItems(StGet(st, AttVars)), LAMBDA x : x \in DOMAIN st /\ Pending(st, x) # <<>>)

PostAttr(m1) ==
  IF m1.phase # "run" \/ (AttVars \notin DOMAIN m1.st /\ DifVar \notin DOMAIN m1.st) THEN m1
  ELSE LET viol == AnyIdentical(m1.st, ListItems(StGet(m1.st, DifVar)))
           wk == ToWake(m1.st)
       IN IF viol /\ wk # <<>> THEN Finish(m1, "unspec")
          ELSE IF viol THEN Backtrack(m1)
          ELSE IF wk = <<>> THEN m1
          ELSE IF Len(wk) > 1 THEN Finish(m1, "unspec")
          ELSE LET x == wk[1]
                   d == Deref(m1.st, x)
                   goals == Pending(m1.st, x)
                   st1 == Bind(m1.st, FrzVar(x), Nil)
               IN IF d.t = "v" THEN
                     IF Pending(m1.st, d) # <<>> THEN Finish(m1, "unspec")
                     ELSE LET av == ListItems(StGet(m1.st, AttVars))
                              av1 == IF \E j \in 1..Len(av) : av[j] = d THEN av ELSE Append(av, d)
                          IN [m1 EXCEPT !.st = Bind(Bind(st1, FrzVar(d), ListOf(goals)), AttVars, ListOf(av1))]
                  ELSE [m1 EXCEPT !.st = st1,
                                  !.gs = [j \in 1..Len(goals) |-> F(Call1(goals[j]), 0)] \o m1.gs]

Post(m, m1) == PostAttr(PostThrow(m, m1))

-----------------------------------------------------------------------------
StepY(m) ==
  IF m.steps >= MaxSteps \/ m.gs = <<>> THEN Post(m, Step(m))
  ELSE
  LET fr == m.gs[1]
      rest == Tail(m.gs)
      g == Deref(m.st, fr.g)
      m0 == [m EXCEPT !.steps = m.steps + 1]
      cont == [m0 EXCEPT !.gs = rest]
      h0 == Len(m.cps)
      Thr(ball) == Post(m0, Throw(m0, ball))
  IN
  IF IsA(g, "!") THEN CutTo([m0 EXCEPT !.condcut = @ \/ (fr.cb \in m.condb)], fr.cb, rest)
  ELSE IF IsF(g, "$cut", 1) THEN CutTo(m0, g.a[1].i, rest)
  (* if-then-else and if-then: as in Prolog.tla (the condition runs with its own cut barrier, ISO 7.8.8); *)
  (* the barrier is remembered in m.condb for the classification flag condcut                              *)
  ELSE IF IsF(g, ";", 2) /\ IsF(Deref(m.st, g.a[1]), "->", 2) THEN
       LET l == Deref(m.st, g.a[1]) IN
       [m0 EXCEPT !.cps = Append(m.cps, CP("alt", <<F(g.a[2], fr.cb)>> \o rest, m.st, None, None)),
                  !.gs = <<F(l.a[1], h0 + 1), F(C1("$cut", I(h0)), 0), F(l.a[2], fr.cb)>> \o rest,
                  !.condb = @ \cup {h0 + 1}]
  ELSE IF IsF(g, "->", 2) THEN
       [m0 EXCEPT !.cps = Append(m.cps, CP("alt", <<F(Fail, fr.cb)>> \o rest, m.st, None, None)),
                  !.gs = <<F(g.a[1], h0 + 1), F(C1("$cut", I(h0)), 0), F(g.a[2], fr.cb)>> \o rest,
                  !.condb = @ \cup {h0 + 1}]
  (* the Context of a system error is implementation defined: unifying two of them is not specified *)
  ELSE IF IsF(g, "=", 2) /\ HasCtx(Apply(m.st, g.a[1])) /\ HasCtx(Apply(m.st, g.a[2])) THEN
       Post(m, Step([m EXCEPT !.unspec = TRUE]))
  ELSE IF IsF(g, "setup_call_cleanup", 3) THEN
       [m0 EXCEPT !.gs = <<F(C1("once", g.a[1]), 0), F(C2("$scc_install", g.a[2], g.a[3]), 0)>> \o rest]
  ELSE IF IsF(g, "call_cleanup", 2) THEN
       [m0 EXCEPT !.gs = <<F(C2("$scc_install", g.a[1], g.a[2]), 0)>> \o rest]
  ELSE IF IsF(g, "$scc_install", 2) THEN
       IF Deref(m.st, g.a[2]).t = "v" THEN Thr(InstErr)
       ELSE LET id == h0 + 1
                u == Len(m.cl) + 1
            IN [m0 EXCEPT !.cl = Append(@, 0),
                          !.cps = Append(m.cps, [kind |-> "scc", gs |-> FailFrames(g.a[2], u) \o rest, st |-> m.st,
                                                 c |-> g.a[2], r |-> I(u)]),
                          !.gs = <<F(Call1(g.a[1]), id), F(C2("$scc_exit", I(id), I(u)), 0)>> \o rest]
  ELSE IF IsF(g, "$scc_exit", 2) THEN
       LET id == g.a[1].i
           u == g.a[2].i
       IN IF id > h0 \/ m.cps[id].kind # "scc" \/ m.cps[id].r # I(u) THEN Finish(m0, "specbug")
          ELSE IF \A i \in (id + 1)..h0 : m.cps[i].kind = "catch"
               THEN [m0 EXCEPT !.cps = SubSeq(m.cps, 1, id - 1), !.gs = ExitFrames(m.cps[id].c, u) \o rest]
               ELSE cont
  ELSE IF IsF(g, "$scc_mark", 1) THEN [cont EXCEPT !.cl[g.a[1].i] = @ + 1]
  ELSE IF IsF(g, "$scc_markf", 1) THEN      \* the entry has just been popped by backtracking
       [cont EXCEPT !.cl[g.a[1].i] = @ + 1, !.nested = @ \/ (h0 >= 1 /\ m.cps[h0].kind = "scc")]
  ELSE IF IsA(g, "$unspec") THEN [cont EXCEPT !.unspec = TRUE]
  (* marker goals (facts that do nothing in the real system): '$chk' demands that the store - bindings,  *)
  (* backtrackable globals, suspended goals, disequalities - is exactly the one recorded by '$snap'     *)
  ELSE IF IsA(g, "$snap") THEN [cont EXCEPT !.snap = m.st]
  ELSE IF IsA(g, "$chk") THEN IF m.st = m.snap THEN cont ELSE Finish(m0, "specbug")
  ELSE IF IsF(g, "atom_length", 2) THEN
       LET x == Deref(m.st, g.a[1])
           n == Deref(m.st, g.a[2])
       IN IF x.t = "v" THEN Thr(InstErr)
          ELSE IF n.t \notin {"v", "i"} THEN Thr(TypeErr("integer", n))
          ELSE IF x.t # "a" THEN Finish(m0, "unmodelled")
          ELSE LET u == Unify(m.st, n, I(Len(x.n))) IN IF u.ok THEN [cont EXCEPT !.st = u.st] ELSE Backtrack(m0)
  ELSE IF IsF(g, "arg", 3) THEN
       LET n == Deref(m.st, g.a[1])
           t == Deref(m.st, g.a[2])
       IN IF n.t = "v" \/ t.t = "v" THEN Thr(InstErr)
          ELSE IF n.t # "i" THEN Thr(TypeErr("integer", n))
          ELSE IF t.t # "c" THEN Thr(TypeErr("compound", t))
          ELSE IF n.i < 1 \/ n.i > Len(t.a) THEN Backtrack(m0)
          ELSE LET u == Unify(m.st, g.a[3], t.a[n.i])
               IN IF u.cyc THEN Finish(m0, "cyclic")
                  ELSE IF u.ok THEN PostAttr([cont EXCEPT !.st = u.st]) ELSE Backtrack(m0)
  ELSE IF IsF(g, "bb_b_put", 2) THEN
       LET kx == Deref(m.st, g.a[1]) IN
       IF kx.t # "a" THEN Thr(TypeErr("atom", kx))
       ELSE [cont EXCEPT !.st = Bind(m.st, OvVar(kx.n), Deref(m.st, g.a[2]))]
  ELSE IF IsF(g, "bb_get", 2) /\ Deref(m.st, g.a[1]).t = "a" /\ OvVar(Deref(m.st, g.a[1]).n) \in DOMAIN m.st THEN
       LET u == Unify(m.st, g.a[2], m.st[OvVar(Deref(m.st, g.a[1]).n)])
       IN IF u.cyc THEN Finish(m0, "cyclic")
          ELSE IF u.ok THEN PostAttr([cont EXCEPT !.st = u.st]) ELSE Backtrack(m0)
  ELSE IF IsF(g, "bb_put", 2) /\ Deref(m.st, g.a[1]).t = "a" /\ OvVar(Deref(m.st, g.a[1]).n) \in DOMAIN m.st THEN
       Finish(m0, "unspec")
  ELSE IF IsF(g, "freeze", 2) THEN
       LET x == Deref(m.st, g.a[1]) IN
       IF x.t # "v" THEN [m0 EXCEPT !.gs = <<F(Call1(g.a[2]), 0)>> \o rest]
       ELSE LET av == ListItems(StGet(m.st, AttVars))
                av1 == IF \E j \in 1..Len(av) : av[j] = x THEN av ELSE Append(av, x)
            IN [cont EXCEPT !.st = Bind(Bind(m.st, FrzVar(x), ListOf(Append(Pending(m.st, x), g.a[2]))), AttVars, ListOf(av1))]
  ELSE IF IsF(g, "dif", 2) THEN
       LET u == Unify(m.st, g.a[1], g.a[2])
           frz == \E v \in VarsOf(Apply(m.st, C2("-", g.a[1], g.a[2]))) : Pending(m.st, v) # <<>>
       IN
       IF u.cyc THEN Finish(m0, "cyclic")
       ELSE IF ~u.ok THEN [cont EXCEPT !.diffrz = @ \/ frz]
       ELSE IF Identical(m.st, g.a[1], g.a[2]) THEN Backtrack(m0)
       ELSE [cont EXCEPT !.diffrz = @ \/ frz,
                         !.st = Bind(m.st, DifVar, ListOf(Append(ListItems(StGet(m.st, DifVar)), C2("-", g.a[1], g.a[2]))))]
  ELSE Post(m, Step(m))

(* a variable carries a suspended goal and occurs in a disequality at the same time (classification only) *)
DifOnFrozen(st) ==
  /\ AttVars \in DOMAIN st /\ DifVar \in DOMAIN st
  /\ LET ps == ListItems(st[DifVar]) IN
     \E j \in 1..Len(ps) : \E v \in VarsOf(Apply(st, ps[j])) : Pending(st, v) # <<>>

StepX(m) ==
  LET m2 == StepY(m)
      m3 == IF m2.phase = "run" /\ m2.condb # {} THEN [m2 EXCEPT !.condb = {h \in @ : h <= Len(m2.cps)}] ELSE m2
  IN IF m3.phase = "run" /\ ~m3.diffrz /\ DifOnFrozen(m3.st) THEN [m3 EXCEPT !.diffrz = TRUE] ELSE m3

(* ---- invariants ---- *)
(* the cleanup of every instance is started at most once; in a terminal state exactly once *)
CleanupOnce(m) == /\ \A u \in 1..Len(m.cl) : m.cl[u] <= 1
                  /\ (m.phase = "done" /\ m.status \in {"done", "exc"}) => \A u \in 1..Len(m.cl) : m.cl[u] = 1
(* a live '$scc_exit' marker refers to the entry of its own instance *)
SccMarkersOk(m) ==
  m.phase = "run" =>
    \A j \in 1..Len(m.gs) : IsF(m.gs[j].g, "$scc_exit", 2) =>
       LET id == m.gs[j].g.a[1].i IN id <= Len(m.cps) /\ m.cps[id].kind = "scc" /\ m.cps[id].r = m.gs[j].g.a[2]
(* an entry whose handler has been started is no longer on the stack (so it cannot be started again) *)
SccEntriesOk(m) ==
  m.phase = "run" => \A j \in 1..Len(m.cps) : m.cps[j].kind = "scc" => m.cl[m.cps[j].r.i] = 0
NoSpecBug(m) == m.status # "specbug"
ExtOk(m) == CleanupOnce(m) /\ SccMarkersOk(m) /\ SccEntriesOk(m) /\ NoSpecBug(m)
==============================================================================
