------------------------------ MODULE WriteRead ------------------------------
(* C15: printed terms read back as the same term.  C50 shares the term universe.                 *)
(*                                                                                              *)
(* The property is the round-trip RELATION                                                       *)
(*        Accept( Expect(w, T),  Read(tbl, Write_w(tbl, T)) )                                    *)
(* for every operator table tbl reachable by OpCfg!Declare, every term T of Universe(tbl) and    *)
(* every writer w.  The printed text itself is NOT specified (ISO 7.10.5 leaves layout to the    *)
(* processor); what the specification contributes is                                             *)
(*   (a) the operator-table state machine (module OpCfg),                                        *)
(*   (b) the term universe: every operator-term shape the current table gives rise to x every    *)
(*       operand class, in every argument position, to depth 2 (exhaustively) / 3 (sampled),     *)
(*       plus a table-independent vocabulary of tricky atoms, numbers, lists, strings, curly     *)
(*       terms and '$VAR' terms,                                                                 *)
(*   (c) Expect: what the text denotes (the term itself; under numbervars(true) the term with    *)
(*       every '$VAR'(N), N a non-negative integer, replaced by one variable per N - ISO 7.10.5  *)
(*       numbervars, builtins.pl writeq/1: "'$write_term'(.., numbervars = true, quoted = true)") *)
(*   (d) Accept: identity up to a bijective renaming of variables; numbers identical, floats by  *)
(*       bit pattern except that -0.0 and 0.0 are identified (the property says so).             *)
(*                                                                                              *)
(* Term records are the uniform [t, n, i, a] of module Terms, with these additional leaves:      *)
(*   [t |-> "big", n |-> decimal text, i |-> sign]  integer beyond 32 bits                       *)
(*   [t |-> "f",   n |-> 16 hex digits]             float, by IEEE-754 bits                      *)
(*   [t |-> "s",   n |-> text]                      double-quoted string = list of characters    *)
(*   [t |-> "ax",  a |-> <<I(cp), ..>>]             atom given by code points (non-ASCII names)  *)
(*   [t |-> "sx",  a |-> <<I(cp), ..>>]             string given by code points                  *)
EXTENDS OpCfg, Terms

Big(d)   == [t |-> "big", n |-> d, i |-> 1, a |-> <<>>]
NBig(d)  == [t |-> "big", n |-> "-" \o d, i |-> -1, a |-> <<>>]
Flt(h)   == [t |-> "f", n |-> h, i |-> 0, a |-> <<>>]
Str(s)   == [t |-> "s", n |-> s, i |-> 0, a |-> <<>>]
AX(cps)  == [t |-> "ax", n |-> "", i |-> 0, a |-> [j \in 1..Len(cps) |-> I(cps[j])]]
SX(cps)  == [t |-> "sx", n |-> "", i |-> 0, a |-> [j \in 1..Len(cps) |-> I(cps[j])]]
Range(s) == {s[j] : j \in DOMAIN s}

a == A("a")  b == A("b")  c == A("c")
X == V("X")  Y == V("Y")
Curly(x) == C1("{}", x)
NumVar(x) == C1("$VAR", x)

(* ------------------------------------------------------------------------------------------ *)
(* writers and what their text denotes                                                         *)
(* ------------------------------------------------------------------------------------------ *)
(* options [quoted, ignore_ops, numbervars]; writeq/write_canonical as defined in builtins.pl   *)
(* (writeq: ignore_ops false, numbervars true, quoted true; write_canonical: ignore_ops true,   *)
(* numbervars false, quoted true).  format's ~q is write_term_to_chars with quoted(true),        *)
(* numbervars(true) (format.pl cells//5).  print/1 does not exist in Scryer (DESIGN.md App. 2). *)
Writers == {"writeq", "write_canonical", "wt_q", "wt_qi", "wt_qn", "wt_qin", "chars_q", "chars_qi", "format_q"}
WOpts(w) ==
  CASE w = "writeq"          -> [quoted |-> TRUE, ignore_ops |-> FALSE, numbervars |-> TRUE]
    [] w = "write_canonical" -> [quoted |-> TRUE, ignore_ops |-> TRUE,  numbervars |-> FALSE]
    [] w \in {"wt_q", "chars_q"}   -> [quoted |-> TRUE, ignore_ops |-> FALSE, numbervars |-> FALSE]
    [] w \in {"wt_qi", "chars_qi"} -> [quoted |-> TRUE, ignore_ops |-> TRUE,  numbervars |-> FALSE]
    [] w = "wt_qn"           -> [quoted |-> TRUE, ignore_ops |-> FALSE, numbervars |-> TRUE]
    [] w = "wt_qin"          -> [quoted |-> TRUE, ignore_ops |-> TRUE,  numbervars |-> TRUE]
    [] w = "format_q"        -> [quoted |-> TRUE, ignore_ops |-> FALSE, numbervars |-> TRUE]
Numbervars(w) == WOpts(w).numbervars

IsNumVar(x) == x.t = "c" /\ x.n = "$VAR" /\ Len(x.a) = 1 /\ x.a[1].t \in {"i", "big"}
NumVarNeg(x) == IsNumVar(x) /\ ((x.a[1].t = "i" /\ x.a[1].i < 0) \/ (x.a[1].t = "big" /\ x.a[1].i < 0))

(* the term denoted by the text under numbervars(true): one variable per number N >= 0 *)
RECURSIVE NVImage(_)
NVImage(x) ==
  IF x.t # "c" THEN x
  ELSE IF IsNumVar(x) /\ ~NumVarNeg(x)
       THEN (IF x.a[1].t = "i" THEN VI("NV", x.a[1].i + 1) ELSE V("NVB" \o x.a[1].n))
  ELSE [x EXCEPT !.a = [j \in 1..Len(x.a) |-> NVImage(x.a[j])]]

(* ISO defines the variable name only for N >= 0: a term holding '$VAR'(N) with N < 0 has no     *)
(* defined image under numbervars(true) and is not submitted to the numbervars writers.          *)
RECURSIVE NVDefined(_)
NVDefined(x) == IF x.t # "c" THEN TRUE
                ELSE ~NumVarNeg(x) /\ \A j \in 1..Len(x.a) : NVDefined(x.a[j])

(* format's ~q (and write_term_to_chars in general) additionally invents NAMES A, B, .. for the  *)
(* free variables of the term (charsio.pl extend_var_list/4); those letters are the same ones    *)
(* numbervars uses, so a term with both free variables and '$VAR'(N) has no injective naming     *)
(* there.  That interplay belongs to write_term_to_chars, not to the writers of the property;    *)
(* the ~q leg is restricted to terms where it cannot occur.                                      *)
NamingSafe(x) == VarsOf(x) = {} \/ NVImage(x) = x

Expect(w, x) == IF Numbervars(w) THEN NVImage(x) ELSE x
Applicable(w, x) == /\ Numbervars(w) => NVDefined(x)
                    /\ w = "format_q" => NamingSafe(x)

(* acceptance: variant, with -0.0 identified with 0.0 *)
RECURSIVE ZeroNorm(_)
ZeroNorm(x) == IF x.t = "f" /\ x.n = "8000000000000000" THEN Flt("0000000000000000")
               ELSE IF x.t = "c" THEN [x EXCEPT !.a = [j \in 1..Len(x.a) |-> ZeroNorm(x.a[j])]]
               ELSE x
RECURSIVE Number(_, _)
Number(x, vs) == IF x.t = "v" THEN VI("_", CHOOSE j \in 1..Len(vs) : vs[j] = x)
                 ELSE IF x.t = "c" THEN [x EXCEPT !.a = [j \in 1..Len(x.a) |-> Number(x.a[j], vs)]]
                 ELSE x
Canon(x) == Number(x, VarSeq(x))
Variant(x, y) == Canon(x) = Canon(y)
Accept(e, r) == Variant(ZeroNorm(e), ZeroNorm(r))

(* ------------------------------------------------------------------------------------------ *)
(* vocabulary (table independent)                                                              *)
(* ------------------------------------------------------------------------------------------ *)
PoolNames == {"-", "+", "*", "=", ":-", "\\+", "f", "abc", "@", "^^", "!!"}

(* atoms by lexical class (ISO 6.4.2 / 6.5): what decides quoting and token boundaries *)
AtomVoc == <<
  [c |-> "plain",    t |-> a],                [c |-> "plain",    t |-> A("aB_1")],
  [c |-> "plain",    t |-> A("end_of_file")],
  [c |-> "solo",     t |-> A("[]")],          [c |-> "solo",     t |-> A("{}")],
  [c |-> "solo",     t |-> A("!")],           [c |-> "solo",     t |-> A(";")],
  [c |-> "punct",    t |-> A(",")],           [c |-> "punct",    t |-> A("|")],
  [c |-> "punct",    t |-> A("(")],           [c |-> "punct",    t |-> A(")")],
  [c |-> "punct",    t |-> A("[")],           [c |-> "punct",    t |-> A("]")],
  [c |-> "punct",    t |-> A("{")],           [c |-> "punct",    t |-> A("}")],
  [c |-> "punct",    t |-> A("||")],          [c |-> "punct",    t |-> A("!!")],
  [c |-> "graphic",  t |-> A("\\")],          [c |-> "graphic",  t |-> A("..")],
  [c |-> "graphic",  t |-> A("//")],          [c |-> "graphic",  t |-> A("~")],
  [c |-> "graphic",  t |-> A("#")],           [c |-> "graphic",  t |-> A("$")],
  [c |-> "graphic",  t |-> A("&")],           [c |-> "graphic",  t |-> A("?")],
  [c |-> "graphic",  t |-> A("<")],           [c |-> "graphic",  t |-> A(":")],
  [c |-> "graphic",  t |-> A("\\\\")],        [c |-> "graphic",  t |-> A("-->")],
  [c |-> "graphic",  t |-> A("^^")],          [c |-> "graphic",  t |-> A("@")],
  [c |-> "graphic",  t |-> A("-")],           [c |-> "graphic",  t |-> A("+")],
  [c |-> "graphic",  t |-> A("*")],           [c |-> "graphic",  t |-> A("=")],
  [c |-> "graphic",  t |-> A(":-")],          [c |-> "graphic",  t |-> A("\\+")],
  [c |-> "graphic",  t |-> A("^")],           [c |-> "graphic",  t |-> A("**")],
  [c |-> "graphic",  t |-> A("->")],          [c |-> "graphic",  t |-> A("?-")],
  [c |-> "misread",  t |-> A(".")],           [c |-> "misread",  t |-> A("/*")],
  [c |-> "misread",  t |-> A("%")],           [c |-> "misread",  t |-> A("/**/")],
  [c |-> "misread",  t |-> A("a.b")],         [c |-> "misread",  t |-> A("0'a")],
  [c |-> "misread",  t |-> A("1a")],          [c |-> "misread",  t |-> A("1")],
  [c |-> "misread",  t |-> A("-1")],          [c |-> "misread",  t |-> A("1.0")],
  [c |-> "misread",  t |-> A("f(")],          [c |-> "misread",  t |-> A("[]x")],
  [c |-> "misread",  t |-> A("a-b")],         [c |-> "misread",  t |-> A("e")],
  [c |-> "empty",    t |-> A("")],
  [c |-> "layout",   t |-> A("a b")],         [c |-> "layout",   t |-> A(" ")],
  [c |-> "layout",   t |-> A("\n")],          [c |-> "layout",   t |-> A("\t")],
  [c |-> "layout",   t |-> A("a\nb")],
  [c |-> "varlike",  t |-> A("A")],           [c |-> "varlike",  t |-> A("_x")],
  [c |-> "varlike",  t |-> A("_")],           [c |-> "varlike",  t |-> A("Abc")],
  [c |-> "quote",    t |-> A("'")],           [c |-> "quote",    t |-> A("\"")],
  [c |-> "quote",    t |-> A("`")],           [c |-> "quote",    t |-> A("a'b")],
  [c |-> "quote",    t |-> A("''")],          [c |-> "quote",    t |-> A("\\'")],
  [c |-> "control",  t |-> AX(<<97, 1, 98>>)],  [c |-> "control",  t |-> AX(<<7>>)],
  [c |-> "control",  t |-> AX(<<127>>)],        [c |-> "control",  t |-> AX(<<0>>)],
  [c |-> "control",  t |-> AX(<<11>>)],         [c |-> "control",  t |-> AX(<<27, 91>>)],
  [c |-> "nonascii", t |-> AX(<<233>>)],        [c |-> "nonascii", t |-> AX(<<201>>)],         \* e-acute, E-acute
  [c |-> "nonascii", t |-> AX(<<955>>)],        [c |-> "nonascii", t |-> AX(<<923, 955>>)],    \* lambda, Lambda lambda
  [c |-> "nonascii", t |-> AX(<<8364>>)],       [c |-> "nonascii", t |-> AX(<<8704>>)],        \* euro sign, for-all
  [c |-> "nonascii", t |-> AX(<<128512>>)],     [c |-> "nonascii", t |-> AX(<<160>>)],         \* emoji, no-break space
  [c |-> "nonascii", t |-> AX(<<8232>>)],       [c |-> "nonascii", t |-> AX(<<97, 769>>)],     \* line separator, a + combining acute
  [c |-> "nonascii", t |-> AX(<<215>>)],        [c |-> "nonascii", t |-> AX(<<26085, 26412>>)] \* multiplication sign, CJK
>>

(* numbers: small, boundary (2^31, 2^55/2^56 small-integer limit, 2^63/2^64), bignums; floats by bits *)
IntVoc == << I(0), I(1), I(7), I(-1), I(-7), I(2147483647), I(-2147483647), I(97),
             Big("36028797018963968"), NBig("36028797018963968"), Big("72057594037927935"),
             Big("9223372036854775807"), NBig("9223372036854775808"), Big("18446744073709551616"), NBig("18446744073709551616"),
             Big("1000000000000000000000000000000"), NBig("123456789012345678901234567890123456789") >>
FloatVoc == <<
  Flt("3FF0000000000000"), Flt("BFF0000000000000"),   \* 1.0  -1.0
  Flt("0000000000000000"), Flt("8000000000000000"),   \* 0.0  -0.0
  Flt("3FB999999999999A"), Flt("3FD3333333333334"),   \* 0.1  0.30000000000000004
  Flt("4480F0CF064DD592"), Flt("C480F0CF064DD592"),   \* 1.0e22  -1.0e22
  Flt("444B1AE4D6E2EF50"), Flt("44B52D02C7E14AF6"),   \* 1.0e21  1.0e23
  Flt("3DDB7CDFD9D7BDBB"), Flt("4202A05F20000000"),   \* 1.0e-10  1.0e10
  Flt("430C6BF526340000"), Flt("4341C37937E08000"),   \* 1.0e15  1.0e16
  Flt("3F1A36E2EB1C432D"), Flt("3EE4F8B588E368F1"),   \* 0.0001  0.00001
  Flt("0000000000000001"), Flt("8000000000000001"),   \* min subnormal, negated
  Flt("0010000000000000"), Flt("000FFFFFFFFFFFFF"),   \* min normal, max subnormal
  Flt("7FEFFFFFFFFFFFFF"), Flt("FFEFFFFFFFFFFFFF"),   \* max double, negated
  Flt("4340000000000000"), Flt("400921FB54442D18"),   \* 2^53, pi
  Flt("C004000000000000"), Flt("3FF8000000000000")    \* -2.5, 1.5
>>
IsNegNum(x) == (x.t = "i" /\ x.i < 0) \/ (x.t = "big" /\ x.i < 0) \/ (x.t = "f" /\ SubSeq(x.n, 1, 1) \in {"8", "9", "A", "B", "C", "D", "E", "F"})
NumClass(x) == (IF IsNegNum(x) THEN "neg" ELSE "") \o (IF x.t = "f" THEN "float" ELSE IF x.t = "big" THEN "big" ELSE "int")

StrVoc == << Str(""), Str("a"), Str("abc"), Str("a b"), Str("A"), Str("a\"b"), Str("a'b"), Str("a\\b"), Str("a\nb"), Str("\t"),
             Str("`"), Str("''"), Str("\"\""), Str("[]"), Str("- 1"), Str("%"), Str("/*"), Str("."),
             SX(<<233>>), SX(<<97, 0, 98>>), SX(<<97, 1, 98>>), SX(<<128512>>), SX(<<8232>>), SX(<<27>>) >>

ListVoc == <<
  ListOf(<<a>>), ListOf(<<a, b>>), ListOf(<<a, b, c>>), PListOf(<<a>>, b), PListOf(<<a>>, X), PListOf(<<a, b>>, X),
  ListOf(<<X, Y, X>>), ListOf(<<Nil>>), ListOf(<<ListOf(<<a>>)>>), ListOf(<<Conj(a, b)>>), ListOf(<<C2(":-", a, b)>>),
  PListOf(<<a>>, Conj(b, c)), PListOf(<<a>>, C2("|", b, c)), ListOf(<<C2("|", a, b)>>), PListOf(<<Conj(a, b)>>, c),
  ListOf(<<A("A"), A("B")>>), ListOf(<<I(97), I(98)>>), ListOf(<<a, A("B")>>), ListOf(<<A(" "), a>>),
  PListOf(<<a>>, Str("bc")), PListOf(<<a, b>>, Str("")), PListOf(<<a>>, ListOf(<<X>>)), PListOf(<<A("a b")>>, X),
  ListOf(<<A("a"), A("bc")>>), ListOf(<<A("'")>>), ListOf(<<A("\"")>>), PListOf(<<A("a")>>, A("b")),
  C1(".", a), C3(".", a, b, c), Cons(Cons(a, b), c), PListOf(<<a>>, I(-1)), PListOf(<<a>>, Curly(b)), PListOf(<<a>>, A("|")),
  ListOf(<<A("|")>>), ListOf(<<A(",")>>), ListOf(<<A("-"), A("-")>>), PListOf(<<A("-")>>, A("-")), ListOf(<<C1("-", a)>>),
  ListOf(<<C1("-", I(1))>>), PListOf(<<a>>, C1("-", I(1))), ListOf(<<C2("=", a, b)>>), ListOf(<<C2("->", a, b)>>)
>>

CurlyVoc == <<
  Curly(a), Curly(Conj(a, b)), Curly(A("-")), Curly(Curly(a)), C2("{}", a, b), Curly(X), Curly(I(-1)), Curly(C2(":-", a, b)),
  Curly(C1("-", I(1))), Curly(A("{}")), Curly(Nil), Curly(ListOf(<<a>>)), Curly(C2("|", a, b)), Curly(A(",")), Curly(A("|")),
  Curly(Str("ab")), Curly(C1(":-", a)), Curly(A("}")), C1("-", Curly(a)), C2("-", Curly(a), Curly(b)), C1("{}", C1("-", Curly(a)))
>>

NumVarVoc == <<
  NumVar(I(0)), NumVar(I(1)), NumVar(I(25)), NumVar(I(26)), NumVar(I(27)), NumVar(I(701)), NumVar(I(-1)), NumVar(a), NumVar(X),
  NumVar(Flt("3FF0000000000000")), NumVar(Big("18446744073709551616")), NumVar(Str("Foo")), NumVar(A("Foo")), C2("$VAR", I(1), I(2)),
  A("$VAR"), NumVar(NumVar(I(1))), C2("f", NumVar(I(1)), NumVar(I(1))), C3("f", NumVar(I(0)), NumVar(I(1)), NumVar(I(0))),
  C2("f", NumVar(I(0)), X), C1("-", NumVar(I(1))), C2("-", NumVar(I(1)), NumVar(I(2))), C2("-", a, NumVar(I(1))),
  ListOf(<<NumVar(I(1))>>), PListOf(<<a>>, NumVar(I(1))), Curly(NumVar(I(1))), C1("\\+", NumVar(I(1))), C2("=", NumVar(I(0)), A("A")),
  C2("f", NumVar(I(0)), A("A")), C2("^", NumVar(I(1)), I(2)), C1("-", C1("-", NumVar(I(3))))
>>

VarVoc == << X, C2("f", X, Y), C3("f", X, Y, X), C1("-", X), C2("-", X, Y), C1("-", C1("-", X)), C2("=", X, X), C1("\\+", X),
             C2(":-", X, Y), Conj(X, Y), Curly(X), C2("^", X, I(2)), C2("-", X, I(-1)) >>

(* the explicit list of DESIGN.md section 8 C15 *)
Tricky == <<
  C1("-", I(1)), C1("-", C1("-", I(1))), C2("-", I(1), I(-1)), C1("-", C1("-", a)), C1("\\+", Conj(a, b)),
  C2(":-", C2(":-", a, b), c), C1("f", A(":-")), ListOf(<<A("-")>>), Curly(A("-")),
  C2("^", C1("-", I(2)), I(2)), C2("^", I(-2), I(2)), C1("-", C2("^", I(2), I(2))), C2("^", C1("-", a), I(2)), C1("-", C2("^", a, I(2))),
  C2("-", I(1), C2("-", I(2), I(3))), C2("-", C2("-", I(1), I(2)), I(3)), C2("**", I(2), I(-1)), C2("**", I(2), C1("-", I(1))),
  Eq(a, Eq(b, c)), Eq(Eq(a, b), c), C1("f", Conj(a, b)), C1("f", C2(":-", a, b)), C2("f", Conj(a, b), Conj(a, b)),
  C1("-", Flt("3FF0000000000000")), C1("-", Big("18446744073709551616")), C1("+", I(1)), C1("-", C1("+", I(1))), C2("+", I(1), C1("+", I(1))),
  C1("\\", I(1)), C1("\\", C1("\\", a)), C1("-", C1("\\", I(1))),
  C2("-", I(-1), I(-1)), C2("-", C1("-", I(1)), I(1)), C2("*", I(-1), I(-1)), C2("^", I(-1), I(-1)), C1(":-", I(-1)), C1("\\+", I(-1)),
  C2(":", a, C2(":", b, c)), C2(":", C2(":", a, b), c), Conj(a, Conj(b, c)), Conj(Conj(a, b), c), Ite(a, b, c), It(Disj(a, b), c),
  Conj(C2(":-", a, b), c), Conj(a, C2(":-", b, c)), C2(":-", a, Conj(b, c)), C1(":-", C2(":-", a, b)), C1(":-", C1(":-", a)),
  C1("-", A(":-")), C2("-", A(":-"), A(":-")), C1("\\+", A(":-")), C1("\\+", A("\\+")), C1("\\+", ListOf(<<a>>)), C1("\\+", C1("\\+", a)),
  C1("-", C1("-", A("-"))), C2("=", I(1), A(":-")), C2("f", A(":-"), A(":-")), ListOf(<<A(":-"), A(":-")>>), PListOf(<<A(":-")>>, A(":-")),
  C2("f", a, A(":-")), C2("f", A("-"), a), C1("-", C1("-", C1("-", a))), C2("-", C1("-", A("-")), C1("-", A("-"))),
  C2("**", I(2), C2("**", I(3), I(4))), C2("**", C2("**", I(2), I(3)), I(4)), C2("^", I(2), C2("^", I(3), I(4))), C2("^", C2("^", I(2), I(3)), I(4)),
  C1("f", A(";")), ListOf(<<A(";")>>), C2("=", A(";"), A(";")), C1("f", A(",")), C2("f", A("|"), A("|")), C1("-", A("|")), C1("-", A(",")),
  C1("-", A(";")), C1("-", A("!")), C1("-", Nil), C1("-", A("{}")), C1("-", A(".")), C2("-", a, Nil), C1("f", Nil),
  C2("+", C1("-", C1("-", I(1))), I(2)), C2("+", C1("-", I(1)), I(2)), C2("+", C1("-", a), I(2)),
  C2("*", a, C2("+", b, c)), C2("+", C2("*", a, b), c), C2("*", a, C2("*", b, c)), Eq(Conj(a, b), c), Eq(C2(":-", a, b), c),
  C1("-", Eq(a, b)), C1("\\+", Eq(a, b)), Eq(C1("\\+", a), b), C2("-", C1("\\+", a), b), C1("-", C1("\\+", a)),
  C2("|", a, b), C2("|", C2("|", a, b), c), C2("|", a, C2("|", b, c)), C1("|", a), C2("||", a, b), C2("-->", a, C2("|", b, c)), C1("f", C2("|", a, b)),
  C2(",", a, C2("|", b, c)), C2("|", Conj(a, b), c), C2(";", a, C2("|", b, c)), C2("|", Disj(a, b), c),
  C1(",", a), C3(",", a, b, c), C1(";", a), C1("!", a), C1("[]", a), C2("[]", a, b), C1("A", a), C1("", a), C2("", a, b), C1("a b", a),
  C1("f", C1("f", a)), C2("f", a, b), C1("abc", a), C2("abc", a, b), C1("@", a), C2("@", a, b), C2("^^", a, b), C1("!!", a),
  C1("-", C2("-", I(1), I(2))), C1("-", C2("*", I(1), I(2))), C2("*", C1("-", I(1)), I(2)), C2("-", I(1), C1("-", I(2))), C2("-", a, C1("-", I(1))),
  C2("-", a, I(-1)), C2("-", a, Flt("BFF0000000000000")), C2("-", a, NBig("18446744073709551616")), C2("=", a, I(-1)), C2("f", I(-1), I(-1)),
  C2("is", X, C2("+", I(1), I(-1))), C2("mod", I(-1), I(2)), C2("mod", a, C2("mod", b, c)), C2("rem", C1("-", I(1)), I(2)), C1("-", C2("mod", a, b)),
  C1("dynamic", C2("/", a, I(1))), C1(":-", C1("dynamic", C2("/", a, I(1)))), C1("?-", a), C2("?-", a, b), C1("?-", C1("?-", a)),
  C1("-", Str("ab")), C2("-", Str("ab"), Str("cd")), C1("-", ListOf(<<a>>)), C2("-", ListOf(<<a>>), ListOf(<<b>>)), C1("-", C1("g", a)),
  C1("-", Conj(a, b)), C1("-", Curly(a)), C1("-", A("a b")), C1("-", A("A")), C1("-", A("")), C2("-", A(""), A("")), C1("\\+", A("")),
  C1("-", A("[]")), C1("-", C1("[]", a)), C1("-", I(0)), C1("+", I(0)), C1("-", Flt("0000000000000000")), C1("-", Flt("8000000000000000")),
  C1("-", I(-1)), C1("-", Flt("BFF0000000000000")), C1("-", NBig("18446744073709551616")), C1("+", I(-1)), C1("\\", I(-1)),
  C2("e", I(1), I(2)), C2("-", Flt("3FF0000000000000"), A("e")), C2("-", I(1), A("e")), C1("-", A("e")), C2(".", I(1), I(2)), C2("..", I(1), I(2)),
  C2("=", A("."), A(".")), C2("-", I(1), A(".")), C1("-", A("..")), C2("=", a, A("."))
>>

(* every tricky atom in every kind of position *)
AtomForms(x) == { x, C1("g", x), C2("g", x, x), ListOf(<<x>>), PListOf(<<a>>, x), Curly(x), C1("-", x), C2("-", x, a), C2("-", a, x),
                  C2("=", x, x), C1("\\+", x), Conj(x, x), C2(":-", x, x) }
FunctorForms(n) == IF n.t = "a" /\ n.n \notin {"[]", "{}"} THEN { C1(n.n, a), C2(n.n, a, b), C1("-", C1(n.n, a)), C2(n.n, I(-1), I(-1)) } ELSE {}
(* every number in every kind of position *)
NumForms(k) == { k, C1("g", k), C2("g", k, k), ListOf(<<k>>), PListOf(<<a>>, k), Curly(k), C1("-", k), C1("+", k), C1("\\", k),
                 C2("-", k, a), C2("-", a, k), C2("-", k, k), C2("^", k, I(2)), C2("^", I(2), k), C2("**", k, k), C2("=", k, k),
                 Conj(k, k), C1(":-", k), C1("\\+", k), C1("-", C1("-", k)), C2("-", I(1), C1("-", k)), C2("*", k, C1("-", k)),
                 C2("-", C2("^", k, I(2)), k), C1("-", C2("^", k, I(2))), C2("e", k, k), C2("-", k, A("e")) }
StrForms(s) == { s, C1("g", s), ListOf(<<s>>), PListOf(<<a>>, s), Curly(s), C1("-", s), C2("=", s, s), C2("-", s, a) }

Item(cls, t) == [t |-> t, needs |-> {}, o |-> <<"", 0>>, in |-> <<"", 0>>, pos |-> "base", oc |-> cls]
Items(cls, S) == {Item(cls, t) : t \in S}
BaseAtoms   == UNION {Items("atom:" \o e.c, AtomForms(e.t)) \cup Items("functor:" \o e.c, FunctorForms(e.t)) : e \in Range(AtomVoc)}
BaseNums    == UNION {Items("num:" \o NumClass(k), NumForms(k)) : k \in Range(IntVoc) \cup Range(FloatVoc)}
BaseStrs    == UNION {Items("string", StrForms(s)) : s \in Range(StrVoc)}
BaseOthers  == Items("list", Range(ListVoc)) \cup Items("curly", Range(CurlyVoc)) \cup Items("numbervar", Range(NumVarVoc))
               \cup Items("var", Range(VarVoc)) \cup Items("tricky", Range(Tricky))
BaseGroups == <<"atoms", "nums", "strs", "others">>
BaseGroup(g) == CASE g = "atoms" -> BaseAtoms [] g = "nums" -> BaseNums [] g = "strs" -> BaseStrs [] g = "others" -> BaseOthers

(* ------------------------------------------------------------------------------------------ *)
(* operator terms of a table                                                                   *)
(* ------------------------------------------------------------------------------------------ *)
(* operand classes: one representative of everything that can stand next to an operator        *)
OperandsCore == {
  [c |-> "atom", t |-> a], [c |-> "int", t |-> I(1)], [c |-> "negint", t |-> I(-1)],
  [c |-> "float", t |-> Flt("3FF0000000000000")], [c |-> "negfloat", t |-> Flt("BFF0000000000000")],
  [c |-> "big", t |-> Big("18446744073709551616")], [c |-> "negbig", t |-> NBig("18446744073709551616")],
  [c |-> "var", t |-> X], [c |-> "cmp", t |-> C1("g", a)], [c |-> "list", t |-> ListOf(<<a>>)], [c |-> "plist", t |-> PListOf(<<a>>, X)],
  [c |-> "str", t |-> Str("ab")], [c |-> "curly", t |-> Curly(a)], [c |-> "numbervar", t |-> NumVar(I(1))], [c |-> "comma", t |-> Conj(a, b)],
  [c |-> "solo:[]", t |-> Nil], [c |-> "solo:{}", t |-> A("{}")], [c |-> "solo:!", t |-> A("!")], [c |-> "solo:;", t |-> A(";")],
  [c |-> "punct:,", t |-> A(",")], [c |-> "punct:|", t |-> A("|")], [c |-> "quoted", t |-> A("A")], [c |-> "empty", t |-> A("")] }
OpAtomOperands(names) == {[c |-> "opatom:" \o n, t |-> A(n)] : n \in names}
Operands(names) == OperandsCore \cup OpAtomOperands(names)

(* terms whose principal functor has the shape sh = <<name, arity>>, over the operand set L:     *)
(* arity 1: name(x); arity 2: name(x, a), name(a, x) and name(x, x) for the symmetric subset     *)
Sym(L) == {l \in L : l.c \in {"negint", "var", "opatom:-", "opatom::-", "opatom:abc", "atom"}}
Depth1(sh, L) ==
  IF sh[2] = 1
  THEN {[t |-> C1(sh[1], l.t), needs |-> {sh}, o |-> sh, in |-> <<"", 0>>, pos |-> "u", oc |-> l.c] : l \in L}
  ELSE {[t |-> C2(sh[1], l.t, a), needs |-> {sh}, o |-> sh, in |-> <<"", 0>>, pos |-> "l", oc |-> l.c] : l \in L}
       \cup {[t |-> C2(sh[1], a, l.t), needs |-> {sh}, o |-> sh, in |-> <<"", 0>>, pos |-> "r", oc |-> l.c] : l \in L}
       \cup {[t |-> C2(sh[1], l.t, l.t), needs |-> {sh}, o |-> sh, in |-> <<"", 0>>, pos |-> "b", oc |-> l.c] : l \in Sym(L)}

(* inner operator terms (over the small operand set L1) placed in every argument position of sh *)
Inner(shs, L1) == UNION {Depth1(s, L1) : s \in shs}
Depth2(sh, shs, L1) ==
  IF sh[2] = 1
  THEN {[t |-> C1(sh[1], i.t), needs |-> {sh, i.o}, o |-> sh, in |-> i.o, pos |-> "u", oc |-> i.pos \o ":" \o i.oc] : i \in Inner(shs, L1)}
  ELSE {[t |-> C2(sh[1], i.t, a), needs |-> {sh, i.o}, o |-> sh, in |-> i.o, pos |-> "l", oc |-> i.pos \o ":" \o i.oc] : i \in Inner(shs, L1)}
       \cup {[t |-> C2(sh[1], a, i.t), needs |-> {sh, i.o}, o |-> sh, in |-> i.o, pos |-> "r", oc |-> i.pos \o ":" \o i.oc] : i \in Inner(shs, L1)}

(* all operator terms with principal shape sh that tables with shapes among shs can need *)
ShapeGroup(sh, shs, names, L1) == Depth1(sh, Operands(names)) \cup Depth2(sh, shs, L1)

(* the universe of one table: the base vocabulary and every operator term all of whose          *)
(* operator shapes are operators of the table                                                   *)
InUniverse(item, tbl) == item.needs \subseteq Shapes(tbl)

(* ------------------------------------------------------------------------------------------ *)
(* random operator terms of depth <= d over the operators of a table (simulation)               *)
(* ------------------------------------------------------------------------------------------ *)
RECURSIVE RTerm(_, _, _)
RTerm(d, ops, L) ==
  IF d = 0 \/ ops = {} \/ RandomElement(1..5) = 1 THEN RandomElement(L).t
  ELSE LET o == RandomElement(ops) IN
       IF o.k = "infix" THEN C2(o.n, RTerm(d - 1, ops, L), RTerm(d - 1, ops, L))
       ELSE C1(o.n, RTerm(d - 1, ops, L))
=============================================================================
