CONSTANT Tier = "thorough"
CONSTANT Mode = "bfs"
CONSTANT Depth = 2
CONSTANT Paths <- PathsDef
CONSTANT Parent <- ParentDef
CONSTANT Base <- BaseDef
INIT Init
NEXT Next
VIEW View
INVARIANT Emit
INVARIANT WfInv
