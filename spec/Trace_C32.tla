------------------------------ MODULE Trace_C32 ------------------------------
(* Trace validation for C32: a recorded run of real threads through AtomTable::build_with   *)
(* (events emitted by the verif-hooks step sites, totally ordered by the recorder's mutex)   *)
(* must be explainable by the protocol of AtomTable.tla.  Only facts that are robust to the  *)
(* recorder's ordering are asserted (an event is emitted after its step, so lock-free reads  *)
(* may be logged late): per-thread control flow, mutual exclusion of the sections between    *)
(* "locked" and "published"/"retry" (both emitted while holding the update lock), a text is  *)
(* written at most once and with a fresh atom, and a hit returns an atom written earlier for *)
(* that very text.                                                                           *)
EXTENDS Integers, Sequences, TLC, Json, IOUtils

Rec == ndJsonDeserialize(IOEnv.TRACE)

VARIABLES l, pcT, holder, wr, cur
vars == <<l, pcT, holder, wr, cur>>

Tids == {Rec[i].tid : i \in 1..Len(Rec)}

Init == /\ l = 1
        /\ pcT = [t \in Tids |-> "idle"]
        /\ holder = 0
        /\ wr = <<>>                 \* function text -> atom, grown by "written"
        /\ cur = [t \in Tids |-> ""]

Ev == Rec[l]
Is(step) == l <= Len(Rec) /\ Ev.ev = "atom" /\ Ev.step = step /\ l' = l + 1
Move(t, from, to) == pcT[t] \in from /\ pcT' = [pcT EXCEPT ![t] = to]
Atoms == {wr[x] : x \in DOMAIN wr}

Reset == /\ l <= Len(Rec) /\ Ev.ev = "reset" /\ l' = l + 1
         /\ (\A t \in Tids : pcT[t] = "idle") /\ holder = 0
         /\ wr' = <<>> /\ UNCHANGED <<pcT, holder, cur>>

Start == Is("start") /\ Move(Ev.tid, {"idle", "retrying"}, "started")
         /\ (pcT[Ev.tid] = "retrying" => cur[Ev.tid] = Ev.text)
         /\ cur' = [cur EXCEPT ![Ev.tid] = Ev.text] /\ UNCHANGED <<holder, wr>>
ReadEpochs == Is("read_epochs") /\ Move(Ev.tid, {"started"}, "epochs") /\ cur[Ev.tid] = Ev.text /\ UNCHANGED <<holder, wr, cur>>
Hit == Is("hit") /\ Move(Ev.tid, {"epochs"}, "idle") /\ cur[Ev.tid] = Ev.text
       /\ Ev.text \in DOMAIN wr /\ wr[Ev.text] = Ev.atom
       /\ UNCHANGED <<holder, wr, cur>>
Miss == Is("miss") /\ Move(Ev.tid, {"epochs"}, "missed") /\ cur[Ev.tid] = Ev.text /\ UNCHANGED <<holder, wr, cur>>
Locked == Is("locked") /\ Move(Ev.tid, {"missed"}, "locked") /\ holder = 0 /\ holder' = Ev.tid /\ UNCHANGED <<wr, cur>>
Retry == Is("retry") /\ Move(Ev.tid, {"locked"}, "retrying") /\ holder = Ev.tid /\ holder' = 0 /\ UNCHANGED <<wr, cur>>
RecheckOk == Is("recheck_ok") /\ Move(Ev.tid, {"locked"}, "rechecked") /\ holder = Ev.tid /\ UNCHANGED <<holder, wr, cur>>
Grow == Is("grow") /\ Move(Ev.tid, {"rechecked"}, "rechecked") /\ holder = Ev.tid /\ UNCHANGED <<holder, wr, cur>>
Written == Is("written") /\ Move(Ev.tid, {"rechecked"}, "written") /\ holder = Ev.tid /\ cur[Ev.tid] = Ev.text
           /\ Ev.text \notin DOMAIN wr /\ Ev.atom \notin Atoms
           /\ wr' = (Ev.text :> Ev.atom) @@ wr /\ UNCHANGED <<holder, cur>>
Published == Is("published") /\ Move(Ev.tid, {"written"}, "idle") /\ holder = Ev.tid /\ holder' = 0
             /\ wr[Ev.text] = Ev.atom /\ UNCHANGED <<wr, cur>>

Next == Reset \/ Start \/ ReadEpochs \/ Hit \/ Miss \/ Locked \/ Retry \/ RecheckOk \/ Grow \/ Written \/ Published
Spec == Init /\ [][Next]_vars

Accepted ==
  LET d == TLCGet("stats").diameter IN
  IF d - 1 = Len(Rec) THEN TRUE
  ELSE Print(<<"REJECTED at event", d, IF d <= Len(Rec) THEN Rec[d] ELSE "eof">>, FALSE)
==============================================================================
