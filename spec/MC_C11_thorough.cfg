CONSTANTS Tier = "thorough" MaxSteps = 800 MaxAns = 5
INIT Init
NEXT Next
INVARIANT Inv
INVARIANT Emit
