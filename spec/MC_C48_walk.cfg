CONSTANT Tier = "thorough"
CONSTANT Mode = "walk"
CONSTANT Depth = 25
CONSTANT Paths <- PathsDef
CONSTANT Parent <- ParentDef
CONSTANT Base <- BaseDef
INIT Init
NEXT Next
INVARIANT Emit
INVARIANT WfInv
