CONSTANTS Tier = "thorough" InitCap = 64 MaxCap = 512
INIT Init
NEXT NextP
VIEW View
INVARIANT InBounds
