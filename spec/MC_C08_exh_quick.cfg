CONSTANTS Tier = "quick" Mode = "exh" MaxSteps = 1000000 MaxAns = 12 BoundD = 300 BoundM = 4000
INIT Init8
NEXT Next8
INVARIANT Agree
INVARIANT Emit8
INVARIANT EmitMI
