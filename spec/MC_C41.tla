------------------------------- MODULE MC_C41 -------------------------------
(* C41: JSON text and JSON terms convert faithfully both ways.                             *)
(* Every "case" state is one text (parsing groups) or one value (group "gen"); the          *)
(* specification's reading of it is printed as a vector for the driver (props/C41.py).      *)
(* Groups:                                                                                   *)
(*   val  syntax trees of depth <= 2 written with every whitespace style / escape spelling  *)
(*   str  string contents over a character vocabulary, one spelling chosen per character    *)
(*   num  a catalogue of number spellings (valid and invalid) in several contexts           *)
(*   bad  the invalid-JSON catalogue                                                         *)
(*   mut  single-character deletions / insertions / truncations of valid base texts; the    *)
(*        specification decides for each mutant whether it is still JSON and what it denotes *)
(*   gen  values handed to the generating mode; the text the implementation produces is     *)
(*        judged afterwards by Trace_C41 (Parse(text) = value)                               *)
(* Invariants of the specification itself: Parse(WriteDoc(tree, style)) = Sem(tree) for      *)
(* every tree and style (whitespace and spelling do not change the meaning),                 *)
(* Parse(SpellString(cs, hows)) = cs, and Parse(Gen(v)) = v for the canonical generator.     *)
EXTENDS JsonSpec, Json, FiniteSets

CONSTANT Tier   \* "quick" | "thorough"

Quick == Tier = "quick"
SeqsUpTo(S, n) == UNION {[1..k -> S] : k \in 0..n}

-----------------------------------------------------------------------------
(* syntax trees *)
LeafQ == {JNull, JBool(TRUE), TNum(Cps("-12")), TNum(Cps("2.5")), JStr(<<>>), JStr(<<97, 10>>)}
LeafT == LeafQ \cup {JBool(FALSE), TNum(Cps("0")), TNum(Cps("1e2")), JStr(<<34, 92, 47>>), JStr(<<233, 128512>>)}
Leaves == IF Quick THEN LeafQ ELSE LeafT
MaxM == IF Quick THEN 2 ELSE 3
Keys == {<<>>, <<107>>}                                   \* "" and "k" (a duplicate key is a case)
Arrs(S, n) == {JArr(q) : q \in SeqsUpTo(S, n)}
Objs(K, S, n) == {JObj([i \in 1..Len(q) |-> JPair(q[i][1], q[i][2])]) : q \in SeqsUpTo(K \X S, n)}
(* (operators with a parameter, so that TLC does not evaluate the big sets single-threaded at start-up) *)
D1(lv) == Arrs(lv, MaxM) \cup Objs(Keys, lv, MaxM)
RepQ == {JArr(<<>>), JObj(<<>>), JArr(<<JNull>>), JObj(<<JPair(<<107>>, JBool(TRUE))>>),
         JArr(<<TNum(Cps("2.5")), JStr(<<97, 10>>)>>), TNum(Cps("-12"))}
RepT == RepQ \cup {JObj(<<JPair(<<>>, JStr(<<>>)), JPair(<<>>, JNull)>>), JStr(<<233, 128512>>)}
Rep == IF Quick THEN RepQ ELSE RepT
D2(rp) == Arrs(rp, MaxM) \cup Objs({<<106>>}, rp, MaxM)
TreesOf(lv, rp) == lv \cup D1(lv) \cup D2(rp)

W(bv, av, em, bk, ak) == [bv |-> bv, av |-> av, em |-> em, bk |-> bk, ak |-> ak]
Mix == <<32, 10, 13, 9>>
WsStyles == <<NoWs,
              W(<<32>>, <<>>, <<>>, <<>>, <<>>), W(<<>>, <<10>>, <<>>, <<>>, <<>>), W(<<>>, <<>>, <<9>>, <<>>, <<>>),
              W(<<>>, <<>>, <<>>, <<13>>, <<>>), W(<<>>, <<>>, <<>>, <<>>, <<32>>),
              W(<<32>>, <<10>>, <<13>>, <<9>>, <<32>>), W(Mix, Mix, Mix, Mix, Mix),
              W(<<10, 10>>, <<>>, <<32, 32>>, <<>>, <<9, 13>>)>>
NStyles == Len(WsStyles)
EscStyles == <<"raw", "short", "ul", "uu">>

-----------------------------------------------------------------------------
(* strings *)
CharsQ == {97, 34, 92, 47, 10, 31, 233, 128512}
CharsT == CharsQ \cup {0, 8, 9, 12, 13, 32, 127, 8364, 55295, 57344, 65535, 65536, 1114111}
CharVoc == IF Quick THEN CharsQ ELSE CharsT
StrLen == 2
(* thorough: additionally all contents of length 3 over a small vocabulary *)
Chars3 == {97, 34, 10, 128512}

-----------------------------------------------------------------------------
(* numbers *)
NumValid == <<"0", "-0", "7", "12", "-12", "120", "1e2", "1E2", "1e+2", "1E+2", "1e0", "1e-0", "0e5", "0E-0", "12e3",
              "2.5", "-2.5", "1.50", "1.0", "0.5", "0.25", "0.125", "-0.0", "0.0", "0.5e1", "2.5e-1", "25e-1", "10e-1",
              "100e-2", "1.5e2", "1.25E+1", "5E-1", "1.0E-0", "1.0e10", "1e30", "1E400", "4294967296",
              "123456789012345678901234567890", "-98765432109876543210", "9007199254740993", "9007199254740992.0",
              "0.1", "1e-2", "1.5e-3", "-1.1", "3.14", "0.3", "0.7", "7e-1", "1.15", "4.35", "0.57", "123.456", "1.2345e-7",
              "2.5e-8", "1e-5", "1.0e-5", "0.000001", "1e23", "1.0e23", "8.41e21", "6.02214076e23", "3.141592653589793",
              "9007199254740993.0", "0.1e1", "1E-7", "0.30000000000000004", "100000000000000000000000.0", "-7E-1">>
(* thorough only (long BigInt divisions): the ends of the normal binary64 range, a subnormal *)
NumValidT == <<"1.7976931348623157e308", "2.2250738585072014e-308", "5e-324", "1.0e-300", "1e308">>
NumInvalid == <<"01", "-01", "00", "-", "+1", "1.", ".5", "-.5", "1e", "1e+", "1e-", "1.e2", "1.5.2", "1e2.5", "0x10",
                "1_000", "--1", "1-", "NaN", "-NaN", "Infinity", "-Infinity", "1e2e3", "0.", "-0.", "1.e", "1e 2", "- 1",
                "1 .5", "0b1", "1r2", "0'a", "1.0Inf", "1f", "1d2">>
NumAll == IF Quick THEN NumValid \o NumInvalid ELSE NumValid \o NumValidT \o NumInvalid
NumTexts == [i \in 1..Len(NumAll) |-> Cps(NumAll[i])]
NumCtx(n, c) == CASE c = 1 -> n
                  [] c = 2 -> <<91>> \o n \o <<93>>
                  [] c = 3 -> <<32>> \o n \o <<10>>
                  [] c = 4 -> <<91>> \o n \o <<44>> \o n \o <<93>>
                  [] c = 5 -> Cps("{\"k\":") \o n \o <<125>>
                  [] c = 6 -> <<91>> \o n \o <<32, 44, 9>> \o n \o <<32, 93>>
NCtx == 6

-----------------------------------------------------------------------------
(* invalid-JSON catalogue (every entry is checked below to be rejected by Parse) *)
BadAscii == <<"[1,]", "[,1]", "[1,,2]", "{\"a\":1,}", "{,}", "[01]", "NaN", "[NaN]", "'a'", "{'a':1}", "{\"a\" 1}",
              "{\"a\"}", "{\"a\":}", "{:1}", "{1:2}", "{a:1}", "[1] x", "[1]]", "1 2", "{}{}", "", " ", "[", "]", "{", "}",
              "[1", "{\"a\":1", "\"abc", "\"\\x41\"", "\"\\a\"", "\"\\u12\"", "\"\\u12G4\"", "\"\\U0041\"", "tru", "True",
              "TRUE", "nul", "nulll", "truefalse", "[true false]", "[1 2]", "{\"a\":1 \"b\":2}", "{\"a\":1;\"b\":2}",
              "[1;2]", "(1)", "/**/1", "//c", "[1]//", "\"\\\"", "undefined", "[\"a\",]", "{\"a\":1,,\"b\":2}",
              "\"a\" \"b\"", "[\"a\" \"b\"]", ":", ",", "\\u0041", "nan", "\"\\ud83d\\ude00", "{\"a\":1}}", "[[]", "{\"a\":{}",
              "\"\\ud83d\"", "\"\\ude00\"", "\"\\ud83d\\u0041\"", "\"\\ud83dx\"", "\"\\ude00\\ud83d\"", "\"\\ud83d\\ud83d\"",
              "\"\\uD83D\"", "\"a\\udfffb\"", "[\"\\ud800\"]", "{\"\\udc00\":1}", "\"\\ud83d\\\\ude00\"", "\"\\u 041\"",
              "[1,2", "[1,2,", "{\"a\":1,", "{\"a\"", "{\"a", "[\"", "\"\\", "\"\\u", "\"\\u004", "nul", "n", "t", "f", "-",
              "[-]", "[.]", "[+1]", "{\"a\":1,\"b\"}", "{\"a\":1 ,}", "[ , ]", "{ , }", "[1 , ]", "[null,]", "{null:1}",
              "{true:1}", "{[]:1}", "{\"a\":1,[]}", "[\"a\":1]", "{\"a\",1}", "[1}", "{\"a\":1]", "\"\\'\"", "\"\\0\"",
              "\"\\v\"", "\"\\e\"", "\"\\N\"", "\"\\B\"">>
BadCps == <<(<<34, 97, 10, 98, 34>>), (<<34, 9, 34>>), (<<34, 0, 34>>), (<<34, 31, 34>>), (<<34, 13, 34>>), (<<34, 8, 34>>),
            (<<11, 49>>), (<<12, 49>>), (<<160, 49>>), (<<49, 11>>), (<<49, 0>>), (<<0>>), (<<8232, 49>>), (<<12288, 49>>),
            (<<91, 49, 160, 93>>), (<<1633>>), (<<65297>>), (<<8220, 97, 8221>>), (<<34, 97, 34, 133>>),
            (<<123, 34, 10, 34, 58, 49, 125>>)>>
BadTexts == [i \in 1..(Len(BadAscii) + Len(BadCps)) |->
               IF i <= Len(BadAscii) THEN Cps(BadAscii[i]) ELSE BadCps[i - Len(BadAscii)]]

-----------------------------------------------------------------------------
(* mutation bases: valid texts with rich content *)
MutAscii == <<"{\"a\":[1,2.5,true],\"b\":null}", "[\"x\\n\\u00e9\",{\"k\":-1e2}]", " [ false , {} ] ",
              "{\"\":\"\\ud83d\\ude00\"}", "[[],[0.5e1],\"\\\\\\\"\"]", "-12.50E+1">>
MutAsciiT == <<"{\"a\":{\"b\":[null,{\"c\":\"d\"}]}}", "[1,[2,[3,[\"\\/\\b\\f\"]]]]", "{\"k\":1,\"k\":2}", "\"\\u0041\\uD83D\\uDE00z\"",
               "[true,false,null]", "[0,-0,1E2,2.5e-1]", "{ \"a\" : [ 1 , \"b\" ] , \"c\" : { } }">>
MutBases == IF Quick THEN [i \in 1..Len(MutAscii) |-> Cps(MutAscii[i])]
            ELSE [i \in 1..(Len(MutAscii) + Len(MutAsciiT)) |->
                    IF i <= Len(MutAscii) THEN Cps(MutAscii[i]) ELSE Cps(MutAsciiT[i - Len(MutAscii)])]
InsChars == IF Quick THEN {44, 34, 48, 32} ELSE {44, 34, 48, 32, 93, 92, 125, 58, 101, 46, 45, 117}
Delete(t, i) == SubSeq(t, 1, i - 1) \o SubSeq(t, i + 1, Len(t))
Insert(t, i, c) == SubSeq(t, 1, i - 1) \o <<c>> \o SubSeq(t, i, Len(t))       \* before position i
Mutants(t) == {Delete(t, i) : i \in 1..Len(t)}
              \cup {Insert(t, i, c) : i \in 1..(Len(t) + 1), c \in InsChars}
              \cup {SubSeq(t, 1, i) : i \in 0..(Len(t) - 1)}
              \cup {[t EXCEPT ![i] = c] : i \in 1..Len(t), c \in {44, 34}}

-----------------------------------------------------------------------------
(* values for the generating mode *)
GenStrings(voc) == {JStr(cs) : cs \in SeqsUpTo(voc, IF Quick THEN 1 ELSE 2)}
GenNumTexts == <<"0", "7", "-12", "120", "4294967296", "123456789012345678901234567890", "-98765432109876543210",
                 "2.5", "-2.5", "0.5", "0.125", "1.0", "0.0", "150.0", "1.0e10", "9007199254740992.0", "-0.25",
                 "1048576.5", "0.0009765625", "1.0e22", "-1.0e15", "123456.0",
                 "0.1", "0.3", "0.7", "-1.1", "123.456", "1.2345e-7", "2.5e-8", "6.02214076e23", "3.141592653589793", "0.57",
                 "1.15", "4.35", "1.0e23", "1.0e-5", "0.30000000000000004", "1.0e-7">>
GenNumTextsT == <<"1.7976931348623157e308", "1.0e-300">>
GenNums == {Sem(TNum(Cps(GenNumTexts[i]))) : i \in 1..Len(GenNumTexts)}
           \cup (IF Quick THEN {} ELSE {Sem(TNum(Cps(GenNumTextsT[i]))) : i \in 1..Len(GenNumTextsT)})
GenValues(trees) == {v \in {Sem(tr) : tr \in trees} : Generable(v)} \cup GenStrings(CharVoc) \cup GenNums
             \cup {JObj(<<JPair(cs.s, JArr(<<cs, n>>))>>) : cs \in {JStr(<<34, 10>>), JStr(<<128512, 31>>)}, n \in GenNums}

-----------------------------------------------------------------------------
NoCase == [text |-> <<>>, cls |-> "", chk |-> FALSE, sem |-> JNull]
Case(text, cls) == [text |-> text, cls |-> cls, chk |-> FALSE, sem |-> JNull]
Case2(text, cls, sem) == [text |-> text, cls |-> cls, chk |-> TRUE, sem |-> sem]

VARIABLES phase, grp, sub, case
vars == <<phase, grp, sub, case>>

Subs(g) == CASE g = "val" -> 1..NStyles
             [] g = "esc" -> 2..4
             [] g = "str" -> 1..4
             [] g = "str3" -> IF Quick THEN {} ELSE 1..4
             [] g = "num" -> 1..NCtx
             [] g = "bad" -> {1}
             [] g = "mut" -> 1..Len(MutBases)
             [] g = "gen" -> {1}
Groups == {"val", "esc", "str", "str3", "num", "bad", "mut", "gen"}

Init == /\ phase = "pick" /\ case = NoCase
        /\ grp \in Groups /\ sub \in Subs(grp)

HowSeqs(n, first) == {h \in [1..n -> Spellings] : n = 0 \/ h[1] = EscStyles[first]}

Cases(g, s) ==
  LET Trees == TreesOf(Leaves, Rep) IN
  CASE g = "val" -> {Case2(WriteDoc(tr, [ws |-> WsStyles[s], esc |-> "raw"]), "val", Sem(tr)) : tr \in Trees}
    [] g = "esc" -> {Case2(WriteDoc(tr, [ws |-> NoWs, esc |-> EscStyles[s]]), "esc", Sem(tr)) : tr \in Trees}
    [] g = "str" -> UNION {{Case2(SpellString(cs, h), "str", JStr(cs)) : h \in HowSeqs(Len(cs), s)}
                            : cs \in SeqsUpTo(CharVoc, StrLen)}
    [] g = "str3" -> UNION {{Case2(SpellString(cs, h), "str", JStr(cs)) : h \in HowSeqs(3, s)} : cs \in [1..3 -> Chars3]}
    [] g = "num" -> {Case(NumCtx(NumTexts[i], s), "num") : i \in 1..Len(NumTexts)}
    [] g = "bad" -> {Case(BadTexts[i], "bad") : i \in 1..Len(BadTexts)}
    [] g = "mut" -> {Case(m, "mut") : m \in Mutants(MutBases[s])}
    [] g = "gen" -> {Case2(Gen(v), "gen", v) : v \in GenValues(Trees)}

Next == /\ phase = "pick" /\ phase' = "case" /\ UNCHANGED <<grp, sub>>
        /\ case' \in Cases(grp, sub)

-----------------------------------------------------------------------------
(* a label for the driver's signatures: the text holds a \uXXXX\uXXXX surrogate-pair escape *)
HasSurPair(t) == \E p \in 1..(Len(t) - 11) :
                   /\ t[p] = 92 /\ t[p + 1] = 117 /\ IsHighSur(Hex4(t, p + 2))
                   /\ t[p + 6] = 92 /\ t[p + 7] = 117 /\ IsLowSur(Hex4(t, p + 8))

(* the specification agrees with itself (a failure stops TLC: tool error, not a violation) *)
Sane(r) ==
    /\ case.chk => r.ok /\ Strip(r.v) = Strip(case.sem)
    /\ grp = "bad" => ~r.ok
    /\ grp = "num" /\ sub = 1 => (r.ok <=> \E i \in 1..(Len(NumAll) - Len(NumInvalid)) : Cps(NumAll[i]) = case.text)

NoTerm == TAtom("")
Emit ==
  phase = "case" =>
    LET r == Parse(case.text) IN
    /\ Assert(Sane(r), <<"specification self-check failed", grp, case>>)
    /\ IF grp = "gen"
         THEN PrintT(ToJson([g |-> grp, cls |-> case.cls, text |-> case.text, ok |-> TRUE, sp |-> FALSE,
                             term |-> ToTerm(case.sem), v |-> case.sem]))
         ELSE PrintT(ToJson([g |-> grp, cls |-> case.cls, text |-> case.text, ok |-> r.ok, sp |-> HasSurPair(case.text),
                             term |-> IF r.ok THEN ToTerm(r.v) ELSE NoTerm, v |-> JNull]))
=============================================================================
