CONSTANT Tier = "thorough"
CONSTANT Mode = "bfs"
INIT Init
NEXT Next
INVARIANT Emit
INVARIANT PeekInv
INVARIANT AtEndInv
INVARIANT WfInv
INVARIANT PosInv
INVARIANT MonoInv
INVARIANT RoundTripInv
