-------------------------------- MODULE Clpz --------------------------------
(* Layer A for C27: the meaning of a finite system of clp(Z) constraints.                    *)
(*                                                                                         *)
(* Source of every choice: the documentation comment of /repo/src/lib/clpz.pl              *)
(*   - "Arithmetic constraints" table: #= #\= #>= #=< #> #< over arithmetic expressions    *)
(*     integer | variable | -E | E+E | E*E | E-E | E^E | min | max | mod (floored)         *)
(*     | rem (truncated) | abs | sign | // (truncated) | div (floored);                   *)
(*   - "Reification" table: #\ Q, P #\/ Q, P #/\ Q, P #\ Q (xor), P #<==> Q, P #==> Q,     *)
(*     P #<== Q, where P, Q are reifiable constraints (in/2 and the six relations, and     *)
(*     these connectives) or Boolean variables, "truth values [are] represented by the     *)
(*     integers 0 and 1";                                                                  *)
(*   - all_distinct/1 "True iff Vars are pairwise distinct"; all_different/1 "like         *)
(*     all_distinct/1, but with weaker propagation" (same meaning);                        *)
(*   - sum/3 "The sum of elements of the list Vars is in relation Rel to Expr";            *)
(*   - labeling/2: "Labeling is always complete, always terminates, and yields no          *)
(*     redundant solutions"; leftmost/up/step are the defaults, hence with default         *)
(*     options the solutions appear in ascending lexicographic order of Vars;              *)
(*     min(Expr)/max(Expr): "generates solutions in ascending/descending order with        *)
(*     respect to the evaluation of the arithmetic expression Expr".                       *)
(*                                                                                         *)
(* Partial operations.  An arithmetic expression has no value when a divisor (// div mod   *)
(* rem) is 0 or when an exponent is negative and the base is not 1 or -1 (the power is    *)
(* not an integer).  A relation between expressions one of which has no value does not     *)
(* hold; under reification its truth value is 0.  Settled from clpz.pl (comment above      *)
(* parse_reified/4): "the result of an expression can now also be undefined, in which     *)
(* case the constraint cannot hold", and from is/2, which raises an evaluation/type error *)
(* in exactly these cases (a goal that raises is not a goal that holds).                   *)
(*                                                                                         *)
(* Everything is native TLC integers: the models keep all values far below 2^31.           *)
EXTENDS Integers, Sequences, FiniteSets

Abs(x) == IF x < 0 THEN -x ELSE x
Sgn(x) == IF x > 0 THEN 1 ELSE IF x < 0 THEN -1 ELSE 0
Min2(x, y) == IF x <= y THEN x ELSE y
Max2(x, y) == IF x >= y THEN x ELSE y

(* integer division, all defined through division of non-negative numbers (y # 0) *)
TDiv(x, y) == Sgn(x) * Sgn(y) * (Abs(x) \div Abs(y))                \* truncating: //
FDiv(x, y) == LET q == TDiv(x, y) IN IF q * y # x /\ ((x < 0) # (y < 0)) THEN q - 1 ELSE q   \* floored: div
Rem(x, y)  == x - y * TDiv(x, y)                                    \* sign of the dividend
Mod(x, y)  == x - y * FDiv(x, y)                                    \* sign of the divisor

RECURSIVE IPow(_, _)
IPow(x, n) == IF n = 0 THEN 1 ELSE x * IPow(x, n - 1)

Val(v) == [ok |-> TRUE, v |-> v]
Undef  == [ok |-> FALSE, v |-> 0]

UnOps  == <<"-", "abs", "sign">>
BinOps == <<"+", "-", "*", "//", "div", "mod", "rem", "min", "max", "^">>
RelOps == <<"#=", "#\\=", "#<", "#=<", "#>", "#>=">>
ConnOps == <<"#\\/", "#/\\", "#\\", "#<==>", "#==>", "#<==">>

EvalUn(op, x) ==
  CASE op = "-"    -> Val(-x)
    [] op = "abs"  -> Val(Abs(x))
    [] op = "sign" -> Val(Sgn(x))

EvalBin(op, x, y) ==
  CASE op = "+"   -> Val(x + y)
    [] op = "-"   -> Val(x - y)
    [] op = "*"   -> Val(x * y)
    [] op = "min" -> Val(Min2(x, y))
    [] op = "max" -> Val(Max2(x, y))
    [] op = "//"  -> IF y = 0 THEN Undef ELSE Val(TDiv(x, y))
    [] op = "div" -> IF y = 0 THEN Undef ELSE Val(FDiv(x, y))
    [] op = "mod" -> IF y = 0 THEN Undef ELSE Val(Mod(x, y))
    [] op = "rem" -> IF y = 0 THEN Undef ELSE Val(Rem(x, y))
    [] op = "^"   -> IF y >= 0 THEN Val(IPow(x, y))
                     ELSE IF x = 1 THEN Val(1)
                     ELSE IF x = -1 THEN Val(IF (-y) % 2 = 0 THEN 1 ELSE -1)
                     ELSE Undef

(* ---------------------------------------------------------------------------------------- *)
(* Expressions:  [k |-> "int", i |-> n]  [k |-> "var", i |-> index]                          *)
(*               [k |-> "un", op, l]     [k |-> "bin", op, l, r]                             *)
(* An assignment a is a function from variable indices to integers.                         *)
RECURSIVE Eval(_, _)
Eval(e, a) ==
  CASE e.k = "int" -> Val(e.i)
    [] e.k = "var" -> Val(a[e.i])
    [] e.k = "un"  -> LET x == Eval(e.l, a) IN IF x.ok THEN EvalUn(e.op, x.v) ELSE Undef
    [] e.k = "bin" -> LET x == Eval(e.l, a)
                          y == Eval(e.r, a)
                      IN IF x.ok /\ y.ok THEN EvalBin(e.op, x.v, y.v) ELSE Undef

RelHolds(op, x, y) ==
  CASE op = "#="   -> x = y
    [] op = "#\\=" -> x # y
    [] op = "#<"   -> x < y
    [] op = "#=<"  -> x <= y
    [] op = "#>"   -> x > y
    [] op = "#>="  -> x >= y

ConnHolds(op, p, q) ==
  CASE op = "#\\/"  -> p \/ q
    [] op = "#/\\"  -> p /\ q
    [] op = "#\\"   -> p # q
    [] op = "#<==>" -> p = q
    [] op = "#==>"  -> p => q
    [] op = "#<=="  -> q => p

RECURSIVE SumSeq(_, _)
SumSeq(xs, a) == IF xs = <<>> THEN 0 ELSE Eval(Head(xs), a).v + SumSeq(Tail(xs), a)

(* ---------------------------------------------------------------------------------------- *)
(* Constraints:                                                                             *)
(*   [k |-> "rel", op, l, r]            l op r                 (reifiable)                   *)
(*   [k |-> "in", i, d]                 variable i in the set d (reifiable)                  *)
(*   [k |-> "bvar", i]                  the Boolean variable i  (reifiable)                  *)
(*   [k |-> "bint", i]                  the truth value 0 or 1  (reifiable)                  *)
(*   [k |-> "not", l]                   #\ l                    (reifiable)                  *)
(*   [k |-> "conn", op, l, r]           l op r, op a connective (reifiable)                  *)
(*   [k |-> "distinct", op, xs]         all_distinct(xs) / all_different(xs), xs leaves      *)
(*   [k |-> "sum", op, xs, r]           sum(xs, op, r), xs leaves                            *)
RECURSIVE Truth(_, _), BoolOK(_, _)
Truth(c, a) ==
  CASE c.k = "rel"  -> LET x == Eval(c.l, a)
                           y == Eval(c.r, a)
                       IN x.ok /\ y.ok /\ RelHolds(c.op, x.v, y.v)
    [] c.k = "in"   -> a[c.i] \in c.d
    [] c.k = "bvar" -> a[c.i] = 1
    [] c.k = "bint" -> c.i = 1
    [] c.k = "not"  -> ~Truth(c.l, a)
    [] c.k = "conn" -> ConnHolds(c.op, Truth(c.l, a), Truth(c.r, a))
    [] c.k = "distinct" -> \A p, q \in 1..Len(c.xs) : p < q => Eval(c.xs[p], a).v # Eval(c.xs[q], a).v
    [] c.k = "sum"  -> LET y == Eval(c.r, a) IN y.ok /\ RelHolds(c.op, SumSeq(c.xs, a), y.v)

(* a variable in Boolean position is a 0/1 variable: other values are no solutions.           *)
(* ("Let P and Q denote reifiable constraints or Boolean variables": an integer other than    *)
(* 0 and 1 is neither.  When a variable in such a position is already bound to such an        *)
(* integer at the time the constraint is posted, library(clpz) raises                         *)
(* domain_error(clpz_reifiable_expression, _) instead of failing; the driver accepts exactly  *)
(* this error in place of failure, i.e. only where BoolOK is false / no solution exists.)     *)
BoolOK(c, a) ==
  CASE c.k = "bvar" -> a[c.i] \in {0, 1}
    [] c.k = "not"  -> BoolOK(c.l, a)
    [] c.k = "conn" -> BoolOK(c.l, a) /\ BoolOK(c.r, a)
    [] OTHER -> TRUE

Holds(c, a) == BoolOK(c, a) /\ Truth(c, a)

(* ---------------------------------------------------------------------------------------- *)
(* Systems: a sequence sys of constraints over variables 1..nv with domains dom[i] (finite  *)
(* sets of integers).                                                                       *)
Assignments(nv, dom) ==
  {a \in [1..nv -> UNION {dom[i] : i \in 1..nv}] : \A i \in 1..nv : a[i] \in dom[i]}

Solutions(sys, nv, dom) ==
  {a \in Assignments(nv, dom) : \A j \in 1..Len(sys) : Holds(sys[j], a)}

RECURSIVE Sorted(_)
Sorted(S) == IF S = {} THEN <<>>
             ELSE LET m == CHOOSE x \in S : \A y \in S : x <= y IN <<m>> \o Sorted(S \ {m})

(* all assignments within the domains as a sequence of tuples in ascending lexicographic     *)
(* order (leftmost variable most significant, values ascending): the order in which label/1   *)
(* (leftmost, up) visits them; sdom[i] is the sorted sequence of the values of dom[i]         *)
RECURSIVE LexAll(_, _, _, _)
LexAll(nv, sdom, i, pre) ==
  IF i > nv THEN <<pre>>
  ELSE LET vals == sdom[i]
           RECURSIVE Over(_)
           Over(p) == IF p > Len(vals) THEN <<>>
                      ELSE LexAll(nv, sdom, i + 1, Append(pre, vals[p])) \o Over(p + 1)
       IN Over(1)

LexAssignments(nv, dom) == LexAll(nv, [i \in 1..nv |-> Sorted(dom[i])], 1, <<>>)

(* the solutions in that order *)
LexSolutions(sys, nv, dom) ==
  LET Ok(a) == \A j \in 1..Len(sys) : Holds(sys[j], a)
  IN SelectSeq(LexAssignments(nv, dom), Ok)

(* for one constraint: which of the assignments (in that order) satisfy it, as 0/1 *)
HoldsMask(c, as) == [i \in 1..Len(as) |-> IF Holds(c, as[i]) THEN 1 ELSE 0]

(* does some assignment in the domains meet a partial operation outside its domain? *)
RECURSIVE ExprDefined(_, _), AllDefined(_, _)
ExprDefined(e, a) == Eval(e, a).ok
AllDefined(c, a) ==
  CASE c.k = "rel"  -> ExprDefined(c.l, a) /\ ExprDefined(c.r, a)
    [] c.k = "not"  -> AllDefined(c.l, a)
    [] c.k = "conn" -> AllDefined(c.l, a) /\ AllDefined(c.r, a)
    [] c.k = "sum"  -> ExprDefined(c.r, a)
    [] OTHER -> TRUE

(* kinds of constraint occurring in c (coverage classes) *)
RECURSIVE ExprOps(_), Kinds(_)
ExprOps(e) ==
  CASE e.k = "un"  -> {e.op} \cup ExprOps(e.l)
    [] e.k = "bin" -> {e.op} \cup ExprOps(e.l) \cup ExprOps(e.r)
    [] OTHER -> {}
Kinds(c) ==
  CASE c.k = "rel"  -> {c.op} \cup ExprOps(c.l) \cup ExprOps(c.r)
    [] c.k = "not"  -> {"#\\1"} \cup Kinds(c.l)
    [] c.k = "conn" -> {c.op} \cup Kinds(c.l) \cup Kinds(c.r)
    [] c.k = "distinct" -> {c.op}
    [] c.k = "sum"  -> {"sum", c.op} \cup ExprOps(c.r)
    [] OTHER -> {c.k}
=============================================================================
