CONSTANTS Tier = "quick" MaxSteps = 600 MaxAns = 50
INIT Init
NEXT Next
INVARIANT Laws
INVARIANT Emit
