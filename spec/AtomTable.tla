------------------------------ MODULE AtomTable ------------------------------
(* C32: the process-wide atom table (src/atom_table.rs, AtomTable::build_with).             *)
(* Layer B: one action per step of build_with, threads as processes.  The table lives in a  *)
(* chain of RCU "epochs": inner (block + pointer to the current table version) and table     *)
(* versions (immutable sets of <<text, offset>>).  A reader holds the epochs it read; a      *)
(* writer takes the update lock, re-checks that the epochs it read are still current,       *)
(* allocates in the block (growing = copying the block into a new inner), writes the string  *)
(* and publishes a new table version.                                                        *)
(* Assumption (trusted base): RCU gives every reader a consistent snapshot of the epoch it   *)
(* read; reclamation and weak memory are not modelled.                                       *)
(* Layer A: an atom is its text: UniqueAtomPerText, TextStable.                              *)
EXTENDS Integers, Sequences, FiniteSets, TLC

CONSTANTS Threads,        \* set of thread ids (positive integers)
          Texts,          \* set of texts
          Calls,          \* Calls[t]: sequence of texts thread t interns, in order
          BlockCap,       \* entries that fit the initial block
          Recheck,        \* TRUE = the code as written; FALSE = mutant without the epoch re-check
          UseLock         \* TRUE = the code as written; FALSE = mutant without the update lock

VARIABLES
  inners,     \* sequence of [cap, blk (sequence of texts = the block's strings by offset), tbl (index into tables)]
  cur,        \* index of the current inner
  tables,     \* sequence of table versions: sets of <<text, offset>>
  lock,       \* 0 or the thread holding the update lock
  pc, be, te, \* per thread: control state, block epoch (index into inners), table epoch (index into tables)
  idx,        \* per thread: index of the call being executed
  off,        \* per thread: offset allocated by the current call
  rets        \* per thread: sequence of <<text, offset>> returned so far
vars == <<inners, cur, tables, lock, pc, be, te, idx, off, rets>>

Text(t) == Calls[t][idx[t]]
Lookup(tb, x) == {p \in tables[tb] : p[1] = x}

Init ==
  /\ inners = << [cap |-> BlockCap, blk |-> <<>>, tbl |-> 1] >>
  /\ cur = 1
  /\ tables = << {} >>
  /\ lock = 0
  /\ pc = [t \in Threads |-> IF Calls[t] = <<>> THEN "done" ELSE "start"]
  /\ be = [t \in Threads |-> 0] /\ te = [t \in Threads |-> 0]
  /\ idx = [t \in Threads |-> 1]
  /\ off = [t \in Threads |-> 0]
  /\ rets = [t \in Threads |-> <<>>]

Goto(t, l) == pc' = [pc EXCEPT ![t] = l]

Return(t, o) ==
  /\ rets' = [rets EXCEPT ![t] = Append(@, <<Text(t), o>>)]
  /\ IF idx[t] < Len(Calls[t]) THEN idx' = [idx EXCEPT ![t] = @ + 1] /\ Goto(t, "start")
     ELSE idx' = idx /\ Goto(t, "done")

(* let mut block_epoch = inner.read(); let mut table_epoch = block_epoch.table.read(); *)
ReadEpochs(t) ==
  /\ pc[t] = "start"
  /\ be' = [be EXCEPT ![t] = cur]
  /\ te' = [te EXCEPT ![t] = inners[cur].tbl]
  /\ Goto(t, "lookup")
  /\ UNCHANGED <<inners, cur, tables, lock, idx, off, rets>>

(* block_epoch.lookup_str(string): reads the block epoch's *current* table pointer again *)
LookupStep(t) ==
  /\ pc[t] = "lookup"
  /\ LET hit == Lookup(inners[be[t]].tbl, Text(t)) IN
     IF hit # {} THEN /\ Return(t, (CHOOSE p \in hit : TRUE)[2])
                      /\ UNCHANGED <<inners, cur, tables, lock, be, te, off>>
     ELSE /\ Goto(t, "lock")
          /\ UNCHANGED <<inners, cur, tables, lock, be, te, idx, off, rets>>

LockStep(t) ==
  /\ pc[t] = "lock"
  /\ IF UseLock THEN lock = 0 /\ lock' = t ELSE lock' = lock
  /\ Goto(t, "recheck")
  /\ UNCHANGED <<inners, cur, tables, be, te, idx, off, rets>>

(* same_epoch(block_epoch, inner.read()) && same_epoch(table_epoch, block_epoch.table.read()) *)
RecheckStep(t) ==
  /\ pc[t] = "recheck"
  /\ IF Recheck /\ ~(be[t] = cur /\ te[t] = inners[be[t]].tbl)
     THEN /\ lock' = (IF lock = t THEN 0 ELSE lock)        \* `continue` drops the guard
          /\ Goto(t, "start")
     ELSE /\ lock' = lock /\ Goto(t, "alloc")
  /\ UNCHANGED <<inners, cur, tables, be, te, idx, off, rets>>

(* block.alloc(size); on failure grow_new() + a fresh table Arcu cloned from table_epoch, replace inner, re-read *)
AllocStep(t) ==
  /\ pc[t] = "alloc"
  /\ LET i == inners[be[t]] IN
     IF Len(i.blk) < i.cap
     THEN /\ inners' = [inners EXCEPT ![be[t]].blk = Append(@, "")]       \* space taken, string not written yet
          /\ off' = [off EXCEPT ![t] = Len(i.blk) + 1]
          /\ Goto(t, "write")
          /\ UNCHANGED <<cur, tables, be, te>>
     ELSE /\ tables' = Append(tables, tables[te[t]])                      \* Arcu::new(table_epoch.clone())
          /\ inners' = Append(inners, [cap |-> 2 * i.cap, blk |-> i.blk, tbl |-> Len(tables) + 1])
          /\ cur' = Len(inners) + 1
          /\ be' = [be EXCEPT ![t] = Len(inners) + 1]
          /\ te' = [te EXCEPT ![t] = Len(tables) + 1]
          /\ off' = off
          /\ Goto(t, "alloc")
  /\ UNCHANGED <<lock, idx, rets>>

WriteStep(t) ==
  /\ pc[t] = "write"
  /\ inners' = [inners EXCEPT ![be[t]].blk[off[t]] = Text(t)]
  /\ Goto(t, "publish")
  /\ UNCHANGED <<cur, tables, lock, be, te, idx, off, rets>>

(* let mut table = table_epoch.clone(); table.insert(atom); block_epoch.table.replace(table); drop(guard); return *)
PublishStep(t) ==
  /\ pc[t] = "publish"
  /\ tables' = Append(tables, tables[te[t]] \cup {<<Text(t), off[t]>>})
  /\ inners' = [inners EXCEPT ![be[t]].tbl = Len(tables) + 1]
  /\ lock' = (IF lock = t THEN 0 ELSE lock)
  /\ Return(t, off[t])
  /\ UNCHANGED <<cur, be, te, off>>

Step(t) == ReadEpochs(t) \/ LookupStep(t) \/ LockStep(t) \/ RecheckStep(t) \/ AllocStep(t) \/ WriteStep(t) \/ PublishStep(t)
Next == \E t \in Threads : Step(t)
Spec == Init /\ [][Next]_vars

-----------------------------------------------------------------------------
AllReturns == UNION {{rets[t][j] : j \in 1..Len(rets[t])} : t \in Threads}

(* Layer A *)
UniqueAtomPerText == \A p, q \in AllReturns : (p[1] = q[1]) <=> (p[2] = q[2])
(* the text of every returned atom, read through the current block, is the text that was interned *)
TextStable == \A p \in AllReturns : p[2] <= Len(inners[cur].blk) /\ inners[cur].blk[p[2]] = p[1]
(* nobody's insert is lost from the current table once everybody is done *)
NoLostInsert == (\A t \in Threads : pc[t] = "done") =>
                   \A p \in AllReturns : p \in tables[inners[cur].tbl]
MutualExclusion == \A s, t \in Threads : s # t => ~(pc[s] \in {"recheck", "alloc", "write", "publish"} /\ pc[t] \in {"recheck", "alloc", "write", "publish"} /\ UseLock)
Safe == UniqueAtomPerText /\ TextStable /\ NoLostInsert /\ MutualExclusion
==============================================================================
