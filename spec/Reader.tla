------------------------------- MODULE Reader -------------------------------
(* Layer A for C17 (ReadSync): where does a clause end, and what must repeated read_term/2 deliver.   *)
(*                                                                                                  *)
(* A text is a sequence of characters (code points; a negative number -b stands for a raw byte b     *)
(* that is not part of a well-formed UTF-8 sequence).  The model is at TOKEN level (ISO/IEC 13211-1   *)
(* 6.4: tokens, 6.4.1 layout text and comments, 6.4.2 names and quoted items with the escape          *)
(* sequences of 6.4.2.1, 6.4.4 "0'c" character code constants, 6.4.8 end token): it decides where the *)
(* next clause ends, not whether its tokens form a term.  8.14.1: read_term reads up to and including *)
(* the next end token; the result is a term, or a syntax error and then "the next read continues      *)
(* after the offending clause's end token" (properties.jsonl C17).                                    *)
(*                                                                                                  *)
(*   end token   = a "." that is a token of its own (not part of a longer symbol-char token, a       *)
(*                 quoted item, a comment or 0'.) followed by a layout character, "%" or the end of  *)
(*                 the text                                                                          *)
(*   an unterminated quoted item, block comment or 0' consumes the text to its end ("open")          *)
(*   tokens but no end token before the end of the text: syntax error, text consumed ("noend")       *)
(*   only layout text (blanks, comments) before the end of the text: end_of_file ("eof")             *)
(*                                                                                                  *)
(* For every start index the table Scan(t) gives: kind, the offset q just after the end char, whether *)
(* a newline follows it (implementations differ in whether they consume it: both q and q+1 are        *)
(* admitted), ft = offset of the first token, tok = whether the clause has any token before the end   *)
(* token, bad = whether it contains a character that cannot occur outside quoted items (NUL, control  *)
(* characters, undecodable bytes) - such a clause cannot be a term -, and fz ("fuzzy") = whether it    *)
(* contains an ill-formed escape sequence or 0' followed by a non-character, where the sources do not  *)
(* determine the extent of the broken token: then no position is demanded for that clause.            *)
EXTENDS Integers, Sequences, FiniteSets

EOFc == -1000
At(t, i) == IF i >= 1 /\ i <= Len(t) THEN t[i] ELSE EOFc

LayoutChars == {32, 9, 10, 13, 11, 12}
(* # $ & * + - . / : < = > ? @ ^ ~ and the backslash: symbol-char tokens take the longest match *)
GraphicChars == {35, 36, 38, 42, 43, 45, 46, 47, 58, 60, 61, 62, 63, 64, 94, 126, 92}
(* ! ( ) , ; [ ] { } |   ("%" starts a comment) *)
SoloChars == {33, 40, 41, 44, 59, 91, 93, 123, 125, 124}
QuoteChars == {39, 34, 96}
Digit(c) == c >= 48 /\ c <= 57
(* letters, "_" and (7.1.? "extended characters", implementation defined) every non-ASCII character *)
Letter(c) == (c >= 97 /\ c <= 122) \/ (c >= 65 /\ c <= 90) \/ c = 95 \/ c >= 160
Alnum(c) == Digit(c) \/ Letter(c)
HexDigit(c) == Digit(c) \/ (c >= 97 /\ c <= 102) \/ (c >= 65 /\ c <= 70)
OctDigit(c) == c >= 48 /\ c <= 55
InClass(cl, c) ==
  CASE cl = "alnum" -> Alnum(c) [] cl = "digit" -> Digit(c) [] cl = "graphic" -> c \in GraphicChars
    [] cl = "hex" -> HexDigit(c) [] cl = "oct" -> OctDigit(c) [] OTHER -> FALSE

RECURSIVE RunEnd(_, _, _)            \* first index >= i whose character is not in the class
RunEnd(t, i, cl) == IF InClass(cl, At(t, i)) THEN RunEnd(t, i + 1, cl) ELSE i

(* 6.4.2.1: \\ \' \" \` , \a \b \f \n \r \t \v , \x hex+ \ , oct+ \ , and \ newline (continuation) *)
EscEnd(t, i) ==                       \* t[i] is the backslash; -> [j: index after the escape, ok]
  LET c == At(t, i + 1) IN
  IF c \in {92, 39, 34, 96, 97, 98, 102, 110, 114, 116, 118, 10} THEN [j |-> i + 2, ok |-> TRUE]
  ELSE IF c = 120
       THEN LET h == RunEnd(t, i + 2, "hex") IN
            IF h > i + 2 /\ At(t, h) = 92 THEN [j |-> h + 1, ok |-> TRUE] ELSE [j |-> i + 1, ok |-> FALSE]
  ELSE IF OctDigit(c)
       THEN LET h == RunEnd(t, i + 1, "oct") IN
            IF At(t, h) = 92 THEN [j |-> h + 1, ok |-> TRUE] ELSE [j |-> i + 1, ok |-> FALSE]
  ELSE [j |-> i + 1, ok |-> FALSE]

RECURSIVE QuotedEnd(_, _, _, _, _)    \* i: index after the opening quote q; bad: an undecodable byte was met
QuotedEnd(t, i, q, fz, bad) ==
  LET c == At(t, i) IN
  IF c = EOFc THEN [j |-> Len(t) + 1, open |-> TRUE, fz |-> fz, bad |-> bad]
  ELSE IF c = q THEN (IF At(t, i + 1) = q THEN QuotedEnd(t, i + 2, q, fz, bad)
                      ELSE [j |-> i + 1, open |-> FALSE, fz |-> fz, bad |-> bad])
  ELSE IF c = 92 THEN LET e == EscEnd(t, i) IN QuotedEnd(t, e.j, q, fz \/ ~e.ok, bad)
  ELSE QuotedEnd(t, i + 1, q, fz, bad \/ c < 0)

Tok(j, kind, fz, bad) == [j |-> j, kind |-> kind, fz |-> fz, bad |-> bad]
(* the token that starts at index i (t[i] is neither layout nor the start of a comment) *)
Token(t, i) ==
  LET c == t[i] IN
  IF c \in QuoteChars
  THEN LET q == QuotedEnd(t, i + 1, c, FALSE, FALSE) IN Tok(q.j, IF q.open THEN "open" ELSE "tok", q.fz, q.bad)
  ELSE IF c = 48 /\ At(t, i + 1) = 39                                          \* 0'
  THEN LET d == At(t, i + 2) IN
       IF d = EOFc THEN Tok(Len(t) + 1, "open", FALSE, FALSE)
       ELSE IF d = 39 THEN (IF At(t, i + 3) = 39 THEN Tok(i + 4, "tok", FALSE, FALSE) ELSE Tok(i + 1, "tok", FALSE, FALSE))
       ELSE IF d = 92 THEN LET e == EscEnd(t, i + 2) IN Tok(e.j, "tok", ~e.ok \/ At(t, i + 3) = 10, FALSE)
       ELSE IF Alnum(d) \/ d \in GraphicChars \/ d \in SoloChars \/ d \in {32, 34, 96, 37} THEN Tok(i + 3, "tok", FALSE, FALSE)
       ELSE Tok(i + 3, "tok", TRUE, FALSE)
  ELSE IF Digit(c)
  THEN LET a == RunEnd(t, i, "alnum") IN
       IF RunEnd(t, i, "digit") = a /\ At(t, a) = 46 /\ Digit(At(t, a + 1))
       THEN Tok(RunEnd(t, a + 1, "alnum"), "tok", FALSE, FALSE)                \* fraction
       ELSE Tok(a, "tok", FALSE, FALSE)
  ELSE IF Alnum(c) THEN Tok(RunEnd(t, i, "alnum"), "tok", FALSE, FALSE)
  ELSE IF c \in GraphicChars
  THEN LET g == RunEnd(t, i, "graphic")  nx == At(t, g) IN
       IF g = i + 1 /\ c = 46 /\ (nx = EOFc \/ nx \in LayoutChars \/ nx = 37) THEN Tok(g, "end", FALSE, FALSE)
       ELSE Tok(g, "tok", FALSE, FALSE)
  ELSE IF c \in SoloChars THEN Tok(i + 1, "tok", FALSE, FALSE)
  ELSE Tok(i + 1, "tok", FALSE, TRUE)

RECURSIVE LineEnd(_, _)               \* index after the newline that ends a % comment (or after the text)
LineEnd(t, i) == IF At(t, i) = EOFc THEN i ELSE IF t[i] = 10 THEN i + 1 ELSE LineEnd(t, i + 1)
RECURSIVE CommentEnd(_, _)            \* index after the closing "*/", 0 if there is none
CommentEnd(t, i) ==
  IF At(t, i) = EOFc THEN 0 ELSE IF t[i] = 42 /\ At(t, i + 1) = 47 THEN i + 2 ELSE CommentEnd(t, i + 1)

Entry(kind, q, nl, ft, tok, fz, bad) == [kind |-> kind, q |-> q, nl |-> nl, ft |-> ft, tok |-> tok, fz |-> fz, bad |-> bad]

(* the table, built from the end of the text: tbl[k] is the entry of index i + k, so that later     *)
(* entries are shared (a read that starts at any index meets the same tokens from the first token    *)
(* boundary on)                                                                                      *)
RECURSIVE Build(_, _, _)
Build(t, i, tbl) ==
  IF i = 0 THEN tbl
  ELSE LET n == Len(t)
           c == t[i]
           at(j) == tbl[j - i]                                              \* entry of index j > i
           e == IF c \in LayoutChars THEN at(i + 1)
                ELSE IF c = 37 THEN at(LineEnd(t, i))
                ELSE IF c = 47 /\ At(t, i + 1) = 42
                     THEN LET k == CommentEnd(t, i + 2) IN
                          IF k = 0 THEN Entry("open", n, FALSE, i - 1, FALSE, FALSE, FALSE) ELSE at(k)
                ELSE LET tk == Token(t, i) IN
                     IF tk.kind = "end" THEN Entry("clause", i, At(t, i + 1) = 10, i - 1, FALSE, FALSE, FALSE)
                     ELSE IF tk.kind = "open" THEN Entry("open", n, FALSE, i - 1, TRUE, tk.fz, tk.bad)
                     ELSE LET r == at(tk.j) IN
                          [r EXCEPT !.tok = TRUE, !.fz = @ \/ tk.fz, !.bad = @ \/ tk.bad, !.ft = i - 1]
       IN Build(t, i - 1, <<e>> \o tbl)

(* Scan(t)[p + 1] describes a read that starts at offset p (0 <= p <= Len(t)) *)
Scan(t) ==
  LET n == Len(t)
      raw == Build(t, n, <<Entry("eof", n, FALSE, n, FALSE, FALSE, FALSE)>>)
  IN [k \in 1..(n + 1) |-> IF raw[k].kind = "eof" /\ raw[k].tok THEN [raw[k] EXCEPT !.kind = "noend"] ELSE raw[k]]

(* ReadSync: the sequence of reads of the whole text, each [kind, from, to] (the model continues       *)
(* after the newline that follows an end char)                                                        *)
RECURSIVE ReadsFrom(_, _, _)
ReadsFrom(t, sc, p) ==
  LET e == sc[p + 1] IN
  IF e.kind = "eof" THEN <<[kind |-> "eof", from |-> p, to |-> Len(t)]>>
  ELSE IF e.kind = "clause"
       THEN LET to == IF e.nl THEN e.q + 1 ELSE e.q IN <<[kind |-> "clause", from |-> p, to |-> to]>> \o ReadsFrom(t, sc, to)
       ELSE <<[kind |-> e.kind, from |-> p, to |-> Len(t)]>> \o ReadsFrom(t, sc, Len(t))
ReadSync(t) == ReadsFrom(t, Scan(t), 0)

(* byte offsets: Boff(t)[p + 1] = number of bytes of the first p characters *)
W(c) == IF c < 0 THEN 1 ELSE IF c < 128 THEN 1 ELSE IF c < 2048 THEN 2 ELSE IF c < 65536 THEN 3 ELSE 4
RECURSIVE BoffFrom(_, _, _)
BoffFrom(t, i, acc) == IF i > Len(t) THEN <<acc>> ELSE <<acc>> \o BoffFrom(t, i + 1, acc + W(t[i]))
Boff(t) == BoffFrom(t, 1, 0)
=============================================================================
