CONSTANT Tier = "thorough"
CONSTANT Mode = "conf"
INIT Init
NEXT Next
INVARIANT Emit
