CONSTANTS Tier = "quick" K = 2
INIT Init
NEXT Next
INVARIANT Sane
INVARIANT Emit
