--------------------------------- MODULE Dcg ---------------------------------
(* Layer A for C39: a *direct* operational semantics of definite clause grammar bodies.          *)
(*                                                                                               *)
(* Prolog.tla is not modified.  StepD(m) looks at the goal on top of the goal stack; the goal     *)
(* forms '$dcg'(Body, S0, S), phrase/2 and phrase/3 are executed here, everything else is         *)
(* delegated to Prolog!Step.  There is no translation of grammar bodies to Prolog bodies in the   *)
(* specification: a grammar rule   H --> B   is the clause   H+(S0,S) :- '$dcg'(B, S0, S)   and    *)
(* '$dcg' is *executed* on the grammar body, construct by construct, with S0 the list before      *)
(* and S the list after the part of the input that the body describes:                            *)
(*                                                                                               *)
(*   []                 S0 = S                                                                    *)
(*   [t1,..,tn], "str"  S0 = [t1,..,tn|S]   (double_quotes = chars: "ab" *is* the list [a,b])     *)
(*   NT(Args)           the goal NT(Args, S0, S)       (call//N is the non-terminal call(G,Args)) *)
(*   (A, B)             A from S0 to a fresh S1, then B from S1 to S                              *)
(*   (A ; B), (A | B)   A from S0 to S, on backtracking B from S0 to S                            *)
(*   (C -> T ; E)       first solution of C from S0 to S1 commits to T from S1 to S, if C has     *)
(*                      none, E from S0 to S; a cut in C is local to C                            *)
(*   {G}                G as a goal of the rule (a cut in G cuts the rule), S0 = S                *)
(*   !                  removes the choice points created since the rule was entered, S0 = S      *)
(*   call(G)            call(G, S0, S)                                                            *)
(*   phrase(B)          phrase(B, S0, S)                                                          *)
(*   V (a variable when the rule is read / when phrase/3 starts)   phrase(V, S0, S)               *)
(*   H, PB --> B        B from S0 to S1 and S = PB prepended to S1 (pushback)                      *)
(*   phrase(B, L, R)    instantiation_error if B is unbound; otherwise B (with the bindings of    *)
(*                      that moment) from L to R, opaque to cut (dcgs.pl: call(M:Body))            *)
(*   phrase(B, L)       phrase(B, L, [])                                                          *)
(*                                                                                               *)
(* Documented Scryer choices (src/lib/dcgs.pl): \+//1 and if-then without else are "existence     *)
(* implementation defined" in the ISO DCG draft (7.14.11, 7.14.12) and are rejected with          *)
(* representation_error(dcg_body); the whole body is inspected before any part of it runs.        *)
(* Rules containing them are rejected when the program is read, which is outside this model:      *)
(* executing such a body from a rule ends the behaviour with status "unspec" (never emitted),     *)
(* as do terminal "lists" that are not proper lists and module-qualified bodies.                  *)
EXTENDS Prolog

S0v == V("$S0")
Sv  == V("$S")
S1v == V("$S1")

Dcg3(b, s0, s) == C3("$dcg", b, s0, s)
ReprErr == ErrTerm(C1("representation_error", A("dcg_body")))

(* a grammar rule [h |-> head, pb |-> sequence of pushback terminals, b |-> body] as a clause *)
RuleClause(r) ==
  [h |-> C(r.h.n, r.h.a \o <<S0v, Sv>>),
   b |-> IF r.pb = <<>> THEN Dcg3(r.b, S0v, Sv)
         ELSE Conj(Dcg3(r.b, S0v, S1v), Eq(Sv, PListOf(r.pb, S1v)))]

(* does the control skeleton of body b (taken literally: b is what the reader / phrase sees)     *)
(* contain a construct that Scryer rejects?                                                      *)
RECURSIVE DcgBad(_)
DcgBad(b) ==
  IF b.t # "c" THEN FALSE
  ELSE IF IsF(b, ",", 2) \/ IsF(b, "|", 2) THEN DcgBad(b.a[1]) \/ DcgBad(b.a[2])
  ELSE IF IsF(b, ";", 2) THEN
         (IF IsF(b.a[1], "->", 2) THEN DcgBad(b.a[1].a[1]) \/ DcgBad(b.a[1].a[2]) ELSE DcgBad(b.a[1]))
         \/ DcgBad(b.a[2])
  ELSE IsF(b, "\\+", 1) \/ IsF(b, "->", 2)

(* constructs whose treatment is outside the specified fragment *)
RECURSIVE DcgOut(_)
DcgOut(b) ==
  IF b.t = "i" THEN TRUE
  ELSE IF b.t # "c" THEN FALSE
  ELSE IF IsF(b, ",", 2) \/ IsF(b, "|", 2) THEN DcgOut(b.a[1]) \/ DcgOut(b.a[2])
  ELSE IF IsF(b, ";", 2) THEN
         (IF IsF(b.a[1], "->", 2) THEN DcgOut(b.a[1].a[1]) \/ DcgOut(b.a[1].a[2]) ELSE DcgOut(b.a[1]))
         \/ DcgOut(b.a[2])
  ELSE IF IsF(b, ".", 2) THEN ~IsList(EmptyStore, b)
  ELSE IsF(b, ":", 2) \/ IsF(b, "phrase", 2) \/ IsF(b, "phrase", 3)

Unspec(m) == Finish(m, "unspec")

RECURSIVE Items(_)
Items(l) == IF IsF(l, ".", 2) THEN <<l.a[1]>> \o Items(l.a[2]) ELSE <<>>

(* unify and continue / backtrack *)
UnifyCont(m, rest, x, y) ==
  LET u == Unify(m.st, x, y)
  IN IF u.cyc THEN Finish(m, "cyclic")
     ELSE IF u.ok THEN [m EXCEPT !.st = u.st, !.gs = rest]
     ELSE Backtrack(m)

ExecDcg(m, fr, rest) ==
  LET b  == fr.g.a[1]          \* the body as written: *not* dereferenced
      s0 == fr.g.a[2]
      s  == fr.g.a[3]
      cb == fr.cb
      h0 == Len(m.cps)
  IN
  IF b.t = "v" THEN [m EXCEPT !.gs = <<F(C3("phrase", b, s0, s), cb)>> \o rest]
  ELSE IF b.t = "i" THEN Unspec(m)
  ELSE
  CASE IsA(b, "[]") -> UnifyCont(m, rest, s0, s)
    [] IsF(b, ".", 2) ->
         IF ~IsList(EmptyStore, b) THEN Unspec(m)
         ELSE UnifyCont(m, rest, s0, PListOf(Items(b), s))
    [] IsF(b, ",", 2) ->
         LET mid == VI("_S", m.k) IN
         [m EXCEPT !.k = m.k + 1,
                   !.gs = <<F(Dcg3(b.a[1], s0, mid), cb), F(Dcg3(b.a[2], mid, s), cb)>> \o rest]
    [] IsF(b, ";", 2) /\ IsF(b.a[1], "->", 2) ->
         LET mid == VI("_S", m.k) IN
         [m EXCEPT !.k = m.k + 1,
                   !.cps = Append(m.cps, CP("alt", <<F(Dcg3(b.a[2], s0, s), cb)>> \o rest, m.st, None, None)),
                   !.gs = <<F(Dcg3(b.a[1].a[1], s0, mid), h0 + 1), F(C1("$cut", I(h0)), 0),
                            F(Dcg3(b.a[1].a[2], mid, s), cb)>> \o rest]
    [] (IsF(b, ";", 2) /\ ~IsF(b.a[1], "->", 2)) \/ (IsF(b, "|", 2) /\ ~IsF(b.a[1], "->", 2)) ->
         [m EXCEPT !.cps = Append(m.cps, CP("alt", <<F(Dcg3(b.a[2], s0, s), cb)>> \o rest, m.st, None, None)),
                   !.gs = <<F(Dcg3(b.a[1], s0, s), cb)>> \o rest]
    [] IsF(b, "{}", 1) ->
         LET g == b.a[1] IN
         [m EXCEPT !.gs = <<F(IF g.t = "v" THEN Call1(g) ELSE g, cb), F(Eq(s0, s), cb)>> \o rest]
    [] IsA(b, "!") ->
         [m EXCEPT !.cps = SubSeq(m.cps, 1, cb), !.gs = <<F(Eq(s0, s), cb)>> \o rest]
    [] b.t = "c" /\ b.n = "call" ->
         [m EXCEPT !.gs = <<F(C("call", b.a \o <<s0, s>>), cb)>> \o rest]
    [] IsF(b, "phrase", 1) ->
         [m EXCEPT !.gs = <<F(C3("phrase", b.a[1], s0, s), cb)>> \o rest]
    [] IsF(b, "\\+", 1) \/ IsF(b, "->", 2) \/ (IsF(b, "|", 2) /\ IsF(b.a[1], "->", 2)) \/ IsF(b, ":", 2)
         \/ IsF(b, "phrase", 2) \/ IsF(b, "phrase", 3) -> Unspec(m)
    [] OTHER ->      \* a non-terminal: atom or compound
         [m EXCEPT !.gs = <<F(C(b.n, b.a \o <<s0, s>>), cb)>> \o rest]

ExecPhrase(m, fr, rest) ==
  LET g  == fr.g
      d  == Deref(m.st, g.a[1])
      h0 == Len(m.cps)
  IN IF Len(g.a) = 2 THEN [m EXCEPT !.gs = <<F(C3("phrase", g.a[1], g.a[2], Nil), fr.cb)>> \o rest]
     ELSE IF d.t = "v" THEN Throw(m, InstErr)
     ELSE LET b == Apply(m.st, d) IN
          IF DcgBad(b) THEN Throw(m, ReprErr)
          ELSE IF DcgOut(b) THEN Unspec(m)
          ELSE [m EXCEPT !.gs = <<F(Dcg3(b, g.a[2], g.a[3]), h0)>> \o rest]

StepD(m) ==
  IF m.gs = <<>> \/ m.steps >= MaxSteps THEN Step(m)
  ELSE LET fr == m.gs[1]
           g  == Deref(m.st, fr.g)
           m0 == [m EXCEPT !.steps = m.steps + 1]
       IN IF IsF(g, "$dcg", 3) THEN ExecDcg(m0, [fr EXCEPT !.g = g], Tail(m.gs))
          ELSE IF IsF(g, "phrase", 2) \/ IsF(g, "phrase", 3) THEN ExecPhrase(m0, [fr EXCEPT !.g = g], Tail(m.gs))
          ELSE Step(m)

(* a machine loaded with grammar rules gram, helper clauses prog and query q *)
LoadD(gram, prog, q) ==
  LET l == Load([j \in 1..Len(gram) |-> RuleClause(gram[j])] \o prog, {}, q) IN
  [phase |-> l.phase, status |-> l.status, steps |-> l.steps, prog |-> prog, q |-> l.q, qv |-> l.qv,
   db |-> l.db, nid |-> l.nid, dyn |-> l.dyn, static |-> l.static, st |-> l.st, gs |-> l.gs, cps |-> l.cps,
   k |-> l.k, ans |-> l.ans, ball |-> l.ball, lh |-> l.lh, out |-> l.out, gv |-> l.gv, ve |-> l.ve,
   gram |-> gram]

RECURSIVE RunD(_)
RunD(m) == IF m.phase = "done" THEN m ELSE RunD(StepD(m))
==============================================================================
