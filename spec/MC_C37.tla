------------------------------- MODULE MC_C37 -------------------------------
(* C37 (reduced scope): hashes and encodings are byte-exact.                                *)
(* Codec groups: every "case" state is one call whose result Codec.tla fixes; it is printed  *)
(* as a vector [k, inp, pad, url, dflt, ok, out, why] and replayed by props/C37.py:           *)
(*   hexenc  hex_bytes(-Hex, +Bytes)            hexdec  hex_bytes(+Hex, -Bytes)               *)
(*   b64enc  chars_base64(+Cs, -B64, Options)   b64dec  chars_base64(-Cs, +B64, Options)      *)
(*   u8enc   chars_utf8bytes(+Cs, -Bytes)       u8dec   chars_utf8bytes(-Cs, +Bytes)          *)
(* Workload groups for the crypto laws (judged by Trace_C37 / CryptoLaws, impl -> spec):      *)
(*   hash    crypto_data_hash/3 requests [alg, enc, chars, data = the bytes hashed, mac, key] *)
(*   aead    crypto_data_encrypt/6 requests [key, iv, aad, enc, chars, data = plaintext bytes]*)
(* The specification checks itself on every encode case: Decode(Encode(x)) = x.               *)
EXTENDS Codec, Json, FiniteSets

CONSTANT Tier   \* "quick" | "thorough"
Quick == Tier = "quick"
SeqsUpTo(S, n) == UNION {[1..k -> S] : k \in 0..n}
Sample(n) == [i \in 1..n |-> (i * 37 + n * 11) % 256]
Samples == IF Quick THEN {Sample(n) : n \in {5, 16, 64}} ELSE {Sample(n) : n \in 5..64}

-----------------------------------------------------------------------------
ByteAlpha == {0, 1, 65, 127, 128, 255}
MaxLen == IF Quick THEN 3 ELSE 4
HexEncInputs == SeqsUpTo(ByteAlpha, MaxLen) \cup Samples
                \cup {<<256>>, <<-1>>, <<0, 256>>, <<65, -1>>, <<1000>>}          \* not bytes: no encoding
HexCharsQ == {48, 57, 97, 102, 65, 70, 103, 71, 32}                               \* 0 9 a f A F g G space
HexCharsT == HexCharsQ \cup {47, 58, 64, 96}                                      \* just outside the digit/letter ranges
HexDecInputs == (IF Quick THEN SeqsUpTo(HexCharsQ, 3) ELSE SeqsUpTo(HexCharsT, 4))
                \cup {HexEncode(s) : s \in Samples}
                \cup {[i \in 1..Len(h) |-> IF h[i] >= 97 THEN h[i] - 32 ELSE h[i]] : h \in {HexEncode(s) : s \in Samples}}

B64ByteAlpha == {0, 1, 65, 127, 128, 251, 255}
B64EncInputs == SeqsUpTo(B64ByteAlpha, MaxLen) \cup Samples
                \cup {<<8364>>, <<65, 256>>, <<128512, 65>>}                       \* not octets: no encoding
B64CharsQ == {65, 81, 66, 47, 95, 61}                                             \* A Q B / _ =
B64CharsT == B64CharsQ \cup {43, 45, 33, 119}                                     \* + - ! w
Opts == {<<p, u>> : p \in BOOLEAN, u \in BOOLEAN}                                 \* <<padding, url charset>>
Drop1(t) == SubSeq(t, 1, Len(t) - 1)
B64DecInputs == (IF Quick THEN SeqsUpTo(B64CharsQ, 4) ELSE SeqsUpTo(B64CharsT, 4))
                \cup UNION {{B64Encode(s, o[1], o[2]), Drop1(B64Encode(s, o[1], o[2])), B64Encode(s, o[1], o[2]) \o <<61>>,
                             <<65>> \o B64Encode(s, o[1], o[2]), B64Encode(s, o[1], o[2]) \o <<10>>}
                            : s \in Samples \cup SeqsUpTo({251, 255}, 3), o \in Opts}

CharAlphaQ == {65, 233, 8364, 128512, 0, 65533}
CharAlphaT == CharAlphaQ \cup {127, 128}
Boundary == {127, 128, 2047, 2048, 55295, 57344, 65535, 65536, 1114111}
U8EncInputs == (IF Quick THEN SeqsUpTo(CharAlphaQ, 3) ELSE SeqsUpTo(CharAlphaT, 4))
               \cup {<<c>> : c \in Boundary} \cup {<<65, c, 65>> : c \in Boundary}
Units == {<<65>>, <<195, 169>>, <<226, 130, 172>>, <<240, 159, 152, 128>>, <<0>>, <<239, 191, 189>>,
          <<128>>, <<192, 128>>, <<195>>, <<226, 130>>, <<237, 160, 128>>, <<244, 144, 128, 128>>, <<255>>,
          <<224, 128, 128>>, <<193, 191>>, <<240, 159, 152>>, <<240, 128, 128, 128>>, <<224, 159, 191>>,
          <<237, 159, 191>>, <<238, 128, 128>>, <<244, 143, 191, 191>>, <<248, 136, 128, 128, 128>>, <<195, 65>>}
U8ByteAlphaQ == {65, 128, 169, 195, 226, 130, 172, 192, 237, 240}
U8ByteAlphaT == U8ByteAlphaQ \cup {159, 152, 244, 255}
U8DecInputs == {Concat(q) : q \in SeqsUpTo(Units, IF Quick THEN 2 ELSE 3)}
               \cup (IF Quick THEN SeqsUpTo(U8ByteAlphaQ, 3) ELSE SeqsUpTo(U8ByteAlphaT, 4))
               \cup {Utf8Encode(<<c>>) : c \in Boundary}

-----------------------------------------------------------------------------
(* crypto workload *)
Algs == {"ripemd160", "sha256", "sha384", "sha512", "sha512_256", "sha3_224", "sha3_256", "sha3_384", "sha3_512",
         "blake2s256", "blake2b512"}
HmacAlgs == {"sha256", "sha384", "sha512"}
DataSet == {<<"utf8", <<>>>>, <<"utf8", <<65>>>>, <<"utf8", <<97, 98, 99>>>>, <<"utf8", <<233>>>>, <<"utf8", <<128512>>>>,
            <<"utf8", <<65, 0>>>>, <<"octet", <<>>>>, <<"octet", <<65>>>>, <<"octet", <<97, 98, 99>>>>,
            <<"octet", <<195, 169>>>>, <<"octet", <<128>>>>, <<"octet", <<255, 0>>>>}
           \cup (IF Quick THEN {} ELSE {<<"octet", Sample(64)>>, <<"utf8", <<8364, 8364, 65>>>>, <<"octet", Sample(56)>>,
                                         <<"octet", Sample(55)>>})
(* the bytes that are hashed / encrypted (documentation of the encoding option) *)
DataBytes(d) == IF d[1] = "utf8" THEN Utf8Encode(d[2]) ELSE d[2]
LongKey == [i \in 1..130 |-> i % 256]
MacKeys == {<<1, 2, 3>>, <<>>, LongKey}

K1 == [i \in 1..32 |-> 7]
K2 == [i \in 1..32 |-> i - 1]
IV1 == [i \in 1..12 |-> 1]
IV2 == [i \in 1..12 |-> 12 - i]
AeadKeys == {K1, K2, SubSeq(K2, 1, 31)}                                           \* the last one is too short
AeadIvs == {IV1, IV2, SubSeq(IV2, 1, 11)}
Aads == {<<>>, <<104, 100, 114>>}
AeadData == DataSet \cup {<<"octet", Sample(64)>>, <<"utf8", <<104, 233, 108, 108, 111>>>>}

-----------------------------------------------------------------------------
VARIABLES phase, grp, case
vars == <<phase, grp, case>>
Groups == {"hexenc", "hexdec", "b64enc", "b64dec", "u8enc", "u8dec", "hash", "aead"}

C(inp, pad, url, dflt) == [inp |-> inp, pad |-> pad, url |-> url, dflt |-> dflt,
                           alg |-> "", enc |-> "", mac |-> FALSE, key |-> <<>>, iv |-> <<>>, aad |-> <<>>]
Plain(inp) == C(inp, TRUE, FALSE, FALSE)
NoCase == Plain(<<>>)

Cases(g) ==
  CASE g = "hexenc" -> {Plain(x) : x \in HexEncInputs}
    [] g = "hexdec" -> {Plain(x) : x \in HexDecInputs}
    [] g = "b64enc" -> {C(x, o[1], o[2], FALSE) : x \in B64EncInputs, o \in Opts} \cup {C(x, TRUE, FALSE, TRUE) : x \in B64EncInputs}
    [] g = "b64dec" -> {C(x, o[1], o[2], FALSE) : x \in B64DecInputs, o \in Opts}
                       \cup {C(x, TRUE, FALSE, TRUE) : x \in SeqsUpTo(B64CharsQ, 2) \cup {B64Encode(s, TRUE, FALSE) : s \in Samples}}
    [] g = "u8enc"  -> {Plain(x) : x \in U8EncInputs}
    [] g = "u8dec"  -> {Plain(x) : x \in U8DecInputs}
    [] g = "hash"   -> {[Plain(d[2]) EXCEPT !.alg = a, !.enc = d[1]] : a \in Algs, d \in DataSet}
                       \cup {[Plain(d[2]) EXCEPT !.alg = a, !.enc = d[1], !.mac = TRUE, !.key = k]
                               : a \in HmacAlgs, d \in DataSet, k \in MacKeys}
                       \cup {[Plain(d[2]) EXCEPT !.alg = a, !.enc = d[1], !.mac = TRUE, !.key = <<1, 2, 3>>]
                               : a \in Algs \ HmacAlgs, d \in {<<"utf8", <<97, 98, 99>>>>, <<"octet", <<128>>>>}}
    [] g = "aead"   -> {[Plain(d[2]) EXCEPT !.enc = d[1], !.key = k, !.iv = iv, !.aad = ad]
                               : d \in AeadData, k \in AeadKeys, iv \in AeadIvs, ad \in Aads}

Init == phase = "pick" /\ grp \in Groups /\ case = NoCase
Next == phase = "pick" /\ phase' = "case" /\ UNCHANGED grp /\ case' \in Cases(grp)

-----------------------------------------------------------------------------
Res(ok, out, why) == [ok |-> ok, out |-> out, why |-> why]
Expect ==
  CASE grp = "hexenc" -> IF IsBytes(case.inp) THEN Res(TRUE, HexEncode(case.inp), "") ELSE Res(FALSE, <<>>, "notbytes")
    [] grp = "hexdec" -> LET r == HexDecode(case.inp) IN Res(r.ok, r.bs, IF r.ok THEN "" ELSE "nothex")
    [] grp = "b64enc" -> IF IsBytes(case.inp) THEN Res(TRUE, B64Encode(case.inp, case.pad, case.url), "")
                         ELSE Res(FALSE, <<>>, "notoctets")
    [] grp = "b64dec" -> LET r == B64Decode(case.inp, case.pad, case.url) IN Res(r.ok, r.bs, IF r.ok THEN "" ELSE "notbase64")
    [] grp = "u8enc"  -> Res(TRUE, Utf8Encode(case.inp), "")
    [] grp = "u8dec"  -> LET r == Utf8Decode(case.inp) IN Res(r.ok, r.cs, r.why)
    [] OTHER          -> Res(TRUE, DataBytes(<<case.enc, case.inp>>), "")        \* workload: out = the bytes

SelfCheck(e) ==
  CASE grp = "hexenc" -> e.ok => (HexDecode(e.out) = [ok |-> TRUE, bs |-> case.inp] /\ IsLowerHex(e.out))
    [] grp = "b64enc" -> e.ok => B64Decode(e.out, case.pad, case.url) = [ok |-> TRUE, bs |-> case.inp]
    [] grp = "u8enc"  -> LET r == Utf8Decode(e.out) IN r.ok /\ r.cs = case.inp
    [] grp = "hexdec" -> e.ok => HexEncode(e.out) = [i \in 1..Len(case.inp) |-> IF case.inp[i] \in 65..70 THEN case.inp[i] + 32 ELSE case.inp[i]]
    [] grp = "b64dec" -> e.ok => B64Encode(e.out, case.pad, case.url) = case.inp
    [] grp = "u8dec"  -> e.ok => Utf8Encode(e.out) = case.inp
    [] OTHER -> TRUE

Emit ==
  phase = "case" =>
    LET e == Expect IN
    /\ Assert(SelfCheck(e), <<"specification self-check failed", grp, case>>)
    /\ PrintT(ToJson([k |-> grp, inp |-> case.inp, pad |-> case.pad, url |-> case.url, dflt |-> case.dflt,
                      alg |-> case.alg, enc |-> case.enc, mac |-> case.mac, key |-> case.key, iv |-> case.iv,
                      aad |-> case.aad, ok |-> e.ok, out |-> e.out, why |-> e.why]))
=============================================================================
