CONSTANTS Tier = "thorough" Mode = "sim"
INIT Init
NEXT Next
INVARIANT TablesOk
INVARIANT Emit
