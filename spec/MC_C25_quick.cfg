CONSTANTS Tier = "quick" Mode = "exh" MaxSteps = 1000000 MaxAns = 12 Bound = 1500
INIT Init
NEXT Next
INVARIANT Inv
INVARIANT Emit
INVARIANT EmitOnce
