CONSTANTS Tier = "thorough" MaxSteps = 600 MaxAns = 6
INIT Init
NEXT Next
INVARIANT Inv
INVARIANT Emit
