------------------------------- MODULE MC_C33 -------------------------------
(* C33: heap writes never exceed the reserved capacity.  Exhaustive exploration of the     *)
(* capacity model with scaled-down capacities; every transition is printed and replayed on *)
(* a real stand-alone Heap (through the verif-hooks HeapProbe) with a canary guard region.  *)
EXTENDS Heap, Json, TLC

CONSTANT Tier

Strs(n) == UNION {[1..k -> {"c", "z"}] : k \in 0..n}
PureStrs == {[i \in 1..k |-> "c"] : k \in 0..(IF Tier = "quick" THEN 18 ELSE 34)}
StrSet == PureStrs \cup Strs(IF Tier = "quick" THEN 4 ELSE 6)
          \cup {<<"c","c","c","c","c","c","c","z","c">>, <<"z","c","c","c","c","c","c","c","c","z">>}
Counts == 0..(IF Tier = "quick" THEN 5 ELSE 9)

Init == len = 0 /\ cap \in {0, InitCap} /\ wend = 0 /\ op = [name |-> "init", arg |-> 0, ok |-> TRUE]

Next ==
  \/ PushCell
  \/ \E n \in Counts : \E k \in 0..n : ReserveWrite(n, k)
  \/ \E s \in StrSet : AllocPStr(s) \/ AllocCStr(s)
  \/ \E m \in Counts : AppendCells(m) \/ CopySlice(m)
  \/ \E L \in 1..(IF Tier = "quick" THEN 18 ELSE 34) : CopyPStrWithin(L)
  \/ \E k \in {0, 1, 2, 3} : Truncate(k)

(* observation variable op is not part of the state identity *)
View == <<len, cap, wend>>

(* spec-level sanity: what the writer emits never exceeds what compute_pstr_size reserved *)
ASSUME \A s \in StrSet : Written(s, FALSE) * Cell + Cell <= PStrSizeBytes(s) * Cell

(* one vector per transition: pre-state, operation, post-state *)
NextP == Next /\ PrintT(ToJson([len |-> len, cap |-> cap, op |-> op', len2 |-> len', cap2 |-> cap', wend2 |-> wend']))
=============================================================================
