CONSTANT Tier = "quick"
CONSTANT Mode = "enum"
INIT Init
NEXT Next
INVARIANT Emit
INVARIANT TilesInv
