------------------------------- MODULE MC_C09 -------------------------------
(* C09: dynamic predicates follow the logical update view.                                  *)
(* Layer A (Prolog.tla): a call snapshots the clause list at call time; assert/retract      *)
(* during the iteration do not change what that call sees; retract/1 and clause/2 iterate   *)
(* over their own snapshot.  A script is a conjunction of goals ending in fail, so every    *)
(* open call is re-entered in LIFO order; the observable is the log written by log/1 and    *)
(* the final database.  TLC enumerates all scripts up to a length over the goal alphabet.   *)
EXTENDS Prolog, Json

CONSTANT Tier

X == V("X")  Y == V("Y")  L == V("L")
P(t) == C1("p", t)
Log(t) == C1("log", t)

Goals == <<
  Conj(P(X), Log(C1("s", X))),                                   \* 1  iterate (first arg unbound)
  Conj(P(Y), Log(C1("t", Y))),                                   \* 2  a second, independent iteration
  P(I(2)),                                                       \* 3  bound first argument (indexed path)
  C1("assertz", P(I(7))),                                        \* 4
  C1("asserta", P(I(8))),                                        \* 5
  Conj(C1("retract", P(X)), Log(C1("r", X))),                    \* 6  retract iterates over its snapshot
  C1("retract", P(I(1))),                                        \* 7
  C1("retract", P(I(7))),                                        \* 8
  Conj(C2("clause", P(Y), True), Log(C1("c", Y))),               \* 9
  Conj(C3("findall", Y, P(Y), L), Log(C1("l", L))),              \* 10
  Not(P(I(7))),                                                  \* 11
  C1("assertz", C2(":-", P(I(9)), P(I(1)))),                     \* 12 a rule
  C1("once", P(X)),                                              \* 13
  Conj(C1("assertz", P(X)), Log(C1("a", X)))                     \* 14 assert a copy of the current binding (or a variable)
>>
NG == Len(Goals)
MaxLen == IF Tier = "quick" THEN 3 ELSE 4
Scripts == UNION {[1..n -> 1..NG] : n \in 1..MaxLen}

Init0 == << [h |-> P(I(1)), b |-> True], [h |-> P(I(2)), b |-> True], [h |-> P(I(3)), b |-> True] >>
Inits == { <<>>, SubSeq(Init0, 1, 1), SubSeq(Init0, 1, 2), Init0 }

VARIABLES m, sc
Init == m = [phase |-> "gen"] /\ sc = <<>>
Gen == /\ m.phase = "gen"
       /\ \E s \in Scripts : \E i0 \in (IF Tier = "quick" THEN {Init0, SubSeq(Init0, 1, 1)} ELSE Inits) :
            /\ sc' = s
            /\ \E ve \in BOOLEAN :
                 m' = [Load(i0, {<<"p", 1>>}, ConjOf([j \in 1..Len(s) |-> Goals[s[j]]] \o <<Fail>>)) EXCEPT !.ve = ve]
Run1 == m.phase = "run" /\ m' = Step(m) /\ UNCHANGED sc
Next == Gen \/ Run1

Inv == MachineOk(m) /\ CollectorsOk(m)
FinalDb == LET al == SelectSeq(m.db, LAMBDA c : ~c.dead) IN [j \in 1..Len(al) |-> C2(":-", al[j].h, al[j].b)]
Emit == m.phase = "done" /\ m.status \in {"done", "exc"} =>
          PrintT(ToJson([sc |-> sc, ve |-> m.ve, prog |-> m.prog, q |-> m.q, qv |-> m.qv, ans |-> m.ans, status |-> m.status,
                         ball |-> m.ball, balts |-> m.balts, out |-> m.out, db |-> FinalDb, dynkeys |-> << <<"p", 1>> >>]))
=============================================================================
