------------------------------- MODULE MC_C09 -------------------------------
(* C09: dynamic predicates follow the logical update view.                                  *)
(* Layer A (Prolog.tla): a call snapshots the clause list at call time; assert/retract      *)
(* during the iteration do not change what that call sees; retract/1 and clause/2 iterate   *)
(* over their own snapshot.  A script is a conjunction of goals ending in fail, so every    *)
(* open call is re-entered in LIFO order; the observable is the log written by log/1 and    *)
(* the final database.  TLC enumerates all scripts up to a length over the goal alphabet.   *)
EXTENDS Prolog, Json

CONSTANT Tier

X == V("X")  Y == V("Y")  L == V("L")
P(t) == C1("p", t)
Log(t) == C1("log", t)

Goals == <<
  Conj(P(X), Log(C1("s", X))),                                   \* 1  iterate (first arg unbound)
  Conj(P(Y), Log(C1("t", Y))),                                   \* 2  a second, independent iteration
  P(I(2)),                                                       \* 3  bound first argument (indexed path)
  C1("assertz", P(I(7))),                                        \* 4
  C1("asserta", P(I(8))),                                        \* 5
  Conj(C1("retract", P(X)), Log(C1("r", X))),                    \* 6  retract iterates over its snapshot
  C1("retract", P(I(1))),                                        \* 7
  C1("retract", P(I(7))),                                        \* 8
  Conj(C2("clause", P(Y), True), Log(C1("c", Y))),               \* 9
  Conj(C3("findall", Y, P(Y), L), Log(C1("l", L))),              \* 10
  Not(P(I(7))),                                                  \* 11
  C1("assertz", C2(":-", P(I(9)), P(I(1)))),                     \* 12 a rule
  C1("once", P(X)),                                              \* 13
  Conj(C1("assertz", P(X)), Log(C1("a", X)))                     \* 14 assert a copy of the current binding (or a variable)
>>
(* second family: a two-argument predicate whose clauses form two first-argument-indexed runs separated by a *)
(* clause with a variable first argument (m(a,1). m(_,2). m(b,3).), called with bound and unbound first argument *)
K == V("K")
M(k, v) == C2("m", k, v)
GoalsM == <<
  Conj(M(A("a"), X), Log(C1("s", X))),                            \* 1  iterate with a bound (indexed) first argument
  Conj(M(A("b"), Y), Log(C1("t", Y))),                            \* 2
  Conj(M(K, Y), Log(C2("u", K, Y))),                              \* 3  unbound first argument
  C1("assertz", M(A("a"), I(4))),                                 \* 4  new key for the last run
  C1("assertz", M(A("b"), I(5))),                                 \* 5
  C1("asserta", M(A("a"), I(0))),                                 \* 6
  C1("assertz", M(V("W"), I(6))),                                 \* 7  another variable-headed clause: a third run may follow
  C1("retract", M(A("a"), I(1))),                                 \* 8
  Conj(C1("retract", M(A("b"), Y)), Log(C1("r", Y))),             \* 9
  C1("assertz", M(A("c"), I(7)))                                  \* 10 a key no run had
>>
NGM == Len(GoalsM)
ScriptsM == UNION {[1..n -> 1..NGM] : n \in 1..3}
InitM == << [h |-> M(A("a"), I(1)), b |-> True], [h |-> M(V("Z"), I(2)), b |-> True], [h |-> M(A("b"), I(3)), b |-> True] >>

NG == Len(Goals)
MaxLen == IF Tier = "quick" THEN 3 ELSE 4
Scripts == UNION {[1..n -> 1..NG] : n \in 1..MaxLen}

Init0 == << [h |-> P(I(1)), b |-> True], [h |-> P(I(2)), b |-> True], [h |-> P(I(3)), b |-> True] >>
Inits == { <<>>, SubSeq(Init0, 1, 1), SubSeq(Init0, 1, 2), Init0 }

VARIABLES m, sc
Init == m = [phase |-> "gen"] /\ sc = <<>>
GenM == /\ m.phase = "gen"
        /\ \E s \in ScriptsM : \E ve \in BOOLEAN :
             /\ sc' = [j \in 1..Len(s) |-> 100 + s[j]]
             /\ m' = [Load(InitM, {<<"m", 2>>}, ConjOf([j \in 1..Len(s) |-> GoalsM[s[j]]] \o <<Fail>>)) EXCEPT !.ve = ve]
Gen == /\ m.phase = "gen"
       /\ \E s \in Scripts : \E i0 \in (IF Tier = "quick" THEN {Init0, SubSeq(Init0, 1, 1)} ELSE Inits) :
            /\ sc' = s
            /\ \E ve \in BOOLEAN :
                 m' = [Load(i0, {<<"p", 1>>}, ConjOf([j \in 1..Len(s) |-> Goals[s[j]]] \o <<Fail>>)) EXCEPT !.ve = ve]
Run1 == m.phase = "run" /\ m' = Step(m) /\ UNCHANGED sc
Next == Gen \/ GenM \/ Run1

Inv == MachineOk(m) /\ CollectorsOk(m)
FinalDb == LET al == SelectSeq(m.db, LAMBDA c : ~c.dead) IN [j \in 1..Len(al) |-> C2(":-", al[j].h, al[j].b)]
Emit == m.phase = "done" /\ m.status \in {"done", "exc"} =>
          PrintT(ToJson([sc |-> sc, ve |-> m.ve, prog |-> m.prog, q |-> m.q, qv |-> m.qv, ans |-> m.ans, status |-> m.status,
                         ball |-> m.ball, balts |-> m.balts, out |-> m.out, db |-> FinalDb, dynkeys |-> (IF Len(sc) > 0 /\ sc[1] > 100 THEN << <<"m", 2>> >> ELSE << <<"p", 1>> >>)]))
=============================================================================
