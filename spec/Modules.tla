------------------------------- MODULE Modules -------------------------------
(* C42, layer A: module qualification and import resolution.                                          *)
(*                                                                                                    *)
(* Property: "A call M:G runs module M's definition of G.  An unqualified call inside module M runs    *)
(* M's own definition if there is one, otherwise the one imported through use_module/1,2 (honouring     *)
(* import lists and exports), and raises an existence error otherwise.  Meta-predicate arguments run in *)
(* the caller's module, and predicates with the same name in different modules stay independent."        *)
(*                                                                                                    *)
(* A layout is a sequence of modules in load order (the last one is the top module, "top", which plays  *)
(* the role of user or of a main module); a module is                                                    *)
(*   [name, defs: predicates it defines, exports: exported predicates (a subset of defs),                *)
(*    imps: earlier module name -> [mode: "none" | "all" | "list", list: predicates named in the list]]   *)
(* "all" is use_module/1, "list" is use_module/2 with an import list.  A predicate named in an import list *)
(* that the other module does not export is not imported ("honouring import lists and exports";            *)
(* src/machine/load_state.rs import_qualified_module_exports only walks the module's export list).          *)
(*                                                                                                    *)
(* Predicates: "p" (p(Name) is a fact returning the abstract name of the defining module), "mp"          *)
(* (mp(G) :- call(G), declared :- meta_predicate mp(0)), "d<i>" (the exported driver d<i>(X) :- p(X) of    *)
(* module i).  Goals are uniform records [t, a, g]:                                                       *)
(*   [t |-> "pred", a |-> predicate]            p(X), d2(X)                                               *)
(*   [t |-> "qual", a |-> module, g |-> <<G>>]   Module:G                                                  *)
(*   [t |-> "meta", a |-> "call" | "findall" | "mp", g |-> <<G>>]   call(G), findall(X, G, L), mp(G)        *)
(* Eval(L, ctx, goal, q) is the set of *allowed* outcomes of running goal in context module ctx:           *)
(*   "ans:<m>"  the definition of module m answered;  "list:<m>"  findall collected that answer;            *)
(*   "err:<pred>"  existence_error(procedure, pred/1).                                                     *)
(* Where the property leaves the outcome open the set has several elements:                                *)
(*  - two imported modules export the same name into one module (nothing in loader.pl/builtins.pl says      *)
(*    which import wins): either definition;                                                               *)
(*  - M:G where M has no definition of its own but imports one ("module M's definition of G" may or may     *)
(*    not include what M imports): the imported definition or the existence error (flag q).                 *)
EXTENDS Integers, Sequences, FiniteSets

PredG(p)     == [t |-> "pred", a |-> p, g |-> <<>>]
QualG(m, g)  == [t |-> "qual", a |-> m, g |-> <<g>>]
MetaG(k, g)  == [t |-> "meta", a |-> k, g |-> <<g>>]

Names(L) == {L[i].name : i \in 1..Len(L)}
Mod(L, n) == L[CHOOSE i \in 1..Len(L) : L[i].name = n]

(* the modules whose exported definition of pred is imported into module m *)
Imported(L, m, pred) ==
  LET mm == Mod(L, m) IN
  { n \in DOMAIN mm.imps :
      /\ pred \in Mod(L, n).exports
      /\ \/ mm.imps[n].mode = "all"
         \/ mm.imps[n].mode = "list" /\ pred \in mm.imps[n].list }

(* own definition first, else the imported ones; {} = no visible definition *)
Resolve(L, m, pred) == IF pred \in Mod(L, m).defs THEN {m} ELSE Imported(L, m, pred)

ErrOf(pred) == "err:" \o pred

RECURSIVE Eval(_, _, _, _)
(* the body of predicate pred as defined in module n runs in n *)
Body(L, n, pred) ==
  IF pred = "p" THEN {"ans:" \o n}
  ELSE Eval(L, n, PredG("p"), FALSE)         \* a driver d<i>(X) :- p(X)

AsList(o) == IF SubSeq(o, 1, 4) = "ans:" THEN "list:" \o SubSeq(o, 5, Len(o)) ELSE o

Eval(L, ctx, goal, q) ==
  CASE goal.t = "pred" ->
         IF ctx \notin Names(L) THEN {ErrOf(goal.a)}
         ELSE LET S == Resolve(L, ctx, goal.a) IN
              IF S = {} THEN {ErrOf(goal.a)}
              ELSE (UNION {Body(L, n, goal.a) : n \in S})
                   \cup (IF q /\ goal.a \notin Mod(L, ctx).defs THEN {ErrOf(goal.a)} ELSE {})
    [] goal.t = "qual" -> Eval(L, goal.a, goal.g[1], TRUE)          \* M:G runs in the context of M
    [] goal.t = "meta" ->
         IF goal.a = "mp"
         THEN (* mp itself is resolved like any predicate; its argument runs in the *caller's* module ctx, *)
              (* not in the module that defines mp                                                          *)
              IF ctx \notin Names(L) \/ Resolve(L, ctx, "mp") = {} THEN {ErrOf("mp")}
              ELSE Eval(L, ctx, goal.g[1], FALSE)
                   \cup (IF q /\ "mp" \notin Mod(L, ctx).defs THEN {ErrOf("mp")} ELSE {})
         ELSE IF goal.a = "findall" THEN {AsList(o) : o \in Eval(L, ctx, goal.g[1], q)}
         ELSE Eval(L, ctx, goal.g[1], q)                             \* call/1 is transparent

(* ---- sanity properties of the resolution function (checked by MC_C42 on every layout) ---- *)
(* an own definition always wins and is the only allowed answer of an unqualified call *)
OwnWins(L) == \A i \in 1..Len(L) : "p" \in L[i].defs => Eval(L, L[i].name, PredG("p"), FALSE) = {"ans:" \o L[i].name}
(* a qualified call to a module with its own definition is independent of the caller and of every other module *)
QualIndependent(L) ==
  \A i, j \in 1..Len(L) : "p" \in L[j].defs => Eval(L, L[i].name, QualG(L[j].name, PredG("p")), FALSE) = {"ans:" \o L[j].name}
(* no definition, no import: existence error *)
NoneIsError(L) ==
  \A i \in 1..Len(L) : Resolve(L, L[i].name, "p") = {} => Eval(L, L[i].name, PredG("p"), FALSE) = {"err:p"}
(* the meta-predicate argument runs where the caller is: same outcomes as call/1 at the same place *)
MetaInCaller(L) ==
  \A i \in 1..Len(L) : Resolve(L, L[i].name, "mp") # {} =>
       Eval(L, L[i].name, MetaG("mp", PredG("p")), FALSE) = Eval(L, L[i].name, MetaG("call", PredG("p")), FALSE)
==============================================================================
