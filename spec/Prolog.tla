-------------------------------- MODULE Prolog --------------------------------
(* Layer A: an abstract machine for ISO Prolog execution (ISO 13211-1, 7.7/7.8) written as a *)
(* deterministic step function on a record m.  No registers, cells or pointers: a store is a *)
(* substitution, a choice point holds a *snapshot* of the store and of the continuation,     *)
(* a call to a user predicate snapshots the clause list (logical update view), cut truncates *)
(* the choice-point stack to the barrier recorded when the clause (or call/N) was entered.   *)
(*                                                                                           *)
(*   m.gs   goal stack: frames [g |-> goal term, cb |-> cut barrier (height of m.cps)]       *)
(*   m.cps  choice points [kind, gs, st, c, r]: kind "alt" resumes gs under st;              *)
(*          kind "catch" is the frame of an active catch/3 (catcher c, recovery r)           *)
(*   m.db   clauses [id, h, b] in database order; m.dyn the dynamic predicate indicators     *)
(*   m.lh   collector stack of findall/3 (the model of the "lifted heap")                    *)
(*   m.ans  answers so far: for each, the values of the query variables                      *)
(*   m.out  log written by log/1 goals (observable side effects, survives backtracking)      *)
(*   m.gv   global variables (bb_put/bb_get): function name -> term                          *)
EXTENDS Terms

CONSTANTS MaxSteps, MaxAns

F(g, cb) == [g |-> g, cb |-> cb]
CP(kind, gs, st, c, r) == [kind |-> kind, gs |-> gs, st |-> st, c |-> c, r |-> r]

ErrTerm(formal) == C2("error", formal, A("$ctx"))
InstErr         == ErrTerm(A("instantiation_error"))
TypeErr(ty, x)  == ErrTerm(C2("type_error", A(ty), x))
ExistErr(n, k)  == ErrTerm(C2("existence_error", A("procedure"), C2("/", A(n), I(k))))
EvalErr(e)      == ErrTerm(C1("evaluation_error", A(e)))
PermErr(a, ty, x) == ErrTerm(C3("permission_error", A(a), A(ty), x))

None == A("$none")

Key(g) == <<g.n, Len(g.a)>>
FzKey(v) == [v EXCEPT !.t = "fz"]     \* store key of the goals suspended on the variable v (freeze/2)
PI(g)  == C2("/", A(g.n), I(Len(g.a)))

(* ---- fresh copies ---- *)
RECURSIVE SubstVars(_, _, _)
SubstVars(x, vs, base) ==
  IF x.t = "v" THEN VI("_", base + (CHOOSE j \in 1..Len(vs) : vs[j] = x))
  ELSE IF x.t = "c" THEN [x EXCEPT !.a = [j \in 1..Len(x.a) |-> SubstVars(x.a[j], vs, base)]]
  ELSE x
(* copy of Apply(st, x) with variables k+1 .. k+n; returns <<copy, n>> *)
CopyOf(st, x, k) == LET y == Apply(st, x)  vs == VarSeq(y) IN <<SubstVars(y, vs, k), Len(vs)>>

RECURSIVE NormVars(_, _)
NormVars(x, vs) ==
  IF x.t = "v" THEN V("_N" \o ToString(CHOOSE j \in 1..Len(vs) : vs[j] = x))
  ELSE IF x.t = "c" THEN [x EXCEPT !.a = [j \in 1..Len(x.a) |-> NormVars(x.a[j], vs)]]
  ELSE x

(* ---- arithmetic on small integers (the programs of this layer stay far below 2^31) ---- *)
ArithOps2 == {"+", "-", "*", "//", "mod", "min", "max"}
ArithOps1 == {"-", "abs"}
RECURSIVE Eval(_, _)
Eval(st, x) ==   \* [ok |-> BOOLEAN, v |-> Int, e |-> error term]
  LET d == Deref(st, x) IN
  IF d.t = "i" THEN [ok |-> TRUE, v |-> d.i, e |-> None]
  ELSE IF d.t = "v" THEN [ok |-> FALSE, v |-> 0, e |-> InstErr]
  ELSE IF d.t = "a" THEN [ok |-> FALSE, v |-> 0, e |-> TypeErr("evaluable", C2("/", A(d.n), I(0)))]
  ELSE IF Len(d.a) = 2 /\ d.n \in ArithOps2 THEN
    LET l == Eval(st, d.a[1]) IN
    IF ~l.ok THEN l ELSE
    LET r == Eval(st, d.a[2]) IN
    IF ~r.ok THEN r ELSE
    IF d.n \in {"//", "mod"} /\ r.v = 0 THEN [ok |-> FALSE, v |-> 0, e |-> EvalErr("zero_divisor")]
    ELSE [ok |-> TRUE, e |-> None, v |->
            CASE d.n = "+" -> l.v + r.v
              [] d.n = "-" -> l.v - r.v
              [] d.n = "*" -> l.v * r.v
              [] d.n = "//" -> (IF (l.v < 0) = (r.v < 0)
                                THEN (IF l.v < 0 THEN (0 - l.v) \div (0 - r.v) ELSE l.v \div r.v)
                                ELSE 0 - ((IF l.v < 0 THEN 0 - l.v ELSE l.v) \div (IF r.v < 0 THEN 0 - r.v ELSE r.v)))
              [] d.n = "mod" -> (IF r.v > 0 THEN l.v % r.v ELSE 0 - ((0 - l.v) % (0 - r.v)))
              [] d.n = "min" -> (IF l.v <= r.v THEN l.v ELSE r.v)
              [] d.n = "max" -> (IF l.v >= r.v THEN l.v ELSE r.v)]
  ELSE IF Len(d.a) = 1 /\ d.n \in ArithOps1 THEN
    LET l == Eval(st, d.a[1]) IN
    IF ~l.ok THEN l ELSE
    [ok |-> TRUE, e |-> None, v |-> IF d.n = "-" THEN 0 - l.v ELSE (IF l.v < 0 THEN 0 - l.v ELSE l.v)]
  ELSE [ok |-> FALSE, v |-> 0, e |-> TypeErr("evaluable", PI(d))]

(* every error some order of evaluation could raise first: ISO leaves the order of evaluating the *)
(* arguments open, so when several subterms are erroneous any of their errors is admissible.       *)
RECURSIVE ArithErrs(_, _)
ArithErrs(st, x) ==
  LET d == Deref(st, x) IN
  IF d.t = "i" THEN {}
  ELSE IF d.t = "v" THEN {InstErr}
  ELSE IF d.t = "a" THEN {TypeErr("evaluable", C2("/", A(d.n), I(0)))}
  ELSE (IF (Len(d.a) = 2 /\ d.n \in ArithOps2) \/ (Len(d.a) = 1 /\ d.n \in ArithOps1) THEN {} ELSE {TypeErr("evaluable", PI(d))})
       \cup UNION {ArithErrs(st, d.a[j]) : j \in 1..Len(d.a)}

CmpOps == {"<", ">", "=<", ">=", "=:=", "=\\="}
CmpHolds(op, a, b) == CASE op = "<" -> a < b [] op = ">" -> a > b [] op = "=<" -> a <= b
                        [] op = ">=" -> a >= b [] op = "=:=" -> a = b [] op = "=\\=" -> a # b

(* ---- body well-formedness as checked by call/N before execution ---- *)
RECURSIVE BadBody(_, _)
BadBody(st, x) ==    \* TRUE iff the control structure contains a non-callable, non-variable goal
  LET d == Deref(st, x) IN
  IF d.t = "v" THEN FALSE
  ELSE IF d.t = "i" THEN TRUE
  ELSE IF d.t = "c" /\ Len(d.a) = 2 /\ d.n \in {",", ";", "->"} THEN BadBody(st, d.a[1]) \/ BadBody(st, d.a[2])
  ELSE FALSE

TypeTests == {"var", "nonvar", "atom", "integer", "atomic", "compound", "callable", "is_list", "number"}
TypeHolds(st, n, x) ==
  LET d == Deref(st, x) IN
  CASE n = "var" -> d.t = "v"
    [] n = "nonvar" -> d.t # "v"
    [] n = "atom" -> d.t = "a"
    [] n = "integer" -> d.t = "i"
    [] n = "number" -> d.t = "i"
    [] n = "atomic" -> d.t \in {"a", "i"}
    [] n = "compound" -> d.t = "c"
    [] n = "callable" -> d.t \in {"a", "c"}
    [] n = "is_list" -> IsList(st, d)

Control == { <<"true", 0>>, <<"fail", 0>>, <<"false", 0>>, <<"!", 0>>, <<",", 2>>, <<";", 2>>, <<"->", 2>>,
             <<"\\+", 1>>, <<"=", 2>>, <<"\\=", 2>>, <<"==", 2>>, <<"\\==", 2>>, <<"is", 2>>,
             <<"throw", 1>>, <<"catch", 3>>, <<"findall", 3>>, <<"log", 1>>, <<"halt", 0>>,
             <<"assertz", 1>>, <<"asserta", 1>>, <<"retract", 1>>, <<"clause", 2>>,
             <<"bb_put", 2>>, <<"bb_get", 2>>, <<"freeze", 2>>, <<"forall", 2>>, <<"once", 1>>, <<"ignore", 1>>,
             <<"$cut", 1>>, <<"$popcatch", 1>>, <<"$retry", 2>>, <<"$fa_push", 1>>, <<"$fa_done", 1>>,
             <<"$retract", 2>>, <<"$clause", 3>> }
         \cup {<<n, 1>> : n \in TypeTests} \cup {<<n, 2>> : n \in CmpOps}

-----------------------------------------------------------------------------
Finish(m, status) == [m EXCEPT !.status = status, !.phase = "done"]

RECURSIVE Backtrack(_)
Backtrack(m) ==
  IF m.cps = <<>> THEN Finish(m, "done")
  ELSE LET top == m.cps[Len(m.cps)]
           below == SubSeq(m.cps, 1, Len(m.cps) - 1)
       IN IF top.kind = "catch" THEN Backtrack([m EXCEPT !.cps = below])
          ELSE [m EXCEPT !.cps = below, !.gs = top.gs, !.st = top.st]

(* index of the first frame of gs that is a '$popcatch' marker, 0 if none *)
RECURSIVE FirstCatch(_, _)
FirstCatch(gs, j) == IF j > Len(gs) THEN 0
                     ELSE IF IsF(gs[j].g, "$popcatch", 1) THEN j ELSE FirstCatch(gs, j + 1)

(* deliver ball b (already a fresh, self-contained copy) looking for an active catch in gs *)
RECURSIVE Unwind(_, _, _)
Unwind(m, gs, b) ==
  LET j == FirstCatch(gs, 1) IN
  IF j = 0 THEN [Finish(m, "exc") EXCEPT !.ball = b, !.gs = <<>>, !.cps = <<>>, !.lh = <<>>]
  ELSE LET id == gs[j].g.a[1].i
           cp == m.cps[id]
           cps1 == SubSeq(m.cps, 1, id - 1)
           lh1 == SelectSeq(m.lh, LAMBDA c : c.h < id)
           u == Unify(cp.st, cp.c, b)
           m1 == [m EXCEPT !.cps = cps1, !.lh = lh1, !.st = cp.st]
       IN IF u.ok THEN [m1 EXCEPT !.st = u.st, !.gs = <<F(Call1(cp.r), 0)>> \o cp.gs]
          ELSE Unwind(m1, cp.gs, b)

Throw(m, ballterm) ==
  LET cp == CopyOf(m.st, ballterm, m.k)
  IN Unwind([m EXCEPT !.k = m.k + cp[2], !.balts = {}], m.gs, cp[1])

(* an arithmetic error: alts = the admissible alternatives (see ArithErrs) *)
ThrowA(m, ballterm, alts) ==
  LET cp == CopyOf(m.st, ballterm, m.k)
  IN Unwind([m EXCEPT !.k = m.k + cp[2], !.balts = IF alts = {ballterm} THEN {} ELSE alts], m.gs, cp[1])

IdList(cs) == ListOf([j \in 1..Len(cs) |-> I(cs[j].id)])
ClauseById(m, id) == LET j == CHOOSE j \in 1..Len(m.db) : m.db[j].id = id IN m.db[j]

(* The clause records the call may still need are kept in m.db even after retraction        *)
(* (field "dead"); a snapshot taken at call time lists ids, so retracted clauses stay        *)
(* executable for calls that started earlier: the logical update view.                       *)
Alive(m, key) == SelectSeq(m.db, LAMBDA c : Key(c.h) = key /\ ~c.dead)

RECURSIVE TryClauses(_, _, _, _, _)
TryClauses(m, g, ids, cb0, rest) ==
  (* ids: list term of clause ids still to try; the body's cut barrier is the current height *)
  LET l == Deref(m.st, ids) IN
  IF IsA(l, "[]") THEN Backtrack(m)
  ELSE LET c == ClauseById(m, l.a[1].i)
           more == l.a[2]
           h == Rename(c.h, m.k)
           b == Rename(c.b, m.k)
           u == Unify(m.st, g, h)
           barrier == Len(m.cps)
       IN IF u.cyc THEN Finish(m, "cyclic")
          ELSE IF ~u.ok THEN TryClauses(m, g, more, cb0, rest)
          ELSE LET cps1 == IF IsA(more, "[]") THEN m.cps
                           ELSE Append(m.cps, CP("alt", <<F(C2("$retry", g, more), cb0)>> \o rest, m.st, None, None))
               IN [m EXCEPT !.st = u.st, !.k = m.k + 1, !.cps = cps1,
                            !.gs = <<F(b, barrier)>> \o rest]

NormClause(st, cl) ==
  LET y == Apply(st, cl)
      hb == IF IsF(y, ":-", 2) THEN <<y.a[1], y.a[2]>> ELSE <<y, True>>
      vs == VarSeq(C2("cl", hb[1], hb[2]))
  IN <<NormVars(hb[1], vs), NormVars(hb[2], vs)>>

-----------------------------------------------------------------------------
Exec(m, fr, rest) ==
  LET g  == Deref(m.st, fr.g)
      cb == fr.cb
      cont == [m EXCEPT !.gs = rest]
      h0 == Len(m.cps)
  IN
  IF g.t = "v" THEN Throw(m, InstErr)
  ELSE IF g.t = "i" THEN Throw(m, TypeErr("callable", g))
  ELSE IF Key(g) \notin Control /\ ~(g.t = "c" /\ g.n = "call") THEN
      (* user predicate *)
      IF ~\E j \in 1..Len(m.db) : Key(m.db[j].h) = Key(g) THEN
          IF Key(g) \in m.dyn THEN Backtrack(m) ELSE Throw(m, ExistErr(g.n, Len(g.a)))
      ELSE TryClauses(m, g, IdList(Alive(m, Key(g))), cb, rest)
  ELSE
  CASE IsA(g, "true") -> cont
    [] IsA(g, "fail") \/ IsA(g, "false") -> Backtrack(m)
    [] IsA(g, "halt") -> Finish(m, "halt")
    [] IsA(g, "!") -> [cont EXCEPT !.cps = SubSeq(m.cps, 1, cb)]
    [] IsF(g, "$cut", 1) -> [cont EXCEPT !.cps = SubSeq(m.cps, 1, g.a[1].i)]
    [] IsF(g, "$popcatch", 1) -> cont
    [] IsF(g, ",", 2) -> [m EXCEPT !.gs = <<F(g.a[1], cb), F(g.a[2], cb)>> \o rest]
    [] IsF(g, ";", 2) ->
         LET l == Deref(m.st, g.a[1]) IN
         IF IsF(l, "->", 2)
         THEN [m EXCEPT !.cps = Append(m.cps, CP("alt", <<F(g.a[2], cb)>> \o rest, m.st, None, None)),
                        !.gs = <<F(l.a[1], h0 + 1), F(C1("$cut", I(h0)), 0), F(l.a[2], cb)>> \o rest]
         ELSE [m EXCEPT !.cps = Append(m.cps, CP("alt", <<F(g.a[2], cb)>> \o rest, m.st, None, None)),
                        !.gs = <<F(g.a[1], cb)>> \o rest]
    [] IsF(g, "->", 2) ->
         [m EXCEPT !.cps = Append(m.cps, CP("alt", <<F(Fail, cb)>> \o rest, m.st, None, None)),
                   !.gs = <<F(g.a[1], h0 + 1), F(C1("$cut", I(h0)), 0), F(g.a[2], cb)>> \o rest]
    [] IsF(g, "\\+", 1) ->
         [m EXCEPT !.cps = Append(m.cps, CP("alt", rest, m.st, None, None)),
                   !.gs = <<F(Call1(g.a[1]), h0 + 1), F(C1("$cut", I(h0)), 0), F(Fail, 0)>> \o rest]
                   \* (rest is never reached: it is kept so that the '$popcatch' markers of enclosing catch/3 stay visible)
    [] IsF(g, "once", 1) ->
         [m EXCEPT !.gs = <<F(Call1(g.a[1]), h0), F(C1("$cut", I(h0)), 0)>> \o rest]
    [] IsF(g, "ignore", 1) ->
         [m EXCEPT !.cps = Append(m.cps, CP("alt", rest, m.st, None, None)),
                   !.gs = <<F(Call1(g.a[1]), h0 + 1), F(C1("$cut", I(h0)), 0)>> \o rest]
    [] IsF(g, "forall", 2) ->
         [m EXCEPT !.cps = Append(m.cps, CP("alt", rest, m.st, None, None)),
                   !.gs = <<F(Call1(g.a[1]), h0 + 1), F(Not(g.a[2]), h0 + 1), F(C1("$cut", I(h0)), 0), F(Fail, 0)>> \o rest]
    [] g.t = "c" /\ g.n = "call" /\ Len(g.a) >= 1 ->
         LET c == Deref(m.st, g.a[1])
             extra == SubSeq(g.a, 2, Len(g.a))
         IN IF c.t = "v" THEN Throw(m, InstErr)
            ELSE IF c.t = "i" THEN Throw(m, TypeErr("callable", c))
            ELSE LET goal == IF extra = <<>> THEN c
                             ELSE IF c.t = "a" THEN C(c.n, extra) ELSE [c EXCEPT !.a = c.a \o extra]
                 IN IF BadBody(m.st, goal) THEN Throw(m, TypeErr("callable", goal))
                    ELSE [m EXCEPT !.gs = <<F(goal, h0)>> \o rest]
    [] IsF(g, "freeze", 2) ->
         (* library(freeze): the goal is called at once when the first argument is bound, otherwise it is   *)
         (* suspended on the variable (an attribute: kept in the store under the key FzKey(v), so that it   *)
         (* is saved and restored with the bindings)                                                        *)
         LET x == Deref(m.st, g.a[1]) IN
         IF x.t # "v" THEN [m EXCEPT !.gs = <<F(Call1(g.a[2]), cb)>> \o rest]
         ELSE [cont EXCEPT !.st = Bind(m.st, FzKey(x), IF FzKey(x) \in DOMAIN m.st THEN Conj(m.st[FzKey(x)], g.a[2]) ELSE g.a[2])]
    [] IsF(g, "=", 2) ->
         LET u == Unify(m.st, g.a[1], g.a[2])
         IN IF u.cyc THEN Finish(m, "cyclic") ELSE IF u.ok THEN [cont EXCEPT !.st = u.st] ELSE Backtrack(m)
    [] IsF(g, "\\=", 2) ->
         LET u == Unify(m.st, g.a[1], g.a[2])
         IN IF u.cyc THEN Finish(m, "cyclic") ELSE IF u.ok THEN Backtrack(m) ELSE cont
    [] IsF(g, "==", 2) -> IF Identical(m.st, g.a[1], g.a[2]) THEN cont ELSE Backtrack(m)
    [] IsF(g, "\\==", 2) -> IF Identical(m.st, g.a[1], g.a[2]) THEN Backtrack(m) ELSE cont
    [] g.t = "c" /\ Len(g.a) = 1 /\ g.n \in TypeTests ->
         IF TypeHolds(m.st, g.n, g.a[1]) THEN cont ELSE Backtrack(m)
    [] IsF(g, "is", 2) ->
         LET e == Eval(m.st, g.a[2]) IN
         IF ~e.ok THEN ThrowA(m, e.e, ArithErrs(m.st, g.a[2]) \cup {e.e})
         ELSE LET u == Unify(m.st, g.a[1], I(e.v)) IN IF u.ok THEN [cont EXCEPT !.st = u.st] ELSE Backtrack(m)
    [] g.t = "c" /\ Len(g.a) = 2 /\ g.n \in CmpOps ->
         LET l == Eval(m.st, g.a[1])
             alts == ArithErrs(m.st, g.a[1]) \cup ArithErrs(m.st, g.a[2]) IN
         IF ~l.ok THEN ThrowA(m, l.e, alts \cup {l.e}) ELSE
         LET r == Eval(m.st, g.a[2]) IN
         IF ~r.ok THEN ThrowA(m, r.e, alts \cup {r.e})
         ELSE IF CmpHolds(g.n, l.v, r.v) THEN cont ELSE Backtrack(m)
    [] IsF(g, "throw", 1) ->
         IF Deref(m.st, g.a[1]).t = "v" THEN Throw(m, InstErr) ELSE Throw(m, g.a[1])
    [] IsF(g, "catch", 3) ->
         LET id == h0 + 1 IN
         [m EXCEPT !.cps = Append(m.cps, CP("catch", rest, m.st, g.a[2], g.a[3])),
                   !.gs = <<F(Call1(g.a[1]), id), F(C1("$popcatch", I(id)), 0)>> \o rest]
    [] IsF(g, "findall", 3) ->
         LET id == h0 + 1 IN
         IF ~PartialList(m.st, g.a[3]) THEN Throw(m, TypeErr("list", g.a[3])) ELSE
         [m EXCEPT !.cps = Append(m.cps, CP("alt", <<F(C1("$fa_done", g.a[3]), 0)>> \o rest, m.st, None, None)),
                   !.lh = Append(m.lh, [h |-> id, items |-> <<>>]),
                   !.gs = <<F(Call1(g.a[2]), id), F(C1("$fa_push", g.a[1]), 0), F(Fail, 0)>> \o rest]
    [] IsF(g, "$fa_push", 1) ->
         LET cp == CopyOf(m.st, g.a[1], m.k)
             n == Len(m.lh)
         IN [cont EXCEPT !.k = m.k + cp[2], !.lh[n].items = Append(@, cp[1])]
    [] IsF(g, "$fa_done", 1) ->
         LET n == Len(m.lh)
             u == Unify(m.st, g.a[1], ListOf(m.lh[n].items))
             m1 == [m EXCEPT !.lh = SubSeq(m.lh, 1, n - 1)]
         IN IF u.ok THEN [m1 EXCEPT !.st = u.st, !.gs = rest] ELSE Backtrack(m1)
    [] IsF(g, "log", 1) ->      \* the log keeps a copy (fresh variables), like assertz of a log fact
         LET cp == CopyOf(m.st, g.a[1], m.k) IN [cont EXCEPT !.k = m.k + cp[2], !.out = Append(@, cp[1])]
    [] IsF(g, "bb_put", 2) ->
         LET kx == Deref(m.st, g.a[1]) IN
         IF kx.t # "a" THEN Throw(m, InstErr)
         ELSE LET cp == CopyOf(m.st, g.a[2], m.k) IN
              [cont EXCEPT !.k = m.k + cp[2], !.gv = (kx.n :> cp[1]) @@ m.gv]
    [] IsF(g, "bb_get", 2) ->
         LET kx == Deref(m.st, g.a[1]) IN
         IF kx.t # "a" THEN Throw(m, InstErr)
         ELSE IF kx.n \notin DOMAIN m.gv THEN Backtrack(m)
         ELSE LET cp == CopyOf(EmptyStore, m.gv[kx.n], m.k)
                  u == Unify(m.st, g.a[2], cp[1])
              IN IF u.ok THEN [cont EXCEPT !.st = u.st, !.k = m.k + cp[2]] ELSE Backtrack(m)
    [] (IsF(g, "assertz", 1) \/ IsF(g, "asserta", 1)) ->
         LET raw == Deref(m.st, g.a[1]) IN
         IF raw.t = "v" THEN Throw(m, InstErr) ELSE
         LET hb == NormClause(m.st, g.a[1]) IN
         IF hb[1].t = "v" THEN Throw(m, InstErr)
         ELSE IF hb[1].t = "i" THEN Throw(m, TypeErr("callable", hb[1]))
         ELSE IF BadBody(EmptyStore, hb[2]) THEN Throw(m, TypeErr("callable", hb[2]))
         ELSE IF Key(hb[1]) \in Control \/ Key(hb[1]) \in m.static
              THEN Throw(m, PermErr("modify", "static_procedure", PI(hb[1])))
         ELSE LET c == [id |-> m.nid, h |-> hb[1], b |-> hb[2], dead |-> FALSE] IN
              [cont EXCEPT !.nid = m.nid + 1, !.dyn = @ \cup {Key(hb[1])},
                           !.db = IF g.n = "assertz" THEN Append(m.db, c) ELSE <<c>> \o m.db]
    [] IsF(g, "retract", 1) ->
         LET y == Deref(m.st, g.a[1])
             hd == IF IsF(y, ":-", 2) THEN Deref(m.st, y.a[1]) ELSE y
             bd == IF IsF(y, ":-", 2) THEN y.a[2] ELSE True
         IN IF hd.t = "v" THEN Throw(m, InstErr)
            ELSE IF hd.t = "i" THEN Throw(m, TypeErr("callable", hd))
            ELSE IF Key(hd) \in Control \/ Key(hd) \in m.static
                 THEN Throw(m, PermErr("access", "private_procedure", PI(hd)))
            ELSE [m EXCEPT !.gs = <<F(C2("$retract", C2(":-", hd, bd), IdList(Alive(m, Key(hd)))), cb)>> \o rest]
    [] IsF(g, "$retract", 2) ->
         LET l == Deref(m.st, g.a[2]) IN
         IF IsA(l, "[]") THEN Backtrack(m)
         ELSE LET c == ClauseById(m, l.a[1].i)
                  more == l.a[2]
                  u == Unify(m.st, g.a[1], Rename(C2(":-", c.h, c.b), m.k))
              IN IF (c.dead /\ ~m.ve) \/ ~u.ok THEN [m EXCEPT !.gs = <<F(C2("$retract", g.a[1], more), cb)>> \o rest]
                 ELSE LET j == CHOOSE j \in 1..Len(m.db) : m.db[j].id = c.id
                          cps1 == IF IsA(more, "[]") THEN m.cps
                                  ELSE Append(m.cps, CP("alt", <<F(C2("$retract", g.a[1], more), cb)>> \o rest, m.st, None, None))
                      IN [cont EXCEPT !.st = u.st, !.k = m.k + 1, !.cps = cps1, !.db[j].dead = TRUE]
    [] IsF(g, "clause", 2) ->
         LET hd == Deref(m.st, g.a[1]) IN
         IF hd.t = "v" THEN Throw(m, InstErr)
         ELSE IF hd.t = "i" THEN Throw(m, TypeErr("callable", hd))
         ELSE IF Key(hd) \in Control \/ Key(hd) \in m.static
              THEN Throw(m, PermErr("access", "private_procedure", PI(hd)))
         ELSE [m EXCEPT !.gs = <<F(C3("$clause", hd, g.a[2], IdList(Alive(m, Key(hd)))), cb)>> \o rest]
    [] IsF(g, "$clause", 3) ->
         LET l == Deref(m.st, g.a[3]) IN
         IF IsA(l, "[]") THEN Backtrack(m)
         ELSE LET c == ClauseById(m, l.a[1].i)
                  more == l.a[2]
                  u == Unify(m.st, C2("cl", g.a[1], g.a[2]), Rename(C2("cl", c.h, c.b), m.k))
              IN IF ~u.ok THEN [m EXCEPT !.gs = <<F(C3("$clause", g.a[1], g.a[2], more), cb)>> \o rest]
                 ELSE LET cps1 == IF IsA(more, "[]") THEN m.cps
                                  ELSE Append(m.cps, CP("alt", <<F(C3("$clause", g.a[1], g.a[2], more), cb)>> \o rest, m.st, None, None))
                      IN [cont EXCEPT !.st = u.st, !.k = m.k + 1, !.cps = cps1]
    [] IsF(g, "$retry", 2) -> TryClauses(m, g.a[1], g.a[2], cb, rest)

(* ---- coroutining: goals suspended by freeze/2 ---- *)
(* After a step that bound a variable carrying a suspended goal, the goal is called before the rest of the   *)
(* continuation (for a head unification: before the body of the clause).  A variable bound to another        *)
(* unbound variable hands its goals over to that variable.  The order in which the goals of SEVERAL          *)
(* variables bound by one step are woken is not specified: such runs end with status "wake-order" and are    *)
(* dropped by the generators.                                                                                *)
Unfrozen(k) == [k EXCEPT !.t = "v"]
Without(st, k) == [x \in (DOMAIN st) \ {k} |-> st[x]]
Wake(m) ==
  IF m.phase # "run" THEN m
  ELSE LET pend == {k \in DOMAIN m.st : k.t = "fz" /\ Unfrozen(k) \in DOMAIN m.st} IN
       IF pend = {} THEN m
       ELSE IF Cardinality(pend) > 1 THEN Finish(m, "wake-order")
       ELSE LET k == CHOOSE k \in pend : TRUE
                d == Deref(m.st, Unfrozen(k))
                goal == m.st[k]
                st1 == Without(m.st, k)
            IN IF d.t = "v"
               THEN [m EXCEPT !.st = Bind(st1, FzKey(d), IF FzKey(d) \in DOMAIN st1 THEN Conj(st1[FzKey(d)], goal) ELSE goal)]
               ELSE [m EXCEPT !.st = st1, !.gs = <<F(Call1(goal), Len(m.cps))>> \o m.gs]

Step0(m) ==
  IF m.steps >= MaxSteps THEN Finish(m, "diverge")
  ELSE LET m0 == [m EXCEPT !.steps = m.steps + 1] IN
  IF m.gs = <<>> THEN
     LET a  == [j \in 1..Len(m.qv) |-> Apply(m.st, m.qv[j])]
         m1 == [m0 EXCEPT !.ans = Append(@, a)]
     IN IF Len(m1.ans) >= MaxAns THEN Finish(m1, "capped") ELSE Backtrack(m1)
  ELSE Exec(m0, m.gs[1], Tail(m.gs))
Step(m) == Wake(Step0(m))

(* a machine loaded with program prog (sequence of [h, b]), dynamic declarations dyn, query q *)
Load(prog, dyn, q) ==
  [phase |-> "run", status |-> "run", steps |-> 0,
   prog |-> prog, q |-> q, qv |-> VarSeq(q),
   db |-> [j \in 1..Len(prog) |-> [id |-> j, h |-> prog[j].h, b |-> prog[j].b, dead |-> FALSE]],
   nid |-> Len(prog) + 1,
   dyn |-> dyn,
   static |-> {Key(prog[j].h) : j \in 1..Len(prog)} \ dyn,
   st |-> EmptyStore, gs |-> <<F(q, 0)>>, cps |-> <<>>, k |-> 1, ans |-> <<>>, ball |-> None,
   lh |-> <<>>, out |-> <<>>, gv |-> <<>>,
   balts |-> {},   \* admissible alternatives for the ball of the last arithmetic error (empty: exactly m.ball)
   ve |-> FALSE]   \* ve: does a re-entered retract/1 still report a clause of its snapshot that was erased meanwhile?
                   \* (ISO 8.9.3 read literally: yes; most systems: no).  Unspecified by the property: models try both.

RECURSIVE Run(_)
Run(m) == IF m.phase = "done" THEN m ELSE Run(Step(m))

(* ---- invariants of the machine itself (checked by TLC at every step) ---- *)
BarriersOk(m) == \A j \in 1..Len(m.gs) : m.gs[j].cb <= Len(m.cps)
CollectorsOk(m) == (m.phase = "done" /\ m.status \in {"done", "exc"}) => m.lh = <<>>
CatchMarkersOk(m) ==
  \A j \in 1..Len(m.gs) : IsF(m.gs[j].g, "$popcatch", 1) =>
      LET id == m.gs[j].g.a[1].i IN id <= Len(m.cps) /\ m.cps[id].kind = "catch"
MachineOk(m) == m.phase = "run" => BarriersOk(m) /\ CatchMarkersOk(m)
==============================================================================
