------------------------------ MODULE Trace_C37 ------------------------------
(* C37, library(crypto): trace validation (impl -> spec) of the laws in CryptoLaws.tla.      *)
(* The driver executes the workload printed by MC_C37 (groups "hash" and "aead") against the  *)
(* real machine, twice for determinism, then verification calls and decryptions of genuine    *)
(* and tampered ciphertexts, and records one event per call:                                  *)
(*   {id, ev: "hash"|"verify"|"enc"|"dec", alg, mac, key, iv, aad, data (bytes hashed, or     *)
(*    plaintext bytes), h (code points of the hash), hstr (the same as a string), ct, tag,    *)
(*    res: "ok"|"fail"|"error" ("true"|"false"|"error" for verify)}                           *)
(* The digests, ciphertexts and tags are NOT computed by the specification: hs and encs hold  *)
(* the part of the uninterpreted functions inferred from the accepted observations, and each  *)
(* event must be consistent with them. An event that is not accepted is printed               *)
(* ({"reject": id}) and leaves the state unchanged; the POSTCONDITION checks that every       *)
(* event was judged.                                                                          *)
EXTENDS CryptoLaws, Json, IOUtils

Rec == ndJsonDeserialize(IOEnv.TRACE)

VARIABLES l, hs, encs
vars == <<l, hs, encs>>
Init == l = 1 /\ hs = {} /\ encs = {}

HRec(e) == [alg |-> e.alg, mac |-> e.mac, key |-> e.key, data |-> e.data, h |-> e.h]
ERec(e) == [key |-> e.key, iv |-> e.iv, aad |-> e.aad, pt |-> e.data, ct |-> e.ct, tag |-> e.tag]
EView(e) == [key |-> e.key, iv |-> e.iv, aad |-> e.aad, pt |-> e.data, ct |-> e.ct, tag |-> e.tag, res |-> e.res]

Accepts(e) ==
  CASE e.ev = "hash"   -> HashAccept(e, hs) /\ DocumentedValueOk(e, e.hstr)
    [] e.ev = "verify" -> VerifyAccept(e, hs)
    [] e.ev = "enc"    -> EncAccept(EView(e), encs)
    [] e.ev = "dec"    -> DecAccept(EView(e), encs)

Next ==
  /\ l <= Len(Rec)
  /\ l' = l + 1
  /\ LET e == Rec[l] IN
     IF Accepts(e)
       THEN /\ hs' = IF e.ev = "hash" /\ e.res = "ok" THEN hs \cup {HRec(e)} ELSE hs
            /\ encs' = IF e.ev = "enc" /\ e.res = "ok" THEN encs \cup {ERec(e)} ELSE encs
       ELSE /\ PrintT(ToJson([reject |-> e.id]))
            /\ UNCHANGED <<hs, encs>>
TraceJudged == TLCGet("stats").diameter - 1 = Len(Rec)
=============================================================================
