------------------------------ MODULE MC_Float64 ------------------------------
(* Sanity theorems of the binary64 model, decided by TLC before the model is used as an oracle *)
(* (DESIGN.md C02 "TLC decides"): round-trip of representable values, ties-to-even around      *)
(* 2^53, the overflow threshold, the subnormal boundary, agreement of the cheap forms (FCmp,   *)
(* FAdd shortcut, RoundingView) with their exact definitions, algebraic identities.            *)
EXTENDS NumSets, FiniteSets, SequencesExt

P52 == P(52)
D(m, e) == Mk(0, m, e)
F(i) == FromBig(FromInt(i))

(* ---- rounding ---- *)
ASSUME FromBig(P(53)) = Fin(0, P52, 1)
ASSUME FromBig(Add(P(53), One)) = Fin(0, P52, 1)                         \* 2^53+1 ties to even: down
ASSUME FromBig(Add(P(53), FromInt(3))) = Fin(0, Add(P52, Two), 1)       \* 2^53+3 ties to even: up to 2^53+4
ASSUME FromBig(Add(P(53), Two)) = Fin(0, Add(P52, One), 1)
ASSUME FromBig(Add(P(54), Two)) = Fin(0, P52, 2)                         \* 2^54+2 tie: down
ASSUME FromBig(Add(P(54), FromInt(6))) = Fin(0, Add(P52, Two), 2)       \* 2^54+6 tie: up
ASSUME FromBig(Add(P(54), FromInt(3))) = Fin(0, Add(P52, One), 2)       \* above the tie: up
ASSUME FromBig(Sub(P(53), One)) = Fin(0, Sub(P(53), One), 0)
ASSUME FromBig(Neg(Add(P(53), One))) = Fin(1, P52, 1)
(* overflow threshold: max = (2^53-1) 2^971; max + half ulp = 2^1024 - 2^970 ties to even = infinity *)
ASSUME FromBig(Sub(P(1024), P(971))) = Fin(0, Sub(P(53), One), 971)
ASSUME FromBig(Sub(Sub(P(1024), P(970)), One)) = Fin(0, Sub(P(53), One), 971)
ASSUME FromBig(Sub(P(1024), P(970))).k = "inf"
ASSUME FromBig(P(1024)).k = "inf" /\ FromBig(Neg(P(1024))) = Inf(1) /\ FromBig(Ten(400)).k = "inf"
(* subnormal boundary *)
ASSUME FromRat(One, P(1074)) = Fin(0, One, -1074)
ASSUME FromRat(One, P(1075)) = FZero(0)                                  \* exactly half the least subnormal: tie to even = 0
ASSUME FromRat(FromInt(3), P(1076)) = Fin(0, One, -1074)                 \* 0.75 of it rounds up
ASSUME FromRat(FromInt(3), P(1075)) = Fin(0, Two, -1074)                 \* 1.5 of it: tie to even = 2
ASSUME FromRat(One, P(1076)) = FZero(0) /\ FromRat(Neg(One), P(1080)) = FZero(1)
ASSUME D(Sub(P52, One), -1074) = Fin(0, Sub(P52, One), -1074)            \* largest subnormal
ASSUME RoundPos(0, Sub(P(54), One), One, -1075) = Fin(0, P52, -1073)     \* (2^54-1)/2 ulp rounds up into the next binade
ASSUME FromRat(Sub(P(53), One), P(1075)) = Fin(0, P52, -1074)            \* rounds up from the largest subnormal to the least normal
(* decimal constants *)
ASSUME FromRat(One, FromInt(10)) = Fin(0, Add(Mul(FromInt(72057594), Pow(FromInt(10), 8)), FromInt(3792794)), -56)
ASSUME ToDec(Bits(FromRat(One, FromInt(10)))) = "4591870180066957722"       \* 0x3FB999999999999A
ASSUME ToDec(Bits(FromRat(FromInt(7), FromInt(3)))) = "4612436618365282987"      \* 7/3 = 0x4002AAAAAAAAAAAB (0x...AA would be double rounding)
ASSUME FromRat(Add(Mul(FromInt(3), Add(P(53), One)), One), FromInt(3)) = Fin(0, Add(P52, One), 1)   \* 2^53+1+1/3 is above the tie: 2^53+2
ASSUME ToDec(Bits(F(1))) = "4607182418800017408"                           \* 0x3FF0000000000000
ASSUME ToDec(Bits(D(Sub(P(53), One), 971))) = "9218868437227405311"        \* 0x7FEFFFFFFFFFFFFF
ASSUME ToDec(Bits(FNeg(D(One, -1074)))) = "9223372036854775809"            \* 0x8000000000000001

(* ---- arithmetic ---- *)
Tenth == FromRat(One, FromInt(10))
ASSUME ToDec(Bits(FAdd(Tenth, FromRat(Two, FromInt(10))))) = "4599075939470750516"    \* 0.1+0.2 = 0x3FD3333333333334
ASSUME FMul(D(Sub(P(53), One), 971), F(2)).k = "inf"
ASSUME FAdd(D(Sub(P(53), One), 971), D(One, 970)).k = "inf"               \* max + half ulp: tie to even overflows
ASSUME FAdd(D(Sub(P(53), One), 971), D(Sub(P(53), One), 917)) = D(Sub(P(53), One), 971)   \* just below half ulp
ASSUME FDivide(F(1), F(3)) = FromRat(One, FromInt(3))
ASSUME FDivide(D(One, -1074), F(2)) = FZero(0) /\ FDivide(FNeg(D(One, -1074)), F(2)) = FZero(1)
ASSUME FMul(D(One, -1074), D(One, -1)) = FZero(0) /\ FMul(D(FromInt(3), -1074), D(One, -1)) = D(Two, -1074)
ASSUME FSub(F(1), F(1)) = FZero(0) /\ FAdd(FZero(1), FZero(1)) = FZero(1) /\ FAdd(FZero(1), FZero(0)) = FZero(0)
ASSUME FSqrt(F(4)) = F(2) /\ FSqrt(F(9)) = F(3) /\ FSqrt(D(One, -1074)) = D(One, -537) /\ FSqrt(D(One, 1022)) = D(One, 511)
ASSUME ToDec(Bits(FSqrt(F(2)))) = "4609047870845172685"                    \* 0x3FF6A09E667F3BCD
ASSUME ToDec(Bits(FSqrt(D(Sub(P(53), One), 971)))) = "6913025428013711359"  \* sqrt(max) = 0x5FEFFFFFFFFFFFFF
ASSUME ISqrt(FromInt(99)) = FromInt(9) /\ ISqrt(FromInt(100)) = FromInt(10) /\ ISqrt(P(120)) = P(60)
ASSUME BLen(P(64)) = 65 /\ BLen(Sub(P(64), One)) = 64 /\ BLen(One) = 1 /\ BLen(FromInt(8191)) = 13 /\ BLen(FromInt(8192)) = 14
       /\ BLen(P(1024)) = 1025 /\ BLen(BZero) = 0

(* ---- quantified checks over the double alphabet, one state per double / per pair (parallel) ---- *)
ASSUME RRound(<<FromInt(5), Two>>) = FromInt(3) /\ RRound(<<FromInt(-5), Two>>) = FromInt(-3) /\ RRound(<<FromInt(7), Two>>) = FromInt(4)
       /\ RFloor(<<FromInt(-1), Two>>) = FromInt(-1) /\ RCeiling(<<FromInt(-1), Two>>) = BZero /\ RTruncate(<<FromInt(-7), Two>>) = FromInt(-3)
       /\ RRound(<<FromInt(49), FromInt(100)>>) = BZero /\ RCeiling(<<FromInt(7), Two>>) = FromInt(4)

VARIABLES fs, phase, i, j
vars == <<fs, phase, i, j>>

(* pair checks run over the doubles of moderate exponent (the cheap forms differ from the exact ones only in how
   the exponent gap is treated; gaps up to 130 cover both sides of the 64 threshold) *)
InPZ(x) == (~IsZero(x.m) /\ x.e >= -60 /\ x.e <= 70 /\ x.s = 0) \/ x = FNeg(F(1)) \/ x = FNeg(D(One, 53))

(* one cheap initial state; the per-double and per-pair checks are invariants of successor states (parallel) *)
Init == /\ fs = SetToSeq({AsF(v) : v \in FloatsOf("quick")})
        /\ phase = "start" /\ i = 0 /\ j = 0
Next == \/ /\ phase = "start" /\ phase' = "one" /\ i' \in 1..Len(fs) /\ UNCHANGED <<fs, j>>
        \/ /\ phase = "one" /\ phase' = "pair" /\ UNCHANGED <<fs, i>>
           /\ InPZ(fs[i]) /\ j' \in {n \in 1..Len(fs) : InPZ(fs[n])}

One1 ==
  phase = "one" =>
    LET x == fs[i] IN
    /\ Canonical(x)
    /\ \A y \in {fs[n] : n \in 1..Len(fs)} : FCmp(x, y) = 0 - FCmp(y, x)
    /\ (~IsZero(x.m) =>
          /\ RoundPos(x.s, x.m, One, x.e) = x                       \* representable values round to themselves
          /\ FDivide(x, x) = F(1) /\ FMul(x, F(1)) = x /\ FAdd(x, FNeg(x)) = FZero(0) /\ FSub(x, FZero(0)) = x
          /\ (x.s = 0 /\ x.e >= -1000 /\ x.e < 400 => FSqrt(FMul(x, x)) = x)
          /\ (x.e >= -130 /\ x.e <= 70 =>
                LET p == RatOf(x)  q == RoundingView(x)
                IN RFloor(p) = RFloor(q) /\ RCeiling(p) = RCeiling(q) /\ RTruncate(p) = RTruncate(q) /\ RRound(p) = RRound(q)))

Pair2 ==
  phase = "pair" =>
    LET x == fs[i]  y == fs[j] IN
    /\ FCmp(x, y) = FCmpExact(x, y)
    /\ FAdd(x, y) = FAddExact(x, y) /\ FAdd(x, y) = FAdd(y, x)
    /\ FMul(x, y) = FMul(y, x)
=============================================================================
