CONSTANT Tier = "thorough"
INIT Init
NEXT Next
INVARIANT SpecSane
INVARIANT Emit
