------------------------------- MODULE MC_C25 -------------------------------
(* C25: all-solutions predicates collect exactly the solutions.                              *)
(* Cases are queries over a fixed helper program: one all-solutions goal (findall/3,4,       *)
(* bagof/3, setof/3, forall/2, countall/2, call_nth/2) built from a template, a generator    *)
(* goal and a result pattern, placed in a context: plain; inside catch/3 and followed by     *)
(* another findall/3 in the same query (collector cleanup after an exception); inside an     *)
(* outer findall/3 (nested collectors, all answers of the inner goal).  The abstract machine *)
(* (Prolog.tla + AllSol.tla) is run on each query inside one TLC step; machine invariants    *)
(* (cut barriers, catch markers) are evaluated at every machine step and CollectorsOk (the   *)
(* collector stack is empty in every terminal state) at the end; the behaviour is printed.   *)
EXTENDS AllSol, Json

CONSTANT Tier, Mode        \* Mode: "exh" | "sim"
CONSTANT Bound

X == V("X")  Y == V("Y")  Z == V("Z")  W == V("W")  L == V("L")  E == V("E")  N == V("N")  G0 == V("G")
AA == V("A")  BB == V("B")  T0 == V("T")  V9 == V("V")  L2 == V("L2")  LL == V("LL")
a == A("a")  b == A("b")  c == A("c")  d == A("d")
Q1(t) == C1("q", t)
T1(t) == C1("t", t)
R2(s, t) == C2("r", s, t)
S2(s, t) == C2("s", s, t)
S3(s, t, u) == C3("s3", s, t, u)
Mem(s, t) == C2("mem", s, t)
Hat(v, g) == C2("^", v, g)
Pair(s, t) == C2("-", s, t)
Gt(s, t) == C2(">", s, t)
Lt(s, t) == C2("<", s, t)
Is(s, t) == C2("is", s, t)
Fact(h) == [h |-> h, b |-> True]

Helpers == <<
  Fact(Q1(a)), Fact(Q1(b)),
  Fact(T1(I(1))), Fact(T1(I(2))), Fact(T1(I(3))),
  Fact(R2(a, I(1))), Fact(R2(b, I(2))), Fact(R2(c, I(3))),
  [h |-> C2("u", X, Y), b |-> Conj(Q1(X), R2(X, Y))],
  Fact(S2(b, I(1))), Fact(S2(a, I(2))), Fact(S2(b, I(3))), Fact(S2(a, I(1))), Fact(S2(c, I(2))), Fact(S2(a, I(2))),
  Fact(S3(I(1), a, A("x"))), Fact(S3(I(2), b, A("x"))), Fact(S3(I(3), a, A("y"))), Fact(S3(I(1), b, A("y"))),
  Fact(Mem(X, Cons(X, V("T")))),            \* (no variable may be named "_": the machine's fresh copies are VI("_", k))
  [h |-> Mem(X, Cons(V("H"), V("T"))), b |-> Mem(X, V("T"))],
  Fact(C3("app", Nil, X, X)),
  [h |-> C3("app", Cons(V("H"), V("T")), Y, Cons(V("H"), V("R"))), b |-> C3("app", V("T"), Y, V("R"))]
>>

(* ---- generator goals ---- *)
ThrowAt2 == Conj(T1(X), Ite(C2(">=", X, I(2)), C1("throw", C1("oops", X)), True))       \* ball at the 2nd solution
DivAt3   == Conj(T1(X), Is(Y, C2("//", I(6), C2("-", X, I(3)))))                         \* evaluation error at the 3rd solution
GensQ == { Q1(X), T1(X), R2(X, Y), S2(X, Y), Fail, True,
           Mem(X, ListOf(<<c, a, b, a>>)),
           Disj(Q1(X), T1(X)),
           Conj(T1(X), Gt(X, I(1))),
           Conj(T1(X), Cut),                      \* cut inside the generator: local to it
           Conj(S2(X, Y), Lt(Y, I(3))),
           ThrowAt2, DivAt3,
           Conj(Q1(X), C3("findall", Y, R2(X, Y), Z)),        \* nested findall in the generator
           (* a nested findall abandoned by a ball after it collected solutions; the ball is caught INSIDE the generator, *)
           (* so the enclosing collection goes on and must not see what the abandoned one had gathered                    *)
           Conj(T1(X), C3("catch", C3("findall", Y, Conj(T1(Y), Ite(C2(">=", Y, I(3)), C1("throw", C1("oops", Y)), True)), Z),
                                   C1("oops", V("B0")), Eq(Z, A("caught")))),
           C3("catch", C3("findall", Y, Conj(T1(Y), Ite(C2(">=", Y, I(2)), C1("throw", C1("oops", Y)), True)), Z),
                       C1("oops", V("B0")), Eq(X, V("B0"))),
           Disj(Eq(X, a), Eq(Y, b)),              \* solutions that leave variables unbound
           S3(X, Y, Z),
           G0, I(1) }                             \* unbound and non-callable goal
GensMore == { C2("u", X, Y), Eq(X, a), Not(Q1(X)),
              Conj(S2(X, Y), Cut),
              Conj(Mem(X, ListOf(<<b, a>>)), Mem(Y, ListOf(<<I(1), I(1)>>))),
              Conj(Q1(X), C3("bagof", Y, R2(X, Y), Z)),
              Conj(Q1(X), C2("countall", R2(X, Y), Z)),
              Conj(T1(X), C1("call", Conj(T1(Y), Cut))),
              C3("app", X, Y, ListOf(<<a, b>>)),
              Conj(T1(X), C3("catch", Ite(Gt(X, I(1)), C1("throw", b), True), V("B0"), Fail)),
              Conj(T1(X), Ite(C2(">=", X, I(3)), C1("throw", C1("oops", X)), True)),
              Conj(T1(X), Conj(T1(Y), Gt(X, Y))) }
(* goals of the C07 grammar (atoms and one level of control) as generators *)
C07Atoms == { Q1(X), Q1(Y), T1(Y), R2(X, Y), Eq(X, a), Eq(X, b), Eq(X, Y), Eq(X, C1("f", Y)), Cut, Fail, True,
              C2("\\=", X, a), C2("==", X, a), C1("var", X), C1("atom", X), Is(Y, C2("+", I(1), I(1))), Lt(Y, I(2)),
              C2("u", X, Y), C3("app", Y, Z, ListOf(<<a, b>>)), Is(X, C2("+", Y, I(1))), C1("zz", X) }
C07S == { Q1(X), Q1(Y), Eq(X, a), Eq(X, Y), Cut, Fail, True, T1(Y), C1("var", X) }
C07Level1 == { Disj(g1, g2) : g1 \in C07S, g2 \in C07S } \cup { It(g1, g2) : g1 \in C07S, g2 \in C07S }
             \cup { Conj(g1, g2) : g1 \in C07S, g2 \in C07S } \cup { Not(g1) : g1 \in C07S } \cup { Call1(g1) : g1 \in C07S }
             \cup { Conj(g1, Conj(g2, g3)) : g1 \in {Q1(X), T1(Y)}, g2 \in {Cut, Q1(Y), Eq(X, Y)}, g3 \in {Cut, Fail, Q1(X)} }
Gens == IF Tier = "quick" THEN GensQ ELSE GensQ \cup GensMore
GensC07 == (C07Atoms \cup C07Level1) \ Gens
HatGens == { Hat(Y, S2(X, Y)), Hat(Y, R2(X, Y)), Hat(X, S2(X, Y)),
             Hat(Y, S3(X, Y, Z)), Hat(Z, S3(X, Y, Z)), Hat(Y, Hat(Z, S3(X, Y, Z))), Hat(C2("f", Y, Z), S3(X, Y, Z)),
             Hat(Y, G0), Hat(Y, Conj(S2(X, Y), Gt(Y, I(1)))) }

TemplatesQ == { X, Y, Pair(X, Y), C2("f", X, W), a }
Templates == IF Tier = "quick" THEN TemplatesQ
             ELSE TemplatesQ \cup { C1("f", X), Pair(Y, X), ListOf(<<X, Y>>), C3("findall", X, Q1(X), W), Pair(X, Pair(Y, Z)) }

ResultsQ == { L, Nil, Cons(AA, BB), A("foo") }
Results == IF Tier = "quick" THEN ResultsQ ELSE ResultsQ \cup { ListOf(<<AA, BB>>), ListOf(<<AA>>), Cons(AA, Cons(BB, T0)), ListOf(<<a, b>>) }
Diffs == { <<L, Nil>>, <<L, ListOf(<<A("z")>>)>>, <<L, T0>>, <<Cons(AA, BB), ListOf(<<A("z")>>)>>, <<L, A("foo")>>, <<A("foo"), T0>> }
         \cup (IF Tier = "quick" THEN {} ELSE { <<L, L>>, <<Nil, T0>>, <<ListOf(<<AA, BB>>), T0>>, <<L, Cons(A("z"), T0)>> })
BagResults == IF Tier = "quick" THEN { L, A("foo"), ListOf(<<AA>>) } ELSE { L, A("foo"), ListOf(<<AA>>), Cons(AA, BB), ListOf(<<AA, BB>>) }
Tests == { C2("\\==", X, b), C1("integer", X), Gt(Y, I(1)), Fail, G0, Q1(X) }
Counts == { N, I(0), I(2), I(3), I(0 - 1), a }
Nths == { N, I(0), I(1), I(2), I(4), I(0 - 1), a }

Forms ==
       { [p |-> "findall3", g |-> C3("findall", tm, gn, rs)] : tm \in Templates, gn \in Gens, rs \in Results }
  \cup { [p |-> "findall4", g |-> C("findall", <<tm, gn, df[1], df[2]>>)] : tm \in Templates, gn \in Gens, df \in Diffs }
  \cup { [p |-> "bagof", g |-> C3("bagof", tm, gn, rs)] : tm \in Templates, gn \in Gens \cup HatGens, rs \in BagResults }
  \cup { [p |-> "setof", g |-> C3("setof", tm, gn, rs)] : tm \in Templates, gn \in Gens \cup HatGens, rs \in BagResults }
  \cup { [p |-> "forall", g |-> C2("forall", gn, ts)] : gn \in Gens, ts \in Tests }
  (* the culprit of type_error(callable, _) for a non-callable goal of countall/call_nth is not documented (the library *)
  (* reports its internal conjunction): only callable and unbound goals are given to them                             *)
  \cup { [p |-> "countall", g |-> C2("countall", gn, k)] : gn \in Gens \ {I(1)}, k \in Counts }
  \cup { [p |-> "call_nth", g |-> C2("call_nth", gn, k)] : gn \in Gens \ {I(1)}, k \in Nths }

(* thorough: the goals of the C07 grammar as generators, with two templates and an unbound result *)
FormsC07 ==
       { [p |-> "findall3", g |-> C3("findall", tm, gn, L)] : tm \in {X, Pair(X, Y)}, gn \in GensC07 }
  \cup { [p |-> "bagof", g |-> C3("bagof", tm, gn, L)] : tm \in {X, Pair(X, Y)}, gn \in GensC07 }
  \cup { [p |-> "setof", g |-> C3("setof", tm, gn, L)] : tm \in {X, Pair(X, Y)}, gn \in GensC07 }
  \cup { [p |-> "findall4", g |-> C("findall", <<X, gn, L, T0>>)] : gn \in GensC07 }
  \cup { [p |-> "forall", g |-> C2("forall", gn, C1("atom", X))] : gn \in GensC07 }
  \cup { [p |-> "countall", g |-> C2("countall", gn, N)] : gn \in GensC07 }
  \cup { [p |-> "call_nth", g |-> C2("call_nth", gn, N)] : gn \in GensC07 }
AllForms == IF Tier = "quick" THEN Forms ELSE Forms \cup FormsC07

FollowUp == C3("findall", V9, T1(V9), L2)
Wraps == { "plain", "catch", "nested" }
Wrap(w, g) == CASE w = "plain" -> g
                [] w = "catch" -> Conj(C3("catch", g, E, True), FollowUp)
                [] w = "nested" -> C3("findall", ListOf(VarSeq(g)), g, LL)

(* the query run after a query that ended with an uncaught ball: collectors must be clean in the next query too *)
NextQuery == ConjOf(<<C3("findall", X, T1(X), L), C2("countall", Q1(Y), N), C3("setof", Z, Hat(W, S2(Z, W)), L2)>>)

(* ---- random nesting for simulation: all-solutions goals as generators of all-solutions goals ---- *)
RGenBase(u) == RandomElement((GensQ \cup GensMore) \ {I(1)})
RTemplate(u) == RandomElement(TemplatesQ \cup { Pair(Y, X), Z, Pair(X, Z) })
RECURSIVE RAll(_)
RAll(dd) ==
  LET gn == IF dd = 0 THEN RGenBase(dd)
            ELSE LET k == RandomElement(1..4) IN
                 CASE k = 1 -> Conj(RGenBase(dd), RAll(dd - 1)) [] k = 2 -> RAll(dd - 1)
                   [] k = 3 -> Disj(RAll(dd - 1), RGenBase(dd)) [] k = 4 -> Conj(RAll(dd - 1), RGenBase(dd))
      k2 == RandomElement(1..8)
      res == RandomElement({L, Z, W})
  IN CASE k2 = 1 -> C3("findall", RTemplate(dd), gn, res)
       [] k2 = 2 -> C("findall", <<RTemplate(dd), gn, res, RandomElement({Nil, T0, ListOf(<<A("z")>>)})>>)
       [] k2 = 3 -> C3("bagof", RTemplate(dd), gn, res)
       [] k2 = 4 -> C3("setof", RTemplate(dd), gn, res)
       [] k2 = 5 -> C3("bagof", RTemplate(dd), Hat(RandomElement({X, Y, Z}), gn), res)
       [] k2 = 6 -> C2("countall", gn, RandomElement({N, Z, I(2)}))
       [] k2 = 7 -> C2("call_nth", gn, RandomElement({N, I(1), I(2), Z}))
       [] k2 = 8 -> C2("forall", gn, RandomElement(Tests))

(* ---------------------------------------------------------------------------------------- *)
LoadAS(q) == Load(Helpers, {}, q)
RECURSIVE RunAS(_, _)
RunAS(mm, ok) ==
  IF mm.phase = "done" THEN [m |-> mm, ok |-> ok /\ CollectorsOk(mm)]
  ELSE IF mm.steps >= Bound THEN [m |-> Finish(mm, "diverge"), ok |-> ok]
  ELSE RunAS(StepAS(mm), ok /\ MachineOk(mm))

VARIABLE m
Init == m = [phase |-> "gen"]
Gen ==
  /\ m.phase = "gen"
  /\ IF Mode = "exh"
     THEN \E f \in AllForms : \E w \in Wraps : m' = [phase |-> "case", p |-> f.p, w |-> w, q |-> Wrap(w, f.g)]
     ELSE m' = [phase |-> "case", p |-> "random", w |-> "random", q |-> Wrap(RandomElement(Wraps), RAll(RandomElement(0..2)))]
RunCase ==
  /\ m.phase = "case"
  /\ LET r == RunAS(LoadAS(m.q), TRUE)
         (* forall/2 equals \+ (C, \+ A): checked on the machine for every forall case *)
         alt == IF m.p = "forall" /\ m.w = "plain"
                THEN RunAS(LoadAS(Not(Conj(Call1(m.q.a[1]), Not(m.q.a[2])))), TRUE)
                ELSE r
     IN m' = [phase |-> "res", p |-> m.p, w |-> m.w, q |-> m.q, qv |-> r.m.qv, status |-> r.m.status, ans |-> r.m.ans,
              ball |-> r.m.ball, balts |-> r.m.balts, steps |-> r.m.steps, ok |-> r.ok /\ alt.ok,
              same |-> (alt.m.status = r.m.status /\ alt.m.ball = r.m.ball /\ alt.m.ans = r.m.ans)]
Next == Gen \/ RunCase

(* what TLC decides: machine invariants at every step, the collector stack empty in every terminal state *)
(* (also after exceptions inside the generator and after cuts), forall/2 = \+ (C, \+ A)                   *)
Inv == m.phase = "res" => m.ok /\ m.same

Emit == m.phase = "res" /\ m.status \in {"done", "exc", "capped"} =>
          PrintT(ToJson([p |-> m.p, w |-> m.w, prog |-> <<>>, q |-> m.q, qv |-> m.qv, ans |-> m.ans, status |-> m.status,
                         ball |-> m.ball, balts |-> m.balts, steps |-> m.steps, dynkeys |-> <<>>]))

(* printed once: the helper program, the next-query probe with its expected answers, the name table *)
EmitOnce == m.phase = "gen" =>
              LET r == RunAS(LoadAS(NextQuery), TRUE)
              IN PrintT(ToJson([kind |-> "once", helpers |-> Helpers, nameorder |-> NameOrder,
                                next |-> [prog |-> <<>>, q |-> NextQuery, qv |-> r.m.qv, ans |-> r.m.ans, status |-> r.m.status,
                                          ball |-> r.m.ball, dynkeys |-> <<>>]]))
=============================================================================
