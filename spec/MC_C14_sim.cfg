CONSTANT Tier = "sim"
INIT Init
NEXT Next
INVARIANT Emit
