-------------------------------- MODULE AllSol --------------------------------
(* C25: the all-solutions predicates on top of the abstract machine spec/Prolog.tla.        *)
(* Prolog.tla already has findall/3 (collector stack m.lh = the model of the lifted heap,   *)
(* cleaned by Unwind when a ball passes) and forall/2.  This module adds, without touching  *)
(* Prolog.tla, the goal forms                                                                *)
(*   findall/4, bagof/3, setof/3     (collector frames as findall/3)                        *)
(*   countall/2, call_nth/2          (library(iso_ext); solution counters)                  *)
(* Every goal is dispatched from the goal stack by Step, so StepAS below looks at the first *)
(* frame, executes the forms of this module itself (ExecAS) and delegates all others to     *)
(* Prolog!Exec.  StepAS repeats the six lines of Prolog!Step around that dispatch.          *)
EXTENDS Prolog

DomErr(d, x) == ErrTerm(C2("domain_error", A(d), x))

ASKeys == { <<"findall", 4>>, <<"bagof", 3>>, <<"setof", 3>>, <<"countall", 2>>, <<"call_nth", 2>>,
            <<"$fa_done4", 2>>, <<"$bag_done", 3>>, <<"$bag_next", 3>>, <<"$tick", 1>>, <<"$ca_done", 2>>, <<"$nth", 3>> }

(* ---- bagof/setof: existential variables and iterated goal (ISO 7.1.1.4) ---- *)
RECURSIVE ExVars(_)
ExVars(x) == IF IsF(x, "^", 2) THEN VarsOf(x.a[1]) \cup ExVars(x.a[2]) ELSE {}
RECURSIVE IterGoal(_)
IterGoal(x) == IF IsF(x, "^", 2) THEN IterGoal(x.a[2]) ELSE x

(* ---- standard order of terms (ISO 7.2): Var < Number < Atom < Compound; integers by value; atoms by  *)
(* name (character codes); compound terms by arity, then name, then arguments left to right.            *)
(* NameOrder lists the atom and functor names of the term alphabet in character-code order (checked by   *)
(* the driver); a name outside the table makes CHOOSE fail, i.e. the model stops.                        *)
NameOrder == <<"+", "-", ".", "[]", "^", "a", "b", "c", "d", "error", "f", "findall", "foo", "g", "oops", "x", "y", "z">>
NameRank(nm) == CHOOSE j \in 1..Len(NameOrder) : NameOrder[j] = nm
TypeRank(x) == CASE x.t = "v" -> 0 [] x.t = "i" -> 1 [] x.t = "a" -> 3 [] x.t = "c" -> 4
(* -1, 0, 1; 2 = not specified (two distinct variables meet: their order is implementation dependent) *)
RECURSIVE StdCmp(_, _)
RECURSIVE StdCmpArgs(_, _, _)
StdCmp(x, y) ==
  IF x = y THEN 0
  ELSE IF TypeRank(x) # TypeRank(y) THEN (IF TypeRank(x) < TypeRank(y) THEN 0 - 1 ELSE 1)
  ELSE IF x.t = "v" THEN 2
  ELSE IF x.t = "i" THEN (IF x.i < y.i THEN 0 - 1 ELSE 1)
  ELSE IF x.t = "a" THEN (IF NameRank(x.n) < NameRank(y.n) THEN 0 - 1 ELSE 1)
  ELSE IF Len(x.a) # Len(y.a) THEN (IF Len(x.a) < Len(y.a) THEN 0 - 1 ELSE 1)
  ELSE IF x.n # y.n THEN (IF NameRank(x.n) < NameRank(y.n) THEN 0 - 1 ELSE 1)
  ELSE StdCmpArgs(x.a, y.a, 1)
StdCmpArgs(xs, ys, j) == IF j > Len(xs) THEN 0
                         ELSE LET c == StdCmp(xs[j], ys[j]) IN IF c = 0 THEN StdCmpArgs(xs, ys, j + 1) ELSE c

(* pairs Witness-Template: keysort (bagof: by witness, stable) or sort (setof: whole pair, duplicates removed) *)
PCmp(p1, p2, keyonly) == IF keyonly THEN StdCmp(p1.a[1], p2.a[1]) ELSE StdCmp(p1, p2)
RECURSIVE InsertS(_, _, _)
InsertS(s, x, ko) == IF s = <<>> THEN <<x>>
                     ELSE LET lst == s[Len(s)]
                          IN IF PCmp(lst, x, ko) <= 0 THEN Append(s, x)
                             ELSE Append(InsertS(SubSeq(s, 1, Len(s) - 1), x, ko), lst)
RECURSIVE SortS(_, _)
SortS(s, ko) == IF s = <<>> THEN <<>> ELSE InsertS(SortS(SubSeq(s, 1, Len(s) - 1), ko), s[Len(s)], ko)
RECURSIVE Dedup(_)
Dedup(s) == IF Len(s) <= 1 THEN s
            ELSE IF s[1] = s[2] THEN Dedup(Tail(s)) ELSE <<s[1]>> \o Dedup(Tail(s))
Ambig(s, ko) == \E i \in 1..Len(s) : \E j \in 1..Len(s) : i < j /\ PCmp(s[i], s[j], ko) = 2
(* adjacent pairs with identical witness form a group (variant witnesses are identical after DictBind) *)
RECURSIVE TakeSame(_, _, _)
TakeSame(s, w, j) == IF j <= Len(s) /\ s[j].a[1] = w THEN TakeSame(s, w, j + 1) ELSE j
RECURSIVE Groups(_)
Groups(s) == IF s = <<>> THEN <<>>
             ELSE LET w == s[1].a[1]
                      e == TakeSame(s, w, 2)
                  IN <<[w |-> w, ts |-> [j \in 1..(e - 1) |-> s[j].a[2]]]>> \o Groups(SubSeq(s, e, Len(s)))
(* ISO 8.10.2: the solutions whose witness is a variant of the chosen one are unified with it.  As in the       *)
(* library (unify_variant_variables/2) the k-th distinct variable of every witness is identified with the k-th  *)
(* variable of one fresh sequence, which makes variant witnesses identical before sorting.                      *)
RECURSIVE BindVars(_, _, _, _)
BindVars(st, vs, j, base) == IF j > Len(vs) THEN st ELSE BindVars(Bind(st, vs[j], VI("_D", base + j)), vs, j + 1, base)
RECURSIVE DictBind(_, _, _, _)
DictBind(st, items, j, base) ==
  IF j > Len(items) THEN st ELSE DictBind(BindVars(st, VarSeq(Apply(st, items[j].a[1])), 1, base), items, j + 1, base)
RECURSIVE MaxWitVars(_)
MaxWitVars(items) == IF items = <<>> THEN 0
                     ELSE LET a1 == Len(VarSeq(items[1].a[1]))  r1 == MaxWitVars(Tail(items)) IN IF a1 > r1 THEN a1 ELSE r1

(* solution counters of countall/2 and call_nth/2 live in m.gv under reserved keys: like the bb_put/bb_get *)
(* counters of the library implementation they survive backtracking                                        *)
CntKey(id) == "$cnt" \o ToString(id)
CntGet(m, id) == m.gv[CntKey(id)].i
CntSet(m, id, v) == [m EXCEPT !.gv = (CntKey(id) :> I(v)) @@ m.gv]

ExecAS(m, g, cb, rest) ==
  LET cont == [m EXCEPT !.gs = rest]
      h0 == Len(m.cps)
  IN
  CASE IsF(g, "findall", 4) ->
         (* library doc: "Similar to findall/3 but returns the solutions as the difference list Solutions0-Solutions1"; *)
         (* both must be partial lists (can_be(list, _), Solutions0 is checked first)                                   *)
         LET id == h0 + 1 IN
         IF ~PartialList(m.st, g.a[3]) THEN Throw(m, TypeErr("list", g.a[3]))
         ELSE IF ~PartialList(m.st, g.a[4]) THEN Throw(m, TypeErr("list", g.a[4])) ELSE
         [m EXCEPT !.cps = Append(m.cps, CP("alt", <<F(C2("$fa_done4", g.a[3], g.a[4]), 0)>> \o rest, m.st, None, None)),
                   !.lh = Append(m.lh, [h |-> id, items |-> <<>>]),
                   !.gs = <<F(Call1(g.a[2]), id), F(C1("$fa_push", g.a[1]), 0), F(Fail, 0)>> \o rest]
    [] IsF(g, "$fa_done4", 2) ->
         LET n == Len(m.lh)
             u == Unify(m.st, g.a[1], PListOf(m.lh[n].items, g.a[2]))
             m1 == [m EXCEPT !.lh = SubSeq(m.lh, 1, n - 1)]
         IN IF u.cyc THEN Finish(m1, "cyclic") ELSE IF u.ok THEN [m1 EXCEPT !.st = u.st, !.gs = rest] ELSE Backtrack(m1)
    [] (IsF(g, "bagof", 3) \/ IsF(g, "setof", 3)) ->
         (* ISO 8.10.2/8.10.3 with 7.1.1.4: the witness is the term of the free variables of Goal with respect to   *)
         (* Template (variables of Goal that are neither in Template nor in a V of a V^ prefix), here in order of    *)
         (* first occurrence in Goal (implementation dependent in ISO; the library uses term_variables/2 order)      *)
         LET id == h0 + 1
             tmpl == Apply(m.st, g.a[1])
             goal == Apply(m.st, g.a[2])
             tv == VarsOf(tmpl)
             ev == ExVars(goal)
             wit == ListOf(SelectSeq(VarSeq(goal), LAMBDA v : v \notin tv /\ v \notin ev))
         IN
         IF ~PartialList(m.st, g.a[3]) THEN Throw(m, TypeErr("list", g.a[3])) ELSE
         [m EXCEPT !.cps = Append(m.cps, CP("alt", <<F(C3("$bag_done", A(g.n), wit, g.a[3]), 0)>> \o rest, m.st, None, None)),
                   !.lh = Append(m.lh, [h |-> id, items |-> <<>>]),
                   !.gs = <<F(Call1(IterGoal(goal)), id), F(C1("$fa_push", C2("-", wit, tmpl)), 0), F(Fail, 0)>> \o rest]
    [] IsF(g, "$bag_done", 3) ->
         LET n == Len(m.lh)
             items == m.lh[n].items
             m1 == [m EXCEPT !.lh = SubSeq(m.lh, 1, n - 1)]
         IN IF items = <<>> THEN Backtrack(m1)        \* no solution: bagof/setof fail
            ELSE
            LET st1 == DictBind(m.st, items, 1, m.k)
                pairs == [j \in 1..Len(items) |-> Apply(st1, items[j])]
                keyonly == g.a[1].n = "bagof"
                sorted == IF keyonly THEN SortS(pairs, TRUE) ELSE Dedup(SortS(pairs, FALSE))
                grp == Groups(sorted)
                gterm == ListOf([j \in 1..Len(grp) |-> C2("-", grp[j].w, ListOf(grp[j].ts))])
            IN IF Ambig(pairs, keyonly) THEN Finish(m1, "ambig")
               ELSE [m1 EXCEPT !.k = m.k + MaxWitVars(items) + 1,
                               !.gs = <<F(C3("$bag_next", g.a[2], g.a[3], gterm), 0)>> \o rest]
    [] IsF(g, "$bag_next", 3) ->
         LET l == Deref(m.st, g.a[3]) IN
         IF IsA(l, "[]") THEN Backtrack(m)
         ELSE LET first == l.a[1]
                  more == l.a[2]
                  u == Unify(m.st, C2("wr", g.a[1], g.a[2]), C2("wr", first.a[1], first.a[2]))
              IN IF u.cyc THEN Finish(m, "cyclic")
                 ELSE IF ~u.ok THEN [m EXCEPT !.gs = <<F(C3("$bag_next", g.a[1], g.a[2], more), 0)>> \o rest]
                 ELSE LET cps1 == IF IsA(more, "[]") THEN m.cps
                                  ELSE Append(m.cps, CP("alt", <<F(C3("$bag_next", g.a[1], g.a[2], more), 0)>> \o rest, m.st, None, None))
                      IN [cont EXCEPT !.st = u.st, !.cps = cps1]
    [] IsF(g, "countall", 2) ->
         (* library(iso_ext): "countall(G_0, N) is true iff N unifies with the total number of answers of call(G_0)"; *)
         (* can_be(integer, N), then an integer N < 0 -> domain_error(not_less_than_zero, N)                         *)
         LET nn == Deref(m.st, g.a[2])
             id == m.k
         IN IF nn.t \notin {"v", "i"} THEN Throw(m, TypeErr("integer", nn))
            ELSE IF nn.t = "i" /\ nn.i < 0 THEN Throw(m, DomErr("not_less_than_zero", nn))
            ELSE [CntSet(m, id, 0) EXCEPT
                       !.cps = Append(m.cps, CP("alt", <<F(C2("$ca_done", I(id), g.a[2]), 0)>> \o rest, m.st, None, None)),
                       !.k = m.k + 1,
                       !.gs = <<F(Call1(g.a[1]), h0 + 1), F(C1("$tick", I(id)), 0), F(Fail, 0)>> \o rest]
    [] IsF(g, "$tick", 1) -> CntSet(cont, g.a[1].i, CntGet(m, g.a[1].i) + 1)
    [] IsF(g, "$ca_done", 2) ->
         LET u == Unify(m.st, g.a[2], I(CntGet(m, g.a[1].i))) IN IF u.ok THEN [cont EXCEPT !.st = u.st] ELSE Backtrack(m)
    [] IsF(g, "call_nth", 2) ->
         (* library(iso_ext): "Succeeds when Goal succeeded for the Nth time (there are at least N solutions)";      *)
         (* can_be(integer, N); an integer N < 0 -> domain_error(not_less_than_zero, N); N = 0 fails; for an integer  *)
         (* N the N-th solution is the only answer, for an unbound N the solutions are numbered 1, 2, ...            *)
         LET nn == Deref(m.st, g.a[2])
             id == m.k
         IN IF nn.t \notin {"v", "i"} THEN Throw(m, TypeErr("integer", nn))
            ELSE IF nn.t = "i" /\ nn.i < 0 THEN Throw(m, DomErr("not_less_than_zero", nn))
            ELSE IF nn.t = "i" /\ nn.i = 0 THEN Backtrack(m)
            ELSE [CntSet(m, id, 0) EXCEPT
                       !.k = m.k + 1,
                       !.gs = <<F(Call1(g.a[1]), h0), F(C3("$nth", I(id), g.a[2], I(h0)), 0)>> \o rest]
    [] IsF(g, "$nth", 3) ->
         LET id == g.a[1].i
             c == CntGet(m, id) + 1
             nn == Deref(m.st, g.a[2])
             m1 == CntSet(m, id, c)
         IN IF nn.t = "i"
            THEN (IF nn.i = c THEN [m1 EXCEPT !.gs = rest, !.cps = SubSeq(m.cps, 1, g.a[3].i)] ELSE Backtrack(m1))
            ELSE LET u == Unify(m.st, nn, I(c)) IN IF u.ok THEN [m1 EXCEPT !.gs = rest, !.st = u.st] ELSE Backtrack(m1)

StepAS(m) ==
  IF m.steps >= MaxSteps THEN Finish(m, "diverge")
  ELSE LET m0 == [m EXCEPT !.steps = m.steps + 1] IN
  IF m.gs = <<>> THEN
     LET a  == [j \in 1..Len(m.qv) |-> Apply(m.st, m.qv[j])]
         m1 == [m0 EXCEPT !.ans = Append(@, a)]
     IN IF Len(m1.ans) >= MaxAns THEN Finish(m1, "capped") ELSE Backtrack(m1)
  ELSE LET g == Deref(m.st, m.gs[1].g) IN
       IF g.t = "c" /\ Key(g) \in ASKeys THEN ExecAS(m0, g, m.gs[1].cb, Tail(m.gs))
       ELSE Exec(m0, m.gs[1], Tail(m.gs))
==============================================================================
