------------------------------ MODULE TermsExt ------------------------------
(* Extension of Terms (uniform records [t, n, i, a]) used by StdOrder (C13), UnifySpec (C10) and *)
(* TermOps (C23):                                                                                *)
(*                                                                                                *)
(* 1. further atomic terms, keeping the record shape uniform (i is always a native integer, a     *)
(*    always a sequence of term records, n always a string) so that TLC's equality stays total:   *)
(*      "big" integer outside the native range: n = decimal text, i = sign (-1 | 1),              *)
(*            a = the base-10^4 limbs (little endian) as "i" terms;  value = BigInt               *)
(*      "r"   rational, a = <<numerator, denominator>> ("i"/"big" terms), normalised, den > 1     *)
(*      "f"   float, n = the 16 lower-case hex digits of its IEEE-754 binary64 bit pattern        *)
(*    An integer is ALWAYS represented by "i" when it fits (BigInt!FitsInt) and by "big"          *)
(*    otherwise, so that term equality is value equality.                                         *)
(*                                                                                                *)
(* 2. atom names: a name is a TLA+ string.  Its code points are Codes(name).  TLC cannot print    *)
(*    non-ASCII characters, therefore a non-ASCII name is written as an ASCII alias ("u_e9") and  *)
(*    NonAsciiTab gives its code points; the binding renders every name from Codes.               *)
(*                                                                                                *)
(* 3. build trees: the same term can be laid out in the heap of the implementation in several     *)
(*    ways ("ab" | [a,b] | [a|"b"] | a partial string with a tail; 1 as a literal or as the       *)
(*    result of bignum arithmetic; 2 as 4 rdiv 2).  A build tree says HOW a term is produced;     *)
(*    Den(b) is the term it denotes - the only thing the specification's operators look at.       *)
(*    Build trees are records of the same shape with the additional tags                          *)
(*      "s"    string literal, a = its characters (one-character atoms)        -> their list      *)
(*      "ps"   partial string, a = <<tail build>> \o characters (>= 1)          -> chars | tail    *)
(*      "calc" a = <<integer term k>>: computed at run time as (k + 2^80) - 2^80 -> k              *)
(*      "rd"   a = <<n, d>> integer terms, d > 0: computed as n rdiv d           -> the normalised *)
(*             value (an integer term when d divides n)                                           *)
(*      "univ" a = <<h, t>>: built by T =.. ['.', h, t]                          -> '.'(h, t)      *)
(*      "c"    compound whose arguments are build trees; every other tag denotes itself.          *)
EXTENDS Terms

B == INSTANCE BigInt

(* ---- integers ---- *)
BigT(b) == [t |-> "big", n |-> B!ToDec(b), i |-> IF b.neg THEN -1 ELSE 1,
            a |-> [k \in 1..Len(b.m) |-> I(b.m[k])]]
IntT(b) == IF B!FitsInt(b) THEN I(B!ToInt(b)) ELSE BigT(b)
IsInteger(x) == x.t \in {"i", "big"}
IntVal(x) == IF x.t = "i" THEN B!FromInt(x.i)
             ELSE [neg |-> x.i < 0, m |-> [k \in 1..Len(x.a) |-> x.a[k].i]]
Pow2T(k) == IntT(B!Pow2(k))
NegT(x) == IntT(B!Neg(IntVal(x)))

(* ---- rationals: RatT(n, d) for BigInt n, d with d > 0 ---- *)
RatT(n, d) ==
  LET g  == B!Gcd(n, d)
      nn == B!TDiv(n, g)
      dd == B!TDiv(d, g)
  IN IF dd = B!One THEN IntT(nn)
     ELSE [t |-> "r", n |-> "", i |-> 0, a |-> <<IntT(nn), IntT(dd)>>]
IsRat(x) == x.t = "r"
(* numerator / denominator of any integer or rational term *)
NumOf(x) == IF x.t = "r" THEN IntVal(x.a[1]) ELSE IntVal(x)
DenOf(x) == IF x.t = "r" THEN IntVal(x.a[2]) ELSE B!One
(* -1 | 0 | 1 : exact comparison of two integer/rational terms by value *)
RatCmp(x, y) == B!Cmp(B!Mul(NumOf(x), DenOf(y)), B!Mul(NumOf(y), DenOf(x)))

(* ---- floats ---- *)
FloatT(hex) == [t |-> "f", n |-> hex, i |-> 0, a |-> <<>>]
IsFloat(x) == x.t = "f"
HexVal(c) ==
  CASE c = "0" -> 0 [] c = "1" -> 1 [] c = "2" -> 2 [] c = "3" -> 3 [] c = "4" -> 4 [] c = "5" -> 5
    [] c = "6" -> 6 [] c = "7" -> 7 [] c = "8" -> 8 [] c = "9" -> 9 [] c = "a" -> 10 [] c = "b" -> 11
    [] c = "c" -> 12 [] c = "d" -> 13 [] c = "e" -> 14 [] c = "f" -> 15
HexDigits(h) == [k \in 1..Len(h) |-> HexVal(SubSeq(h, k, k))]
FloatNeg(h) == HexVal(SubSeq(h, 1, 1)) >= 8
FloatMag(h) == LET d == HexDigits(h) IN [d EXCEPT ![1] = IF d[1] >= 8 THEN d[1] - 8 ELSE d[1]]
Sgn(k) == IF k < 0 THEN -1 ELSE IF k > 0 THEN 1 ELSE 0
RECURSIVE SeqCmpFrom(_, _, _)
SeqCmpFrom(s, u, k) ==           \* lexicographic order of two sequences of integers
  IF k > Len(s) THEN (IF k > Len(u) THEN 0 ELSE -1)
  ELSE IF k > Len(u) THEN 1
  ELSE IF s[k] # u[k] THEN Sgn(s[k] - u[k])
  ELSE SeqCmpFrom(s, u, k + 1)
SeqCmp(s, u) == SeqCmpFrom(s, u, 1)
(* order of two finite, non-NaN binary64 values given by their bit patterns (sign-magnitude):  *)
(* the models never contain -0.0 (bits 8000000000000000), whose order relative to 0.0 the       *)
(* property does not determine ("by value" makes them equal although they are different terms). *)
FloatCmp(h1, h2) ==
  IF FloatNeg(h1) # FloatNeg(h2) THEN (IF FloatNeg(h1) THEN -1 ELSE 1)
  ELSE IF FloatNeg(h1) THEN SeqCmp(FloatMag(h2), FloatMag(h1))
  ELSE SeqCmp(FloatMag(h1), FloatMag(h2))

IsNumber(x) == x.t \in {"i", "big", "r", "f"}
IsAtomicX(x) == x.t \in {"a", "i", "big", "r", "f"}

(* ---- names ---- *)
(* code points of the ASCII characters used in names (a function: TLC evaluates it once) *)
AsciiTab ==
  ("a" :> 97) @@ ("b" :> 98) @@ ("c" :> 99) @@ ("d" :> 100) @@ ("e" :> 101) @@ ("f" :> 102)
  @@ ("g" :> 103) @@ ("h" :> 104) @@ ("i" :> 105) @@ ("j" :> 106) @@ ("k" :> 107)
  @@ ("l" :> 108) @@ ("m" :> 109) @@ ("n" :> 110) @@ ("o" :> 111) @@ ("p" :> 112)
  @@ ("q" :> 113) @@ ("r" :> 114) @@ ("s" :> 115) @@ ("t" :> 116) @@ ("u" :> 117)
  @@ ("v" :> 118) @@ ("w" :> 119) @@ ("x" :> 120) @@ ("y" :> 121) @@ ("z" :> 122) @@ ("_" :> 95)
  @@ ("-" :> 45) @@ ("." :> 46) @@ ("[" :> 91) @@ ("]" :> 93) @@ ("<" :> 60) @@ (">" :> 62)
  @@ ("=" :> 61) @@ ("," :> 44) @@ ("+" :> 43) @@ ("*" :> 42) @@ ("/" :> 47) @@ ("{" :> 123)
  @@ ("}" :> 125) @@ ("|" :> 124) @@ (" " :> 32) @@ ("!" :> 33) @@ (";" :> 59) @@ (":" :> 58)
  @@ ("$" :> 36) @@ ("^" :> 94) @@ ("@" :> 64) @@ ("#" :> 35) @@ ("&" :> 38) @@ ("0" :> 48)
  @@ ("1" :> 49) @@ ("2" :> 50) @@ ("3" :> 51) @@ ("4" :> 52) @@ ("5" :> 53) @@ ("6" :> 54)
  @@ ("7" :> 55) @@ ("8" :> 56) @@ ("9" :> 57) @@ ("A" :> 65) @@ ("B" :> 66) @@ ("C" :> 67)
  @@ ("D" :> 68) @@ ("E" :> 69) @@ ("F" :> 70) @@ ("G" :> 71) @@ ("H" :> 72) @@ ("I" :> 73)
  @@ ("J" :> 74) @@ ("K" :> 75) @@ ("L" :> 76) @@ ("M" :> 77) @@ ("N" :> 78) @@ ("O" :> 79)
  @@ ("P" :> 80) @@ ("Q" :> 81) @@ ("R" :> 82) @@ ("S" :> 83) @@ ("T" :> 84) @@ ("U" :> 85)
  @@ ("V" :> 86) @@ ("W" :> 87) @@ ("X" :> 88) @@ ("Y" :> 89) @@ ("Z" :> 90)
AsciiOrd(ch) == AsciiTab[ch]
(* aliases of the non-ASCII names used by the models: a-umlaut, e-acute, euro sign (3 UTF-8     *)
(* bytes), U+FFFD (3 bytes, above the UTF-16 surrogates), U+1F600 (4 bytes), "e-acute a"         *)
NonAsciiTab ==
  ("u_e4" :> <<228>>) @@ ("u_e9" :> <<233>>) @@ ("u_20ac" :> <<8364>>) @@ ("u_fffd" :> <<65533>>)
  @@ ("u_1f600" :> <<128512>>) @@ ("u_e9_a" :> <<233, 97>>)
Codes(nm) == IF nm \in DOMAIN NonAsciiTab THEN NonAsciiTab[nm]
             ELSE [k \in 1..Len(nm) |-> AsciiOrd(SubSeq(nm, k, k))]
NameCmp(n1, n2) == IF n1 = n2 THEN 0 ELSE SeqCmp(Codes(n1), Codes(n2))

(* ---- build trees ---- *)
Str(chars)       == [t |-> "s",    n |-> "", i |-> 0, a |-> chars]           \* chars: sequence of A(c)
PStr(chars, tl)  == [t |-> "ps",   n |-> "", i |-> 0, a |-> <<tl>> \o chars]
Calc(k)          == [t |-> "calc", n |-> "", i |-> 0, a |-> <<k>>]
Rd(n, d)         == [t |-> "rd",   n |-> "", i |-> 0, a |-> <<n, d>>]
UnivCons(h, tl)  == [t |-> "univ", n |-> "", i |-> 0, a |-> <<h, tl>>]
Chars(names)     == [k \in 1..Len(names) |-> A(names[k])]                    \* <<"a","b">> -> char atoms

RECURSIVE Den(_)
Den(b) ==
  CASE b.t = "s"    -> ListOf(b.a)
    [] b.t = "ps"   -> PListOf(Tail(b.a), Den(b.a[1]))
    [] b.t = "calc" -> b.a[1]
    [] b.t = "rd"   -> RatT(IntVal(b.a[1]), IntVal(b.a[2]))
    [] b.t = "univ" -> Cons(Den(b.a[1]), Den(b.a[2]))
    [] b.t = "c"    -> [b EXCEPT !.a = [k \in 1..Len(b.a) |-> Den(b.a[k])]]
    [] OTHER        -> b

(* every name occurring in a term (for the name table handed to the binding) *)
RECURSIVE NamesOf(_)
NamesOf(x) == (IF x.t \in {"a", "c"} THEN {x.n} ELSE {})
              \cup UNION {NamesOf(x.a[k]) : k \in 1..Len(x.a)}
NameTable(names) == [nm \in names |-> Codes(nm)]
=============================================================================
