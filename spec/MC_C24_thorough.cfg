CONSTANTS
  Sizes = {1, 2, 3}
  CanonOnly = FALSE
  Chunks = 100
  SampleN = 4
  SampleCount = 12000
INIT Init
NEXT Next
INVARIANT Check
