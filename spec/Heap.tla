-------------------------------- MODULE Heap --------------------------------
(* Layer B: capacity arithmetic of src/machine/heap.rs.  Every write site is an action    *)
(* <guard (with the growth loop), write extent, new byte_len>, transcribed from the code.  *)
(* All quantities are bytes; cells are 8 bytes.  The property (C33) is the invariant       *)
(* InBounds: no write extends past byte_cap and byte_len <= byte_cap.                      *)
(*                                                                                         *)
(* Strings are sequences over {"c", "z"}: "c" a non-NUL byte, "z" a NUL character          *)
(* (push_pstr splits at NULs into list cells).                                             *)
EXTENDS Integers, Sequences

CONSTANTS InitCap,     \* capacity given to the first growth of an empty heap (code: 256*256*8)
          MaxCap       \* growth beyond this fails (models allocation failure)

Cell == 8

(* pstr_sentinel_length: zero bytes after a string chunk ending at offset n *)
Sent(n) == LET r == (Cell - (n % Cell)) % Cell IN IF r = 0 THEN Cell ELSE r

(* ReservedHeapSection::push_pstr_segment: cells written for a NUL-free chunk of L > 0 bytes *)
SegCells(L) == IF L = 0 THEN 0
               ELSE IF Sent(L) = 1 THEN (L + 1 + Cell) \div Cell ELSE (L + Sent(L)) \div Cell

(* Heap::pstr_tail_idx relative to the chunk start, as used by compute_pstr_size *)
TailIdx(L) == IF (L + 1) % Cell = 0 THEN (L \div Cell) + 2 ELSE (L \div Cell) + 1

(* length of the maximal NUL-free prefix *)
RECURSIVE Prefix(_)
Prefix(s) == IF s = <<>> \/ s[1] = "z" THEN 0 ELSE 1 + Prefix(Tail(s))

(* Heap::compute_pstr_size, in BYTES (the callers pass it to reserve() as a number of cells) *)
RECURSIVE SizeBytesAcc(_)
SizeBytesAcc(s) == IF s = <<>> THEN 0
                   ELSE IF s[1] = "z" THEN 2 * Cell + SizeBytesAcc(Tail(s))
                   ELSE LET L == Prefix(s) IN TailIdx(L) * Cell + SizeBytesAcc(SubSeq(s, L + 1, Len(s)))
PStrSizeBytes(s) == SizeBytesAcc(s) + Cell

(* ReservedHeapSection::push_pstr: cells actually written (have = "ret is Some") *)
RECURSIVE Written(_, _)
Written(s, have) ==
  IF s = <<>> THEN 0
  ELSE IF s[1] = "z" THEN (IF have THEN 2 ELSE 1) + Written(Tail(s), TRUE)
  ELSE LET L == Prefix(s)
           rest == SubSeq(s, L + 1, Len(s))
           link == IF have THEN 1 ELSE 0
       IN IF rest = <<>> THEN link + SegCells(L)
          ELSE link + SegCells(L) + 2 + Written(Tail(rest), TRUE)     \* segment, then the [\0|..] list cell pair

-----------------------------------------------------------------------------
VARIABLES len, cap, wend, op      \* op: the last operation [name, arg, ok] (observation only)
vars == <<len, cap, wend, op>>

Grown(c) == IF c = 0 THEN InitCap ELSE 2 * c
(* the growth loop "loop { if guard(cap) {break} else if !grow() {fail} }": resulting capacity, or -1 *)
RECURSIVE GrowUntil(_, _)
GrowUntil(c, need) ==      \* need: bytes of free space demanded, i.e. guard is c - len >= need
  IF c - len >= need THEN c
  ELSE IF Grown(c) > MaxCap THEN -1 ELSE GrowUntil(Grown(c), need)

RECURSIVE GrowMax(_)
GrowMax(c) == IF Grown(c) > MaxCap THEN c ELSE GrowMax(Grown(c))

Do(name, arg, need, extent, newlen) ==
  LET c == GrowUntil(cap, need) IN
  IF c = -1 THEN /\ op' = [name |-> name, arg |-> arg, ok |-> FALSE]
                 /\ cap' = GrowMax(cap)       \* the doublings that succeeded before the failing one persist
                 /\ UNCHANGED <<len, wend>>
  ELSE /\ cap' = c /\ wend' = extent /\ len' = newlen
       /\ op' = [name |-> name, arg |-> arg, ok |-> TRUE]

(* Heap::push_cell: grows only when byte_len = byte_cap *)
PushCell == Do("push_cell", 0, IF len = cap THEN Cell ELSE 0, len + Cell, len + Cell)

(* Heap::reserve(n) followed by k <= n section writes *)
ReserveWrite(n, k) == Do("reserve_write", <<n, k>>, n * Cell, len + k * Cell, len + k * Cell)

(* Heap::allocate_pstr / allocate_cstr *)
AllocPStr(s) == LET k == Written(s, FALSE) IN
                Do("allocate_pstr", s, PStrSizeBytes(s) * Cell, len + k * Cell, len + k * Cell)
AllocCStr(s) == LET k == IF s = <<>> THEN 0 ELSE Written(s, FALSE) + 1 IN
                Do("allocate_cstr", s, (PStrSizeBytes(s) + 1) * Cell, len + k * Cell, len + k * Cell)

(* Heap::append(other) with other of m cells; Heap::copy_slice_to_end of m cells *)
AppendCells(m) == Do("append", m, m * Cell, len + m * Cell, len + m * Cell)
CopySlice(m)   == Do("copy_slice_to_end", m, m * Cell, len + m * Cell, len + m * Cell)

(* Heap::copy_pstr_within for a string of L bytes: when the padding is a single byte an extra *)
(* zero cell is written, and the guard accounts for it.                                       *)
CopyPStrWithin(L) ==
  LET a == Sent(L)
      cs == L + a
      total == IF a = 1 THEN cs + Cell ELSE cs
  IN Do("copy_pstr_within", L, total, len + total, len + total)

Truncate(k) == /\ k * Cell <= len /\ len' = k * Cell /\ wend' = k * Cell /\ UNCHANGED cap
               /\ op' = [name |-> "truncate", arg |-> k, ok |-> TRUE]

InBounds == wend <= cap /\ len <= cap /\ len % Cell = 0 /\ cap % Cell = 0
=============================================================================
