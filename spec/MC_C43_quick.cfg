CONSTANT Mode = "bfs"
CONSTANT LeafSet = "quick"
CONSTANT GrowSet = "tiny"
CONSTANT Depth = 2
CONSTANT Names <- NamesDef
INIT Init
NEXT Next
INVARIANT Emit
INVARIANT ConsistentInv
INVARIANT LeafInv
INVARIANT FixInv
INVARIANT FrameInv
