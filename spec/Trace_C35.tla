------------------------------ MODULE Trace_C35 ------------------------------
(* C35, impl -> spec: validation of recorded footprint observations against Loader.tla.        *)
(* ndjson events (written by props/C35.py):                                                     *)
(*   {"ev":"reset"}                                          a new history on a fresh machine    *)
(*   {"ev":"loaded","src","kind","api","code":{fam,cs,fl},   one load_module_string/consult_...   *)
(*    "pre":{counters before the call},"post":{counters after it}}                               *)
(* The spec replays the loads through Loader!LoadText.  What the counters *are* is not logged    *)
(* knowledge of the specification: the reference value of a reload is fixed by the observation   *)
(* itself (the counters just before it, i.e. after the previous load of the history).            *)
(* A load that is the identity on the abstract state (the same text by the same source again,    *)
(* k >= 2) must be the identity on the counters the property names.  k = 2 is the comparison     *)
(* with the first load (the wording of C35), k >= 3 the comparison with the 2nd load (steady       *)
(* state); they are reported as different kinds.  Comparing absolute values across other loads    *)
(* would blame a reload for what a different operation in between left behind.                    *)
(* Every event is consumed; each discrepancy is printed as a verdict (one JSON line) so that one *)
(* pass judges all histories -- the verdicts, not the driver, decide.                             *)
EXTENDS Loader, Json, IOUtils

VARIABLES l, L, hist
(* hist: the operation keys of this history so far *)

Rec == ndJsonDeserialize(IOEnv.TRACE)

(* "heap, atom table, stack, trail and loader state" (the statement of C35) *)
Asserted == {"heap_cells", "atoms_with_prefix", "stack_top", "trail", "load_contexts", "inactive_load_states"}
(* observed and reported, but not named by the property *)
Informative == {"f64_entries", "code_len"}
Counters == Asserted \cup Informative

Range(s) == {s[j] : j \in DOMAIN s}

Init == l = 1 /\ L = L0 /\ hist = <<>>

Reset == /\ Rec[l].ev = "reset"
         /\ L' = L0 /\ hist' = <<>>

Verdict(kind, c, k, e, want, got) ==
  PrintT(ToJson([line |-> l, kind |-> kind, ctr |-> c, k |-> k, want |-> want, got |-> got,
                 asserted |-> c \in Asserted, api |-> e.api, skind |-> e.kind]))

Loaded ==
  /\ Rec[l].ev = "loaded"
  /\ LET e     == Rec[l]
         code  == [fam |-> e.code.fam, cs |-> e.code.cs, fl |-> Range(e.code.fl)]
         key   == <<e.src, e.kind, e.api, code>>
         after == LoadText(L, e.src, e.kind, code)
         k     == 1 + Cardinality({j \in DOMAIN hist : hist[j] = key})
         noop  == after = L
     IN /\ (noop /\ k >= 2) =>
             \A c \in Counters :
               IF e.post[c] # e.pre[c]
               THEN Verdict(IF k = 2 THEN "first-reload" ELSE "steady", c, k, e, e.pre[c], e.post[c]) ELSE TRUE
        /\ L' = after
        /\ hist' = Append(hist, key)

Next == /\ l <= Len(Rec)
        /\ l' = l + 1
        /\ (Reset \/ Loaded)

(* POSTCONDITION: every event was consumed *)
TraceAccepted ==
  LET d == TLCGet("stats").diameter IN
  IF d - 1 = Len(Rec) THEN TRUE ELSE PrintT(<<"REJECT", d>>) /\ FALSE
=============================================================================
