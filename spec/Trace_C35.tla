------------------------------ MODULE Trace_C35 ------------------------------
(* C35, impl -> spec: validation of recorded footprint observations against Loader.tla.        *)
(* ndjson events (written by props/C35.py):                                                     *)
(*   {"ev":"reset"}                                          a new history on a fresh machine    *)
(*   {"ev":"loaded","src","kind","api","code":{fam,cs,fl},   one load_module_string/consult_...   *)
(*    "pre":{counters before the call},"post":{counters after it}}                               *)
(* The spec replays the loads through Loader!LoadText.  What the counters *are* is not logged    *)
(* knowledge of the specification: the reference values are unlogged variables fixed by the      *)
(* observations themselves (the counters just before a reload; the counters after the 2nd load). *)
(* A load that is the identity on the abstract state (the same text by the same source again,    *)
(* k >= 2) must be the identity on the counters the property names; after the 2nd load the       *)
(* counters must stay what they were after the 2nd load while the abstract state stays the same. *)
(* Every event is consumed; each discrepancy is printed as a verdict (one JSON line) so that one *)
(* pass judges all histories -- the verdicts, not the driver, decide.                             *)
EXTENDS Loader, Json, IOUtils

VARIABLES l, L, hist, ref
(* hist: the operation keys of this history so far; ref: key -> [L, post] recorded at the 2nd load *)

Rec == ndJsonDeserialize(IOEnv.TRACE)

(* "heap, atom table, stack, trail and loader state" (the statement of C35) *)
Asserted == {"heap_cells", "atoms_with_prefix", "stack_top", "trail", "load_contexts", "inactive_load_states"}
(* observed and reported, but not named by the property *)
Informative == {"f64_entries", "code_len"}
Counters == Asserted \cup Informative

Range(s) == {s[j] : j \in DOMAIN s}
NoRef == [L |-> L0, post |-> <<>>, set |-> FALSE]

Init == l = 1 /\ L = L0 /\ hist = <<>> /\ ref = <<>>

Reset == /\ Rec[l].ev = "reset"
         /\ L' = L0 /\ hist' = <<>> /\ ref' = <<>>

Verdict(kind, c, k, e, want, got) ==
  PrintT(ToJson([line |-> l, kind |-> kind, ctr |-> c, k |-> k, want |-> want, got |-> got,
                 asserted |-> c \in Asserted, api |-> e.api, skind |-> e.kind]))

Loaded ==
  /\ Rec[l].ev = "loaded"
  /\ LET e     == Rec[l]
         code  == [fam |-> e.code.fam, cs |-> e.code.cs, fl |-> Range(e.code.fl)]
         key   == <<e.src, e.kind, e.api, code>>
         after == LoadText(L, e.src, e.kind, code)
         k     == 1 + Cardinality({j \in DOMAIN hist : hist[j] = key})
         noop  == after = L
         r     == IF key \in DOMAIN ref THEN ref[key] ELSE NoRef
     IN /\ (noop /\ k >= 2) =>
             \A c \in Counters :
               /\ IF e.post[c] # e.pre[c]
                  THEN Verdict(IF k = 2 THEN "first-reload" ELSE "steady", c, k, e, e.pre[c], e.post[c]) ELSE TRUE
               /\ IF k >= 3 /\ r.set /\ r.L = after /\ e.post[c] # r.post[c]
                  THEN Verdict("vs-2nd-load", c, k, e, r.post[c], e.post[c]) ELSE TRUE
        /\ L' = after
        /\ hist' = Append(hist, key)
        /\ ref' = IF k = 2 THEN (key :> [L |-> after, post |-> e.post, set |-> TRUE]) @@ ref ELSE ref

Next == /\ l <= Len(Rec)
        /\ l' = l + 1
        /\ (Reset \/ Loaded)

(* POSTCONDITION: every event was consumed *)
TraceAccepted ==
  LET d == TLCGet("stats").diameter IN
  IF d - 1 = Len(Rec) THEN TRUE ELSE PrintT(<<"REJECT", d>>) /\ FALSE
=============================================================================
