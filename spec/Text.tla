-------------------------------- MODULE Text --------------------------------
(* Texts are finite sequences of Unicode scalar values ("code points").  This module is the value    *)
(* layer for the atom/character properties (C21, C22): character codes, UTF-8 image, lexicographic   *)
(* order, and a small hand-written table of character properties (Unicode general facts and the      *)
(* character classes of ISO/IEC 13211-1 6.5) for the sampled characters used by char_type/2 cases.   *)
EXTENDS Integers, Sequences, FiniteSets

(* ---------------------------------------------------------------------------------------------- *)
(* character codes: the set CC of ISO 7.1.2.2 is implementation defined; Scryer's characters are    *)
(* Unicode scalar values (documented in library(charsio): "0xD800 to 0xDFFF are surrogate code      *)
(* points used by UTF-16" and are not characters).                                                  *)
(* ---------------------------------------------------------------------------------------------- *)
MaxCode == 1114111
IsSurrogate(c) == c >= 55296 /\ c <= 57343
IsCharCode(c)  == c >= 0 /\ c <= MaxCode /\ ~IsSurrogate(c)

(* ---------------------------------------------------------------------------------------------- *)
(* UTF-8                                                                                            *)
(* ---------------------------------------------------------------------------------------------- *)
Utf8Len(c) == IF c < 128 THEN 1 ELSE IF c < 2048 THEN 2 ELSE IF c < 65536 THEN 3 ELSE 4

Utf8(c) ==
  CASE c < 128   -> <<c>>
    [] c < 2048  -> <<192 + (c \div 64), 128 + (c % 64)>>
    [] c < 65536 -> <<224 + (c \div 4096), 128 + ((c \div 64) % 64), 128 + (c % 64)>>
    [] OTHER     -> <<240 + (c \div 262144), 128 + ((c \div 4096) % 64), 128 + ((c \div 64) % 64), 128 + (c % 64)>>

RECURSIVE Utf8Seq(_)
Utf8Seq(s) == IF s = <<>> THEN <<>> ELSE Utf8(Head(s)) \o Utf8Seq(Tail(s))

RECURSIVE ByteLen(_)
ByteLen(s) == IF s = <<>> THEN 0 ELSE Utf8Len(Head(s)) + ByteLen(Tail(s))

(* decoder for well-formed input (used only for the round-trip sanity theorem) *)
LeadLen(b) == IF b < 128 THEN 1 ELSE IF b < 224 THEN 2 ELSE IF b < 240 THEN 3 ELSE 4
RECURSIVE Cont(_, _)
Cont(acc, bs) == IF bs = <<>> THEN acc ELSE Cont(acc * 64 + (Head(bs) - 128), Tail(bs))
RECURSIVE Utf8Decode(_)
Utf8Decode(bs) ==
  IF bs = <<>> THEN <<>>
  ELSE LET b == Head(bs)  n == LeadLen(b)
           lead == CASE n = 1 -> b [] n = 2 -> b - 192 [] n = 3 -> b - 224 [] OTHER -> b - 240
       IN <<Cont(lead, SubSeq(bs, 2, n))>> \o Utf8Decode(SubSeq(bs, n + 1, Len(bs)))

(* ---------------------------------------------------------------------------------------------- *)
(* order: ISO 7.2 orders atoms by comparing their characters' codes lexicographically               *)
(* ---------------------------------------------------------------------------------------------- *)
RECURSIVE LexLess(_, _)
LexLess(s, t) ==
  IF t = <<>> THEN FALSE
  ELSE IF s = <<>> THEN TRUE
  ELSE IF Head(s) < Head(t) THEN TRUE
  ELSE IF Head(s) > Head(t) THEN FALSE
  ELSE LexLess(Tail(s), Tail(t))

LexCmp(s, t) == IF s = t THEN "=" ELSE IF LexLess(s, t) THEN "<" ELSE ">"

(* ---------------------------------------------------------------------------------------------- *)
(* sequences helpers                                                                                *)
(* ---------------------------------------------------------------------------------------------- *)
Prefix(s, k) == SubSeq(s, 1, k)
Suffix(s, k) == SubSeq(s, k + 1, Len(s))           \* what remains after dropping k elements
Sub(s, b, l) == SubSeq(s, b + 1, b + l)            \* l elements after skipping b

RECURSIVE SeqsUpTo(_, _)
SeqsUpTo(S, n) ==                                   \* all sequences over S of length <= n
  IF n = 0 THEN {<<>>}
  ELSE LET R == SeqsUpTo(S, n - 1) IN R \cup {<<x>> \o r : x \in S, r \in {q \in R : Len(q) = n - 1}}

(* ---------------------------------------------------------------------------------------------- *)
(* character properties for a sample of characters.                                                 *)
(*  Unicode facts (UnicodeData.txt / DerivedCoreProperties.txt / SpecialCasing.txt):                *)
(*    alphabetic  = derived property Alphabetic;  numeric = general category Nd, Nl or No;          *)
(*    upper/lower = derived properties Uppercase / Lowercase;  ws = property White_Space;           *)
(*    control     = general category Cc;  up / lo = full (unconditional) case mappings, which may   *)
(*    be longer than one character -- this is why char_type/2 documents "uppercase and lowercase    *)
(*    transformations use a string".                                                                *)
(* ---------------------------------------------------------------------------------------------- *)
LOCAL Ch(code, alphabetic, numeric, upper, lower, ws, control, up, lo) ==
  [code |-> code, alphabetic |-> alphabetic, numeric |-> numeric, upper |-> upper, lower |-> lower,
   ws |-> ws, control |-> control, up |-> up, lo |-> lo]

LOCAL T == TRUE
LOCAL F == FALSE
CharTable == <<
  \*  code     alphab num  upper lower ws   ctrl  to-upper        to-lower
  Ch(97,      T,    F,   F,    T,    F,   F,    <<65>>,         <<97>>),          \* a
  Ch(66,      T,    F,   T,    F,    F,   F,    <<66>>,         <<98>>),          \* B
  Ch(233,     T,    F,   F,    T,    F,   F,    <<201>>,        <<233>>),         \* e-acute
  Ch(201,     T,    F,   T,    F,    F,   F,    <<201>>,        <<233>>),         \* E-acute
  Ch(128512,  F,    F,   F,    F,    F,   F,    <<128512>>,     <<128512>>),      \* U+1F600
  Ch(48,      F,    T,   F,    F,    F,   F,    <<48>>,         <<48>>),          \* 0
  Ch(57,      F,    T,   F,    F,    F,   F,    <<57>>,         <<57>>),          \* 9
  Ch(32,      F,    F,   F,    F,    T,   F,    <<32>>,         <<32>>),          \* space
  Ch(223,     T,    F,   F,    T,    F,   F,    <<83, 83>>,     <<223>>),         \* sharp s -> "SS"
  Ch(304,     T,    F,   T,    F,    F,   F,    <<304>>,        <<105, 775>>),    \* I with dot above -> i + U+0307
  Ch(931,     T,    F,   T,    F,    F,   F,    <<931>>,        <<963>>),         \* capital sigma
  Ch(962,     T,    F,   F,    T,    F,   F,    <<931>>,        <<962>>),         \* final sigma
  Ch(1635,    F,    T,   F,    F,    F,   F,    <<1635>>,       <<1635>>),        \* arabic-indic digit three (Nd)
  Ch(178,     F,    T,   F,    F,    F,   F,    <<178>>,        <<178>>),         \* superscript two (No)
  Ch(160,     F,    F,   F,    F,    T,   F,    <<160>>,        <<160>>),         \* no-break space
  Ch(10,      F,    F,   F,    F,    T,   T,    <<10>>,         <<10>>),          \* line feed
  Ch(0,       F,    F,   F,    F,    F,   T,    <<0>>,          <<0>>),           \* NUL
  Ch(95,      F,    F,   F,    F,    F,   F,    <<95>>,         <<95>>),          \* _
  Ch(43,      F,    F,   F,    F,    F,   F,    <<43>>,         <<43>>),          \* +
  Ch(33,      F,    F,   F,    F,    F,   F,    <<33>>,         <<33>>),          \* !
  Ch(92,      F,    F,   F,    F,    F,   F,    <<92>>,         <<92>>),          \* backslash
  Ch(120,     T,    F,   F,    T,    F,   F,    <<88>>,         <<120>>),         \* x
  Ch(69,      T,    F,   T,    F,    F,   F,    <<69>>,         <<101>>),         \* E
  Ch(64257,   T,    F,   F,    T,    F,   F,    <<70, 73>>,     <<64257>>),       \* ligature fi -> "FI"
  Ch(453,     T,    F,   F,    F,    F,   F,    <<452>>,        <<454>>),         \* titlecase Dz-caron (Lt)
  Ch(8544,    T,    T,   T,    F,    F,   F,    <<8544>>,       <<8560>>)         \* roman numeral one (Nl, Other_Uppercase)
>>

CharCodes == {CharTable[i].code : i \in 1..Len(CharTable)}
CharInfo(c) == CharTable[CHOOSE i \in 1..Len(CharTable) : CharTable[i].code = c]

(* character classes with a definition independent of the implementation.                          *)
(* ISO 6.5.1 graphic char, 6.4.2 graphic token char (graphic or backslash), 6.5.3 solo char,        *)
(* 6.5.5 meta char, 6.5.2 decimal/binary/octal/hexadecimal digit char, 6.4.5 exponent char, sign,   *)
(* 6.4.2.1 symbolic hexadecimal char; the remaining ones are the Unicode properties above and the   *)
(* ASCII ranges of the same name.                                                                   *)
GraphicChars == {35, 36, 38, 42, 43, 45, 46, 47, 58, 60, 61, 62, 63, 64, 94, 126}   \* # $ & * + - . / : < = > ? @ ^ ~
SoloChars    == {33, 40, 41, 44, 59, 91, 93, 123, 125, 124, 37}                     \* ! ( ) , ; [ ] { } | %
MetaChars    == {92, 39, 34, 96}                                                    \* \ ' " `
IsAsciiPunct(c) == (c >= 33 /\ c <= 47) \/ (c >= 58 /\ c <= 64) \/ (c >= 91 /\ c <= 96) \/ (c >= 123 /\ c <= 126)

Categories == <<"alphabetic", "alphanumeric", "ascii", "ascii_graphic", "ascii_punctuation", "binary_digit",
                "control", "decimal_digit", "exponent", "graphic", "graphic_token", "hexadecimal_digit",
                "lower", "meta", "numeric", "octal_digit", "octet", "sign", "solo", "symbolic_hexadecimal",
                "upper", "whitespace">>

HasCategory(c, cat) ==
  LET i == CharInfo(c) IN
  CASE cat = "alphabetic"           -> i.alphabetic
    [] cat = "alphanumeric"         -> i.alphabetic \/ i.numeric
    [] cat = "ascii"                -> c < 128
    [] cat = "ascii_graphic"        -> c >= 33 /\ c <= 126
    [] cat = "ascii_punctuation"    -> IsAsciiPunct(c)
    [] cat = "binary_digit"         -> c \in {48, 49}
    [] cat = "control"              -> i.control
    [] cat = "decimal_digit"        -> c >= 48 /\ c <= 57
    [] cat = "exponent"             -> c \in {101, 69}
    [] cat = "graphic"              -> c \in GraphicChars
    [] cat = "graphic_token"        -> c \in GraphicChars \cup {92}
    [] cat = "hexadecimal_digit"    -> (c >= 48 /\ c <= 57) \/ (c >= 65 /\ c <= 70) \/ (c >= 97 /\ c <= 102)
    [] cat = "lower"                -> i.lower
    [] cat = "meta"                 -> c \in MetaChars
    [] cat = "numeric"              -> i.numeric
    [] cat = "octal_digit"          -> c >= 48 /\ c <= 55
    [] cat = "octet"                -> c <= 255
    [] cat = "sign"                 -> c \in {43, 45}
    [] cat = "solo"                 -> c \in SoloChars
    [] cat = "symbolic_hexadecimal" -> c = 120
    [] cat = "upper"                -> i.upper
    [] cat = "whitespace"           -> i.ws

(* categories that are finite explicit sets of characters: the mode char_type(-Char, +Cat) has a    *)
(* known complete answer                                                                            *)
RECURSIVE SetToSortedSeq(_)
SetToSortedSeq(S) == IF S = {} THEN <<>> ELSE LET m == CHOOSE x \in S : \A y \in S : x <= y IN <<m>> \o SetToSortedSeq(S \ {m})

FiniteCategory(cat) ==
  CASE cat = "binary_digit"         -> {48, 49}
    [] cat = "decimal_digit"        -> 48..57
    [] cat = "octal_digit"          -> 48..55
    [] cat = "hexadecimal_digit"    -> (48..57) \cup (65..70) \cup (97..102)
    [] cat = "exponent"             -> {101, 69}
    [] cat = "graphic"              -> GraphicChars
    [] cat = "graphic_token"        -> GraphicChars \cup {92}
    [] cat = "meta"                 -> MetaChars
    [] cat = "sign"                 -> {43, 45}
    [] cat = "solo"                 -> SoloChars
    [] cat = "symbolic_hexadecimal" -> {120}
    [] cat = "ascii_punctuation"    -> {c \in 33..126 : IsAsciiPunct(c)}
    [] cat = "ascii_graphic"        -> 33..126
    [] cat = "ascii"                -> 0..127
    [] cat = "octet"                -> 0..255
FiniteCategories == <<"binary_digit", "decimal_digit", "octal_digit", "hexadecimal_digit", "exponent", "graphic",
                      "graphic_token", "meta", "sign", "solo", "symbolic_hexadecimal", "ascii_punctuation",
                      "ascii_graphic", "ascii", "octet">>
=============================================================================
