----------------------------- MODULE MC_BigInt -----------------------------
(* Sanity theorems for BigInt, evaluated by TLC: agreement with native arithmetic on a *)
(* 32-bit-safe range and algebraic identities on a boundary set.                        *)
EXTENDS BigInt, FiniteSets

Small == -40..40
SmallSq == {a * b : a \in {-300, -299, -101, -100, -99, -7, -1, 0, 1, 2, 3, 7, 99, 100, 101, 9999, 10000, 10001, 46340}, b \in {-46340, -10001, -10000, -9999, -101, -3, -1, 0, 1, 5, 100, 9999, 10000, 46340}}

P(n) == Pow2(n)
Boundary ==
  LET pts == {31, 32, 55, 56, 62, 63, 64, 70}
      near(n) == {Add(P(n), FromInt(d)) : d \in {-2, -1, 0, 1}}
      pos == UNION {near(n) : n \in pts} \cup {FromInt(k) : k \in {0, 1, 2, 3, 7, 10}} \cup {Add(Pow(FromInt(10), 30), FromInt(7))}
  IN pos \cup {Neg(x) : x \in pos}

NativeAgree ==
  \A a \in SmallSq : \A b \in Small :
    /\ ToInt(FromInt(a)) = a
    /\ ToInt(Add(FromInt(a), FromInt(b))) = a + b
    /\ ToInt(Sub(FromInt(a), FromInt(b))) = a - b
    /\ (a < 46341 /\ a > -46341 => ToInt(Mul(FromInt(a), FromInt(b))) = a * b)
    /\ Cmp(FromInt(a), FromInt(b)) = (IF a < b THEN -1 ELSE IF a > b THEN 1 ELSE 0)
    /\ (b # 0 => ToInt(FDiv(FromInt(a), FromInt(b))) = a \div b)
    /\ (b > 0 => ToInt(Mod(FromInt(a), FromInt(b))) = a % b)

PairOk(x, y) ==
    /\ Sub(Add(x, y), y) = x
    /\ Add(x, y) = Add(y, x)
    /\ Mul(x, y) = Mul(y, x)
    /\ (~IsZero(y) =>
          /\ Add(Mul(TDiv(x, y), y), Rem(x, y)) = x
          /\ Add(Mul(FDiv(x, y), y), Mod(x, y)) = x
          /\ (IsZero(Rem(x, y)) \/ Rem(x, y).neg = x.neg)
          /\ (IsZero(Mod(x, y)) \/ Mod(x, y).neg = y.neg)
          /\ MCmp(Rem(x, y).m, y.m) < 0
          /\ MCmp(Mod(x, y).m, y.m) < 0)
    /\ BXor(x, y) = Sub(BOr(x, y), BAnd(x, y))
    /\ Add(BAnd(x, y), BOr(x, y)) = Add(x, y)
    /\ BNot(BNot(x)) = x
    /\ BAnd(x, x) = x /\ BOr(x, x) = x /\ BXor(x, x) = BZero
    /\ BAnd(x, BNot(x)) = BZero
    /\ (~IsZero(x) \/ ~IsZero(y) =>
          LET g == Gcd(x, y) IN IsZero(Rem(x, g)) /\ IsZero(Rem(y, g)))

ShiftOk(x) ==
  \A k \in {0, 1, 7, 13, 54, 55, 56, 63, 64, 65, 100} :
    /\ Shr(Shl(x, k), k) = x
    /\ Shl(x, k) = Mul(x, P(k))
    /\ LET q == Shr(x, k) IN  \* floor: q*2^k <= x < (q+1)*2^k
         /\ Le(Mul(q, P(k)), x)
         /\ Lt(x, Mul(Add(q, One), P(k)))

DecText ==
  /\ ToDec(P(70)) = "1180591620717411303424"
  /\ ToDec(Neg(P(64))) = "-18446744073709551616"
  /\ ToDec(FromInt(0)) = "0"
  /\ ToDec(FromInt(-10000)) = "-10000"
  /\ ToDec(Add(Pow(FromInt(10), 30), FromInt(7))) = "1000000000000000000000000000007"
  /\ ToDec(Shr(Neg(One), 64)) = "-1"
  /\ ToDec(BAnd(Neg(One), P(70))) = "1180591620717411303424"
  /\ ToDec(BOr(Neg(P(55)), FromInt(5))) = "-36028797018963963"

ASSUME DecText

CONSTANT Tier
BSet == IF Tier = "quick"
        THEN {b \in Boundary : \E n \in {31, 55, 63, 64, 70} : \E d \in {-1, 0, 1} : Abs(b) = Add(P(n), FromInt(d))} \cup {FromInt(k) : k \in {0, 1, -1, 3, -7}}
        ELSE Boundary

(* the identities are evaluated as invariants of one state per pair so that TLC's workers share the work *)
VARIABLES phase, bx, by
Init == phase = "pick" /\ bx \in BSet /\ by = BZero
Next == phase = "pick" /\ phase' = "pair" /\ bx' = bx /\ by' \in BSet
PairInv == phase = "pair" => PairOk(bx, by)
ShiftInv == phase = "pick" => ShiftOk(bx)
ASSUME NativeAgree
=============================================================================
