------------------------------- MODULE MC_C40 -------------------------------
(* C40: scenario generator and law check for call_with_inference_limit/3.                            *)
(*                                                                                                   *)
(* Part = "goals": TLC enumerates goals -- a catalogue of recursive templates on bounded inputs       *)
(* (naive reverse, between-loops, member, append enumeration, findall inside, goals that throw, fail   *)
(* or do not terminate) and one-clause programs of the C07 grammar -- runs the abstract machine        *)
(* (Prolog.tla) on each and prints goal, query variables, the solution sequence and the way the goal   *)
(* ends: the *definition* that Trace_C40 validates the real runs against.  It also prints the         *)
(* templates of nested scenarios (which base goal is wrapped in an inner limit, at which position of    *)
(* its cost range the inner limit is placed, what follows the inner call).                             *)
(* Part = "law": the tractable form of the law (InferLimit!FastExplained) is compared with its           *)
(* declarative definition (InferLimit!Explained) on every set of <= 3 runs over a small universe.       *)
EXTENDS Prolog, Json, InferLimit

CONSTANTS Tier, Part

X == V("X")  Y == V("Y")  Z == V("Z")  N == V("N")  L == V("L")
H == V("H")  T == V("T")  R == V("R")  M1 == V("M")  RT == V("RT")  L1 == V("L1")  Lo == V("Lo")  Hi == V("Hi")
a == A("a")  b == A("b")  c == A("c")
P1(t) == C1("p", t)
Q1(t) == C1("q", t)
T1(t) == C1("t", t)
R2(s, t) == C2("r", s, t)
Fact(h) == [h |-> h, b |-> True]
Rule(h, bd) == [h |-> h, b |-> bd]

Helpers == <<
  Fact(Q1(a)), Fact(Q1(b)), Fact(Q1(c)),
  Fact(T1(I(1))), Fact(T1(I(2))), Fact(T1(I(3))),
  Fact(R2(a, I(1))), Fact(R2(b, I(2))), Fact(R2(c, I(3))),
  Rule(C2("u", X, Y), Conj(Q1(X), R2(X, Y))),
  Fact(C3("app", Nil, X, X)),
  Rule(C3("app", Cons(H, T), Y, Cons(H, R)), C3("app", T, Y, R)),
  Fact(C2("len", Nil, I(0))),
  Rule(C2("len", Cons(H, T), N), Conj(C2("len", T, M1), C2("is", N, C2("+", M1, I(1))))),
  Fact(C2("nrev", Nil, Nil)),
  Rule(C2("nrev", Cons(H, T), R), Conj(C2("nrev", T, RT), C3("app", RT, ListOf(<<H>>), R))),
  Fact(C2("mem", X, Cons(X, V("_T")))),
  Rule(C2("mem", X, Cons(V("_H"), T)), C2("mem", X, T)),
  Rule(C3("btw", Lo, Hi, Lo), C2("=<", Lo, Hi)),
  Rule(C3("btw", Lo, Hi, X), ConjOf(<<C2("<", Lo, Hi), C2("is", L1, C2("+", Lo, I(1))), C3("btw", L1, Hi, X)>>)),
  Fact(C1("cnt", I(0))),
  Rule(C1("cnt", N), ConjOf(<<C2(">", N, I(0)), C2("is", M1, C2("-", N, I(1))), C1("cnt", M1)>>)),
  Rule(A("loop"), A("loop"))
>>

Letters == <<a, b, c, A("d"), A("e"), A("f"), A("g"), A("h")>>
Lst(n) == ListOf(SubSeq(Letters, 1, n))

(* ---- the catalogue: family, size -> goal.  lib: the same goal written with the library predicates ---- *)
(* (between/3, member/2, append/3, length/2 have the solution sequences of btw/3, mem/2, app/3, len/2)     *)
Fams == {"nrev", "btw", "mem", "app", "findall", "throw", "fail", "len", "cnt", "memloop", "orloop", "catch",
         "cross", "once", "naf", "ite", "fainside", "u"}
LibFams == {"btw", "mem", "app", "findall", "len", "cross"}

Goal(fam, n) ==
  CASE fam = "nrev"     -> C2("nrev", Lst(n), X)
    [] fam = "btw"      -> C3("btw", I(1), I(n), X)
    [] fam = "mem"      -> C2("mem", X, Lst(n))
    [] fam = "app"      -> C3("app", X, Y, Lst(n))
    [] fam = "findall"  -> C3("findall", X, C3("btw", I(1), I(n), X), L)
    [] fam = "throw"    -> ConjOf(<<C3("btw", I(1), I(n), X), C2(">=", X, I(n)), C1("throw", C1("oops", X))>>)
    [] fam = "fail"     -> Conj(C3("btw", I(1), I(n), X), Fail)
    [] fam = "len"      -> C2("len", Lst(n), N)
    [] fam = "cnt"      -> C1("cnt", I(n))
    [] fam = "memloop"  -> Conj(C2("mem", X, Lst(n)), A("loop"))
    [] fam = "orloop"   -> Disj(C2("mem", X, Lst(n)), A("loop"))
    [] fam = "catch"    -> C3("catch", ConjOf(<<C3("btw", I(1), I(n), X), C2(">=", X, I(2)), C1("throw", C1("e", X))>>),
                              C1("e", Y), True)
    [] fam = "cross"    -> Conj(C3("btw", I(1), I(n), X), C2("mem", Y, ListOf(<<a, b>>)))
    [] fam = "once"     -> C1("once", C2("mem", X, Lst(n)))
    [] fam = "naf"      -> Not(C2("mem", A("z"), Lst(n)))
    [] fam = "ite"      -> Ite(C2("mem", X, Lst(n)), True, Eq(X, A("none")))
    [] fam = "fainside" -> Conj(C2("mem", X, Lst(n)), C3("findall", Y, C3("btw", I(1), I(2), Y), L))
    [] fam = "u"        -> Conj(C2("u", X, Y), C2(">=", Y, I(n)))

LibGoal(fam, n) ==
  CASE fam = "btw"      -> C3("between", I(1), I(n), X)
    [] fam = "mem"      -> C2("member", X, Lst(n))
    [] fam = "app"      -> C3("append", X, Y, Lst(n))
    [] fam = "findall"  -> C3("findall", X, C3("between", I(1), I(n), X), L)
    [] fam = "len"      -> C2("length", Lst(n), N)
    [] fam = "cross"    -> Conj(C3("between", I(1), I(n), X), C2("member", Y, ListOf(<<a, b>>)))

Sizes == IF Tier = "quick" THEN 0..4 ELSE 0..7
Diverging == {"memloop", "orloop"}       \* built from loop :- loop.

(* ---- one-clause programs p(X) :- Body of the C07 grammar ---- *)
Atoms0 == { Q1(X), Q1(Y), T1(Y), R2(X, Y), Eq(X, a), Eq(X, b), Eq(X, Y), Eq(Y, a), Eq(X, C1("f", Y)),
            Cut, Fail, True, C2("\\=", X, a), C2("==", X, a), C2("==", X, Y), C1("var", X), C1("nonvar", X),
            C1("atom", X), C2("is", Y, C2("+", I(1), I(1))), C2("<", Y, I(2)), C2("u", X, Y),
            C3("app", Y, Z, ListOf(<<a, b>>)), C2("is", X, C2("+", Y, I(1))), C2("is", X, V("W")), C1("zz", X) }
AtomsS == { Q1(X), Q1(Y), Eq(X, a), Eq(X, Y), Cut, Fail, True, T1(Y), C1("var", X) }
AtomsQ == { Q1(X), Eq(X, b), Cut, Fail }
Level1(S) == { Disj(g1, g2) : g1 \in S, g2 \in S }
        \cup { It(g1, g2) : g1 \in S, g2 \in S }
        \cup { Not(g1) : g1 \in S }
        \cup { Call1(g1) : g1 \in S }
        \cup { Call1(Conj(g1, g2)) : g1 \in S, g2 \in S }
        \cup { C2("call", A("q"), X), C2("call", C1("r", X), Y), C3("call", A("r"), X, Y), Call1(I(1)), Call1(V("G")),
               Call1(Conj(Fail, I(1))) }
        \cup { C3("findall", Y, g1, V("L")) : g1 \in {Q1(Y), T1(Y), Fail, R2(X, Y)} }
        \cup { C3("catch", g1, V("E"), g2) : g1 \in {C1("throw", a), C1("throw", X), Q1(X), C2("is", X, a), Conj(Q1(X), C1("throw", X))},
                                              g2 \in {True, Eq(X, c), Fail} }
        \cup { C1("throw", a), C1("throw", C1("f", X)), C1("once", Q1(X)), C2("forall", Q1(Y), C1("atom", Y)) }
Ite3 == { Ite(g1, g2, g3) : g1 \in AtomsQ, g2 \in AtomsQ, g3 \in AtomsQ }
Conj2 == { Conj(g1, g2) : g1 \in AtomsS, g2 \in AtomsS }
Conj3 == { Conj(g1, Conj(g2, g3)) : g1 \in {Q1(X), T1(Y)}, g2 \in {Cut, Q1(Y), Eq(X, Y)}, g3 \in {Cut, Fail, Q1(X)} }
BodiesQuick == Atoms0 \cup Level1(AtomsQ) \cup Conj3
BodiesFull  == Atoms0 \cup Level1(AtomsS) \cup Ite3 \cup Conj2 \cup Conj3
Bodies == IF Tier = "quick" THEN BodiesQuick ELSE BodiesFull

(* ---- nested scenarios: shape x base goal x position of the inner limit ---- *)
(* shape "nest": call_with_inference_limit(G, Li, R1) under an outer limit; "seq": (that, H) with H the      *)
(* ground deterministic goal cnt(6); "loopseq": (that, loop).  ipos: where Li lies in G's own cost range.     *)
NestBasesQuick == { <<"mem", 3>>, <<"btw", 2>>, <<"nrev", 3>>, <<"throw", 2>>, <<"fail", 2>>, <<"orloop", 2>>, <<"app", 2>> }
NestBasesFull  == NestBasesQuick \cup { <<"mem", 5>>, <<"btw", 4>>, <<"nrev", 5>>, <<"throw", 3>>, <<"cross", 2>>, <<"catch", 3>>,
                                         <<"findall", 3>>, <<"memloop", 2>>, <<"fainside", 2>>, <<"once", 3>>, <<"u", 2>> }
NestBases == IF Tier = "quick" THEN NestBasesQuick ELSE NestBasesFull
Shapes == {"nest", "seq", "loopseq"}
IPos == {"zero", "first", "mid", "last", "beyond"}
HGoal == <<"cnt", 6>>

(* ---- small universe for the law check ---- *)
LawSols == << [s |-> "s1", r1 |-> "-"], [s |-> "s2", r1 |-> "-"] >>
LawDefs == { [sols |-> SubSeq(LawSols, 1, k), end |-> e, ball |-> IF e = "throw" THEN "b" ELSE ""] :
               k \in (IF Tier = "quick" THEN 1..1 ELSE 0..2), e \in {"fail", "throw", "diverge"} }
LawM == IF Tier = "quick" THEN 1 ELSE 2
LawItems == { [s |-> "s1", r1 |-> "-", r |-> "true"], [s |-> "s2", r1 |-> "-", r |-> "true"],
              [s |-> "s2", r1 |-> "-", r |-> "!"], [s |-> "s1", r1 |-> "-", r |-> "!"], ExcItem }
LawItemSeqs == {<<>>} \cup {<<x>> : x \in LawItems}
               \cup {<<x, y>> : x \in LawItems, y \in LawItems}
               \cup (IF Tier = "quick" THEN {} ELSE {<<[s |-> "s1", r1 |-> "-", r |-> "true"], x, y>> : x \in LawItems, y \in LawItems})
LawRuns == { [lim |-> lm, items |-> its, end |-> e, ball |-> IF e = "ball" THEN "b" ELSE ""] :
               lm \in 0..LawM, its \in LawItemSeqs, e \in {"stop", "ball"} }
(* runs that some cost assignment predicts for the definition, plus every one-item corruption of the universe *)
PlausibleRuns(def) == { r \in LawRuns : Shape(def, r) }

VARIABLE st
Init == st = [phase |-> "pick"]

NoClause == <<>>
Sel(kind, fam, n, clause, q, libq) ==
  [phase |-> "run", kind |-> kind, fam |-> fam, n |-> n, clause |-> clause, q |-> q, libq |-> libq,
   m |-> Load(clause \o Helpers, {}, q)]

GenGoals ==
  \/ \E fam \in Fams, n \in Sizes : st' = Sel("cat", fam, n, NoClause, Goal(fam, n), Goal(fam, n))
  \/ HGoal[2] \notin Sizes /\ st' = Sel("cat", HGoal[1], HGoal[2], NoClause, Goal(HGoal[1], HGoal[2]), Goal(HGoal[1], HGoal[2]))
  \/ \E fam \in LibFams, n \in Sizes : st' = Sel("lib", fam, n, NoClause, Goal(fam, n), LibGoal(fam, n))
  \/ \E bd \in Bodies : st' = Sel("c07", "c07", 0, <<Rule(P1(X), bd)>>, P1(X), P1(X))
  \/ \E sh \in Shapes, bs \in NestBases, ip \in IPos :
       st' = [phase |-> "nest", shape |-> sh, fam |-> bs[1], n |-> bs[2], ipos |-> ip, hfam |-> HGoal[1], hn |-> HGoal[2]]

(* the abstract machine runs one step per transition (its invariants are checked at every step) *)
RunStep ==
  /\ st.phase = "run"
  /\ LET m2 == Step(st.m) IN
     st' = IF m2.phase = "done"
           THEN [phase |-> "case", kind |-> st.kind, fam |-> st.fam, n |-> st.n, clause |-> st.clause, q |-> st.q,
                 libq |-> st.libq, qv |-> m2.qv, ans |-> m2.ans, status |-> m2.status, ball |-> m2.ball, steps |-> m2.steps]
           ELSE [st EXCEPT !.m = m2]

GenLaw ==
  \/ st.phase = "pick" /\ \E def \in LawDefs : st' = [phase |-> "lawsel", def |-> def]
  \/ /\ st.phase = "lawsel"
     /\ \E h \in {0, 1} :
          \/ \E r1 \in LawRuns, r2 \in PlausibleRuns(st.def) :
               st' = [phase |-> "law", def |-> st.def, runs |-> <<r1, r2, r2>>, h |-> h]
          \/ \E r1 \in PlausibleRuns(st.def), r2 \in PlausibleRuns(st.def) :
             \E r3 \in (IF Tier = "quick" THEN {r2} ELSE PlausibleRuns(st.def)) :
               st' = [phase |-> "law", def |-> st.def, runs |-> <<r1, r2, r3>>, h |-> h]

Next == \/ Part = "law" /\ st.phase \in {"pick", "lawsel"} /\ GenLaw
        \/ Part # "law" /\ st.phase = "pick" /\ GenGoals
        \/ RunStep

MachInv == st.phase = "run" => MachineOk(st.m)

(* the tractable form and the declarative form of the law agree; a single run is explained iff some cost predicts it *)
LawOk ==
  st.phase = "law" =>
    /\ Explained(st.def, st.runs, LawM, st.h) = FastExplained(st.def, st.runs, LawM, st.h)
    /\ Explained(st.def, SubSeq(st.runs, 1, 2), LawM, st.h) = FastExplained(st.def, SubSeq(st.runs, 1, 2), LawM, st.h)
    /\ (Verdict(st.def, st.runs, LawM, st.h) = "ok") = Explained(st.def, st.runs, LawM, st.h)

(* goals of the diverging families reach the step bound in the abstract machine (for n >= 1), all others end *)
GoalsOk ==
  st.phase = "case" =>
    /\ st.status \in {"done", "exc", "diverge", "cyclic", "capped"}
    /\ (st.kind \in {"cat", "lib"} /\ st.fam \notin Diverging) => st.status \in {"done", "exc"}
    /\ (st.fam \in Diverging /\ st.n >= 1) => st.status = "diverge"

Emit ==
  /\ st.phase = "pick" => PrintT(ToJson([kind |-> "prog", prog |-> Helpers]))
  /\ (st.phase = "case" /\ st.status \in {"done", "exc"}) \/ (st.phase = "case" /\ st.status = "diverge" /\ st.fam \in Diverging) =>
        PrintT(ToJson([kind |-> st.kind, fam |-> st.fam, n |-> st.n, clause |-> st.clause, q |-> st.q, libq |-> st.libq,
                       qv |-> st.qv, ans |-> st.ans, status |-> st.status, ball |-> st.ball, steps |-> st.steps]))
  /\ st.phase = "nest" =>
        PrintT(ToJson([kind |-> "nest", shape |-> st.shape, fam |-> st.fam, n |-> st.n, ipos |-> st.ipos,
                       hfam |-> st.hfam, hn |-> st.hn]))
=============================================================================
