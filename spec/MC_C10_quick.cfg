CONSTANT Tier = "quick"
INIT Init
NEXT Next
INVARIANT RowTheorems
INVARIANT Emit
