CONSTANTS Tier = "thorough" Mode = "sim" MaxSteps = 1000000 MaxAns = 12 BoundD = 400 BoundM = 6000
INIT Init8
NEXT Next8
INVARIANT Agree
INVARIANT Emit8
