CONSTANT Tier = "thorough"
INIT Init
NEXT Next
INVARIANT Sane
INVARIANT Emit
