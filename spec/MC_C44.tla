------------------------------- MODULE MC_C44 -------------------------------
(* C44: histories of set_prolog_flag/2 calls with a full read-back after every call.                      *)
(*                                                                                                        *)
(* Mode "bfs":  every reachable flag state (3 x 3 x 3 x 3 values of double_quotes, occurs_check, unknown,  *)
(*              answer_write_options) is explored and EVERY call of Acts (every documented flag with its   *)
(*              valid values, an atom outside the domain, an integer, an unbound value; unknown flags,     *)
(*              non-atom and unbound flags) is applied in every state: one vector per state ("st": how to  *)
(*              reach it, the expected answer of every read-back pattern, the behavioural effects) and one *)
(*              per transition ("tr": state, call, admissible outcomes, next state).  Since every          *)
(*              transition of the complete state graph is a vector, all histories of any length are        *)
(*              covered as far as the implementation's behaviour is determined by the flag state.          *)
(* Mode "walk": random histories of Depth calls (TLC -simulate) for behaviour that is not.                 *)
EXTENDS Flags, Json

CONSTANTS Mode, Depth

Anon == V("_")
FV   == V("F")      \* the variables of a read-back pattern (shared with the findall template)
VV   == V("V")
Opt1(n, x) == ListOf(<<C1(n, x)>>)
AwoValues == {Nil, Opt1("max_depth", I(3)), Opt1("quoted", A("false"))}
Valid(f) == CASE f = "double_quotes" -> {A("chars"), A("codes"), A("atom")}
              [] f = "occurs_check"  -> {A("false"), A("true"), A("error")}
              [] f = "unknown"       -> {A("error"), A("fail"), A("warning")}
              [] f = "answer_write_options" -> AwoValues
              [] f = "max_arity"     -> {I(255), I(7)}
              [] f = "bounded"       -> {A("false"), A("true")}
              [] f = "integer_rounding_function" -> {A("toward_zero"), A("down")}
              [] f \in {"max_integer", "min_integer"} -> {I(7)}
Invalid(f) == IF f = "answer_write_options" THEN {A("zzz"), I(7), Opt1("max_depth", A("a")), ListOf(<<A("zzz")>>)}
              ELSE IF f \in {"max_arity", "max_integer", "min_integer"} THEN {A("zzz")}
              ELSE {A("zzz"), I(7)}

Act(F, Val) == [F |-> F, V |-> Val]
Acts == UNION {{Act(A(f), v) : v \in Valid(f) \cup Invalid(f) \cup {Anon}} : f \in FlagNames}
        \cup {Act(F, v) : F \in {A("zzz_flag"), I(1), Anon}, v \in {A("true"), Anon}}
        \cup {Act(C1("f", A("x")), A("true"))}
NoAct == Act(Anon, Anon)

ASSUME \A f \in FlagNames : (\A v \in Valid(f) : InDomain(f, v)) /\ (\A v \in Invalid(f) : ~InDomain(f, v))

(* read-back patterns: full enumeration, every flag with the value unbound and with bound values (its valid     *)
(* values and one that it never has), the flag unbound with a bound value, flags that do not exist              *)
Pats == {<<FV, VV>>}
        \cup {<<A(f), VV>> : f \in FlagNames}
        \cup UNION {{<<A(f), v>> : v \in Valid(f) \cup {A("zzz")}} : f \in FlagNames}
        \cup {<<FV, v>> : v \in {A("false"), A("error"), A("chars"), I(255), A("toward_zero"), Nil, A("zzz")}}
        \cup {<<A("zzz_flag"), VV>>, <<I(1), VV>>, <<A("zzz_flag"), A("true")>>}

VARIABLES phase, st, act, hist
vars == <<phase, st, act, hist>>

Res(s, a) == Set(s, a.F, a.V)
Init == /\ st = InitState /\ act = NoAct /\ hist = <<>>
        /\ phase = IF Mode = "bfs" THEN "grow" ELSE "walk"
Grow == /\ phase = "grow"
        /\ \E a \in Acts : Res(st, a).out = {Success} /\ st' = Res(st, a).next
        /\ UNCHANGED <<phase, act, hist>>
Leaf == /\ phase = "grow" /\ phase' = "leaf"
        /\ act' \in Acts
        /\ UNCHANGED <<st, hist>>
(* a walk step: TLC's RandomElement picks ONE call (otherwise -simulate builds every successor) *)
Walk == /\ phase = "walk" /\ Len(hist) < Depth
        /\ act' = RandomElement(Acts)
        /\ st' = Res(st, act').next
        /\ hist' = Append(hist, [a |-> act', from |-> st, to |-> st'])
        /\ UNCHANGED phase
Next == Grow \/ Leaf \/ Walk

-----------------------------------------------------------------------------
(* canonical Prolog text (functional notation, quoted atoms, list syntax); variables by name *)
Q(x) == "'" \o x \o "'"
RECURSIVE Txt(_)
RECURSIVE TxtArgs(_, _)
RECURSIVE TxtList(_)
TxtArgs(args, k) == IF k > Len(args) THEN "" ELSE (IF k > 1 THEN "," ELSE "") \o Txt(args[k]) \o TxtArgs(args, k + 1)
TxtList(x) == IF IsF(x, ".", 2) THEN "," \o Txt(x.a[1]) \o TxtList(x.a[2])
              ELSE IF x = Nil THEN "]" ELSE "|" \o Txt(x) \o "]"
Txt(x) == CASE x.t = "v" -> x.n
            [] x.t = "a" -> IF x.n \in {"[]", "{}"} THEN x.n ELSE Q(x.n)
            [] x.t = "i" -> IF x.i < 0 THEN "(" \o ToString(x.i) \o ")" ELSE ToString(x.i)
            [] x.t = "c" -> IF IsF(x, ".", 2) THEN "[" \o Txt(x.a[1]) \o TxtList(x.a[2])
                            ELSE Q(x.n) \o "(" \o TxtArgs(x.a, 1) \o ")"
SetToSeq(S) == LET RECURSIVE F(_)
                   F(T) == IF T = {} THEN <<>> ELSE LET x == CHOOSE x \in T : TRUE IN <<x>> \o F(T \ {x})
               IN F(S)
TxtSeq(S) == LET q == SetToSeq(S) IN [j \in 1..Len(q) |-> Txt(q[j])]
OutTxt(o) == IF o = Success THEN "success" ELSE IF o = Failure THEN "failure" ELSE Txt(o)

WSeq == <<"double_quotes", "occurs_check", "unknown", "answer_write_options">>
Key(s) == [j \in 1..Len(WSeq) |-> Txt(s[WSeq[j]])]
PatSeq == SetToSeq(Pats)
PatVec(s, p) == LET r == Current(s, p[1], p[2]) IN
                [f |-> Txt(p[1]), v |-> Txt(p[2]), errs |-> TxtSeq(r.errs),
                 sols |-> TxtSeq({C2("-", A(x[1]), x[2]) : x \in r.sols})]
StateVec(s) == [kind |-> "st", key |-> Key(s),
                reach |-> [j \in 1..Len(WSeq) |-> Txt(A(WSeq[j])) \o "," \o Txt(s[WSeq[j]])],
                pats |-> [j \in 1..Len(PatSeq) |-> PatVec(s, PatSeq[j])],
                read |-> Txt(ReadString(s)), occurs |-> OccursProbe(s),
                unknown |-> OutTxt(UnknownProbe(s, "c44_undefined_procedure"))]
StepVec(s, a) == LET r == Res(s, a) IN
                 [key |-> Key(s), act |-> Txt(a.F) \o "," \o Txt(a.V),
                  out |-> [j \in 1..Len(SetToSeq(r.out)) |-> OutTxt(SetToSeq(r.out)[j])], next |-> Key(r.next)]

Emit ==
  /\ (phase = "grow") => PrintT(ToJson(StateVec(st)))
  /\ (phase = "leaf") => PrintT(ToJson([kind |-> "tr", v |-> StepVec(st, act)]))
  /\ (phase = "walk" /\ Len(hist) = Depth) =>
        PrintT(ToJson([kind |-> "walk", steps |-> [j \in 1..Len(hist) |-> StepVec(hist[j].from, hist[j].a)]]))

(* invariants of the specification itself *)
TypeInv == \A f \in Writable : InDomain(f, st[f])
(* property C44 on the specification: a call may succeed exactly when afterwards Current(F, V) holds;       *)
(* a read-only flag never changes; a rejected call changes nothing                                          *)
SetInv == phase = "leaf" =>
            LET r == Res(st, act) IN
            /\ (Success \in r.out) <=> (~IsVar(act.F) /\ ~IsVar(act.V) /\ Current(r.next, act.F, act.V).errs = {}
                                         /\ Current(r.next, act.F, act.V).sols # {})
            /\ (Success \notin r.out) => r.next = st
            /\ \A f \in ReadOnly : HasValue(f) => Value(r.next, f) = Value(st, f)
(* enumeration and lookup agree *)
EnumInv == \A f \in FlagNames : Current(st, A(f), VV).sols = {x \in Current(st, FV, VV).sols : x[1] = f}

ASSUME PrintT(ToJson([kind |-> "init", key |-> Key(InitState), nacts |-> Cardinality(Acts), npats |-> Cardinality(Pats)]))
=============================================================================
