------------------------------- MODULE ReadVars -------------------------------
(* C45: what read_term/2 reports about the variables of the clause it read (layer A).              *)
(*                                                                                                  *)
(* Sources: ISO/IEC 13211-1 7.10.3 (read-options variables/1, variable_names/1, singletons/1),      *)
(* 6.4.3 (variable tokens: the anonymous variable is the token "_", every other variable token is   *)
(* a named variable, in particular "_A", "_a" and "__"), the doc comment of read_term/3 in          *)
(* /repo/src/lib/builtins.pl, and the property statement C45 (which fixes the order of              *)
(* variable_names/1 and says that _-prefixed named variables are reported as singletons).           *)
(*                                                                                                  *)
(* A clause is seen as its token sequence; only the variable tokens matter: occ is the sequence of   *)
(* the names of the variable tokens in text order (which is also the left-to-right traversal order   *)
(* of the term read, since Prolog syntax keeps the arguments of compound terms, lists, operators     *)
(* and curly terms in text order).  A double quoted list token or a quoted atom is NOT a variable    *)
(* token, whatever it contains.                                                                      *)
EXTENDS Integers, Sequences, FiniteSets

IsAnon(n) == n = "_"

(* the variable an occurrence denotes, identified by the position of its first occurrence: *)
(* every "_" is a variable of its own, equal names denote the same variable of the clause   *)
First(occ, i) == IF IsAnon(occ[i]) THEN i
                 ELSE CHOOSE j \in 1..i : occ[j] = occ[i] /\ \A k \in 1..(j - 1) : occ[k] # occ[i]
Firsts(occ)   == {i \in 1..Len(occ) : First(occ, i) = i}
(* the variables of the term are numbered 1, 2, ... in the order of their first occurrence *)
Rank(occ, i)  == Cardinality({j \in Firsts(occ) : j <= First(occ, i)})
NVars(occ)    == Cardinality(Firsts(occ))
Count(occ, i) == Cardinality({j \in 1..Len(occ) : First(occ, j) = First(occ, i)})

RECURSIVE Ascending(_)
Ascending(S) == IF S = {} THEN <<>> ELSE LET m == CHOOSE m \in S : \A x \in S : m <= x IN <<m>> \o Ascending(S \ {m})

(* variables(Vs): "a list of the variables in the term input, in left-to-right traversal order":  *)
(* the k-th element is variable number k, i.e. Vs = <<1, 2, .., NVars>> in this numbering         *)
Variables(occ) == [k \in 1..NVars(occ) |-> k]
(* variable_names(Ns): Name = Var for each named variable; first-occurrence order (property C45) *)
VariableNames(occ) ==
  LET pos == Ascending({i \in Firsts(occ) : ~IsAnon(occ[i])}) IN [k \in 1..Len(pos) |-> <<occ[pos[k]], Rank(occ, pos[k])>>]
(* singletons(Ss): Name = Var for each named variable occurring once (a SET: no order is specified) *)
Singletons(occ) == {<<occ[i], Rank(occ, i)>> : i \in {i \in Firsts(occ) : ~IsAnon(occ[i]) /\ Count(occ, i) = 1}}

(* sanity: the three reports are consistent with each other *)
Sane(occ) ==
  /\ \A p \in Singletons(occ) : \E k \in 1..Len(VariableNames(occ)) : VariableNames(occ)[k] = p
  /\ \A k \in 1..Len(VariableNames(occ)) : VariableNames(occ)[k][2] \in 1..NVars(occ)
  /\ \A k, l \in 1..Len(VariableNames(occ)) : k < l => VariableNames(occ)[k][2] < VariableNames(occ)[l][2]
  /\ \A i \in 1..Len(occ) : Rank(occ, i) \in 1..NVars(occ)
=============================================================================
