------------------------------- MODULE MC_C20 -------------------------------
(* C20: strings behave exactly like the character lists they denote.                             *)
(* Three families of cases, one TLC state each:                                                   *)
(*  "lay"  layout consistency of PStr (layer B refines layer A): Read(Write(s, tail)) = (s, tail), *)
(*         the scanner's tail index from every character offset = the cell where the writer put   *)
(*         the tail = Heap::pstr_tail_idx, compute_pstr_size >= cells written;                    *)
(*  "cmp"  for a string s1 and its near-equal partners s2, each stored unsplit or split into two  *)
(*         partial strings at every position: the comparison driven by the continuation points of *)
(*         compare_pstr_slices (intended arithmetic) equals the order of the abstract lists; the  *)
(*         cases on which the code *as it is* lands elsewhere are printed (kind "dev");           *)
(*  "val"  for an abstract value (characters, tail): the expected result of every operation       *)
(*         (StrList), its materialisations, its near-equal partners with the expected              *)
(*         compare/==/= outcome, and the (materialisation, partner, partner materialisation)       *)
(*         combinations whose comparison the layout model predicts to go astray in the code.       *)
EXTENDS PStr, StrList, Json, TLC

CONSTANT Tier
Quick == Tier = "quick"

(* ---- contents ---- *)
Pat(p, n) == [j \in 1..n |->
  CASE p = 1 -> 97
    [] p = 2 -> (IF j = 1 THEN 233 ELSE IF j % 2 = 0 THEN 97 ELSE 98)          \* é first: every later byte offset is shifted by one
    [] p = 3 -> (IF j = 1 THEN 8364 ELSE IF j = n THEN 128512 ELSE 98)        \* € first, an emoji last
    [] p = 4 -> (IF j = (n + 1) \div 2 THEN 0 ELSE 97)                         \* NUL in the middle
    [] p = 5 -> (IF j = 1 THEN 0 ELSE 97)                                      \* NUL first
    [] p = 6 -> (IF j = n THEN 0 ELSE 98)                                      \* NUL last
    [] p = 7 -> 233
    [] p = 8 -> 128512
    [] p = 9 -> 49 + (j % 9)]                                                  \* digits 1..9 (number_chars)
Lens == IF Quick THEN {0, 1, 2, 3, 7, 8, 9, 15, 16, 17} ELSE 0..17
Pats == IF Quick THEN {1, 2, 3, 4, 9} ELSE 1..9
Contents == { Pat(p, n) : p \in Pats, n \in Lens }
Values == { [cs |-> c, tl |-> t] : c \in Contents, t \in {"nil", "var", "atom"} }

(* ---- materialisations [m, k] and the heap representation the layout model assumes for them ---- *)
M(m, k) == [m |-> m, k |-> k]
SplitKs(n) == { k \in (IF Quick THEN {1, 3, n - 1} ELSE {1, 3, 7, 8, 9, n - 1}) : 1 <= k /\ k <= n - 1 }
SeqOf(S) == SortedOf(S)
Mats(V) ==
  LET n == Len(V.cs)
      ks == SeqOf(SplitKs(n))
  IN << M("list", 0) >>
     \o (IF V.tl = "nil" THEN << M("lit", 0), M("achars", 0) >> ELSE <<>>)
     \o (IF V.tl = "nil" \/ n >= 1 THEN << M("findall", 0), M("assert", 0) >> ELSE <<>>)
     \o (IF n >= 1 THEN << M("pstr3", n), M("cons", 1) >> ELSE <<>>)
     \o (IF n >= 1 /\ V.tl # "nil" THEN << M("app", n) >> ELSE <<>>)
     \o [j \in 1..Len(ks) |-> M("pstr3", ks[j])]
     \o (IF V.tl = "nil" THEN [j \in 1..Len(ks) |-> M("app", ks[j])] ELSE <<>>)
PMats(P) == LET n == Len(P.cs) IN << M("list", 0), M("str", 0) >> \o (IF n >= 2 THEN << M("pstr3", n \div 2) >> ELSE <<>>)

NonEmpty(chunks) == SelectSeq(chunks, LAMBDA c : c.cs # <<>>)
Repr(cs, mat) ==
  LET n == Len(cs)  k == mat.k IN
  NonEmpty(CASE mat.m = "list" -> << Chunk("c", cs) >>
             [] mat.m \in {"lit", "achars", "findall", "assert", "str"} -> << Chunk("p", cs) >>
             [] mat.m = "app" -> << Chunk("c", SubSeq(cs, 1, k)), Chunk("p", SubSeq(cs, k + 1, n)) >>
             [] mat.m = "pstr3" -> << Chunk("p", SubSeq(cs, 1, k)), Chunk("p", SubSeq(cs, k + 1, n)) >>
             [] mat.m = "cons" -> << Chunk("c", SubSeq(cs, 1, 1)), Chunk("p", SubSeq(cs, 2, n)) >>)
HasP(chunks) == \E j \in DOMAIN chunks : chunks[j].kind = "p"
TailVal(tl, id) == CASE tl = "nil" -> Val("nil", 0) [] tl = "var" -> Val("var", id) [] tl = "atom" -> Val("atom", 0)

(* does the comparison of the two representations, as the code performs it, leave the path of the intended arithmetic? *)
(* (w1: the first representation already written) *)
AstrayW(w1, tl2, r2) ==
  LET w2 == WriteRepr(w1.mem, r2, TailVal(tl2, 2))
  IN Walk(w2.mem, w1.root, w2.root, 64, FALSE).dev \/ Walk(w2.mem, w2.root, w1.root, 64, FALSE).dev

ValueVector(V) ==
  LET mats == Mats(V)
      ps   == Partners(V)
      (* the distinct representations of the value that contain a partial string, each written once *)
      rvs  == { Repr(V.cs, mats[mi]) : mi \in 1..Len(mats) }
      rps  == UNION { { <<pi, Repr(ps[pi].cs, PMats(ps[pi])[qi])>> : qi \in 1..Len(PMats(ps[pi])) } : pi \in 1..Len(ps) }
      bad  == UNION { LET w1 == WriteRepr(<<>>, rv, TailVal(V.tl, 1))
                      IN { <<rv, x[1], x[2]>> : x \in { y \in rps : HasP(y[2]) /\ AstrayW(w1, ps[y[1]].tl, y[2]) } }
                      : rv \in { r \in rvs : HasP(r) } }
  IN [kind |-> "val", cs |-> V.cs, tl |-> V.tl,
      ops  |-> Ops(V),
      mats |-> mats,
      partners |-> [j \in 1..Len(ps) |-> [id |-> ps[j].id, cs |-> ps[j].cs, tl |-> ps[j].tl, vn |-> ps[j].vn,
                                          exp |-> PairResult(V, ps[j]), pmats |-> PMats(ps[j])]],
      astray |-> { <<mi, pi, qi>> \in (1..Len(mats)) \X (1..Len(ps)) \X (1..3) :
                     /\ qi <= Len(PMats(ps[pi]))
                     /\ <<Repr(V.cs, mats[mi]), pi, Repr(ps[pi].cs, PMats(ps[pi])[qi])>> \in bad }]

(* ---- layout ---- *)
RECURSIVE AllStrings(_, _)
AllStrings(A, n) == IF n = 0 THEN {<<>>} ELSE LET S == AllStrings(A, n - 1) IN S \cup { Append(s, c) : s \in { x \in S : Len(x) = n - 1 }, c \in A }
Rep(c, n) == [j \in 1..n |-> c]
LayoutStrings == AllStrings({97, 233, 0}, IF Quick THEN 4 ELSE 6)
                 \cup { Rep(97, n) : n \in 0..24 } \cup { Rep(233, n) : n \in 0..12 } \cup { Rep(8364, n) : n \in 0..8 }
                 \cup UNION { { [Rep(97, n) EXCEPT ![j] = 0] : j \in 1..n } : n \in {9, 17} }
ZS(s) == [j \in 1..Len(s) |-> IF s[j] = 0 THEN "z" ELSE "c"]
RECURSIVE Boundaries(_, _)
Boundaries(cs, off) == IF cs = <<>> THEN {} ELSE {off} \cup Boundaries(Tail(cs), off + Len(Utf8(Head(cs))))
RECURSIVE SuffixAt(_, _)
SuffixAt(cs, off) == IF off = 0 THEN cs ELSE SuffixAt(Tail(cs), off - Len(Utf8(Head(cs))))

LayoutOk(s) ==
  /\ \A tl \in {"nil", "var", "atom"} :
       LET w == Write(s, TailVal(tl, 1)) IN Read(w.mem, w.root, 64) = [ok |-> TRUE, chars |-> s, tail |-> TailVal(tl, 1)]
  /\ (s # <<>> /\ \A j \in DOMAIN s : s[j] # 0) =>
       LET w  == Write(s, Val("nil", 0))
           L  == Len(Bytes(s))
           tc == CellLen(w.mem) - 1                 \* the cell where the writer put the tail
       IN /\ H!SegCells(L) = tc /\ H!TailIdx(L) = tc /\ PStrTailIdx(L) = tc
          /\ \A off \in Boundaries(s, 0) :
               LET sc == Scan(w.mem, off)
               IN sc.ok /\ sc.tail = tc /\ sc.zero = L /\ Decode(sc.bytes) = SuffixAt(s, off)
  /\ H!PStrSizeBytes(ZS(s)) >= H!Written(ZS(s), FALSE) + 1       \* compute_pstr_size (a byte count, passed to reserve() as cells)

(* ---- comparison of split strings ---- *)
CmpStrings == AllStrings({97, 233, 0}, IF Quick THEN 3 ELSE 5)
              \cup { Rep(97, n) : n \in 4..8 }
              \cup UNION { { [Rep(97, n) EXCEPT ![j] = 233] : j \in 1..n } : n \in 4..8 }
Near(s) == LET n == Len(s) IN
  {s} \cup { Append(s, c) : c \in {97, 233} } \cup { Append(Append(s, 97), 97) }
      \cup (IF n >= 1 THEN { SubSeq(s, 1, n - 1) } \cup { [s EXCEPT ![n] = c] : c \in {97, 98, 233, 234} } ELSE {})
PartsOf(s) == { <<s>> } \cup { << SubSeq(s, 1, k), SubSeq(s, k + 1, Len(s)) >> : k \in 1..(Len(s) - 1) }
PartsRepr(parts) == NonEmpty([j \in 1..Len(parts) |-> Chunk("p", parts[j])])
AbsOrd(s1, s2) == AbsCmp(s1, "nil", s2, "nil")
(* both orders on one memory image: <<walk of (p1, p2), walk of (p2, p1)>>, each [r, dev] *)
CmpCase(p1, p2) ==
  LET w1 == WriteRepr(<<>>, PartsRepr(p1), Val("nil", 0))
      w2 == WriteRepr(w1.mem, PartsRepr(p2), Val("nil", 0))
  IN << Walk(w2.mem, w1.root, w2.root, 64, FALSE), Walk(w2.mem, w2.root, w1.root, 64, FALSE) >>

DevVector(p1, p2, s1, s2) ==
  PrintT(ToJson([kind |-> "dev", p1 |-> p1, p2 |-> p2, ord |-> AbsOrd(s1, s2),
                 exp |-> PairResult([cs |-> s1, tl |-> "nil"], Partner("layout", s2, "nil", "U"))]))

(* the walk with the intended arithmetic decides like the abstract lists; where the code as it is leaves that path, say so *)
CmpOk(s1) ==
  \A s2 \in Near(s1) : \A p1 \in PartsOf(s1) : \A p2 \in PartsOf(s2) :
    LET c == CmpCase(p1, p2) IN
    /\ c[1].r = AbsOrd(s1, s2)
    /\ c[2].r = AbsOrd(s2, s1)
    /\ (IF c[1].dev THEN DevVector(p1, p2, s1, s2) ELSE TRUE)
    /\ (IF c[2].dev THEN DevVector(p2, p1, s2, s1) ELSE TRUE)

(* the reproduction that led to the finding: "abcdefghij" against "abc" ++ "defghijkl" stored as two partial strings -- the *)
(* code as it is continues in the second cell of the bytes of the first string instead of its tail cell                   *)
KnownDeviation ==
  LET s1 == <<97, 98, 99, 100, 101, 102, 103, 104, 105, 106>>
      p2 == << <<97, 98, 99>>, <<100, 101, 102, 103, 104, 105, 106, 107, 108>> >>
      w1 == WriteRepr(<<>>, PartsRepr(<<s1>>), Val("nil", 0))
      w2 == WriteRepr(w1.mem, PartsRepr(p2), Val("nil", 0))
  IN /\ Walk(w2.mem, w1.root, w2.root, 64, FALSE) = [r |-> "lt", dev |-> TRUE]
     /\ WalkCmp(w2.mem, w1.root, w2.root, TRUE, 64) # "lt"
     /\ Walk(w2.mem, w2.root, w1.root, 64, FALSE) = [r |-> "gt", dev |-> FALSE]

(* ---- the model ---- *)
VARIABLES phase, item
Init == phase = "pick" /\ item = [g |-> "none"]
Next == /\ phase = "pick" /\ phase' = "case"
        /\ \/ \E v \in Values : item' = [g |-> "val", v |-> v]
           \/ \E s \in LayoutStrings : item' = [g |-> "lay", s |-> s]
           \/ \E s \in CmpStrings : item' = [g |-> "cmp", s |-> s]

Layout  == (phase = "case" /\ item.g = "lay") => LayoutOk(item.s)
Compare == (phase = "case" /\ item.g = "cmp") => CmpOk(item.s)
Known   == (phase = "pick") => KnownDeviation
ValLaws == (phase = "case" /\ item.g = "val") =>
             /\ SplitLaw(item.v) /\ SortLaw(item.v)
             /\ \A j \in DOMAIN Partners(item.v) : OrderLaws(item.v, Partners(item.v)[j])
Emit    == (phase = "case" /\ item.g = "val") => PrintT(ToJson(ValueVector(item.v)))
=============================================================================
