CONSTANTS Tier = "quick" InitCap = 32 MaxCap = 256
INIT Init
NEXT NextP
VIEW View
INVARIANT InBounds
