CONSTANT Tier = "thorough"
CONSTANT Mode = "lazy"
INIT Init
NEXT Next
INVARIANT StepInv
INVARIANT AnswerInv
