------------------------------- MODULE Stream -------------------------------
(* Layer A for C19: a stream as a state machine.                                                    *)
(*                                                                                                  *)
(* State (record s):                                                                                *)
(*   typ      "text" | "binary"                  (open/4 option type(_))                            *)
(*   eofa     "error" | "eof_code" | "reset"     (open/4 option eof_action(_))                      *)
(*   mode     "w" (open for write/append) | "r" (open for read)                                      *)
(*   content  the sequence of BYTES of the file; a text stream is the UTF-8 image of its characters  *)
(*   pos      read position, in bytes consumed since the beginning (or since the last reset)         *)
(*   past     TRUE once an input operation has delivered the end-of-file value (ISO 7.10.2.9:        *)
(*            end_of_stream = past)                                                                  *)
(*   lines    number of newline characters consumed                                                  *)
(*   mark     a position term remembered by Mark (stream_property(S, position(P)))                   *)
(*                                                                                                  *)
(* Sources: ISO/IEC 13211-1 7.10.2.9-7.10.2.13 (stream properties, end_of_stream not/at/past,        *)
(* eof_action), 8.11.8 (at_end_of_stream/1: true iff end_of_stream is at or past), 8.12.1/8.12.2     *)
(* (get_char/peek_char, get_code/peek_code), 8.13.1/8.13.2 (get_byte/peek_byte), 8.12.3/8.13.3       *)
(* (put_char, put_byte), 8.14.1 (read_term), as summarised in properties.jsonl C19 and DESIGN.md 8/C19;           *)
(* src/lib/builtins.pl doc comments ("position(position_and_lines_read(P, L)) current position of   *)
(* the stream", "peek_char ... doesn't move the stream position"); src/lib/charsio.pl               *)
(* (get_n_chars/3 "Read N chars from stream Stream ... only N chars are read"; '$get_n_chars'       *)
(* "also works for binary streams"); DESIGN.md Appendix 2 "Streams" (P counts bytes; reset on a     *)
(* file re-reads from the beginning).                                                               *)
(*                                                                                                  *)
(* Every input operation follows ISO 8.12.1.1 / 8.13.1.1:                                           *)
(*   a) wrong stream type            -> permission_error(input, binary_stream | text_stream, S)      *)
(*   b) end_of_stream = past         -> by eof_action: error  -> permission_error(input,             *)
(*                                        past_end_of_stream, S); eof_code -> the end-of-file value  *)
(*                                        again; reset -> the stream is reset (for a file: back to   *)
(*                                        the beginning, Appendix 2) and the operation is performed  *)
(*   c) end_of_stream = at           -> the end-of-file value (end_of_file for characters and        *)
(*                                        terms, -1 for codes and bytes); a get makes it past,       *)
(*                                        a peek leaves it at                                         *)
(*   d) otherwise the next character/byte; a get advances pos by its encoded length                  *)
(* Where the sources leave freedom the result carries the set of admissible after-states in          *)
(* "alts" (first element = the one the model continues with).                                        *)
EXTENDS Integers, Sequences, FiniteSets

(* ---- UTF-8 (well-formed input only; same definitions as in Text.tla) ---- *)
Utf8Len(c) == IF c < 128 THEN 1 ELSE IF c < 2048 THEN 2 ELSE IF c < 65536 THEN 3 ELSE 4
Utf8(c) ==
  CASE c < 128   -> <<c>>
    [] c < 2048  -> <<192 + (c \div 64), 128 + (c % 64)>>
    [] c < 65536 -> <<224 + (c \div 4096), 128 + ((c \div 64) % 64), 128 + (c % 64)>>
    [] OTHER     -> <<240 + (c \div 262144), 128 + ((c \div 4096) % 64), 128 + ((c \div 64) % 64), 128 + (c % 64)>>
RECURSIVE Utf8Seq(_)
Utf8Seq(s) == IF s = <<>> THEN <<>> ELSE Utf8(Head(s)) \o Utf8Seq(Tail(s))
LeadLen(b) == IF b < 128 THEN 1 ELSE IF b < 224 THEN 2 ELSE IF b < 240 THEN 3 ELSE 4
RECURSIVE Cont(_, _)
Cont(acc, bs) == IF bs = <<>> THEN acc ELSE Cont(acc * 64 + (Head(bs) - 128), Tail(bs))
(* the character that starts at byte offset p (0-based) and its encoded length *)
CharAt(bs, p) ==
  LET b == bs[p + 1]  n == LeadLen(b)
      lead == CASE n = 1 -> b [] n = 2 -> b - 192 [] n = 3 -> b - 224 [] OTHER -> b - 240
  IN [c |-> Cont(lead, SubSeq(bs, p + 2, p + n)), n |-> n]

(* ---- state ---- *)
NoMark == [set |-> FALSE, pos |-> 0, lines |-> 0]
NewStream(typ, eofa, mode, content) ==
  [typ |-> typ, eofa |-> eofa, mode |-> mode, content |-> content, pos |-> 0, past |-> FALSE, lines |-> 0,
   mark |-> NoMark]

Eos(s) == IF s.past THEN "past" ELSE IF s.pos = Len(s.content) THEN "at" ELSE "not"
Reset(s) == [s EXCEPT !.pos = 0, !.past = FALSE, !.lines = 0]

(* the unit of input: a character of a text stream, a byte of a binary stream *)
UnitAt(s, p) == IF s.typ = "binary" THEN [c |-> s.content[p + 1], n |-> 1] ELSE CharAt(s.content, p)
IsNl(s, c) == s.typ = "text" /\ c = 10

(* the units from offset p to the end, as a sequence of [c, n] *)
RECURSIVE UnitsFrom(_, _)
UnitsFrom(s, p) == IF p >= Len(s.content) THEN <<>> ELSE LET u == UnitAt(s, p) IN <<u>> \o UnitsFrom(s, p + u.n)

(* ---- results: uniform shape [k, v, e] ---- *)
(* k: "char" "code" "byte" (v = <<value>>) | "eofa" (the atom end_of_file) | "eofc" (-1) |            *)
(*    "chars" (v = list) | "true" | "false" | "term" (v = characters of the atom read) | "ok" |       *)
(*    "err" (e = second argument of permission_error/3, or another tag)                               *)
R(k, v, e) == [k |-> k, v |-> v, e |-> e]
Val(kind, c) == R(kind, <<c>>, "")
EofOf(kind)  == IF kind = "char" THEN R("eofa", <<>>, "") ELSE R("eofc", <<>>, "")
PermErr(what) == R("err", <<>>, what)

After(s) == [pos |-> s.pos, lines |-> s.lines, eos |-> Eos(s)]
(* outcome of an operation: new state, result, whether the stream was reset, admissible after-states *)
Out(s, r, reset) == [s |-> s, r |-> r, reset |-> reset, alts |-> <<After(s)>>]
OutAlts(s, r, reset, others) == [s |-> s, r |-> r, reset |-> reset, alts |-> <<After(s)>> \o others]

WrongType(s, kind) == (kind = "byte") # (s.typ = "binary")
TypeErr(s) == PermErr(IF s.typ = "binary" THEN "binary_stream" ELSE "text_stream")

(* ---- get_char / peek_char / get_code / peek_code / get_byte / peek_byte ---- *)
Input(s, kind, peek) ==
  IF WrongType(s, kind) THEN Out(s, TypeErr(s), FALSE)
  ELSE IF s.past /\ s.eofa = "error" THEN Out(s, PermErr("past_end_of_stream"), FALSE)
  ELSE IF s.past /\ s.eofa = "eof_code" THEN Out(s, EofOf(kind), FALSE)
  ELSE LET t == IF s.past THEN Reset(s) ELSE s IN
       IF t.pos = Len(t.content)
       THEN Out(IF peek THEN t ELSE [t EXCEPT !.past = TRUE], EofOf(kind), s.past)
       ELSE LET u == UnitAt(t, t.pos) IN
            Out(IF peek THEN t
                ELSE [t EXCEPT !.pos = @ + u.n, !.lines = @ + (IF IsNl(t, u.c) THEN 1 ELSE 0)],
                Val(kind, u.c), s.past)

(* ---- at_end_of_stream/1 (8.11.8) ---- *)
AtEnd(s) == Out(s, R(IF Eos(s) = "not" THEN "false" ELSE "true", <<>>, ""), FALSE)

(* ---- get_n_chars/3 (library(charsio)): up to k units, for both stream types. ---- *)
(* Not an ISO predicate: nothing is stated for a stream that is already past its end (the model does  *)
(* not use it there), and when fewer than k units remain the library does not say whether the        *)
(* stream becomes past: both are admitted.                                                           *)
RECURSIVE Take(_, _)
Take(us, k) == IF k = 0 \/ us = <<>> THEN <<>> ELSE <<Head(us)>> \o Take(Tail(us), k - 1)
RECURSIVE SumN(_)
SumN(us) == IF us = <<>> THEN 0 ELSE Head(us).n + SumN(Tail(us))
NlIn(s, us) == Cardinality({i \in 1..Len(us) : IsNl(s, us[i].c)})
GetNEnabled(s) == ~s.past
GetN(s, k) ==
  LET us == Take(UnitsFrom(s, s.pos), k)
      t  == [s EXCEPT !.pos = @ + SumN(us), !.lines = @ + NlIn(s, us)]
      r  == R("chars", [i \in 1..Len(us) |-> us[i].c], "")
  IN IF Len(us) < k THEN OutAlts(t, r, FALSE, <<[pos |-> t.pos, lines |-> t.lines, eos |-> "past"]>>)
     ELSE Out(t, r, FALSE)

(* ---- read_term/3 on the tiny sublanguage  layout* letter+ "." layout ---- *)
(* (everything else about the reader belongs to C13-C17).  ISO 8.14.1: the result is the term, the    *)
(* stream is left after the end token; if only layout text remains the result is end_of_file and the  *)
(* stream is past.  6.4.8: an end char is followed by a layout character; whether that character      *)
(* is consumed is not specified: both after-states are admitted (the model continues with the one      *)
(* observed: a newline is consumed, a space is not).                                                  *)
Layout  == {32, 10}
Letters == {97, 233}
RECURSIVE LeadingIn(_, _)
LeadingIn(us, S) == IF us = <<>> \/ Head(us).c \notin S THEN 0 ELSE 1 + LeadingIn(Tail(us), S)
Drop(us, k) == SubSeq(us, k + 1, Len(us))
TermShape(s) ==       \* [ok, eof, sk, m] for the text from the current position
  LET us == UnitsFrom(s, s.pos)
      sk == LeadingIn(us, Layout)
      m  == LeadingIn(Drop(us, sk), Letters)
  IN [eof |-> sk = Len(us), sk |-> sk, m |-> m,
      ok  |-> sk = Len(us)
              \/ (m >= 1 /\ Len(us) >= sk + m + 2 /\ us[sk + m + 1].c = 46 /\ us[sk + m + 2].c \in Layout)]
ReadTermEnabled(s) ==
  /\ s.typ = "text"
  /\ IF s.past THEN (s.eofa # "reset" \/ TermShape(Reset(s)).ok) ELSE TermShape(s).ok
ReadTerm(s) ==
  IF s.past /\ s.eofa = "error" THEN Out(s, PermErr("past_end_of_stream"), FALSE)
  ELSE IF s.past /\ s.eofa = "eof_code" THEN Out(s, R("eofa", <<>>, ""), FALSE)
  ELSE LET t  == IF s.past THEN Reset(s) ELSE s
           us == UnitsFrom(t, t.pos)
           sh == TermShape(t)
       IN IF sh.eof
          THEN Out([t EXCEPT !.pos = Len(t.content), !.past = TRUE, !.lines = @ + NlIn(t, us)],
                   R("eofa", <<>>, ""), s.past)
          ELSE LET n1  == sh.sk + sh.m + 1                       \* through the end char
                   lay == us[n1 + 1].c
                   a1  == [t EXCEPT !.pos = @ + SumN(Take(us, n1)), !.lines = @ + NlIn(t, Take(us, n1))]
                   a2  == [t EXCEPT !.pos = @ + SumN(Take(us, n1 + 1)), !.lines = @ + NlIn(t, Take(us, n1 + 1))]
                   r   == R("term", [i \in 1..sh.m |-> us[sh.sk + i].c], "")
               IN IF lay = 10 THEN OutAlts(a2, r, s.past, <<After(a1)>>)
                  ELSE OutAlts(a1, r, s.past, <<After(a2)>>)

(* ---- position terms: Mark remembers stream_property(S, position(P)); Seek is set_stream_position ---- *)
(* ISO 8.11.9: the stream position becomes the remembered one: the same data is read again and the    *)
(* position term (byte offset and lines read) is the remembered one; the stream is no longer past.     *)
Mark(s) == Out([s EXCEPT !.mark = [set |-> TRUE, pos |-> s.pos, lines |-> s.lines]], R("ok", <<>>, ""), FALSE)
SeekEnabled(s) == s.mark.set
Seek(s) == Out([s EXCEPT !.pos = s.mark.pos, !.lines = s.mark.lines, !.past = FALSE], R("ok", <<>>, ""), FALSE)

(* ---- output (mode "w"): the content grows by the UTF-8 image of what is written ---- *)
(* put_char/put_code (8.12.3), nl (8.12.3.4), write/2 of an atom (no quoting), format/3 with ~a, ~w,    *)
(* ~s and literal text (src/lib/format.pl directive table), put_byte (8.13.3).  The wrong stream type  *)
(* is permission_error(output, binary_stream | text_stream, S).                                        *)
EmitText(s, cs) == Out([s EXCEPT !.content = @ \o Utf8Seq(cs)], R("ok", <<>>, ""), FALSE)
WriteOp(s, op, cs) ==          \* cs: the characters (text) or the single byte (binary) written
  IF op = "put_byte"
  THEN IF s.typ = "text" THEN Out(s, PermErr("text_stream"), FALSE)
       ELSE Out([s EXCEPT !.content = @ \o cs], R("ok", <<>>, ""), FALSE)
  ELSE IF s.typ = "binary" THEN Out(s, PermErr("binary_stream"), FALSE)
       ELSE EmitText(s, cs)

(* close and open again for reading *)
(* (the result carries the bytes the file must now hold) *)
Reopen(s) == Out([s EXCEPT !.mode = "r", !.pos = 0, !.past = FALSE, !.lines = 0, !.mark = NoMark], R("ok", s.content, ""), FALSE)

(* ---- dispatcher.  An operation is [op, k, v]: k = count of get_n_chars, v = characters/bytes written ---- *)
Op(op, k, v) == [op |-> op, k |-> k, v |-> v]
ReadOpNames == {"get_char", "peek_char", "get_code", "peek_code", "get_byte", "peek_byte", "get_n_chars",
                "at_end", "read_term", "mark", "seek"}
WriteOpNames == {"put_char", "put_code", "nl", "write", "format_a", "format_w", "format_s", "format_lit", "put_byte"}

Enabled(s, o) ==
  IF o.op \in WriteOpNames THEN s.mode = "w"
  ELSE IF o.op = "reopen" THEN s.mode = "w"
  ELSE /\ s.mode = "r"
       /\ CASE o.op = "get_n_chars" -> GetNEnabled(s)
            [] o.op = "read_term"   -> ReadTermEnabled(s)
            [] o.op = "seek"        -> SeekEnabled(s)
            [] OTHER                -> TRUE

Do(s, o) ==
  CASE o.op = "get_char"    -> Input(s, "char", FALSE)
    [] o.op = "peek_char"   -> Input(s, "char", TRUE)
    [] o.op = "get_code"    -> Input(s, "code", FALSE)
    [] o.op = "peek_code"   -> Input(s, "code", TRUE)
    [] o.op = "get_byte"    -> Input(s, "byte", FALSE)
    [] o.op = "peek_byte"   -> Input(s, "byte", TRUE)
    [] o.op = "get_n_chars" -> GetN(s, o.k)
    [] o.op = "at_end"      -> AtEnd(s)
    [] o.op = "read_term"   -> ReadTerm(s)
    [] o.op = "mark"        -> Mark(s)
    [] o.op = "seek"        -> Seek(s)
    [] o.op = "reopen"      -> Reopen(s)
    [] OTHER                -> WriteOp(s, o.op, o.v)

IsPeek(o) == o.op \in {"peek_char", "peek_code", "peek_byte"}
IsGet(o)  == o.op \in {"get_char", "get_code", "get_byte"}
GetOf(o)  == CASE o.op = "peek_char" -> Op("get_char", 0, <<>>) [] o.op = "peek_code" -> Op("get_code", 0, <<>>)
               [] OTHER -> Op("get_byte", 0, <<>>)
RightType(s, o) == (o.op \in {"get_byte", "peek_byte"}) = (s.typ = "binary")

(* ---- the properties C19 names, as predicates on a state (checked by TLC in every reachable state) ---- *)
(* peeking never consumes input: position and line count are unchanged (unless the peek is the        *)
(* operation that resets a past stream), peeking twice gives the same answer, and the get that         *)
(* follows a peek delivers what the peek announced                                                     *)
PeekIdempotent(s) ==
  \A name \in {"peek_char", "peek_code", "peek_byte"} :
    LET o == Op(name, 0, <<>>) IN
    RightType(s, o) =>
      LET d1 == Do(s, o)  d2 == Do(d1.s, o)  g == Do(d1.s, GetOf(o)) IN
      /\ (~d1.reset => d1.s.pos = s.pos /\ d1.s.lines = s.lines /\ d1.s.past = s.past)
      /\ (d1.r.k # "err" => d2.r = d1.r /\ d2.s = d1.s /\ g.r = d1.r)
(* at_end_of_stream/1 agrees with the next read: it is true iff the next get delivers no data         *)
AtEndAgrees(s) ==
  \A name \in {"get_char", "get_code", "get_byte"} :
    LET o == Op(name, 0, <<>>) IN
    RightType(s, o) =>
      LET g == Do(s, o)  e == (AtEnd(s).r.k = "true") IN
      /\ (Eos(s) = "not" => ~e /\ g.r.k \in {"char", "code", "byte"})
      /\ (Eos(s) = "at"  => e /\ g.r.k \in {"eofa", "eofc"} /\ Eos(g.s) = "past")
      /\ (Eos(s) = "past" => e /\ (s.eofa = "error" => g.r.k = "err")
                               /\ (s.eofa = "eof_code" => g.r.k \in {"eofa", "eofc"} /\ g.s = s)
                               /\ (s.eofa = "reset" => g.reset))
WellFormed(s) == s.pos >= 0 /\ s.pos <= Len(s.content) /\ (s.past => s.pos = Len(s.content) \/ s.mode = "w")
=============================================================================
