CONSTANT Tier = "quick"
INIT Init
NEXT Next
INVARIANT Refines
INVARIANT PutBackExact
INVARIANT Emit
