------------------------------- MODULE MC_C08 -------------------------------
(* C08: static, dynamic and meta-called code give the same answers.                          *)
(* The program space is the one of C07 (this module EXTENDS MC_C07 and reuses its grammar,   *)
(* its helper predicates and its random construction).  For every program the abstract       *)
(* machine Prolog!Step is run in every *loading mode*; the modes are part of the model:      *)
(*   S  the clauses are the static program (consult)                  -- the reference run   *)
(*   D  the same clauses consulted in discontiguous pieces: in layer A the database is the   *)
(*      sequence of clauses of a predicate in source order, so D is S by definition of Load  *)
(*   A  p/1 (p2/2) declared dynamic, the clauses added one by one by assertz/1 goals that    *)
(*      precede the query goal in the same query                                             *)
(*   M  the clauses are dynamic and the query is run by the vanilla meta-interpreter MI      *)
(*      below (itself a program executed by the abstract machine) through clause/2           *)
(*      (the replay also runs M over the clauses that mode A added with assertz/1: "MA")     *)
(*   Q  the query goal passed to call/1;  N  the query goal p(T) written call(p, T)          *)
(*   B  every clause body Body replaced by call(Body): goal placement inside call/1.         *)
(* TLC decides (invariant Agree) that the A-semantics of the modes coincide: A, M, Q, N      *)
(* always, B whenever no clause body contains a cut that is transparent to the clause (the   *)
(* documented opacity of call/N: ISO 7.8.3.1 e, cut inside call/1 is local).  Where B        *)
(* differs, the expected answers of B are the ones computed here, not assumed.               *)
EXTENDS MC_C07

CONSTANTS BoundD,     \* step bound of the reference run (the bound of MC_C07)
          BoundM      \* step bound of the meta-interpreted run

(* ---------------------------------------------------------------------------------------- *)
(* The meta-interpreter.  Cut: solve(!) succeeds and, when backtracked into, throws the      *)
(* private ball '$mi_cut'; every cut barrier of ISO (a clause body; the arguments of call/1, *)
(* \+, findall/3, catch/3, once/1, forall/2, ignore/1; the condition of if-then-else) is a    *)
(* catch/3 for that ball whose recovery is fail.  The active catch/3 frames follow the        *)
(* continuation, so the innermost active barrier is exactly the one the cut belongs to, and   *)
(* failing the barrier discards the alternatives the cut would have removed.  call/1 checks   *)
(* the body (body_ok/1) before running it, as the real call/1 does.  Goals that are neither   *)
(* control constructs nor user predicates (user_pred/1 facts come with the program) are       *)
(* called directly.                                                                          *)
G == V("G")  GA == V("A")  GB == V("B")  GC == V("C")  GT == V("T")  GE == V("E")  GL == V("L")  GR == V("R")  Bd == V("Bd")
SV(x) == C1("solve", x)
SC(x) == C1("scall", x)
BO(x) == C1("body_ok", x)
MiCut == A("$mi_cut")
ErrIn(f) == C2("error", f, A("mi"))
Cl(hh, bb) == [h |-> hh, b |-> bb]
MI == <<
  Cl(SV(G), ConjOf(<<C1("var", G), Cut, C1("throw", ErrIn(A("instantiation_error")))>>)),
  Cl(SV(True), Cut),
  Cl(SV(Cut), Conj(Cut, Disj(True, C1("throw", MiCut)))),
  Cl(SV(Conj(GA, GB)), ConjOf(<<Cut, SV(GA), SV(GB)>>)),
  Cl(SV(Disj(GA, GB)), Conj(Cut, C2("solve_or", GA, GB))),
  Cl(SV(It(GC, GT)), Conj(Cut, It(SC(GC), SV(GT)))),
  Cl(SV(Not(G)), Conj(Cut, Not(SC(G)))),
  Cl(SV(Call1(G)), Conj(Cut, SC(G))),
  Cl(SV(C1("once", G)), Conj(Cut, C1("once", SC(G)))),
  Cl(SV(C1("ignore", G)), Conj(Cut, C1("ignore", SC(G)))),
  Cl(SV(C2("forall", GC, GA)), Conj(Cut, C2("forall", SC(GC), SC(GA)))),
  Cl(SV(C3("findall", GT, G, GL)), Conj(Cut, C3("findall", GT, SC(G), GL))),
  Cl(SV(C3("catch", G, GC, GR)), Conj(Cut, C3("catch", SC(G), GC, SC(GR)))),
  Cl(SV(G), ConjOf(<<C1("user_pred", G), Cut, C3("catch", Conj(C2("clause", G, Bd), SV(Bd)), MiCut, Fail)>>)),
  Cl(SV(G), Call1(G)),
  Cl(C2("solve_or", GA, GB), ConjOf(<<C1("nonvar", GA), Eq(GA, It(GC, GT)), Cut, Ite(SC(GC), SV(GT), SV(GB))>>)),
  Cl(C2("solve_or", GA, GB), Disj(SV(GA), SV(GB))),
  Cl(SC(G), ConjOf(<<C1("var", G), Cut, C1("throw", ErrIn(A("instantiation_error")))>>)),
  Cl(SC(G), ConjOf(<<BO(G), Cut, C3("catch", SV(G), MiCut, Fail)>>)),
  Cl(SC(G), C1("throw", ErrIn(C2("type_error", A("callable"), G)))),
  Cl(BO(G), Conj(C1("var", G), Cut)),
  Cl(BO(Conj(GA, GB)), ConjOf(<<Cut, BO(GA), BO(GB)>>)),
  Cl(BO(Disj(GA, GB)), ConjOf(<<Cut, BO(GA), BO(GB)>>)),
  Cl(BO(It(GA, GB)), ConjOf(<<Cut, BO(GA), BO(GB)>>)),
  Cl(BO(G), C1("callable", G))
>>
UserPreds == << Cl(C1("user_pred", P1(V("U"))), True), Cl(C1("user_pred", C2("p2", V("U"), V("U1"))), True) >>
DynAll == { <<"p", 1>>, <<"p2", 2>> }

(* ---------------------------------------------------------------------------------------- *)
(* running a machine to completion inside one TLC step; the machine invariants of Prolog.tla *)
(* are evaluated at every step of every run and reported in .ok                              *)
RECURSIVE RunB(_, _, _)
RunB(mm, bound, ok) ==
  IF mm.phase = "done" THEN [m |-> mm, ok |-> ok /\ CollectorsOk(mm)]
  ELSE IF mm.steps >= bound THEN [m |-> Finish(mm, "diverge"), ok |-> ok]
  ELSE RunB(Step(mm), bound, ok /\ MachineOk(mm))

NormAns(aa) == LET vs == VarSeq(C("ans", aa)) IN [j \in 1..Len(aa) |-> NormVars(aa[j], vs)]
NormBall(bl) == LET x == IF IsF(bl, "error", 2) THEN C2("error", bl.a[1], A("$ctx")) ELSE bl IN NormVars(x, VarSeq(x))
Outcome(r) == [status |-> r.m.status, ans |-> [j \in 1..Len(r.m.ans) |-> NormAns(r.m.ans[j])],
               ball |-> NormBall(r.m.ball), balts |-> {NormBall(x) : x \in r.m.balts}, steps |-> r.m.steps, ok |-> r.ok]
Finished(o) == o.status \in {"done", "exc", "capped"}
Same(o1, o2) == o1.status = o2.status /\ o1.ans = o2.ans /\ o1.ball = o2.ball /\ o1.balts = o2.balts

(* variables of an asserted clause are renamed apart from the variables of the query *)
RECURSIVE Prefix(_, _)
Prefix(x, p) == IF x.t = "v" THEN [x EXCEPT !.n = p \o x.n]
                ELSE IF x.t = "c" THEN [x EXCEPT !.a = [j \in 1..Len(x.a) |-> Prefix(x.a[j], p)]]
                ELSE x
AssertGoal(cl, j) == C1("assertz", Prefix(IF cl.b = True THEN cl.h ELSE C2(":-", cl.h, cl.b), "_C" \o ToString(j)))

(* a cut that belongs to the clause: reachable through ',', ';', the branches of '->' *)
RECURSIVE TCut(_)
TCut(g) == IF g = Cut THEN TRUE
           ELSE IF IsF(g, ",", 2) \/ IsF(g, ";", 2) THEN TCut(g.a[1]) \/ TCut(g.a[2])
           ELSE IF IsF(g, "->", 2) THEN TCut(g.a[2])
           ELSE FALSE

WithQv(mm, q) == [mm EXCEPT !.qv = VarSeq(q)]

EvalModes(prog, dyn, q) ==
  LET full   == prog \o Helpers
      oS     == Outcome(RunB(Load(full, dyn, q), BoundD, TRUE))
      oA     == Outcome(RunB(WithQv(Load(Helpers, DynAll, ConjOf([j \in 1..Len(prog) |-> AssertGoal(prog[j], j)] \o <<q>>)), q),
                             BoundD + 3 * Len(prog) + 3, TRUE))
      bM     == IF 25 * oS.steps + 300 < BoundM THEN 25 * oS.steps + 300 ELSE BoundM
      oM     == Outcome(RunB(WithQv(Load(prog \o Helpers \o UserPreds \o MI, DynAll, SV(q)), q), bM, TRUE))
      oQ     == Outcome(RunB(WithQv(Load(full, dyn, Call1(q)), q), BoundD + 2, TRUE))
      hasN   == q.t = "c" /\ Key(q) \in DynAll
      oN     == IF hasN THEN Outcome(RunB(WithQv(Load(full, dyn, C("call", <<A(q.n)>> \o q.a)), q), BoundD + 2, TRUE)) ELSE oS
      progB  == [j \in 1..Len(prog) |-> [h |-> prog[j].h, b |-> Call1(prog[j].b)]]
      oB     == Outcome(RunB(Load(progB \o Helpers, dyn, q), 2 * BoundD, TRUE))
      tcut   == \E j \in 1..Len(prog) : TCut(prog[j].b)
      modes  == <<[mode |-> "A", o |-> oA], [mode |-> "M", o |-> oM], [mode |-> "Q", o |-> oQ], [mode |-> "B", o |-> oB]>>
                \o (IF hasN THEN <<[mode |-> "N", o |-> oN]>> ELSE <<>>)
  IN IF ~Finished(oS)    \* not emitted (as in MC_C07): the other modes are not run (a run to the bound is quadratic in the bound)
     THEN [phase |-> "res", prog |-> prog, q |-> q, qv |-> VarSeq(q), dyn |-> dyn, oS |-> oS, tcut |-> tcut,
           modes |-> <<>>, unfinished |-> <<>>, allok |-> oS.ok]
     ELSE
     [phase |-> "res", prog |-> prog, q |-> q, qv |-> VarSeq(q), dyn |-> dyn, oS |-> oS, tcut |-> tcut,
      modes |-> SelectSeq(modes, LAMBDA x : Finished(x.o)),
      unfinished |-> LET u == SelectSeq(modes, LAMBDA x : ~Finished(x.o)) IN [j \in 1..Len(u) |-> u[j].mode],
      allok |-> oS.ok /\ \A j \in 1..Len(modes) : modes[j].o.ok]

(* second clauses: the three of MC_C07's quick tier in both tiers (the thorough tier takes the full body grammar of  *)
(* MC_C07 for the first clause; with its six second clauses every program would be replayed in eight modes 13 times) *)
CB8 == ClausesBQ
Init8 == m = [phase |-> "gen"]
Gen8 ==
  /\ m.phase = "gen"
  /\ IF Mode = "exh"
     THEN \E ca \in ClausesA : \E q \in Queries :
            \/ m' = [phase |-> "prog", prog |-> <<ca>>, dyn |-> {}, q |-> q]
            \/ \E cb \in CB8 : \/ m' = [phase |-> "prog", prog |-> <<ca, cb>>, dyn |-> {}, q |-> q]
                              \/ m' = [phase |-> "prog", prog |-> <<cb, ca>>, dyn |-> {}, q |-> q]
     ELSE m' = [phase |-> "prog", prog |-> RProgram(1), dyn |-> {<<"p2", 2>>}, q |-> RQuery(1)]
Eval8 == m.phase = "prog" /\ m' = EvalModes(m.prog, m.dyn, m.q)
Next8 == Gen8 \/ Eval8

(* ---- what TLC decides ---- *)
Agree ==
  m.phase = "res" /\ Finished(m.oS) =>
    /\ m.allok
    /\ \A j \in 1..Len(m.modes) :
         LET x == m.modes[j] IN (x.mode # "B" \/ ~m.tcut) => Same(x.o, m.oS)

Strip(o) == [status |-> o.status, ans |-> o.ans, ball |-> o.ball, balts |-> o.balts]
Emit8 == m.phase = "res" /\ Finished(m.oS) =>
          PrintT(ToJson([prog |-> m.prog, q |-> m.q, qv |-> m.qv,
                         dynkeys |-> (IF Mode = "sim" THEN << <<"p2", 2>> >> ELSE <<>>),
                         status |-> m.oS.status, ans |-> m.oS.ans, ball |-> m.oS.ball, balts |-> m.oS.balts, steps |-> m.oS.steps,
                         tcut |-> m.tcut,
                         modes |-> [j \in 1..Len(m.modes) |-> m.modes[j].mode],
                         unfinished |-> m.unfinished,
                         alt |-> LET d == SelectSeq(m.modes, LAMBDA x : ~Same(x.o, m.oS))
                                 IN [j \in 1..Len(d) |-> [mode |-> d[j].mode, o |-> Strip(d[j].o)]]]))

(* the meta-interpreter is printed once so that the replayed text is the program of the spec *)
EmitMI == m.phase = "gen" => PrintT(ToJson([kind |-> "mi", clauses |-> MI]))
=============================================================================
