------------------------------- MODULE MC_C01 -------------------------------
(* C01: integer arithmetic is exact at every magnitude.                                  *)
(* Every state is one case (op, x, y); the specification's value is printed as a vector  *)
(* that the driver replays against the real is/2 (compiled clause, query, run-time walk).*)
EXTENDS ArithInt, Json, FiniteSets

CONSTANT Tier   \* "quick" | "thorough"

P(n) == Pow2(n)
near(n, ds) == {Add(P(n), FromInt(d)) : d \in ds}
PosQuick ==
  {FromInt(k) : k \in {0, 1, 2, 3, 7}} \cup near(31, {-1, 0}) \cup near(55, {-1, 0, 1}) \cup near(56, {0})
  \cup near(62, {0}) \cup near(63, {-1, 0, 1}) \cup near(64, {-1, 0, 1}) \cup near(70, {0, 1})
PosFull ==
  {FromInt(k) : k \in {0, 1, 2, 3, 7, 10, 255}}
  \cup near(31, {-1, 0, 1}) \cup near(32, {-1, 0, 1}) \cup near(55, {-2, -1, 0, 1}) \cup near(56, {-1, 0, 1})
  \cup near(62, {-1, 0, 1}) \cup near(63, {-1, 0, 1}) \cup near(64, {-1, 0, 1}) \cup near(70, {-1, 0, 1})
  \cup near(128, {-1, 0}) \cup {Add(Pow(FromInt(10), 30), FromInt(7))}
Pos == IF Tier = "quick" THEN PosQuick ELSE PosFull
B == Pos \cup {Neg(v) : v \in Pos}

ShiftCounts == {FromInt(k) : k \in {0, 1, 7, 54, 55, 56, 62, 63, 64, 65, 100, -1, -9, -64, -70}}
HugeCounts  == {P(32), P(64), Add(P(64), One)}     \* only for >> (and << with a negative count)
Exponents   == {FromInt(k) : k \in {-3, -2, -1, 0, 1, 2, 3, 5, 62, 63, 64}}

Arg2(op) ==
  CASE op \in {">>"} -> ShiftCounts \cup HugeCounts
    [] op \in {"<<"} -> ShiftCounts \cup {Neg(h) : h \in HugeCounts}
    [] op = "^"      -> Exponents \cup {Neg(P(64)), Neg(Add(P(64), One))}
    [] OTHER         -> B

(* keep results of ^ below ~2^9000: big bases only with exponents <= 5 *)
Admissible(op, x, y) ==
  IF op = "^" /\ ~y.neg /\ ToInt(y) > 5 THEN Len(x.m) <= 1 /\ (x.m = <<>> \/ x.m[1] <= 7) ELSE TRUE

VARIABLES phase, kind, op, x, y
vars == <<phase, kind, op, x, y>>

(* one initial state per operator (cheap); its successors are the cases, so that TLC's *)
(* workers evaluate the operators in parallel.                                           *)
Init ==
  /\ phase = "pick" /\ x = BZero /\ y = BZero
  /\ \/ kind = "bin" /\ op \in BinOps
     \/ kind = "un" /\ op \in UnOps
Next ==
  /\ phase = "pick" /\ phase' = "case" /\ UNCHANGED <<kind, op>>
  /\ x' \in B
  /\ IF kind = "bin" THEN y' \in Arg2(op) /\ Admissible(op, x', y') ELSE y' = BZero

Res == IF kind = "bin" THEN EvalBin(op, x, y) ELSE EvalUn(op, x)

Emit ==
  phase = "case" =>
  LET r == Res IN
  PrintT(ToJson([kind |-> kind, op |-> op, x |-> ToDec(x), y |-> ToDec(y),
                 ok |-> r.ok, v |-> ToDec(r.v), e |-> r.e, c |-> ToDec(r.c)]))
=============================================================================
