CONSTANT Tier = "quick"
INIT Init
NEXT Next
INVARIANT TabOk
INVARIANT ResOk
INVARIANT Emit
