------------------------------ MODULE InferLimit ------------------------------
(* C40, layer A: the observable law of call_with_inference_limit/3 (library(iso_ext)).             *)
(*                                                                                                 *)
(* Documentation (src/lib/iso_ext.pl): "call_with_inference_limit(Goal, Limit, Result): similar to  *)
(* call(Goal) but it limits the number of inferences for each solution of Goal.  Calls to it may    *)
(* be nested ..."; property C40: the solutions of G are yielded with R = true or R = ! while the    *)
(* limit is not exceeded and R = inference_limit_exceeded otherwise; the outcome for (G, L) is the  *)
(* same on every run and monotone in L; counting inside nested limits does not disturb the outer    *)
(* count.                                                                                          *)
(*                                                                                                 *)
(* A goal is described by its *definition*                                                          *)
(*     def = [sols |-> <<[s, r1], ..>>, end |-> "fail" | "throw" | "diverge", ball |-> text]         *)
(* (s: canonical text of the solution; r1: text of the inner result for goals that are themselves   *)
(* inference-limited calls, "-" otherwise; end: what happens when the goal is retried after its     *)
(* last solution).  What an "inference" is, is NOT specified: the costs are unknowns                *)
(*     c[1] <= .. <= c[k]   (cost to reach solution i)      c[k+1]  (cost to exhaust the goal)       *)
(* plus one unknown bit det ("the goal ends deterministically with its last solution", reported as  *)
(* R = !).  Predicted(def, c, det, L) is the outcome the law prescribes; a set of observed runs of  *)
(* one goal is *explained* iff some (c, det) predicts every one of them.  Two runs with the same L  *)
(* and different outcomes (non-determinism), outcomes that are not monotone in L, or solutions that *)
(* are not the goal's solutions admit no such (c, det).                                             *)
(*                                                                                                 *)
(* The thresholds also cover the reading "the limit applies to each solution separately" (SWI): if  *)
(* d[i] is the cost of solution i alone, take c[i] = max(d[1..i]).  Only the existence of           *)
(* nondecreasing thresholds is asserted.                                                            *)
EXTENDS Integers, Sequences, FiniteSets

EXC == "inference_limit_exceeded"
ExcItem == [s |-> "", r1 |-> "-", r |-> EXC]

K(def) == Len(def.sols)
DetAllowed(def) == def.end = "fail" /\ K(def) >= 1
Dets(def) == IF DetAllowed(def) THEN {FALSE, TRUE} ELSE {FALSE}

MinOf(S) == CHOOSE x \in S : \A y \in S : x <= y
Sat(x, M) == IF x > M + 1 THEN M + 1 ELSE x          \* costs above every tested limit are all alike

(* ---- the law ---- *)
Afforded(c, k, L) == Cardinality({i \in 1..k : c[i] <= L})

Predicted(def, c, det, L) ==
  LET k == K(def)
      n == Afforded(c, k, L)
      sol == [i \in 1..n |-> [s |-> def.sols[i].s, r1 |-> def.sols[i].r1,
                              r |-> IF det /\ i = k THEN "!" ELSE "true"]]
  IN IF n < k THEN [items |-> sol \o <<ExcItem>>, end |-> "stop", ball |-> ""]
     ELSE IF det THEN [items |-> sol, end |-> "stop", ball |-> ""]
     ELSE IF def.end = "diverge" \/ c[k + 1] > L THEN [items |-> sol \o <<ExcItem>>, end |-> "stop", ball |-> ""]
     ELSE IF def.end = "throw" THEN [items |-> sol, end |-> "ball", ball |-> def.ball]
     ELSE [items |-> sol, end |-> "stop", ball |-> ""]

Obs(run) == [items |-> run.items, end |-> run.end, ball |-> run.ball]

(* costs are nondecreasing; h is a lower bound on the cost of every solution after the previous one *)
(* (h = 0 in general; for a conjunction (A, H) with H a ground deterministic goal, h is the cost of  *)
(* H run alone: its inferences are made again for every solution and all count against the limit).  *)
CostOk(c, k, M, h) ==
  /\ \A i \in 1..k : c[i] >= Sat((IF i = 1 THEN 0 ELSE c[i - 1]) + h, M)
  /\ c[k + 1] >= (IF k = 0 THEN 0 ELSE c[k])

(* M: the largest limit that was run; the value M + 1 stands for every cost above it *)
Explained(def, runs, M, h) ==
  \E det \in Dets(def) : \E c \in [1..(K(def) + 1) -> 0..(M + 1)] :
      /\ CostOk(c, K(def), M, h)
      /\ \A j \in 1..Len(runs) : Predicted(def, c, det, runs[j].lim) = Obs(runs[j])

(* ---- the same predicate in a form TLC can evaluate for k = 12, M = 10^9 ----                      *)
(* (equivalence with Explained is model-checked on a small universe by MC_C40, Part = "law")          *)
HasExc(run) == Len(run.items) > 0 /\ run.items[Len(run.items)].r = EXC
Delivered(run) == IF HasExc(run) THEN Len(run.items) - 1 ELSE Len(run.items)

(* cost-independent conformance of one run *)
Shape(def, run) ==
  LET k == K(def)
      n == Delivered(run)
  IN /\ run.end \in {"stop", "ball"}
     /\ n <= k
     /\ \A i \in 1..n :
          LET it == run.items[i] IN
          /\ it.s = def.sols[i].s /\ it.r1 = def.sols[i].r1
          /\ it.r \in {"true", "!"}
          /\ it.r = "!" => (i = k /\ DetAllowed(def))
     /\ HasExc(run) => (run.items[n + 1] = ExcItem /\ run.end = "stop" /\ run.ball = "")
     /\ (n >= 1 /\ run.items[n].r = "!") => (~HasExc(run) /\ run.end = "stop")
     /\ run.end = "ball" => (n = k /\ def.end = "throw" /\ run.ball = def.ball)
     /\ (run.end = "stop" /\ ~HasExc(run)) => (n = k /\ def.end = "fail" /\ run.ball = "")

LastBang(run, k) == k >= 1 /\ Delivered(run) = k /\ run.items[k].r = "!"

(* what the search needs to know about a run: its limit, how many solutions it delivered, whether it was cut off *)
Info(runs) == [j \in 1..Len(runs) |-> [l |-> runs[j].lim, n |-> Delivered(runs[j]), x |-> HasExc(runs[j])]]

(* threshold i (i = k + 1: the final cost) has value x *)
Fits(k, info, det, i, x) ==
  IF i <= k
  THEN \A j \in 1..Len(info) : /\ i <= info[j].n => x <= info[j].l
                               /\ i = info[j].n + 1 => x > info[j].l
  ELSE IF det THEN TRUE
  ELSE \A j \in 1..Len(info) : info[j].n = k => IF info[j].x THEN x > info[j].l ELSE x <= info[j].l

(* candidate values of threshold i: the smallest value that fits is the lower bound inherited from the previous *)
(* threshold or the successor of a limit at which the run stopped just before solution i                         *)
Cands(info, i, lo) == {lo} \cup {info[j].l + 1 : j \in {j \in 1..Len(info) : info[j].n + 1 = i}}

RECURSIVE Search(_, _, _, _, _, _, _)
Search(k, info, M, h, det, i, prev) ==
  IF i = k + 2 THEN TRUE
  ELSE LET lo == IF i <= k THEN Sat(prev + h, M) ELSE prev
           S == {x \in Cands(info, i, lo) : x >= lo /\ Fits(k, info, det, i, x)}
       IN S # {} /\ Search(k, info, M, h, det, i + 1, MinOf(S))

FastExplained(def, runs, M, h) ==
  /\ \A j \in 1..Len(runs) : Shape(def, runs[j])
  /\ \E det \in Dets(def) :
       /\ \A j \in 1..Len(runs) : Delivered(runs[j]) = K(def) => (LastBang(runs[j], K(def)) <=> det)
       /\ Search(K(def), Info(runs), M, h, det, 1, 0)

(* two runs with the same limit and different outcomes (when the runs are sorted by limit it is enough to look *)
(* at neighbours)                                                                                            *)
NonDet(runs) ==
  IF \A j \in 1..(Len(runs) - 1) : runs[j].lim <= runs[j + 1].lim
  THEN \E j \in 1..(Len(runs) - 1) : runs[j].lim = runs[j + 1].lim /\ Obs(runs[j]) # Obs(runs[j + 1])
  ELSE \E i, j \in 1..Len(runs) : runs[i].lim = runs[j].lim /\ Obs(runs[i]) # Obs(runs[j])

(* ---- diagnosis of a goal's runs (the verdict "ok" is FastExplained) ---- *)
(* a run that follows the definition up to some solution and then reports the inner call as exceeded although *)
(* the inner call run alone still has a solution there: "the inner call behaves as when run alone" is violated   *)
InnerEarly(def, run) ==
  \E i \in 1..Len(run.items) :
     /\ i <= K(def) /\ run.items[i].r1 = EXC /\ def.sols[i].r1 # EXC /\ def.sols[i].r1 # "-"
     /\ \A p \in 1..(i - 1) : run.items[p].s = def.sols[p].s /\ run.items[p].r1 = def.sols[p].r1

Verdict(def, runs, M, h) ==
  IF \E j \in 1..Len(runs) : ~Shape(def, runs[j])
  THEN (IF \E j \in 1..Len(runs) : runs[j].end \in {"stop", "ball"} /\ InnerEarly(def, runs[j])
        THEN "shape_inner_early" ELSE "shape")
  ELSE IF NonDet(runs) THEN "nondet"
  ELSE IF ~FastExplained(def, runs, M, 0) THEN "nonmonotone"
  ELSE IF h > 0 /\ ~FastExplained(def, runs, M, h) THEN "count"
  ELSE "ok"

(* ---- goals built from an inference-limited call ----                                               *)
(* alone: the observed outcome of call_with_inference_limit(G, Li, R1) run by itself.  As a goal, this   *)
(* call has one solution per item (the exceeded item is a solution binding R1 only) and then fails or     *)
(* passes the ball on: "the inner call behaves as when run alone".                                       *)
NestDef(alone) ==
  [sols |-> [i \in 1..Len(alone.items) |->
               [s |-> IF alone.items[i].r = EXC THEN "" ELSE alone.items[i].s, r1 |-> alone.items[i].r]],
   end |-> IF alone.end = "ball" THEN "throw" ELSE "fail",
   ball |-> alone.ball]

(* (call_with_inference_limit(G, Li, R1), loop) with loop :- loop. *)
LoopDef(alone) ==
  IF Len(alone.items) > 0 THEN [sols |-> <<>>, end |-> "diverge", ball |-> ""]
  ELSE [sols |-> <<>>, end |-> IF alone.end = "ball" THEN "throw" ELSE "fail", ball |-> alone.ball]

(* lower bound on the cost of the first solution of a goal, from its own runs *)
FirstCostLB(runs) ==
  LET S == {runs[j].lim + 1 : j \in {j \in 1..Len(runs) : Delivered(runs[j]) = 0 /\ HasExc(runs[j])}}
  IN IF S = {} THEN 0 ELSE CHOOSE x \in S : \A y \in S : x >= y
==============================================================================
