------------------------------- MODULE MC_C28 -------------------------------
(* C28: embedded queries return faithful answers across a query history.                      *)
(* QueryIter: one machine serves a history of queries; each query's answer stream is consumed  *)
(* up to k answers and then dropped.  The i-th stream must be what the abstract machine        *)
(* (Prolog.tla) yields for that query on a machine that performed exactly the side effects of  *)
(* the consumed parts of the earlier queries (answers are produced lazily), whatever came      *)
(* before: exceptions, partially consumed or infinite generators, failed loads.                *)
EXTENDS Prolog, Json

CONSTANT Tier

X == V("X")  Y == V("Y")
T1(t) == C1("t", t)
Helpers == <<
  [h |-> T1(I(1)), b |-> True], [h |-> T1(I(2)), b |-> True], [h |-> T1(I(3)), b |-> True],
  [h |-> C1("nat", I(0)), b |-> True],
  [h |-> C1("nat", V("N")), b |-> Conj(C1("nat", V("M")), C2("is", V("N"), C2("+", V("M"), I(1))))]
>>

Queries == <<
  (* 1 *) True,
  (* 2 *) Eq(X, A("a")),
  (* 3 *) T1(X),
  (* 4 *) C1("nat", X),
  (* 5 *) Fail,
  (* 6 *) C1("throw", A("ball")),
  (* 7 *) C2("is", X, C2("+", A("foo"), I(1))),
  (* 8 *) Conj(T1(X), Ite(Eq(X, I(3)), C1("throw", C1("late", X)), True)),
  (* 9 *) Conj(T1(X), C1("assertz", C1("c", X))),
  (* 10 *) C3("findall", Y, C1("c", Y), X),
  (* 11 *) Eq(V("_"), A("a")),
  (* 12 *) Eq(X, C2(".", A("a"), A("b"))),
  (* 13 *) Eq(X, C2("f", Y, V("_Z"))),
  (* 14 *) Conj(Eq(X, C1("f", Y)), Disj(Eq(Y, I(1)), Eq(Y, I(2))))
>>
NQ == Len(Queries)
Takes == {0, 1, 2, 5}
Infinite == {4}
StepsOf == ({ [q |-> q, k |-> k] : q \in 1..NQ, k \in Takes } \ { [q |-> q, k |-> 5] : q \in Infinite })
          \cup { [q |-> 0, k |-> 0] }       \* q = 0: consult of a text with a syntax error (must leave the machine usable)
MaxLen == IF Tier = "quick" THEN 2 ELSE 3
Hists == UNION { [1..n -> StepsOf] : n \in 1..MaxLen }

VARIABLES hist, i, m, res, carry
vars == <<hist, i, m, res, carry>>
(* carry: the dynamic clauses (c/1) and next clause id surviving from earlier queries *)

Start(h, j, cr) ==
  IF h[j].q = 0 THEN [phase |-> "skip"]
  ELSE LET base == Load(Helpers, {<<"c", 1>>}, Queries[h[j].q])
       IN [base EXCEPT !.db = base.db \o cr.db, !.nid = cr.nid]

Init == /\ hist = <<>> /\ i = 0 /\ m = [phase |-> "gen"] /\ res = <<>> /\ carry = [db |-> <<>>, nid |-> 100]
Gen == /\ m.phase = "gen"
       /\ \E h \in Hists : hist' = h /\ i' = 1 /\ m' = Start(h, 1, carry)
       /\ UNCHANGED <<res, carry>>

Finished == m.phase \in {"done", "skip"} \/ (m.phase = "run" /\ Len(m.ans) >= hist[i].k)
Outcome == IF m.phase = "skip" THEN [ans |-> <<>>, status |-> "skip", ball |-> None, qv |-> <<>>]
           ELSE [ans |-> m.ans, status |-> (IF m.phase = "done" THEN m.status ELSE "open"), ball |-> m.ball, qv |-> m.qv]
Dyn(mm) == IF mm.phase = "skip" THEN carry
           ELSE [db |-> SelectSeq(mm.db, LAMBDA c : c.h.n = "c" /\ ~c.dead), nid |-> mm.nid]

Advance == /\ i >= 1 /\ i <= Len(hist) /\ m.phase # "gen" /\ Finished
           /\ res' = Append(res, Outcome)
           /\ carry' = Dyn(m)
           /\ IF i < Len(hist) THEN i' = i + 1 /\ m' = Start(hist, i + 1, Dyn(m))
              ELSE i' = i + 1 /\ m' = [phase |-> "end"]
           /\ UNCHANGED hist
Run1 == /\ i >= 1 /\ i <= Len(hist) /\ m.phase = "run" /\ ~Finished
        /\ m' = Step(m) /\ UNCHANGED <<hist, i, res, carry>>
Next == Gen \/ Advance \/ Run1

Inv == (m.phase = "run") => MachineOk(m)
Emit == m.phase = "end" => PrintT(ToJson([hist |-> hist, res |-> res]))
=============================================================================
