CONSTANT Tier = "thorough"
INIT Init
NEXT Next
INVARIANT Refines
INVARIANT PutBackExact
INVARIANT Emit
