CONSTANTS Tier = "thorough" K = 3
INIT Init
NEXT Next
INVARIANT Sane
INVARIANT Emit
