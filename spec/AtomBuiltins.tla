---------------------------- MODULE AtomBuiltins ----------------------------
(* Layer A for C22: the atom and character builtins of ISO/IEC 13211-1 8.16 as functions on texts  *)
(* (sequences of code points, module Text).                                                         *)
(*                                                                                                  *)
(* Every builtin is an operator from the tuple of argument terms of a call to a record              *)
(*    [req  : set of errors,   -- errors of the error conditions of ISO 8.16.x.3 that hold          *)
(*     opt  : set of errors,   -- errors of conditions that hold only in the Cor.3 wording (below)  *)
(*     sols : sequence of argument tuples, one per solution, in the order of ISO 8.16.x.1]          *)
(* Meaning (ISO 7.12: "when more than one error condition is satisfied, the error that is reported  *)
(* is implementation dependent"):                                                                   *)
(*    req # {}            the call must raise one of req \cup opt;                                  *)
(*    req = {}, opt # {}  the call either raises one of opt or behaves as sols;                     *)
(*    both empty          the call yields exactly the solutions sols, in this order, then fails.    *)
(*                                                                                                  *)
(* Cor.3 note. ISO 13211-1:1995 8.16.4.3/8.16.5.3 guard the list conditions of atom_chars/2 and     *)
(* atom_codes/2 by "Atom is a variable and ..."; Technical Corrigendum 3 (2017) drops the guard     *)
(* (type_error(list, L) and type_error(character, E) are raised whatever Atom is) and splits the    *)
(* code-list element condition into type_error(integer, E) (E not an integer) and                   *)
(* representation_error(character_code) (E an integer that is no character code).  Both readings    *)
(* are accepted: the 1995 conditions are in req, the additional Cor.3 ones in opt.                  *)
EXTENDS Text

(* ---------------------------------------------------------------------------------------------- *)
(* argument terms: one uniform record shape so that equality is total                              *)
(*   k = "var"   an unbound variable (all variables of one call are distinct)                       *)
(*       "atom"  the atom with text cp                                                              *)
(*       "int"   the integer i          "big"  the integer i * 2^70  (i is 1 or -1)                 *)
(*       "flt"   the float 1.5          "cmp"  the compound term f(a)                               *)
(*       "list"  elements xs, tail tl: "nil" = [], "var" = unbound variable (partial list),         *)
(*               "bad" = the atom b (neither list nor partial list)                                 *)
(* ---------------------------------------------------------------------------------------------- *)
Tm(k, cp, i, xs, tl) == [k |-> k, cp |-> cp, i |-> i, xs |-> xs, tl |-> tl]
Var          == Tm("var", <<>>, 0, <<>>, "")
Atom(cp)     == Tm("atom", cp, 0, <<>>, "")
Num(n)       == Tm("int", <<>>, n, <<>>, "")
Big(s)       == Tm("big", <<>>, s, <<>>, "")
Flt          == Tm("flt", <<>>, 0, <<>>, "")
Cmp          == Tm("cmp", <<>>, 0, <<>>, "")
List(xs, tl) == Tm("list", <<>>, 0, xs, tl)

IsVar(t)     == t.k = "var"
IsAtom(t)    == t.k = "atom"
IsInt(t)     == t.k \in {"int", "big"}
IsNegInt(t)  == IsInt(t) /\ t.i < 0
IsCharAtom(t) == t.k = "atom" /\ Len(t.cp) = 1
IsCodeInt(t) == t.k = "int" /\ IsCharCode(t.i)

IsProperList(t)  == t.k = "list" /\ t.tl = "nil"
IsPartialList(t) == t.k = "var" \/ (t.k = "list" /\ t.tl = "var")
Elements(t)      == IF t.k = "list" THEN t.xs ELSE <<>>

(* errors, uniform shape [e, ty, c] *)
Err(e, ty, c)    == [e |-> e, ty |-> ty, c |-> c]
InstErr          == Err("instantiation_error", "", Var)
TypeErr(ty, c)   == Err("type_error", ty, c)
DomErr(c)        == Err("domain_error", "not_less_than_zero", c)
ReprErr          == Err("representation_error", "character_code", Var)

Res(req, opt, sols) == [req |-> req, opt |-> opt, sols |-> sols]
When(cond, errs) == IF cond THEN errs ELSE {}

ArgIsAtom(t, cp) == t.k = "var" \/ (t.k = "atom" /\ t.cp = cp)
ArgIsInt(t, n)   == t.k = "var" \/ (t.k = "int" /\ t.i = n)

(* ---------------------------------------------------------------------------------------------- *)
(* 8.16.1 atom_length(Atom, Length)                                                                *)
(* ---------------------------------------------------------------------------------------------- *)
AtomLength(A, L) ==
  LET req == When(IsVar(A), {InstErr})                                       \* a
        \cup When(~IsVar(A) /\ ~IsAtom(A), {TypeErr("atom", A)})             \* b
        \cup When(~IsVar(L) /\ ~IsInt(L), {TypeErr("integer", L)})           \* c
        \cup When(IsNegInt(L), {DomErr(L)})                                  \* d
      n == Len(A.cp)
  IN Res(req, {}, IF IsAtom(A) /\ ArgIsInt(L, n) THEN << <<A, Num(n)>> >> ELSE <<>>)

(* ---------------------------------------------------------------------------------------------- *)
(* 8.16.4 atom_chars(Atom, List) and 8.16.5 atom_codes(Atom, List); mode = "chars" | "codes"       *)
(* ---------------------------------------------------------------------------------------------- *)
ElemOf(mode, c) == IF mode = "chars" THEN Atom(<<c>>) ELSE Num(c)
ElemValid(mode, e) == IF mode = "chars" THEN IsCharAtom(e) ELSE IsCodeInt(e)
ElemCode(mode, e) == IF mode = "chars" THEN e.cp[1] ELSE e.i
ElemErrs(mode, e) ==            \* e is neither a variable nor a valid element
  IF mode = "chars" THEN {TypeErr("character", e)}
  ELSE IF IsInt(e) THEN {ReprErr}
  ELSE {ReprErr, TypeErr("integer", e)}     \* 1995: representation_error; Cor.3: type_error(integer, E)

ListOf(mode, cp) == List([j \in 1..Len(cp) |-> ElemOf(mode, cp[j])], "nil")

(* unification of the list pattern L (distinct variables) with the ground proper list full *)
MatchList(L, full) ==
  CASE L.k = "var"  -> TRUE
    [] L.k = "list" ->
         /\ L.tl # "bad"
         /\ (L.tl = "nil" => Len(L.xs) = Len(full))
         /\ Len(L.xs) <= Len(full)
         /\ \A j \in 1..Len(L.xs) : L.xs[j].k = "var" \/ L.xs[j] = full[j]
    [] OTHER -> FALSE

AtomText(mode, A, L) ==
  LET els     == Elements(L)
      idx     == 1..Len(els)
      hasVar  == \E j \in idx : IsVar(els[j])
      bad     == {els[j] : j \in {q \in idx : ~IsVar(els[q]) /\ ~ElemValid(mode, els[q])}}
      elErrs  == UNION {ElemErrs(mode, e) : e \in bad}
      partial == IsPartialList(L)
      proper  == IsProperList(L)
      req == When(IsVar(A) /\ (partial \/ (proper /\ hasVar)), {InstErr})                   \* a
        \cup When(~IsVar(A) /\ ~IsAtom(A), {TypeErr("atom", A)})                            \* b
        \cup When(IsVar(A) /\ ~partial /\ ~proper, {TypeErr("list", L)})                    \* c
        \cup When(IsVar(A) /\ proper, elErrs)                                               \* d
      opt == When(~partial /\ ~proper, {TypeErr("list", L)}) \cup elErrs                    \* Cor.3
      sols ==
        IF IsAtom(A) THEN
          LET full == ListOf(mode, A.cp) IN
          IF MatchList(L, full.xs) THEN << <<A, full>> >> ELSE <<>>
        ELSE IF IsVar(A) /\ proper /\ bad = {} /\ ~hasVar THEN
          << <<Atom([j \in idx |-> ElemCode(mode, els[j])]), L>> >>
        ELSE <<>>
  IN Res(req, opt, sols)

AtomChars(A, L) == AtomText("chars", A, L)
AtomCodes(A, L) == AtomText("codes", A, L)

(* ---------------------------------------------------------------------------------------------- *)
(* 8.16.6 char_code(Char, Code)                                                                    *)
(* ---------------------------------------------------------------------------------------------- *)
CharCode(C, N) ==
  LET req == When(IsVar(C) /\ IsVar(N), {InstErr})                                          \* a
        \cup When(~IsVar(C) /\ ~IsCharAtom(C), {TypeErr("character", C)})                   \* b
        \cup When(~IsVar(N) /\ ~IsInt(N), {TypeErr("integer", N)})                          \* c
        \cup When(~IsVar(N) /\ ~IsCodeInt(N), {ReprErr})                                    \* d
      sols == IF IsCharAtom(C) THEN
                (IF ArgIsInt(N, C.cp[1]) THEN << <<C, Num(C.cp[1])>> >> ELSE <<>>)
              ELSE IF IsVar(C) /\ IsCodeInt(N) THEN << <<Atom(<<N.i>>), N>> >>
              ELSE <<>>
  IN Res(req, {}, sols)

(* ---------------------------------------------------------------------------------------------- *)
(* 8.16.2 atom_concat(Atom_1, Atom_2, Atom_12): "re-executable: the solutions are found in the     *)
(* order of increasing length of Atom_1" -- all splits of Atom_12, left to right                    *)
(* ---------------------------------------------------------------------------------------------- *)
Splits(x) == [k \in 1..(Len(x) + 1) |-> <<Prefix(x, k - 1), Suffix(x, k - 1)>>]

AtomConcat(A1, A2, A12) ==
  LET req == When(IsVar(A1) /\ IsVar(A12), {InstErr})                                       \* a
        \cup When(IsVar(A2) /\ IsVar(A12), {InstErr})                                       \* b
        \cup When(~IsVar(A1) /\ ~IsAtom(A1), {TypeErr("atom", A1)})                         \* c
        \cup When(~IsVar(A2) /\ ~IsAtom(A2), {TypeErr("atom", A2)})                         \* d
        \cup When(~IsVar(A12) /\ ~IsAtom(A12), {TypeErr("atom", A12)})                      \* e
      sols ==
        IF IsAtom(A12) THEN
          LET sel == SelectSeq(Splits(A12.cp), LAMBDA ps : ArgIsAtom(A1, ps[1]) /\ ArgIsAtom(A2, ps[2]))
          IN [j \in 1..Len(sel) |-> <<Atom(sel[j][1]), Atom(sel[j][2]), A12>>]
        ELSE IF IsAtom(A1) /\ IsAtom(A2) /\ IsVar(A12) THEN << <<A1, A2, Atom(A1.cp \o A2.cp)>> >>
        ELSE <<>>
  IN Res(req, {}, sols)

(* ---------------------------------------------------------------------------------------------- *)
(* 8.16.3 sub_atom(Atom, Before, Length, After, Sub_atom): re-executable; the order of solutions   *)
(* is Before ascending, then Length ascending (8.16.3.4 examples)                                   *)
(* ---------------------------------------------------------------------------------------------- *)
RECURSIVE BLPairs(_, _, _)
BLPairs(n, b, l) == IF b > n THEN <<>>
                    ELSE IF l > n - b THEN BLPairs(n, b + 1, 0)
                    ELSE << <<b, l>> >> \o BLPairs(n, b, l + 1)

SubAtom(A, B, L, Af, S) ==
  LET intErr(t) == When(~IsVar(t) /\ ~IsInt(t), {TypeErr("integer", t)}) \cup When(IsNegInt(t), {DomErr(t)})
      req == When(IsVar(A), {InstErr})                                                      \* a
        \cup When(~IsVar(A) /\ ~IsAtom(A), {TypeErr("atom", A)})                            \* b
        \cup When(~IsVar(S) /\ ~IsAtom(S), {TypeErr("atom", S)})                            \* c
        \cup intErr(B) \cup intErr(L) \cup intErr(Af)                                       \* d..i
      sols ==
        IF IsAtom(A) THEN
          LET x == A.cp  n == Len(x)
              sel == SelectSeq(BLPairs(n, 0, 0),
                               LAMBDA bl : /\ ArgIsInt(B, bl[1]) /\ ArgIsInt(L, bl[2])
                                           /\ ArgIsInt(Af, n - bl[1] - bl[2])
                                           /\ ArgIsAtom(S, Sub(x, bl[1], bl[2])))
          IN [j \in 1..Len(sel) |-> <<A, Num(sel[j][1]), Num(sel[j][2]), Num(n - sel[j][1] - sel[j][2]),
                                      Atom(Sub(x, sel[j][1], sel[j][2]))>>]
        ELSE <<>>
  IN Res(req, {}, sols)

(* "At least one of the arguments must be ground" (doc comment of char_type/2): with both unbound   *)
(* the call raises an instantiation error; a Char that is neither a variable nor a character is a   *)
(* type_error(character, Char) as for char_code/2.                                                  *)
CharTypeErrors(C, Ty) ==
  Res(When(IsVar(C) /\ IsVar(Ty), {InstErr}) \cup When(~IsVar(C) /\ ~IsCharAtom(C), {TypeErr("character", C)}), {}, <<>>)

(* ---------------------------------------------------------------------------------------------- *)
(* dispatcher                                                                                       *)
(* ---------------------------------------------------------------------------------------------- *)
Call(b, a) ==
  CASE b = "atom_length" -> AtomLength(a[1], a[2])
    [] b = "atom_chars"  -> AtomChars(a[1], a[2])
    [] b = "atom_codes"  -> AtomCodes(a[1], a[2])
    [] b = "char_code"   -> CharCode(a[1], a[2])
    [] b = "atom_concat" -> AtomConcat(a[1], a[2], a[3])
    [] b = "sub_atom"    -> SubAtom(a[1], a[2], a[3], a[4], a[5])
    [] b = "char_type_err" -> CharTypeErrors(a[1], a[2])

(* ---------------------------------------------------------------------------------------------- *)
(* char_type/2 of library(charsio), documented: "Type is one of the categories that Char fits in", *)
(* "upper(Upper)/lower(Lower) ... use a string because some characters do not map 1:1" with the     *)
(* example char_type(a, Type) yielding lower("a") and upper("A"): lower(L) relates Char to its      *)
(* lowercase mapping, upper(U) to its uppercase mapping.  Only categories with an implementation-   *)
(* independent definition are specified (Text!Categories); the others (alnum, alpha, layout,        *)
(* prolog, symbolic_control) are defined by the implementation only and are not asserted.           *)
(* ---------------------------------------------------------------------------------------------- *)
CharCats(c)  == SelectSeq(Categories, LAMBDA cat : HasCategory(c, cat))
CharUpper(c) == CharInfo(c).up
CharLower(c) == CharInfo(c).lo
=============================================================================
