------------------------------ MODULE Herbrand ------------------------------
(* First-order terms over a small signature, substitutions, syntactic unification with   *)
(* occurs check, and ground instances over a finite universe.  Value layer shared by    *)
(* CoRoutines (C26) and Reif (C54).                                                      *)
(*                                                                                       *)
(* Terms are uniform records [t, n, a]:  t = "v" variable (n = name, a = <<>>),          *)
(*                                        t = "a" atom     (n = name, a = <<>>),          *)
(*                                        t = "c" compound (n = functor, a = arguments).  *)
(* The JSON image of such a record is what lib/terms.py calls a "TLA term".              *)
EXTENDS Naturals, Sequences, FiniteSets

Var(n)     == [t |-> "v", n |-> n, a |-> <<>>]
Atom(n)    == [t |-> "a", n |-> n, a |-> <<>>]
Cmp(n, as) == [t |-> "c", n |-> n, a |-> as]

IsVar(x) == x.t = "v"

Nil == Atom("[]")
RECURSIVE MkList(_)
MkList(xs) == IF xs = <<>> THEN Nil ELSE Cmp(".", <<Head(xs), MkList(Tail(xs))>>)

RECURSIVE VarsOf(_)
VarsOf(x) ==
  IF x.t = "v" THEN {x.n}
  ELSE IF x.t = "a" THEN {}
  ELSE UNION {VarsOf(x.a[i]) : i \in DOMAIN x.a}

IsGround(x) == VarsOf(x) = {}

(* A substitution is a function from a set of variable names to terms; an unbound       *)
(* variable is mapped to itself. Variables outside the domain are left alone.           *)
RECURSIVE App(_, _)
App(s, x) ==
  IF x.t = "v" THEN (IF x.n \in DOMAIN s THEN s[x.n] ELSE x)
  ELSE IF x.t = "a" THEN x
  ELSE [x EXCEPT !.a = [i \in DOMAIN x.a |-> App(s, x.a[i])]]

IdSubst(V) == [v \in V |-> Var(v)]

(* replace variable v by the term t in every binding of the (idempotent) substitution s *)
Bind(s, v, t) == LET one == [w \in {v} |-> t] IN [w \in DOMAIN s |-> App(one, s[w])]

(* Solve a sequence of equations <<l, r>> on top of the idempotent substitution s.      *)
(* Result: [s, fail, cyc]; fail = a functor clash was met, cyc = the occurs check fired.*)
(* An equation that clashes or fails the occurs check is skipped so that both flags are *)
(* independent of the order in which the equations are listed.                          *)
RECURSIVE Solve(_, _, _, _)
Solve(s, eqs, fail, cyc) ==
  IF eqs = <<>> THEN [s |-> s, fail |-> fail, cyc |-> cyc]
  ELSE LET x == App(s, eqs[1][1])
           y == App(s, eqs[1][2])
           rest == Tail(eqs)
       IN IF x = y THEN Solve(s, rest, fail, cyc)
          ELSE IF x.t = "v" THEN
                 (IF x.n \in VarsOf(y) THEN Solve(s, rest, fail, TRUE)
                  ELSE Solve(Bind(s, x.n, y), rest, fail, cyc))
          ELSE IF y.t = "v" THEN
                 (IF y.n \in VarsOf(x) THEN Solve(s, rest, fail, TRUE)
                  ELSE Solve(Bind(s, y.n, x), rest, fail, cyc))
          ELSE IF x.t = "c" /\ y.t = "c" /\ x.n = y.n /\ Len(x.a) = Len(y.a) THEN
                 Solve(s, [i \in 1..Len(x.a) |-> <<x.a[i], y.a[i]>>] \o rest, fail, cyc)
          ELSE Solve(s, rest, TRUE, cyc)

Mgu(s, eqs) == Solve(s, eqs, FALSE, FALSE)

(* finite-tree unifiability of l and r under s (occurs-check failure = not unifiable)   *)
Unifiable(s, l, r) == LET m == Mgu(s, <<<<l, r>>>>) IN ~m.fail /\ ~m.cyc
Identical(s, l, r) == App(s, l) = App(s, r)

(* two idempotent substitutions over the same variables denote the same solved form     *)
(* (each is an instance of the other, i.e. they differ by a renaming of variables)      *)
Equiv(s1, s2) ==
  /\ DOMAIN s1 = DOMAIN s2
  /\ \A v \in DOMAIN s1 : App(s1, s2[v]) = s1[v] /\ App(s2, s1[v]) = s2[v]

Idempotent(s) == \A v \in DOMAIN s : App(s, s[v]) = s[v]

(* all groundings of the variables V over the universe U *)
Groundings(V, U) == [V -> U]
=============================================================================
