------------------------------- MODULE MC_C26 -------------------------------
(* C26 model: enumerates scenarios (multisets of <= MaxLen steps from a catalogue), runs  *)
(* the incremental store of CoRoutines over EVERY processing order and checks that each   *)
(* intermediate store is the order-independent solved form of the steps processed so far  *)
(* (confluence), checks the layer-A sanity theorems, and prints one JSON vector per       *)
(* scenario: the goals to post and, for every subset D of the steps, the solved form of D *)
(* (the driver looks up the prefixes of each permutation in this table).                  *)
EXTENDS CoRoutines, Json

CONSTANT Tier   \* "quick" | "thorough"

UQuick    == <<A, B, F1(A)>>
UThorough == <<A, B, F1(A), F1(B)>>

CatQuick == <<
  SDif(VX, VY), SDif(VX, A), SDif(F2(VX, VY), F2(A, B)), SDif(VX, F1(VY)),
  SFreeze(VX),
  SWhen(CGround(Cmp("+", <<VX, VY>>))),
  SWhen(COr(CNonvar(VX), CNonvar(VY))),
  SUnif(VX, A), SUnif(VX, VY), SUnif(VY, B), SUnif(VX, F1(VY)), SUnif(VY, F1(VZ)) >>

CatMore == <<
  SFreeze(VY),
  SWhen(CAnd(CNonvar(VX), CNonvar(VY))),
  SDif(VY, VZ), SDif(VY, B), SDif(F1(VX), F1(VY)),
  SFreeze(VZ),
  SWhen(CNonvar(VY)),
  SWhen(CGround(VY)),
  SWhen(COr(CGround(VX), CAnd(CNonvar(VY), CNonvar(VZ)))),
  SUnif(VY, A), SUnif(VZ, A), SUnif(VZ, VX), SUnif(VX, F1(B)) >>

Catalogue == IF Tier = "quick" THEN CatQuick ELSE CatQuick \o CatMore
MaxLen == 4
NC == Len(Catalogue)

VARIABLES phase, q, done, store
vars == <<phase, q, done, store>>

Scen(qq) == [i \in 1..Len(qq) |-> Catalogue[qq[i]]]
S == Scen(q)

NonDecr(qq) == \A i \in 1..(Len(qq) - 1) : qq[i] <= qq[i + 1]
Seqs(n) == [1..n -> 1..NC]

(* one cheap initial state per first step; its successors are the scenarios starting with it *)
Init ==
  /\ phase = "pick" /\ q \in {<<c>> : c \in 1..NC} /\ done = {} /\ store = EmptyStore(<<>>)

Next ==
  \/ /\ phase = "pick" /\ phase' = "run"
     /\ \E n \in 1..MaxLen : \E qq \in Seqs(n) :
          /\ qq[1] = q[1] /\ NonDecr(qq) /\ ~NeedsOccursCheck(Scen(qq))
          /\ q' = qq
     /\ done' = {} /\ store' = EmptyStore(Scen(q'))
  \/ /\ phase = "run" /\ UNCHANGED <<phase, q>>
     /\ \E i \in Idx(S) \ done : done' = done \cup {i} /\ store' = Post(store, S, i)

(* ---- what TLC decides about the specification itself ---- *)
Confluence == phase = "run" => StoreIsSolved(store, S, done)
LayerASound == (phase = "run" /\ done = {}) => \A D \in SUBSET Idx(S) : SolvedSound(S, D)

(* ---- vectors ---- *)
Entry(D) ==
  LET sol == Solved(S, D) IN
  [d |-> D, sat |-> sol.sat, ran |-> sol.ran, susp |-> sol.susp, pend |-> sol.pend, cv |-> SuspVars(S, D),
   sigma |-> <<sol.s["X"], sol.s["Y"], sol.s["Z"]>>]

Emit ==
  (phase = "run" /\ done = {}) =>
  PrintT(ToJson([q     |-> q, u |-> Useq,
                 goals |-> [i \in Idx(S) |-> GoalTerm(S[i], i)],
                 kinds |-> [i \in Idx(S) |-> S[i].k],
                 vars  |-> ScenVars(S),
                 table |-> {Entry(D) : D \in SUBSET Idx(S)},
                 sols  |-> {Code(g) : g \in Sols(S, Idx(S))}]))
=============================================================================
