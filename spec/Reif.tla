-------------------------------- MODULE Reif --------------------------------
(* C54: reified conditionals are declaratively sound.                                    *)
(*                                                                                       *)
(* Declarative meaning of library(reif) goals as SETS OF GROUND INSTANCES over a finite  *)
(* universe U. The reference is the explicit disjunction the property names:             *)
(*     if_(C, Then, Else)   ==   ( C+ , Then ; C- , Else )                               *)
(* where C+ / C- are the positive and the negative reading of the condition written with *)
(* =/2 and dif/2 only (Pos / Neg below, transcribed from the clauses of reif.pl read as  *)
(* such disjunctions):                                                                   *)
(*   =(X,Y,T)        : T=true, X=Y ; T=false, dif(X,Y)                                   *)
(*   dif(X,Y,T)      : the complement                                                    *)
(*   ','(A,B,T)      : if_(A, call(B,T), T=false)                                        *)
(*   ';'(A,B,T)      : if_(A, T=true, call(B,T))                                         *)
(*   memberd_t(E,[],false).  memberd_t(E,[X|Xs],T) : if_(X=E, T=true, memberd_t(E,Xs,T)) *)
(*   tfilter(C,[],[]).  tfilter(C,[E|Es],Fs0) : if_(call(C,E), Fs0=[E|Fs], Fs0=Fs), tfilter(C,Es,Fs) *)
(*   tpartition/4 likewise with two output lists                                         *)
(*   tmember(P,[X|Xs]) : if_(call(P,X), true, tmember(P,Xs))                             *)
(* TLC checks (MC_C54) that Pos and Neg are complementary on ground instances, so the    *)
(* disjunction is exclusive and exhaustive.                                              *)
(* Terms are finite trees: queries in which some unification would need the occurs check *)
(* (X = f(X)) are outside the model; MC_C54 does not generate them.                      *)
EXTENDS Herbrand, Integers, TLC

CONSTANT Useq                                     \* the universe: a sequence of ground terms
U == {Useq[i] : i \in DOMAIN Useq}

VX == Var("X")
VY == Var("Y")
VR == Var("R")
VT == Var("T")
VFs == Var("Fs")
VTs == Var("Ts")
A == Atom("a")
B == Atom("b")
F1(x) == Cmp("f", <<x>>)
True  == Atom("true")
False == Atom("false")
Th == Atom("th")                                  \* the Then branch is R = th
El == Atom("el")                                  \* the Else branch is R = el

(* ---- conditions: uniform records [k, ts, cs] ---- *)
CEq(l, r)    == [k |-> "eq",   ts |-> <<l, r>>,  cs |-> <<>>]
CDif(l, r)   == [k |-> "dif",  ts |-> <<l, r>>,  cs |-> <<>>]
CMem(e, xs)  == [k |-> "memd", ts |-> <<e>> \o xs, cs |-> <<>>]     \* memberd_t(e, xs)
CAnd(c1, c2) == [k |-> "and",  ts |-> <<>>,      cs |-> <<c1, c2>>]
COr(c1, c2)  == [k |-> "or",   ts |-> <<>>,      cs |-> <<c1, c2>>]

(* positive and negative reading under a ground assignment g, with = and dif only *)
RECURSIVE Pos(_, _), Neg(_, _), MemPos(_, _, _), MemNeg(_, _, _)
MemPos(e, xs, g) ==
  IF xs = <<>> THEN FALSE
  ELSE \/ App(g, Head(xs)) = App(g, e)
       \/ App(g, Head(xs)) # App(g, e) /\ MemPos(e, Tail(xs), g)
MemNeg(e, xs, g) ==
  IF xs = <<>> THEN TRUE
  ELSE App(g, Head(xs)) # App(g, e) /\ MemNeg(e, Tail(xs), g)
Pos(c, g) ==
  CASE c.k = "eq"   -> App(g, c.ts[1]) = App(g, c.ts[2])
    [] c.k = "dif"  -> App(g, c.ts[1]) # App(g, c.ts[2])
    [] c.k = "memd" -> MemPos(c.ts[1], Tail(c.ts), g)
    [] c.k = "and"  -> Pos(c.cs[1], g) /\ Pos(c.cs[2], g)
    [] c.k = "or"   -> Pos(c.cs[1], g) \/ (Neg(c.cs[1], g) /\ Pos(c.cs[2], g))
Neg(c, g) ==
  CASE c.k = "eq"   -> App(g, c.ts[1]) # App(g, c.ts[2])
    [] c.k = "dif"  -> App(g, c.ts[1]) = App(g, c.ts[2])
    [] c.k = "memd" -> MemNeg(c.ts[1], Tail(c.ts), g)
    [] c.k = "and"  -> Neg(c.cs[1], g) \/ (Pos(c.cs[1], g) /\ Neg(c.cs[2], g))
    [] c.k = "or"   -> Neg(c.cs[1], g) /\ Neg(c.cs[2], g)

RECURSIVE CondTerm(_)
CondTerm(c) ==
  CASE c.k = "eq"   -> Cmp("=", c.ts)
    [] c.k = "dif"  -> Cmp("dif", c.ts)
    [] c.k = "memd" -> Cmp("memberd_t", <<c.ts[1], MkList(Tail(c.ts))>>)
    [] c.k = "and"  -> Cmp(",", <<CondTerm(c.cs[1]), CondTerm(c.cs[2])>>)
    [] c.k = "or"   -> Cmp(";", <<CondTerm(c.cs[1]), CondTerm(c.cs[2])>>)

(* the pairs of terms a condition compares (for the occurs-check admission test) *)
RECURSIVE CondPairs(_)
CondPairs(c) ==
  CASE c.k \in {"eq", "dif"} -> {<<c.ts[1], c.ts[2]>>}
    [] c.k = "memd"          -> {<<c.ts[1], c.ts[i]>> : i \in 2..Len(c.ts)}
    [] OTHER                 -> CondPairs(c.cs[1]) \cup CondPairs(c.cs[2])

(* ---- queries: uniform records [k, c, p, e, xs, pre] ----                              *)
(*  k = "if"         if_(c, R = th, R = el)                                              *)
(*  k = "cond"       call(c, T), written memberd_t(E, Xs, T) when c is a memberd_t condition *)
(*  k = "tfilter"    tfilter(P, xs, Fs)        P = =(e) when p = "eq", dif(e) when "dif" *)
(*  k = "tpartition" tpartition(P, xs, Ts, Fs)                                           *)
(*  k = "tmember"    tmember(P, xs)                                                      *)
(*  pre: equations posted BEFORE the goal (the instantiation pattern of its arguments)   *)
NoC == CEq(A, A)
QIf(c, pre)            == [k |-> "if",   c |-> c,   p |-> "-", e |-> A, xs |-> <<>>, pre |-> pre]
QCond(c, pre)          == [k |-> "cond", c |-> c,   p |-> "-", e |-> A, xs |-> <<>>, pre |-> pre]
QList(k, p, e, xs, pre) == [k |-> k,     c |-> NoC, p |-> p,   e |-> e, xs |-> xs,   pre |-> pre]

PCond(q, x) == IF q.p = "eq" THEN CEq(q.e, x) ELSE CDif(q.e, x)     \* call(P, x, T)
PTerm(q) == Cmp(IF q.p = "eq" THEN "=" ELSE "dif", <<q.e>>)

GoalTerm(q) ==
  CASE q.k = "if"         -> Cmp("if_", <<CondTerm(q.c), Cmp("=", <<VR, Th>>), Cmp("=", <<VR, El>>)>>)
    [] q.k = "cond"       -> IF q.c.k = "memd" THEN Cmp("memberd_t", <<q.c.ts[1], MkList(Tail(q.c.ts)), VT>>)
                             ELSE Cmp("call", <<CondTerm(q.c), VT>>)
    [] q.k = "tfilter"    -> Cmp("tfilter", <<PTerm(q), MkList(q.xs), VFs>>)
    [] q.k = "tpartition" -> Cmp("tpartition", <<PTerm(q), MkList(q.xs), VTs, VFs>>)
    [] q.k = "tmember"    -> Cmp("tmember", <<PTerm(q), MkList(q.xs)>>)
PreTerms(q) == [i \in DOMAIN q.pre |-> Cmp("=", <<q.pre[i][1], q.pre[i][2]>>)]

OutVars(q) ==
  CASE q.k = "if"         -> <<"R">>
    [] q.k = "cond"       -> <<"T">>
    [] q.k = "tfilter"    -> <<"Fs">>
    [] q.k = "tpartition" -> <<"Ts", "Fs">>
    [] q.k = "tmember"    -> <<>>
AllVarsOf(q) ==
  VarsOf(GoalTerm(q)) \cup UNION {VarsOf(q.pre[i][1]) \cup VarsOf(q.pre[i][2]) : i \in DOMAIN q.pre}
InVars(q)  == SelectSeq(<<"X", "Y">>, LAMBDA v : v \in AllVarsOf(q))
VarSeq(q)  == InVars(q) \o OutVars(q)
Range(s)   == {s[i] : i \in DOMAIN s}

(* all pairs of terms the query may try to unify: used only to keep queries that would   *)
(* need the occurs check out of the model                                                *)
RECURSIVE ListElems(_)
ListElems(t) == IF t.t = "c" /\ t.n = "." THEN {t.a[1]} \cup ListElems(t.a[2]) ELSE {}
QueryPairs(q) ==
  LET listp == {<<q.e, q.xs[i]>> : i \in DOMAIN q.xs}
      prep  == {<<q.pre[i][1], q.pre[i][2]>> : i \in DOMAIN q.pre}
      (* elements of a pre-bound output list meet the elements of the input list *)
      outp  == UNION {{<<el, q.xs[j]>> : el \in ListElems(q.pre[i][2]), j \in DOMAIN q.xs} : i \in DOMAIN q.pre}
  IN prep \cup (IF q.k \in {"if", "cond"} THEN CondPairs(q.c) ELSE listp \cup outp)
SetToSeq(S) == LET RECURSIVE Go(_)
                   Go(R) == IF R = {} THEN <<>> ELSE LET x == CHOOSE y \in R : TRUE IN <<x>> \o Go(R \ {x})
               IN Go(S)
NeedsOccursCheck(q) ==
  \E D \in SUBSET QueryPairs(q) : Mgu(IdSubst({"X", "Y", "R", "T", "Fs", "Ts"}), SetToSeq(D)).cyc

(* ---- the meaning ---- *)
(* ground output lists of tfilter / tpartition as RELATIONS read off the disjunction     *)
RECURSIVE Filter(_, _, _), Partition(_, _, _), TMember(_, _, _)
Filter(q, xs, g) ==                  \* set of sequences of ground terms
  IF xs = <<>> THEN {<<>>}
  ELSE LET x == Head(xs)  rest == Filter(q, Tail(xs), g) IN
       (IF Pos(PCond(q, x), g) THEN {<<App(g, x)>> \o r : r \in rest} ELSE {})
       \cup (IF Neg(PCond(q, x), g) THEN rest ELSE {})
Partition(q, xs, g) ==               \* set of pairs <<true list, false list>>
  IF xs = <<>> THEN {<<<<>>, <<>>>>}
  ELSE LET x == Head(xs)  rest == Partition(q, Tail(xs), g) IN
       (IF Pos(PCond(q, x), g) THEN {<<<<App(g, x)>> \o r[1], r[2]>> : r \in rest} ELSE {})
       \cup (IF Neg(PCond(q, x), g) THEN {<<r[1], <<App(g, x)>> \o r[2]>> : r \in rest} ELSE {})
TMember(q, xs, g) ==
  IF xs = <<>> THEN FALSE
  ELSE Pos(PCond(q, Head(xs)), g) \/ (Neg(PCond(q, Head(xs)), g) /\ TMember(q, Tail(xs), g))

NoOut == [v \in {} |-> A]
Outs(q, g) ==                        \* set of assignments of the output variables
  CASE q.k = "if"   -> (IF Pos(q.c, g) THEN {[R |-> Th]} ELSE {}) \cup (IF Neg(q.c, g) THEN {[R |-> El]} ELSE {})
    [] q.k = "cond" -> (IF Pos(q.c, g) THEN {[T |-> True]} ELSE {}) \cup (IF Neg(q.c, g) THEN {[T |-> False]} ELSE {})
    [] q.k = "tfilter"    -> {[Fs |-> MkList(r)] : r \in Filter(q, q.xs, g)}
    [] q.k = "tpartition" -> {[Ts |-> MkList(r[1]), Fs |-> MkList(r[2])] : r \in Partition(q, q.xs, g)}
    [] q.k = "tmember"    -> IF TMember(q, q.xs, g) THEN {NoOut} ELSE {}

PreHolds(q, h) == \A i \in DOMAIN q.pre : App(h, q.pre[i][1]) = App(h, q.pre[i][2])

(* the set of ground solutions of  pre, goal  as tuples over VarSeq(q) *)
Sem(q) ==
  LET vs == VarSeq(q)
      full == UNION {{g @@ o : o \in Outs(q, g)} : g \in Groundings(Range(InVars(q)), U)}
  IN {[i \in DOMAIN vs |-> h[vs[i]]] : h \in {hh \in full : PreHolds(q, hh)}}

(* ---- sanity theorems (checked by TLC for every generated query) ---- *)
(* exactly one of the two readings holds under every ground assignment *)
RECURSIVE SubConds(_)
SubConds(c) == {c} \cup (IF c.cs = <<>> THEN {} ELSE SubConds(c.cs[1]) \cup SubConds(c.cs[2]))
QueryConds(q) == IF q.k \in {"if", "cond"} THEN SubConds(q.c) ELSE {PCond(q, q.xs[i]) : i \in DOMAIN q.xs}
Complementary(q) ==
  \A g \in Groundings(Range(InVars(q)), U) : \A c \in QueryConds(q) : Pos(c, g) # Neg(c, g)
(* hence the output of every goal is a function of its ground input *)
Functional(q) ==
  \A g \in Groundings(Range(InVars(q)), U) : Cardinality(Outs(q, g)) <= 1
=============================================================================
