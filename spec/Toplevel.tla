------------------------------- MODULE Toplevel -------------------------------
(* C29: the answer protocol of the toplevel (src/toplevel.pl run_query_goal /            *)
(* toplevel_query_callback / read_input), layer A.                                       *)
(*                                                                                       *)
(* For a query with solutions s1 .. sk (computed by the abstract machine of module       *)
(* Prolog) the toplevel, when the user asks for all answers (key ; or SPACE after each   *)
(* answer, or key a once), prints the transcript                                         *)
(*     ans(1) ; ans(2) ; ... ; ans(k) END                                                *)
(* where ans(i) shows solution i as equations Var = Term for the query variables it      *)
(* binds ("true" if it binds none) followed by the residual goals, and END is            *)
(*     "."          after a last answer that left no choice point,                       *)
(*     "; false."   after a last answer that left one (the property: "ends with false    *)
(*                  ONLY when the last solution left choice points"),                    *)
(* k = 0 gives "false.", and an uncaught exception (possibly after answers) ends the     *)
(* transcript with the ball instead of END.                                              *)
(* Which answers leave a choice point is implementation dependent as far as clause       *)
(* indexing is concerned: the abstract machine pushes an alternative whenever a further  *)
(* clause or disjunct remains, a superset of what a WAM with indexing keeps. Hence:      *)
(*   no alternative left in the abstract machine  =>  END must be "."                    *)
(*   an alternative left                          =>  END is "." or "; false."           *)
(* Library predicates (member/2, append/3, between/3 are modelled by their textbook      *)
(* clauses) fall in the second class at their last solution.                             *)
(*                                                                                       *)
(* Re-executability: "Query, ans(i)" must succeed; Successes(sols, i) is the number of   *)
(* times it does: once for every solution sj that unifies with si renamed apart.         *)
(* dif/2 (library(dif) doc: fails iff both sides are identical, is entailed iff they do  *)
(* not unify, otherwise stays as a residual goal): a query "G, dif(s,t)" or, for a G     *)
(* without cut, negation and type tests, "dif(s,t), G" has the solutions of G for which  *)
(* s and t are not identical, in the same order, with the residual goal dif(s,t) on      *)
(* those where they still unify.                                                         *)
EXTENDS Prolog

Tok(k, i) == [k |-> k, i |-> i]

RECURSIVE AnsSeq(_)
AnsSeq(k) == IF k = 0 THEN <<>> ELSE IF k = 1 THEN <<Tok("ans", 1)>> ELSE AnsSeq(k - 1) \o <<Tok("sep", 0), Tok("ans", k)>>

(* the admissible transcripts: k answers, lastdet = no alternative was left at the last answer, exc = ends with a ball *)
Transcripts(k, lastdet, exc) ==
  IF exc THEN {AnsSeq(k) \o (IF k = 0 THEN <<>> ELSE <<Tok("sep", 0)>>) \o <<Tok("ball", 0)>>}
  ELSE IF k = 0 THEN {<<Tok("false", 0)>>}
  ELSE {AnsSeq(k) \o <<Tok("dot", 0)>>}
       \cup (IF lastdet THEN {} ELSE {AnsSeq(k) \o <<Tok("sep", 0), Tok("false", 0)>>})

NoAlternative(cps) == \A j \in 1..Len(cps) : cps[j].kind # "alt"

(* solution a (values of the query variables) renamed apart with index k *)
Apart(a, k) == [j \in 1..Len(a) |-> Rename(a[j], k)]
Unifiable(a, b) == Unify(EmptyStore, C("$t", Apart(a, 7001)), C("$t", Apart(b, 7002))).ok
Successes(sols, i) == Cardinality({j \in 1..Len(sols) : Unifiable(sols[j], sols[i])})

(* dif(s, t) under a solution, given the instances ds, dt of its arguments *)
(* "cyclic": the two sides unify only as rational trees (the occurs check fires); like module Prolog, the     *)
(* finite-tree specification does not cover such behaviours and the generator drops them.                  *)
DifState(ds, dt) == IF ds = dt THEN "fail"
                    ELSE LET u == Unify(EmptyStore, ds, dt) IN
                         IF u.cyc THEN "cyclic" ELSE IF u.ok THEN "residual" ELSE "entailed"
=============================================================================
