-------------------------------- MODULE Utf8 --------------------------------
(* Layer A for C18: the meaning of a byte stream as text.  Decode(bs) is the sequence of    *)
(* items [k |-> "char", cp, n] / [k |-> "bad", n] obtained by repeatedly taking either one   *)
(* well-formed UTF-8 scalar value (RFC 3629: no overlongs, no surrogates, <= U+10FFFF) or    *)
(* the maximal invalid prefix (the bytes of an ill-formed or truncated sequence that were    *)
(* valid so far, at least one byte) -- the "error_len" convention of Rust's from_utf8.       *)
EXTENDS Integers, Sequences

InR(b, lo, hi) == b >= lo /\ b <= hi
Cont(b) == InR(b, 128, 191)

(* first item of a non-empty byte sequence.  k = "inc": the bytes are a proper prefix of a  *)
(* well-formed sequence (more input is needed to decide).                                   *)
First(bs) ==
  LET n  == Len(bs)
      b0 == bs[1]
      need == IF b0 < 128 THEN 1 ELSE IF InR(b0, 194, 223) THEN 2 ELSE IF InR(b0, 224, 239) THEN 3
              ELSE IF InR(b0, 240, 244) THEN 4 ELSE 0
      ok2(b1) == CASE b0 = 224 -> InR(b1, 160, 191)
                   [] b0 = 237 -> InR(b1, 128, 159)
                   [] b0 = 240 -> InR(b1, 144, 191)
                   [] b0 = 244 -> InR(b1, 128, 143)
                   [] OTHER    -> Cont(b1)
  IN
  IF need = 0 THEN [k |-> "bad", n |-> 1, cp |-> 0]
  ELSE IF need = 1 THEN [k |-> "char", n |-> 1, cp |-> b0]
  ELSE IF n < 2 THEN [k |-> "inc", n |-> 1, cp |-> 0]
  ELSE IF ~ok2(bs[2]) THEN [k |-> "bad", n |-> 1, cp |-> 0]
  ELSE IF need = 2 THEN [k |-> "char", n |-> 2, cp |-> (b0 - 192) * 64 + (bs[2] - 128)]
  ELSE IF n < 3 THEN [k |-> "inc", n |-> 2, cp |-> 0]
  ELSE IF ~Cont(bs[3]) THEN [k |-> "bad", n |-> 2, cp |-> 0]
  ELSE IF need = 3 THEN [k |-> "char", n |-> 3, cp |-> (b0 - 224) * 4096 + (bs[2] - 128) * 64 + (bs[3] - 128)]
  ELSE IF n < 4 THEN [k |-> "inc", n |-> 3, cp |-> 0]
  ELSE IF ~Cont(bs[4]) THEN [k |-> "bad", n |-> 3, cp |-> 0]
  ELSE [k |-> "char", n |-> 4, cp |-> (b0 - 240) * 262144 + (bs[2] - 128) * 4096 + (bs[3] - 128) * 64 + (bs[4] - 128)]

RECURSIVE Decode(_)
Decode(bs) ==
  IF bs = <<>> THEN <<>>
  ELSE LET f == First(bs)
           it == IF f.k = "inc" THEN [k |-> "bad", n |-> Len(bs), cp |-> 0]     \* truncated at the end of the data
                 ELSE f
       IN <<it>> \o Decode(SubSeq(bs, it.n + 1, Len(bs)))

(* UTF-8 encoding of a scalar value *)
Encode(cp) ==
  IF cp < 128 THEN <<cp>>
  ELSE IF cp < 2048 THEN <<192 + (cp \div 64), 128 + (cp % 64)>>
  ELSE IF cp < 65536 THEN <<224 + (cp \div 4096), 128 + ((cp \div 64) % 64), 128 + (cp % 64)>>
  ELSE <<240 + (cp \div 262144), 128 + ((cp \div 4096) % 64), 128 + ((cp \div 64) % 64), 128 + (cp % 64)>>
=============================================================================
