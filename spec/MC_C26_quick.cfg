CONSTANT Tier = "quick"
CONSTANT Useq <- UQuick
INIT Init
NEXT Next
INVARIANT Confluence
INVARIANT LayerASound
INVARIANT Emit
