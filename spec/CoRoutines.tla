----------------------------- MODULE CoRoutines -----------------------------
(* C26: dif/2, freeze/2 and when/2 are insensitive to posting order.                     *)
(*                                                                                       *)
(* Layer A (the oracle): the ORDER-INDEPENDENT meaning of a set D of posted steps        *)
(*   Solved(S, D): satisfiable?, the most general unifier of the equations, the          *)
(*                 disequations that are still undecided, the suspended goals whose wake *)
(*                 condition is true (each of them has run exactly once) and those whose *)
(*                 condition is not yet true (they have not run);                        *)
(*   Sols(S, D)  : the set of ground substitutions over the universe U under which all   *)
(*                 equations and disequations of D hold.                                 *)
(* Layer B (implementation shaped): a constraint store that processes one step at a time *)
(*   (Post). MC_C26 checks that every processing order reaches Solved (confluence).      *)
(*                                                                                       *)
(* Sources. dif.pl doc comment: "True iff X and Y are different terms ... if X and Y can *)
(* unify but they're not yet equal, the decision is delayed, and prevents X and Y to     *)
(* become equal later" => dif(l,r) fails iff l and r are identical under the bindings,   *)
(* is entailed (no residue) iff they are not unifiable, is pending otherwise.            *)
(* freeze.pl: "Schedules Goal to be executed when Var is instantiated" => wake condition *)
(* nonvar(Var). when.pl: "Executes Goal when Condition becomes true. Condition may       *)
(* consist of ground(T), nonvar(T), C1,C2, C1;C2" => ?=/2 is NOT a documented condition  *)
(* (it raises domain_error(when_condition,_)) and is therefore not part of the step      *)
(* alphabet.  Terms are finite trees: scenarios whose equations need the occurs check    *)
(* are outside the model (MC_C26 does not generate them).                                *)
EXTENDS Herbrand, Integers, TLC

VarNames == {"X", "Y", "Z"}
VarPos   == [X |-> 16, Y |-> 4, Z |-> 1]        \* weight of a variable in a grounding code

VX == Var("X")
VY == Var("Y")
VZ == Var("Z")
A == Atom("a")
B == Atom("b")
F1(x) == Cmp("f", <<x>>)
F2(x, y) == Cmp("f", <<x, y>>)

CONSTANT Useq                                    \* the universe for grounding: a sequence of <= 4 ground terms
U    == {Useq[i] : i \in DOMAIN Useq}
UIdx(x) == CHOOSE i \in DOMAIN Useq : Useq[i] = x

(* ---- wake conditions: uniform records [k, t, cs] ---- *)
NoTerm == Atom("-")
NoCond       == [k |-> "none",   t |-> NoTerm, cs |-> <<>>]
CNonvar(x)   == [k |-> "nonvar", t |-> x,      cs |-> <<>>]
CGround(x)   == [k |-> "ground", t |-> x,      cs |-> <<>>]
CAnd(c1, c2) == [k |-> "and",    t |-> NoTerm, cs |-> <<c1, c2>>]
COr(c1, c2)  == [k |-> "or",     t |-> NoTerm, cs |-> <<c1, c2>>]

RECURSIVE CondTrue(_, _)
CondTrue(c, s) ==
  CASE c.k = "nonvar" -> ~IsVar(App(s, c.t))
    [] c.k = "ground" -> IsGround(App(s, c.t))
    [] c.k = "and"    -> CondTrue(c.cs[1], s) /\ CondTrue(c.cs[2], s)
    [] c.k = "or"     -> CondTrue(c.cs[1], s) \/ CondTrue(c.cs[2], s)
    [] OTHER          -> FALSE

RECURSIVE CondVars(_)
CondVars(c) ==
  IF c.k \in {"nonvar", "ground"} THEN VarsOf(c.t)
  ELSE UNION {CondVars(c.cs[i]) : i \in DOMAIN c.cs}

RECURSIVE CondTerm(_)
CondTerm(c) ==
  CASE c.k = "nonvar" -> Cmp("nonvar", <<c.t>>)
    [] c.k = "ground" -> Cmp("ground", <<c.t>>)
    [] c.k = "and"    -> Cmp(",", <<CondTerm(c.cs[1]), CondTerm(c.cs[2])>>)
    [] c.k = "or"     -> Cmp(";", <<CondTerm(c.cs[1]), CondTerm(c.cs[2])>>)
    [] OTHER          -> NoTerm

(* ---- steps: uniform records [k, l, r, c] ---- *)
SUnif(l, r)  == [k |-> "unif",   l |-> l, r |-> r,      c |-> NoCond]
SDif(l, r)   == [k |-> "dif",    l |-> l, r |-> r,      c |-> NoCond]
SFreeze(v)   == [k |-> "freeze", l |-> v, r |-> NoTerm, c |-> CNonvar(v)]   \* wakes when v is instantiated
SWhen(c)     == [k |-> "when",   l |-> NoTerm, r |-> NoTerm, c |-> c]

IsGoal(st) == st.k \in {"freeze", "when"}
StepVars(st) ==
  IF st.k \in {"unif", "dif"} THEN VarsOf(st.l) \cup VarsOf(st.r) ELSE CondVars(st.c)

(* the goal posted on the real system for step number i of a scenario; the suspended goal is log(g<i>) *)
LogGoal(i) == Cmp("log", <<Atom("g" \o ToString(i))>>)
GoalTerm(st, i) ==
  CASE st.k = "unif"   -> Cmp("=", <<st.l, st.r>>)
    [] st.k = "dif"    -> Cmp("dif", <<st.l, st.r>>)
    [] st.k = "freeze" -> Cmp("freeze", <<st.l, LogGoal(i)>>)
    [] st.k = "when"   -> Cmp("when", <<CondTerm(st.c), LogGoal(i)>>)

(* ------------------------------------------------------------------------------------ *)
(* Layer A                                                                               *)
(* ------------------------------------------------------------------------------------ *)
Idx(S) == 1..Len(S)
EqSeq(S, D) ==
  LET is == SelectSeq([i \in Idx(S) |-> i], LAMBDA i : i \in D /\ S[i].k = "unif")
  IN  [j \in 1..Len(is) |-> <<S[is[j]].l, S[is[j]].r>>]

MguOf(S, D) == Mgu(IdSubst(VarNames), EqSeq(S, D))

(* TRUE iff solving the equations of some subset of the steps needs the occurs check *)
NeedsOccursCheck(S) == \E D \in SUBSET Idx(S) : MguOf(S, D).cyc

Solved(S, D) ==
  LET m     == MguOf(S, D)
      difs  == {i \in D : S[i].k = "dif"}
      goals == {i \in D : IsGoal(S[i])}
      sat   == ~m.fail /\ \A i \in difs : ~Identical(m.s, S[i].l, S[i].r)
      ran   == {i \in goals : CondTrue(S[i].c, m.s)}
  IN [sat  |-> sat,
      s    |-> m.s,
      pend |-> IF sat THEN {i \in difs : Unifiable(m.s, S[i].l, S[i].r)} ELSE {},
      ran  |-> IF sat THEN ran ELSE {},
      susp |-> IF sat THEN goals \ ran ELSE {}]

(* the variables of the wake condition of step i as instantiated by the bindings of D  *)
(* (no semantic content: lets the driver classify orders in which two variables a goal *)
(* is suspended on are aliased before it wakes)                                        *)
RECURSIVE CondVarsUnder(_, _)
CondVarsUnder(c, s) ==
  IF c.k \in {"nonvar", "ground"} THEN VarsOf(App(s, c.t))
  ELSE UNION {CondVarsUnder(c.cs[i], s) : i \in DOMAIN c.cs}
SuspVars(S, D) ==
  LET sol == Solved(S, D) IN
  [i \in Idx(S) |-> IF i \in sol.susp THEN CondVarsUnder(S[i].c, sol.s) ELSE {}]

Holds(S, D, g) ==
  \A i \in D : /\ S[i].k = "unif" => App(g, S[i].l) = App(g, S[i].r)
               /\ S[i].k = "dif"  => App(g, S[i].l) # App(g, S[i].r)

ScenVars(S) == UNION {StepVars(S[i]) : i \in Idx(S)}
Sols(S, D) == {g \in Groundings(ScenVars(S), U) : Holds(S, D, g)}

Code(g) == LET RECURSIVE Sum(_)
               Sum(vs) == IF vs = {} THEN 0
                          ELSE LET v == CHOOSE w \in vs : TRUE
                               IN (UIdx(g[v]) - 1) * VarPos[v] + Sum(vs \ {v})
           IN Sum(DOMAIN g)

(* Sanity theorems about layer A (checked by TLC for every generated scenario).          *)
(* 1. A scenario with a ground solution in U is satisfiable (the converse needs an       *)
(*    infinite universe: finitely many disequations can exclude all of U).               *)
(* 2. The solved form denotes exactly the ground solutions: g solves D iff g is an       *)
(*    instance of the mgu and satisfies the pending disequations (the entailed ones need *)
(*    no residue). This is what justifies comparing residual constraints by grounding.   *)
SolvedSound(S, D) ==
  LET sol == Solved(S, D)
      V   == ScenVars(S)
      Inst(g) == \A v \in V : App(g, sol.s[v]) = g[v]
  IN /\ (Sols(S, D) # {}) => sol.sat
     /\ sol.sat => Sols(S, D) = {g \in Groundings(V, U) :
                                   Inst(g) /\ \A i \in sol.pend : App(g, S[i].l) # App(g, S[i].r)}
     /\ Idempotent(sol.s)

(* ------------------------------------------------------------------------------------ *)
(* Layer B: the incremental constraint store                                             *)
(* ------------------------------------------------------------------------------------ *)
EmptyStore(S) ==
  [st |-> "ok", s |-> IdSubst(VarNames), pend |-> {}, susp |-> {}, runs |-> [i \in Idx(S) |-> 0]]

Failed(store) == [store EXCEPT !.st = "fail"]

Post(store, S, i) ==
  LET st == S[i] IN
  IF store.st = "fail" THEN store
  ELSE CASE st.k = "unif" ->
              LET m == Mgu(store.s, <<<<st.l, st.r>>>>) IN
              IF m.fail \/ m.cyc THEN Failed(store)
              ELSE IF \E j \in store.pend : Identical(m.s, S[j].l, S[j].r) THEN Failed(store)
              ELSE LET woken == {j \in store.susp : CondTrue(S[j].c, m.s)} IN
                   [store EXCEPT !.s = m.s,
                                 !.pend = {j \in store.pend : Unifiable(m.s, S[j].l, S[j].r)},
                                 !.susp = store.susp \ woken,
                                 !.runs = [j \in Idx(S) |-> IF j \in woken THEN store.runs[j] + 1 ELSE store.runs[j]]]
         [] st.k = "dif" ->
              IF Identical(store.s, st.l, st.r) THEN Failed(store)
              ELSE IF Unifiable(store.s, st.l, st.r) THEN [store EXCEPT !.pend = store.pend \cup {i}]
              ELSE store
         [] OTHER ->
              IF CondTrue(st.c, store.s) THEN [store EXCEPT !.runs[i] = store.runs[i] + 1]
              ELSE [store EXCEPT !.susp = store.susp \cup {i}]

(* the store reached after processing the steps D (in whatever order) is the solved form of D *)
StoreIsSolved(store, S, D) ==
  LET sol == Solved(S, D) IN
  /\ (store.st = "ok") = sol.sat
  /\ sol.sat => /\ Equiv(store.s, sol.s)
                /\ store.pend = sol.pend
                /\ store.susp = sol.susp
                /\ \A i \in Idx(S) : store.runs[i] = IF i \in sol.ran THEN 1 ELSE 0
=============================================================================
