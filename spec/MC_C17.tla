------------------------------- MODULE MC_C17 -------------------------------
(* C17: inputs for repeated read_term/2 and what the token-level model Reader!ReadSync demands.       *)
(*                                                                                                  *)
(* Mode "enum" enumerates both of the following families, mode "walk" the third.                      *)
(* "cat":       the input is the concatenation of segments of the catalogue (ReaderCat): all          *)
(*              sequences of <= 2 segments, all triples that end in the valid clause "z." (does the   *)
(*              reader find its way back?) and, in the thorough tier, all triples that begin with a   *)
(*              lexer-level malformation or an unterminated item.                                     *)
(* "soup":      token soup: all strings of <= L characters over a 14-character alphabet, followed by  *)
(*              " .\n" (an end token of its own) and the sentinel clause "sentinel(42).\n".            *)
(* "walk":      random soups of SoupLen characters (TLC -simulate).                                   *)
(*                                                                                                  *)
(* One vector per input: the text, the byte offset of every character offset, ReadSync(text) and the  *)
(* table Scan(text): for EVERY offset p where a read may start, the kind of what follows (clause, eof, *)
(* open, noend), the offset after its end token, whether a newline follows, whether the position is    *)
(* demanded (not "fuzzy") and the class of the clause: "term" with the catalogue index of the segment  *)
(* whose first clause it is (same first token, same end token), "err" (it is that segment and the      *)
(* segment is a malformation, or the clause has no token or contains a character that cannot be part   *)
(* of a term), or "any" (no claim: term or syntax error).  The driver follows the positions the        *)
(* implementation reports and compares every read with the entry of the offset it started from.        *)
EXTENDS Reader, ReaderCat, Json, TLC

CONSTANTS Tier, Mode

Quick == Tier = "quick"
NCat  == Len(Catalogue)
Ids   == 1..NCat
IdOf(name) == CHOOSE k \in Ids : Catalogue[k].name = name
Zid   == IdOf("z")
L       == IF Quick THEN 3 ELSE 4
SoupLen == IF Quick THEN 6 ELSE 8
(* a x 0 . space newline ' " ` \ % / * ( ) |   (the bar is an infix operator in the driver's session: library(dcgs) is loaded) *)
SoupAlphabet == {97, 120, 48, 46, 32, 10, 39, 34, 96, 92, 37, 47, 42, 40, 41, 124}

Sentinel == Seg("sentinel", <<115, 101, 110, 116, 105, 110, 101, 108, 40, 52, 50, 41, 46, 10>>, "term", "valid",
                [t |-> "c", n |-> <<115, 101, 110, 116, 105, 110, 101, 108>>, i |-> 0,
                 a |-> <<[t |-> "i", n |-> <<>>, i |-> 42, a |-> <<>>]>>])
SoupEnd == <<32, 46, 10>>

(* the first clause of every segment on its own *)
SA == [k \in Ids |-> Scan(Catalogue[k].text)[1]]
SAsent == Scan(Sentinel.text)[1]

(* the catalogue agrees with the tokenizer model *)
ASSUME \A k \in Ids :
         /\ Catalogue[k].class \in {"term", "err"} => SA[k].kind = "clause"
         /\ Catalogue[k].class = "open" => SA[k].kind \in {"open", "noend"}
         /\ Catalogue[k].class = "term" => ~SA[k].bad /\ ~SA[k].fz /\ SA[k].tok
         /\ Catalogue[k].level = "parse" => ~SA[k].bad /\ ~SA[k].fz
ASSUME SAsent.kind = "clause" /\ SAsent.q = Len(Sentinel.text) - 1

IsRaw(k) == Catalogue[k].level = "utf8"

VARIABLES ids, soup
vars == <<ids, soup>>

Init == ids = <<>> /\ soup = <<>>

(* undecodable bytes are a class of their own: alone, or next to "z." *)
RawOk(s) == (\E i \in 1..Len(s) : IsRaw(s[i])) => (Len(s) <= 2 /\ \A i \in 1..Len(s) : IsRaw(s[i]) \/ s[i] = Zid)

NextCat ==
  /\ Mode = "enum" /\ soup = <<>> /\ UNCHANGED soup
  /\ \E k \in Ids :
       /\ \/ Len(ids) < 2
          \/ Len(ids) = 2 /\ (k = Zid \/ (~Quick /\ Catalogue[ids[1]].level \in {"lex", "open"}))
       /\ RawOk(Append(ids, k))
       /\ ids' = Append(ids, k)
NextSoup ==
  /\ ids = <<>> /\ UNCHANGED ids
  /\ Len(soup) < (IF Mode = "enum" THEN L ELSE SoupLen)
  /\ \E c \in SoupAlphabet : soup' = Append(soup, c)
Next == NextCat \/ NextSoup

RECURSIVE Concat(_)
Concat(s) == IF s = <<>> THEN <<>> ELSE Catalogue[Head(s)].text \o Concat(Tail(s))
RECURSIVE Starts(_, _)                      \* start offset of every segment
Starts(s, acc) == IF s = <<>> THEN <<>> ELSE <<acc>> \o Starts(Tail(s), acc + Len(Catalogue[Head(s)].text))

IsCat == ids # <<>>
Text == IF IsCat THEN Concat(ids) ELSE soup \o SoupEnd \o Sentinel.text

(* the segment (catalogue index; NCat + 1 = the sentinel; 0 = none) whose first clause the entry e is *)
AlignedSeg(e, st) ==
  IF e.kind # "clause" THEN 0
  ELSE IF IsCat
  THEN LET hits == {i \in 1..Len(ids) : SA[ids[i]].kind = "clause" /\ e.ft = st[i] + SA[ids[i]].ft /\ e.q = st[i] + SA[ids[i]].q}
       IN IF hits = {} THEN 0 ELSE ids[CHOOSE i \in hits : TRUE]
  ELSE LET s0 == Len(soup) + Len(SoupEnd) IN
       IF e.ft = s0 + SAsent.ft /\ e.q = s0 + SAsent.q THEN NCat + 1 ELSE 0

ClassOf(e, seg) ==
  IF e.kind # "clause" THEN "-"
  ELSE IF e.bad \/ ~e.tok THEN "err"
  ELSE IF seg = 0 THEN "any"
  ELSE IF seg = NCat + 1 THEN "term"
  ELSE Catalogue[seg].class

LevelOf(seg) == IF seg = 0 THEN "none" ELSE IF seg = NCat + 1 THEN "valid" ELSE Catalogue[seg].level

Vector ==
  LET t  == Text
      sc == Scan(t)
      st == IF IsCat THEN Starts(ids, 0) ELSE <<>>
      row(p) == LET e == sc[p + 1]  g == AlignedSeg(e, st) IN
                <<e.kind, e.q, e.nl, e.fz, ClassOf(e, g), g, LevelOf(g)>>
      rs == ReadsFrom(t, sc, 0)
  IN [cls |-> IF IsCat THEN "cat" ELSE "soup",
      names |-> [i \in 1..Len(ids) |-> Catalogue[ids[i]].name],
      text |-> t, boff |-> Boff(t),
      scan |-> [p1 \in 1..(Len(t) + 1) |-> row(p1 - 1)],
      reads |-> [i \in 1..Len(rs) |-> <<rs[i].kind, rs[i].from, rs[i].to, row(rs[i].from)[5], row(rs[i].from)[6]>>]]

Complete == IF Mode = "enum" THEN TRUE ELSE Len(soup) = SoupLen

Emit == Complete => PrintT(ToJson(Vector))

(* sanity of ReadSync on every input: the reads tile the text, the last one is the end of file *)
TilesInv ==
  Complete =>
    LET rs == ReadSync(Text) IN
    /\ rs[1].from = 0 /\ rs[Len(rs)].kind = "eof" /\ rs[Len(rs)].to = Len(Text)
    /\ \A i \in 1..(Len(rs) - 1) : rs[i].to = rs[i + 1].from /\ rs[i].to > rs[i].from /\ rs[i].kind # "eof"

(* the catalogue itself, printed once *)
ASSUME PrintT(ToJson([catalogue |-> [k \in 1..(NCat + 1) |->
         LET g == IF k <= NCat THEN Catalogue[k] ELSE Sentinel IN
         [name |-> g.name, class |-> g.class, level |-> g.level, term |-> g.term, text |-> g.text]]]))
=============================================================================
