--------------------------- MODULE ArithCtxTables ---------------------------
(* The evaluable-functor tables of C03 as delivered by the driver.                              *)
(* The driver scans src/arithmetic.rs (get_unary_instr, get_binary_instr, push_literal: the      *)
(* compiled evaluator) and src/machine/arithmetic_ops.rs (arith_eval_by_metacall: the run-time    *)
(* walker) and writes {extracted, cu, cb, cn, ru, rb, rn, unary, binary, nullary} (sorted arrays;  *)
(* unary/binary/nullary are the unions) to the JSON file TablesPath.                              *)
(* TablesPath is a cfg constant and not IOEnv: TLC caches constant-level definitions only, an     *)
(* IOEnv-dependent definition would re-read the file on every evaluation.                         *)
EXTENDS ArithCtx, Json

CONSTANT TablesPath

Tables == JsonDeserialize(TablesPath)
ToSet(s) == {s[i] : i \in 1..Len(s)}
RECURSIVE SetToSeq(_)
SetToSeq(S) == IF S = {} THEN <<>> ELSE LET x == CHOOSE y \in S : TRUE IN <<x>> \o SetToSeq(S \ {x})

(* alphabet: union of both tables when the driver could extract them, otherwise the               *)
(* specification's own table                                                                       *)
UnarySeq   == IF Tables.extracted THEN Tables.unary   ELSE SetToSeq(SpecUnary)
BinarySeq  == IF Tables.extracted THEN Tables.binary  ELSE SetToSeq(SpecBinary)
NullarySeq == IF Tables.extracted THEN Tables.nullary ELSE SetToSeq(SpecNullary)
UnaryDef   == ToSet(UnarySeq)      \* cfg: UnaryF <- UnaryDef
BinaryDef  == ToSet(BinarySeq)     \* cfg: BinaryF <- BinaryDef
NullaryDef == ToSet(NullarySeq)    \* cfg: NullaryF <- NullaryDef
=============================================================================
