CONSTANT Tier = "quick"
INIT Init
NEXT Next
INVARIANT Emit
