CONSTANT Tier = "quick"
CONSTANT TablesPath = "/verif/work/c03/tables.json"
CONSTANT UnaryF <- UnaryDef
CONSTANT BinaryF <- BinaryDef
CONSTANT NullaryF <- NullaryDef
INIT Init
NEXT Next
INVARIANT CtxSound
INVARIANT Header
INVARIANT Emit
