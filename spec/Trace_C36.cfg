INIT Init
NEXT Next
