------------------------------- MODULE MC_C15 -------------------------------
(* C15: printed terms read back as the same term.                                                *)
(*                                                                                              *)
(* Mode "exh": TLC explores the operator-table state machine OpCfg (histories of length <=       *)
(* MaxLen over the declaration set Decls), checks TableOk on every reachable table and prints    *)
(* one "table" vector per state; in the same run it prints the term universe once, grouped by    *)
(* principal operator shape ("terms" vectors): every item carries the set `needs` of operator    *)
(* shapes it is built from, and the universe of a table is {item : item.needs \subseteq         *)
(* Shapes(table)} (WriteRead!InUniverse) - the items are table independent, which table they     *)
(* belong to is not.                                                                             *)
(* Mode "sim" (under -simulate): random histories over the WHOLE admissible declaration space    *)
(* (every priority in Prios x every specifier x every pool name), then NSim random operator      *)
(* terms of depth <= 3 over the operators of the table reached.                                  *)
EXTENDS WriteRead, Json

CONSTANTS Tier, Mode

D(p, s, n) == [p |-> p, s |-> s, n |-> n]
(* curated declarations: user-defined infix / postfix / prefix operators, alphanumeric ones,     *)
(* operators that are prefix and infix, priorities 1 and 1200, removal and re-declaration of     *)
(* predefined operators                                                                          *)
DeclsQuick == { D(200, "xfy", "^^"), D(100, "xf", "!!"), D(700, "xfx", "abc"), D(700, "fy", "f"),
                D(1, "fx", "@"), D(1200, "xfx", "@"), D(0, "fy", "-"),
                (* a user-defined right-associative operator that shares its priority with predefined left-associative ones *)
                (* (+ and - at 500, * at 400): an operand of the parent's own priority must be bracketed on the left of a   *)
                (* yfx operator when it is an xfy term, and on the right when it is a yfx term                              *)
                D(500, "xfy", "^^"), D(400, "xfy", "abc") }
DeclsThorough == DeclsQuick \cup { D(1200, "xfx", "*"), D(200, "yf", "abc"), D(0, "xfx", "=") }
Decls  == IF Tier = "quick" THEN DeclsQuick ELSE DeclsThorough
MaxLen == IF Tier = "quick" THEN 2 ELSE 3

Prios == {0, 1, 200, 400, 500, 700, 1200}
AllDecls == {D(p, s, n) : p \in Prios, s \in Specifiers, n \in PoolNames}

(* operators whose terms are enumerated: the pool and the predefined operators with special      *)
(* treatment in writer or reader (comma, bar, semicolon, the right-associative / non-associative  *)
(* priority-200 operators next to prefix minus)                                                  *)
ExtraNames == IF Tier = "quick" THEN {",", ";", "^", "**", "|"}
              ELSE {",", ";", "^", "**", "|", "->", "-->", "is", "\\", ":"}
InterestNames == PoolNames \cup ExtraNames
Interest(S) == {sh \in S : sh[1] \in InterestNames}
ShapeU == Interest(Shapes(DcgsTable) \cup {ShapeOf(OpRec(d.p, d.s, d.n)) : d \in {e \in Decls : e.p > 0}})

L1 == IF Tier = "quick"
      THEN {[c |-> "atom", t |-> a], [c |-> "negint", t |-> I(-1)], [c |-> "opatom:-", t |-> A("-")]}
      ELSE {[c |-> "atom", t |-> a], [c |-> "int", t |-> I(1)], [c |-> "negint", t |-> I(-1)], [c |-> "opatom:-", t |-> A("-")],
            [c |-> "var", t |-> X]}
OpAtomNames == InterestNames

BaseKeys == {<<g, 0>> : g \in Range(BaseGroups)}
GroupItems(g) == IF g \in BaseKeys THEN BaseGroup(g[1]) ELSE ShapeGroup(g, ShapeU, OpAtomNames, L1)

NSim == 1200
SimOps(t) == {o \in t : o.n \in InterestNames}

VARIABLES phase, tbl, hist, grp, terms
vars == <<phase, tbl, hist, grp, terms>>

Init ==
  /\ hist = <<>> /\ terms = <<>>
  /\ \/ phase = "tbl" /\ tbl = DcgsTable /\ grp = <<"", 0>>
     \/ Mode = "exh" /\ phase = "pick" /\ tbl = {} /\ grp \in ShapeU \cup BaseKeys
     \/ Mode = "exh" /\ phase = "writers" /\ tbl = {} /\ grp = <<"", 0>>

DeclStep(S, maxlen) ==
  /\ phase = "tbl" /\ Len(hist) < maxlen
  /\ \E d \in S : /\ Admissible(tbl, d.p, d.s, d.n)
                  /\ tbl' = Declare(tbl, d.p, d.s, d.n)
                  /\ hist' = Append(hist, d)
  /\ UNCHANGED <<phase, grp, terms>>

Next ==
  IF Mode = "exh"
  THEN \/ DeclStep(Decls, MaxLen)
       \/ phase = "pick" /\ phase' = "emit" /\ UNCHANGED <<tbl, hist, grp, terms>>
  ELSE \/ DeclStep(AllDecls, 3)
       \/ /\ phase = "tbl" /\ Len(hist) = 3
          /\ phase' = "sim"
          /\ terms' = [j \in 1..NSim |-> RTerm(3, SimOps(tbl), Operands(OpAtomNames))]
          /\ UNCHANGED <<tbl, hist, grp>>

(* ---- invariants of the specification itself ---- *)
TablesOk == phase \in {"tbl", "sim"} => TableOk(tbl)

ItemOk(it) ==
  /\ it.needs \subseteq ShapeU
  /\ NVImage(NVImage(it.t)) = NVImage(it.t)
  /\ Variant(it.t, Rename(it.t, 7))
  /\ Accept(it.t, it.t)
  /\ \A w \in Writers : Applicable(w, it.t) => Accept(Expect(w, it.t), Expect(w, Rename(it.t, 3)))
ItemsOk == phase = "emit" => \A it \in GroupItems(grp) : ItemOk(it)

(* ---- vectors ---- *)
Out(it) == [t |-> it.t, needs |-> it.needs, o |-> it.o, in |-> it.in, pos |-> it.pos, oc |-> it.oc,
            nv |-> IF NVImage(it.t) = it.t THEN <<>> ELSE <<NVImage(it.t)>>,
            nvdef |-> NVDefined(it.t), safe |-> NamingSafe(it.t)]
OutT(t) == [t |-> t, nv |-> IF NVImage(t) = t THEN <<>> ELSE <<NVImage(t)>>, nvdef |-> NVDefined(t), safe |-> NamingSafe(t)]

(* per writer: its options, which image Expect selects (probed on '$VAR'(0)) and which items Applicable excludes *)
WInfo(w) == [opts |-> WOpts(w),
             expect |-> IF Expect(w, NumVar(I(0))) = NumVar(I(0)) THEN "plain" ELSE "nv",
             needs_nvdef |-> ~Applicable(w, NumVar(I(-1))),
             needs_safe |-> ~Applicable(w, C2("f", NumVar(I(0)), X))]

Emit ==
  /\ phase = "tbl" /\ (Mode = "exh" \/ Len(hist) = 0) => PrintT(ToJson([kind |-> "table", hist |-> hist, tbl |-> tbl]))
  /\ phase = "emit" => PrintT(ToJson([kind |-> "terms", grp |-> grp, items |-> {Out(it) : it \in GroupItems(grp)}]))
  /\ phase = "writers" => PrintT(ToJson([kind |-> "writers", w |-> [w \in Writers |-> WInfo(w)]]))
  /\ phase = "sim" => PrintT(ToJson([kind |-> "sim", hist |-> hist, tbl |-> tbl, items |-> [j \in 1..Len(terms) |-> OutT(terms[j])]]))
=============================================================================
