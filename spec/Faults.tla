-------------------------------- MODULE Faults --------------------------------
(* Environment faults composed with the abstract machine (C30, C31).                        *)
(* At any step the environment may deliver one fault: an interrupt request or a failed       *)
(* allocation.  The only admissible continuation is the corresponding ball being thrown      *)
(* from that point (C12 semantics: innermost active catch/3, bindings since then undone,    *)
(* collectors of abandoned findall/3 calls dropped); afterwards the machine is an ordinary   *)
(* consistent machine state: later goals behave as on a machine that performed exactly the   *)
(* side effects completed before the fault.                                                  *)
EXTENDS Prolog

InterruptBall == C2("error", A("$interrupt_thrown"), C2("/", A("repl"), I(0)))
MemoryBall    == C2("error", C1("resource_error", A("memory")), Nil)

FaultBall(kind) == IF kind = "interrupt" THEN InterruptBall ELSE MemoryBall

(* deliver the fault in state m (m.phase = "run") *)
Deliver(m, kind) == Throw(m, FaultBall(kind))

(* machine consistency after any run, faulty or not *)
Consistent(m) == (m.phase = "done" /\ m.status \in {"done", "exc"}) => m.lh = <<>>     \* no findall collector left behind
===============================================================================
