------------------------------- MODULE MC_C31 -------------------------------
(* C31 (interrupt) and C30 (allocation failure): for every workload and every step index n   *)
(* the fault is delivered when the machine has taken n steps.  TLC checks Consistent in the  *)
(* terminal state of every such run and prints the outcome (answers, caught/uncaught ball,   *)
(* log, final dynamic database): the set of outcomes over all n is what the real system,     *)
(* faulted at an arbitrary instruction, may show.                                            *)
EXTENDS Faults, Json

CONSTANT Kind      \* "interrupt" | "memory"

X == V("X")  Y == V("Y")  E == V("E")  L == V("L")
Log(t) == C1("log", t)
T1(t) == C1("t", t)
Catcher == IF Kind = "interrupt" THEN E ELSE C2("error", C1("resource_error", A("memory")), V("Ctx"))

Helpers == <<
  [h |-> T1(I(1)), b |-> True], [h |-> T1(I(2)), b |-> True], [h |-> T1(I(3)), b |-> True],
  [h |-> C3("app", Nil, X, X), b |-> True],
  [h |-> C3("app", Cons(V("H"), V("T")), Y, Cons(V("H"), V("R"))), b |-> C3("app", V("T"), Y, V("R"))],
  [h |-> C2("rev", Nil, Nil), b |-> True],
  [h |-> C2("big", I(1), ListOf(<<I(0), I(0), I(0), I(0), I(0), I(0), I(0), I(0)>>)), b |-> True],
  [h |-> C2("rev", Cons(V("H"), V("T")), V("R")), b |-> Conj(C2("rev", V("T"), V("RT")), C3("app", V("RT"), ListOf(<<V("H")>>), V("R")))]
>>

(* workloads: each is run as  catch(W, Catcher, log(caught)), log(end)  *)
Work == <<
  (* 1 *) Conj(C2("rev", ListOf(<<A("a"), A("b"), A("c")>>), X), Log(X)),
  (* 2 *) Conj(C3("findall", Y, Conj(T1(Y), Log(Y)), L), Log(L)),
  (* 3 *) Conj(C3("catch", Conj(Log(I(1)), C1("throw", A("a"))), A("a"), Log(I(2))), Log(I(3))),
  (* 4 *) Disj(Conj(T1(Y), Conj(C1("assertz", C1("d", Y)), Conj(Log(Y), Fail))), True),
  (* 5 *) Conj(C3("findall", C2("-", X, Y), C3("app", X, Y, ListOf(<<A("a"), A("b")>>)), L), Log(L)),
  (* 6 *) Conj(Ite(Not(T1(I(5))), Log(A("no")), Log(A("yes"))), Conj(C1("once", T1(Y)), Log(Y))),
  (* 7 *) Conj(C3("findall", Y, C3("catch", Conj(T1(Y), Log(Y)), V("B"), True), L), Conj(C1("retract", C1("d0", V("Z"))), Log(C2("-", L, V("Z"))))),
  (* 8: a suspended goal woken by a head unification that has many instructions left after the binding *)
  Conj(C2("freeze", X, Log(C1("woke", X))), Conj(C2("big", X, L), Log(L))),
  (* 9: a suspended goal woken by an inline unification, re-suspended on backtracking *)
  Disj(Conj(C2("freeze", X, Conj(Log(A("w")), T1(X))), Conj(T1(Y), Conj(Eq(X, Y), Conj(Log(Y), Fail)))), True)
>>

Query(w) == Conj(C3("catch", Work[w], Catcher, Log(A("caught"))), Log(A("end")))

VARIABLES m, w, n, fired
vars == <<m, w, n, fired>>

Base(wk) == Load(Helpers \o << [h |-> C1("d0", I(0)), b |-> True] >>, {<<"d", 1>>, <<"d0", 1>>}, Query(wk))

Init == m = [phase |-> "gen"] /\ w = 0 /\ n = 0 /\ fired = FALSE
Gen == /\ m.phase = "gen"
       /\ \E wk \in 1..Len(Work) : \E k \in 0..200 :
            /\ w' = wk /\ n' = k /\ m' = Base(wk) /\ fired' = FALSE
Run1 == /\ m.phase = "run"
        /\ IF ~fired /\ m.steps = n
           THEN m' = [Deliver(m, Kind) EXCEPT !.steps = m.steps + 1] /\ fired' = TRUE
           ELSE m' = Step(m) /\ fired' = fired
        /\ UNCHANGED <<w, n>>
Next == Gen \/ Run1

Inv == MachineOk(m) /\ Consistent(m)
FinalDb == LET al == SelectSeq(m.db, LAMBDA c : ~c.dead /\ c.h.n \in {"d", "d0"}) IN [j \in 1..Len(al) |-> al[j].h]
(* runs whose fault index lies beyond the end of the run are the fault-free behaviour *)
Emit == m.phase = "done" =>
          PrintT(ToJson([w |-> w, n |-> n, fired |-> fired, status |-> m.status, ball |-> m.ball, out |-> m.out, db |-> FinalDb,
                         nans |-> Len(m.ans)]))
=============================================================================
