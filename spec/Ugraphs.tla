------------------------------- MODULE Ugraphs -------------------------------
(* Layer A for C53: library(ugraphs).  A graph is a pair (V, E) with E \subseteq V \X V    *)
(* over terms (module Coll); the operations are the graph-theoretic definitions that the   *)
(* documentation comments of src/lib/ugraphs.pl describe.  The concrete result the library  *)
(* must return is the S-representation documented there: "a list of (vertex-neighbours)    *)
(* pairs, where the pairs are in standard order (as produced by keysort) and the           *)
(* neighbours of each vertex are also in standard order (as produced by sort)" - SRep       *)
(* below, so the representation invariant is part of the oracle.                            *)
EXTENDS Coll

Graph(V, E) == [V |-> V, E |-> E]
EmptyG      == Graph({}, {})
WellFormed(G) == G.E \subseteq (G.V \X G.V)

Succ(G, u)  == {w \in G.V : <<u, w>> \in G.E}
SRepSeq(G)  == LET vs == SortSet(G.V) IN [i \in 1..Len(vs) |-> Pair(vs[i], LT(SortSet(Succ(G, vs[i]))))]
SRep(G)     == LT(SRepSeq(G))
EdgeTerms(G) ==                                  \* the edges U-W as terms, in S-representation order
  LET vs == SortSet(G.V)
      row(u) == LET ws == SortSet(Succ(G, u)) IN [j \in 1..Len(ws) |-> Pair(u, ws[j])]
  IN Concat([i \in 1..Len(vs) |-> row(vs[i])])

Ends(Es)    == {e[1] : e \in Es} \cup {e[2] : e \in Es}
EdgeSet(ps) == {<<ps[i].a[1], ps[i].a[2]>> : i \in 1..Len(ps)}      \* a list of U-W terms as a set of edges

(* vertices_edges_to_ugraph/3: "vertices without edges will appear in Vertices but not in   *)
(* Edges. Moreover, it is sufficient for a vertice to appear in Edges."                     *)
FromVE(Vs, Es)      == Graph(Vs \cup Ends(Es), Es)
(* add_vertices/3: "adding the list of Vertices to Graph" *)
AddVertices(G, Vs)  == Graph(G.V \cup Vs, G.E)
(* del_vertices/3: "deleting the list of Vertices and all the edges that start from or go   *)
(* to a vertex in Vertices"                                                                 *)
DelVertices(G, Vs)  == Graph(G.V \ Vs, {e \in G.E : e[1] \notin Vs /\ e[2] \notin Vs})
(* add_edges/3: "adding the list of Edges to Graph" (end points become vertices: example)   *)
AddEdges(G, Es)     == Graph(G.V \cup Ends(Es), G.E \cup Es)
(* del_edges/3: "removing the list of Edges from Graph. Notice that no vertices are deleted" *)
DelEdges(G, Es)     == Graph(G.V, G.E \ Es)
(* transpose_ugraph/2: "replacing all edges of the form V1-V2 by edges of the form V2-V1"   *)
GTranspose(G)       == Graph(G.V, {<<e[2], e[1]>> : e \in G.E})
(* ugraph_union/3 *)
GUnion(G, H)        == Graph(G.V \cup H.V, G.E \cup H.E)
(* compose/3: "connecting the drains of LeftGraph to the sources of RightGraph": relational *)
(* composition on the union of the vertex sets (example in the documentation)               *)
Compose(G, H)       == LET V == G.V \cup H.V IN
                       Graph(V, {p \in V \X V : \E m \in V : <<p[1], m>> \in G.E /\ <<m, p[2]>> \in H.E})
(* complement/2: "an edge between all vertices that are not connected in UGraphIn and all   *)
(* edges from UGraphIn removed" - without self loops (the example has none)                 *)
Complement(G)       == Graph(G.V, {p \in G.V \X G.V : p[1] # p[2] /\ p \notin G.E})

(* transitive_closure/2: the least transitive relation containing E (paths of length >= 1) *)
RECURSIVE TCIter(_, _)
TCIter(V, E) == LET E2 == E \cup {p \in V \X V : \E m \in V : <<p[1], m>> \in E /\ <<m, p[2]>> \in E}
                IN IF E2 = E THEN E ELSE TCIter(V, E2)
TC(G)        == TCIter(G.V, G.E)
Closure(G)   == Graph(G.V, TC(G))
(* reachable/3: "an ordered set of vertices reachable in UGraph, including Vertex" *)
Reach(G, u)  == {u} \cup {w \in G.V : <<u, w>> \in TC(G)}
Acyclic(G)   == \A u \in G.V : <<u, u>> \notin TC(G)

(* top_sort/2: "Sorted is a topological sorted list of nodes in Graph": any permutation of  *)
(* V in which every edge goes forward; there is none iff the graph has a cycle              *)
TopSorts(G) ==
  LET vs == SortSet(G.V)
      n  == Len(vs)
      ok(p) == \A i, j \in 1..n : <<vs[p[i]], vs[p[j]]>> \in G.E => i < j
  IN {[i \in 1..n |-> vs[p[i]]] : p \in {q \in Perms(n) : ok(q)}}
RECURSIVE SetToSeq(_)
SetToSeq(S) == IF S = {} THEN <<>> ELSE LET e == CHOOSE e \in S : TRUE IN <<e>> \o SetToSeq(S \ {e})

GraphsOn(V)       == {Graph(V, E) : E \in SUBSET (V \X V)}
GraphsUpTo(U, k)  == UNION {GraphsOn(V) : V \in {W \in SUBSET U : Cardinality(W) <= k}}

(* sanity theorems of the oracle (checked by TLC on all graphs over three vertices) *)
GraphSanity(G) ==
  /\ (TopSorts(G) # {}) <=> Acyclic(G)
  /\ G.E \subseteq TC(G)
  /\ \A p, q \in TC(G) : p[2] = q[1] => <<p[1], q[2]>> \in TC(G)
  /\ \A u \in G.V : Reach(G, u) = {u} \cup UNION {Reach(G, w) : w \in Succ(G, u)}
  /\ GTranspose(GTranspose(G)) = G
  /\ TC(GTranspose(G)) = GTranspose(Closure(G)).E
  /\ Complement(Complement(G)).E = {p \in G.E : p[1] # p[2]}
  /\ Compose(G, Graph(G.V, {<<u, u>> : u \in G.V})) = G
  /\ \A p \in G.V \X G.V : (p \in TC(G)) <=> (p \in G.E \/ p \in Compose(G, Closure(G)).E)
=============================================================================
