CONSTANT Tier = "thorough"
INIT Init
NEXT Next
INVARIANT PairInv
INVARIANT ShiftInv
