------------------------------- MODULE MC_C13 -------------------------------
(* C13: compare/3 and the term-comparison predicates implement the standard order.            *)
(*                                                                                            *)
(* The universe U is a sequence of build trees (TermsExt): the same term in the different     *)
(* heap representations of the implementation (literal | string | partial string | =.. ;      *)
(* small integer | result of bignum arithmetic | n rdiv 1).  TLC                              *)
(*  - checks once (ASSUME OracleIsTotalOrder) that Compare is a total order on the universe   *)
(*    whose equality is identity of denotations, under every ranking of the variables;        *)
(*  - prints one vector per row i: the element, its denotation and, for every j, the expected *)
(*    order symbol of (U[i], U[j]) under each of the NP rankings of {X, Y, Z}; the binding     *)
(*    (props/C13.py, Trace_C13) infers the ranking the implementation uses in each query.      *)
EXTENDS StdOrder, Json

CONSTANT Tier   \* "quick" | "thorough"

X == V("X")
Y == V("Y")
Z == V("Z")
a == A("a")
b == A("b")
c == A("c")
Ch(s) == Chars(s)

(* floats: -1.5, 0.0, 1.0, 1e30 | -1e30, 5e-324, 0.5, 1.5, max, 2^70 as a float *)
FlQuick == <<FloatT("bff8000000000000"), FloatT("0000000000000000"), FloatT("3ff0000000000000"),
             FloatT("46293e5939a08cea")>>
FlMore  == <<FloatT("c6293e5939a08cea"), FloatT("0000000000000001"), FloatT("3fe0000000000000"),
             FloatT("3ff8000000000000"), FloatT("7fefffffffffffff"), FloatT("4450000000000000")>>

P55 == Pow2T(55)
P70 == Pow2T(70)
IntsQuick == <<I(-1), I(0), I(1), I(2), P55, P70, NegT(P70),
               Calc(I(-1)), Calc(I(0)), Calc(I(1)), Calc(P55), Calc(P70),
               Rd(I(4), I(2))>>
IntsMore  == <<Pow2T(56), IntT(B!Sub(B!Pow2(55), B!One)), Pow2T(63), Pow2T(64), NegT(P55), Calc(NegT(P70)),
               IntT(B!Add(B!Pow2(70), B!One)), Rd(P70, I(1)), I(3)>>
RatsQuick == <<Rd(I(1), I(3)), Rd(I(-1), I(3)), Rd(P70, I(3)), Rd(I(2), I(6))>>
RatsMore  == <<Rd(I(1), P70), Rd(I(-1), P70), Rd(I(7), I(2)), Rd(IntT(B!Add(B!Pow2(70), B!One)), P70)>>

AtomsQuick == <<A(""), a, A("ab"), b, A("A"), A("z"), A("u_e4"), A("u_e9"), A("u_20ac"), A("u_1f600"),
                Nil, A("abcdefg"), A("abcdefgh")>>
AtomsMore  == <<A("."), A("-"), A("u_fffd"), A("u_e9_a"), A("f"), A("{}"), A("aa"), A("B")>>

CmpsQuick == <<C1("f", a), C1("f", b), C1("g", a), C2("f", a, a), C1("u_e9", a), C1("f", X), C1("f", Y),
               C2("f", X, Y), C2("f", Y, X), C2("-", a, b), C2("g", a, b),
               C1("f", Str(Ch(<<"a", "b">>))), C1("f", ListOf(<<a, b>>)),
               C1("f", Z), C2("f", Y, Z), C2("f", Z, X), C2("f", X, X),
               C1("g", X), C1("g", Y), C1("g", Z), C2("f", a, X), C2("f", a, Y), C2("f", a, Z)>>

ListsQuick ==
  <<ListOf(<<a>>), Str(Ch(<<"a">>)), ListOf(<<a, b>>), Str(Ch(<<"a", "b">>)),
    Cons(a, Str(Ch(<<"b">>))), Cons(a, X), PStr(Ch(<<"a">>), X), PStr(Ch(<<"a", "b">>), Y),
    PListOf(<<a, b>>, Y), Cons(a, b), UnivCons(b, a), UnivCons(a, Str(Ch(<<"b">>))),
    ListOf(<<X>>), Str(Ch(<<"a", "b", "c">>)), Str(Ch(<<"a", "b", "d">>)),
    PListOf(<<a, b>>, Str(Ch(<<"c">>))), PStr(Ch(<<"a">>), Str(Ch(<<"b", "c">>))),
    Str(Ch(<<"u_e9", "a">>)), ListOf(<<A("u_e9"), a>>), ListOf(<<I(1)>>),
    Cons(a, Y), PStr(Ch(<<"a">>), Z), PStr(Ch(<<"a", "b">>), X), ListOf(<<Y>>), ListOf(<<X, Y>>),
    ListOf(<<Y, X>>), PListOf(<<a, b>>, Z)>>

Q == <<X, Y, Z>> \o FlQuick \o IntsQuick \o RatsQuick \o AtomsQuick \o CmpsQuick \o ListsQuick

(* thorough: more leaves, and one more level: f(e), [h|tl], g(e1, e2) *)
Q2 == Q \o FlMore \o IntsMore \o RatsMore \o AtomsMore
Heads == <<X, Y, a, b, I(1), Calc(I(1)), P70, Calc(P70), FloatT("3ff0000000000000"), Rd(I(1), I(3)),
           C1("f", X), Str(Ch(<<"a">>)), A("u_e9")>>
Tails == <<Nil, X, Str(Ch(<<"b">>)), ListOf(<<b>>), PStr(Ch(<<"b">>), Y), b>>
Gs    == <<X, Y, a, b, I(1), P70, Calc(P70), Rd(I(1), I(3)), Str(Ch(<<"a", "b">>)), ListOf(<<a, b>>),
           PStr(Ch(<<"a", "b">>), Z)>>
T1 == [k \in 1..Len(Q) |-> C1("f", Q[k])]
T2 == [k \in 1..(Len(Heads) * Len(Tails)) |->
         Cons(Heads[((k - 1) \div Len(Tails)) + 1], Tails[((k - 1) % Len(Tails)) + 1])]
T3 == [k \in 1..(Len(Gs) * Len(Gs)) |->
         C2("g", Gs[((k - 1) \div Len(Gs)) + 1], Gs[((k - 1) % Len(Gs)) + 1])]

U == IF Tier = "quick" THEN Q ELSE Q2 \o T1 \o T2 \o T3
N == Len(U)
(* TLC does not pre-evaluate definitions that (transitively) use the instantiated BigInt module, *)
(* so the denotations are computed where they are needed and bound by LET (once per row).        *)
RECURSIVE DenAll(_, _)
DenAll(u, k) == IF k > Len(u) THEN <<>> ELSE <<Den(u[k])>> \o DenAll(u, k + 1)
DU == DenAll(U, 1)

(* the rankings of the variables *)
PermSeq == << <<1, 2, 3>>, <<1, 3, 2>>, <<2, 1, 3>>, <<2, 3, 1>>, <<3, 1, 2>>, <<3, 2, 1>> >>
NP == Len(PermSeq)
VR(p) == (X :> PermSeq[p][1]) @@ (Y :> PermSeq[p][2]) @@ (Z :> PermSeq[p][3])

(* ---- theorems about the oracle (ASSUME: evaluated once; a failure is a tool error) ----      *)
(* Compare consults vr only where BOTH terms have a variable at the same position, so a pair in  *)
(* which one term is ground has the same result under every ranking: the matrix of ranking 1 is  *)
(* reused for those pairs.  Force turns a lazily evaluated function into a tuple.                *)
Force(fn) == fn \o <<>>
HasVars(du) == Force([x \in 1..Len(du) |-> VarsOf(du[x]) # {}])
Matrix1(du) == Force([x \in 1..Len(du) |-> Force([y \in 1..Len(du) |-> Compare(du[x], du[y], VR(1))])])
MatrixP(du, hv, m1, p) ==
  IF p = 1 THEN m1
  ELSE Force([x \in 1..Len(du) |-> Force([y \in 1..Len(du) |->
               IF hv[x] /\ hv[y] THEN Compare(du[x], du[y], VR(p)) ELSE m1[x][y]])])
(* rank[x] = number of elements strictly below du[x].  If the matrix entry (x, y) is the sign of *)
(* rank[x] - rank[y] for ALL pairs, and equal ranks mean identical denotations, then Compare is  *)
(* antisymmetric, transitive and total on the universe and "=" holds iff the terms are           *)
(* identical (StdOrder!AntiSymAt, EqIsIdentAt, TransAt for all triples).                         *)
TotalOrderMatrix(du, mx) ==
  LET n == Len(du)
      rank == Force([x \in 1..n |-> Cardinality({y \in 1..n : mx[x][y] > 0})])
  IN \A x, y \in 1..n :
       /\ mx[x][y] = Sgn(rank[x] - rank[y])
       /\ (rank[x] = rank[y]) <=> (du[x] = du[y])
ASSUME OracleIsTotalOrder ==
  LET du == DU
      hv == HasVars(du)
      m1 == Matrix1(du)
  IN \A p \in 1..NP : TotalOrderMatrix(du, MatrixP(du, hv, m1, p))
(* the operator table is what it says *)
ASSUME \A o \in {"<", "=", ">"} : Holds("==", o) = ~Holds("\\==", o) /\ Holds("@<", o) = ~Holds("@>=", o)
                                 /\ Holds("@>", o) = ~Holds("@=<", o)

(* ---- generation: one state per row i; rows are spread over G group states so that TLC's      *)
(* workers evaluate them in parallel ---- *)
G == 16
VARIABLES phase, g, i
vars == <<phase, g, i>>

Init == phase = "group" /\ g \in 0..(G - 1) /\ i = 0
Next == phase = "group" /\ phase' = "row" /\ g' = g /\ i' \in {r \in 1..N : r % G = g}

AllNames(du) == UNION {NamesOf(du[k]) : k \in 1..Len(du)}

Emit ==
  /\ (phase = "group" /\ g = 0) =>
       LET du == DU IN
       PrintT(ToJson([k |-> "tab", names |-> NameTable(AllNames(du)), n |-> N,
                      preds |-> [q \in 1..Len(CmpPreds) |->
                                   [p |-> CmpPreds[q], lt |-> Holds(CmpPreds[q], "<"),
                                    eq |-> Holds(CmpPreds[q], "="), gt |-> Holds(CmpPreds[q], ">")]]]))
  /\ phase = "row" =>
       LET du == DU
           c1 == Force([j \in 1..N |-> Compare(du[i], du[j], VR(1))])
           vi == VarsOf(du[i]) # {}
       IN PrintT(ToJson([k |-> "row", i |-> i, b |-> U[i], tm |-> du[i],
                         os |-> [j \in 1..N |->
                                   IF vi /\ VarsOf(du[j]) # {}
                                   THEN [p \in 1..NP |-> Sym(Compare(du[i], du[j], VR(p)))]
                                   ELSE [p \in 1..NP |-> Sym(c1[j])]]]))
=============================================================================
