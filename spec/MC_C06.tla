------------------------------- MODULE MC_C06 -------------------------------
(* C06: clause selection returns exactly the clauses whose heads unify, in textual order.  *)
(* Layer A is Prolog!TryClauses: filter by head unifiability.  A predicate is a sequence of *)
(* 2..4 facts p(K, i) with K from a palette of first-argument keys (i = clause number, so   *)
(* the answers identify the selected clauses); a call is p(C, I) with C from the palette or *)
(* unbound.  The abstract machine computes the answer sequence; the driver materialises     *)
(* every key in several concrete ways (literal, computed at run time, asserted).            *)
EXTENDS Prolog, Json

CONSTANT Tier

Leaf(tag, txt) == [t |-> tag, n |-> txt, i |-> 0, a |-> <<>>]
(* key id -> abstract term.  "big"/"r"/"f" leaves are constants that unify only with themselves *)
Pal == [ a    |-> A("a"),
         b    |-> A("b"),
         nil  |-> Nil,
         i1   |-> I(1),
         i2   |-> I(2),
         big  |-> Leaf("big", "1180591620717411303424"),
         nbig |-> Leaf("big", "-36028797018963969"),
         rat  |-> Leaf("r", "1/3"),
         flt  |-> Leaf("f", "1.5"),
         str  |-> ListOf(<<A("a"), A("b")>>),
         lst  |-> Cons(A("x"), V("T")),
         fx   |-> C1("f", A("x")),
         fv   |-> C1("f", V("Y")),
         g2   |-> C2("g", A("x"), A("y")),
         var  |-> V("K") ]
KeysQuick == {"a", "b", "nil", "i2", "big", "rat", "flt", "str", "lst", "fx", "fv", "var"}
KeysFull  == DOMAIN Pal
Keys == IF Tier = "quick" THEN KeysQuick ELSE KeysFull
CallKeys == Keys \cup {"i1", "g2"}

Heads(n) == [1..n -> Keys]
Lens == IF Tier = "quick" THEN {2, 3} ELSE {2, 3, 4}
(* quick: predicates of four clauses over a reduced palette (one atom, one integer, two structures of one functor, a list and a *)
(* string): the shapes where a key class has one key used by several clauses next to several clauses of another class            *)
Keys4 == {"a", "fx", "fv", "lst", "str", "i2"}
LensGen == IF Tier = "quick" THEN {2, 3, 4} ELSE Lens
HeadsGen(n) == IF Tier = "quick" /\ n = 4 THEN [1..4 -> Keys4] ELSE Heads(n)

Prog(hs) == [j \in 1..Len(hs) |-> [h |-> C2("p", Rename(Pal[hs[j]], 100 + j), I(j)), b |-> True]]

VARIABLES m, hs, ck
vars == <<m, hs, ck>>
Init == m = [phase |-> "gen"] /\ hs = <<>> /\ ck = ""
Gen == /\ m.phase = "gen"
       /\ \E n \in LensGen : \E h \in HeadsGen(n) : \E c \in CallKeys :
            /\ (Tier = "quick" /\ n >= 3 => \E j \in 1..n : h[j] = c \/ c = "var" \/ h[j] = "var")  \* prune: keep relevant calls
            /\ hs' = h /\ ck' = c
            /\ m' = Load(Prog(h), {}, C2("p", Rename(Pal[c], 200), V("I")))
Run1 == m.phase = "run" /\ m' = Step(m) /\ UNCHANGED <<hs, ck>>
Next == Gen \/ Run1

Inv == MachineOk(m)
Emit == m.phase = "done" =>
          PrintT(ToJson([hs |-> hs, ck |-> ck, status |-> m.status,
                         sel |-> [j \in 1..Len(m.ans) |-> m.ans[j][Len(m.ans[j])].i]]))
=============================================================================
