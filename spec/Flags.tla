-------------------------------- MODULE Flags --------------------------------
(* C44: the Prolog flags as a state machine (layer A).                                               *)
(*                                                                                                    *)
(* Sources: ISO/IEC 13211-1 7.11 (flags), 8.17.1 (set_prolog_flag/2), 8.17.2 (current_prolog_flag/2),  *)
(* and the doc comments of current_prolog_flag/2 and set_prolog_flag/2 in /repo/src/lib/builtins.pl,   *)
(* which list the flags Scryer supports, their values and which are read only.  Where the two differ   *)
(* the choice is recorded next to the operator.                                                        *)
(*                                                                                                    *)
(* State: the values of the changeable flags.  Arguments are terms (module Terms) so that unbound and  *)
(* ill-typed arguments are first-class.                                                                *)
EXTENDS Terms

(* builtins.pl, doc comment of current_prolog_flag/2: "The flags that Scryer Prolog support are" *)
ReadOnly  == {"max_arity", "bounded", "integer_rounding_function", "max_integer", "min_integer"}
Writable  == {"double_quotes", "occurs_check", "unknown", "answer_write_options"}
FlagNames == ReadOnly \cup Writable

(* write options (builtins.pl parse_write_options_/2; variable_names/1 is not used by this model) *)
ValidWriteOption(x) ==
  \/ /\ x.t = "c" /\ Len(x.a) = 1 /\ x.n \in {"quoted", "ignore_ops", "numbervars", "double_quotes"}
     /\ x.a[1] \in {A("true"), A("false")}
  \/ /\ IsF(x, "max_depth", 1) /\ IsInt(x.a[1]) /\ x.a[1].i >= 0
RECURSIVE ValidOptionList(_)
ValidOptionList(x) == \/ x = Nil
                      \/ IsF(x, ".", 2) /\ ValidWriteOption(x.a[1]) /\ ValidOptionList(x.a[2])

(* the values a flag can take (7.11; doc comment).  unknown: ISO 7.11.2.4 and the code say error/fail/warning; *)
(* the doc comment writes "warn" for the third - the model follows ISO and does not use "warn".              *)
InDomain(f, v) ==
  CASE f = "max_arity"                 -> IsInt(v) /\ v.i > 0
    [] f = "bounded"                   -> v \in {A("true"), A("false")}
    [] f = "integer_rounding_function" -> v \in {A("toward_zero"), A("down")}
    [] f \in {"max_integer", "min_integer"} -> IsInt(v)
    [] f = "double_quotes"             -> v \in {A("chars"), A("codes"), A("atom")}
    [] f = "occurs_check"              -> v \in {A("false"), A("true"), A("error")}
    [] f = "unknown"                   -> v \in {A("error"), A("fail"), A("warning")}
    [] f = "answer_write_options"      -> ValidOptionList(v)

(* doc comment: max_arity "is set to 255", bounded "always false", integer_rounding_function "always         *)
(* toward_zero"; max_integer / min_integer: "checking the value of this flag fails" (unbounded integers),      *)
(* i.e. these two flags have no value.                                                                       *)
HasValue(f) == f \notin {"max_integer", "min_integer"}
Fixed(f) == CASE f = "max_arity" -> I(255) [] f = "bounded" -> A("false") [] f = "integer_rounding_function" -> A("toward_zero")

InitState == [f \in Writable |->
                CASE f = "double_quotes" -> A("chars") [] f = "occurs_check" -> A("false")
                  [] f = "unknown" -> A("error") [] f = "answer_write_options" -> Nil]
Value(st, f) == IF f \in Writable THEN st[f] ELSE Fixed(f)

InstErr        == A("instantiation_error")
TypeErr(t, c)  == C2("type_error", A(t), c)
DomErr(d, c)   == C2("domain_error", A(d), c)
PermErr(f)     == C3("permission_error", A("modify"), A("flag"), f)
Success        == A("$success")
Failure        == A("$failure")

(* current_prolog_flag(F, V), 8.17.2: errs # {} : raises one of errs; else the set of solutions <<flag, value>>. *)
(* The same relation answers whether F is given or enumerated (property C44).                                   *)
Match(x, v) == IsVar(x) \/ x = v
Current(st, Fl, Val) ==
  IF ~IsVar(Fl) /\ ~IsAtom(Fl) THEN [errs |-> {TypeErr("atom", Fl)}, sols |-> {}]                    \* 8.17.2.3 a
  ELSE IF IsAtom(Fl) /\ Fl.n \notin FlagNames THEN [errs |-> {DomErr("prolog_flag", Fl)}, sols |-> {}] \* 8.17.2.3 b
  ELSE [errs |-> {},
        sols |-> {<<f, Value(st, f)>> : f \in {f \in FlagNames : HasValue(f) /\ Match(Fl, A(f)) /\ Match(Val, Value(st, f))}}]

(* set_prolog_flag(Fl, Val), 8.17.1: out = the admissible outcomes (Success, Failure, or the Formal of an error),   *)
(* next = the state afterwards.  ISO fixes no precedence among applicable errors.                                *)
(*  - a changeable flag with a value of its domain: succeeds, and afterwards Current(Fl, Val) holds;                *)
(*  - a value outside the domain: domain_error(flag_value, Fl + Val) (8.17.1.3 e; builtins.pl flag_domain_error);   *)
(*  - a read-only flag: ISO 8.17.1.3 f raises permission_error(modify, flag, Fl); the doc comment of              *)
(*    set_prolog_flag/2 says "The flags that are read only will fail if you try to change their values".        *)
(*    Both are accepted for a value of the domain other than the flag's value; giving the flag's own value       *)
(*    changes nothing and may succeed (then Current(Fl, Val) holds afterwards, as the property demands).            *)
Set(st, Fl, Val) ==
  LET e0 == (IF IsVar(Fl) \/ IsVar(Val) THEN {InstErr} ELSE {})                                    \* 8.17.1.3 a, b
            \cup (IF ~IsVar(Fl) /\ ~IsAtom(Fl) THEN {TypeErr("atom", Fl)} ELSE {})                   \* 8.17.1.3 c
            \cup (IF IsAtom(Fl) /\ Fl.n \notin FlagNames THEN {DomErr("prolog_flag", Fl)} ELSE {})   \* 8.17.1.3 d
  IN IF e0 # {} THEN [out |-> e0, next |-> st]
     ELSE LET f == Fl.n  ro == Fl.n \in ReadOnly IN
          IF ~InDomain(f, Val) THEN [out |-> {DomErr("flag_value", C2("+", Fl, Val))} \cup (IF ro THEN {PermErr(Fl)} ELSE {}), next |-> st]
          ELSE IF ro THEN [out |-> {PermErr(Fl)} \cup (IF HasValue(f) /\ Val = Fixed(f) THEN {Success} ELSE {Failure}), next |-> st]
          ELSE [out |-> {Success}, next |-> [st EXCEPT ![f] = Val]]

(* effects of the changeable flags *)
(* 7.11.2.5: a double quoted list token is read as a list of one-char atoms, a list of character codes or   *)
(* an atom, "depending on the value of the flag double_quotes"; the empty token "" is the boundary case:     *)
(* it reads as [] under chars and codes and as the empty atom '' under atom (6.3.7, 6.4.6).                   *)
CodeOf(ch) == CASE ch = "a" -> 97 [] ch = "b" -> 98
RECURSIVE CatNames(_)
CatNames(q) == IF q = <<>> THEN "" ELSE Head(q) \o CatNames(Tail(q))
DQ(st, chs) == CASE st["double_quotes"] = A("chars") -> ListOf([j \in 1..Len(chs) |-> A(chs[j])])
                 [] st["double_quotes"] = A("codes") -> ListOf([j \in 1..Len(chs) |-> I(CodeOf(chs[j]))])
                 [] st["double_quotes"] = A("atom")  -> A(CatNames(chs))
(* the term read from the probe text  t("ab", "", "a", f("", "b"), ["", "ab"]).  *)
ReadString(st) == C("t", <<DQ(st, <<"a", "b">>), DQ(st, <<>>), DQ(st, <<"a">>),
                          C2("f", DQ(st, <<>>), DQ(st, <<"b">>)),
                          ListOf(<<DQ(st, <<>>), DQ(st, <<"a", "b">>)>>)>>)
(* doc comment: occurs_check false: X = f(X) creates a cyclic term (succeeds); true: "unification has this check  *)
(* enabled" (fails); error: "throws an exception when a cyclic term is created" (the Formal is not documented)    *)
OccursProbe(st) == CASE st["occurs_check"] = A("false") -> "succeeds"
                     [] st["occurs_check"] = A("true")  -> "fails"
                     [] st["occurs_check"] = A("error") -> "error"
(* 7.11.2.4 / 7.7.7: calling a procedure that does not exist *)
UnknownProbe(st, name) ==
  IF st["unknown"] = A("error") THEN C2("existence_error", A("procedure"), C2("/", A(name), I(0))) ELSE Failure
=============================================================================
