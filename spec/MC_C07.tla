------------------------------- MODULE MC_C07 -------------------------------
(* C07: compiled programs compute ISO SLD-resolution answers.                              *)
(* TLC enumerates programs from a grammar (exhaustively for the small scope, by simulation *)
(* with random construction beyond), runs the abstract machine Prolog!Step on each and     *)
(* prints program, query and the expected answer sequence / ball as one vector.            *)
EXTENDS Prolog, Json

CONSTANT Tier, Mode        \* Mode: "exh" (exhaustive small scope) | "sim" (random programs under -simulate)

X == V("X")  Y == V("Y")  Z == V("Z")
a == A("a")  b == A("b")  c == A("c")
P1(t) == C1("p", t)
Q1(t) == C1("q", t)
T1(t) == C1("t", t)
R2(s, t) == C2("r", s, t)

(* fixed helper predicates *)
Helpers == <<
  [h |-> Q1(a), b |-> True], [h |-> Q1(b), b |-> True],
  [h |-> T1(I(1)), b |-> True], [h |-> T1(I(2)), b |-> True], [h |-> T1(I(3)), b |-> True],
  [h |-> R2(a, I(1)), b |-> True], [h |-> R2(b, I(2)), b |-> True], [h |-> R2(c, I(3)), b |-> True],
  [h |-> C2("u", X, Y), b |-> Conj(Q1(X), R2(X, Y))],
  [h |-> C1("v", V("U")), b |-> True],
  [h |-> C2("w", X, Y), b |-> Conj(T1(I(1)), Conj(Eq(X, a), Eq(Y, A("second"))))],
  [h |-> C3("app", Nil, X, X), b |-> True],
  [h |-> C3("app", Cons(V("H"), V("T")), Y, Cons(V("H"), V("R"))), b |-> C3("app", V("T"), Y, V("R"))],
  [h |-> C2("len", Nil, I(0)), b |-> True],
  [h |-> C2("len", Cons(V("H"), V("T")), V("N")), b |-> Conj(C2("len", V("T"), V("M")), C2("is", V("N"), C2("+", V("M"), I(1))))]
>>

Atoms0 == { Q1(X), Q1(Y), T1(Y), R2(X, Y), Eq(X, a), Eq(X, b), Eq(X, Y), Eq(Y, a), Eq(X, C1("f", Y)),
            Cut, Fail, True, C2("\\=", X, a), C2("==", X, a), C2("==", X, Y), C1("var", X), C1("nonvar", X),
            C1("atom", X), C2("is", Y, C2("+", I(1), I(1))), C2("<", Y, I(2)), C2("u", X, Y),
            C3("app", Y, Z, ListOf(<<a, b>>)), C2("is", X, C2("+", Y, I(1))), C2("is", X, V("W")), C1("zz", X) }
AtomsS == { Q1(X), Q1(Y), Eq(X, a), Eq(X, Y), Cut, Fail, True, T1(Y), C1("var", X) }
AtomsQ == { Q1(X), Eq(X, b), Cut, Fail }

Level1(S) == { Disj(g1, g2) : g1 \in S, g2 \in S }
        \cup { It(g1, g2) : g1 \in S, g2 \in S }
        \cup { Not(g1) : g1 \in S }
        \cup { Call1(g1) : g1 \in S }
        \cup { Call1(Conj(g1, g2)) : g1 \in S, g2 \in S }
        \cup { C2("call", A("q"), X), C2("call", C1("r", X), Y), C3("call", A("r"), X, Y), Call1(I(1)), Call1(V("G")),
               Call1(Conj(Fail, I(1))) }
        \cup { C3("findall", Y, g1, V("L")) : g1 \in {Q1(Y), T1(Y), Fail, R2(X, Y)} }
        \cup { C3("catch", g1, V("E"), g2) : g1 \in {C1("throw", a), C1("throw", X), Q1(X), C2("is", X, a), Conj(Q1(X), C1("throw", X))},
                                              g2 \in {True, Eq(X, c), Fail} }
        \cup { C1("throw", a), C1("throw", C1("f", X)), C1("once", Q1(X)), C2("forall", Q1(Y), C1("atom", Y)) }
Ite3 == { Ite(g1, g2, g3) : g1 \in AtomsQ, g2 \in AtomsQ, g3 \in AtomsQ }

BodiesQuick == Atoms0 \cup Level1(AtomsS) \cup Ite3
              \cup { Conj(g1, g2) : g1 \in AtomsS, g2 \in AtomsS }
              \cup { Conj(g1, Conj(g2, g3)) : g1 \in {Q1(X), T1(Y)}, g2 \in {Cut, Q1(Y), Eq(X, Y)}, g3 \in {Cut, Fail, Q1(X)} }
BodiesFull == BodiesQuick
              \cup { Conj(g1, g2) : g1 \in Atoms0, g2 \in Atoms0 }
              \cup { Conj(g1, g2) : g1 \in Level1(AtomsQ), g2 \in AtomsS }
              \cup { Conj(g1, g2) : g1 \in AtomsS, g2 \in Level1(AtomsQ) }
              \cup { Disj(g1, g2) : g1 \in Level1(AtomsQ), g2 \in AtomsQ }
Bodies == IF Tier = "quick" THEN BodiesQuick ELSE BodiesFull

Heads == { P1(X), P1(a), P1(C1("f", X)) }
ClausesA == { [h |-> hd, b |-> bd] : hd \in Heads, bd \in Bodies }
ClausesB == { [h |-> P1(b), b |-> True], [h |-> P1(X), b |-> Q1(X)], [h |-> P1(c), b |-> Cut],
              [h |-> P1(X), b |-> Conj(T1(X), Cut)], [h |-> P1(C1("f", Y)), b |-> Q1(Y)], [h |-> P1(a), b |-> Fail] }
ClausesBQ == { [h |-> P1(b), b |-> True], [h |-> P1(X), b |-> Q1(X)], [h |-> P1(c), b |-> Cut] }
CB == IF Tier = "quick" THEN ClausesBQ ELSE ClausesB

Queries == { P1(X) }

(* family F: a variable that first occurs in the body and is still unbound is passed to the last call of several  *)
(* arms of a clause-final disjunction (unsafe-variable handling across branches), the callees allocate their own    *)
(* environments, and the predicate is called from a clause that keeps an environment (tp/1).                        *)
ArmsF == { R2(Y, X), C2("u", Y, X), Conj(T1(I(1)), R2(Y, X)), Conj(Q1(Z), C2("u", Y, X)), Eq(X, Y), Conj(T1(I(1)), C2("w", Y, X)) }
PreF == { C1("v", Y), True, Q1(Z) }
BodiesF == { Conj(pre, Disj(a1, a2)) : pre \in PreF, a1 \in ArmsF, a2 \in ArmsF }
           \cup { Conj(pre, Disj(a1, Disj(a2, a3))) : pre \in {C1("v", Y)}, a1 \in ArmsF, a2 \in ArmsF, a3 \in {R2(Y, X), C2("u", Y, X), C2("w", Y, X)} }
           \cup { Conj(pre, Ite(Q1(Z), a1, a2)) : pre \in {C1("v", Y)}, a1 \in ArmsF, a2 \in ArmsF }
ProgsF == { << [h |-> P1(X), b |-> bd], [h |-> C1("tp", X), b |-> Conj(P1(X), T1(I(1)))] >> : bd \in BodiesF }

(* ---- random construction for simulation mode ----                                        *)
(* every operator takes a dummy argument: TLC caches the value of zero-arity definitions,     *)
(* which would freeze RandomElement to a single draw.                                         *)
RVars == {X, Y, Z}
RTerms == RVars \cup {a, b, I(1), I(2), C1("f", X), C1("f", a), Cons(X, Y), ListOf(<<a>>), ListOf(<<a, b>>), C2("g", X, Y)}
RT(u) == RandomElement(RTerms)
RAtomic(u) ==
  LET k == RandomElement(1..20) IN
  CASE k = 1 -> Q1(RT(u)) [] k = 2 -> T1(RT(u)) [] k = 3 -> R2(RT(u), RT(u)) [] k = 4 -> Eq(RT(u), RT(u))
    [] k = 5 -> C2("\\=", RT(u), RT(u)) [] k = 6 -> C2("==", RT(u), RT(u)) [] k = 7 -> Cut [] k = 8 -> Fail [] k = 9 -> True
    [] k = 10 -> C1(RandomElement({"var", "nonvar", "atom", "integer", "atomic", "compound"}), RT(u))
    [] k = 11 -> (* the left operand is a variable or a number: a compiled is/2 whose left operand can never be a number
                    fails without evaluating (a C03 matter: dependence on how the expression reaches is/2) *)
                 C2("is", RandomElement({X, Y, Z, I(1), I(2)}), C2(RandomElement({"+", "-", "*"}), RandomElement({X, Y, I(1), I(2)}), I(1)))
    [] k = 12 -> C2(RandomElement({"<", "=:=", ">="}), RandomElement({X, Y, I(1)}), I(2))
    [] k = 13 -> C2("u", RT(u), RT(u)) [] k = 14 -> C3("app", RT(u), RT(u), RT(u)) [] k = 15 -> C2("len", RT(u), RT(u))
    [] k = 16 -> P1(RT(u)) [] k = 17 -> C2("p2", RT(u), RT(u)) [] k = 18 -> C1("throw", RT(u))
    [] k = 19 -> Q1(X) [] k = 20 -> Eq(X, RT(u))
RECURSIVE RGoal(_)
RGoal(d) ==
  IF d = 0 THEN RAtomic(d)
  ELSE LET kind == RandomElement(1..12) IN
       CASE kind = 1 -> Conj(RGoal(d - 1), RGoal(d - 1))
         [] kind = 2 -> Disj(RGoal(d - 1), RGoal(d - 1))
         [] kind = 3 -> Ite(RGoal(d - 1), RGoal(d - 1), RGoal(d - 1))
         [] kind = 4 -> It(RGoal(d - 1), RGoal(d - 1))
         [] kind = 5 -> Not(RGoal(d - 1))
         [] kind = 6 -> Call1(RGoal(d - 1))
         [] kind = 7 -> C3("findall", RT(d), RGoal(d - 1), RT(d))
         [] kind = 8 -> C3("catch", RGoal(d - 1), RT(d), RGoal(d - 1))
         [] kind = 9 -> C1("once", RGoal(d - 1))
         [] OTHER -> RAtomic(d)
RBody(u) == LET n == RandomElement(0..3) IN ConjOf([j \in 1..n |-> RGoal(RandomElement(0..2))])
RClause(name, ar) == [h |-> C(name, [j \in 1..ar |-> RT(j)]), b |-> RBody(ar)]
RProgram(u) == LET n1 == RandomElement(1..4)  n2 == RandomElement(0..3)
               IN [j \in 1..n1 |-> RClause("p", 1)] \o [j \in 1..n2 |-> RClause("p2", 2)]
RQuery(u) == LET k == RandomElement(1..4) IN
             CASE k = 1 -> P1(X) [] k = 2 -> C2("p2", X, Y) [] k = 3 -> Conj(P1(X), C2("p2", X, Y)) [] k = 4 -> P1(RT(u))

VARIABLE m
Init == m = [phase |-> "gen"]
Gen ==
  /\ m.phase = "gen"
  /\ IF Mode = "exh"
     THEN \/ \E pf \in ProgsF : m' = Load(pf \o Helpers, {}, C1("tp", X))
          \/ \E ca \in ClausesA : \E q \in Queries :
            \/ m' = Load(<<ca>> \o Helpers, {}, q)
            \/ \E cb \in CB : m' = Load(<<ca, cb>> \o Helpers, {}, q) \/ m' = Load(<<cb, ca>> \o Helpers, {}, q)
     ELSE m' = Load(RProgram(1) \o Helpers, {<<"p2", 2>>}, RQuery(1))
Run1 == m.phase = "run" /\ m' = Step(m)
Next == Gen \/ Run1

Inv == MachineOk(m) /\ CollectorsOk(m)

Emit == m.phase = "done" /\ m.status \in {"done", "exc", "capped", "halt"} =>
          PrintT(ToJson([prog |-> SubSeq(m.prog, 1, Len(m.prog) - Len(Helpers)), q |-> m.q, qv |-> m.qv,
                         ans |-> m.ans, dynkeys |-> (IF Mode = "sim" THEN << <<"p2", 2>> >> ELSE <<>>), status |-> m.status, ball |-> m.ball, balts |-> m.balts, steps |-> m.steps]))
=============================================================================
