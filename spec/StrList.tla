------------------------------- MODULE StrList -------------------------------
(* C20, layer A: there is no string type.  A string IS the list of its one-character atoms, so  *)
(* the value of every operation on a string is its value on that list.  An abstract value is   *)
(*     [cs |-> sequence of code points, tl |-> "nil" | "var" | "atom"]                           *)
(* (the characters and what the list ends in: [], an unbound variable, the atom foo).           *)
(* This module states, for each operation of the property, the result on the abstract list as   *)
(* a term (uniform records understood by lib/terms.py; a one-character atom carries its code    *)
(* point, so that no text with NUL or astral characters passes through TLC strings).            *)
(* Sources: ISO 13211-1 (8.2 =, 8.4 compare and 7.2 standard order, 8.5 functor/arg/=../         *)
(* copy_term, 8.16 atom_chars/atom_length, 8.4.3-4 sort), library(lists) of Scryer (length/2,    *)
(* append/3, nth0/3, nth1/3 with their documented modes) and DESIGN.md Appendix 2 (length of a   *)
(* list ending in a non-list fails; arg/functor/=.. errors).                                     *)
EXTENDS Integers, Sequences, FiniteSets

TA(n)       == [t |-> "a", n |-> n, i |-> 0, a |-> <<>>]       \* atom given by its text
Ch(c)       == [t |-> "a", n |-> <<c>>, i |-> 0, a |-> <<>>]   \* one-character atom given by its code point
TV(n)       == [t |-> "v", n |-> n, i |-> 0, a |-> <<>>]
TI(k)       == [t |-> "i", n |-> "", i |-> k, a |-> <<>>]
TC(n, args) == [t |-> "c", n |-> n, i |-> 0, a |-> args]
NilT        == TA("[]")
Foo         == TA("foo")
TailT(tl, vn) == CASE tl = "nil" -> NilT [] tl = "var" -> TV(vn) [] tl = "atom" -> Foo
RECURSIVE LT(_, _)
LT(cs, tt) == IF cs = <<>> THEN tt ELSE TC(".", <<Ch(cs[1]), LT(Tail(cs), tt)>>)      \* list of characters ending in tt
RECURSIVE ListTerm(_)
ListTerm(ts) == IF ts = <<>> THEN NilT ELSE TC(".", <<ts[1], ListTerm(Tail(ts))>>)   \* proper list of terms
Yes(args) == TC("yes", args)
No        == TA("no")
Err(e)    == TC("err", <<e>>)
InstErr   == TA("instantiation_error")
TypeErr(ty, culprit) == TC("type_error", <<TA(ty), culprit>>)
Pair(x, y) == TC("-", <<x, y>>)

ST(V) == LT(V.cs, TailT(V.tl, "T"))        \* the term the value denotes; its tail variable is T
Proper(V) == V.tl = "nil"

RECURSIVE SortedOf(_)
SortedOf(S) == IF S = {} THEN <<>> ELSE LET m == CHOOSE x \in S : \A y \in S : x <= y IN <<m>> \o SortedOf(S \ {m})
Range(s) == {s[j] : j \in DOMAIN s}

(* ---- standard order of two lists of characters (ISO 7.2): Var < Atom < Compound; atoms and hence characters by their  *)
(* text, i.e. by code point; '.'(H,T) against '.'(H2,T2): first H, then T.  [] precedes foo.                             *)
TailRank(t) == CASE t = "var" -> 0 [] t = "nil" -> 1 [] t = "atom" -> 2
RECURSIVE Order(_, _, _, _)
Order(s1, t1, s2, t2) ==
  IF s1 = <<>> /\ s2 = <<>> THEN (IF TailRank(t1) < TailRank(t2) THEN "<" ELSE IF TailRank(t1) > TailRank(t2) THEN ">" ELSE "=")
  ELSE IF s1 = <<>> THEN "<"
  ELSE IF s2 = <<>> THEN ">"
  ELSE IF s1[1] < s2[1] THEN "<" ELSE IF s1[1] > s2[1] THEN ">" ELSE Order(Tail(s1), t1, Tail(s2), t2)
Flip(o) == CASE o = "<" -> ">" [] o = ">" -> "<" [] o = "=" -> "="

(* ---- unification of two lists V (tail variable T) and P (tail variable named P.vn): the unified list, or No ---- *)
Min(a, b) == IF a < b THEN a ELSE b
UnifyLists(V, P) ==
  LET n == Len(V.cs)  m == Len(P.cs)  k == Min(n, m) IN
  IF SubSeq(V.cs, 1, k) # SubSeq(P.cs, 1, k) THEN No
  ELSE IF n = m THEN
       IF V.tl = P.tl THEN Yes(<<LT(V.cs, TailT(V.tl, "T"))>>)
       ELSE IF V.tl = "var" THEN Yes(<<LT(P.cs, TailT(P.tl, P.vn))>>)
       ELSE IF P.tl = "var" THEN Yes(<<LT(V.cs, TailT(V.tl, "T"))>>)
       ELSE No
  ELSE IF n < m THEN (IF V.tl = "var" THEN Yes(<<LT(P.cs, TailT(P.tl, P.vn))>>) ELSE No)
  ELSE (IF P.tl = "var" THEN Yes(<<LT(V.cs, TailT(V.tl, "T"))>>) ELSE No)
Identical(V, P) == V.cs = P.cs /\ V.tl = P.tl /\ (V.tl = "var" => P.vn = "T")

(* the four observations on a pair: compare both ways, ==, = *)
PairResult(V, P) ==
  LET o == Order(V.cs, V.tl, P.cs, P.tl)
  IN TC("r", <<TA(o), TA(Flip(o)), TA(IF Identical(V, P) THEN "yes" ELSE "no"), UnifyLists(V, P)>>)

(* ---- the near-equal partners of a value ---- *)
Partner(id, cs, tl, vn) == [id |-> id, cs |-> cs, tl |-> tl, vn |-> vn]
Partners(V) ==
  LET n == Len(V.cs) IN
  << Partner("same", V.cs, V.tl, "T") >>
  \o (IF n >= 1 THEN << Partner("lastup", [V.cs EXCEPT ![n] = @ + 1], V.tl, "T"),
                        Partner("short", SubSeq(V.cs, 1, n - 1), V.tl, "U") >> ELSE <<>>)
  \o (IF n >= 1 /\ V.cs[n] > 1 THEN << Partner("lastdown", [V.cs EXCEPT ![n] = @ - 1], V.tl, "T") >> ELSE <<>>)
  \o << Partner("long", V.cs \o <<98>>, V.tl, "U") >>
  \o (IF V.tl # "nil" THEN << Partner("tailnil", V.cs, "nil", "U") >> ELSE <<>>)
  \o (IF V.tl # "var" THEN << Partner("tailvar", V.cs, "var", "U") >> ELSE <<>>)
  \o (IF V.tl # "atom" THEN << Partner("tailatom", V.cs, "atom", "U") >> ELSE <<>>)

(* ---- the unary operations: sequence of [id, r] (r the expected value of the result variable R of the query template) ---- *)
OpR(id, r) == [id |-> id, r |-> r]
EmptyErr(V) == CASE V.tl = "nil" -> Err(TypeErr("compound", NilT))
                 [] V.tl = "atom" -> Err(TypeErr("compound", Foo))
                 [] V.tl = "var" -> Err(InstErr)
Ops(V) ==
  LET cs == V.cs
      n  == Len(cs)
      tt == TailT(V.tl, "T")
      rest == IF n >= 1 THEN LT(Tail(cs), tt) ELSE tt
      codes == ListTerm([j \in 1..n |-> TI(cs[j])])
  IN
  << OpR("len", IF V.tl = "atom" THEN No ELSE TI(n)),
     OpR("len_n", TA(IF V.tl = "atom" THEN "no" ELSE "yes")),
     OpR("app_z", IF V.tl = "atom" THEN No ELSE Yes(<<LT(cs \o <<122>>, NilT)>>)),
     OpR("app_last", IF V.tl = "atom" THEN No
                     ELSE IF n >= 1 THEN Yes(<<Ch(cs[n])>>)
                     ELSE IF V.tl = "var" THEN Yes(<<TV("_L")>>) ELSE No),
     OpR("copy", Pair(LT(cs, TailT(V.tl, "C")), TA(IF V.tl = "var" THEN "differs" ELSE "same"))),
     OpR("tvars", IF V.tl = "var" THEN ListTerm(<<TV("T")>>) ELSE NilT),
     OpR("ground", TA(IF V.tl = "var" THEN "no" ELSE "yes")),
     OpR("sort", CASE V.tl = "nil" -> Yes(<<LT(SortedOf(Range(cs)), NilT)>>)
                   [] V.tl = "var" -> Err(InstErr)
                   [] V.tl = "atom" -> Err(TypeErr("list", ST(V)))),
     OpR("achars", CASE V.tl = "nil" -> Yes(<<codes, TI(n)>>)
                     [] V.tl = "var" -> Err(InstErr)
                     [] V.tl = "atom" -> Err(TypeErr("list", ST(V)))),
     OpR("functor", IF n >= 1 THEN TC("/", <<TA("."), TI(2)>>)
                    ELSE CASE V.tl = "nil" -> TC("/", <<NilT, TI(0)>>) [] V.tl = "atom" -> TC("/", <<Foo, TI(0)>>) [] V.tl = "var" -> Err(InstErr)),
     OpR("univ", IF n >= 1 THEN ListTerm(<<TA("."), Ch(cs[1]), rest>>)
                 ELSE CASE V.tl = "nil" -> ListTerm(<<NilT>>) [] V.tl = "atom" -> ListTerm(<<Foo>>) [] V.tl = "var" -> Err(InstErr)),
     OpR("arg1", IF n >= 1 THEN Yes(<<Ch(cs[1])>>) ELSE EmptyErr(V)),
     OpR("arg2", IF n >= 1 THEN Yes(<<rest>>) ELSE EmptyErr(V)),
     (* walking down the list with arg/3, resp. =../2, cell by cell: the heads seen and the term left at the end *)
     OpR("walk_arg", TC("w", <<LT(cs, NilT), tt>>)),
     OpR("walk_univ", TC("w", <<LT(cs, NilT), tt>>)),
     OpR("head", IF n >= 1 THEN Yes(<<Ch(cs[1]), rest>>) ELSE IF V.tl = "var" THEN Yes(<<TV("_H"), TV("_R")>>) ELSE No),
     OpR("index", IF n >= 1 THEN ListTerm(<<TC("cons", <<Ch(cs[1])>>)>>)
                  ELSE CASE V.tl = "nil" -> ListTerm(<<TA("nil")>>) [] V.tl = "atom" -> ListTerm(<<TA("atom")>>)
                         [] V.tl = "var" -> ListTerm(<<TA("nil"), TC("cons", <<TV("_H")>>), TA("atom")>>)) >>
  \o (IF n >= 1 THEN << OpR("arg3", No),
                        OpR("arg1_bound", TA("yes")),
                        OpR("arg1_other", TA("no")),
                        OpR("nth1_last", Yes(<<Ch(cs[n])>>)),
                        OpR("nth0_first", Yes(<<Ch(cs[1])>>)) >> ELSE <<>>)
  \o (IF Proper(V) THEN << OpR("app_splits", ListTerm([k \in 1..(n + 1) |-> Pair(LT(SubSeq(cs, 1, k - 1), NilT), LT(SubSeq(cs, k, n), NilT))])),
                           OpR("nth0_all", ListTerm([j \in 1..n |-> Pair(TI(j - 1), Ch(cs[j]))])),
                           OpR("nth0_out", No),
                           OpR("print", TA("same_as_list")) >> ELSE <<>>)
  \o (IF V.tl = "atom" THEN << OpR("print", TA("same_as_list")) >> ELSE <<>>)
  (* one comparison that pairs the same list with two different suffixes of one string: S-T against K-K, where T is S without *)
  (* its first character (sharing S's cells) and K an explicit list equal to S.  The first components are equal, so the suffix decides. *)
  (* (Two suffixes at different offsets of two strings are not compared here: that runs into the recorded defect of          *)
  (* compare_pstr_slices, see known/C20.json.)                                                                                *)
  \o (IF V.tl = "nil" /\ n >= 2
      THEN LET o == Order(Tail(cs), "nil", cs, "nil")
           IN << OpR("suffix_pair", TC("r", <<TA(o), TA(Flip(o)), TA("no")>>)) >> ELSE <<>>)
  (* number_chars/2 consumes a string of digits 1..9 (no sign, layout or leading zero): the number whose decimal notation it is, *)
  (* observed through number_codes/2; a partial list is an instantiation error (ISO 8.16.7)                                      *)
  \o (IF n >= 1 /\ (\A j \in 1..n : cs[j] >= 49 /\ cs[j] <= 57) /\ V.tl # "atom"
      THEN << OpR("nchars", IF V.tl = "nil" THEN Yes(<<codes>>) ELSE Err(InstErr)) >> ELSE <<>>)

(* ---- laws of this layer (TLC checks them on every enumerated value) ---- *)
OrderLaws(V, P) == LET o == Order(V.cs, V.tl, P.cs, P.tl) IN
  /\ Order(P.cs, P.tl, V.cs, V.tl) = Flip(o)
  /\ (Identical(V, P) => o = "=")
  /\ ((o = "=" /\ V.tl # "var") => Identical(V, P))
  /\ (Identical(V, P) => UnifyLists(V, P) # No)
SplitLaw(V) == Proper(V) => \A k \in 0..Len(V.cs) : SubSeq(V.cs, 1, k) \o SubSeq(V.cs, k + 1, Len(V.cs)) = V.cs
SortLaw(V) == LET s == SortedOf(Range(V.cs)) IN Range(s) = Range(V.cs) /\ \A j \in 1..(Len(s) - 1) : s[j] < s[j + 1]
=============================================================================
