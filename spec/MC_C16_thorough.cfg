CONSTANT Tier = "thorough"
INIT Init
NEXT Next
INVARIANT Emit
INVARIANT SaneInt
INVARIANT SaneFlt
INVARIANT SaneLex
