CONSTANT Tier = "thorough"
INIT Init
NEXT Next
INVARIANT RowTheorems
INVARIANT Emit
