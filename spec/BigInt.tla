------------------------------- MODULE BigInt -------------------------------
(* Mathematical integers of unbounded size for TLC (whose native integers are 32-bit).       *)
(* A value is a record [neg |-> BOOLEAN, m |-> magnitude] where the magnitude is a            *)
(* little-endian sequence of limbs in base 10^4 without leading (= trailing in the sequence) *)
(* zero limbs; zero is [neg |-> FALSE, m |-> <<>>].                                           *)
(* This module is the trusted arithmetic core of the specification ("layer A" integers).     *)
(* It is validated in MC_BigInt against native TLC arithmetic and algebraic identities and   *)
(* cross-checked against Python integers by the driver on every run.                          *)
EXTENDS Integers, Sequences, TLC

Base == 10000

BZero == [neg |-> FALSE, m |-> <<>>]
IsZero(x) == x.m = <<>>

RECURSIVE Trim(_)
Trim(m) == IF m = <<>> THEN m
           ELSE IF m[Len(m)] = 0 THEN Trim(SubSeq(m, 1, Len(m) - 1)) ELSE m

Norm(neg, m) == LET t == Trim(m) IN [neg |-> (neg /\ t # <<>>), m |-> t]

RECURSIVE NatLimbs(_)
NatLimbs(n) == IF n = 0 THEN <<>> ELSE <<n % Base>> \o NatLimbs(n \div Base)

(* n must satisfy -2^31 < n < 2^31 *)
FromInt(n) == IF n < 0 THEN [neg |-> TRUE, m |-> NatLimbs(0 - n)]
              ELSE [neg |-> FALSE, m |-> NatLimbs(n)]

RECURSIVE LimbsNat(_, _)
LimbsNat(m, i) == IF i > Len(m) THEN 0 ELSE m[i] + Base * LimbsNat(m, i + 1)
(* only meaningful when the value fits 31 bits: Len(m) <= 2, or Len(m) = 3 with m[3] <= 20 *)
ToInt(x) == IF x.neg THEN 0 - LimbsNat(x.m, 1) ELSE LimbsNat(x.m, 1)
FitsInt(x) == Len(x.m) <= 2 \/ (Len(x.m) = 3 /\ x.m[3] <= 20)

-----------------------------------------------------------------------------
(* magnitudes *)

RECURSIVE MCmpFrom(_, _, _)
MCmpFrom(a, b, i) == IF i = 0 THEN 0
                     ELSE IF a[i] < b[i] THEN -1
                     ELSE IF a[i] > b[i] THEN 1
                     ELSE MCmpFrom(a, b, i - 1)
MCmp(a, b) == IF Len(a) # Len(b) THEN (IF Len(a) < Len(b) THEN -1 ELSE 1)
              ELSE MCmpFrom(a, b, Len(a))

RECURSIVE MAddC(_, _, _, _)
MAddC(a, b, i, c) ==
  IF i > Len(a) /\ i > Len(b) THEN (IF c = 0 THEN <<>> ELSE <<c>>)
  ELSE LET s == (IF i <= Len(a) THEN a[i] ELSE 0) + (IF i <= Len(b) THEN b[i] ELSE 0) + c
       IN <<s % Base>> \o MAddC(a, b, i + 1, s \div Base)
MAdd(a, b) == MAddC(a, b, 1, 0)

(* a >= b required *)
RECURSIVE MSubB(_, _, _, _)
MSubB(a, b, i, br) ==
  IF i > Len(a) THEN <<>>
  ELSE LET d == a[i] - (IF i <= Len(b) THEN b[i] ELSE 0) - br
       IN IF d < 0 THEN <<d + Base>> \o MSubB(a, b, i + 1, 1)
          ELSE <<d>> \o MSubB(a, b, i + 1, 0)
MSub(a, b) == Trim(MSubB(a, b, 1, 0))

(* 0 <= k < Base *)
RECURSIVE MMulSmallC(_, _, _, _)
MMulSmallC(a, k, i, c) ==
  IF i > Len(a) THEN (IF c = 0 THEN <<>> ELSE <<c>>)
  ELSE LET p == a[i] * k + c IN <<p % Base>> \o MMulSmallC(a, k, i + 1, p \div Base)
MMulSmall(a, k) == IF k = 0 \/ a = <<>> THEN <<>> ELSE MMulSmallC(a, k, 1, 0)

ShiftLimbs(a, n) == IF a = <<>> THEN <<>> ELSE [i \in 1..n |-> 0] \o a

RECURSIVE MMulAcc(_, _, _, _)
MMulAcc(a, b, i, acc) ==
  IF i > Len(b) THEN acc
  ELSE MMulAcc(a, b, i + 1, MAdd(acc, ShiftLimbs(MMulSmall(a, b[i]), i - 1)))
MMul(a, b) == IF a = <<>> \/ b = <<>> THEN <<>> ELSE MMulAcc(a, b, 1, <<>>)

(* division of a magnitude by 1 <= k < Base: <<quotient, remainder>> *)
RECURSIVE MDivSmallFrom(_, _, _, _, _)
MDivSmallFrom(a, k, i, r, q) ==
  IF i = 0 THEN <<Trim(q), r>>
  ELSE LET cur == r * Base + a[i]
       IN MDivSmallFrom(a, k, i - 1, cur % k, <<cur \div k>> \o q)
MDivSmall(a, k) == MDivSmallFrom(a, k, Len(a), 0, <<>>)

(* largest q in lo..hi with q*b <= r  (lo is known to satisfy it) *)
RECURSIVE QSearch(_, _, _, _)
QSearch(r, b, lo, hi) ==
  IF lo = hi THEN lo
  ELSE LET mid == (lo + hi + 1) \div 2
       IN IF MCmp(MMulSmall(b, mid), r) <= 0 THEN QSearch(r, b, mid, hi)
          ELSE QSearch(r, b, lo, mid - 1)

(* long division of magnitudes, b # <<>>: <<quotient, remainder>> *)
RECURSIVE MDivModFrom(_, _, _, _, _)
MDivModFrom(a, b, i, r, q) ==
  IF i = 0 THEN <<Trim(q), r>>
  ELSE LET cur == Trim(<<a[i]>> \o r)
           d   == IF MCmp(cur, b) < 0 THEN 0 ELSE QSearch(cur, b, 0, Base - 1)
           nr  == IF d = 0 THEN cur ELSE MSub(cur, MMulSmall(b, d))
       IN MDivModFrom(a, b, i - 1, nr, <<d>> \o q)
MDivMod(a, b) == IF MCmp(a, b) < 0 THEN <<(<<>>), a>> ELSE MDivModFrom(a, b, Len(a), <<>>, <<>>)

-----------------------------------------------------------------------------
(* signed integers *)

Neg(x) == IF IsZero(x) THEN x ELSE [neg |-> ~x.neg, m |-> x.m]
Abs(x) == [neg |-> FALSE, m |-> x.m]
Sign(x) == IF IsZero(x) THEN 0 ELSE IF x.neg THEN -1 ELSE 1

Cmp(x, y) ==
  IF x.neg /\ ~y.neg THEN -1
  ELSE IF ~x.neg /\ y.neg THEN 1
  ELSE IF x.neg THEN MCmp(y.m, x.m) ELSE MCmp(x.m, y.m)

Eq(x, y) == x = y
Lt(x, y) == Cmp(x, y) < 0
Le(x, y) == Cmp(x, y) <= 0

Add(x, y) ==
  IF x.neg = y.neg THEN Norm(x.neg, MAdd(x.m, y.m))
  ELSE LET c == MCmp(x.m, y.m)
       IN IF c = 0 THEN BZero
          ELSE IF c > 0 THEN Norm(x.neg, MSub(x.m, y.m))
          ELSE Norm(y.neg, MSub(y.m, x.m))
Sub(x, y) == Add(x, Neg(y))
Mul(x, y) == Norm(x.neg # y.neg, MMul(x.m, y.m))

One == FromInt(1)
Two == FromInt(2)

(* truncating division (ISO //, rem): quotient rounds toward zero, remainder has the sign of x *)
TDivMod(x, y) == LET qr == MDivMod(x.m, y.m)
                 IN <<Norm(x.neg # y.neg, qr[1]), Norm(x.neg, qr[2])>>
TDiv(x, y) == TDivMod(x, y)[1]
Rem(x, y)  == TDivMod(x, y)[2]

(* flooring division (div, mod): remainder has the sign of y *)
FDivMod(x, y) == LET tq == TDivMod(x, y)
                 IN IF ~IsZero(tq[2]) /\ (tq[2].neg # y.neg)
                    THEN <<Sub(tq[1], One), Add(tq[2], y)>>
                    ELSE tq
FDiv(x, y) == FDivMod(x, y)[1]
Mod(x, y)  == FDivMod(x, y)[2]

RECURSIVE MGcd(_, _)
MGcd(a, b) == IF b = <<>> THEN a ELSE MGcd(b, MDivMod(a, b)[2])
Gcd(x, y) == [neg |-> FALSE, m |-> MGcd(x.m, y.m)]

(* x^n for a native n >= 0, by repeated squaring *)
RECURSIVE Pow(_, _)
Pow(x, n) == IF n = 0 THEN One
             ELSE IF n % 2 = 0 THEN LET h == Pow(x, n \div 2) IN Mul(h, h)
             ELSE Mul(x, Pow(x, n - 1))

Pow2(n) == Pow(Two, n)

(* arithmetic shifts by a native count k >= 0 *)
Shl(x, k) == Mul(x, Pow2(k))
Shr(x, k) == FDiv(x, Pow2(k))

Min(x, y) == IF Le(x, y) THEN x ELSE y
Max(x, y) == IF Le(x, y) THEN y ELSE x

-----------------------------------------------------------------------------
(* bitwise operations on the infinite two's-complement expansion.                    *)
(* A value x is viewed as <<inv, bits>> with x = v if ~inv and x = -v-1 if inv, where *)
(* bits is the little-endian binary expansion of the non-negative v.                  *)

RECURSIVE MBits(_)
MBits(m) == IF m = <<>> THEN <<>>
            ELSE LET qr == MDivSmall(m, 2) IN <<qr[2]>> \o MBits(qr[1])

RECURSIVE BitsToM(_, _, _)
BitsToM(bits, i, acc) == IF i = 0 THEN acc
                         ELSE BitsToM(bits, i - 1, MAdd(MMulSmall(acc, 2), IF bits[i] = 1 THEN <<1>> ELSE <<>>))

TwosView(x) == IF x.neg THEN <<TRUE, MBits(MSub(x.m, <<1>>))>> ELSE <<FALSE, MBits(x.m)>>

FromTwos(inv, bits) ==
  LET v == [neg |-> FALSE, m |-> Trim(BitsToM(bits, Len(bits), <<>>))]
  IN IF inv THEN Sub(Neg(v), One) ELSE v

BitAt(view, i) == LET raw == IF i <= Len(view[2]) THEN view[2][i] = 1 ELSE FALSE
                  IN IF view[1] THEN ~raw ELSE raw

BitOp(op, p, q) == CASE op = "and" -> p /\ q
                     [] op = "or"  -> p \/ q
                     [] op = "xor" -> p # q

Bitwise(op, x, y) ==
  LET vx == TwosView(x)
      vy == TwosView(y)
      n  == IF Len(vx[2]) > Len(vy[2]) THEN Len(vx[2]) ELSE Len(vy[2])
      rinv == BitOp(op, vx[1], vy[1])
      rbits == [i \in 1..n |-> LET b == BitOp(op, BitAt(vx, i), BitAt(vy, i))
                               IN IF (IF rinv THEN ~b ELSE b) THEN 1 ELSE 0]
  IN FromTwos(rinv, rbits)

BAnd(x, y) == Bitwise("and", x, y)
BOr(x, y)  == Bitwise("or", x, y)
BXor(x, y) == Bitwise("xor", x, y)
BNot(x)    == Sub(Neg(x), One)

(* number of bits of the magnitude *)
BitLen(x) == Len(MBits(x.m))

-----------------------------------------------------------------------------
(* decimal text *)

Pad4(n) == LET s == ToString(n)
           IN IF n < 10 THEN "000" \o s ELSE IF n < 100 THEN "00" \o s ELSE IF n < 1000 THEN "0" \o s ELSE s

RECURSIVE MDecFrom(_, _)
MDecFrom(m, i) == IF i = 0 THEN "" ELSE Pad4(m[i]) \o MDecFrom(m, i - 1)

ToDec(x) == IF IsZero(x) THEN "0"
            ELSE LET top == ToString(x.m[Len(x.m)])
                     body == top \o MDecFrom(x.m, Len(x.m) - 1)
                 IN IF x.neg THEN "-" \o body ELSE body

=============================================================================
