------------------------------- MODULE NumRep -------------------------------
(* C05: equal integers behave identically regardless of how they were produced.                 *)
(*                                                                                             *)
(* Layer B (implementation-shaped).  An integer lives in one of two representations            *)
(*   "fix"  inline 56-bit small integer (Fixnum cell), only for -2^55 <= v < 2^55               *)
(*   "box"  pointer to an arena-allocated big integer (Cons cell); ANY value, also a small one, *)
(*          because arithmetic results are not renormalised (forms.rs: ArenaFrom<Integer> for    *)
(*          Number; only rnd_i, the reader and the usize conversions normalise).                 *)
(* A number in the machine is [v |-> BigInt value, r |-> "fix" | "box"]; Alpha forgets r.        *)
(* Production paths (PathGoal, PathRep) say how a value comes into being and which           *)
(* representation the code gives it; consumers are everything that takes an integer.          *)
(*                                                                                             *)
(* Layer A (the property).  Every consumer sees only the value: its outcome is Expect(c, v), a  *)
(* function of the mathematical integer v alone (and of literals in the goal), whatever path     *)
(* produced the argument.  Expect is written from ISO 13211-1 (8.2-8.5, 8.16, 9.1) and from the  *)
(* doc comments of library(lists), library(between), library(iso_ext), library(assoc).           *)
(*                                                                                             *)
(* The module also owns the *text* of every path, consumer goal and auxiliary program (with      *)
(* placeholders), so that the driver only substitutes and renders:                               *)
(*   $V $VP1 $VM1 $VP2 $VM2   the value and its neighbours v+1, v-1, v+2, v-2 as literals         *)
(*   $DV                      the value as a plain decimal numeral (inside quotes)                 *)
(*   $ATOMV / $LISTV          an atom of v characters / a list of v elements                      *)
(*   $N                       a number unique to the case (fresh predicate / key names)           *)
(* A goal binds X (paths) and R (consumers); the driver collects findall(R, Goal, Rs).           *)
EXTENDS ArithInt

-----------------------------------------------------------------------------
(* terms in the JSON shape understood by lib/terms.py (from_tla) *)
A(n)       == [t |-> "a",   n |-> n,        i |-> 0, a |-> <<>>]
N(v)       == [t |-> "big", n |-> ToDec(v), i |-> 0, a |-> <<>>]
C(f, args) == [t |-> "c",   n |-> f,        i |-> 0, a |-> args]
RECURSIVE L(_)
L(s)       == IF s = <<>> THEN A("[]") ELSE C(".", <<Head(s), L(Tail(s))>>)
KV(k, x)   == C("-", <<k, x>>)

Sols(s)    == [ok |-> TRUE,  sols |-> s,    err |-> A("none"), out |-> ""]
SolsOut(s, o) == [ok |-> TRUE, sols |-> s,  err |-> A("none"), out |-> o]
Raise(f)   == [ok |-> FALSE, sols |-> <<>>, err |-> f,         out |-> ""]
Yes        == Sols(<<A("yes")>>)
NotLessThanZero(v) == Raise(C("domain_error", <<A("not_less_than_zero"), N(v)>>))

-----------------------------------------------------------------------------
(* layer B: representations *)
(* powers of two as literals (TLC re-evaluates definitions that go through RECURSIVE operators   *)
(* on every use); the ASSUME ties them to BigInt!Pow2                                            *)
P55 == [neg |-> FALSE, m |-> <<3968, 1896, 7970, 6028, 3>>]
P60 == [neg |-> FALSE, m |-> <<6976, 684, 5046, 2921, 115>>]
P70 == [neg |-> FALSE, m |-> <<3424, 1130, 7174, 1620, 8059, 11>>]
ASSUME P55 = Pow2(55) /\ P60 = Pow2(60) /\ P70 = Pow2(70)
FixMin == [neg |-> TRUE, m |-> P55.m]
FixMax == [neg |-> FALSE, m |-> <<3967, 1896, 7970, 6028, 3>>]
ASSUME FixMin = Neg(P55) /\ FixMax = Sub(P55, One)
FitsFix(v) == Le(FixMin, v) /\ Le(v, FixMax)
Fix(v)  == [v |-> v, r |-> "fix"]
Box(v)  == [v |-> v, r |-> "box"]
NormRep(v) == IF FitsFix(v) THEN Fix(v) ELSE Box(v)       \* what the reader / rnd_i / usize conversion do
WellFormed(x) == x.r = "fix" => FitsFix(x.v)
Alpha(x) == x.v

(* the arithmetic case analysis of arithmetic_ops.rs, reduced to what decides the representation: *)
(* Fixnum op Fixnum uses a checked i64 operation and fixnum!() (normalising) and falls back to a   *)
(* boxed result on overflow; any Integer operand gives Number::arena_from(Integer) = boxed.         *)
AddB(x, y)  == IF x.r = "fix" /\ y.r = "fix" THEN NormRep(Add(x.v, y.v)) ELSE Box(Add(x.v, y.v))
SubB(x, y)  == IF x.r = "fix" /\ y.r = "fix" THEN NormRep(Sub(x.v, y.v)) ELSE Box(Sub(x.v, y.v))
MulB(x, y)  == IF x.r = "fix" /\ y.r = "fix" THEN NormRep(Mul(x.v, y.v)) ELSE Box(Mul(x.v, y.v))
IDivB(x, y) == IF x.r = "fix" /\ y.r = "fix" THEN NormRep(TDiv(x.v, y.v)) ELSE Box(TDiv(x.v, y.v))
NegB(x)     == IF x.r = "fix" THEN NormRep(Neg(x.v)) ELSE Box(Neg(x.v))
(* truncate/1 on an integer: rnd_i normalises, but a negative operand goes through               *)
(* neg(floor(abs(n))) (arithmetic_ops.rs truncate), so -2^55 comes back boxed: abs gives 2^55      *)
TruncB(x)   == IF x.v.neg THEN NegB(NormRep(Abs(x.v))) ELSE NormRep(x.v)
(* the reader (literals, number_codes/2): a negative numeral is the negated positive numeral, so   *)
(* the smallest fixnum -2^55 is read as a boxed integer (2^55 does not fit, its negation is boxed)  *)
ReadB(v)    == IF v.neg THEN NegB(NormRep(Abs(v))) ELSE NormRep(v)
CopyB(x)    == x                                          \* findall/copy_term/assertz copy the cell

Paths == {"lit", "codes", "addsub", "muldiv", "negneg", "length", "atom_length", "succ", "succ_boxed",
          "findall_copy", "copy_term", "assert_fetch", "trunc", "codes_roundtrip"}

(* text of the path: binds X *)
PathGoal(p) ==
  CASE p = "lit"             -> "X = $V"
    [] p = "codes"           -> "atom_codes('$DV', Cs), number_codes(X, Cs)"
    [] p = "addsub"          -> "X is $V + 2^60 - 2^60"
    [] p = "muldiv"          -> "X is $V * 2^70 // 2^70"
    [] p = "negneg"          -> "X is -(-($V + 2^60 - 2^60))"
    [] p = "length"          -> "length($LISTV, X)"
    [] p = "atom_length"     -> "atom_length($ATOMV, X)"
    [] p = "succ"            -> "succ($VM1, X)"
    [] p = "succ_boxed"      -> "P0 is $VM1 + 2^60 - 2^60, succ(P0, X)"
    [] p = "findall_copy"    -> "X0 is $V + 2^60 - 2^60, findall(X0, true, [X])"
    [] p = "copy_term"       -> "X0 is $V * 2^70 // 2^70, copy_term(X0, X)"
    [] p = "assert_fetch"    -> "X0 is $V + 2^60 - 2^60, assertz(pf_$N(X0)), pf_$N(X)"
    [] p = "trunc"           -> "X is truncate($V + 2^60 - 2^60)"
    [] p = "codes_roundtrip" -> "X0 is $V + 2^60 - 2^60, number_codes(X0, Cs), number_codes(X, Cs)"

(* paths that construct a list/atom of v elements or count from v-1 need a small natural v *)
SmallNat(v, hi) == ~v.neg /\ FitsInt(v) /\ ToInt(v) <= hi
PathApplicable(p, v) ==
  CASE p \in {"length", "atom_length"} -> SmallNat(v, 300)
    [] p \in {"succ", "succ_boxed"}    -> ~v.neg /\ ~IsZero(v)
    [] OTHER                           -> TRUE

(* layer B: the representation the code gives the result of the path *)
PathRep(p, v) ==
  LET viaBig == SubB(AddB(ReadB(v), NormRep(P60)), NormRep(P60)) IN
  CASE p \in {"lit", "codes"} -> ReadB(v)
    [] p \in {"length", "atom_length"} -> NormRep(v)
    [] p = "addsub"          -> viaBig
    [] p = "muldiv"          -> IDivB(MulB(ReadB(v), NormRep(P70)), NormRep(P70))
    [] p = "negneg"          -> NegB(NegB(viaBig))
    [] p = "succ"            -> AddB(ReadB(Sub(v, One)), Fix(One))        \* iso_ext: S is P + 1
    [] p = "succ_boxed"      -> AddB(SubB(AddB(ReadB(Sub(v, One)), NormRep(P60)), NormRep(P60)), Fix(One))
    [] p \in {"findall_copy", "assert_fetch"} -> CopyB(viaBig)
    [] p = "copy_term"       -> CopyB(IDivB(MulB(ReadB(v), NormRep(P70)), NormRep(P70)))
    [] p = "trunc"           -> TruncB(viaBig)
    [] p = "codes_roundtrip" -> ReadB(v)

-----------------------------------------------------------------------------
(* layer A: consumers *)

(* the clauses consulted before the consumers run (one machine per value) *)
Program ==
  "hd(f($V), hit).\n" \o
  "ix($VM1, lo). ix($V, hit). ix($VP1, hi).\n" \o
  "ix2($V, hit). ix2($VP1, hi).\n" \o
  "ixl($VM1, lo). ixl($VP1, hi). ixl($V, hit).\n" \o
  ":- dynamic(dx/2).\n" \o
  "dx($VM1, lo). dx($V, hit). dx($VP1, hi).\n"
Setup == "use_module(library(lists)), use_module(library(between)), use_module(library(iso_ext)), " \o
         "use_module(library(assoc)), use_module(library(dif)), use_module(library(format))."

IndexConsumers == {"index_mid", "index_first", "index_last", "index_dynamic", "index_asserted",
                   "index_stored_key", "index_stored_both"}

Consumers ==
  {"unify", "unify_rev", "unify_occurs", "not_unify", "eq", "not_eq", "compare_eq", "compare_lt", "compare_gt",
   "order", "sort", "keysort", "bagof", "assoc", "dif", "subsumes", "univ",
   "arith_eq", "arith_order", "is_id", "is_add0", "is_double", "type_checks",
   "arg", "functor_make", "functor_check", "length_make", "length_check", "nth0", "nth1", "nth0_find",
   "memberchk", "between_lo", "between_hi", "between_check", "numlist", "succ_fwd", "succ_back",
   "atom_length", "sub_atom_before", "sub_atom_length", "number_codes", "number_chars", "char_code",
   "atom_codes", "format_d", "write", "sum_list",
   "head", "assert_call", "assert_fetch", "retract", "findall_copy", "copy_term", "bb", "op_priority"}
  \cup IndexConsumers

(* text of the consumer: uses X, binds R *)
Goal(c) ==
  CASE c = "unify"            -> "X = $V, R = yes"
    [] c = "unify_rev"        -> "$V = X, R = yes"
    [] c = "unify_occurs"     -> "unify_with_occurs_check(X, $V), R = yes"
    [] c = "not_unify"        -> "( X \\= $V -> R = ne ; R = eq )"
    [] c = "eq"               -> "X == $V, $V == X, R = yes"
    [] c = "not_eq"           -> "( X \\== $V -> R = ne ; R = eq )"
    [] c = "compare_eq"       -> "compare(R, X, $V)"
    [] c = "compare_lt"       -> "compare(R, X, $VP1)"
    [] c = "compare_gt"       -> "compare(R, X, $VM1)"
    [] c = "order"            -> "X @< $VP1, X @> $VM1, X @>= $V, X @=< $V, \\+ X @< $V, \\+ X @> $V, R = yes"
    [] c = "sort"             -> "sort([$VP1, X, $V, $VM1], R)"
    [] c = "keysort"          -> "keysort([$VP1-a, X-b, $V-c, $VM1-d], R)"
    [] c = "bagof"            -> "findall(W-Ks, bagof(K, member(K-W, [a-X, b-$V, c-$VP1]), Ks), R)"
    [] c = "assoc"            -> "list_to_assoc([$VM1-lo, X-hit, $VP1-hi], As), get_assoc($V, As, R)"
    [] c = "dif"              -> "( dif(X, $V) -> R = different ; R = same )"
    [] c = "subsumes"         -> "subsumes_term($V, X), subsumes_term(X, $V), R = yes"
    [] c = "univ"             -> "X =.. R"
    [] c = "arith_eq"         -> "X =:= $V, $V =:= X, \\+ X =\\= $V, R = yes"
    [] c = "arith_order"      -> "X < $VP1, X > $VM1, X >= $V, X =< $V, R = yes"
    [] c = "is_id"            -> "R is X"
    [] c = "is_add0"          -> "R is X + 0"
    [] c = "is_double"        -> "R is X * 2"
    [] c = "type_checks"      -> "integer(X), number(X), atomic(X), nonvar(X), \\+ atom(X), \\+ float(X), \\+ compound(X), R = yes"
    [] c = "arg"              -> "arg(X, f(a,b,c), R)"
    [] c = "functor_make"     -> "functor(T, f, X), functor(T, F, Ar), R = F/Ar"
    [] c = "functor_check"    -> "functor(g(a,b), _, Ar), ( Ar = X -> R = same ; R = different )"
    [] c = "length_make"      -> "length(Ls, X), length(Ls, R)"
    [] c = "length_check"     -> "( length([a,b,c,d,e], X) -> R = yes ; R = no )"
    [] c = "nth0"             -> "nth0(X, [a,b,c,d,e,f], R)"
    [] c = "nth1"             -> "nth1(X, [a,b,c,d,e,f], R)"
    [] c = "nth0_find"        -> "nth0(R, [$VM1, $V, $VP1], X)"
    [] c = "memberchk"        -> "memberchk(X, [$VM1, $V, $VP1]), R = yes"
    [] c = "between_lo"       -> "between(X, $VP2, R)"
    [] c = "between_hi"       -> "between($VM2, X, R)"
    [] c = "between_check"    -> "( between(0, 300, X) -> R = inside ; R = outside )"
    [] c = "numlist"          -> "numlist(X, $VP2, R)"
    [] c = "succ_fwd"         -> "succ(X, R)"
    [] c = "succ_back"        -> "succ(R, X)"
    [] c = "atom_length"      -> "( atom_length(abcde, X) -> R = yes ; R = no )"
    [] c = "sub_atom_before"  -> "sub_atom(abcdefgh, X, 2, Af, Sb), R = Af-Sb"
    [] c = "sub_atom_length"  -> "sub_atom(abcdefgh, 1, X, Af, Sb), R = Af-Sb"
    [] c = "number_codes"     -> "number_codes(X, R)"
    [] c = "number_chars"     -> "number_chars(X, R)"
    [] c = "char_code"        -> "char_code(Ch, X), char_code(Ch, R)"
    [] c = "atom_codes"       -> "atom_codes(At, [X, 97]), atom_codes(At, R)"
    [] c = "format_d"         -> "format(\"~d\", [X]), R = done"
    [] c = "write"            -> "write(X), put_char(' '), writeq(X), put_char(' '), write_canonical(X), R = done"
    [] c = "sum_list"         -> "sum_list([X, 1, X], R)"
    [] c = "head"             -> "hd(f(X), R)"
    [] c = "index_mid"        -> "ix(X, R)"
    [] c = "index_first"      -> "ix2(X, R)"
    [] c = "index_last"       -> "ixl(X, R)"
    [] c = "index_dynamic"    -> "dx(X, R)"
    [] c = "index_asserted"   -> "assertz(ax_$N($VM1, lo)), assertz(ax_$N($V, hit)), assertz(ax_$N($VP1, hi)), ax_$N(X, R)"
    [] c = "index_stored_key" -> "assertz(sk_$N(X, hit)), assertz(sk_$N($VP1, hi)), sk_$N($V, R)"
    [] c = "index_stored_both" -> "assertz(sb_$N($VM1, lo)), assertz(sb_$N(X, hit)), sb_$N(X, R)"
    [] c = "assert_call"      -> "assertz(st_$N(X)), ( st_$N($V) -> R = yes ; R = no )"
    [] c = "assert_fetch"     -> "assertz(sg_$N(X)), sg_$N(Y), ( Y == $V -> R = yes ; R = no )"
    [] c = "retract"          -> "assertz(rt_$N(X)), ( retract(rt_$N($V)) -> R = yes ; R = no )"
    [] c = "findall_copy"     -> "findall(X, true, [Y]), ( Y == $V -> R = yes ; R = no )"
    [] c = "copy_term"        -> "copy_term(f(X, Z), f(Y, _)), ( Y == $V -> R = yes ; R = no )"
    [] c = "bb"               -> "bb_put(k_$N, X), bb_get(k_$N, Y), ( Y == $V -> R = yes ; R = no )"
    [] c = "op_priority"      -> "op(X, xfx, =>>), findall(Pr, current_op(Pr, xfx, =>>), R)"

(* small natural number views *)
NatOf(v)      == ToInt(v)                       \* only under SmallNat(v, _)
InRange(v, lo, hi) == ~v.neg /\ FitsInt(v) /\ lo <= ToInt(v) /\ ToInt(v) <= hi

(* the domain on which the sources above define the outcome; outside it the case is not generated *)
Applicable(c, v) ==
  CASE c \in {"nth0", "nth1", "sub_atom_before", "sub_atom_length", "length_check", "succ_back"} -> ~v.neg
    [] c = "length_make"   -> v.neg \/ SmallNat(v, 300)
    [] c = "functor_make"  -> v.neg \/ SmallNat(v, 6)
    [] c \in {"char_code", "atom_codes"} -> InRange(v, 1, 255)
    [] c = "op_priority"   -> InRange(v, 0, 1200)
    [] OTHER               -> TRUE

Letters == <<"a", "b", "c", "d", "e", "f">>
Digit(ch) == CHOOSE d \in 0..9 : ToString(d) = ch
CodeOf(ch) == IF ch = "-" THEN 45 ELSE 48 + Digit(ch)
DecChars(v) == LET s == ToDec(v) IN [k \in 1..Len(s) |-> SubSeq(s, k, k)]
I(k) == N(FromInt(k))

Expect(c, v) ==
  LET vp1 == Add(v, One)  vm1 == Sub(v, One)  vp2 == Add(v, Two)  vm2 == Sub(v, Two) IN
  CASE c \in {"unify", "unify_rev", "unify_occurs", "eq", "order", "subsumes", "arith_eq", "arith_order",
              "type_checks", "memberchk", "assert_call", "assert_fetch", "retract", "findall_copy",
              "copy_term", "bb"} -> Yes
    [] c \in {"not_unify", "not_eq"} -> Sols(<<A("eq")>>)
    [] c = "compare_eq"     -> Sols(<<A("=")>>)
    [] c = "compare_lt"     -> Sols(<<A("<")>>)
    [] c = "compare_gt"     -> Sols(<<A(">")>>)
    (* ISO 8.4.3 sort/2: duplicates (==) removed;  8.4.4 keysort/2: stable *)
    [] c = "sort"           -> Sols(<<L(<<N(vm1), N(v), N(vp1)>>)>>)
    [] c = "keysort"        -> Sols(<<L(<<KV(N(vm1), A("d")), KV(N(v), A("b")), KV(N(v), A("c")), KV(N(vp1), A("a"))>>)>>)
    (* ISO 8.10.2 bagof/3: one solution per witness, witnesses in standard order *)
    [] c = "bagof"          -> Sols(<<L(<<KV(N(v), L(<<A("a"), A("b")>>)), KV(N(vp1), L(<<A("c")>>))>>)>>)
    [] c = "assoc"          -> Sols(<<A("hit")>>)
    [] c = "dif"            -> Sols(<<A("same")>>)
    [] c = "univ"           -> Sols(<<L(<<N(v)>>)>>)
    [] c \in {"is_id", "is_add0"} -> Sols(<<N(v)>>)
    [] c = "is_double"      -> Sols(<<N(Mul(v, Two))>>)
    [] c = "sum_list"       -> Sols(<<N(Add(Add(v, One), v))>>)
    (* ISO 8.5.2 arg/3: N < 0 domain_error(not_less_than_zero, N); otherwise fails unless 1 <= N <= arity *)
    [] c = "arg"            -> IF v.neg THEN NotLessThanZero(v)
                               ELSE IF InRange(v, 1, 3) THEN Sols(<<A(Letters[NatOf(v)])>>) ELSE Sols(<<>>)
    (* ISO 8.5.1 functor/3 (Cor.2: negative arity domain_error(not_less_than_zero)) *)
    [] c = "functor_make"   -> IF v.neg THEN NotLessThanZero(v) ELSE Sols(<<C("/", <<A("f"), N(v)>>)>>)
    [] c = "functor_check"  -> Sols(<<IF v = Two THEN A("same") ELSE A("different")>>)
    (* library(lists) length/2: "length(L,-1) -> domain_error(not_less_than_zero,-1)" (DESIGN App. 2) *)
    [] c = "length_make"    -> IF v.neg THEN NotLessThanZero(v) ELSE Sols(<<N(v)>>)
    [] c = "length_check"   -> Sols(<<IF v = FromInt(5) THEN A("yes") ELSE A("no")>>)
    [] c = "nth0"           -> IF InRange(v, 0, 5) THEN Sols(<<A(Letters[NatOf(v) + 1])>>) ELSE Sols(<<>>)
    [] c = "nth1"           -> IF InRange(v, 1, 6) THEN Sols(<<A(Letters[NatOf(v)])>>) ELSE Sols(<<>>)
    [] c = "nth0_find"      -> Sols(<<I(1)>>)
    (* library(between): between(L, U, X) enumerates L..U in ascending order *)
    [] c = "between_lo"     -> Sols(<<N(v), N(vp1), N(vp2)>>)
    [] c = "between_hi"     -> Sols(<<N(vm2), N(vm1), N(v)>>)
    [] c = "between_check"  -> Sols(<<IF InRange(v, 0, 300) THEN A("inside") ELSE A("outside")>>)
    [] c = "numlist"        -> Sols(<<L(<<N(v), N(vp1), N(vp2)>>)>>)
    (* library(iso_ext) succ/2: natural numbers; succ(X, 0) fails; negative -> domain_error *)
    [] c = "succ_fwd"       -> IF v.neg THEN NotLessThanZero(v) ELSE Sols(<<N(vp1)>>)
    [] c = "succ_back"      -> IF IsZero(v) THEN Sols(<<>>) ELSE Sols(<<N(vm1)>>)
    (* ISO 8.16.1 atom_length/2 *)
    [] c = "atom_length"    -> IF v.neg THEN NotLessThanZero(v)
                               ELSE Sols(<<IF v = FromInt(5) THEN A("yes") ELSE A("no")>>)
    (* ISO 8.16.3 sub_atom/5 on abcdefgh (8 characters) *)
    [] c = "sub_atom_before" -> IF InRange(v, 0, 6)
                                THEN Sols(<<KV(I(6 - NatOf(v)), A(SubSeq("abcdefgh", NatOf(v) + 1, NatOf(v) + 2)))>>)
                                ELSE Sols(<<>>)
    [] c = "sub_atom_length" -> IF InRange(v, 0, 7)
                                THEN Sols(<<KV(I(7 - NatOf(v)), A(SubSeq("abcdefgh", 2, 1 + NatOf(v))))>>)
                                ELSE Sols(<<>>)
    (* ISO 8.16.7/8.16.8: the characters of the decimal numeral *)
    [] c = "number_codes"   -> Sols(<<L([k \in 1..Len(DecChars(v)) |-> I(CodeOf(DecChars(v)[k]))])>>)
    [] c = "number_chars"   -> Sols(<<L([k \in 1..Len(DecChars(v)) |-> A(DecChars(v)[k])])>>)
    [] c = "char_code"      -> Sols(<<N(v)>>)
    [] c = "atom_codes"     -> Sols(<<L(<<N(v), I(97)>>)>>)
    (* library(format): ~d prints the integer in decimal; write/writeq/write_canonical likewise *)
    [] c = "format_d"       -> SolsOut(<<A("done")>>, ToDec(v))
    [] c = "write"          -> SolsOut(<<A("done")>>, ToDec(v) \o " " \o ToDec(v) \o " " \o ToDec(v))
    (* clause selection = the clauses whose head unifies (C06), here the one with key $V *)
    [] c \in IndexConsumers \cup {"head"} -> Sols(<<A("hit")>>)
    (* ISO 8.14.3 op/3: priority 0 removes the operator *)
    [] c = "op_priority"    -> Sols(<<IF IsZero(v) THEN L(<<>>) ELSE L(<<N(v)>>)>>)

OutConsumers == {"format_d", "write"}

-----------------------------------------------------------------------------
(* layer B consumers, for the refinement check in MC_C05: how the code reaches the outcome.     *)
(*  - unification (unify.rs unify_fixnum / unify_big_integer), ==, \== : two Fixnum cells are    *)
(*    compared as cells; as soon as one side is boxed the VALUES are compared;                    *)
(*  - compare/3, sorting (heap_iter.rs TermOrderCategory::Integer) and arithmetic comparison       *)
(*    (Number::try_from the cell) order the VALUES;                                                *)
(*  - first-argument indexing (switch_on_term -> switch_on_constant) looks the raw CELL of a       *)
(*    fixnum argument up in a hash map; a boxed clause key that fits a fixnum is also entered      *)
(*    under its fixnum cell (indexing.rs constant_key_alternatives), so a fixnum argument finds    *)
(*    it.  A boxed argument is a pointer and equals no key but itself: since /repo commit 86aa075  *)
(*    select_switch_on_term_index sends boxed integers down the variable path (every clause is     *)
(*    tried, head unification decides).  Before that commit they went to the constant switch and   *)
(*    no clause was selected - the design-level counter-example this model produced for D3; set    *)
(*    BoxedArgTakesVariablePath to FALSE to see it again (MC_C05 then lists the (consumer, path)    *)
(*    classes that do not refine in its header).                                                    *)
(*  - every other consumer obtains the value first (Number / usize conversion) and is modelled     *)
(*    by its layer-A definition.                                                                   *)
EqB(x, y)  == IF x.r = "fix" /\ y.r = "fix" THEN x.v = y.v ELSE Cmp(x.v, y.v) = 0
CmpB(x, y) == LET k == Cmp(x.v, y.v) IN IF k < 0 THEN "<" ELSE IF k > 0 THEN ">" ELSE "="
BoxedArgTakesVariablePath == TRUE
KeyB(x, k) ==                                   \* x: the argument cell, k: the clause key (another cell)
  IF x.r = "box" THEN BoxedArgTakesVariablePath /\ EqB(x, k)
  ELSE FitsFix(k.v) /\ x.v = k.v
Lit(v)     == ReadB(v)                                 \* a literal in the goal or in a clause

ConsumerB(c, x) ==
  CASE c \in {"unify", "unify_rev", "unify_occurs", "eq", "subsumes", "memberchk", "assert_call", "retract"} ->
         IF EqB(x, Lit(x.v)) THEN Yes ELSE Sols(<<>>)
    [] c \in {"not_unify", "not_eq"} -> Sols(<<IF EqB(x, Lit(x.v)) THEN A("eq") ELSE A("ne")>>)
    [] c = "compare_eq" -> Sols(<<A(CmpB(x, Lit(x.v)))>>)
    [] c = "compare_lt" -> Sols(<<A(CmpB(x, Lit(Add(x.v, One))))>>)
    [] c = "compare_gt" -> Sols(<<A(CmpB(x, Lit(Sub(x.v, One))))>>)
    [] c \in IndexConsumers \ {"index_stored_both"} -> IF KeyB(x, Lit(x.v)) THEN Sols(<<A("hit")>>) ELSE Sols(<<>>)
    [] c = "index_stored_both" -> Sols(<<A("hit")>>)             \* the argument IS the key cell (same pointer)
    [] OTHER -> Expect(c, Alpha(x))
Refines(c, x) == ConsumerB(c, x) = Expect(c, Alpha(x))

(* -------- pairs (thorough tier): two numbers of equal value from two paths, X and Y ----------- *)
PairConsumers == {"p_unify", "p_eq", "p_compare", "p_sort", "p_keysort", "p_arith", "p_sub", "p_max",
                  "p_index", "p_bagof"}
PairGoal(c) ==
  CASE c = "p_unify"   -> "X = Y, R = yes"
    [] c = "p_eq"      -> "X == Y, \\+ X \\== Y, \\+ X @< Y, \\+ X @> Y, R = yes"
    [] c = "p_compare" -> "compare(R, X, Y)"
    [] c = "p_sort"    -> "sort([X, Y, $VP1, Y, X], R)"
    [] c = "p_keysort" -> "keysort([Y-a, $VM1-b, X-c], R)"
    [] c = "p_arith"   -> "X =:= Y, X >= Y, X =< Y, \\+ X < Y, R = yes"
    [] c = "p_sub"     -> "R is X - Y"
    [] c = "p_max"     -> "R is max(X, Y) + min(X, Y)"
    [] c = "p_index"   -> "assertz(pi_$N($VM1, lo)), assertz(pi_$N(X, hit)), assertz(pi_$N($VP1, hi)), pi_$N(Y, R)"
    [] c = "p_bagof"   -> "findall(W-Ks, bagof(K, member(K-W, [a-X, b-$VP1, c-Y]), Ks), R)"
PairExpect(c, v) ==
  LET vp1 == Add(v, One)  vm1 == Sub(v, One) IN
  CASE c \in {"p_unify", "p_eq", "p_arith"} -> Yes
    [] c = "p_compare" -> Sols(<<A("=")>>)
    [] c = "p_sort"    -> Sols(<<L(<<N(v), N(vp1)>>)>>)
    [] c = "p_keysort" -> Sols(<<L(<<KV(N(vm1), A("b")), KV(N(v), A("a")), KV(N(v), A("c"))>>)>>)
    [] c = "p_sub"     -> Sols(<<N(BZero)>>)
    [] c = "p_max"     -> Sols(<<N(Add(v, v))>>)
    [] c = "p_index"   -> Sols(<<A("hit")>>)
    [] c = "p_bagof"   -> Sols(<<L(<<KV(N(v), L(<<A("a"), A("c")>>)), KV(N(vp1), L(<<A("b")>>))>>)>>)
PairConsumerB(c, x, y) ==
  CASE c \in {"p_unify", "p_eq"} -> IF EqB(x, y) THEN Yes ELSE Sols(<<>>)
    [] c = "p_compare"           -> Sols(<<A(CmpB(x, y))>>)
    [] c = "p_index"             -> IF KeyB(y, x) THEN Sols(<<A("hit")>>) ELSE Sols(<<>>)
    [] OTHER                     -> PairExpect(c, Alpha(x))
=============================================================================
