INIT Init
NEXT Next
INVARIANT One1
INVARIANT Pair2
