INIT Init
NEXT Next
