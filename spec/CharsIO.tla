------------------------------ MODULE CharsIO ------------------------------
(* C50: in-memory reading and writing match stream reading and writing.                         *)
(*                                                                                              *)
(* There is ONE writer and ONE reader, each with several access paths:                           *)
(*   write:  write_term_to_chars(T, Options, Chars)      |  write_term(Stream, T, Options)       *)
(*   read :  read_term_from_chars(Chars, T, Options)     |  read_term(Stream, T, Options)        *)
(*           read_from_chars(Chars, T)  (no options)     |  read(Stream, T)  (no options)        *)
(* (charsio.pl: "Like read_from_chars, except the reader is configured according to Options      *)
(* which are those of read_term"; write_term_to_chars lists the options of write_term/3).        *)
(* The specification does not say WHAT the result for an input is - that is the subject of C15,  *)
(* C17, C55 -; it says that the result is a function of (operation, input, options) alone: every *)
(* path that applies to the options must deliver it, errors (their Formal) included.             *)
(* This module defines the option spaces, which paths apply, and the catalogue of texts.         *)
(*                                                                                              *)
(* Unspecified freedom that is normalised away by the driver:                                    *)
(*  - names of variables that the caller did not name (write_term prints _N, write_term_to_chars *)
(*    invents letters, charsio.pl extend_var_list/4): every variable of a written term is named   *)
(*    through variable_names(['X'=X, ..]), which is an option of both paths;                      *)
(*  - identities of fresh variables in a read term: results are compared after numbervars/3.      *)
EXTENDS Integers, Sequences, FiniteSets, TLC

(* ---- write options ---- *)
(* [quoted, ignore_ops, numbervars, double_quotes : BOOLEAN, max_depth : Nat, bad : invalid option text or ""] *)
WOpt(q, i, n, d, m) == [quoted |-> q, ignore_ops |-> i, numbervars |-> n, double_quotes |-> d, max_depth |-> m, bad |-> ""]
BadW(b) == [quoted |-> FALSE, ignore_ops |-> FALSE, numbervars |-> FALSE, double_quotes |-> FALSE, max_depth |-> 0, bad |-> b]
FlagSets == {WOpt(q, i, n, d, 0) : q \in BOOLEAN, i \in BOOLEAN, n \in BOOLEAN, d \in BOOLEAN}
DepthSets == {WOpt(q, FALSE, FALSE, d, m) : q \in BOOLEAN, d \in BOOLEAN, m \in {1, 2, 3}} \cup {WOpt(TRUE, TRUE, TRUE, FALSE, 2)}
(* invalid option lists: both paths must raise the same error (builtins.pl parse_write_options) *)
BadSets == {BadW("quoted(maybe)"), BadW("foo(1)"), BadW("max_depth(a)"), BadW("max_depth(-1)"), BadW("quoted(_)"), BadW("_"),
            BadW("ignore_ops(1)"), BadW("variable_names(a)"), BadW("variable_names([a])"), BadW("variable_names(['X'=_|_])")}
(* a subset in which every pair of flag values occurs together *)
CoverSets == {WOpt(FALSE, FALSE, FALSE, FALSE, 0), WOpt(TRUE, FALSE, FALSE, FALSE, 0), WOpt(TRUE, TRUE, TRUE, TRUE, 0),
              WOpt(FALSE, TRUE, FALSE, TRUE, 0), WOpt(FALSE, FALSE, TRUE, TRUE, 0), WOpt(TRUE, TRUE, FALSE, FALSE, 2),
              WOpt(TRUE, FALSE, TRUE, FALSE, 0), WOpt(FALSE, TRUE, TRUE, FALSE, 1)}
FewSets == {WOpt(FALSE, FALSE, FALSE, FALSE, 0), WOpt(TRUE, FALSE, FALSE, FALSE, 0), WOpt(TRUE, TRUE, TRUE, TRUE, 0)}

WritePaths == {"write_term_to_chars/3", "write_term/3"}

(* ---- read options ---- *)
ROpts == SUBSET {"variable_names", "variables", "singletons"}
BadROpts == {"foo(1)", "_", "variables(a)"}          \* invalid option lists
ReadPaths(opts) == {"read_term_from_chars/3", "read_term/3"}
                   \cup (IF opts = {} THEN {"read_from_chars/2", "read/2"} ELSE {})

Paths(op, nopts) == IF op = "write" THEN WritePaths
                    ELSE IF nopts = 0 THEN ReadPaths({}) ELSE ReadPaths({"variable_names"})

(* ---- texts ---- *)
(* well-formed clauses, texts with several clauses, layout and comments, missing end tokens,      *)
(* malformed texts, empty texts                                                                   *)
Texts == <<
  "foo.", "f(X,Y,X).", "X.", "_.", "f(_,_).", "f(A,_B,_,A).", "'a b'.", "\"str\".", "[a,b|T].", "{a}.", "{X,Y}.",
  "- 1.", "-1.", "- (1).", "1 - -1.", "a:-b,c.", "0'a.", "0x1F.", "1.0e10.", "[X|X].", "[].", "{}.", "'\\n'.", "\"a\\\"b\".",
  "a. b.", "a.b.", "a.b. c.", "  a  .  ", "a.%comment", "a. % comment\nb.", "/* c */ a.", "a .\n", "a\n.\n", "a.\nb.\n",
  "%c\na.", "a./*c*/", "f(x). g(", "f(X). g(X).", "f(X, Y). Y.",
  "f(", "f(a", "f(a.", "a b.", ")", ").", "'abc", "'abc.", "\"abc", "f(a,).", "[a|].", "[a,b", "{a", "1.e", "1.e.", "0'", "0'.",
  "a", "f(x)", "f(X)", "1", "1.", "1.0", "X", "'a'", "[a]", "a ", "a. ", "a.b", "a. b", "- ", "-", "a :- ",
  "", " ", "\n", "%only comment", "%only comment\n", "/* unterminated", "/* c */", " . ", ".", "..", "...", ". .", "a..", "a. .",
  "X = .", "foo bar baz.", "- - .", "f(a)) .", "1 2.", "'a\nb'.", "a:-.", ":- .", "\\.", "f(A,a", "`abc`.", "0x.", "0xg.", "1e10.",
  "1.0e400.", "999999999999999999999999999999.", "X Y.", "a, b.", "a | b.", "(a,b).", "(a|b).", "end_of_file.", "end_of_file",
  "a.b.c.", "f(,).", "[,].", "[a,,b].", "f(a;b).", "f(:-).", "f(:- a).", "- - a.", "\\+a.", "\\+ (a,b).", "a= \\+b.", "1.0.0.", "1..2.",
  "f(a). junk(", "f(a).junk", "f(a).)", "X = 'it''s'.", "\"\".", "''.", "'\\x41\\'.", "'\\z'.", "\"\\x110000\\\".", "0'\\n.", "0'''.", "0''.",
  "a.\t", "a.\n", "a.%", "a.(", "\t\tf( X ,\n Y ).\n", "f(X):-g(X,_Y),h(_).", "f(_A,_A).", "f(_,X,_,X,Y).", "p :- X = 1, Y = 2.",
  "\"a\" \"b\".", "'a' 'b'.", "a'b'.", "f (a).", "- (a).", "-(a).", "-(-(1)).", "[a|b|c].", "{a|b}.", "[a|b,c].", "(a.", "(a).", "((a)).",
  "a:b:c.", "1+2*3.", "1*2+3.", "2**3**4.", "2^3^4.", "a=b=c.", "- 1 + 2.", "-(1)+2.", "-a+2.", "\\+ \\+ a.", ":- :- a.",
  "f(A), g(A).", "X-Y-X.", "[A,B|C].", "\"X\".", "'X'.", "_X.", "_1.", "_.", "__.", "A1.", "Abc_Def.", "aBc."
>>
(* texts with characters outside ASCII, by code point *)
TextsCp == <<
  <<233, 46>>, <<39, 233, 39, 46>>, <<955, 46>>, <<923, 46>>, <<923, 32, 61, 32, 955, 46>>, <<39, 8364, 39, 46>>, <<8364, 46>>,
  <<97, 160, 46>>, <<97, 46, 160>>, <<97, 8232, 46>>, <<65279, 97, 46>>, <<34, 128512, 34, 46>>, <<128512, 46>>, <<97, 0, 46>>,
  <<39, 97, 0, 98, 39, 46>>, <<97, 46, 0>>, <<102, 40, 233, 44, 201, 41, 46>>, <<37, 233, 10, 97, 46>>, <<97, 46, 233>>, <<215, 46>>
>>
=============================================================================
