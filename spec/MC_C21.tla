------------------------------- MODULE MC_C21 -------------------------------
(* C21: atom identity is text identity.                                                            *)
(* Every state is one text.  TLC checks the layer-B facts of AtomRep on it and on its neighbours   *)
(* at edit distance 1 and prints a vector {text, bytes, cls, splits, paths, nbrs}; the driver       *)
(* creates the atom through every listed path in the real system and compares all pairs.           *)
EXTENDS AtomRep, Json, TLC

CONSTANT Tier   \* "quick" | "thorough"
Quick == Tier = "quick"

(* a (1 byte), e-acute (2), euro sign (3), U+1F600 (4): byte length and character length differ *)
Alpha4 == {97, 233, 8364, 128512}
MaxBytes == IF Quick THEN 7 ELSE 12          \* the inline limit is 6 bytes; static/dynamic beyond

RECURSIVE TextsOver(_, _)                    \* every text over alphabet A whose UTF-8 image has exactly n bytes
TextsOver(A, n) ==
  IF n = 0 THEN {<<>>}
  ELSE UNION {{<<c>> \o t : t \in TextsOver(A, n - Utf8Len(c))} : c \in {d \in A : Utf8Len(d) <= n}}
TextsByBytes(n) == TextsOver(Alpha4, n)

(* NUL is a character; a text with NUL is never inlined (the padding of the inline word is NUL) *)
NulAlpha == {97, 0, 233}
MaxNulBytes == IF Quick THEN 4 ELSE 7
NulSpace == UNION {{t \in TextsOver(NulAlpha, n) : \E j \in 1..Len(t) : t[j] = 0} : n \in 1..MaxNulBytes}

Predef == {                                   \* texts that occur as atom!("..") in the Rust sources
  <<91, 93>>,                                 \* []
  <<46>>,                                     \* .
  <<97, 112, 112, 101, 110, 100>>,            \* append   (6 bytes: inlined at build time)
  <<105, 115>>,                               \* is
  <<116, 114, 117, 101>>,                     \* true
  <<100, 121, 110, 97, 109, 105, 99>>,        \* dynamic  (7 bytes: STRINGS)
  <<105, 110, 115, 116, 97, 110, 116, 105, 97, 116, 105, 111, 110, 95, 101, 114, 114, 111, 114>>,  \* instantiation_error
  <<99, 104, 97, 114, 97, 99, 116, 101, 114, 95, 99, 111, 100, 101>>,                              \* character_code
  <<>>,                                       \* ''       (empty: STRINGS)
  <<123, 125>>,                               \* {}
  <<99, 97, 108, 108>>,                       \* call
  <<102, 97, 108, 115, 101>>,                 \* false
  <<101, 114, 114, 111, 114>>,                \* error
  <<112, 114, 111, 99, 101, 100, 117, 114, 101>>,                                                  \* procedure
  <<114, 101, 112, 114, 101, 115, 101, 110, 116, 97, 116, 105, 111, 110, 95, 101, 114, 114, 111, 114>>, \* representation_error
  <<0>> }                                     \* "\0"     (NULL_ATOM: STRINGS because of the NUL)
DigitTexts == { <<55>>, <<49, 50, 51, 52, 53>>, <<49, 50, 51, 52, 53, 54>>, <<49, 50, 51, 52, 53, 54, 55>>,
                <<49, 50, 51, 52, 53, 54, 55, 56>> }                   \* 7 12345 123456 1234567 12345678
NulTexts == { <<97, 0>>, <<0, 97>>, <<97, 0, 98>>, <<97, 98, 99, 100, 101, 0>>, <<0, 0>>,
              <<97, 98, 0, 99, 100, 101, 102, 103>>, <<233, 0, 8364>> }
Misc == { <<104, 101, 108, 108, 111, 32, 119, 111, 114, 108, 100>>,     \* hello world
          <<100, 111, 110, 39, 116>>,                                   \* don't
          <<97, 92, 98>>,                                               \* a\b
          <<65, 98, 99>>,                                               \* Abc
          <<95, 120>>,                                                  \* _x
          <<32>>, <<10>>, <<97, 32, 98>>, <<91, 97, 93>>, <<39>> }      \* space, newline, "a b", "[a]", "'"

Extras == Predef \cup DigitTexts \cup NulTexts \cup Misc \cup NulSpace

(* all sample texts are ASCII or NUL, so their byte strings are their code sequences *)
StaticSample == Predef

ASSUME BuildAndRunTimeAgree == TwoPlacesAgree({Utf8Seq(s) : s \in StaticSample})
ASSUME NulRule == NulMustNotInline

(* ------------------------------------------------------------------------------------------- *)
Repl(s, j, v) == [s EXCEPT ![j] = v]
Bump(c) == IF IsCharCode(c + 1) THEN c + 1 ELSE c - 1
Down(c) == IF c = 0 THEN 1 ELSE IF IsCharCode(c - 1) THEN c - 1 ELSE c + 1

Nbrs(t) ==                                    \* texts at edit distance 1
  LET n == Len(t) IN
  ({t \o <<97>>, <<97>> \o t, t \o <<0>>}
   \cup (IF n >= 1 THEN {Prefix(t, n - 1), Suffix(t, 1), Repl(t, n, Bump(t[n])), Repl(t, 1, Bump(t[1])),
                         Repl(t, n, Down(t[n]))} ELSE {})) \ {t}

IsDigits(t) == t # <<>> /\ t[1] # 48 /\ \A j \in 1..Len(t) : t[j] >= 48 /\ t[j] <= 57

Paths(t) ==
  {"lit_query", "lit_clause", "atom_codes", "atom_chars", "atom_concat", "sub_atom", "read_term", "functor",
   "write_chars", "assert"}
  \cup (IF Len(t) = 1 THEN {"char_code"} ELSE {})
  \cup (IF IsDigits(t) THEN {"number_codes"} ELSE {})
Splits(t) == {0, 1, Len(t) - 1, Len(t)} \cap (0..Len(t))

S == {Utf8Seq(s) : s \in StaticSample}

VARIABLES phase, grp, tx
vars == <<phase, grp, tx>>

Init == phase = "pick" /\ tx = <<>> /\ grp \in (0..MaxBytes) \cup {-1}
Next ==
  /\ phase = "pick" /\ phase' = "case" /\ UNCHANGED grp
  /\ tx' \in (IF grp = -1 THEN Extras ELSE TextsByBytes(grp))

Sane ==
  phase = "case" =>
    LET bs == Utf8Seq(tx) IN
    /\ Utf8Decode(bs) = tx /\ Len(bs) = ByteLen(tx)
    /\ RepDeterminesText(bs, S)
    /\ (RunRep(bs, S).cls = "inlined") <=> (Len(bs) >= 1 /\ Len(bs) <= 6 /\ ~HasNul(bs))
    /\ (BuildRep(bs).cls = "inlined") <=> (RunRep(bs, S).cls = "inlined")      \* the two transcribed conditions agree
    /\ (BuildRep(bs).cls = "inlined" => BuildRep(bs) = RunRep(bs, S))
    /\ (Len(tx) = 1 => CharPathAgrees(tx[1], S))
    /\ \A nb \in Nbrs(tx) :
         /\ ~SameAtom(tx, nb)
         /\ RunRep(bs, S) # RunRep(Utf8Seq(nb), S)          \* different texts, different representations
         /\ OrderAgrees(tx, nb)                              \* byte order of UTF-8 = code-point order

Emit ==
  phase = "case" =>
    LET bs == Utf8Seq(tx) IN
    PrintT(ToJson([text |-> tx, bytes |-> bs, cls |-> RunRep(bs, S).cls, splits |-> Splits(tx), paths |-> Paths(tx),
                   nbrs |-> {[text |-> nb, cmp |-> AtomOrder(tx, nb), cls |-> RunRep(Utf8Seq(nb), S).cls] : nb \in Nbrs(tx)}]))
=============================================================================
