------------------------------ MODULE Trace_C41 ------------------------------
(* C41, binding direction impl -> spec for the generating mode of json_chars//1.            *)
(* The documentation of json.pl does not fix the text that is generated (escape choice,      *)
(* number notation, ...), only that it is JSON denoting the term. Every record of the trace  *)
(* is one observation  {"id": n, "text": [code points the implementation produced as its      *)
(* first answer], "v": the JSON value (JsonSpec record) whose term was handed in};            *)
(* the specification reads the text with its own parser and judges Parse(text) = v.           *)
(* A record that is not accepted is printed ({"reject": id}) and the run continues, so that   *)
(* one defect does not mask the others; the POSTCONDITION checks that every record was judged.*)
EXTENDS JsonSpec, Json, IOUtils

Rec == ndJsonDeserialize(IOEnv.TRACE)

VARIABLE l
Init == l = 1
Accepts(e) == LET r == Parse(e.text) IN r.ok /\ Strip(r.v) = Strip(e.v)
Next == /\ l <= Len(Rec)
        /\ l' = l + 1
        /\ IF Accepts(Rec[l]) THEN TRUE ELSE PrintT(ToJson([reject |-> Rec[l].id]))
TraceJudged == TLCGet("stats").diameter - 1 = Len(Rec)
=============================================================================
