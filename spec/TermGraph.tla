----------------------------- MODULE TermGraph -----------------------------
(* C24: term GRAPHS and the meaning of the term-inspection builtins on the rational    *)
(* (infinite) trees they denote.                                                         *)
(*                                                                                       *)
(* A graph is a sequence G of N nodes [k, x, y]; node i is the value of the Prolog       *)
(* variable Xi after the equation set  X1 = rhs1, ..., XN = rhsN  (occurs check off):    *)
(*    k = "v"  no equation (Xi stays a variable)        "a","b"  the atoms a, b          *)
(*    k = "r"  Xi = Xx   (variable chain)                "f"      Xi = f(Xx)             *)
(*    k = "g"  Xi = g(Xx, Xy)                            "l"      Xi = '.'(Xx, Xy)       *)
(*    k = "s"  Xi = the partial string "ab" followed by the tail Xx, i.e. [a,b|Xx]       *)
(*    k = "h"  Xi = h(Xx, a, a)     (arity 3: an argument cell followed by two more)     *)
(* Edges are arbitrary, so cycles through structures, lists, strings and chains occur.   *)
(* Every equation binds an unbound variable (each Xi has one equation; a chain leads to  *)
(* at most one non-"r" node), so the equation set always succeeds and the heap denotes   *)
(* exactly the graph; a cycle of "r" nodes is one unbound variable.                      *)
(*                                                                                       *)
(* All operators are defined on the PURE graph P (kinds v a b f g l h only) obtained by    *)
(* resolving chains and expanding string segments; Live is the set of its node ids.      *)
(* The meaning is the one of the infinite unfolding:                                     *)
(*   ==            bisimilarity (greatest fixpoint), variables are equal to themselves   *)
(*   acyclic_term  the unfolding is finite                                               *)
(*   ground        no variable node is reachable                                         *)
(*   term_variables the reachable variable nodes; the ORDER is first occurrence in a     *)
(*                 depth-first left-to-right walk (ISO 8.5.5). On an infinite tree that  *)
(*                 walk never leaves the leftmost infinite branch, so the order is only  *)
(*                 defined by the property for finite (acyclic) terms; for cyclic roots  *)
(*                 the walk "cutting at revisits" is given for information and only the  *)
(*                 SET (without duplicates) is asserted (flag ord).                      *)
(*   =             unification of rational trees (union-find; always terminates)         *)
(*   compare/3     standard order (ISO 7.2): Var < Atom < Compound; compounds by arity,  *)
(*                 name, then arguments left to right, i.e. the sign of the FIRST        *)
(*                 difference met in preorder. On infinite trees that first difference   *)
(*                 exists iff the descent "go into the leftmost pair of arguments that   *)
(*                 are not bisimilar" reaches a pair with different labels (LexCmp);     *)
(*                 the result is "=" exactly for bisimilar nodes; where the descent runs *)
(*                 for ever (all differences lie to the right of an infinite leftmost    *)
(*                 branch, e.g. X = g(X,a) against Y = g(Y,b)) the property defines no   *)
(*                 answer: the result is "?" = any of < or >.                            *)
(*                 A second reading, the limit of the comparisons of the depth-d         *)
(*                 truncations (CmpLimit), is defined more often; TLC checks that it     *)
(*                 agrees with LexCmp wherever LexCmp is defined, it is not asserted      *)
(*                 beyond that (the 4-node graphs have pairs where scryer's cut-at-      *)
(*                 revisit walk and the truncation limit differ, both are defensible).   *)
(*                 The order of two distinct variables is implementation defined (ISO    *)
(*                 7.2.1): results are given for every total order vo of the variables.  *)
(*   copy_term     an isomorphic graph on fresh nodes (Variant, disjoint variables)       *)
EXTENDS Naturals, Sequences, FiniteSets, TLC

Nd(k, x, y) == [k |-> k, x |-> x, y |-> y]

(* ---------------------------------------------------------------- enumeration of graphs *)
NK(N) == 3 + 4 * N + 2 * N * N          \* number of node shapes over N nodes

DecodeNode(c, N) ==
  IF c = 0 THEN Nd("v", 0, 0)
  ELSE IF c = 1 THEN Nd("a", 0, 0)
  ELSE IF c = 2 THEN Nd("b", 0, 0)
  ELSE IF c < 3 + N THEN Nd("r", c - 2, 0)
  ELSE IF c < 3 + 2 * N THEN Nd("f", c - 2 - N, 0)
  ELSE IF c < 3 + 3 * N THEN Nd("s", c - 2 - 2 * N, 0)
  ELSE IF c < 3 + 4 * N THEN Nd("h", c - 2 - 3 * N, 0)
  ELSE IF c < 3 + 4 * N + N * N THEN
         LET d == c - 3 - 4 * N IN Nd("g", (d \div N) + 1, (d % N) + 1)
  ELSE   LET d == c - 3 - 4 * N - N * N IN Nd("l", (d \div N) + 1, (d % N) + 1)

EncodeNode(nd, N) ==
  CASE nd.k = "v" -> 0
    [] nd.k = "a" -> 1
    [] nd.k = "b" -> 2
    [] nd.k = "r" -> 2 + nd.x
    [] nd.k = "f" -> 2 + N + nd.x
    [] nd.k = "s" -> 2 + 2 * N + nd.x
    [] nd.k = "h" -> 2 + 3 * N + nd.x
    [] nd.k = "g" -> 3 + 4 * N + (nd.x - 1) * N + (nd.y - 1)
    [] nd.k = "l" -> 3 + 4 * N + N * N + (nd.x - 1) * N + (nd.y - 1)

RECURSIVE Pw(_, _)
Pw(b, e) == IF e = 0 THEN 1 ELSE b * Pw(b, e - 1)

(* TLCEval: TLC keeps [x \in S |-> e] lazy and would re-evaluate e at every application *)
Decode(code, N) == TLCEval([i \in 1..N |-> DecodeNode((code \div Pw(NK(N), i - 1)) % NK(N), N)])

RECURSIVE EncodeFrom(_, _, _)
EncodeFrom(G, N, i) == IF i > N THEN 0 ELSE EncodeNode(G[i], N) + NK(N) * EncodeFrom(G, N, i + 1)
Encode(G) == EncodeFrom(G, Len(G), 1)

(* relabelling by a permutation pi of 1..N: node i becomes node pi[i] *)
Relabel(G, pi) ==
  LET N == Len(G)
      inv == [j \in 1..N |-> CHOOSE i \in 1..N : pi[i] = j]
      mp(e) == IF e = 0 THEN 0 ELSE pi[e]
  IN TLCEval([j \in 1..N |-> Nd(G[inv[j]].k, mp(G[inv[j]].x), mp(G[inv[j]].y))])

(* one representative per isomorphism class of labelled graphs: the least code *)
Canonical(G) ==
  LET N == Len(G) c == Encode(G) IN
  \A pi \in Permutations(1..N) : c <= Encode(Relabel(G, pi))

(* ------------------------------------------------------------------------ pure graph *)
RECURSIVE Walk(_, _, _)
Walk(G, n, k) == IF k = 0 \/ G[n].k # "r" THEN n ELSE Walk(G, G[n].x, k - 1)

SetMin(S) == CHOOSE m \in S : \A o \in S : m <= o

(* the node a variable Xi stands for: the end of its chain, or the least node of a chain cycle *)
Rep(G, n) ==
  LET N == Len(G) m == Walk(G, n, N) IN
  IF G[m].k # "r" THEN m ELSE SetMin({Walk(G, m, j) : j \in 0..N})

AtomA(N) == 2 * N + 1
AtomB(N) == 2 * N + 2

Pure(G) ==
  LET N == Len(G)
      R(e) == Rep(G, e)
  IN TLCEval([n \in 1..(2 * N + 2) |->
        IF n <= N THEN
          LET m == R(n) nd == G[m] IN
          CASE nd.k \in {"v", "r"} -> Nd("v", 0, 0)
            [] nd.k \in {"a", "b"} -> Nd(nd.k, 0, 0)
            [] nd.k = "f"          -> Nd("f", R(nd.x), 0)
            [] nd.k \in {"g", "l"} -> Nd(nd.k, R(nd.x), R(nd.y))
            [] nd.k = "h"          -> Nd("h", R(nd.x), AtomA(N))
            [] nd.k = "s"          -> Nd("l", AtomA(N), N + m)
        ELSE IF n <= 2 * N THEN
          IF G[n - N].k = "s" THEN Nd("l", AtomB(N), R(G[n - N].x)) ELSE Nd("a", 0, 0)
        ELSE IF n = AtomA(N) THEN Nd("a", 0, 0) ELSE Nd("b", 0, 0)])

Live(G) ==
  LET N == Len(G) S == {n \in 1..N : G[n].k = "s" /\ Rep(G, n) = n} IN
  {Rep(G, n) : n \in 1..N} \cup {N + n : n \in S} \cup (IF S = {} THEN {} ELSE {AtomA(N), AtomB(N)})
  \cup (IF \E n \in 1..N : G[Rep(G, n)].k = "h" THEN {AtomA(N)} ELSE {})

(* the name under which the driver sees a variable node: the least Xi aliased to it *)
VarName(G, v) == SetMin({n \in 1..Len(G) : Rep(G, n) = v})

Arity(P, n) == CASE P[n].k = "f" -> 1 [] P[n].k \in {"g", "l"} -> 2 [] P[n].k = "h" -> 3 [] OTHER -> 0
Kid(P, n, c) == IF c = 1 THEN P[n].x ELSE P[n].y
Kids(P, n) == IF Arity(P, n) = 0 THEN <<>> ELSE IF Arity(P, n) = 1 THEN <<P[n].x>>
              ELSE IF Arity(P, n) = 2 THEN <<P[n].x, P[n].y>> ELSE <<P[n].x, P[n].y, P[n].y>>     \* h(x, a, a)
KidSet(P, n) == {Kid(P, n, c) : c \in 1..Arity(P, n)}
Rank(P, n) == CASE P[n].k = "v" -> 0 [] P[n].k = "a" -> 1 [] P[n].k = "b" -> 2
                [] P[n].k = "f" -> 3 [] P[n].k = "l" -> 4 [] P[n].k = "g" -> 5 [] P[n].k = "h" -> 6
              \* standard order: Var < Atom (a @< b) < Compound; f/1 before arity 2; '.' @< g; arity 3 last

(* ------------------------------------------------------------------------ == *)
RECURSIVE GFix(_, _)
GFix(P, R) ==
  LET R2 == {p \in R : \A c \in 1..Arity(P, p[1]) : <<Kid(P, p[1], c), Kid(P, p[2], c)>> \in R}
  IN IF R2 = R THEN R ELSE GFix(P, R2)

Bisim(P, L) ==
  GFix(P, {p \in L \X L : IF P[p[1]].k = "v" \/ P[p[2]].k = "v" THEN p[1] = p[2] ELSE P[p[1]].k = P[p[2]].k})

(* ------------------------------------------------------------------------ reachability *)
RECURSIVE ReachFrom(_, _, _)
ReachFrom(P, S, front) ==
  IF front = {} THEN S
  ELSE LET nx == (UNION {KidSet(P, n) : n \in front}) \ S IN ReachFrom(P, S \cup nx, nx)

Reach(P, r) == ReachFrom(P, {r}, {r})
ReachPlus(P, r) == LET K == KidSet(P, r) IN ReachFrom(P, K, K)

Acyclic(P, r) == \A n \in Reach(P, r) : n \notin ReachPlus(P, n)

(* independent reading: the unfolding is finite iff no path of |Live| edges starts at r *)
RECURSIVE Level(_, _, _)
Level(P, S, k) == IF k = 0 \/ S = {} THEN S ELSE Level(P, UNION {KidSet(P, n) : n \in S}, k - 1)
FiniteUnfolding(P, L, r) == Level(P, {r}, Cardinality(L)) = {}

Ground(P, r) == \A n \in Reach(P, r) : P[n].k # "v"

RECURSIVE Dfs(_, _, _, _)
Dfs(P, stack, seen, acc) ==
  IF stack = <<>> THEN acc
  ELSE LET n == Head(stack) rest == Tail(stack) IN
       IF n \in seen THEN Dfs(P, rest, seen, acc)
       ELSE Dfs(P, Kids(P, n) \o rest, seen \cup {n}, IF P[n].k = "v" THEN Append(acc, n) ELSE acc)

TermVars(P, r) == Dfs(P, <<r>>, {}, <<>>)

(* ------------------------------------------------------------------------ unification *)
Merge(cls, a, b) == TLCEval([n \in DOMAIN cls |-> IF cls[n] = a THEN b ELSE cls[n]])

RECURSIVE UStep(_, _, _)
UStep(P, cls, work) ==
  IF work = <<>> THEN [ok |-> TRUE, cls |-> cls]
  ELSE LET a == cls[work[1][1]] b == cls[work[1][2]] rest == Tail(work) IN
       IF a = b THEN UStep(P, cls, rest)
       ELSE IF P[a].k = "v" THEN UStep(P, Merge(cls, a, b), rest)
       ELSE IF P[b].k = "v" THEN UStep(P, Merge(cls, b, a), rest)
       ELSE IF P[a].k # P[b].k THEN [ok |-> FALSE, cls |-> cls]
       ELSE UStep(P, Merge(cls, a, b), [c \in 1..Arity(P, a) |-> <<Kid(P, a, c), Kid(P, b, c)>>] \o rest)

(* result: ok and the node equivalence (class representative; a non-variable member if there is one) *)
Unify(P, L, i, j) == UStep(P, TLCEval([n \in L |-> n]), <<<<i, j>>>>)

(* the graph after a successful unification, on the same node ids *)
Quotient(P, L, cls) ==
  TLCEval([n \in DOMAIN P |->
     IF n \notin L THEN P[n]
     ELSE LET m == cls[n] IN Nd(P[m].k, IF P[m].x = 0 THEN 0 ELSE cls[P[m].x], IF P[m].y = 0 THEN 0 ELSE cls[P[m].y])])

(* ------------------------------------------------------------------------ standard order *)
(* vo: rank of every variable node (a total order of the variables)                       *)
LabCmp(P, vo, i, j) ==
  IF P[i].k = "v" /\ P[j].k = "v" THEN (IF i = j THEN "=" ELSE IF vo[i] < vo[j] THEN "<" ELSE ">")
  ELSE IF Rank(P, i) < Rank(P, j) THEN "<" ELSE IF Rank(P, i) > Rank(P, j) THEN ">" ELSE "="

(* comparison of the truncations one level deeper, given the matrix C of the current depth *)
CmpStep(P, L, vo, C) ==
  TLCEval([p \in L \X L |->
     LET lc == LabCmp(P, vo, p[1], p[2]) IN
     IF lc # "=" THEN lc
     ELSE IF Arity(P, p[1]) = 0 THEN "="
     ELSE LET c1 == C[<<Kid(P, p[1], 1), Kid(P, p[2], 1)>>] IN
          IF c1 # "=" \/ Arity(P, p[1]) = 1 THEN c1 ELSE C[<<Kid(P, p[1], 2), Kid(P, p[2], 2)>>]])
          \* (arity 3 is h(x, a, a): its third pair of arguments is its second pair again)

RECURSIVE CmpIter(_, _, _, _)
CmpIter(P, L, vo, hist) ==
  LET nx == CmpStep(P, L, vo, hist[Len(hist)]) IN
  IF \E k \in 1..Len(hist) : hist[k] = nx
  THEN LET k0 == CHOOSE k \in 1..Len(hist) : hist[k] = nx IN SubSeq(hist, k0, Len(hist))
  ELSE CmpIter(P, L, vo, Append(hist, nx))

(* the matrices that recur for ever (depth -> infinity) *)
CmpCycle(P, L, vo) == CmpIter(P, L, vo, <<TLCEval([p \in L \X L |-> "="])>>)

CmpLimit(cyc, i, j) ==
  IF \A k \in 1..Len(cyc) : cyc[k][<<i, j>>] = cyc[1][<<i, j>>] THEN cyc[1][<<i, j>>] ELSE "?"

(* the first difference in preorder, where it exists: B = Bisim(P, L), fuel = number of pairs *)
RECURSIVE LexWalk(_, _, _, _, _, _)
LexWalk(P, B, vo, i, j, fuel) ==
  LET lc == LabCmp(P, vo, i, j) IN
  IF lc # "=" THEN lc
  ELSE IF <<i, j>> \in B THEN "="
  ELSE IF fuel = 0 THEN "?"
  ELSE LET c == CHOOSE c \in 1..Arity(P, i) :
                  /\ <<Kid(P, i, c), Kid(P, j, c)>> \notin B
                  /\ \A d \in 1..(c - 1) : <<Kid(P, i, d), Kid(P, j, d)>> \in B
       IN LexWalk(P, B, vo, Kid(P, i, c), Kid(P, j, c), fuel - 1)

LexCmp(P, L, B, vo, i, j) == LexWalk(P, B, vo, i, j, Cardinality(L) * Cardinality(L))

(* ------------------------------------------------------------------------ copy_term *)
(* copy of the part reachable from r onto the ids n + K; returns the enlarged graph      *)
CopyGraph(P, r, K) ==
  LET RS == Reach(P, r) IN
  TLCEval([n \in (DOMAIN P) \cup {m + K : m \in RS} |->
     IF n \in DOMAIN P THEN P[n]
     ELSE LET o == P[n - K] IN Nd(o.k, IF o.x = 0 THEN 0 ELSE o.x + K, IF o.y = 0 THEN 0 ELSE o.y + K)])

RECURSIVE Lock(_, _, _)
Lock(P, S, front) ==
  IF front = {} THEN S
  ELSE LET nx == (UNION {{<<Kid(P, p[1], c), Kid(P, p[2], c)>> : c \in 1..(IF P[p[1]].k = P[p[2]].k THEN Arity(P, p[1]) ELSE 0)}
                          : p \in front}) \ S
       IN Lock(P, S \cup nx, nx)

(* i and j are equal up to a bijective renaming of variables *)
Variant(P, i, j) ==
  LET LP == Lock(P, {<<i, j>>}, {<<i, j>>}) IN
  /\ \A p \in LP : P[p[1]].k = P[p[2]].k
  /\ \A p, q \in LP : P[p[1]].k = "v" /\ P[q[1]].k = "v" => ((p[1] = q[1]) <=> (p[2] = q[2]))
=============================================================================
