CONSTANT Sizes = {1000, 10000, 100000, 1000000}
INIT Init
NEXT Next
INVARIANT Alive
INVARIANT Ends
INVARIANT Emit
