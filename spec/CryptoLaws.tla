----------------------------- MODULE CryptoLaws -----------------------------
(* C37, library(crypto): the laws of crypto_data_hash/3 and crypto_data_encrypt/6,          *)
(* crypto_data_decrypt/6 that can be stated WITHOUT computing a digest or a ciphertext.     *)
(* The hash functions and the cipher are uninterpreted: what a digest/ciphertext/tag is for  *)
(* given inputs is not fixed by this module, it is inferred from the first observation       *)
(* (trace validation, spec/Trace_C37.tla) and every later observation must be consistent     *)
(* with it. The VALUES of digests, MACs, ciphertexts and tags are therefore not decided here *)
(* (DESIGN.md section 9), with one exception: the value documented in crypto.pl for          *)
(* crypto_data_hash("abc", Hs, [algorithm(sha256)]).                                         *)
(*                                                                                           *)
(* Documented behaviour (doc comments of /repo/src/lib/crypto.pl):                           *)
(*  * Hash "is the computed hash as a list of hexadecimal characters"; algorithms ripemd160, *)
(*    sha256, sha384, sha512, sha512_256, sha3_224, sha3_256, sha3_384, sha3_512,            *)
(*    blake2s256, blake2b512; the digest sizes are those of the named algorithms.            *)
(*  * encoding(utf8) (default) / encoding(octet) "use the character code of each character   *)
(*    in Data as a byte value": the hash is a function of the BYTES; the driver records the  *)
(*    bytes the data denotes under the chosen encoding, so "e-acute" as utf8 and the two     *)
(*    characters C3 A9 as octet must hash alike.                                             *)
(*  * hmac(Key): "currently supported for algorithms sha256, sha384 and sha512"; with Hash   *)
(*    instantiated the call verifies it.                                                     *)
(*  * 'chacha20-poly1305' is the only cipher: 32-byte key, 12-byte nonce, "the encrypted     *)
(*    data has exactly the same length as the original", "a stream cipher", the tag "must be *)
(*    provided for decryption", authenticated: modifications are detected.                   *)
EXTENDS Integers, Sequences, FiniteSets, Bitwise, TLC

Algs == {"ripemd160", "sha256", "sha384", "sha512", "sha512_256", "sha3_224", "sha3_256", "sha3_384", "sha3_512",
         "blake2s256", "blake2b512"}
HmacAlgs == {"sha256", "sha384", "sha512"}
(* digest length in hexadecimal characters *)
HexLen(alg) == CASE alg = "ripemd160" -> 40
                 [] alg \in {"sha3_224"} -> 56
                 [] alg \in {"sha256", "sha512_256", "sha3_256", "blake2s256"} -> 64
                 [] alg \in {"sha384", "sha3_384"} -> 96
                 [] alg \in {"sha512", "sha3_512", "blake2b512"} -> 128
IsLowerHex(cs) == \A i \in 1..Len(cs) : (cs[i] >= 48 /\ cs[i] <= 57) \/ (cs[i] >= 97 /\ cs[i] <= 102)

(* the one documented digest: sha256 of the bytes of "abc" *)
AbcBytes == <<97, 98, 99>>
AbcSha256 == "ba7816bf8f01cfea414140de5dae2223b00361a396177a9cb410ff61f20015ad"

-----------------------------------------------------------------------------
(* Hash observations. e = [alg, mac (an HMAC key was given), key, data (bytes), res, h (code   *)
(* points of the hash)]; hs = the set of accepted ok-observations, i.e. the part of the        *)
(* uninterpreted function H[alg, mac, key, data] inferred so far.                               *)
HKey(e) == <<e.alg, e.mac, e.key, e.data>>

HashAccept(e, hs) ==
  /\ e.alg \in Algs
  /\ IF e.mac /\ e.alg \notin HmacAlgs
       THEN e.res # "ok"                                   \* unsupported combination: no hash is produced
       ELSE e.res = "ok"                                   \* every supported algorithm produces a hash
  /\ e.res = "ok" =>
       /\ Len(e.h) = HexLen(e.alg)                         \* output length of the algorithm
       /\ IsLowerHex(e.h)                                  \* lower-case hexadecimal
       /\ \A r \in hs : HKey(r) = HKey(e) => r.h = e.h     \* a function of (algorithm, key, bytes): determinism,
                                                           \* and independence of the encoding option
       /\ \A r \in hs : r.alg = e.alg /\ r.mac = e.mac /\ r.key = e.key /\ r.data # e.data => r.h # e.h
                                                           \* distinct data, distinct digest (collision resistance)
       /\ \A r \in hs : r.alg = e.alg /\ r.data = e.data /\ r.mac # e.mac => r.h # e.h
                                                           \* hmac(Key) changes the value
       /\ \A r \in hs : r.alg # e.alg /\ r.mac = e.mac /\ r.key = e.key /\ r.data = e.data => r.h # e.h
                                                           \* distinct algorithms, distinct digests

(* the documented example; applied to hash observations whose value is given as a string *)
DocumentedValueOk(e, hstr) ==
  (e.alg = "sha256" /\ ~e.mac /\ e.data = AbcBytes /\ e.res = "ok") => hstr = AbcSha256

(* verification: Hash instantiated. e.h is the given hash, e.res \in {"true","false","error"}   *)
VerifyAccept(e, hs) ==
  \A r \in hs : HKey(r) = HKey(e) => ((e.res = "true") <=> (r.h = e.h))

-----------------------------------------------------------------------------
(* Authenticated encryption. encs = accepted encryptions [key, iv, aad, pt, ct, tag] (bytes).  *)
XorSeq(a, b) == [i \in 1..Len(a) |-> a[i] ^^ b[i]]          \* equal lengths
Prefix(a, n) == SubSeq(a, 1, n)
MinLen(a, b) == IF Len(a) < Len(b) THEN Len(a) ELSE Len(b)

EncAccept(e, encs) ==
  IF Len(e.key) # 32 \/ Len(e.iv) # 12
    THEN e.res # "ok"                                       \* 256-bit key and 96-bit nonce are required
    ELSE /\ e.res = "ok"
         /\ Len(e.ct) = Len(e.pt)                           \* same length, no padding
         /\ Len(e.tag) = 16                                 \* Poly1305 tag
         /\ \A r \in encs : r.key = e.key /\ r.iv = e.iv /\ r.aad = e.aad /\ r.pt = e.pt
                             => r.ct = e.ct /\ r.tag = e.tag         \* deterministic
         /\ \A r \in encs : r.key = e.key /\ r.iv = e.iv =>          \* stream cipher: ct = pt xor KS[key, iv]
              LET n == MinLen(r.pt, e.pt) IN
              Prefix(XorSeq(r.ct, r.pt), n) = Prefix(XorSeq(e.ct, e.pt), n)
         /\ \A r \in encs : r.key = e.key /\ r.iv = e.iv /\ r.tag = e.tag => r.aad = e.aad /\ r.pt = e.pt
                                                            \* the tag authenticates ciphertext and AAD

(* e = [key, iv, aad, ct, tag, res, pt]: decryption succeeds exactly on what an accepted       *)
(* encryption under the same key, nonce and AAD produced, and then returns its plaintext.      *)
DecAccept(e, encs) ==
  LET src == {r \in encs : r.key = e.key /\ r.iv = e.iv /\ r.aad = e.aad /\ r.ct = e.ct /\ r.tag = e.tag}
  IN IF src = {} THEN e.res # "ok"                          \* forged / tampered / wrong key, nonce, AAD or tag
     ELSE e.res = "ok" /\ \A r \in src : r.pt = e.pt        \* decrypt(encrypt(p)) = p
=============================================================================
