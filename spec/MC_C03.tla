------------------------------- MODULE MC_C03 -------------------------------
(* C03 model: (1) the B-level fact "two dispatch tables": the evaluable functors of the compiled *)
(* evaluator and of the run-time walker (extracted from the sources by the driver, file          *)
(* TablesPath) are diffed here; (2) TLC enumerates the expression trees (depth <= 2 quick,  *)
(* <= 3 thorough) over every evaluable functor known to either evaluator and over the leaf set,   *)
(* checks the context layer of ArithCtx on each tree, and prints the tree as a JSON vector.        *)
(* The driver renders each tree to text, places it in every evaluation context and records what   *)
(* the implementation answered; Trace_C03 validates that record against ArithCtx.                  *)
EXTENDS ArithCtxTables

CONSTANT Tier        \* "quick" | "thorough"

NU == Len(UnarySeq)
NB == Len(BinarySeq)
NF == NU + NB
Fn(i) == IF i <= NU THEN [n |-> UnarySeq[i], ar |-> 1] ELSE [n |-> BinarySeq[i - NU], ar |-> 2]

-----------------------------------------------------------------------------
(* leaves *)
P(n) == Pow2(n)
I(k) == IntL(FromInt(k))
Rat(p, q) == Op2("rdiv", I(p), I(q))
Foo1 == Op1("foo", I(1))

LeafQuick ==
  << I(0), I(1), I(-1), I(3),
     IntL(Sub(P(55), One)), IntL(P(55)), IntL(Neg(P(55))), IntL(Sub(Neg(P(55)), One)), IntL(P(70)),
     Rat(1, 3),
     Flt("3fe0000000000000"),      \* 0.5
     Flt("c004000000000000"),      \* -2.5
     Flt("4008000000000000"),      \* 3.0
     Flt("0000000000000000"),      \* 0.0
     Atom("foo"), Var, Foo1 >>
LeafMore ==
  << I(-7), I(255), IntL(Add(P(55), One)), IntL(Neg(P(70))), IntL(P(63)),
     IntL(Add(Pow(FromInt(10), 30), FromInt(7))),
     Rat(-7, 2),
     Flt("3ff8000000000000"),      \* 1.5
     Flt("4202a05f20000000"),      \* 1.0e10
     Flt("3fb999999999999a") >>    \* 0.1
NullaryLeaves == [i \in 1..Len(NullarySeq) |-> Atom(NullarySeq[i])]
LeafSeq == (IF Tier = "quick" THEN LeafQuick ELSE LeafQuick \o LeafMore) \o NullaryLeaves
NL == Len(LeafSeq)

(* operands used to fill the free positions of deeper trees *)
FillSeq ==
  << I(3), IntL(Sub(P(55), One)), IntL(P(70)), Flt("c004000000000000"), Rat(1, 3), Atom("foo"),
     I(-1), I(0), Flt("3fe0000000000000"), Var >>
NFill == Len(FillSeq)
Fill(k) == FillSeq[(k % NFill) + 1]

-----------------------------------------------------------------------------
(* tree builders *)
Leaf1(i, l1, l2) == IF Fn(i).ar = 1 THEN Op1(Fn(i).n, l1) ELSE Op2(Fn(i).n, l1, l2)
Mk(i, sub, side, fill) ==
  IF Fn(i).ar = 1 THEN Op1(Fn(i).n, sub)
  ELSE IF side = 1 THEN Op2(Fn(i).n, sub, fill) ELSE Op2(Fn(i).n, fill, sub)
Sides(i) == IF Fn(i).ar = 1 THEN {1} ELSE {1, 2}

(* depth 1: every functor on every leaf (unary) / on a stratified (quick) or the full (thorough)  *)
(* set of leaf pairs (binary)                                                                      *)
D1(i) ==
  IF Fn(i).ar = 1 THEN {Leaf1(i, LeafSeq[a], LeafSeq[a]) : a \in 1..NL}
  ELSE {Leaf1(i, LeafSeq[a], LeafSeq[b]) :
          <<a, b>> \in {p \in (1..NL) \X (1..NL) : Tier = "thorough" \/ (i + p[1] + p[2]) % 4 = 0}}

(* depth 2: every (outer, inner) pair of functors, the inner tree on either side of a binary outer *)
(* functor; the remaining operands rotate through FillSeq (quick) or range over it (thorough)      *)
D2(io) ==
  {Mk(io, Leaf1(ii, Fill(k + io + ii), Fill(k + io + 2 * ii + 1)), side, Fill(2 * io + ii + side + k)) :
     <<ii, side, k>> \in (1..NF) \X Sides(io) \X (IF Tier = "quick" THEN {0} ELSE 0..(NFill - 1))}

(* depth 3 (thorough): every third (outer, middle, inner) triple *)
D3(io) ==
  {Mk(io, Mk(im, Leaf1(ii, Fill(io + im + ii), Fill(io + 2 * im + ii + 1)),
             1 + ((io + ii) % 2), Fill(2 * io + im + ii)),
      1 + ((im + ii) % 2), Fill(io + im + 2 * ii + 3)) :
     <<im, ii>> \in {p \in (1..NF) \X (1..NF) : (io + p[1] + p[2]) % 3 = 0}}

(* the enumeration is closed under sub-expressions: Trace_C03 relates the outcome of an expression *)
(* to the outcomes of its operands                                                                 *)
RECURSIVE SubTerms(_)
SubTerms(t) == {t} \cup UNION {SubTerms(t.a[i]) : i \in 1..Len(t.a)}

Shapes == IF Tier = "quick" THEN {"D1", "D2"} ELSE {"D1", "D2", "D3"}
Trees(shape, io) ==
  CASE shape = "D1" -> D1(io)
    [] shape = "D2" -> D2(io)
    [] shape = "D3" -> D3(io)

-----------------------------------------------------------------------------
VARIABLES phase, shape, io, e
vars == <<phase, shape, io, e>>

(* one cheap initial state per (shape, outer functor); the trees are its successors.  The state  *)
(* ("L", 0) yields the bare leaves.                                                                *)
Init ==
  /\ phase = "pick" /\ e = Var
  /\ \/ shape \in Shapes /\ io \in 1..NF
     \/ shape = "L" /\ io = 0
Next ==
  /\ phase = "pick" /\ phase' = "case"
  /\ \E t \in (IF shape = "L" THEN ToSet(LeafSeq) ELSE Trees(shape, io)) :
       /\ Admissible(t)
       /\ e' \in SubTerms(t)
       /\ IF e' = t THEN UNCHANGED <<shape, io>> ELSE shape' = "S" /\ io' = 0   \* "S": a proper sub-expression

(* the context layer: every context hands the evaluator an expression with the meaning of e *)
NestedOK == "+" \in UnaryDef
CtxSound ==
  phase = "case" =>
    /\ Eval(e).k \in {"int", "err", "unk"}
    /\ \A c \in Contexts : (c # "nested" \/ NestedOK) => Eval(CtxExpr(c, e)) = Eval(e)
    /\ Depth(e) <= (IF Tier = "quick" THEN 2 ELSE 3) + 1   \* +1: the rational leaf is rdiv(p, q)

Header ==
  (phase = "pick" /\ shape = "L") =>
    PrintT(ToJson([kind |-> "tables",
                   extracted |-> Tables.extracted,
                   unary_diff |-> TableDiff(ToSet(Tables.cu), ToSet(Tables.ru)),
                   binary_diff |-> TableDiff(ToSet(Tables.cb), ToSet(Tables.rb)),
                   nullary_diff |-> TableDiff(ToSet(Tables.cn), ToSet(Tables.rn)),
                   not_in_spec |-> (UnaryDef \ SpecUnary) \cup (BinaryDef \ SpecBinary) \cup (NullaryDef \ SpecNullary),
                   spec_only |-> (SpecUnary \ UnaryDef) \cup (SpecBinary \ BinaryDef) \cup (SpecNullary \ NullaryDef),
                   nested |-> NestedOK,
                   contexts |-> Contexts,
                   nu |-> NU, nb |-> NB, nl |-> NL]))

Emit ==
  phase = "case" =>
    PrintT(ToJson([kind |-> "expr", shape |-> shape, e |-> e, oracle |-> Eval(e).k, depth |-> Depth(e)]))
=============================================================================
