CONSTANTS MaxSteps = 600 MaxAns = 50
INIT Init
NEXT Next
POSTCONDITION TraceAccepted
