------------------------------- MODULE MC_C38 -------------------------------
(* C38: delimited control and tabling compute the specified answers.                            *)
(*  part "tab": for every digraph on 3 nodes (thorough: plus a sample of the 65536 digraphs on   *)
(*    4 nodes), every tabled definition of Tabling.tla and every call pattern, the expected     *)
(*    answer *set* (least fixpoint); sanity theorems of Tabling.tla on every graph; on acyclic   *)
(*    graphs the untabled right-recursive program is run on the abstract machine and its answer  *)
(*    set must be the same set ("same answers as untabled execution when that terminates").     *)
(*  part "dl": generator / effect-handler / nested-reset programs from a template family are      *)
(*    run on the abstract machine extended with reset/3, shift/1 and continuation calls          *)
(*    (Delim.tla); expected = answers, ball and the log written by log/1.                         *)
EXTENDS Delim, Json, IOUtils

CONSTANT Tier

T == INSTANCE Tabling

(* =============================== part "tab" =============================== *)
Nodes3 == {"a", "b", "c"}
Pairs4 == << <<"a","a">>, <<"a","b">>, <<"a","c">>, <<"a","d">>, <<"b","a">>, <<"b","b">>, <<"b","c">>, <<"b","d">>,
             <<"c","a">>, <<"c","b">>, <<"c","c">>, <<"c","d">>, <<"d","a">>, <<"d","b">>, <<"d","c">>, <<"d","d">> >>
RECURSIVE Pow2(_)
Pow2(k) == IF k = 0 THEN 1 ELSE 2 * Pow2(k - 1)
EdgesOfIndex(i) == { Pairs4[k] : k \in { j \in 1..16 : (i \div Pow2(j - 1)) % 2 = 1 } }

Digit(ch) == CASE ch = "0" -> 0 [] ch = "1" -> 1 [] ch = "2" -> 2 [] ch = "3" -> 3 [] ch = "4" -> 4
               [] ch = "5" -> 5 [] ch = "6" -> 6 [] ch = "7" -> 7 [] ch = "8" -> 8 [] ch = "9" -> 9 [] OTHER -> 0
RECURSIVE StrToNat(_, _)
StrToNat(s, acc) == IF Len(s) = 0 THEN acc ELSE StrToNat(SubSeq(s, 2, Len(s)), (acc * 10 + Digit(SubSeq(s, 1, 1))) % 100000)
SeedVal == IF "C38_SEED" \in DOMAIN IOEnv THEN StrToNat(IOEnv.C38_SEED, 0) ELSE 1

SampleMod == 97
Graphs4 == { EdgesOfIndex(i) : i \in { j \in 0..65535 : j % SampleMod = SeedVal % SampleMod } }
Graphs3 == SUBSET (Nodes3 \X Nodes3)
(* quick: all 512 digraphs on 3 nodes for the left-recursive definition (the one that loops without tabling),   *)
(* and those with at most 2 edges or at least 8 edges for the others and for the second call order            *)
Small3 == { E \in Graphs3 : Cardinality(E) <= 2 \/ Cardinality(E) >= 8 }

PathKinds == {"left", "right", "double"}
MutKinds  == {"mright", "mleft"}
Modes == <<"xy", "ay", "xa", "ab", "xx", "cc">>
ModeSel(P, mode) ==
  CASE mode = "xy" -> P
    [] mode = "ay" -> T!Sel(P, "a", "v")
    [] mode = "xa" -> T!Sel(P, "v", "a")
    [] mode = "ab" -> T!Sel(P, "a", "b")
    [] mode = "cc" -> T!Sel(P, "c", "c")
    [] mode = "xx" -> { p \in P : p[1] = p[2] }
Orders == { <<"xy", "ay", "xa", "ab", "xx", "cc">>, <<"ab", "cc", "xa", "ay", "xx", "xy">> }

TabCases ==
  IF Tier = "quick"
  THEN { [E |-> E, n |-> 3, kind |-> "left", order |-> Modes] : E \in Graphs3 }
       \cup { [E |-> E, n |-> 3, kind |-> "left", order |-> o] : E \in Small3, o \in Orders }
       \cup { [E |-> E, n |-> 3, kind |-> k, order |-> Modes] : E \in Small3, k \in {"right", "double", "mright", "mleft"} }
  ELSE { [E |-> E, n |-> 3, kind |-> k, order |-> o] : E \in Graphs3, k \in PathKinds \cup MutKinds, o \in Orders }
       \cup { [E |-> E, n |-> 4, kind |-> k, order |-> Modes] : E \in Graphs4, k \in PathKinds \cup MutKinds }

(* the untabled right-recursive program on the abstract machine *)
X == V("X")  Y == V("Y")  Z == V("Z")
RECURSIVE SetSeq(_)
SetSeq(S) == IF S = {} THEN <<>> ELSE LET e == CHOOSE e \in S : TRUE IN <<e>> \o SetSeq(S \ {e})
PathProg(E) ==
  << [h |-> C2("path", X, Y), b |-> C2("edge", X, Y)],
     [h |-> C2("path", X, Y), b |-> Conj(C2("edge", X, Z), C2("path", Z, Y))] >>
  \o [j \in 1..Cardinality(E) |-> [h |-> C2("edge", A(SetSeq(E)[j][1]), A(SetSeq(E)[j][2])), b |-> True]]
ModeQuery(mode) ==
  CASE mode = "xy" -> C2("path", X, Y) [] mode = "ay" -> C2("path", A("a"), Y) [] mode = "xa" -> C2("path", X, A("a"))
    [] mode = "ab" -> C2("path", A("a"), A("b")) [] mode = "cc" -> C2("path", A("c"), A("c")) [] mode = "xx" -> C2("path", X, X)
UntabledAgrees(E, mode) ==
  LET q == ModeQuery(mode)
      r == Run(Load(PathProg(E), {<<"edge", 2>>}, q))
      got == { Apply((IF Len(r.qv) = 0 THEN EmptyStore ELSE [j \in {r.qv[i] : i \in 1..Len(r.qv)} |->
                         r.ans[k][CHOOSE i \in 1..Len(r.qv) : r.qv[i] = j]]), q) : k \in 1..Len(r.ans) }
      exp == { C2("path", A(p[1]), A(p[2])) : p \in ModeSel(T!PathLfp("right", E), mode) }
  IN r.status = "done" => got = exp

(* =============================== part "dl" =============================== *)
G == V("G")  B == V("B")  K == V("K")  Cv == V("C")  N == V("N")  N1 == V("N1")  Xs == V("Xs")  Xs1 == V("Xs1")
S0 == V("S0")  S == V("S")  S1 == V("S1")  Cmd == V("Cmd")  L == V("L")  H == V("H")  L1 == V("L1")
None_ == A("none")
Log(t) == C1("log", t)
Shift(t) == C1("shift", t)
Reset(g, bl, k) == C3("reset", g, bl, k)
Cont(k) == C1("cont", k)
Yield(t) == C1("yield", t)

Drivers == <<
  [h |-> C1("run", G), b |-> Conj(Reset(G, B, K), Ite(C2("==", K, None_), Log(A("end")),
                                   ConjOf(<<Eq(K, Cont(Cv)), Log(C1("got", B)), C1("run", Cv)>>)))],
  [h |-> C1("drop", G), b |-> ConjOf(<<Reset(G, B, K), Log(C1("b", B)), Ite(C2("==", K, None_), Log(A("none")), Log(A("some")))>>)],
  [h |-> C1("twice", G), b |-> Conj(Reset(G, B, K), Ite(C2("==", K, None_), Log(A("end")),
                                   ConjOf(<<Eq(K, Cont(Cv)), Log(C1("got", B)), C1("run", Cv), Log(A("again")), C1("run", Cv)>>)))],
  [h |-> C3("take", N, G, Xs),
   b |-> Ite(C2("=:=", N, I(0)), Eq(Xs, Nil),
             Conj(Reset(G, B, K),
                  Ite(C2("==", K, None_), Eq(Xs, Nil),
                      ConjOf(<<Eq(K, Cont(Cv)), Eq(B, Yield(X)), Eq(Xs, Cons(X, Xs1)), C2("is", N1, C2("-", N, I(1))),
                               C3("take", N1, Cv, Xs1)>>))))],
  [h |-> C1("ints", N), b |-> ConjOf(<<Shift(Yield(N)), C2("is", N1, C2("+", N, I(1))), C1("ints", N1)>>)],
  [h |-> C2("fromto", L, H), b |-> Ite(C2(">", L, H), True,
                                       ConjOf(<<Shift(Yield(L)), C2("is", L1, C2("+", L, I(1))), C2("fromto", L1, H)>>))],
  [h |-> C1("elems", Nil), b |-> True],
  [h |-> C1("elems", Cons(X, Xs)), b |-> Conj(Shift(Yield(X)), C1("elems", Xs))],
  [h |-> C3("run_state", G, S0, S),
   b |-> Conj(Reset(G, Cmd, K), Ite(C2("==", K, None_), Eq(S, S0), Conj(Eq(K, Cont(Cv)), C("handle", <<Cmd, Cv, S0, S>>))))],
  [h |-> C("handle", <<C1("get", X), Cv, S0, S>>), b |-> Conj(Eq(X, S0), C3("run_state", Cv, S0, S))],
  [h |-> C("handle", <<C1("put", S1), Cv, S0, S>>), b |-> C3("run_state", Cv, S1, S)],
  [h |-> A("incr"), b |-> ConjOf(<<Shift(C1("get", X)), C2("is", Y, C2("+", X, I(1))), Shift(C1("put", Y))>>)],
  [h |-> C1("dropthrow", G), b |-> ConjOf(<<Reset(G, B, K), Log(C1("b", B)), C1("throw", A("after"))>>)],
  [h |-> C1("t", I(1)), b |-> True],
  [h |-> C1("t", I(2)), b |-> True]
>>

(* ---- bodies run under the generic drivers ---- *)
B5 == V("B5")  K5 == V("K5")  K6 == V("K6")  B7 == V("B7")  K7 == V("K7")
ItS1 == Shift(I(1))
ItS2 == Shift(C1("f", X))
ItLp == Log(A("p"))
ItLx == Log(C1("x", X))
ItXa == Eq(X, A("a"))
ItTx == Conj(C1("t", X), Shift(X))
ItFl == Fail
ItDj == Disj(Shift(I(1)), Shift(I(2)))
ItCs == Call1(Shift(I(3)))
ItCt == C3("catch", Shift(I(4)), V("_E"), Log(A("caught")))
ItIr == Conj(Reset(Shift(I(5)), B5, K5), Log(C1("inner", B5)))
ItIk == ConjOf(<<Reset(Conj(Shift(I(6)), Log(A("in6"))), V("_B6"), Cont(K6)), Log(A("mid")), Call1(K6)>>)
ItIn == ConjOf(<<Reset(Conj(Shift(I(7)), Shift(I(8))), B7, Cont(K7)), Log(C1("inner", B7)), Call1(K7), Log(A("after7"))>>)
ItTh == C1("throw", A("oops"))
ItIt == Ite(C1("t", X), Shift(X), Log(A("no")))
ItCc == C3("catch", Conj(Shift(I(4)), Log(A("in_catch"))), V("_E"), Log(A("caught")))

ItemsQ == { ItS1, ItS2, ItLp, ItTx, ItDj, ItIr, ItIk }
ItemsX == ItemsQ \cup { ItLx, ItXa, ItFl, ItCs, ItCt, ItIn, ItTh, ItIt, ItCc }
Bodies1(S_) == S_
Bodies2(S_, T_) == { Conj(p, q) : p \in S_, q \in T_ }
Bodies3(S_) == { Conj(p, Conj(q, r)) : p \in S_, q \in S_, r \in S_ }
GenBodies == IF Tier = "quick" THEN ItemsX \cup Bodies2(ItemsX, ItemsX) \cup Bodies3({ItS1, ItS2, ItLx, ItTx, ItIk})
             ELSE ItemsX \cup Bodies2(ItemsX, ItemsX) \cup Bodies3(ItemsQ \cup {ItLx, ItXa, ItIn, ItCc, ItTh})
GenDrivers == {"run", "drop", "twice"}

(* ---- iterators ---- *)
Gens == { C1("ints", I(0)), C1("ints", I(5)), C2("fromto", I(1), I(0)), C2("fromto", I(1), I(2)), C2("fromto", I(2), I(4)),
          C1("elems", Nil), C1("elems", ListOf(<<A("a"), A("b")>>)), C1("elems", ListOf(<<A("a"), Y, A("c")>>)) }
GenSeqs == Gens \cup { Conj(p, q) : p \in { C2("fromto", I(1), I(2)), C1("elems", ListOf(<<A("a")>>)) }, q \in Gens }
           \cup { Conj(C1("t", Z), C2("fromto", Z, I(2))), Conj(Log(A("start")), C2("fromto", I(1), I(2))),
                  Conj(C2("fromto", I(1), I(2)), Log(A("finished"))) }
TakeQueries == { C3("take", I(k), g, Xs) : k \in 0..(IF Tier = "quick" THEN 3 ELSE 4), g \in GenSeqs }

(* ---- state effect ---- *)
V1 == V("V")
StItems == { A("incr"), Shift(C1("put", I(5))), Conj(Shift(C1("get", V1)), Log(C1("v", V1))), Conj(C1("t", Z), Shift(C1("put", Z))),
             Log(A("p")), Shift(C1("get", Z)) }
StBodies == StItems \cup Bodies2(StItems, StItems) \cup (IF Tier = "quick" THEN {} ELSE Bodies3(StItems))
StateQueries == { C3("run_state", bd, I(0), S) : bd \in StBodies }
                \cup { C3("run_state", C3("run_state", bd, I(10), S1), I(0), S) : bd \in StItems \cup {Conj(A("incr"), A("incr"))} }

DlQueries == { C1(d, bd) : d \in GenDrivers, bd \in GenBodies } \cup TakeQueries \cup StateQueries
             \cup { C3("catch", C1("run", bd), V("Ex"), Log(C1("exc", V("Ex")))) : bd \in Bodies2(ItemsQ \cup {ItCt, ItCc}, {ItTh}) }
             \* an exception raised after the reset returned (continuation not resumed): a catch/3 inside the
             \* delimited goal is no longer active (its frame is part of the captured continuation)
             \cup { C3("catch", C1("dropthrow", bd), V("Ex"), Log(C1("exc", V("Ex")))) :
                       bd \in {ItS1, ItLp, ItCt, ItCc, ItIr, ItTx} \cup Bodies2({ItCt, ItCc, ItS1}, {ItLp, ItS1}) \cup Bodies2({ItLp, ItTx}, {ItCt, ItCc}) }

RECURSIVE RunChk(_)
RunChk(mm) == IF mm.phase = "done" THEN mm
              ELSE IF ~MachineOk(mm) THEN [mm EXCEPT !.phase = "done", !.status = "broken"]
              ELSE RunChk(StepL(mm))

(* =============================== model =============================== *)
VARIABLE m
Init == m = [phase |-> "gen"]
(* one cheap state per group so that the cases of different groups are generated by different workers *)
NGroups == 16
PickGroup == m.phase = "gen" /\ \E g \in 0..(NGroups - 1) : m' = [phase |-> "grp", g |-> g]
PickTab == m.phase = "grp" /\ \E tc \in TabCases :
              /\ (Cardinality(tc.E) + (IF tc.kind \in {"left", "mleft"} THEN 0 ELSE 5) + (IF tc.order = Modes THEN 0 ELSE 3)
                   + Cardinality({e \in tc.E : e[1] = "a"}) * 7) % NGroups = m.g
              /\ m' = [phase |-> "tab", tc |-> tc]
PickDl  == m.phase = "grp" /\ \E q \in DlQueries :
              /\ (TSize(q) + TSize(q.a[1])) % NGroups = m.g
              /\ m' = RunChk(Load(Drivers, {}, q))
Next == PickGroup \/ PickTab \/ PickDl

TabAnswers(tc) ==
  IF tc.kind \in PathKinds
  THEN LET P == T!PathLfp(tc.kind, tc.E) IN [j \in 1..Len(tc.order) |-> [mode |-> tc.order[j], pred |-> "path", ans |-> ModeSel(P, tc.order[j])]]
  ELSE LET EO == T!MutLfp(tc.kind, tc.E) IN
       [j \in 1..(2 * Len(tc.order)) |->
          LET md == tc.order[(j + 1) \div 2] IN
          IF j % 2 = 1 THEN [mode |-> md, pred |-> "even", ans |-> ModeSel(EO[1], md)]
          ELSE [mode |-> md, pred |-> "odd", ans |-> ModeSel(EO[2], md)]]

Inv ==
  /\ m.phase = "tab" => /\ T!SaneFor(m.tc.E, m.tc.n)
                        /\ (m.tc.n = 3 /\ m.tc.kind = "right" /\ T!Acyclic(m.tc.E)) =>
                              \A j \in 1..Len(Modes) : UntabledAgrees(m.tc.E, Modes[j])
  /\ m.phase = "done" => m.status # "broken" /\ CollectorsOk(m)

Emit ==
  /\ m.phase = "tab" =>
        PrintT(ToJson([part |-> "tab", kind |-> m.tc.kind, n |-> m.tc.n, edges |-> m.tc.E, calls |-> TabAnswers(m.tc),
                       acyclic |-> T!Acyclic(m.tc.E)]))
  /\ (m.phase = "done" /\ m.status \in {"done", "exc", "capped"}) =>
        PrintT(ToJson([part |-> "dl", prog |-> m.prog, q |-> m.q, qv |-> m.qv, ans |-> m.ans, status |-> m.status,
                       ball |-> m.ball, out |-> m.out, steps |-> m.steps]))
=============================================================================
