------------------------------- MODULE MC_C48 -------------------------------
(* C48: histories of library(files) operations over a small pool of names.                      *)
(* Mode "bfs":  TLC explores the reachable file-system states breadth-first (one witness history *)
(*              per state, VIEW on the tree) up to Depth effective operations and applies EVERY  *)
(*              operation (succeeding or not) in every such state: one vector = one history of    *)
(*              =< Depth + 1 operations.                                                          *)
(* Mode "walk": random histories of Depth operations (TLC -simulate), two effective operations    *)
(*              followed by one arbitrary one.                                                    *)
(* A vector lists, per step, the operation, its expected outcome, and the expected results of all *)
(* observers (file_exists, directory_exists, file_size, directory_files, path_canonical) in the   *)
(* state after the step, together with the tree itself (compared with os.walk by the driver).     *)
EXTENDS FS, Json

CONSTANTS Tier,    \* "quick" | "thorough"
          Mode,    \* "bfs" | "walk"
          Depth

Quick == Tier = "quick"

(* abstract names: a (ASCII), us (non-ASCII with a space), u (non-ASCII), s (with a space), d, e *)
PathSeq   == IF Quick THEN <<"a", "us", "d", "d/e">> ELSE <<"a", "u", "s", "d", "d/e", "d/u">>
PathsDef  == {PathSeq[i] : i \in 1..Len(PathSeq)}
ParentDef == [p \in PathsDef |-> IF p \in {"d/e", "d/u"} THEN "d" ELSE Root]
BaseDef   == [p \in PathsDef |-> CASE p = "d/e" -> "e" [] p = "d/u" -> "u" [] OTHER -> p]
SegsOf(p) == CASE p = "d/e" -> <<"d", "e">> [] p = "d/u" -> <<"d", "u">> [] OTHER -> <<p>>
SegsOf2(p) == IF p = Root THEN <<>> ELSE SegsOf(p)
Sizes     == IF Quick THEN {0, 3} ELSE {0, 3, 4097}

ASSUME \A p \in PathsDef : ParentDef[p] \in PathsDef \cup {Root}

(* texts for path_canonical: the pool paths and non-normalised forms *)
Al(segs, via, target) == [segs |-> segs, via |-> via, target |-> target]
AliasSeq ==
  [i \in 1..Len(PathSeq) |-> Al(SegsOf(PathSeq[i]), {}, PathSeq[i])]
  \o << Al(<<"d", "..", "a">>, {"d"}, "a"),
        Al(<<".", "a">>, {}, "a"),
        Al(<<"d", "e", "..">>, {"d", "d/e"}, "d"),
        Al(<<"a", "..">>, {"a"}, Root),
        Al(<<"d", "e", "">>, {"d", "d/e"}, "d/e"),        \* trailing separator
        Al(<<"a", "">>, {"a"}, "a"),
        Al(<<"d", "", "e">>, {"d"}, "d/e"),                \* doubled separator
        Al(<<"d", ".", "e", ".", "..", "..", "d">>, {"d", "d/e"}, "d") >>

Muts ==
  {Op(o, p, Root, 0) : o \in {"make_directory", "make_directory_path", "delete_file", "delete_directory"}, p \in PathsDef}
  \cup {Op(o, p, q, 0) : o \in {"rename_file", "file_copy"}, p \in PathsDef, q \in PathsDef}
  \cup {Op("create", p, Root, n) : p \in PathsDef, n \in Sizes}

VARIABLES fs, hist, phase
vars == <<fs, hist, phase>>

ObsSeq(f) == [i \in 1..Len(PathSeq) |->
                LET p == PathSeq[i] IN
                [p |-> p, k |-> f[p].k, s |-> f[p].s,
                 fe |-> FileExists(f, p), de |-> DirectoryExists(f, p), size |-> FileSize(f, p),
                 lists |-> ListsDir(f, p), files |-> DirFiles(f, p)]]
CanonSeq(f) == [j \in 1..Len(AliasSeq) |->
                  [segs |-> AliasSeq[j].segs, ok |-> Resolves(f, AliasSeq[j]), target |-> SegsOf2(AliasSeq[j].target)]]
StepRec(o, r) == [op |-> o.op, p |-> SegsOf(o.p), q |-> IF o.q = Root THEN <<>> ELSE SegsOf(o.q), n |-> o.n,
                  r |-> r.r, ewhat |-> r.e.what, epath |-> IF r.e.path = "" THEN <<>> ELSE SegsOf(r.e.path),
                  obs |-> ObsSeq(r.fs), rootfiles |-> DirFiles(r.fs, Root), canon |-> CanonSeq(r.fs)]

(* hist holds the operations only; the step records (expected outcome and observations) are *)
(* rebuilt from the empty tree when a history is printed                                    *)
RECURSIVE Build(_, _, _)
Build(f, ops, i) == IF i > Len(ops) THEN <<>>
                    ELSE LET r == Apply(f, ops[i]) IN <<StepRec(ops[i], r)>> \o Build(r.fs, ops, i + 1)

Init == fs = Empty /\ hist = <<>> /\ phase = IF Mode = "bfs" THEN "grow" ELSE "walk"

Effective(f, o) == IF Feasible(f, o) THEN (LET r == Apply(f, o) IN r.r = "true" /\ r.fs # f) ELSE FALSE

Grow == /\ phase = "grow" /\ Len(hist) < Depth
        /\ \E o \in Muts : /\ Effective(fs, o)
                           /\ fs' = Apply(fs, o).fs /\ hist' = Append(hist, o) /\ phase' = "grow"
Leaf == /\ phase = "grow"
        /\ \E o \in Muts : /\ Feasible(fs, o)
                           /\ fs' = Apply(fs, o).fs /\ hist' = Append(hist, o) /\ phase' = "leaf"
(* random histories: two effective operations (if any exists), then an arbitrary one *)
Walk == /\ phase = "walk" /\ Len(hist) < Depth
        /\ LET eff == {o \in Muts : Effective(fs, o)}
               cand == IF (Len(hist) % 3) # 2 /\ eff # {} THEN eff ELSE {o \in Muts : Feasible(fs, o)}
           IN \E o \in cand : fs' = Apply(fs, o).fs /\ hist' = Append(hist, o) /\ phase' = "walk"
(* in simulation TLC evaluates the invariants on ALL successors of the current state before it picks *)
(* one: the finished walk is therefore printed from its single "done" successor                      *)
Done == phase = "walk" /\ Len(hist) = Depth /\ phase' = "done" /\ UNCHANGED <<fs, hist>>
Next == Grow \/ Leaf \/ Walk \/ Done

View == IF phase = "grow" THEN <<phase, fs>> ELSE <<phase, hist>>

Emit == (phase \in {"leaf", "done"}) => PrintT(ToJson([hist |-> Build(Empty, hist, 1)]))

WfInv == Wf(fs)

-----------------------------------------------------------------------------
(* state-independent cases, printed once: path_segments/2 and the argument checks *)

SegTexts == {<<>>, <<"a">>, <<"h", "i">>, <<"E", " ", "b">>} \cup (IF Quick THEN {} ELSE {<<"a", "/", "b">>, <<".", ".">>})
SegLists == {<<>>} \cup {<<x>> : x \in SegTexts} \cup {<<x, y>> : x \in SegTexts, y \in SegTexts}
            \cup {<<x, y, z>> : x \in SegTexts, y \in SegTexts, z \in SegTexts}
SetToSeq(S) == LET RECURSIVE F(_)
                   F(T) == IF T = {} THEN <<>> ELSE LET x == CHOOSE x \in T : TRUE IN <<x>> \o F(T \ {x})
               IN F(S)
(* one case: the segments, the joined text, the split of that text, and whether text and segments are related *)
SegCase(segs) == [segs |-> segs, text |-> Join(segs), split |-> Split(Join(segs)), holds |-> (Split(Join(segs)) = segs)]
SegCases == LET ss == SetToSeq(SegLists) IN [i \in 1..Len(ss) |-> SegCase(ss[i])]

(* Split inverts Join whenever no segment contains the separator (and there is a segment) *)
ASSUME \A segs \in SegLists : (segs # <<>> /\ \A i \in 1..Len(segs) : \A j \in 1..Len(segs[i]) : segs[i][j] # Sep)
                                  => Split(Join(segs)) = segs

ArgKinds == {"var", "partial", "atom", "int", "nonchar"}
ArgPreds == {<<"file_exists", 1, 1>>, <<"directory_exists", 1, 1>>, <<"file_size", 2, 1>>, <<"directory_files", 2, 1>>,
             <<"make_directory", 1, 1>>, <<"make_directory_path", 1, 1>>, <<"delete_file", 1, 1>>,
             <<"delete_directory", 1, 1>>, <<"rename_file", 2, 1>>, <<"rename_file", 2, 2>>, <<"file_copy", 2, 1>>,
             <<"file_copy", 2, 2>>, <<"path_canonical", 2, 1>>, <<"path_segments", 2, 1>>}
ArgCases == LET cs == SetToSeq(ArgPreds \X ArgKinds)
            IN [i \in 1..Len(cs) |-> [pred |-> cs[i][1][1], arity |-> cs[i][1][2], pos |-> cs[i][1][3],
                                        kind |-> cs[i][2],
                                        \* path_segments(Path, Segments): an unbound Path is the mode (-, +), where an unbound
                                        \* Segments is the instantiation error ("at least one ... must be instantiated")
                                        err |-> ArgError(cs[i][2])]]

ASSUME PrintT(ToJson([pure |-> TRUE, segcases |-> SegCases, argcases |-> ArgCases]))
=============================================================================
