CONSTANT Tier = "quick"
INIT Init
NEXT Next
INVARIANT WellFormed
INVARIANT Consistent
INVARIANT Emit
