CONSTANT Mode = "bfs"
CONSTANT Depth = 0
INIT Init
NEXT Next
INVARIANT Emit
INVARIANT TypeInv
INVARIANT SetInv
INVARIANT EnumInv
