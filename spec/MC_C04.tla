------------------------------- MODULE MC_C04 -------------------------------
(* C04: arithmetic comparison is exact and self-consistent.                                   *)
(* Every state of phase "case" is one ordered pair (i, j) of indices into the alphabet tab    *)
(* (integers, rationals, doubles: NumSets) together with the specification's outcome of       *)
(* comparing (tab[i], tab[j]) and (tab[j], tab[i]).  TLC checks on the specification that     *)
(* exactly one of <, =:=, > holds, that the six relations agree with each other and that      *)
(* swapping the operands mirrors the outcome; it prints the alphabet once and per pair the    *)
(* truth value of each relation as a vector that the driver replays against the real          *)
(* comparison predicates.                                                                     *)
(* The alphabet and its conversions to double live in state variables (tab, prom) only so     *)
(* that TLC computes them once: it re-evaluates definitions built on RECURSIVE operators at    *)
(* every use.                                                                                 *)
EXTENDS NumSets, FiniteSets, SequencesExt

CONSTANT Tier   \* "quick" | "thorough"

Vals == IntsOf(Tier) \cup RatsOf(Tier) \cup FloatsOf(Tier)

VARIABLES tab, prom, phase, i, j, cab, cba
vars == <<tab, prom, phase, i, j, cab, cba>>

(* NumCmp(a, b) = NumCmpP(a, b, Promote(a), Promote(b)) by definition *)
Init == /\ tab = SetToSeq(Vals)
        /\ prom = [k \in 1..Len(tab) |-> Promote(tab[k])]
        /\ phase = "pick" /\ i \in 1..Len(tab) /\ j = 0 /\ cab = 0 /\ cba = 0
Next == /\ phase = "pick" /\ phase' = "case" /\ UNCHANGED <<tab, prom, i>>
        /\ j' \in 1..Len(tab)
        /\ cab' = NumCmpP(tab[i], tab[j'], prom[i], prom[j']) /\ cba' = NumCmpP(tab[j'], tab[i], prom[j'], prom[i])

H(rel) == HoldsC(rel, cab, cba)
B2N(p) == IF p THEN 1 ELSE 0

(* specification-level theorems, decided by TLC on every pair *)
Consistent ==
  phase = "case" =>
    /\ cab \in {-1, 0, 1}
    /\ cab = 0 - cba                                              \* mirror
    /\ B2N(H("<")) + B2N(H("=:=")) + B2N(H(">")) = 1            \* trichotomy
    /\ H("=<") = (H("<") \/ H("=:="))
    /\ H(">=") = (H(">") \/ H("=:="))
    /\ H("=\\=") = ~H("=:=")
    /\ (i = j => cab = 0)

WellFormed == (phase = "pick" /\ i = 1) => \A k \in 1..Len(tab) : NumOk(tab[k]) /\ Canonical(prom[k])

Emit ==
  IF phase = "case" THEN PrintT(ToJson([i |-> i, j |-> j, c |-> cab, r |-> [k \in 1..6 |-> H(Rels[k])]]))
  ELSE i = 1 => PrintT(ToJson([table |-> [k \in 1..Len(tab) |-> JNum(tab[k])]]))
=============================================================================
