CONSTANTS Kind = "memory" MaxSteps = 2000 MaxAns = 3
INIT Init
NEXT Next
INVARIANT Inv
INVARIANT Emit
