CONSTANT Tier = "thorough"
INIT Init
NEXT Next
INVARIANT CaseTheorems
INVARIANT Emit
