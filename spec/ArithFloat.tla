----------------------------- MODULE ArithFloat -----------------------------
(* Layer A: the float / mixed fragment of is/2 and the arithmetic comparison of numbers.       *)
(*                                                                                            *)
(* A number is a record [t, s, n, d, e]:                                                      *)
(*   t = "i"  integer n (signed BigInt)                      (s = 0, d = 1, e = 0)            *)
(*   t = "r"  rational n/d, d > 0 (not necessarily reduced)  (s = 0, e = 0)                    *)
(*   t = "f"  the finite double (-1)^s * n * 2^e in the canonical form of Float64 (d = 1)     *)
(*                                                                                            *)
(* A result is [k, v, err, c]:                                                                *)
(*   k = "val"       the number v                                                             *)
(*   k = "err"       an error of class err with culprit c (only for type errors):             *)
(*                     "zero_divisor" "undefined" "float_overflow"  evaluation_error(err)     *)
(*                     "type_integer"                               type_error(integer, c)    *)
(*                     "type_float"                                 type_error(float, c)      *)
(*   k = "anyfloat"  some finite double whose value this specification does not decide        *)
(*                   (transcendental functions and inexact ** : DESIGN.md section 9)          *)
(*   k = "either"    v or c (both numbers): ISO Cor.2 9.3.8/9.3.9 leaves min/max of an         *)
(*                   integer and a float that compare equal implementation dependent           *)
(*                                                                                            *)
(* Mixed-mode rule (ISO 13211-1 9.1.4, 9.3.1): when an operand of a float-valued operation is *)
(* an integer (or rational) it is first converted to a double by round-to-nearest-even        *)
(* (float_overflow when it exceeds the finite range), then the IEEE operation is applied to   *)
(* the two doubles; an infinite result is float_overflow, a NaN is undefined.                  *)
EXTENDS Float64

NI(v)      == [t |-> "i", s |-> 0, n |-> v, d |-> One, e |-> 0]
NR(n, d)   == [t |-> "r", s |-> 0, n |-> n, d |-> d, e |-> 0]
NF(x)      == [t |-> "f", s |-> x.s, n |-> x.m, d |-> One, e |-> x.e]
AsF(a)     == Fin(a.s, a.n, a.e)
NNone      == NI(BZero)

Val(v)      == [k |-> "val", v |-> v, err |-> "", c |-> NNone]
Err(e)      == [k |-> "err", v |-> NNone, err |-> e, c |-> NNone]
TypeErr(e, c) == [k |-> "err", v |-> NNone, err |-> e, c |-> c]
AnyFloat    == [k |-> "anyfloat", v |-> NNone, err |-> "", c |-> NNone]
(* a finite double at most one unit in the last place away from the correctly rounded x (a faithful result or its neighbour) *)
Near(x)     == [k |-> "near", v |-> NF(x), err |-> "", c |-> NNone]
Either(v, w) == [k |-> "either", v |-> v, err |-> "", c |-> w]
Skip        == [k |-> "skip", v |-> NNone, err |-> "", c |-> NNone]   \* outside what this module decides (never emitted)

(* a Float64 record as a result: non-finite values become the ISO evaluation errors *)
FRes(x) == IF x.k = "inf" THEN Err("float_overflow")
           ELSE IF x.k = "nan" THEN Err("undefined")
           ELSE Val(NF(x))

(* conversion to double (may be infinite) *)
Promote(a) == IF a.t = "f" THEN AsF(a) ELSE FromRat(a.n, a.d)

NIsZero(a)  == IsZero(a.n)
NIsNeg(a)   == IF a.t = "f" THEN (a.s = 1 /\ ~IsZero(a.n)) ELSE a.n.neg
NIsInt(a)   == a.t = "i"

(* exact rational view <<n, d>> of any number *)
RatView(a) == IF a.t = "f" THEN RatOf(AsF(a)) ELSE <<a.n, a.d>>
(* a rational with the same four integer roundings *)
RndView(a) == IF a.t = "f" THEN RoundingView(AsF(a)) ELSE <<a.n, a.d>>

-----------------------------------------------------------------------------
(* binary float-valued operations *)

(* Everywhere below x and y stand for Promote(a) and Promote(b): the operators with suffix P   *)
(* take them as arguments so that a model can compute the conversion of an operand once.       *)

(* + - * : exact on integers and rationals (the result is an integer only when both operands are; a rational
   result is not reduced here: rationals are compared by value); as soon as one operand is a float both are
   promoted and F is applied; overflow of a promotion is float_overflow *)
ExactArith(op, a, b) ==
  LET n == CASE op = "+" -> Add(Mul(a.n, b.d), Mul(b.n, a.d))
             [] op = "-" -> Sub(Mul(a.n, b.d), Mul(b.n, a.d))
             [] op = "*" -> Mul(a.n, b.n)
      d == Mul(a.d, b.d)
  IN IF a.t = "i" /\ b.t = "i" THEN Val(NI(n)) ELSE Val(NR(n, d))

Promoted2(op, a, b, x, y, F(_, _)) ==
  IF a.t # "f" /\ b.t # "f" THEN ExactArith(op, a, b)
  ELSE IF x.k = "inf" \/ y.k = "inf" THEN Err("float_overflow") ELSE FRes(F(x, y))

FAddOp(x, y) == FAdd(x, y)
FSubOp(x, y) == FSub(x, y)
FMulOp(x, y) == FMul(x, y)

(* x ** y for finite doubles.                                                                  *)
(* - y integer valued with |y| <= 4096 and x = mo * 2^eo (mo odd) with a manageable mo^|y|:    *)
(*   the exact rational x^y is computed; the result is that value when it is exactly           *)
(*   representable, float_overflow when it is >= 2^1024, an undecided finite double when it is *)
(*   inexact and far below the overflow threshold (DESIGN.md section 9: inexact ** is not      *)
(*   decided), and outside this specification (Skip) near the threshold.                       *)
(* - y not integer valued: undefined for a negative base (the real power does not exist; IEEE  *)
(*   pow gives NaN); an undecided finite double when 2^-64 <= |x| <= 2^64 and |y| <= 8.        *)
RECURSIVE StripTwos(_, _)
StripTwos(m, e) == IF IsOdd(m) THEN <<m, e>> ELSE StripTwos(TDiv(m, Two), e + 1)     \* m > 0

(* a canonical non-zero double below 2^53 in magnitude has e < 0; it is an integer iff 2^-e divides m (e >= -52) *)
IntValued(y) == IsZero(y.m) \/ y.e >= 0 \/ (y.e >= -52 /\ Rem(y.m, Pow2(0 - y.e)) = BZero)
SmallIntOf(y) == \* the integer value (native) of an integer-valued double of magnitude <= 4096, else 5000
  IF IsZero(y.m) THEN 0
  ELSE IF y.e >= -39 \/ ~IntValued(y) THEN 5000            \* e >= -39: |y| >= 2^13
  ELSE LET v == TDiv(y.m, Pow2(0 - y.e)) IN
       IF Le(v, FromInt(4096)) THEN (IF y.s = 1 THEN 0 - ToInt(v) ELSE ToInt(v)) ELSE 5000

PowF(x, y) ==
  LET k == SmallIntOf(y) IN
  IF k = 0 THEN FRes(Fin(0, TwoP52, -52))                            \* x ** 0 = 1.0
  ELSE IF IsZero(x.m) THEN
       (IF y.s = 1 THEN Err("undefined")
        ELSE IF k # 5000 THEN FRes(FZero(IF k % 2 = 1 THEN x.s ELSE 0))
        ELSE IF IntValued(y) THEN Skip ELSE FRes(FZero(0)))
  ELSE IF ~IntValued(y) THEN
       (IF x.s = 1 THEN Err("undefined")
        ELSE IF BLen(x.m) + x.e <= 64 /\ BLen(x.m) + x.e >= -63
                /\ FCmp(FAbs(y), Fin(0, TwoP52, -49)) <= 0 THEN AnyFloat
        ELSE Skip)
  ELSE IF k = 5000 THEN Skip
  ELSE LET ak == IF k < 0 THEN 0 - k ELSE k
           st == StripTwos(x.m, x.e)
           mo == st[1]
           eo == st[2]
       IN IF BLen(mo) * ak > 1200 THEN Skip
          ELSE
          LET s  == IF ak % 2 = 1 THEN x.s ELSE 0
              mp == Pow(mo, ak)
              ep == eo * ak
              r  == IF k > 0 THEN RoundPos(s, mp, One, ep) ELSE RoundPos(s, One, mp, 0 - ep)
              ex == IF k > 0 THEN ExactPos(mp, One, ep) ELSE ExactPos(One, mp, 0 - ep)
              lb == IF k > 0 THEN BLen(mp) - 1 + ep ELSE 0 - ep - BLen(mp)    \* |x^y| >= 2^lb
          IN IF ex THEN FRes(r)
             ELSE IF r.k = "inf" /\ lb >= 1024 THEN Err("float_overflow")
             (* an integer power is a finite product: its value is known exactly (mp * 2^ep), so the result must lie next to  *)
             (* the correctly rounded double r; repeated multiplication with a rounding per step does not (10 ** 308 is six   *)
             (* units off), and it gets the overflow decision wrong near the top of the range.  Results in the subnormal      *)
             (* range and just below the overflow threshold stay undecided.                                                   *)
             ELSE IF r.k = "fin" /\ r.e < 960 /\ r.e > -1060 /\ ~IsZero(r.m) THEN Near(r)
             ELSE IF r.k = "fin" /\ r.e < 960 THEN AnyFloat
             ELSE Skip

(* integer-only evaluables applied to a non-integer: type_error(integer, first non-integer argument) *)
IntOnlyBin == {"//", "div", "mod", "rem", "gcd", ">>", "<<", "/\\", "\\/", "xor"}

(* min/max: the operands are compared as in NumCmp below; the smaller/larger operand is        *)
(* returned as it is; when they compare equal either operand (or its double) is acceptable     *)
(* (ISO Cor.2 9.3.8, 9.3.9: implementation dependent for mixed types).                         *)
MinMax(op, a, b, x, y) ==
  IF a.t # "f" /\ b.t # "f" THEN
       LET c == RatCmp(RatView(a), RatView(b)) IN
       IF c = 0 THEN Either(a, b)
       ELSE IF (op = "max") = (c > 0) THEN Val(a) ELSE Val(b)
  ELSE IF x.k = "inf" \/ y.k = "inf" THEN Err("float_overflow")
  ELSE LET c == FCmp(x, y) IN
       IF c = 0 THEN Either(a, b)
       ELSE IF (op = "max") = (c > 0) THEN Val(a) ELSE Val(b)

EvalBinP(op, a, b, x, y) ==
  CASE op = "+" -> Promoted2(op, a, b, x, y, FAddOp)
    [] op = "-" -> Promoted2(op, a, b, x, y, FSubOp)
    [] op = "*" -> Promoted2(op, a, b, x, y, FMulOp)
    [] op = "/" -> \* a zero divisor - also one that is zero only after its conversion to double - is the ISO zero_divisor
                   \* (IEEE division-by-zero exception; 0.0/0.0 included: ISO '/'/2 raises zero_divisor whenever the divisor is zero)
         IF NIsZero(b) THEN Err("zero_divisor")
         ELSE IF x.k = "inf" \/ y.k = "inf" THEN Err("float_overflow")
         ELSE IF IsZero(y.m) THEN Err("zero_divisor")
         ELSE FRes(FDivide(x, y))
    [] op = "**" ->
         IF NIsZero(a) /\ NIsNeg(b) THEN Err("undefined")
         ELSE IF x.k = "inf" \/ y.k = "inf" THEN Err("float_overflow") ELSE PowF(x, y)
    [] op \in {"min", "max"} -> MinMax(op, a, b, x, y)
    [] op = "atan2" ->
         IF NIsZero(a) /\ NIsZero(b) THEN Err("undefined")
         ELSE IF x.k = "inf" \/ y.k = "inf" THEN Err("float_overflow")
         ELSE IF NIsZero(a) /\ ~NIsNeg(b) THEN FRes(FZero(0))          \* atan2(0, x > 0) = 0
         ELSE AnyFloat
    [] op \in IntOnlyBin ->
         IF ~NIsInt(a) THEN TypeErr("type_integer", a)
         ELSE IF ~NIsInt(b) THEN TypeErr("type_integer", b)
         ELSE Skip      \* integer arithmetic: C01
EvalBin(op, a, b) == EvalBinP(op, a, b, Promote(a), Promote(b))

-----------------------------------------------------------------------------
(* unary operations *)

OneF == Fin(0, TwoP52, -52)

(* the integer part (truncation toward zero) of a finite double, as a double (always exact; keeps the sign) *)
FIntPart(x) ==
  IF x.e >= 0 \/ IsZero(x.m) THEN x
  ELSE IF x.e < -52 THEN FZero(x.s)                 \* |x| < 1
  ELSE LET t == TDiv(x.m, Pow2(0 - x.e)) IN IF IsZero(t) THEN FZero(x.s) ELSE RoundPos(x.s, t, One, 0)
MinusOneF == Fin(1, TwoP52, -52)

(* transcendental functions: domain errors, overflow classification, exact special points *)
Transc(op, a, x) ==
  IF x.k = "inf" THEN Err("float_overflow")
  ELSE LET z == IsZero(x.m)
           neg == x.s = 1 /\ ~z
           one == x = OneF
           absGtOne == FCmp(FAbs(x), OneF) > 0
       IN CASE op = "log"  -> IF z \/ neg THEN Err("undefined")       \* ISO 9.3.6.3 c: zero or negative
                              ELSE IF one THEN FRes(FZero(0)) ELSE AnyFloat
            [] op = "exp"  -> IF z THEN FRes(OneF)
                              ELSE IF FCmp(x, Mk(0, FromInt(710), 0)) >= 0 THEN Err("float_overflow")
                              ELSE IF FCmp(x, Mk(0, FromInt(709), 0)) <= 0 THEN AnyFloat
                              ELSE Skip
            [] op \in {"sin", "tan", "atan", "asin"} ->
                              IF op = "asin" /\ absGtOne THEN Err("undefined")
                              ELSE IF z THEN FRes(x) ELSE AnyFloat
            [] op = "cos"  -> IF z THEN FRes(OneF) ELSE AnyFloat
            [] op = "acos" -> IF absGtOne THEN Err("undefined")
                              ELSE IF one THEN FRes(FZero(0)) ELSE AnyFloat

EvalUnP(op, a, x) ==
  CASE op = "float" -> FRes(x)
    [] op = "-"     -> IF a.t = "f" THEN Val(NF(FNeg(AsF(a)))) ELSE Val([a EXCEPT !.n = Neg(a.n)])
    [] op = "+"     -> Val(a)
    [] op = "abs"   -> IF a.t = "f" THEN Val(NF(FAbs(AsF(a)))) ELSE Val([a EXCEPT !.n = Abs(a.n)])
    [] op = "sign"  -> IF a.t = "f"
                         THEN (IF IsZero(a.n) THEN Val(NF(FZero(a.s))) ELSE Val(NF(IF a.s = 1 THEN MinusOneF ELSE OneF)))
                         ELSE Val(NI(FromInt(Sign(a.n))))
    [] op \in {"floor", "ceiling", "truncate", "round"} ->
         IF a.t = "i" THEN Val(a)
         ELSE LET p == RndView(a) IN
              Val(NI(CASE op = "floor"    -> RFloor(p)
                       [] op = "ceiling"  -> RCeiling(p)
                       [] op = "truncate" -> RTruncate(p)
                       [] op = "round"    -> RRound(p)))
    [] op = "float_integer_part" ->
         IF x.k = "inf" THEN Err("float_overflow") ELSE FRes(FIntPart(x))
    [] op = "float_fractional_part" ->
         IF x.k = "inf" THEN Err("float_overflow") ELSE FRes(FSub(x, FIntPart(x)))
    [] op = "sqrt"  ->
         IF NIsNeg(a) THEN Err("undefined")
         ELSE IF x.k = "inf" THEN Err("float_overflow") ELSE FRes(FSqrt(x))
    [] op = "\\"    -> IF NIsInt(a) THEN Skip ELSE TypeErr("type_integer", a)
    [] op \in {"log", "exp", "sin", "cos", "tan", "asin", "acos", "atan"} -> Transc(op, a, x)
EvalUn(op, a) == EvalUnP(op, a, Promote(a))

-----------------------------------------------------------------------------
(* C04: arithmetic comparison.                                                                *)
(* Exact on integers and rationals; when one side is a float the other side is first          *)
(* converted to a double (round-to-nearest-even; a value beyond the finite range converts to  *)
(* an infinity of its sign, which compares beyond every finite double) and the two doubles    *)
(* are compared; two floats are compared as doubles (-0.0 = 0.0).                             *)
NumCmpP(a, b, x, y) ==            \* x = Promote(a), y = Promote(b)
  IF a.t # "f" /\ b.t # "f" THEN RatCmp(<<a.n, a.d>>, <<b.n, b.d>>)
  ELSE IF x.k = "inf" THEN (IF x.s = 1 THEN -1 ELSE 1)
  ELSE IF y.k = "inf" THEN (IF y.s = 1 THEN 1 ELSE -1)
  ELSE FCmp(x, y)
NumCmp(a, b) == NumCmpP(a, b, Promote(a), Promote(b))

Rels == <<"=:=", "=\\=", "<", "=<", ">", ">=">>

(* each relation stated on its own (not derived from one another), from the outcome cab of   *)
(* comparing (a, b) and the outcome cba of comparing (b, a)                                   *)
HoldsC(rel, cab, cba) ==
  CASE rel = "=:="  -> cab = 0
    [] rel = "=\\=" -> cab # 0
    [] rel = "<"    -> cab = -1
    [] rel = "=<"   -> cba # -1
    [] rel = ">"    -> cba = -1
    [] rel = ">="   -> cab # -1
Holds(rel, a, b) == HoldsC(rel, NumCmp(a, b), NumCmp(b, a))
=============================================================================
