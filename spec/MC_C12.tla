------------------------------- MODULE MC_C12 -------------------------------
(* C12: exceptions unwind precisely and leave the machine consistent.                          *)
(* Every program is one clause  p(X,Y,Z) :- Body  over fixed helper facts; the query is        *)
(* p(X,Y,Z).  Bodies are nestings of catch/3, throw/1, builtin error sources, cut, disjunction, *)
(* findall/3, negation, if-then-else and setup_call_cleanup/3 (families below).  The abstract   *)
(* machine PrologExt!StepX runs each program; TLC checks the machine invariants and the         *)
(* cleanup-exactly-once invariant at every step and prints, per finished behaviour, the answer  *)
(* sequence, the top-level ball and the log written by log/1.                                   *)
(*   Mode "exh": every member of the families (exhaustive small scope)                          *)
(*   Mode "sim": random nestings of depth <= 3 (run with -simulate)                             *)
EXTENDS PrologExt, Json

CONSTANT Tier, Mode

X == V("X")  Y == V("Y")  Z == V("Z")          \* head variables
E == V("E")  E2 == V("E2")  W == V("W")        \* clause-local variables (catcher variables)
U == V("U")  L == V("L")                       \* U is never bound
a == A("a")
Log(t) == C1("log", t)
Thw(t) == C1("throw", t)
Cat(g, k, r) == C3("catch", g, k, r)
Scc(s, g, c) == C3("setup_call_cleanup", s, g, c)
T1(t) == C1("t", t)
Ge(s, t) == C2(">=", s, t)
St(tag) == C(tag, <<X, Y, Z, E>>)
Str == ListOf(<<A("a"), A("b")>>)              \* rendered as the string "ab" by the driver

(* t/1 enumerates 1,2,3 through a disjunction: whether a choice point is left does not depend on   *)
(* first-argument indexing (determinism detection is a freedom of the implementation)              *)
Helpers == << [h |-> T1(V("A")), b |-> Disj(Eq(V("A"), I(1)), Disj(Eq(V("A"), I(2)), Eq(V("A"), I(3))))] >>

(* ---- goals that run inside a catch/3 ---- *)
Throwers == <<
  Thw(a),                                                      \*  1 atom
  Thw(I(7)),                                                   \*  2 integer
  Thw(C2("f", X, Y)),                                          \*  3 compound sharing variables with the clause
  Conj(Eq(Y, I(1)), Thw(C2("f", X, Y))),                       \*  4 a binding made since the catch travels in the ball, and is undone
  Thw(U),                                                      \*  5 unbound ball: instantiation_error
  Thw(Str),                                                    \*  6 string
  Thw(C2("g", I(1), I(2))),                                    \*  7 unifies partially with the catcher g(E,3)
  C2("atom_length", U, W),                                     \*  8 instantiation_error
  C2("is", Z, C2("+", A("foo"), I(1))),                        \*  9 type_error(evaluable, foo/0)
  C3("arg", a, A("b"), A("c")),                                \* 10 type_error(integer, a)
  A("zz"),                                                     \* 11 existence_error(procedure, zz/0)
  Call1(I(1)),                                                 \* 12 type_error(callable, 1)
  Disj(Eq(X, I(1)), Thw(a)),                                   \* 13 throws when the catch goal is re-entered
  Conj(T1(X), Conj(Ge(X, I(2)), Thw(C1("h", X)))),             \* 14 throws after internal backtracking
  Eq(X, I(1)),                                                 \* 15 no exception, deterministic
  T1(X),                                                       \* 16 no exception, leaves choice points
  Fail,                                                        \* 17
  Conj(T1(X), Conj(Cut, Thw(C1("h", X)))),                     \* 18 cut local to the catch goal
  C3("findall", X, Conj(T1(X), Conj(Ge(X, I(2)), Thw(C1("h", X)))), L),   \* 19 exception inside findall: collector dropped
  Thw(C2("error", C2("type_error", A("x"), A("y")), A("ctx"))),            \* 20 user-made error term
  Conj(Eq(X, I(5)), Thw(X)),                                   \* 21 the ball is the value of X
  Conj(Eq(X, C1("s", Y)), Thw(X))                              \* 22 ball with a variable reached through a binding
>>
Catchers == << E, a, C2("f", E, Z), C2("g", E, I(3)), C2("error", E, W), A("nomatch"), X, C1("h", I(2)) >>
Recoveries == << True, Fail, Thw(C1("r", E)), Log(St("rec")), Conj(Eq(X, I(2)), Conj(Eq(Y, I(3)), Log(St("rec2")))), Thw(E) >>

(* ---- contexts around a goal c ---- *)
NCtx == 10
Ctx(k, c) ==
  CASE k = 1 -> Conj(c, Log(St("st")))
    [] k = 2 -> Disj(Conj(c, Conj(Log(St("in")), Fail)), Log(St("alt")))
    [] k = 3 -> Cat(Conj(c, Log(St("st"))), E2, Log(C2("outer", E2, St("o"))))
    [] k = 4 -> Cat(Conj(c, Thw(A("o"))), A("o"), Log(St("outer")))
    [] k = 5 -> Conj(C3("findall", C2("-", X, E), c, L), Log(C2("l", L, St("st"))))
    [] k = 6 -> Conj(Not(c), Log(St("neg")))
    [] k = 7 -> Ite(c, Log(St("then")), Log(St("else")))
    [] k = 8 -> Conj(c, Conj(Cut, Conj(Log(St("cut")), Fail)))
    [] k = 9 -> Conj(T1(Y), Conj(c, Conj(Log(St("y")), Ge(Y, I(2)))))
    [] k = 10 -> Conj(Eq(Z, C1("k", X)), Conj(c, Conj(Log(St("st")), Eq(X, I(1)))))

(* ---- family A: one catch in every context ---- *)
FamA == { <<t, k, r, cx>> : t \in 1..Len(Throwers), k \in 1..Len(Catchers), r \in 1..Len(Recoveries), cx \in 1..NCtx }
QuickT == {1, 3, 4, 5, 7, 8, 9, 11, 13, 14, 16, 19, 21}
FamAq == { v \in FamA : (v[1] \in QuickT /\ v[4] \in {1, 2, 3, 5, 9}) \/ (v[4] = 1) }
BodyA(v) == Ctx(v[4], Cat(Throwers[v[1]], Catchers[v[2]], Recoveries[v[3]]))

(* ---- family B: catch inside catch (the inner recovery may throw again) ---- *)
InnerT == <<1, 3, 4, 5, 7, 9, 13, 14, 16, 21>>
InnerK == <<1, 2, 3, 4, 6>>
InnerR == <<2, 3, 4, 6>>
Posts == << True, Thw(A("o")), Fail, Thw(C2("f", X, E)) >>
OuterK == << E2, a, C1("r", E2), A("o") >>
OuterR == << Log(C2("outer", E2, St("o"))), Thw(E2), Conj(Log(St("o2")), Fail) >>
FamB == { <<t, k, r, p, k2, r2, cx>> : t \in 1..Len(InnerT), k \in 1..Len(InnerK), r \in 1..Len(InnerR), p \in 1..Len(Posts),
                                        k2 \in 1..Len(OuterK), r2 \in 1..Len(OuterR), cx \in {1, 3} }
FamBq == { v \in FamB : v[7] = 1 /\ v[1] \in {1, 2, 3, 5, 6, 7} /\ v[4] \in {1, 2} }
BodyB(v) == Ctx(v[7], Cat(Conj(Cat(Throwers[InnerT[v[1]]], Catchers[InnerK[v[2]]], Recoveries[InnerR[v[3]]]), Posts[v[4]]),
                          OuterK[v[5]], OuterR[v[6]]))

(* ---- family C: setup_call_cleanup ---- *)
Setups == << True, Log(A("s")), Fail, Thw(A("sx")), Disj(Log(A("s1")), Log(A("s2"))) >>
SGoals == << True, Fail, Thw(A("b")), Disj(Eq(X, I(1)), Eq(X, I(2))), Disj(Eq(X, I(1)), Thw(A("b"))), T1(X),
             Conj(T1(X), Cut), Disj(Eq(X, I(1)), Fail), Cat(T1(X), E, True), Conj(Eq(Y, I(4)), Disj(Eq(X, I(1)), Eq(X, I(2)))),
             Call1(I(1)), C2("atom_length", U, W) >>
Cleanups == << Log(C2("c", X, Y)), Conj(Log(A("c")), Fail), Conj(Log(A("c")), Thw(A("cl"))), Disj(Log(A("c1")), Log(A("c2"))),
               Conj(Log(A("c")), Eq(Z, A("done"))) >>
Afters == << Log(St("after")), Conj(Cut, Log(St("after"))), Fail, Conj(Log(St("x")), Eq(X, I(2))), Thw(A("o")),
             Conj(Log(St("x")), Fail), Conj(Log(St("x")), Conj(Ge(X, I(2)), Cut)) >>
NWrap == 5
Wrap(k, c) ==
  CASE k = 1 -> c
    [] k = 2 -> Cat(c, E2, Log(C2("caught", E2, St("w"))))
    [] k = 3 -> Disj(c, Log(St("alt")))
    [] k = 4 -> Conj(Ite(c, Log(St("then")), Log(St("else"))), Log(St("end")))
    [] k = 5 -> Conj(C3("findall", X, c, L), Log(C2("l", L, St("st"))))
FamC == { <<s, g, c, f, w>> : s \in 1..Len(Setups), g \in 1..Len(SGoals), c \in 1..Len(Cleanups), f \in 1..Len(Afters), w \in 1..NWrap }
FamCq == { v \in FamC : (v[1] \in {1, 2} /\ v[5] \in {1, 2}) \/ (v[1] \in {3, 4, 5} /\ v[2] = 4 /\ v[3] = 1 /\ v[4] = 1 /\ v[5] = 2)
                         \/ (v[1] = 1 /\ v[3] = 1) }
BodyC(v) == Wrap(v[5], Conj(Scc(Setups[v[1]], SGoals[v[2]], Cleanups[v[3]]), Afters[v[4]]))

(* ---- family D: two handlers (nested / in sequence) ---- *)
SG2 == << Disj(Eq(X, I(1)), Eq(X, I(2))), True, Thw(A("b")), Fail >>
FamD == { <<g1, g2, f, w, shape>> : g1 \in 1..Len(SG2), g2 \in 1..Len(SG2), f \in 1..Len(Afters), w \in {1, 2}, shape \in {1, 2, 3} }
BodyD(v) ==
  LET c1 == Log(C2("c1", X, Y))  c2 == Log(C2("c2", X, Y))
      G2 == IF v[2] = 1 THEN Disj(Eq(Y, I(1)), Eq(Y, I(2))) ELSE SG2[v[2]]
      inner == CASE v[5] = 1 -> Conj(Scc(True, SG2[v[1]], c1), Scc(True, G2, c2))                 \* in sequence
                 [] v[5] = 2 -> Scc(True, Conj(Scc(True, SG2[v[1]], c1), G2), c2)                 \* nested
                 [] v[5] = 3 -> Scc(True, Conj(Scc(True, SG2[v[1]], c1), Conj(Cut, G2)), c2)      \* nested, inner one cut
  IN Wrap(v[4], Conj(inner, Afters[v[3]]))

(* ---- random nestings (simulation) ---- *)
RBall(u) == RandomElement({a, I(7), C2("f", X, Y), U, Str, C2("g", I(1), I(2)), X, C1("h", X), C1("r", E),
                           C2("error", C2("type_error", A("x"), A("y")), A("ctx")), E, E2})
RCatcher(u) == RandomElement({E, E2, a, C2("f", E, Z), C2("g", E, I(3)), C2("error", E, W), A("nomatch"), X, C1("h", I(2)), C1("r", E2), W})
RLeaf(u) ==
  LET k == RandomElement(1..22) IN
  CASE k \in {1, 2, 3} -> Thw(RBall(u))
    [] k = 4 -> C2("atom_length", U, W) [] k = 5 -> Call1(C2("is", Z, C2("+", A("foo"), I(1)))) [] k = 6 -> C3("arg", a, A("b"), A("c"))
    [] k = 7 -> A("zz") [] k = 8 -> Conj(Eq(V("N"), I(1)), Call1(V("N")))
    [] k = 9 -> Eq(X, I(1)) [] k = 10 -> Eq(Y, I(1)) [] k = 11 -> T1(X) [] k = 12 -> T1(Y) [] k = 13 -> Fail [] k = 14 -> Cut
    [] k = 15 -> True [] k = 16 -> Log(St("l")) [] k = 17 -> Conj(T1(X), Ge(X, I(2))) [] k = 18 -> Eq(X, C1("s", Y)) [] k = 19 -> Eq(Z, C2("f", X, Y))
    [] k = 20 -> Log(A("m")) [] k = 21 -> Eq(X, I(2)) [] k = 22 -> Eq(E, Y)
RECURSIVE RGoal(_)
RGoal(d) ==
  IF d = 0 THEN RLeaf(d)
  ELSE LET kind == RandomElement(1..14) IN
       CASE kind \in {1, 2} -> Conj(RGoal(d - 1), RGoal(d - 1))
         [] kind = 3 -> Disj(RGoal(d - 1), RGoal(d - 1))
         [] kind = 4 -> Ite(RGoal(d - 1), RGoal(d - 1), RGoal(d - 1))
         [] kind = 5 -> Not(RGoal(d - 1))
         [] kind = 6 -> C3("findall", X, RGoal(d - 1), L)
         [] kind \in {7, 8, 9} -> Cat(RGoal(d - 1), RCatcher(d), RGoal(d - 1))
         [] kind \in {10, 11} -> Scc(RandomElement({True, Log(A("s")), Eq(Y, I(9))}), RGoal(d - 1),
                                     RandomElement({Log(C2("c", X, Y)), Log(C2("d", X, Y)), Conj(Log(A("c")), Fail), Conj(Log(A("c")), Thw(A("cl")))}))
         [] kind = 12 -> C1("once", RGoal(d - 1))
         [] OTHER -> RLeaf(d)
RBody(u) == LET n == RandomElement(1..3) IN ConjOf([j \in 1..n |-> RGoal(RandomElement(1..3))] \o <<Log(St("end"))>>)

PHead == C3("p", X, Y, Z)
Mk(body) == LoadX(<<[h |-> PHead, b |-> body]>> \o Helpers, {}, PHead)

VARIABLES m, fam
Init == m = [phase |-> "gen"] /\ fam = <<>>
Quick == Tier = "quick"
Gen ==
  /\ m.phase = "gen"
  /\ IF Mode = "exh"
     THEN \/ \E v \in (IF Quick THEN FamAq ELSE FamA) : m' = Mk(BodyA(v)) /\ fam' = <<"A">> \o v
          \/ \E v \in (IF Quick THEN FamBq ELSE FamB) : m' = Mk(BodyB(v)) /\ fam' = <<"B">> \o v
          \/ \E v \in (IF Quick THEN FamCq ELSE FamC) : m' = Mk(BodyC(v)) /\ fam' = <<"C">> \o v
          \/ \E v \in FamD : m' = Mk(BodyD(v)) /\ fam' = <<"D">> \o v
     ELSE m' = Mk(RBody(1)) /\ fam' = <<"R">>
Run1 == m.phase = "run" /\ m' = StepX(m) /\ UNCHANGED fam
Next == Gen \/ Run1

Inv == MachineOk(m) /\ CollectorsOk(m) /\ (m.phase # "gen" => ExtOk(m))

Emit == m.phase = "done" /\ m.status \in {"done", "exc"} =>
          PrintT(ToJson([fam |-> fam, prog |-> <<m.prog[1]>>, q |-> m.q, qv |-> m.qv, ans |-> m.ans, status |-> m.status,
                         ball |-> m.ball, balts |-> m.balts, out |-> m.out, unspec |-> m.unspec, nested |-> m.nested, condcut |-> m.condcut, ncl |-> Len(m.cl), steps |-> m.steps]))
=============================================================================
