CONSTANT TablesPath = "/verif/work/c03/tables.json"
CONSTANT TracePath = "/verif/work/c03/trace.ndjson"
CONSTANT UnaryF <- UnaryDef
CONSTANT BinaryF <- BinaryDef
CONSTANT NullaryF <- NullaryDef
INIT Init
NEXT Next
INVARIANT Verdict
POSTCONDITION Consumed
