CONSTANT Tier = "thorough"
INIT Init
NEXT Next
INVARIANT Emit
