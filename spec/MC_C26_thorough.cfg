CONSTANT Tier = "thorough"
CONSTANT Useq <- UThorough
INIT Init
NEXT Next
INVARIANT Confluence
INVARIANT LayerASound
INVARIANT Emit
