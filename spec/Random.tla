------------------------------- MODULE Random -------------------------------
(* Layer A for C52: library(random) -- random/1, random_integer/3, maybe/0, set_random/1.     *)
(* Source: the doc comments of src/lib/random.pl:                                              *)
(*   random(-R)                      "a random floating number between 0 (inclusive) and 1     *)
(*                                    (exclusive)"                                             *)
(*   random_integer(+Lower,+Upper,-R) "a random integer number between Lower (inclusive) and   *)
(*                                    Upper (exclusive).  Throws instantiation_error if Lower  *)
(*                                    or Upper are variables.  Throws type_error if Lower or   *)
(*                                    Upper aren't integers."  An empty range fails            *)
(*                                    (property C52; DESIGN.md Appendix 2 "Random").           *)
(*   maybe                           "Succeeds with probability 0.5."                          *)
(*   set_random(+Seed)               "Sets a seed that will be used for subsequent random      *)
(*                                    generations ... to provide reproducible executions";     *)
(*                                    Seed = seed(S), S an integer (any integer: the           *)
(*                                    documentation names no range); unbound Seed or S:        *)
(*                                    instantiation_error; other S: type_error(integer, S).    *)
(*                                                                                             *)
(* The generator itself is NOT specified: its output is an unlogged function                   *)
(*      gen : (seed, sequence of calls since seeding) -> result                                *)
(* that the trace specification infers from the first observation of each key.  The laws are:  *)
(*   range          every value obeys the documented range (ValueOK);                          *)
(*   classes        every call has the documented kind of outcome (Class / Conforms);          *)
(*   reproducible   gen is a function: after set_random(seed(S)) equal call sequences give     *)
(*                  equal results (Step: a second observation of a key must equal the first).  *)
EXTENDS BigInt, FiniteSets

(* terms: the record shape of Between.tla *)
IntT(b)      == [t |-> "i", b |-> b,     n |-> "",   a |-> <<>>]
AtomT(s)     == [t |-> "a", b |-> BZero, n |-> s,    a |-> <<>>]
VarT(s)      == [t |-> "v", b |-> BZero, n |-> s,    a |-> <<>>]
FloatT(hex)  == [t |-> "f", b |-> BZero, n |-> hex,  a |-> <<>>]
Cpd(name, args) == [t |-> "c", b |-> BZero, n |-> name, a |-> args]

InstErr     == AtomT("instantiation_error")
TypeErrI(c) == Cpd("type_error", <<AtomT("integer"), c>>)
NoTerm      == AtomT("$none")

(* results as observed: k in "ans" (success with a value v) | "true" | "fail" | "err" (v = the   *)
(* Formal of error(Formal, _)); for a float value sign and exp are the IEEE-754 sign bit and    *)
(* biased exponent field of v (decoded from the bit pattern by the driver).                     *)
Res(k, v, sign, exp) == [k |-> k, v |-> v, sign |-> sign, exp |-> exp]

(* the documented kind of outcome of a call, whatever the generator state *)
Class(op, args) ==
  CASE op = "random" -> [k |-> "val", errs |-> {}]
    [] op = "maybe"  -> [k |-> "bool", errs |-> {}]
    [] op = "random_integer" ->
         LET lo == args[1]
             hi == args[2]
             es == (IF lo.t = "v" \/ hi.t = "v" THEN {InstErr} ELSE {})
                   \cup (IF lo.t \notin {"v", "i"} THEN {TypeErrI(lo)} ELSE {})
                   \cup (IF hi.t \notin {"v", "i"} THEN {TypeErrI(hi)} ELSE {})
         IN IF es # {} THEN [k |-> "err", errs |-> es]
            ELSE IF Lt(lo.b, hi.b) THEN [k |-> "val", errs |-> {}]
            ELSE [k |-> "fail", errs |-> {}]
    [] op = "set_random" ->
         LET s == args[1] IN
         IF s.t = "v" THEN [k |-> "err", errs |-> {InstErr}]
         ELSE IF s.t = "c" /\ s.n = "seed" /\ Len(s.a) = 1 THEN
                IF s.a[1].t = "v" THEN [k |-> "err", errs |-> {InstErr}]
                ELSE IF s.a[1].t = "i" THEN [k |-> "ok", errs |-> {}]
                ELSE [k |-> "err", errs |-> {TypeErrI(s.a[1])}]
         ELSE [k |-> "unspecified", errs |-> {}]       \* set_random(foo): not documented, never generated

(* 0.0 =< X < 1.0 for an IEEE double given by its fields: non-negative and biased exponent below *)
(* that of 1.0 (1023); this includes +0.0 and subnormals and excludes NaN and infinities.        *)
UnitFloat(r) == r.v.t = "f" /\ r.sign = 0 /\ r.exp < 1023

ValueOK(op, args, r) ==
  CASE op = "random" -> UnitFloat(r)
    [] op = "random_integer" -> r.v.t = "i" /\ Le(args[1].b, r.v.b) /\ Lt(r.v.b, args[2].b)
    [] OTHER -> FALSE

Conforms(op, args, r) ==
  LET c == Class(op, args) IN
  CASE c.k = "val"  -> r.k = "ans" /\ ValueOK(op, args, r)
    [] c.k = "fail" -> r.k = "fail"
    [] c.k = "err"  -> r.k = "err" /\ r.v \in c.errs
    [] c.k = "ok"   -> r.k = "true"
    [] c.k = "bool" -> r.k \in {"true", "fail"}
    [] OTHER        -> FALSE

(* ------------------------------------------------------------------------------------------- *)
(* the state machine: st = [seeded, seed, hist, known]; known is the part of gen inferred so far *)
(* (a set of <<key, result>> pairs)                                                             *)

St0 == [seeded |-> FALSE, seed |-> BZero, hist |-> <<>>, known |-> {}]

Reseeds(op, args, r) == op = "set_random" /\ r.k = "true"

(* is the observation (op, args, r) allowed in state st *)
Allowed(st, op, args, r) ==
  /\ Conforms(op, args, r)
  /\ (st.seeded /\ ~Reseeds(op, args, r)) =>
        LET key == <<st.seed, Append(st.hist, [op |-> op, args |-> args])>>
        IN \A p \in st.known : p[1] = key => p[2] = r

Step(st, op, args, r) ==
  IF Reseeds(op, args, r)
    THEN [st EXCEPT !.seeded = TRUE, !.seed = args[1].a[1].b, !.hist = <<>>]
  ELSE LET h == Append(st.hist, [op |-> op, args |-> args]) IN
       IF st.seeded THEN [st EXCEPT !.hist = h, !.known = st.known \cup {<< <<st.seed, h>>, r >>}]
       ELSE [st EXCEPT !.hist = h]

(* a fresh machine: the seed is unknown again; what was inferred stays valid *)
NewMachine(st) == [st EXCEPT !.seeded = FALSE, !.hist = <<>>]
=============================================================================
