CONSTANTS Tier = "quick" MaxSteps = 300 MaxAns = 12
INIT Init
NEXT Next
INVARIANT Inv
INVARIANT Emit
