CONSTANT Tier = "thorough"
INIT Init
NEXT Next
INVARIANT Theorems
INVARIANT Emit
