INIT Init
NEXT Next
POSTCONDITION Accepted
