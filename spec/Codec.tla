-------------------------------- MODULE Codec --------------------------------
(* Layer A for the encodings of C37: byte-level arithmetic specifications of               *)
(*   hex_bytes/2         (library(crypto))   Base16, RFC 4648 section 8                     *)
(*   chars_base64/3      (library(charsio))  Base64, RFC 4648 sections 4 and 5              *)
(*   chars_utf8bytes/2   (library(charsio))  UTF-8, RFC 3629 / Unicode 3.9 table 3-7        *)
(* Bytes are integers 0..255, text is a sequence of code points.                             *)
(*                                                                                           *)
(* Documented behaviour used here (doc comments in /repo/src/lib/crypto.pl, charsio.pl):     *)
(*  * hex_bytes(?Hex, ?Bytes): "Relation between a hexadecimal sequence and a list of        *)
(*    bytes"; the example decodes the upper-case "501ACE", the examples that *produce* hex   *)
(*    (hex_bytes(Hex, Bs), crypto_data_hash/3) show lower case. So: decoding accepts both    *)
(*    cases, encoding produces lower case.                                                   *)
(*  * chars_base64(?Chars, ?Base64, +Options): "Relation between a list of characters Cs and *)
(*    its Base64 encoding Bs"; padding(Boolean) "whether to use padding" (default true),     *)
(*    charset(standard|url) (default standard). Being a relation with *the* encoding, a      *)
(*    text decodes exactly when it is the encoding (under the same options) of some byte     *)
(*    sequence: B64Decode is defined as that inverse. Chars stand for bytes by their code    *)
(*    (0..255); other characters have no Base64 encoding.                                    *)
(*  * chars_utf8bytes(?Chars, ?Bytes): "Maps a string made of chars with a list of UTF-8     *)
(*    bytes". Encoding and the decoding of well-formed UTF-8 are fixed by RFC 3629. For      *)
(*    ill-formed input the doc comment is silent; the code comments announce U+FFFD          *)
(*    replacement. The specification therefore only demands that ill-formed input is not     *)
(*    decoded "cleanly": the call fails, raises, or its result contains U+FFFD (RFC 3629     *)
(*    section 3: a decoder MUST NOT decode overlong forms, surrogates or values > 10FFFF).   *)
EXTENDS Integers, Sequences, TLC

RECURSIVE Concat(_)
Concat(ss) == IF ss = <<>> THEN <<>> ELSE Head(ss) \o Concat(Tail(ss))

IsByte(b) == b >= 0 /\ b <= 255
IsBytes(bs) == \A i \in 1..Len(bs) : IsByte(bs[i])

-----------------------------------------------------------------------------
(* Base16 *)
HexDigitL(d) == IF d < 10 THEN 48 + d ELSE 87 + d
HexVal(c) == IF c >= 48 /\ c <= 57 THEN c - 48
             ELSE IF c >= 65 /\ c <= 70 THEN c - 55
             ELSE IF c >= 97 /\ c <= 102 THEN c - 87
             ELSE -1
HexEncode(bs) == [i \in 1..(2 * Len(bs)) |->
                    LET b == bs[(i + 1) \div 2] IN IF i % 2 = 1 THEN HexDigitL(b \div 16) ELSE HexDigitL(b % 16)]
NoBytes == [ok |-> FALSE, bs |-> <<>>]
HexDecode(cs) ==
  IF Len(cs) % 2 = 0 /\ \A i \in 1..Len(cs) : HexVal(cs[i]) >= 0
    THEN [ok |-> TRUE, bs |-> [i \in 1..(Len(cs) \div 2) |-> HexVal(cs[2 * i - 1]) * 16 + HexVal(cs[2 * i])]]
    ELSE NoBytes
IsLowerHex(cs) == \A i \in 1..Len(cs) : (cs[i] >= 48 /\ cs[i] <= 57) \/ (cs[i] >= 97 /\ cs[i] <= 102)

-----------------------------------------------------------------------------
(* Base64; url = TRUE selects the alphabet of RFC 4648 section 5 ("-" and "_") *)
B64Char(v, url) == IF v < 26 THEN 65 + v
                   ELSE IF v < 52 THEN 97 + (v - 26)
                   ELSE IF v < 62 THEN 48 + (v - 52)
                   ELSE IF v = 62 THEN (IF url THEN 45 ELSE 43)
                   ELSE (IF url THEN 95 ELSE 47)
B64Val(c, url) == IF c >= 65 /\ c <= 90 THEN c - 65
                  ELSE IF c >= 97 /\ c <= 122 THEN c - 97 + 26
                  ELSE IF c >= 48 /\ c <= 57 THEN c - 48 + 52
                  ELSE IF c = (IF url THEN 45 ELSE 43) THEN 62
                  ELSE IF c = (IF url THEN 95 ELSE 47) THEN 63
                  ELSE -1
RECURSIVE B64Encode(_, _, _)
B64Encode(bs, pad, url) ==
  LET ch(v) == B64Char(v, url) IN
  IF bs = <<>> THEN <<>>
  ELSE IF Len(bs) = 1 THEN
    <<ch(bs[1] \div 4), ch((bs[1] % 4) * 16)>> \o (IF pad THEN <<61, 61>> ELSE <<>>)
  ELSE IF Len(bs) = 2 THEN
    <<ch(bs[1] \div 4), ch((bs[1] % 4) * 16 + (bs[2] \div 16)), ch((bs[2] % 16) * 4)>> \o (IF pad THEN <<61>> ELSE <<>>)
  ELSE <<ch(bs[1] \div 4), ch((bs[1] % 4) * 16 + (bs[2] \div 16)), ch((bs[2] % 16) * 4 + (bs[3] \div 64)), ch(bs[3] % 64)>>
       \o B64Encode(SubSeq(bs, 4, Len(bs)), pad, url)

(* the bytes a text would stand for if it were an encoding: drop up to two trailing "=", read *)
(* sextets, keep the whole bytes                                                              *)
B64Body(cs) == IF Len(cs) >= 2 /\ cs[Len(cs)] = 61 /\ cs[Len(cs) - 1] = 61 THEN SubSeq(cs, 1, Len(cs) - 2)
               ELSE IF Len(cs) >= 1 /\ cs[Len(cs)] = 61 THEN SubSeq(cs, 1, Len(cs) - 1)
               ELSE cs
RECURSIVE SextetsToBytes(_)
SextetsToBytes(vs) ==
  IF Len(vs) < 2 THEN <<>>
  ELSE IF Len(vs) = 2 THEN <<vs[1] * 4 + (vs[2] \div 16)>>
  ELSE IF Len(vs) = 3 THEN <<vs[1] * 4 + (vs[2] \div 16), (vs[2] % 16) * 16 + (vs[3] \div 4)>>
  ELSE <<vs[1] * 4 + (vs[2] \div 16), (vs[2] % 16) * 16 + (vs[3] \div 4), (vs[3] % 4) * 64 + vs[4]>>
       \o SextetsToBytes(SubSeq(vs, 5, Len(vs)))
(* B64Decode(cs, pad, url) = the bs with B64Encode(bs, pad, url) = cs, if there is one *)
B64Decode(cs, pad, url) ==
  LET body == B64Body(cs)
      vs   == [i \in 1..Len(body) |-> B64Val(body[i], url)]
      cand == SextetsToBytes(vs)
  IN IF (\A i \in 1..Len(vs) : vs[i] >= 0) /\ B64Encode(cand, pad, url) = cs
       THEN [ok |-> TRUE, bs |-> cand] ELSE NoBytes

-----------------------------------------------------------------------------
(* UTF-8 *)
IsScalar(c) == c >= 0 /\ c <= 1114111 /\ ~(c >= 55296 /\ c <= 57343)
Utf8Enc1(c) ==
  IF c < 128 THEN <<c>>
  ELSE IF c < 2048 THEN <<192 + (c \div 64), 128 + (c % 64)>>
  ELSE IF c < 65536 THEN <<224 + (c \div 4096), 128 + ((c \div 64) % 64), 128 + (c % 64)>>
  ELSE <<240 + (c \div 262144), 128 + ((c \div 4096) % 64), 128 + ((c \div 64) % 64), 128 + (c % 64)>>
Utf8Encode(cs) == Concat([i \in 1..Len(cs) |-> Utf8Enc1(cs[i])])

IsCont(b) == b >= 128 /\ b <= 191
Utf8Len(b) == IF b < 128 THEN 1 ELSE IF b >= 192 /\ b <= 223 THEN 2 ELSE IF b >= 224 /\ b <= 239 THEN 3
              ELSE IF b >= 240 /\ b <= 247 THEN 4 ELSE 0
Utf8Min(n) == CASE n = 1 -> 0 [] n = 2 -> 128 [] n = 3 -> 2048 [] n = 4 -> 65536
Ill(why) == [ok |-> FALSE, cs |-> <<>>, why |-> why]
(* well-formed UTF-8: a lead byte announcing n bytes, n-1 continuation bytes, the shortest    *)
(* form (no overlong encoding) of a Unicode scalar value (no surrogate, at most 10FFFF).      *)
(* why names the first defect of an ill-formed sequence (a label for reports).                *)
RECURSIVE Utf8Dec(_, _, _)
Utf8Dec(bs, p, acc) ==
  IF p > Len(bs) THEN [ok |-> TRUE, cs |-> acc, why |-> ""]
  ELSE LET n == Utf8Len(bs[p]) IN
    IF n = 0 THEN Ill("badlead")
    ELSE IF p + n - 1 > Len(bs) THEN Ill("truncated")
    ELSE IF \E i \in 1..(n - 1) : ~IsCont(bs[p + i]) THEN Ill("badcont")
    ELSE LET c == CASE n = 1 -> bs[p]
                    [] n = 2 -> (bs[p] - 192) * 64 + (bs[p + 1] - 128)
                    [] n = 3 -> (bs[p] - 224) * 4096 + (bs[p + 1] - 128) * 64 + (bs[p + 2] - 128)
                    [] n = 4 -> (bs[p] - 240) * 262144 + (bs[p + 1] - 128) * 4096 + (bs[p + 2] - 128) * 64 + (bs[p + 3] - 128)
         IN IF c < Utf8Min(n) THEN Ill("overlong")
            ELSE IF c >= 55296 /\ c <= 57343 THEN Ill("surrogate")
            ELSE IF c > 1114111 THEN Ill("range")
            ELSE Utf8Dec(bs, p + n, Append(acc, c))
Utf8Decode(bs) == Utf8Dec(bs, 1, <<>>)
=============================================================================
