CONSTANT Tier = "quick"
CONSTANT Mode = "conf"
INIT Init
NEXT Next
INVARIANT Emit
