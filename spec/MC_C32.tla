------------------------------- MODULE MC_C32 -------------------------------
EXTENDS AtomTable
CONSTANT Tier, Mutant
ThreadsDef == {1, 2, 3}
CallsDef == IF Tier = "quick"
            THEN (1 :> <<"x", "y">>) @@ (2 :> <<"y", "x">>) @@ (3 :> <<"z", "x">>)
            ELSE (1 :> <<"x", "y", "z">>) @@ (2 :> <<"y", "x", "w">>) @@ (3 :> <<"z", "x", "x">>)
TextsDef == {"x", "y", "z", "w"}
RecheckDef == Mutant # "norecheck"
UseLockDef == Mutant # "nolock"
=============================================================================
