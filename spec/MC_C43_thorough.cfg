CONSTANT Mode = "bfs"
CONSTANT LeafSet = "full"
CONSTANT GrowSet = "small"
CONSTANT Depth = 2
CONSTANT Names <- NamesDef
INIT Init
NEXT Next
INVARIANT Emit
INVARIANT ConsistentInv
INVARIANT LeafInv
INVARIANT FixInv
INVARIANT FrameInv
