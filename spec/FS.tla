--------------------------------- MODULE FS ---------------------------------
(* Layer A for C48: library(files) against a model of the file system under a scratch root.    *)
(*                                                                                             *)
(* State: fs \in [Paths -> Node]: for every path of a small, prefix-closed pool whether it is   *)
(* absent, a directory or a regular file of a known size.  The scratch root itself (Root) is    *)
(* always a directory.  Paths are abstract names; the driver maps their segments to concrete    *)
(* (ASCII, non-ASCII, with a space) file names and passes absolute paths as strings.            *)
(*                                                                                             *)
(* Sources (src/lib/files.pl doc comments, DESIGN.md Appendix 2 "Files"):                       *)
(*   file_exists(+File)            "True iff File is a file that exists"                        *)
(*   directory_exists(+Directory)  "True iff Directory is a directory that exists"              *)
(*   file_size(+File, ?Size)       "Size is the size (in bytes) of File. The file must exist."  *)
(*                                  -> existence_error(file, File) otherwise                    *)
(*   directory_files(+Dir, -Files) "Files are the files and directories available at Dir"       *)
(*                                  (no order documented: compared as a set); fails if Dir is    *)
(*                                  not an existing directory                                    *)
(*   make_directory(+Dir)          "Creates a new directory"; fails on an existing name or a     *)
(*                                  missing parent ("If you want to create a nested directory,   *)
(*                                  use make_directory_path/1")                                  *)
(*   make_directory_path(+Dir)     "recursively creates directories if they're missing.          *)
(*                                  Equivalent to mkdir -p"                                      *)
(*   delete_file(+File)            "Succeeds if deletes File"; existence_error(file, F) if F is  *)
(*                                  not an existing file                                         *)
(*   delete_directory(+Dir)        "Directory must be empty" (fails otherwise);                  *)
(*                                  existence_error(directory, D) if D is no existing directory  *)
(*   rename_file(+File, +Renamed)  "Succeeds if File is renamed to Renamed"; File must be an     *)
(*                                  existing file (existence_error(file, File)); POSIX rename:   *)
(*                                  an existing file Renamed is replaced, a directory is not,    *)
(*                                  the parent of Renamed must be an existing directory          *)
(*   file_copy(+File, +Copied)     "Succeeds if File is copied to Copied": afterwards Copied is  *)
(*                                  a file with the content (here: size) File had, File is       *)
(*                                  unchanged; same existence error and target conditions        *)
(*   path_canonical(Ps, Cs)        "Cs is the canonical, absolute path of Ps ... fails [if] Ps   *)
(*                                  does not exist [or] a non-final component is not a directory" *)
(* Ill-typed paths (must_be(chars, _) of library(error)): unbound or partial -> instantiation    *)
(* error; not a list -> type_error(list, T); an element that is no character ->                  *)
(* type_error(character, E): operator ArgError.                                                  *)
EXTENDS Integers, Sequences, FiniteSets, TLC

CONSTANTS Paths,     \* the pool (strings), closed under Parent
          Parent,    \* [Paths -> Paths \cup {Root}]
          Base       \* [Paths -> abstract name of the last segment]

Root == ""

None    == [k |-> "none", s |-> 0]
Dir     == [k |-> "dir",  s |-> 0]
File(n) == [k |-> "file", s |-> n]

Empty == [p \in Paths |-> None]

(* IF rather than \/: TLC splits a disjunction met while expanding an action into two branches *)
(* and would then evaluate fs[Root]                                                             *)
IsDirAt(fs, p)     == IF p = Root THEN TRUE ELSE fs[p].k = "dir"
ExistsAt(fs, p)    == IF p = Root THEN TRUE ELSE fs[p].k # "none"
ParentIsDir(fs, p) == IsDirAt(fs, Parent[p])
Children(fs, d)    == {q \in Paths : Parent[q] = d /\ fs[q].k # "none"}

RECURSIVE Chain(_)                       \* p and its ancestors below the root
Chain(p) == IF p = Root THEN {} ELSE {p} \cup Chain(Parent[p])

(* every existing node hangs below existing directories *)
Wf(fs) == \A p \in Paths : fs[p].k # "none" => ParentIsDir(fs, p)

-----------------------------------------------------------------------------
(* outcomes: r = "true" | "fail" | "err" (existence_error(e.what, e.path)) |                   *)
(*               "truefail" (the documentation leaves both open; the state is fs either way)    *)

NoErr == [what |-> "", path |-> ""]
Ok(fs)           == [r |-> "true", e |-> NoErr, fs |-> fs]
Fails(fs)        == [r |-> "fail", e |-> NoErr, fs |-> fs]
OkOrFails(fs)    == [r |-> "truefail", e |-> NoErr, fs |-> fs]
NoSuch(what, p, fs) == [r |-> "err", e |-> [what |-> what, path |-> p], fs |-> fs]

(* an operation: [op, p, q, n]; q = Root and n = 0 where unused *)
Op(op, p, q, n) == [op |-> op, p |-> p, q |-> q, n |-> n]

TargetOk(fs, q) == fs[q].k # "dir" /\ ParentIsDir(fs, q)

Apply(fs, o) ==
  LET p == o.p  q == o.q IN
  CASE o.op = "make_directory" ->
         IF fs[p].k = "none" /\ ParentIsDir(fs, p) THEN Ok([fs EXCEPT ![p] = Dir]) ELSE Fails(fs)
    [] o.op = "make_directory_path" ->
         IF \A c \in Chain(p) : fs[c].k \in {"none", "dir"}
           THEN Ok([c \in Paths |-> IF c \in Chain(p) THEN Dir ELSE fs[c]])
           ELSE Fails(fs)
    [] o.op = "delete_file" ->
         IF fs[p].k = "file" THEN Ok([fs EXCEPT ![p] = None]) ELSE NoSuch("file", p, fs)
    [] o.op = "delete_directory" ->
         IF fs[p].k # "dir" THEN NoSuch("directory", p, fs)
         ELSE IF Children(fs, p) # {} THEN Fails(fs)
         ELSE Ok([fs EXCEPT ![p] = None])
    [] o.op = "rename_file" ->
         IF fs[p].k # "file" THEN NoSuch("file", p, fs)
         ELSE IF p = q THEN Ok(fs)
         ELSE IF ~TargetOk(fs, q) THEN Fails(fs)
         ELSE Ok([fs EXCEPT ![q] = fs[p], ![p] = None])
    [] o.op = "file_copy" ->
         IF fs[p].k # "file" THEN NoSuch("file", p, fs)
         ELSE IF p = q THEN OkOrFails(fs)       \* copying a file onto itself must not change it
         ELSE IF ~TargetOk(fs, q) THEN Fails(fs)
         ELSE Ok([fs EXCEPT ![q] = fs[p]])
    [] o.op = "create" ->                        \* performed by the driver, not by the library
         Ok([fs EXCEPT ![p] = File(o.n)])

(* the driver can create a file only below an existing directory and not over a directory *)
Feasible(fs, o) == o.op = "create" => (ParentIsDir(fs, o.p) /\ fs[o.p].k # "dir")

-----------------------------------------------------------------------------
(* observers, evaluated in a state *)

FileExists(fs, p)      == fs[p].k = "file"
DirectoryExists(fs, p) == fs[p].k = "dir"
FileSize(fs, p)        == IF fs[p].k = "file" THEN fs[p].s ELSE -1       \* -1: existence_error(file, p)
ListsDir(fs, d)        == IsDirAt(fs, d)                                  \* directory_files succeeds
DirFiles(fs, d)        == {Base[c] : c \in Children(fs, d)}

(* a path text with `.`, `..` or a trailing separator: [segs, via, target]; it resolves iff every *)
(* path in via is an existing directory and target exists                                        *)
Resolves(fs, al) == (\A v \in al.via : fs[v].k = "dir") /\ ExistsAt(fs, al.target)

-----------------------------------------------------------------------------
(* argument checking: must_be(chars, T) for a path argument.  Kinds of ill-typed arguments:      *)
(*   "var" unbound, "partial" a partial list of characters, "atom", "int" (not lists),            *)
(*   "nonchar" a list with an element that is not a character                                     *)
ArgError(kind) ==
  CASE kind \in {"var", "partial"} -> "instantiation_error"
    [] kind \in {"atom", "int"}    -> "type_error_list"         \* type_error(list, Culprit)
    [] kind = "nonchar"            -> "type_error_character"    \* type_error(character, Element)

-----------------------------------------------------------------------------
(* path_segments(?Ps, ?Segments): "Segments is the list of components of the path Ps that are     *)
(* separated by the platform-specific directory separator"; texts are sequences of characters      *)

Sep == "/"
RECURSIVE Join(_)
Join(segs) == IF segs = <<>> THEN <<>>
              ELSE IF Len(segs) = 1 THEN segs[1]
              ELSE segs[1] \o <<Sep>> \o Join(Tail(segs))

RECURSIVE SplitFrom(_, _, _)
SplitFrom(cs, i, cur) ==
  IF i > Len(cs) THEN <<cur>>
  ELSE IF cs[i] = Sep THEN <<cur>> \o SplitFrom(cs, i + 1, <<>>)
  ELSE SplitFrom(cs, i + 1, Append(cur, cs[i]))
Split(cs) == SplitFrom(cs, 1, <<>>)
=============================================================================
