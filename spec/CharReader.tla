------------------------------ MODULE CharReader ------------------------------
(* Layer B for C18: transcription of src/parser/char_reader.rs (CharReader<R>):            *)
(* a byte source delivering chunks, a buffer `buf`, a read position `pos`;                  *)
(* refresh_buffer (keep-4 compaction), peek_char (decode at most 4 bytes: character /       *)
(* invalid prefix / incomplete -> compact and read another chunk), consume, put_back_char.  *)
(* Every slice/drain the code performs carries its precondition; a failed precondition is   *)
(* a panic of the real code and sets panic = TRUE in the model.                             *)
EXTENDS Utf8

(* r = [src |-> sequence of chunks still to arrive, buf, pos, panic] *)
ReadChunk(r) == IF r.src = <<>> THEN <<r, 0>>
                ELSE << [r EXCEPT !.buf = r.buf \o Head(r.src), !.src = Tail(r.src)], Len(Head(r.src)) >>

Refresh(r) ==
  IF r.pos >= Len(r.buf)
  THEN LET b == IF Len(r.buf) > 4 THEN SubSeq(r.buf, 1, 4) ELSE r.buf
       IN ReadChunk([r EXCEPT !.buf = b, !.pos = Len(b)])[1]
  ELSE r

Min(a, b) == IF a < b THEN a ELSE b

(* result: << r', item >> with item = [k |-> "char" | "bad" | "eof", cp, n, bytes] *)
RECURSIVE PeekLoop(_)
PeekLoop(r) ==
  IF r.pos >= Len(r.buf) THEN << r, [k |-> "eof", cp |-> 0, n |-> 0, bytes |-> <<>>] >>
  ELSE LET rest == SubSeq(r.buf, r.pos + 1, Len(r.buf))
           prefix == SubSeq(rest, 1, Min(4, Len(rest)))
           f == First(prefix)
       IN IF f.k = "char" THEN << r, [k |-> "char", cp |-> f.cp, n |-> f.n, bytes |-> <<>>] >>
          ELSE IF f.k = "bad" THEN << r, [k |-> "bad", cp |-> 0, n |-> f.n, bytes |-> SubSeq(rest, 1, f.n)] >>
          ELSE (* incomplete: compact (keep a prefix of 4 bytes for put_back_char) and read more *)
               LET r1 == IF r.pos > 4
                         THEN [r EXCEPT !.buf = SubSeq(r.buf, 1, 4) \o rest, !.pos = 4]
                         ELSE r
                   rc == ReadChunk(r1)
               IN IF rc[2] = 0
                  THEN << rc[1], [k |-> "bad", cp |-> 0, n |-> Len(rest), bytes |-> rest] >>   \* truncated at end of input
                  ELSE PeekLoop(rc[1])

PeekChar(r) == PeekLoop(Refresh(r))

Consume(r, n) == [r EXCEPT !.pos = r.pos + n]

PutBack(r, cp) ==
  LET e == Encode(cp)
      n == Len(e)
  IN IF n <= r.pos
     THEN [r EXCEPT !.pos = r.pos - n,
                    !.buf = [j \in 1..Len(r.buf) |-> IF j > r.pos - n /\ j <= r.pos THEN e[j - (r.pos - n)] ELSE r.buf[j]]]
     ELSE (* insert n - pos bytes in front, then overwrite the first n bytes *)
          LET nb == [j \in 1..(n - r.pos) |-> 0] \o r.buf
          IN [r EXCEPT !.pos = 0, !.buf = [j \in 1..Len(nb) |-> IF j <= n THEN e[j] ELSE nb[j]]]
==============================================================================
