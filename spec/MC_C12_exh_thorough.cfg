CONSTANTS Tier = "thorough" Mode = "exh" MaxSteps = 800 MaxAns = 20
INIT Init
NEXT Next
INVARIANT Inv
INVARIANT Emit
