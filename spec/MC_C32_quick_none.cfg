CONSTANTS Tier = "quick" Mutant = "none" BlockCap = 1
CONSTANTS Threads <- ThreadsDef Calls <- CallsDef Texts <- TextsDef Recheck <- RecheckDef UseLock <- UseLockDef
SPECIFICATION Spec
INVARIANT Safe
