------------------------------- MODULE MC_C18 -------------------------------
(* C18: text decoding does not depend on how input arrives.                                  *)
(* For every byte string up to a length over an alphabet of UTF-8 lead/continuation/invalid   *)
(* bytes, every partition into chunks and every access pattern (read / peek+read /           *)
(* read+put_back+read / mixed), the implementation-shaped CharReader delivers Decode(bytes). *)
(* TLC checks the refinement and prints each behaviour for replay on the real CharReader.    *)
EXTENDS CharReader, Json, TLC

CONSTANT Tier

Alphabet == {97, 195, 169, 226, 130, 172, 240, 159, 152, 128, 255}
MaxLen == IF Tier = "quick" THEN 3 ELSE 4
Strings == UNION {[1..n -> Alphabet] : n \in 0..MaxLen}
          \cup { <<97, 98, 99, 226, 130, 172>>, <<97, 98, 99, 226, 130>>, <<97, 98, 226>>, <<97, 98, 99, 100, 101, 240, 159, 152>>,
                 <<97, 98, 99, 100, 240, 159, 152, 128, 97>>, <<226, 130, 172, 226, 130, 172, 226, 130>>, <<97, 98, 99, 100, 101, 102, 195>>,
                 <<195, 169, 195, 169, 195, 169, 195>>, <<97, 98, 99, 100, 101, 255, 226, 130>> }

(* all ways to cut bs into non-empty chunks *)
RECURSIVE Cuts(_)
Cuts(bs) == IF bs = <<>> THEN {<<>>}
            ELSE UNION { { <<SubSeq(bs, 1, k)>> \o rest : rest \in Cuts(SubSeq(bs, k + 1, Len(bs))) } : k \in 1..Len(bs) }
SomeCuts(bs) == IF Len(bs) <= 4 THEN Cuts(bs)
                ELSE { <<bs>>, [j \in 1..Len(bs) |-> <<bs[j]>>] } \cup { <<SubSeq(bs, 1, k), SubSeq(bs, k + 1, Len(bs))>> : k \in 1..(Len(bs) - 1) }

Patterns == {"read", "peek", "putback", "mixed"}

VARIABLES phase, bytes, cut, r, pat, ops, res, step
vars == <<phase, bytes, cut, r, pat, ops, res, step>>

IsPut(o) == Len(o) > 7 /\ SubSeq(o, 1, 7) = "putback"
IsCons(o) == Len(o) > 7 /\ SubSeq(o, 1, 7) = "consume"

Init == /\ phase = "gen" /\ bytes \in Strings /\ r = [src |-> <<>>, buf |-> <<>>, pos |-> 0]
        /\ pat = "" /\ ops = <<>> /\ res = <<>> /\ step = 0 /\ cut = <<>>

Gen == /\ phase = "gen"
       /\ \E c \in SomeCuts(bytes) : \E p \in Patterns :
            /\ r' = [src |-> c, buf |-> <<>>, pos |-> 0] /\ pat' = p /\ cut' = c
       /\ phase' = "run" /\ UNCHANGED <<bytes, ops, res, step>>

Item(it) == [k |-> it.k, cp |-> it.cp, n |-> it.n]
Log(o, it) == /\ ops' = Append(ops, o) /\ res' = Append(res, Item(it))

(* one "round": deliver the next item, in the style of the access pattern *)
Round ==
  /\ phase = "run"
  /\ LET usePeek == pat = "peek" \/ (pat = "mixed" /\ step % 3 = 0)
         usePut  == pat = "putback" \/ (pat = "mixed" /\ step % 3 = 1)
         pk == PeekChar(r)
         it == pk[2]
     IN IF it.k = "eof"
        THEN /\ phase' = "done" /\ r' = pk[1] /\ Log("read", it) /\ step' = step
        ELSE IF it.k = "bad"
        THEN (* the caller skips the invalid bytes *)
             /\ r' = Consume(pk[1], it.n) /\ step' = step + 1 /\ phase' = phase
             /\ ops' = ops \o <<"peek", "consume:" \o ToString(it.n)>> /\ res' = res \o <<Item(it), Item(it)>>
        ELSE IF usePeek
        THEN /\ r' = Consume(pk[1], it.n) /\ step' = step + 1 /\ phase' = phase
             /\ ops' = ops \o <<"peek", "read">> /\ res' = res \o <<Item(it), Item(it)>>
        ELSE IF usePut
        THEN (* read, put the character back, read it again *)
             LET r1 == Consume(pk[1], it.n)
                 r2 == PutBack(r1, it.cp)
                 pk2 == PeekChar(r2)
             IN /\ r' = Consume(pk2[1], pk2[2].n) /\ step' = step + 1 /\ phase' = phase
                /\ ops' = ops \o <<"read", "putback:" \o ToString(it.cp), "read">>
                /\ res' = res \o <<Item(it), Item(it), Item(pk2[2])>>
        ELSE /\ r' = Consume(pk[1], it.n) /\ step' = step + 1 /\ phase' = phase /\ Log("read", it)
  /\ UNCHANGED <<bytes, pat, cut>>

Next == Gen \/ Round

(* what the reads (not peeks / put-back re-reads) delivered, in order *)
RECURSIVE Delivered(_, _, _)
Delivered(os, rs, j) ==
  IF j > Len(os) THEN <<>>
  ELSE IF os[j] = "read" /\ (j = 1 \/ ~IsPut(os[j - 1])) /\ rs[j].k # "eof"
       THEN <<rs[j]>> \o Delivered(os, rs, j + 1)
       ELSE IF IsCons(os[j]) THEN <<rs[j]>> \o Delivered(os, rs, j + 1)
       ELSE Delivered(os, rs, j + 1)

Strip(s) == [j \in 1..Len(s) |-> [k |-> s[j].k, cp |-> s[j].cp, n |-> s[j].n]]

(* refinement B => A: the delivered items are Decode(bytes), however the input was chunked and accessed *)
Refines == phase = "done" => Delivered(ops, res, 1) = Strip(Decode(bytes))
PutBackExact == \A j \in 2..Len(ops) : IsPut(ops[j - 1]) => res[j] = res[j - 1]

Emit == phase = "done" =>
          PrintT(ToJson([chunks |-> cut, bytes |-> bytes, pat |-> pat, ops |-> ops, res |-> res]))
=============================================================================
