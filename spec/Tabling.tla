------------------------------- MODULE Tabling -------------------------------
(* Layer A for the tabling half of C38.                                                         *)
(* A tabled predicate denotes the least fixpoint of the immediate-consequence operator of its    *)
(* clauses (SLG resolution is sound and complete for the least model of a definite program;     *)
(* src/lib/tabling.pl: "Tabling, also called SLG resolution", Desouter et al. 2016).  The        *)
(* answers of a call are the members of that relation that unify with the call, each once       *)
(* (a table is a set of answers: tabling.pl delim/3 adds an answer only if it is new).           *)
(* No abstract machine is needed: the fixpoints are computed by iteration over finite sets.     *)
(*                                                                                               *)
(* Programs (E = the finite edge/2 relation):                                                    *)
(*   "left"    path(X,Y) :- path(X,Z), edge(Z,Y).   path(X,Y) :- edge(X,Y).                      *)
(*   "right"   path(X,Y) :- edge(X,Y).              path(X,Y) :- edge(X,Z), path(Z,Y).           *)
(*   "double"  path(X,Y) :- edge(X,Y).              path(X,Y) :- path(X,Z), path(Z,Y).           *)
(*   mutual recursion (both tabled), "mright" / "mleft":                                         *)
(*             even(X,Y) :- edge(X,Z), odd(Z,Y).    /  even(X,Y) :- odd(X,Z), edge(Z,Y).         *)
(*             odd(X,Y)  :- edge(X,Y).                 odd(X,Y)  :- edge(X,Y).                   *)
(*             odd(X,Y)  :- edge(X,Z), even(Z,Y).      odd(X,Y)  :- even(X,Z), edge(Z,Y).        *)
EXTENDS Integers, Sequences, FiniteSets

Compose(R, S) == { <<pq[1][1], pq[2][2]>> : pq \in { rs \in R \X S : rs[1][2] = rs[2][1] } }

(* one application of the immediate-consequence operator, P = current value of path/2 *)
TP(kind, E, P) ==
  CASE kind = "left"   -> E \cup Compose(P, E)
    [] kind = "right"  -> E \cup Compose(E, P)
    [] kind = "double" -> E \cup Compose(P, P)

RECURSIVE LfpFrom(_, _, _)
LfpFrom(kind, E, P) == LET Q == TP(kind, E, P) IN IF Q = P THEN P ELSE LfpFrom(kind, E, Q)
PathLfp(kind, E) == LfpFrom(kind, E, {})

(* mutual recursion: the pair <<Even, Odd>> *)
TM(kind, E, EO) ==
  IF kind = "mright" THEN << Compose(E, EO[2]), E \cup Compose(E, EO[1]) >>
  ELSE << Compose(EO[2], E), E \cup Compose(EO[1], E) >>
RECURSIVE MLfpFrom(_, _, _)
MLfpFrom(kind, E, EO) == LET Q == TM(kind, E, EO) IN IF Q = EO THEN EO ELSE MLfpFrom(kind, E, Q)
MutLfp(kind, E) == MLfpFrom(kind, E, << {}, {} >>)

(* ---- independent characterisations used as sanity theorems of this module ---- *)
RECURSIVE Power(_, _)
Power(E, k) == IF k = 1 THEN E ELSE Compose(Power(E, k - 1), E)
(* transitive closure over n nodes: walks of length 1..n *)
Closure(E, n) == UNION { Power(E, k) : k \in 1..n }
(* walks of odd / even (>= 2) length; over n nodes every parity-reachable pair has a walk of length <= 2n *)
OddWalks(E, n)  == UNION { Power(E, k) : k \in { j \in 1..(2 * n) : j % 2 = 1 } }
EvenWalks(E, n) == UNION { Power(E, k) : k \in { j \in 2..(2 * n) : j % 2 = 0 } }

SaneFor(E, n) ==
  /\ \A kind \in {"left", "right", "double"} : PathLfp(kind, E) = Closure(E, n)
  /\ \A kind \in {"mright", "mleft"} : MutLfp(kind, E) = << EvenWalks(E, n), OddWalks(E, n) >>

(* answers of a call pattern: m = <<"v"|node, "v"|node>> *)
Sel(P, x, y) == { p \in P : (x = "v" \/ p[1] = x) /\ (y = "v" \/ p[2] = y) }

Acyclic(E) == \A p \in Closure(E, Cardinality({q[1] : q \in E} \cup {q[2] : q \in E}) + 1) : p[1] # p[2]
==============================================================================
