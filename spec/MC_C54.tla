------------------------------- MODULE MC_C54 -------------------------------
(* C54 model: enumerates library(reif) queries (conditions over the terms {a,b,X,Y,f(X)}, *)
(* lists of length <= 3 over them, every instantiation pattern given by equations posted  *)
(* before the goal), checks that the positive and negative readings of every condition    *)
(* are complementary, and prints one JSON vector per query with its set of ground         *)
(* solutions over the universe.                                                           *)
EXTENDS Reif, Json

CONSTANT Tier   \* "quick" | "thorough"

UQuick    == <<A, B, F1(A)>>
UThorough == <<A, B, F1(A), F1(B)>>

T5 == {A, B, VX, VY, F1(VX)}
T3 == {A, VX, VY}

Atomic == {CEq(l, r) : l, r \in T5} \cup {CDif(l, r) : l, r \in T5}
AtomSmall == {CEq(VX, A), CEq(VX, VY), CEq(VY, B), CEq(VY, F1(VX)), CEq(A, A),
              CDif(VX, VY), CDif(VY, A), CDif(VX, B)}
Pairs(CS) == {CAnd(c1, c2) : c1, c2 \in CS} \cup {COr(c1, c2) : c1, c2 \in CS}
Depth2 == {COr(CAnd(c1, c2), c3) : c1, c2, c3 \in AtomSmall} \cup {CAnd(COr(c1, c2), c3) : c1, c2, c3 \in AtomSmall}
          \cup {COr(c1, CAnd(c2, c3)) : c1, c2, c3 \in AtomSmall} \cup {CAnd(c1, COr(c2, c3)) : c1, c2, c3 \in AtomSmall}
Compound == IF Tier = "quick" THEN Pairs(AtomSmall) ELSE Pairs(Atomic) \cup Depth2

ListsOver(TS, lo, hi) == UNION {[1..n -> TS] : n \in lo..hi}
Lists == IF Tier = "quick" THEN ListsOver(T5, 0, 2) \cup ListsOver(T3, 3, 3) ELSE ListsOver(T5, 0, 3)
ListsShort == ListsOver(T5, 0, 2)

(* instantiation patterns of the input variables: equations posted before the goal *)
PreInQuick == { <<>>, <<<<VX, A>>>>, <<<<VX, VY>>>> }
PreInMore  == { <<<<VY, B>>>>, <<<<VX, A>>, <<VY, A>>>>, <<<<VY, F1(A)>>>>, <<<<VX, F1(VY)>>>>,
                <<<<VX, B>>, <<VY, F1(VX)>>>> }
PreIn == IF Tier = "quick" THEN PreInQuick ELSE PreInQuick \cup PreInMore
PreInFew == { <<>>, <<<<VX, VY>>>> } \cup (IF Tier = "quick" THEN {} ELSE { <<<<VX, A>>>> })

(* instantiation patterns of the output arguments *)
ROut  == IF Tier = "quick" THEN { <<>>, <<<<VR, El>>>> } ELSE { <<>>, <<<<VR, El>>>>, <<<<VR, Th>>>> }
TOut  == { <<>>, <<<<VT, True>>>>, <<<<VT, False>>>> }
FsOut == IF Tier = "quick" THEN { <<>>, <<<<VFs, MkList(<<A>>)>>>> }
         ELSE { <<>>, <<<<VFs, MkList(<<A>>)>>>>, <<<<VFs, Nil>>>>, <<<<VFs, MkList(<<VX>>)>>>> }
PartOut == IF Tier = "quick" THEN { <<>> } ELSE { <<>>, <<<<VTs, MkList(<<A>>)>>>>, <<<<VFs, Nil>>>> }

Kinds == {"ifa", "ifc", "ifm", "cond", "memd", "tfilter", "tpartition", "tmember"}
PreInOf(kind) ==
  CASE kind \in {"ifa", "memd", "tmember"} -> PreIn
    [] kind \in {"ifc", "cond", "tfilter", "tpartition"} -> PreInFew \cup (IF Tier = "quick" THEN {<<<<VX, A>>>>} ELSE {})
    [] OTHER -> PreInFew

QS(kind, pin) ==
  CASE kind = "ifa"  -> {QIf(c, pin \o po) : c \in Atomic, po \in ROut}
    [] kind = "ifc"  -> {QIf(c, pin) : c \in Compound}
    [] kind = "ifm"  -> {QIf(CMem(e, xs), pin) : e \in T5, xs \in ListsShort}
    [] kind = "cond" -> {QCond(c, pin \o po) : c \in Atomic \cup Compound, po \in TOut}
    [] kind = "memd" -> {QCond(CMem(e, xs), pin \o po) : e \in T5, xs \in Lists, po \in TOut}
    [] kind = "tfilter"    -> {QList("tfilter", p, e, xs, pin \o po) : p \in {"eq", "dif"}, e \in T5, xs \in Lists, po \in FsOut}
    [] kind = "tpartition" -> {QList("tpartition", p, e, xs, pin \o po) : p \in {"eq", "dif"}, e \in T5, xs \in Lists, po \in PartOut}
    [] kind = "tmember"    -> {QList("tmember", p, e, xs, pin) : p \in {"eq", "dif"}, e \in T5, xs \in Lists}

VARIABLES phase, kind, pin, q
vars == <<phase, kind, pin, q>>

(* one cheap initial state per (kind, input pattern); its successors are the queries *)
Init ==
  /\ phase = "pick" /\ kind \in Kinds /\ pin \in PreInOf(kind) /\ q = QIf(NoC, <<>>)
Next ==
  /\ phase = "pick" /\ phase' = "case" /\ UNCHANGED <<kind, pin>>
  /\ q' \in QS(kind, pin) /\ ~NeedsOccursCheck(q')

(* ---- what TLC decides about the specification itself ---- *)
ReifTotal == phase = "case" => Complementary(q) /\ Functional(q)

RECURSIVE Shape(_)
Shape(c) == IF c.cs = <<>> THEN c.k ELSE c.k \o "(" \o Shape(c.cs[1]) \o "," \o Shape(c.cs[2]) \o ")"
QShape(qq) == IF qq.k \in {"if", "cond"} THEN Shape(qq.c) \o (IF qq.c.k = "memd" THEN ToString(Len(qq.c.ts) - 1) ELSE "")
              ELSE qq.p \o ToString(Len(qq.xs))

Emit ==
  phase = "case" =>
  PrintT(ToJson([kind  |-> kind, k |-> q.k, shape |-> QShape(q), u |-> Useq,
                 goal  |-> GoalTerm(q), pre |-> PreTerms(q),
                 ivars |-> InVars(q), vars |-> VarSeq(q),
                 sem   |-> Sem(q)]))
=============================================================================
