------------------------------- MODULE Loader -------------------------------
(* C35, layer A: what (re)loading a source text means.                                         *)
(*                                                                                             *)
(* The loader state L records, per predicate, the clauses in database order, each tagged with   *)
(* the *owner* that contributed it, the declarations made so far, the operators per owner and   *)
(* what has ever been read (texts, source names: the atom table and the code area only grow).   *)
(*                                                                                             *)
(*   LoadText(L, src, kind, code):  retract what the owner of src owned, then add the content   *)
(*   of the text.                                                                               *)
(*                                                                                             *)
(* Source identity (src/machine/compile.rs `listing_src_file_name`, src/loader.pl comment at    *)
(* file_load/3: "'$add_in_situ_filename_module' removes user level predicates, local predicate  *)
(* clauses, etc. from a previous load of the file at Path"): a source has an identity of its    *)
(* own only if its name is the path of an existing file (kind "file"); every other source name  *)
(* (kind "str": a string consulted into `user`) is the one anonymous owner "user", for which    *)
(* nothing is recorded file-wise, i.e. loading retracts nothing beforehand.                     *)
(* Consult semantics for the predicates a text defines: a predicate that is not multifile is    *)
(* redefined as a whole by the text that defines it; of a multifile predicate only the owner's  *)
(* own clauses are replaced (appended after the clauses of the other owners).                   *)
(* A procedure *exists* (calling it fails rather than raising existence_error) iff it has a      *)
(* clause or was declared dynamic (ISO 7.5), multifile or discontiguous; declarations persist.   *)
(* Outside the model (MC_C35 does not generate it): a predicate of the anonymous owner that is   *)
(* declared discontiguous by one text and defined without the declaration by another -- the      *)
(* loader then extends the predicate instead of redefining it, which no document prescribes.     *)
(*                                                                                             *)
(* The property (C35) at this level: a load that re-establishes the state it found (same text   *)
(* by the same source again) is the identity on L -- hence on every answer, computed here by    *)
(* the abstract machine Prolog.tla on the clauses of L -- and on every footprint counter.       *)
(* The concrete counters (heap cells, trail, ...) are not functions of L that a specification   *)
(* could state; Trace_C35 infers their values from the observation before the reload.            *)
EXTENDS Prolog

(* every atom of the test programs carries the prefix zq35_ (the footprint accessor counts the atoms with it);    *)
(* the names are literals: TLC would re-build concatenated strings at every reference                              *)
Other(f) == IF f = "x" THEN "y" ELSE "x"
PN(f)    == IF f = "x" THEN "zq35_p_x" ELSE "zq35_p_y"          \* p/1 of family f
QN(f)    == IF f = "x" THEN "zq35_q_x" ELSE "zq35_q_y"          \* q/2
DN(f)    == IF f = "x" THEN "zq35_dyn_x" ELSE "zq35_dyn_y"      \* dynamic d/1
MN       == "zq35_multi"                                        \* the multifile predicate m/1 shared by all sources
ON(f)    == IF f = "x" THEN "zq35_op_x" ELSE "zq35_op_y"
FN(f)    == IF f = "x" THEN "zq35_flt_x" ELSE "zq35_flt_y"
BN(f)    == IF f = "x" THEN "zq35_big_x" ELSE "zq35_big_y"
SN(f)    == IF f = "x" THEN "zq35_str_x" ELSE "zq35_str_y"
LN(f)    == IF f = "x" THEN "zq35_long_x" ELSE "zq35_long_y"
LongAtom(f) == IF f = "x" THEN "zq35_a_long_atom_value_x" ELSE "zq35_a_long_atom_value_y"

(* constants the term layer treats as opaque atomic values (tags understood by lib/terms.py) *)
Flt(hex) == [t |-> "f", n |-> hex, i |-> 0, a |-> <<>>]
Big(dec) == [t |-> "big", n |-> dec, i |-> 0, a |-> <<>>]
Str(s)   == [t |-> "s", n |-> s, i |-> 0, a |-> <<>>]

Cl(h, b) == [h |-> h, b |-> b]
Fact(h)  == Cl(h, True)
Dir(d, n, ar) == [d |-> d, n |-> n, ar |-> ar]

LX == V("X")  LY == V("Y")
la == A("a")  lb == A("b")  lc == A("c")  lz == A("z")

(* the clause grammar: definitions of p_f/1 and q_f/2 (facts, rules, cut, a call into another source's predicate). *)
(* Calls go q -> p, family x -> family y -> the multifile facts, never back: every program terminates.            *)
PQ(f, cs) ==
  LET p(t) == C1(PN(f), t)
      q(s, t) == C2(QN(f), s, t)
      po(t) == IF f = "x" THEN C1(PN("y"), t) ELSE C1(MN, t)
  IN CASE cs = 0 -> [p |-> <<>>, q |-> <<>>]
       [] cs = 1 -> [p |-> <<Fact(p(la))>>, q |-> <<>>]
       [] cs = 2 -> [p |-> <<Fact(p(la)), Fact(p(lb))>>, q |-> <<>>]
       [] cs = 3 -> [p |-> <<Fact(p(lb)), Fact(p(lc))>>, q |-> <<Cl(q(LX, LY), Conj(p(LX), p(LY)))>>]
       [] cs = 4 -> [p |-> <<Fact(p(la)), Fact(p(lc))>>, q |-> <<Fact(q(lb, I(1))), Cl(q(LX, I(2)), p(LX)), Fact(q(V("_"), I(3)))>>]
       [] cs = 5 -> [p |-> <<Cl(p(LX), po(LX)), Fact(p(lz))>>, q |-> <<>>]
       [] cs = 6 -> [p |-> <<>>, q |-> <<Cl(q(LX, LY), Conj(p(LX), Conj(Cut, Eq(LY, I(1))))), Fact(q(lz, I(2)))>>]

RECURSIVE Interleave(_, _)
Interleave(s, u) == IF s = <<>> THEN u ELSE IF u = <<>> THEN s ELSE <<s[1], u[1]>> \o Interleave(Tail(s), Tail(u))

Flags == {"dyn", "disc", "multi", "op", "init", "float", "big", "str", "long"}
On(fl, x, s) == IF x \in fl THEN s ELSE <<>>

(* the text (directives, then clauses in text order) denoted by a code [fam, cs, fl] *)
TextOf(f, cs, fl) ==
  LET pq == PQ(f, cs)
      core == IF "disc" \in fl THEN Interleave(pq.p, pq.q) ELSE pq.p \o pq.q
  IN [dirs |-> On(fl, "dyn", <<Dir("dynamic", DN(f), 1)>>)
               \o On(fl, "disc", <<Dir("discontiguous", PN(f), 1), Dir("discontiguous", QN(f), 2)>>)
               \o On(fl, "multi", <<Dir("multifile", MN, 1)>>)
               \o On(fl, "op", <<Dir("op", "===>", 700)>>)
               \o On(fl, "init", <<Dir("initialization", "true", 0)>>)
               \o On(fl, "xdyn", <<Dir("dynamic", DN(Other(f)), 1)>>),     \* declares the OTHER family's d/1 dynamic, defines nothing
      cl   |-> On(fl, "multi", <<Fact(C1(MN, A(f))), Fact(C1(MN, I(IF f = "x" THEN 1 ELSE 2)))>>)
               \o On(fl, "dyn", <<Fact(C1(DN(f), I(1))), Fact(C1(DN(f), I(2)))>>)
               (* clauses of d/1 WITHOUT the declaration (a program split into a declarations file and a facts file) *)
               \o On(fl, "dcl", <<Fact(C1(DN(f), I(1))), Fact(C1(DN(f), I(2))), Cl(C1(DN(f), I(3)), True)>>)
               \o On(fl, "dcl2", <<Fact(C1(DN(f), I(4)))>>)
               \o core
               \o On(fl, "op", <<Fact(C1(ON(f), C2("===>", la, lb)))>>)
               \o On(fl, "float", <<Fact(C1(FN(f), Flt("3FF4000000000000"))), Fact(C1(FN(f), Flt("42174876E8000000")))>>)   \* 1.25, 2.5e10
               \o On(fl, "big", <<Fact(C1(BN(f), Big("123456789012345678901234567890")))>>)
               \o On(fl, "str", <<Fact(C1(SN(f), Str("hello world string")))>>)
               \o On(fl, "long", <<Fact(C1(LN(f), A(LongAtom(f))))>>)]
Text(code) == TextOf(code.fam, code.cs, code.fl)

(* every predicate a text can define, in a fixed order *)
KeySeq == << <<PN("x"), 1>>, <<QN("x"), 2>>, <<PN("y"), 1>>, <<QN("y"), 2>>, <<MN, 1>>,
             <<DN("x"), 1>>, <<DN("y"), 1>>, <<ON("x"), 1>>, <<ON("y"), 1>>, <<FN("x"), 1>>, <<FN("y"), 1>>,
             <<BN("x"), 1>>, <<BN("y"), 1>>, <<SN("x"), 1>>, <<SN("y"), 1>>, <<LN("x"), 1>>, <<LN("y"), 1>> >>
AllKeys == {KeySeq[j] : j \in DOMAIN KeySeq}

DeclOf(text, d) == { <<text.dirs[j].n, text.dirs[j].ar>> : j \in {i \in DOMAIN text.dirs : text.dirs[i].d = d} }
(* a text (re)defines the predicates it has clauses for and those it declares: the declaration is part of the definition, *)
(* so a text that only declares a predicate dynamic/discontiguous/multifile leaves its owner without clauses for it       *)
DefKeys(text)   == { Key(text.cl[j].h) : j \in DOMAIN text.cl }
                   \cup DeclOf(text, "dynamic") \cup DeclOf(text, "discontiguous") \cup DeclOf(text, "multifile")
Tagged(text, K, o) == LET s == SelectSeq(text.cl, LAMBDA c : Key(c.h) = K)
                      IN [j \in 1..Len(s) |-> [own |-> o, h |-> s[j].h, b |-> s[j].b]]

Owner(src, kind) == IF kind = "file" THEN src ELSE "user"

L0 == [cl |-> [K \in AllKeys |-> <<>>], dyn |-> {}, multi |-> {}, disc |-> {}, ops |-> {}, seen |-> {}, srcs |-> {}]

LoadText(L, src, kind, code) ==
  LET o      == Owner(src, kind)
      text   == Text(code)
      multi1 == L.multi \cup DeclOf(text, "multifile")
      defk   == DefKeys(text)
      (* 1. retract what the source owned (only a source with a file identity has a record of it) *)
      cl0    == IF kind = "file" THEN [K \in AllKeys |-> SelectSeq(L.cl[K], LAMBDA c : c.own # o)] ELSE L.cl
      ops0   == IF kind = "file" THEN {x \in L.ops : x[1] # o} ELSE L.ops
      (* 2. add the content *)
      cl1    == [K \in AllKeys |->
                   IF K \notin defk THEN cl0[K]
                   ELSE IF K \in multi1 THEN SelectSeq(cl0[K], LAMBDA c : c.own # o) \o Tagged(text, K, o)
                   ELSE Tagged(text, K, o)]
  IN [cl    |-> cl1,
      dyn   |-> L.dyn \cup DeclOf(text, "dynamic"),
      multi |-> multi1,
      disc  |-> L.disc \cup DeclOf(text, "discontiguous"),
      ops   |-> ops0 \cup { <<o, text.dirs[j].n>> : j \in {i \in DOMAIN text.dirs : text.dirs[i].d = "op"} },
      seen  |-> L.seen \cup {code},
      srcs  |-> L.srcs \cup {<<src, kind>>}]

(* ---- answers: the abstract machine on the clauses of L ---- *)
RECURSIVE ProgFrom(_, _)
ProgFrom(L, j) == IF j > Len(KeySeq) THEN <<>>
                  ELSE [i \in 1..Len(L.cl[KeySeq[j]]) |-> Cl(L.cl[KeySeq[j]][i].h, L.cl[KeySeq[j]][i].b)] \o ProgFrom(L, j + 1)
Prog(L) == ProgFrom(L, 1)
(* the clauses a call of K can reach: the p/q predicates call each other, every other predicate consists of facts *)
PQKeys == { <<PN("x"), 1>>, <<QN("x"), 2>>, <<PN("y"), 1>>, <<QN("y"), 2>>, <<MN, 1>> }
RECURSIVE ProgFor(_, _, _)
ProgFor(L, ks, j) == IF j > Len(KeySeq) THEN <<>>
                     ELSE (IF KeySeq[j] \in ks THEN [i \in 1..Len(L.cl[KeySeq[j]]) |-> Cl(L.cl[KeySeq[j]][i].h, L.cl[KeySeq[j]][i].b)] ELSE <<>>)
                          \o ProgFor(L, ks, j + 1)
Reach(K) == IF K \in PQKeys THEN PQKeys ELSE {K}
Exists(L) == L.dyn \cup L.multi \cup L.disc

(* probe of predicate K: catch(findall(Template, Goal, L), error(E, _), true); the outcome is the value of L or of E *)
Probe(L, K) ==
  LET args == IF K[2] = 1 THEN <<LX>> ELSE <<LX, LY>>
      tmpl == IF K[2] = 1 THEN LX ELSE C2("-", LX, LY)
      q    == C3("catch", C3("findall", tmpl, C(K[1], args), V("L")), C2("error", V("E"), V("_W")), True)
      m    == Run(Load(ProgFor(L, Reach(K), 1), Exists(L), q))
      ok   == m.status = "done" /\ Len(m.ans) = 1
  IN [key |-> K, kind |-> "call", status |-> m.status, n |-> Len(m.ans),
      l |-> IF ok THEN m.ans[1][K[2] + 1] ELSE None,
      e |-> IF ok THEN m.ans[1][K[2] + 2] ELSE None]

(* probe of a dynamic predicate K/1 through clause/2 (the clause store may disagree with what a call sees):            *)
(* catch(findall(X-B, clause(K(X), B), L), error(E, _), true)                                                          *)
ProbeCl(L, K) ==
  LET q  == C3("catch", C3("findall", C2("-", LX, V("B")), C2("clause", C(K[1], <<LX>>), V("B")), V("L")), C2("error", V("E"), V("_W")), True)
      m  == Run(Load(ProgFor(L, Reach(K), 1), Exists(L), q))
      ok == m.status = "done" /\ Len(m.ans) = 1
  IN [key |-> K, kind |-> "clause", status |-> m.status, n |-> Len(m.ans),
      l |-> IF ok THEN m.ans[1][3] ELSE None,
      e |-> IF ok THEN m.ans[1][4] ELSE None]

(* ---- abstract footprint: the quantities of L whose size the counters of the machine reflect ---- *)
RECURSIVE AtomsIn(_)
AtomsIn(x) == IF x.t = "a" THEN {x.n}
              ELSE IF x.t = "c" THEN {x.n} \cup UNION {AtomsIn(x.a[j]) : j \in 1..Len(x.a)}
              ELSE {}
AtomsOfText(text) == UNION {AtomsIn(text.cl[j].h) \cup AtomsIn(text.cl[j].b) : j \in DOMAIN text.cl}
                     \cup {text.dirs[j].n : j \in DOMAIN text.dirs}
RECURSIVE SumLen(_, _)
SumLen(L, j) == IF j > Len(KeySeq) THEN 0 ELSE Len(L.cl[KeySeq[j]]) + SumLen(L, j + 1)
FootprintA(L) == [atoms   |-> Cardinality(UNION {AtomsOfText(Text(c)) : c \in L.seen} \cup {s[1] : s \in L.srcs}),
                  clauses |-> SumLen(L, 1),
                  ops     |-> Cardinality(L.ops),
                  modules |-> Cardinality({s \in L.srcs : s[2] = "file"}),
                  texts   |-> Cardinality(L.seen)]
=============================================================================
