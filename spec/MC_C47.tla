------------------------------- MODULE MC_C47 -------------------------------
(* C47.                                                                                              *)
(* Mode "lazy": the lazy-list machine of LazyList.tla with chunk size K in {2, 3}: for every content  *)
(*   (length <= MaxLen(K)) over {a, e-acute, newline} and every grammar of the catalogue, TLC runs the *)
(*   recogniser step by step (every wake-up, every backtrack is a state) and checks at every step     *)
(*   that materialised prefix ++ rest of the stream = content, and at the end that the answers are     *)
(*   the answers on the complete list (closed forms, also in their run-length encoded version).        *)
(* Mode "conf": files around the real chunk size (Chunk = 4096 characters, src/lib/pio.pl              *)
(*   chars_to_read/1): size Chunk * j + d, filler "a", a multi-byte character or a newline placed at   *)
(*   Chunk * jb + r (straddling the buffer boundary in characters and, for multi-byte characters, in   *)
(*   bytes), optionally a second special; one vector per (structure, grammar) with the answers in       *)
(*   closed form (RleAnswers).                                                                         *)
EXTENDS LazyList, Json, TLC

CONSTANTS Tier, Mode
Quick == Tier = "quick"
Chunk == 4096

RECURSIVE SeqsUpTo(_, _)
SeqsUpTo(S, n) ==
  IF n = 0 THEN {<<>>}
  ELSE LET Rr == SeqsUpTo(S, n - 1) IN Rr \cup {<<x>> \o r : x \in S, r \in {q \in Rr : Len(q) = n - 1}}

Ks == IF Quick THEN {2} ELSE {2, 3}
MaxLen(K) == IF Quick THEN 2 * K + 1 ELSE (IF K = 2 THEN 3 * K + 1 ELSE 2 * K + 1)
Alphabet == {97, 233, 10}
G(name, k) == [name |-> name, k |-> k]
LazyGrammars(K) == {G("all", 0), G("line", 0), G("ef", 0), G("needle", 0)} \cup {G("la", k) : k \in 1..(K + 1)}
ConfGrammars == {G("all", 0), G("line", 0), G("ef", 0), G("needle", 0), G("la", 1), G("la", Chunk), G("la", Chunk + 1)}
                \cup (IF Quick THEN {} ELSE {G("la", Chunk - 1), G("la", 2 * Chunk + 1)})

RECURSIVE ToRle(_)
ToRle(cs) ==
  IF cs = <<>> THEN <<>>
  ELSE LET rest == ToRle(Tail(cs)) IN
       IF rest # <<>> /\ rest[1].c = Head(cs) THEN <<[c |-> Head(cs), len |-> rest[1].len + 1]>> \o Tail(rest)
       ELSE <<[c |-> Head(cs), len |-> 1]>> \o rest

VARIABLES phase, K, g, cs, m, lz, runs
vars == <<phase, K, g, cs, m, lz, runs>>

Init ==
  /\ phase = "pick" /\ cs = <<>> /\ lz = LzInit /\ runs = <<>>
  /\ IF Mode = "lazy"
     THEN \E k \in Ks : K = k /\ g \in LazyGrammars(k) /\ m = MInit(g)
     ELSE K = Chunk /\ g \in ConfGrammars /\ m = MInit(G("all", 0))

(* ---- lazy mode ---- *)
PickContent ==
  /\ Mode = "lazy" /\ phase = "pick"
  /\ cs' \in SeqsUpTo(Alphabet, MaxLen(K))
  /\ phase' = "run" /\ UNCHANGED <<K, g, m, lz, runs>>
Run ==
  /\ Mode = "lazy" /\ phase = "run" /\ ~m.done
  /\ LET r == Step(cs, K, g, m, lz) IN m' = r.m /\ lz' = r.lz
  /\ UNCHANGED <<phase, K, g, cs, runs>>

(* ---- conf mode ---- *)
Js  == IF Quick THEN 1..2 ELSE 1..3
Ds  == IF Quick THEN {-1, 0, 1} ELSE {-2, -1, 0, 1, 2}
Rs  == IF Quick THEN {0, 1} ELSE {-1, 0, 1, 2}
Specials == IF Quick THEN {233, 8364, 10} ELSE {233, 8364, 128512, 10}
Second == {"none", "nl_at_end", "twice"}

(* runs of a content of n characters, filler "a", with the characters sp (a function from a set of   *)
(* positions to characters)                                                                            *)
RECURSIVE RunsFrom(_, _, _)
RunsFrom(pos, n, sp) ==                  \* the runs of positions pos..n
  IF pos > n THEN <<>>
  ELSE IF pos \in DOMAIN sp
       THEN LET rest == RunsFrom(pos + 1, n, sp) IN
            IF rest # <<>> /\ rest[1].c = sp[pos] THEN <<[c |-> sp[pos], len |-> rest[1].len + 1]>> \o Tail(rest)
            ELSE <<[c |-> sp[pos], len |-> 1]>> \o rest
       ELSE LET nexts == {q \in DOMAIN sp : q > pos}
                stop == IF nexts = {} THEN n + 1 ELSE CHOOSE q \in nexts : \A q2 \in nexts : q <= q2
                rest == RunsFrom(stop, n, sp)
            IN IF rest # <<>> /\ rest[1].c = 97 THEN <<[c |-> 97, len |-> rest[1].len + stop - pos]>> \o Tail(rest)
               ELSE <<[c |-> 97, len |-> stop - pos]>> \o rest

PickStructure ==
  /\ Mode = "conf" /\ phase = "pick"
  /\ \E j \in Js : \E d \in Ds : \E jb \in 1..j : \E r \in Rs : \E c \in Specials : \E s2 \in Second :
       LET n == Chunk * j + d
           p == Chunk * jb + r
           sp == IF s2 = "none" THEN (p :> c)
                 ELSE IF s2 = "nl_at_end" THEN (p :> c) @@ (n :> 10)
                 ELSE (p :> c) @@ ((p + 1) :> c)
       IN /\ p >= 1 /\ p <= n /\ (s2 = "nl_at_end" => p < n) /\ (s2 = "twice" => p + 1 <= n)
          /\ runs' = RunsFrom(1, n, sp)
  /\ phase' = "case" /\ UNCHANGED <<K, g, cs, m, lz>>

Next == PickContent \/ Run \/ PickStructure

(* ---- what TLC decides (lazy mode) ---- *)
StepInv == phase = "run" => LzInv(cs, lz)
AnswerInv ==
  (phase = "run" /\ m.done) =>
     /\ m.answers = Answers(g, cs)
     /\ RleAnswers(g, ToRle(cs)) = Answers(g, cs) /\ Canonical(ToRle(cs)) /\ Expand(ToRle(cs)) = cs
(* ---- vectors (conf mode) ---- *)
Emit ==
  (Mode = "conf" /\ phase = "case") =>
    /\ Canonical(runs)
    /\ PrintT(ToJson([g |-> g, runs |-> runs, n |-> TotalLen(runs), answers |-> RleAnswers(g, runs)]))
=============================================================================
