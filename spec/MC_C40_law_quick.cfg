CONSTANTS Tier = "quick" Part = "law" MaxSteps = 10 MaxAns = 10
INIT Init
NEXT Next
INVARIANT LawOk
