CONSTANTS
  NCases = 20000
  MaxC = 3
  Groups = 32
INIT Init
NEXT Next
INVARIANT Sane
INVARIANT Emit
