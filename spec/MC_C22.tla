------------------------------- MODULE MC_C22 -------------------------------
(* C22: atom and character builtins agree with their string semantics.                             *)
(* One initial state per (builtin, atom text) group; the successors of a group are its calls       *)
(* (argument patterns).  Every call is evaluated by AtomBuiltins and printed as a vector           *)
(* {b, x, args, req, opt, sols}; the driver replays it against the real builtins.                  *)
EXTENDS AtomBuiltins, Json, TLC

CONSTANT Tier   \* "quick" | "thorough"

Quick == Tier = "quick"

(* alphabet of DESIGN.md C22: a B e-acute U+1F600 0 space *)
Sigma == {97, 66, 233, 128512, 48, 32}
Sample3 == { <<97, 233, 128512>>, <<128512, 128512, 128512>>, <<233, 97, 233>>, <<32, 32, 32>>,
             <<48, 66, 97>>, <<97, 97, 97>>, <<66, 233, 66>>, <<128512, 97, 32>>, <<233, 233, 233>>,
             <<97, 66, 97>>, <<48, 48, 32>>, <<32, 128512, 233>> }
Long1 == <<97, 66, 233, 128512, 48, 32, 97, 66>>               \* 8 characters, 12 bytes
Long2 == <<233, 233, 128512, 233, 233, 128512, 233>>           \* 7 characters, 18 bytes, repeated sub-texts
NulAtoms == { <<0>>, <<97, 0, 66>> }                            \* NUL is a character (char_code(C, 0))
Atoms == (IF Quick THEN SeqsUpTo(Sigma, 2) \cup Sample3 ELSE SeqsUpTo(Sigma, 3)) \cup {Long1, Long2} \cup NulAtoms

IllX == <<97, 233>>          \* the atom on which the ill-typed cross products are built
Z    == 122                  \* z: not in the alphabet, so Wrong(x) never equals a correct value
Wrong(x) == Atom(x \o <<Z>>)
Foo   == Atom(<<102, 111, 111>>)
ListA == List(<<Atom(<<97>>)>>, "nil")
NonAtoms == {Num(7), Flt, Cmp, ListA}

Repl(s, j, v) == [s EXCEPT ![j] = v]

(* ------------------------------- atom_length ------------------------------- *)
LenArgs(n) == {Var, Num(n), Num(n + 1), Num(-1), Big(1), Big(-1), Foo, Flt, Cmp, Atom(<<49>>), ListA}
LengthCases(x) ==
  {<<Atom(x), l>> : l \in LenArgs(Len(x))}
  \cup (IF x = IllX THEN {<<a, l>> : a \in {Var} \cup NonAtoms, l \in LenArgs(2)} ELSE {})

(* --------------------------- atom_chars / atom_codes ----------------------- *)
BadElems(m, x) == IF m = "chars" THEN {Num(1), Atom(<<97, 98>>), Atom(<<>>), Flt, Cmp, ListA}
                  ELSE {Num(-1), Num(1114112), Num(55296), Atom(<<97>>), Flt, Cmp}
                       \cup (IF Len(x) <= 1 \/ x = IllX \/ ~Quick THEN {Big(1)} ELSE {})   \* 2^70 as a code
ListArgs(m, x) ==
  LET full == ListOf(m, x).xs
      n    == Len(x)
      z    == ElemOf(m, Z)
  IN {Var, List(full, "nil"), List(full \o <<z>>, "nil"), Foo, Num(7), Flt, Cmp}
     \cup {List(Prefix(full, k), "var") : k \in 1..n}
     \cup (IF n >= 1 THEN {List(Repl(full, n, z), "nil"), List(Prefix(full, n - 1), "nil"), List(full, "bad"),
                           List([j \in 1..n |-> Var], "nil"), List(<<z>>, "var")} ELSE {})
     \cup {List(Repl(full, j, Var), "nil") : j \in 1..n}
     \cup {List(Repl(full, j, e), "nil") : j \in (IF n = 0 THEN {} ELSE {1, n}), e \in BadElems(m, x)}
     \cup {List(full \o <<e>>, "nil") : e \in BadElems(m, x)}
     \cup {List(<<e>>, "var") : e \in BadElems(m, x)}
TextCases(m, x) ==
  {<<a, l>> : a \in {Atom(x), Var, Wrong(x)} \cup (IF x = IllX THEN NonAtoms ELSE {}), l \in ListArgs(m, x)}

(* --------------------------------- char_code ------------------------------- *)
CCChars == Sigma \cup {0, 1114111, 55295, 57344}
CCArg1 == {Var} \cup {Atom(<<c>>) : c \in CCChars} \cup {Atom(<<97, 98>>), Atom(<<>>)} \cup NonAtoms
CCArg2 == {Var} \cup {Num(c) : c \in CCChars}
          \cup {Num(-1), Num(1114112), Num(55296), Num(57343), Big(1), Big(-1), Foo, Atom(<<97>>), Flt, Cmp}
CharCodeCases == {<<c, n>> : c \in CCArg1, n \in CCArg2}

(* -------------------------------- atom_concat ------------------------------ *)
ConcatCases(x) ==
  LET n == Len(x)
      P == {Var, Atom(<<Z>>)} \cup {Atom(Prefix(x, k)) : k \in 0..n}
      S == {Var, Atom(<<Z>>)} \cup {Atom(Suffix(x, k)) : k \in 0..n}
      W == {Var, Atom(x), Wrong(x)}
      I1 == {Var, Atom(Prefix(x, 1))} \cup NonAtoms
      I2 == {Var, Atom(Suffix(x, 1))} \cup NonAtoms
      I3 == {Var, Atom(x)} \cup NonAtoms
  IN {<<p, s, w>> : p \in P, s \in S, w \in W}
     \cup (IF x = IllX THEN {<<p, s, w>> : p \in I1, s \in I2, w \in I3} ELSE {})

(* --------------------------------- sub_atom -------------------------------- *)
SubCases(x) ==
  LET n  == Len(x)
      A  == Atom(x)
      bl == BLPairs(n, 0, 0)
      sol(p) == <<Num(p[1]), Num(p[2]), Num(n - p[1] - p[2]), Atom(Sub(x, p[1], p[2]))>>
      sols == {sol(bl[j]) : j \in 1..Len(bl)}
      masked(s, m) == <<A>> \o [p \in 1..4 |-> IF p \in m THEN s[p] ELSE Var]
      pert(s, p) == <<A>> \o [q \in 1..4 |-> IF q = p THEN (IF p = 4 THEN Wrong(x) ELSE Num(n + 1)) ELSE s[q]]
      IA == {A, Var, Num(7), Cmp} \cup (IF Quick THEN {} ELSE {Flt, ListA})
      II == {Var, Num(0), Num(-1), Foo, Flt} \cup (IF Quick THEN {} ELSE {Num(1), Big(1), Big(-1), Cmp})
      IS == {Var, Atom(<<97>>), Num(7), Cmp} \cup (IF Quick THEN {} ELSE {Flt, ListA})
  IN {masked(s, m) : s \in sols, m \in SUBSET (1..4)}
     \cup {pert(s, p) : s \in sols, p \in 1..4}
     \cup {masked(<<Num(n + 1), Num(n + 1), Num(n + 1), Wrong(x)>>, {p}) : p \in 1..4}
     \cup (IF x = IllX THEN {<<a, b1, l1, a1, s1>> : a \in IA, b1 \in II, l1 \in II, a1 \in II, s1 \in IS} ELSE {})

(* ------------------------ char_type/2: calls that must raise an error ------------------- *)
Upper == Atom(<<117, 112, 112, 101, 114>>)                                   \* upper
Alphabetic == Atom(<<97, 108, 112, 104, 97, 98, 101, 116, 105, 99>>)         \* alphabetic
CharTypeErrCases ==
  {c \in {<<ch, ty>> : ch \in {Var, Num(7), Atom(<<97, 98>>), Atom(<<>>), Flt, Cmp, ListA}, ty \in {Var, Upper, Alphabetic}} :
     CharTypeErrors(c[1], c[2]).req # {}}

Cases(b, x) ==
  CASE b = "atom_length" -> LengthCases(x)
    [] b = "atom_chars"  -> TextCases("chars", x)
    [] b = "atom_codes"  -> TextCases("codes", x)
    [] b = "char_code"   -> CharCodeCases
    [] b = "atom_concat" -> ConcatCases(x)
    [] b = "sub_atom"    -> SubCases(x)
    [] b = "char_type_err" -> CharTypeErrCases

EnumCats == IF Quick THEN {"decimal_digit", "solo"} ELSE {FiniteCategories[j] : j \in 1..Len(FiniteCategories)}

VARIABLES phase, bn, tx, aux, args
vars == <<phase, bn, tx, aux, args>>

Init ==
  /\ phase = "pick" /\ args = <<>> /\ aux = ""
  /\ \/ bn \in {"atom_length", "atom_chars", "atom_codes", "atom_concat", "sub_atom"} /\ tx \in Atoms
     \/ bn \in {"char_code", "char_type_err"} /\ tx = <<>>
     \/ bn = "char_type" /\ tx \in {<<c>> : c \in CharCodes}
     \/ bn = "char_type_enum" /\ tx = <<>>

Next ==
  /\ phase = "pick" /\ phase' = "case" /\ UNCHANGED <<bn, tx>>
  /\ \/ bn = "char_type" /\ args' = <<>> /\ aux' = ""
     \/ bn = "char_type_enum" /\ args' = <<>> /\ aux' \in EnumCats
     \/ bn \notin {"char_type", "char_type_enum"} /\ aux' = "" /\ args' \in Cases(bn, tx)

(* ------------------------------------------------------------------------------------------- *)
(* what TLC decides about the specification itself                                             *)
(* ------------------------------------------------------------------------------------------- *)
Distinct(s) == \A i, j \in 1..Len(s) : i # j => s[i] # s[j]

SpecSane ==
  phase = "case" /\ bn \notin {"char_type", "char_type_enum"} =>
    LET r == Call(bn, args) IN
    /\ Distinct(r.sols)                                    \* every solution exactly once
    /\ bn = "sub_atom" =>
         /\ \A j \in 1..Len(r.sols) :
              LET s == r.sols[j]  t == s[1].cp IN
              /\ s[2].i + s[3].i + s[4].i = Len(t)
              /\ Prefix(t, s[2].i) \o s[5].cp \o Suffix(t, s[2].i + s[3].i) = t
              /\ Len(s[5].cp) = s[3].i
         /\ \A j \in 1..(Len(r.sols) - 1) :                \* Before ascending, then Length ascending
              LET s == r.sols[j]  u == r.sols[j + 1] IN
              s[2].i < u[2].i \/ (s[2].i = u[2].i /\ s[3].i < u[3].i)
    /\ bn = "atom_concat" =>
         /\ \A j \in 1..Len(r.sols) : r.sols[j][1].cp \o r.sols[j][2].cp = r.sols[j][3].cp
         /\ \A j \in 1..(Len(r.sols) - 1) : Len(r.sols[j][1].cp) < Len(r.sols[j + 1][1].cp)
    /\ bn \in {"atom_chars", "atom_codes"} =>
         \A j \in 1..Len(r.sols) :
           LET s == r.sols[j] IN
           /\ IsAtom(s[1]) /\ IsProperList(s[2]) /\ Len(s[2].xs) = Len(s[1].cp)
           /\ Utf8Decode(Utf8Seq(s[1].cp)) = s[1].cp         \* UTF-8 round trip of every produced text
           /\ ByteLen(s[1].cp) = Len(Utf8Seq(s[1].cp))

ASSUME TableSane ==        \* the character table is a function of the code and the case mappings are texts
  /\ Cardinality(CharCodes) = Len(CharTable)
  /\ \A c \in CharCodes : IsCharCode(c) /\ (\A u \in {CharUpper(c)[j] : j \in 1..Len(CharUpper(c))} : IsCharCode(u))
  /\ \A c \in CharCodes : ~(CharInfo(c).upper /\ CharInfo(c).lower)

Emit ==
  phase = "case" =>
    IF bn = "char_type" THEN
      PrintT(ToJson([b |-> bn, c |-> tx[1], cats |-> CharCats(tx[1]), allcats |-> Categories,
                     up |-> CharUpper(tx[1]), lo |-> CharLower(tx[1])]))
    ELSE IF bn = "char_type_enum" THEN
      PrintT(ToJson([b |-> bn, cat |-> aux, chars |-> SetToSortedSeq(FiniteCategory(aux))]))
    ELSE LET r == Call(bn, args) IN
      PrintT(ToJson([b |-> bn, x |-> tx, args |-> args, req |-> r.req, opt |-> r.opt, sols |-> r.sols]))
=============================================================================
