CONSTANT Tier = "quick"
CONSTANT Mode = "bfs"
INIT Init
NEXT Next
INVARIANT PeekInv
