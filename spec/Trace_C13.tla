------------------------------ MODULE Trace_C13 ------------------------------
(* C13 trace validation (impl -> spec).  The order of two distinct variables is unknown but    *)
(* fixed: the ranking of {X, Y, Z} is the unlogged variable.  The driver logs, per query        *)
(* (= one set of variable instances), {ev: "reset"} followed by {ev: "cmp", s, t, o}: the real   *)
(* compare/3 answered o for the denotations s, t.  The trace is accepted iff for every query     *)
(* there is ONE ranking under which StdOrder!Compare reproduces every logged answer.             *)
EXTENDS StdOrder, Json, IOUtils

Rec == ndJsonDeserialize(IOEnv.TRACE)

X == V("X")
Y == V("Y")
Z == V("Z")
PermSeq == << <<1, 2, 3>>, <<1, 3, 2>>, <<2, 1, 3>>, <<2, 3, 1>>, <<3, 1, 2>>, <<3, 2, 1>> >>
VR(p) == (X :> PermSeq[p][1]) @@ (Y :> PermSeq[p][2]) @@ (Z :> PermSeq[p][3])

VARIABLES l, p
Init == l = 1 /\ p = 0
Reset == /\ l <= Len(Rec) /\ Rec[l].ev = "reset"
         /\ p' \in 1..Len(PermSeq) /\ l' = l + 1
Cmp == /\ l <= Len(Rec) /\ Rec[l].ev = "cmp" /\ p # 0
       /\ Sym(Compare(Rec[l].s, Rec[l].t, VR(p))) = Rec[l].o
       /\ l' = l + 1 /\ p' = p
Next == Reset \/ Cmp
Accepted == TLCGet("stats").diameter - 1 = Len(Rec)
=============================================================================
