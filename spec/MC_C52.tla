------------------------------- MODULE MC_C52 -------------------------------
(* C52: scenario generator (spec -> impl direction for the inputs) and sanity of Random.tla.   *)
(* A scenario is (seed, call sequence of length =< 6); the driver executes                       *)
(*    [pre-call unseeded] ; set_random(seed(S)) ; calls ; set_random(seed(S)) ; calls            *)
(*    [; fresh machine ; set_random(seed(S)) ; calls]                                            *)
(* records every observation and has the trace validated by Trace_C52.                           *)
(* The first two calls range over all pairs of the alphabet (and all single calls); the tail of  *)
(* four further calls is a fixed arithmetic function of the pair, so that sequences of length 6  *)
(* mix the call kinds without enumerating N^6 sequences.                                         *)
EXTENDS Random, Json

CONSTANT Tier   \* "quick" | "thorough"
Quick == Tier = "quick"

(* powers of two as literal limb records: TLC re-evaluates definitions on every reference, and *)
(* the alphabet below is referenced many times per state; the ASSUME ties them to BigInt!Pow2  *)
L31  == [neg |-> FALSE, m |-> <<3648, 4748, 21>>]
L55  == [neg |-> FALSE, m |-> <<3968, 1896, 7970, 6028, 3>>]
L63  == [neg |-> FALSE, m |-> <<5808, 5477, 368, 3372, 922>>]
L64  == [neg |-> FALSE, m |-> <<1616, 955, 737, 6744, 1844>>]
L128 == [neg |-> FALSE, m |-> <<1456, 6821, 4317, 4607, 6337, 4634, 938, 6692, 2823, 340>>]
ASSUME L31 = Pow2(31) /\ L55 = Pow2(55) /\ L63 = Pow2(63) /\ L64 = Pow2(64) /\ L128 = Pow2(128)
P(n) == CASE n = 31 -> L31 [] n = 55 -> L55 [] n = 63 -> L63 [] n = 64 -> L64 [] n = 128 -> L128
Plus(b, d) == Add(b, FromInt(d))
I(k) == IntT(FromInt(k))
B(b) == IntT(b)
A    == AtomT("a")
Half == FloatT("3fe0000000000000")    \* 0.5
One0 == FloatT("3ff0000000000000")    \* 1.0
X    == VarT("X")
U    == VarT("U")

RI(lo, hi) == [op |-> "random_integer", args |-> <<lo, hi>>]
SR(s)      == [op |-> "set_random", args |-> <<s>>]
Seed(t)    == Cpd("seed", <<t>>)

CallsQuick == <<
  [op |-> "random", args |-> <<>>],
  [op |-> "maybe",  args |-> <<>>],
  RI(I(0), I(10)), RI(I(-5), I(5)), RI(I(0), I(1)), RI(I(-3), I(-1)),
  RI(B(Plus(P(64), 1)), B(Plus(P(64), 2))),                    \* width 1 beyond 2^64
  RI(B(Plus(Neg(P(64)), -1)), B(Plus(P(64), 1))),              \* wider than 2^64, straddling 0
  RI(B(Plus(Neg(P(64)), -5)), B(Neg(P(64)))),                  \* negative bignum range
  RI(B(Plus(P(55), -1)), B(Plus(P(55), 1))),                   \* across the small-integer boundary
  RI(I(0), B(P(64))), RI(B(Neg(P(63))), B(P(63))),
  RI(I(0), I(0)), RI(I(5), I(0)), RI(B(P(64)), B(P(64))), RI(B(Plus(P(64), 1)), I(-1)),      \* empty ranges
  RI(U, I(1)), RI(I(0), U), RI(A, I(1)), RI(I(0), A), RI(Half, I(1)), RI(A, U),               \* errors
  SR(U), SR(Seed(U)), SR(Seed(A)), SR(Seed(One0)),
  SR(Seed(I(7))) >>                                                                            \* re-seeding in mid-sequence

CallsMore == <<
  RI(I(0), B(P(128))), RI(I(1), I(2)), RI(I(-1), I(0)), RI(B(Plus(P(31), -1)), B(Plus(P(31), 1))),
  RI(I(0), I(3)), RI(B(Neg(P(64))), I(0)), RI(I(0), B(Plus(P(63), 1))), RI(I(2), I(1)),
  RI(I(0), One0), RI(Seed(I(1)), I(3)), SR(Seed(Half)), SR(Seed(I(0))) >>

C == IF Quick THEN CallsQuick ELSE CallsQuick \o CallsMore

FullSeeds   == IF Quick THEN {FromInt(0), FromInt(1)} ELSE {FromInt(0), FromInt(1), P(63), Plus(P(64), -1)}
SparseSeeds == {P(63), Plus(P(64), -1), P(64), Plus(P(64), 1), FromInt(-1), Neg(P(63))} \ FullSeeds
Variants    == IF Quick THEN {0} ELSE {0, 1}

NQ == 27     \* = Len(CallsQuick)
NM == 12     \* = Len(CallsMore)
N  == IF Quick THEN NQ ELSE NQ + NM
ASSUME Len(CallsQuick) = NQ /\ Len(CallsMore) = NM

(* a scenario is kept in the state as indices into the alphabet (the alphabet holds bignums and *)
(* is evaluated once per invariant evaluation, not once per reference)                          *)
TailIdx(i, j, v) == [t \in 1..4 |-> ((i * 7 + j * 3 + t * (5 + v) + v) % N) + 1]

(* lengths 1, 2, 5 and 6 *)
Idx(i, j, v) ==
  IF j = 0 THEN (IF i % 2 = 0 THEN <<i>> ELSE <<i>> \o TailIdx(i, 0, v))
  ELSE (IF (i + j) % 2 = 0 THEN <<i, j>> ELSE <<i, j>> \o TailIdx(i, j, v))

VARIABLES phase, i, j, sd, v
vars == <<phase, i, j, sd, v>>

Init == phase = "pick" /\ i \in 1..N /\ j = 0 /\ sd = BZero /\ v = 0
Next ==
  /\ phase = "pick" /\ phase' = "case" /\ UNCHANGED i
  /\ \/ j' \in 0..N /\ sd' \in FullSeeds /\ v' \in Variants
     \/ j' = 0 /\ sd' \in SparseSeeds /\ v' \in Variants

CallsOf(cs, idx) == [k \in 1..Len(idx) |-> cs[idx[k]]]

RECURSIVE Out(_)
Out(x) ==
  IF x.t = "i" THEN [t |-> "big", n |-> ToDec(x.b), i |-> 0, a |-> <<>>]
  ELSE IF x.t = "c" THEN [t |-> "c", n |-> x.n, i |-> 0, a |-> [k \in 1..Len(x.a) |-> Out(x.a[k])]]
  ELSE [t |-> x.t, n |-> x.n, i |-> 0, a |-> <<>>]
OutCall(c) == [op |-> c.op, args |-> IF c.args = <<>> THEN <<>> ELSE [k \in 1..Len(c.args) |-> Out(c.args[k])],
               cls |-> Class(c.op, c.args).k]

Emit ==
  phase = "case" =>
  LET Calls == CallsOf(C, Idx(i, j, v)) IN
  PrintT(ToJson([seed |-> ToDec(sd), calls |-> [k \in 1..Len(Calls) |-> OutCall(Calls[k])],
                 third |-> ((i + j) % 6 = 0), pre |-> ((i + j) % 4 = 1)]))

(* sanity of Random.tla on an abstract generator: a result built from the documented class is   *)
(* accepted, and a second, different observation of the same key is refused                      *)
Witness(c) ==
  LET k == Class(c.op, c.args).k IN
  CASE k = "val" /\ c.op = "random" -> Res("ans", FloatT("3fd0000000000000"), 0, 1021)
    [] k = "val"  -> Res("ans", c.args[1], 0, 0)          \* the lower bound is always in range
    [] k = "fail" -> Res("fail", NoTerm, 0, 0)
    [] k = "err"  -> Res("err", CHOOSE e \in Class(c.op, c.args).errs : TRUE, 0, 0)
    [] k = "ok"   -> Res("true", NoTerm, 0, 0)
    [] k = "bool" -> Res("true", NoTerm, 0, 0)
Other(c) ==
  LET k == Class(c.op, c.args).k IN
  CASE k = "val" /\ c.op = "random" -> Res("ans", FloatT("3ff0000000000000"), 0, 1023)     \* 1.0: out of range
    [] k = "val"  -> Res("ans", c.args[2], 0, 0)                                            \* the upper bound: out of range
    [] OTHER      -> Res("ans", NoTerm, 0, 0)

Sane ==
  phase = "case" =>
  LET Calls == CallsOf(C, Idx(i, j, v)) IN
  \A k \in 1..Len(Calls) :
    LET c == Calls[k]
        s1 == Step(St0, "set_random", <<Seed(B(sd))>>, Res("true", NoTerm, 0, 0))
    IN /\ Class(c.op, c.args).k # "unspecified"
       /\ Allowed(s1, c.op, c.args, Witness(c))
       /\ ~Conforms(c.op, c.args, Other(c))
       /\ (Class(c.op, c.args).k = "bool") =>
             LET s2 == Step(s1, c.op, c.args, Witness(c))
                 s3 == Step(s2, "set_random", <<Seed(B(sd))>>, Res("true", NoTerm, 0, 0))
             IN Allowed(s3, c.op, c.args, Witness(c)) /\ ~Allowed(s3, c.op, c.args, Res("fail", NoTerm, 0, 0))
=============================================================================
