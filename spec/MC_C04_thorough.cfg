CONSTANT Tier = "thorough"
INIT Init
NEXT Next
INVARIANT WellFormed
INVARIANT Consistent
INVARIANT Emit
