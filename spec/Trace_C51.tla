------------------------------ MODULE Trace_C51 ------------------------------
(* impl -> spec direction for the writer of library(csv): the documentation fixes what a       *)
(* written file must mean (header line if with_header, one record per row, the given line and  *)
(* token separators, [] written as null_value) but not where quotes are used.  The driver      *)
(* records every text the real write_csv/2,3 produced (ndjson: text, h, rows, sep, le, header, *)
(* nulltext) and this module judges each record with Csv!WriterAccepts; the numbers of the     *)
(* rejected records are printed as JSON.                                                        *)
EXTENDS Csv, Json, IOUtils

Rec == ndJsonDeserialize(IOEnv.TRACE)

Rejected == {i \in 1..Len(Rec) :
               ~WriterAccepts(Rec[i].text, Rec[i].h, Rec[i].rows, Rec[i].sep, Rec[i].le, Rec[i].header, Rec[i].nulltext)}

ASSUME PrintT(ToJson([total |-> Len(Rec), rejected |-> Rejected]))

VARIABLE l
Init == l = 0
Next == UNCHANGED l
=============================================================================
