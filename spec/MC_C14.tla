------------------------------- MODULE MC_C14 -------------------------------
(* C14: sorting builtins and collection libraries match their models.                      *)
(* Every "case" state is one call (op, inputs) whose specified result is printed as a       *)
(* vector; every "hist" state is one history (prefix) of library(assoc) updates that the     *)
(* driver executes and hands to Trace_C14 for validation against the map model.             *)
(* Only predicates that exist in the tree are modelled (there is no msort/2, predsort/3,    *)
(* sort/4, last/2, subtract/3, exclude/include/partition in src/lib/lists.pl).              *)
EXTENDS Coll, Json

CONSTANT Tier   \* "quick" | "thorough" | "sim" (random assoc histories, run with -simulate)

F1(nm, u)    == Cmpd(nm, <<u>>)
F2(nm, u, w) == Cmpd(nm, <<u, w>>)
a_ == Atom("a")   b_ == Atom("b")   ab_ == Atom("ab")

(* 7 mixed terms: integers ordered by value not text (2 < 10), atoms by code points        *)
(* (ab < b), compounds by arity before name (g(a) < f(a,b)), then name, then arguments      *)
T7 == {IntT(10), IntT(2), b_, ab_, F1("f", b_), F1("g", a_), F2("f", a_, b_)}
(* deliberate specials: a variable, a float next to the equal-valued integer, 'B' < a      *)
SP == {Var("X"), Flt("3FF0000000000000", 2), IntT(1), a_, Atom("B")}
S3 == {a_, IntT(1), F1("f", Atom("x"))}                \* for the polymorphic list predicates
K4 == {IntT(10), IntT(2), b_, F1("f", a_)}              \* keys of pair lists
I4 == {IntT(-3), IntT(0), IntT(2), IntT(7)}
LL == {LT(<<>>), LT(<<a_>>), LT(<<IntT(1)>>), LT(<<a_, IntT(1)>>)}
O3 == {IntT(2), ab_, F1("f", a_)}
O4 == {IntT(10), IntT(2), ab_, F1("f", a_)}
O6 == T7 \ {F2("f", a_, b_)}
KA5 == <<IntT(2), IntT(10), ab_, b_, F1("f", a_)>>       \* assoc keys, ascending
KA6 == KA5 \o <<F2("f", a_, b_)>>

Thorough == Tier # "quick"
NSort == IF Thorough THEN 5 ELSE 4
NKey  == IF Thorough THEN 5 ELSE 4
OPair == IF Thorough THEN O6 ELSE O4
NLol  == IF Thorough THEN 4 ELSE 3

ASSUME TotalOrderOn(T7 \cup SP \cup S3 \cup K4 \cup I4 \cup LL \cup Range(KA6))
KV(ks) == [i \in 1..Len(ks) |-> Pair(ks[i], IntT(i))]  \* values = positions: stability is visible

(* ------------------------------------------------------------------------------------ *)
(* groups: how the two raw inputs x, y (sequences of terms) are enumerated                *)
(* ------------------------------------------------------------------------------------ *)
Groups == {"sort", "special", "sorterr", "keysort", "list", "listel", "listidx", "list2", "ints",
           "lol", "misc", "ordpair", "ordel", "ordlol"}

OpsOf(g) ==
  CASE g = "sort"    -> {"sort", "sort_v", "list_to_set", "is_ordset"}
    [] g = "special" -> {"sort", "sort_v", "list_to_set", "list_to_ord_set"}     \* list_to_ord_set/2 is sort/2
    [] g = "sorterr" -> {"sort_partial", "sort_nonlist", "sort_improper", "keysort_partial", "keysort_nonlist",
                         "keysort_nonpair", "keysort_varelem"}
    [] g = "keysort" -> {"keysort", "keysort_v", "pairs_keys_values", "pairs_keys", "pairs_values", "pairs_zip",
                         "group_pairs", "list_to_assoc_list", "ord_list_to_assoc", "map_list_to_pairs"}
    [] g = "list"    -> {"length", "reverse", "member_all", "select_all", "append_splits", "nth0_all", "nth1_all",
                         "nth0_4_all", "nth1_4_all", "permutation", "foldl_cons", "maplist_wrap", "maplist_atom"}
    [] g = "listel"  -> {"memberchk", "select_x"}
    [] g = "listidx" -> {"nth0", "nth1", "nth0_4", "nth1_4"}
    [] g = "list2"   -> {"append3", "same_length", "foldl5", "maplist3_pair"}
    [] g = "ints"    -> {"sum_list", "list_max", "list_min", "foldl_add"}
    [] g = "lol"     -> {"append2"}
    [] g = "misc"    -> {"transpose", "length_gen", "ord_empty"}
    [] g = "ordpair" -> {"ord_union", "ord_union4", "ord_subtract", "ord_intersection", "ord_intersection4",
                         "ord_intersect", "ord_intersect3", "ord_disjoint", "ord_symdiff", "ord_subset",
                         "ord_seteq", "ord_intersection_nil"}
    [] g = "ordel"   -> {"ord_memberchk", "ord_add_element", "ord_del_element", "ord_selectchk"}
    [] g = "ordlol"  -> {"ord_union2", "ord_intersection2"}

(* long key lists with few distinct keys (many equal keys far apart: what an implementation that switches algorithm with *)
(* the length must still sort stably): n keys (7i + 3) mod m                                                                *)
LongKeys(n, m) == [i \in 1..n |-> IntT((7 * i + 3) % m)]
LongKeyLists == {LongKeys(n, m) : n \in {20, 33, 47, 64, 100}, m \in {2, 3, 5}}

(* a list of length <= n over A is split into a prefix x of length <= 2 and the rest y *)
Pre(A)          == ListsUpTo(A, 2)
Suf(A, n, xx)   == IF Len(xx) < 2 THEN {<<>>} ELSE ListsUpTo(A, n - 2)
ZS == <<Atom("z")>>

XDom(g) ==
  CASE g = "sort"    -> Pre(T7)
    [] g = "special" -> Pre(SP)
    [] g = "sorterr" -> ListsUpTo(S3, 2)
    [] g = "keysort" -> Pre(K4) \cup LongKeyLists
    [] g = "list"    -> Pre(S3)
    [] g = "listel"  -> ListsUpTo(S3, 3)
    [] g = "listidx" -> ListsUpTo(S3, 3)
    [] g = "list2"   -> ListsUpTo(S3, 2)
    [] g = "ints"    -> Pre(I4)
    [] g = "lol"     -> Pre(LL)
    [] g = "misc"    -> {<<IntT(r)>> : r \in 0..3}
    [] g = "ordpair" -> OrdSubsets(OPair)
    [] g = "ordel"   -> OrdSubsets(T7)
    [] g = "ordlol"  -> {<<LT(s)>> : s \in OrdSubsets(O3)} \cup {<<>>}

YDom(g, xx) ==
  CASE g = "sort"    -> Suf(T7, NSort, xx)
    [] g = "special" -> Suf(SP, 3, xx)
    [] g = "sorterr" -> {<<u>> : u \in {Atom("foo"), IntT(1), F1("f", a_)}}
    [] g = "keysort" -> IF Len(xx) > 2 THEN {<<>>} ELSE Suf(K4, NKey, xx)
    [] g = "list"    -> Suf(S3, 4, xx)
    [] g = "listel"  -> {<<e>> : e \in S3 \cup {Atom("z")}}
    [] g = "listidx" -> {<<IntT(i)>> : i \in 0..4}
    [] g = "list2"   -> ListsUpTo(S3, 2)
    [] g = "ints"    -> Suf(I4, 4, xx)
    [] g = "lol"     -> Suf(LL, NLol, xx)
    [] g = "misc"    -> {<<IntT(c)>> : c \in 0..3}
    [] g = "ordpair" -> OrdSubsets(OPair)
    [] g = "ordel"   -> {<<e>> : e \in T7}
    [] g = "ordlol"  -> IF xx = <<>> THEN {<<>>}          \* the list of sets is xx followed by up to 2 (3) more sets
                        ELSE {xx \o Map(LT, ss) : ss \in ListsUpTo(OrdSubsets(O3), IF Thorough THEN 3 ELSE 2)}

(* ------------------------------------------------------------------------------------ *)
(* state                                                                                  *)
(* ------------------------------------------------------------------------------------ *)
VARIABLES phase, grp, op, x, y
vars == <<phase, grp, op, x, y>>

L == x \o y
P == KV(L)                       \* the pair list of the keysort group
E1 == y[1]
SX == Range(x)   SY == Range(y)
IdxTerms(n) == [i \in 1..n |-> IntT(i)]
Zip(u, w) == [i \in 1..Len(u) |-> Pair(u[i], w[i])]
FreshVars(n) == [i \in 1..n |-> [t |-> "v", n |-> <<95, 71, 48 + i>>, i |-> 0, a |-> <<>>]]
Matrix(r, c) == [i \in 1..r |-> [j \in 1..c |-> IntT(10 * i + j)]]
SetsOf(ts) == {Range(SeqOf(ts[i])) : i \in 1..Len(ts)}
RECURSIVE InterAll(_)
InterAll(SS) == IF Cardinality(SS) = 1 THEN CHOOSE S \in SS : TRUE
                ELSE LET S == CHOOSE S \in SS : TRUE IN S \cap InterAll(SS \ {S})
SetT(S) == LT(SortSet(S))

(* the argument terms of the call, as the driver renders them into the goal template of op *)
Args ==
  CASE grp \in {"sort", "special", "list", "ints", "lol"} -> <<LT(L)>>
    [] grp = "keysort" ->
         (CASE op = "pairs_zip" -> <<LT(L), LT(IdxTerms(Len(L)))>>
            [] op = "group_pairs" -> <<LT(KeySort(P))>>
            [] op = "map_list_to_pairs" -> <<LT(L)>>
            [] OTHER -> <<LT(P)>>)
    [] grp = "sorterr" ->
         (CASE op = "sort_partial"    -> <<LTail(x, Var("T"))>>
            [] op = "sort_nonlist"    -> <<E1>>
            [] op = "sort_improper"   -> <<LTail(x \o <<IntT(7)>>, E1)>>
            [] op = "keysort_partial" -> <<LTail(KV(x), Var("T"))>>
            [] op = "keysort_nonlist" -> <<E1>>
            [] op = "keysort_nonpair" -> <<LT(KV(x) \o <<E1>>)>>
            [] op = "keysort_varelem" -> <<LT(KV(x) \o <<Var("V")>>)>>)
    [] grp \in {"listel", "listidx"} -> <<E1, LT(x)>>
    [] grp \in {"list2", "ordpair"}  -> <<LT(x), LT(y)>>
    [] grp = "ordel" -> <<LT(x), E1>>
    [] grp = "ordlol" -> <<LT(y)>>
    [] grp = "misc" ->
         (CASE op = "transpose" -> <<LT(Map(LT, Matrix(x[1].i, y[1].i)))>>
            [] op = "length_gen" -> <<IntT(x[1].i + 4 * y[1].i)>>
            [] OTHER -> <<Nil>>)

(* cases that are generated by the product but are not calls the documentation defines *)
Applicable ==
  CASE op = "permutation" -> Len(L) <= 3
    [] op \in {"list_max", "list_min"} -> L # <<>>
    [] op = "transpose" -> x[1].i >= 1
    [] op = "length_gen" -> y[1].i <= 1
    [] op = "ord_empty" -> x[1].i = 0 /\ y[1].i = 0
    [] op = "ord_intersection2" -> y # <<>>
    [] op \in {"sort_nonlist", "keysort_nonlist"} -> x = <<>>
    [] op = "keysort_varelem" -> E1 = IntT(1)
    [] op \in {"sort_partial", "keysort_partial"} -> E1 = IntT(1)
    [] OTHER -> TRUE

(* ------------------------------------------------------------------------------------ *)
(* the specified result of every call                                                     *)
(* ------------------------------------------------------------------------------------ *)
Res ==
  CASE op \in {"sort", "sort_v", "list_to_ord_set"} -> Ok(LT(Sort2(L)))
    [] op = "list_to_set"        -> Ok(LT(FirstOcc(L, {})))
    [] op = "is_ordset"          -> Test(StrictlyAsc(L))
    (* ISO 8.4.3.3 / 8.4.4.3 (Cor.2): a partial list is an instantiation error, a non-list a *)
    (* type_error(list, Culprit), a non-pair element type_error(pair, Element)               *)
    [] op \in {"sort_partial", "keysort_partial", "keysort_varelem"} -> Err(InstErr)
    [] op \in {"sort_nonlist", "keysort_nonlist"} -> Err(TypeError("list", E1))
    [] op = "sort_improper"      -> Err(TypeError("list", LTail(x \o <<IntT(7)>>, E1)))
    [] op = "keysort_nonpair"    -> Err(TypeError("pair", E1))
    [] op \in {"keysort", "keysort_v"} -> Ok(LT(KeySort(P)))
    [] op = "pairs_keys_values"  -> Ok(Pair(LT(L), LT(IdxTerms(Len(L)))))
    [] op = "pairs_keys"         -> Ok(LT(L))
    [] op = "pairs_values"       -> Ok(LT(IdxTerms(Len(L))))
    [] op = "pairs_zip"          -> Ok(LT(P))
    [] op = "group_pairs"        -> Ok(LT(GroupAdj(KeySort(P))))
    (* assoc.pl: list_to_assoc "Throws domain_error(unique_key_pairs, List) if List contains   *)
    (* duplicate keys"; ord_list_to_assoc "domain_error(key_ordered_pairs, List) if pairs are   *)
    (* not ordered" (strictly ascending keys)                                                   *)
    [] op = "list_to_assoc_list" -> IF UniqueKeys(P) THEN Ok(LT(KeySort(P)))
                                    ELSE Err(DomainError("unique_key_pairs", LT(P)))
    [] op = "ord_list_to_assoc"  -> IF StrictlyAsc(L) THEN Ok(LT(P))
                                    ELSE Err(DomainError("key_ordered_pairs", LT(P)))
    [] op = "map_list_to_pairs"  -> Ok(LT([i \in 1..Len(L) |-> Pair(F1("k", L[i]), L[i])]))
    [] op = "length"             -> Ok(IntT(Len(L)))
    [] op = "reverse"            -> Ok(LT(Rev(L)))
    [] op = "member_all"         -> Bag(L)
    [] op = "select_all"         -> Bag(Selects(L))
    [] op = "append_splits"      -> Bag(Splits(L))
    [] op = "nth0_all"           -> Bag(NthAll(L, 0))
    [] op = "nth1_all"           -> Bag(NthAll(L, 1))
    [] op = "nth0_4_all"         -> Bag(Nth4All(L, 0))
    [] op = "nth1_4_all"         -> Bag(Nth4All(L, 1))
    [] op = "permutation"        -> Bag(PermsOf(L))
    [] op = "foldl_cons"         -> Ok(LT(Rev(L)))
    [] op = "maplist_wrap"       -> Ok(LT(Map(Wrap, L)))
    [] op = "maplist_atom"       -> Test(\A i \in 1..Len(L) : L[i].t = "a")
    [] op = "memberchk"          -> Test(E1 \in SX)
    [] op = "select_x"           -> Bag(SelectsOf(E1, x))
    [] op = "nth0"               -> IF E1.i + 1 \in 1..Len(x) THEN Ok(x[E1.i + 1]) ELSE Fails
    [] op = "nth1"               -> IF E1.i \in 1..Len(x) THEN Ok(x[E1.i]) ELSE Fails
    [] op = "nth0_4"             -> IF E1.i + 1 \in 1..Len(x) THEN Ok(Pair(x[E1.i + 1], LT(Without(x, E1.i + 1)))) ELSE Fails
    [] op = "nth1_4"             -> IF E1.i \in 1..Len(x) THEN Ok(Pair(x[E1.i], LT(Without(x, E1.i)))) ELSE Fails
    [] op = "append3"            -> Ok(LT(x \o y))
    [] op = "same_length"        -> Test(Len(x) = Len(y))
    [] op = "foldl5"             -> IF Len(x) = Len(y) THEN Ok(LT(Rev(Zip(x, y)))) ELSE Fails
    [] op = "maplist3_pair"      -> IF Len(x) = Len(y) THEN Ok(LT(Zip(x, y))) ELSE Fails
    [] op \in {"sum_list", "foldl_add"} -> Ok(IntT(SumSeq(L)))
    [] op = "list_max"           -> Ok(MaxOf(L))
    [] op = "list_min"           -> Ok(MinOf(L))
    [] op = "append2"            -> Ok(LT(Concat(Map(SeqOf, L))))
    [] op = "transpose"          -> Ok(LT(Map(LT, Transpose(Matrix(x[1].i, y[1].i)))))
    [] op = "length_gen"         -> Ok(LT(FreshVars(x[1].i + 4 * y[1].i)))
    [] op = "ord_empty"          -> Succeeds
    [] op = "ord_union"          -> Ok(SetT(SX \cup SY))
    [] op = "ord_union4"         -> Ok(Pair(SetT(SX \cup SY), SetT(SY \ SX)))
    [] op = "ord_subtract"       -> Ok(SetT(SX \ SY))
    [] op \in {"ord_intersection", "ord_intersect3"} -> Ok(SetT(SX \cap SY))
    [] op = "ord_intersection4"  -> Ok(Pair(SetT(SX \cap SY), SetT(SY \ SX)))
    [] op = "ord_intersect"      -> Test(SX \cap SY # {})
    [] op \in {"ord_disjoint", "ord_intersection_nil"} -> Test(SX \cap SY = {})
    [] op = "ord_symdiff"        -> Ok(SetT((SX \ SY) \cup (SY \ SX)))
    [] op = "ord_subset"         -> Test(SX \subseteq SY)
    [] op = "ord_seteq"          -> Test(SX = SY)
    [] op = "ord_memberchk"      -> Test(E1 \in SX)
    [] op = "ord_add_element"    -> Ok(SetT(SX \cup {E1}))
    [] op = "ord_del_element"    -> Ok(SetT(SX \ {E1}))
    [] op = "ord_selectchk"      -> IF E1 \in SX THEN Ok(SetT(SX \ {E1})) ELSE Fails
    [] op = "ord_union2"         -> Ok(SetT(UNION SetsOf(y)))
    [] op = "ord_intersection2"  -> Ok(SetT(InterAll(SetsOf(y))))

(* sanity theorems of the oracle (the insertion sorts are permutations, ascending, stable; sort/2 is  *)
(* strictly ascending, keeps the element set and is idempotent), evaluated as an invariant on the     *)
(* cases of two operations so that TLC's workers share the work; a failure is a tool error            *)
Sane ==
  /\ (phase = "case" /\ op = "sort" /\ Len(L) <= 4) => SortSanity(L)
  /\ (phase = "case" /\ op = "keysort" /\ Len(L) <= 4) => KeySortSanity(P)

(* coverage class of a case *)
Kinds(s) == LET has(tg) == IF \E i \in 1..Len(s) : s[i].t = tg THEN tg ELSE "" IN
            has("v") \o has("f") \o has("i") \o has("a") \o has("c")
Shape(s) == IF Len(s) <= 1 THEN "t" ELSE IF StrictlyAsc(s) THEN "s" ELSE IF StrictlyAsc(Rev(s)) THEN "r" ELSE "m"
Cls ==
  CASE grp \in {"sort", "special", "keysort", "ints"} ->
         "n" \o ToString(Len(L)) \o "u" \o ToString(Cardinality(Range(L))) \o Shape(L) \o Kinds(L)
    [] grp \in {"list", "lol"} -> "n" \o ToString(Len(L)) \o "u" \o ToString(Cardinality(Range(L)))
    [] grp \in {"listel", "ordel"} -> "n" \o ToString(Len(x)) \o (IF E1 \in SX THEN "in" ELSE "out")
                                      \o ToString(Cardinality({u \in SX : Lt(u, E1)}))
    [] grp = "listidx" -> "n" \o ToString(Len(x)) \o "i" \o ToString(E1.i)
    [] grp = "list2" -> "n" \o ToString(Len(x)) \o "m" \o ToString(Len(y))
    [] grp = "ordpair" -> "n" \o ToString(Len(x)) \o "m" \o ToString(Len(y)) \o "c" \o ToString(Cardinality(SX \cap SY))
    [] grp = "ordlol" -> "k" \o ToString(Len(y))
    [] OTHER -> "n" \o ToString(Len(x))

(* ------------------------------------------------------------------------------------ *)
(* library(assoc) histories                                                               *)
(* ------------------------------------------------------------------------------------ *)
Keys   == IF Tier = "sim" THEN KA6 ELSE KA5
MaxLen == IF Tier = "quick" THEN 4 ELSE IF Tier = "thorough" THEN 5 ELSE 30
Act(o, k, v) == Cmpd(o, <<k, v>>)
OpName(act) == CASE act.n = CP("put") -> "put" [] act.n = CP("del") -> "del" [] act.n = CP("upd") -> "upd"
                 [] act.n = CP("delmin") -> "delmin" [] act.n = CP("delmax") -> "delmax"
RECURSIVE ModelOf(_, _)
ModelOf(m, acts) == IF acts = <<>> THEN m
                    ELSE ModelOf(ApplyOp(m, OpName(Head(acts)), Head(acts).a[1], Head(acts).a[2]), Tail(acts))
(* initial maps built by list_to_assoc/2 (perfectly balanced trees of 4 or 5 nodes, so that  *)
(* deletions rebalance); the empty start explores every insertion order.  quick: all         *)
(* histories of length <= 4 from the empty map and <= 3 from the built maps; thorough: length *)
(* <= 5 from the empty map (the first two actions are insertions), <= 4 from the map of all   *)
(* keys and <= 3 from the two 4-key maps; sim: random walks of length 30 over 6 keys,         *)
(* including value replacement (TLC prints every successor of every visited state)           *)
PairsOf(ks) == [i \in 1..Len(ks) |-> Pair(ks[i], IntT(100 + i))]
Inits == {<<>>, PairsOf(Keys), PairsOf(SubSeq(Keys, 1, 4)), PairsOf(SubSeq(Keys, 2, Len(Keys)))}
HistLen(init) == IF init = <<>> \/ Tier = "sim" THEN MaxLen
                 ELSE IF Tier = "thorough" /\ Len(init) < Len(Keys) THEN MaxLen - 2 ELSE MaxLen - 1
Puts(step) == {Act("put", Keys[i], IntT(step)) : i \in 1..Len(Keys)}
Actions(init, m, step) ==
  IF Tier = "thorough" /\ init = <<>> /\ step <= 2 THEN Puts(step)
  ELSE Puts(step) \cup {Act("del", Keys[i], None) : i \in 1..Len(Keys)}
       \cup (IF DOMAIN m # {} THEN {Act("delmin", None, None), Act("delmax", None, None)} ELSE {})
       \cup (IF Tier = "sim" THEN {Act("upd", Keys[i], IntT(50 + step)) : i \in 1..Len(Keys)} ELSE {})

Init ==
  \/ /\ Tier # "sim" /\ phase = "op" /\ grp \in Groups /\ op \in OpsOf(grp) /\ x = <<>> /\ y = <<>>
  \/ /\ phase = "hist" /\ grp = "assoc" /\ op = "hist" /\ x = <<>> /\ y \in Inits

Next ==
  \/ /\ phase = "op" /\ phase' = "x" /\ x' \in XDom(grp) /\ UNCHANGED <<grp, op, y>>
  \/ /\ phase = "x" /\ phase' = "case" /\ y' \in YDom(grp, x) /\ UNCHANGED <<grp, op, x>>
  \/ /\ phase = "hist" /\ Len(x) < HistLen(y)
     /\ x' \in {Append(x, act) : act \in Actions(y, ModelOf(MapOfPairs(y), x), Len(x) + 1)}
     /\ UNCHANGED <<phase, grp, op, y>>

Emit ==
  /\ (phase = "case" /\ Applicable) =>
       LET r == Res IN
       PrintT(ToJson([g |-> grp, op |-> op, args |-> PkSeq(Args), k |-> r.k, v |-> Pk(r.v), cls |-> Cls]))
  /\ phase = "hist" =>         \* every history prefix is a vector: the driver observes the state after its last action
       PrintT(ToJson([g |-> "assoc", op |-> "hist", args |-> PkSeq(<<LT(y), LT(x)>>), k |-> "hist",
                      v |-> Pk(LT(MapPairs(ModelOf(MapOfPairs(y), x)))),
                      cls |-> "i" \o ToString(Len(y))]))
=============================================================================
