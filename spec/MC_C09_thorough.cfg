CONSTANTS Tier = "thorough" MaxSteps = 3000 MaxAns = 5
INIT Init
NEXT Next
INVARIANT Inv
INVARIANT Emit
