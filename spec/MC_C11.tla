------------------------------- MODULE MC_C11 -------------------------------
(* C11: backtracking restores exactly the pre-goal state.                                       *)
(* A script is   q :- p(A,B).   p(X,Y) :- Pre, '$snap', Construct(Seq), '$chk', Post.            *)
(* Seq is a sequence of goals of the alphabet Goals (bindings of older and newer variables in   *)
(* both directions, inside structures, through a head unification; global variables, suspended  *)
(* goals, disequalities, an inner choice point); Construct places it where its effects must be  *)
(* discarded (exhausted disjunction, double negation, failing if-then-else condition, findall,  *)
(* catch recovery after throw, a clause that fails); Post inspects every variable and the       *)
(* global, then binds X and Y to wake whatever is (wrongly or rightly) still attached.           *)
(* Layer A gives the expected log: choice points and catch frames hold store snapshots; the      *)
(* store contains bindings, backtrackable globals and attributes; bb_put/2 values live outside.  *)
(* TLC checks for every script that the store at '$chk' equals the store at '$snap' (findall:    *)
(* up to the result binding) and prints the log; the driver replays the script.                  *)
EXTENDS PrologExt, Json

CONSTANT Tier

X == V("X")  Y == V("Y")                         \* head variables of p (created by the caller)
W == V("W")  Z == V("Z")  V0 == V("V0")          \* clause-local variables
Vg == V("Vg")  L == V("L")
a == A("a")  kk == A("kk")
Log(t) == C1("log", t)
St(tag) == C(tag, <<X, Y, W, Z, V0>>)
(* observes the global without binding anything; never fails *)
Peek(tag) == Ite(Not(Not(Conj(C2("bb_get", kk, Vg), Log(C1(tag, Vg))))), True, Log(C1(tag, A("none"))))

Goals == <<
  Eq(X, a),                                       \*  1 bind an older variable
  Eq(W, A("b")),                                  \*  2 bind a newer (clause-local) variable
  Eq(X, W),                                       \*  3 older = newer
  Eq(W, X),                                       \*  4 newer = older
  Eq(X, C1("f", W)),                              \*  5 older variable bound to a structure holding a newer one
  Eq(Y, C1("g", X)),                              \*  6 structure holding an older variable
  C2("eq", X, Y),                                 \*  7 binding made by a head unification  eq(A,A).
  C1("new", W),                                   \*  8 new(f(_)): a variable younger than everything else
  Eq(W, C1("f", X)),                              \*  9 binds the variable inside W (if any) to X, or W itself
  C2("bb_put", kk, I(1)),                         \* 10 persists
  C2("bb_b_put", kk, I(2)),                       \* 11 reverts
  Peek("got"),                                    \* 12
  C2("freeze", X, Log(C1("woke", X))),            \* 13 attribute on an older variable
  C2("dif", Y, a),                                \* 14
  C1("t", Z),                                     \* 15 an inner choice point (1;2;3)
  Eq(Y, a),                                       \* 16 may violate a dif/2
  Log(St("in")),                                  \* 17
  C2("bb_b_put", kk, C1("h", W))                  \* 18 backtrackable value holding a variable
>>
NG == Len(Goals)
Core == {1, 4, 5, 11, 13, 15}
Core4 == {1, 4, 5, 11, 13, 15}

Pres == <<
  True,
  Conj(C2("bb_put", kk, I(0)), C2("freeze", X, Log(C1("w0", X)))),
  Conj(C2("bb_b_put", kk, I(0)), Conj(C2("dif", Y, a), Eq(W, C1("f", V0)))),
  (* two backtrackable updates of the same key in a row, nothing else trailed in between: the value to come back to *)
  (* after the goal is the SECOND one                                                                                *)
  Conj(C2("bb_b_put", kk, I(0)), C2("bb_b_put", kk, I(5)))
>>

NCons == 6
Construct(k, seq) ==
  CASE k = 1 -> Disj(Conj(seq, Fail), True)
    [] k = 2 -> Ite(Not(Not(seq)), Log(A("yes")), Log(A("no")))
    [] k = 3 -> Ite(Conj(seq, Fail), Log(A("then")), Log(A("else")))
    [] k = 4 -> Conj(C3("findall", C2("-", W, X), seq, L), Log(C1("l", L)))
    [] k = 5 -> Ite(C3("catch", Conj(seq, C1("throw", A("b"))), A("b"), True), True, True)
    [] k = 6 -> Disj(C3("r", X, Y, W), True)

PostG == Conj(Log(St("st")), Conj(Peek("k"), Conj(Eq(X, a), Conj(Log(A("x1")), Conj(Eq(Y, a), Log(St("end")))))))

Seqs(n, S) == [1..n -> S]
SeqsQuick == Seqs(1, 1..NG) \cup Seqs(2, 1..NG) \cup Seqs(3, Core)
SeqsThorough == Seqs(1, 1..NG) \cup Seqs(2, 1..NG) \cup Seqs(3, 1..NG)
Seqs4 == Seqs(4, Core4)

Body(s) == ConjOf([j \in 1..Len(s) |-> Goals[s[j]]])
Script(pre, k, s) ==
  LET inner == IF k = 6 THEN Construct(6, True) ELSE Construct(k, Body(s))
      chk == IF k = 4 THEN True ELSE A("$chk")       \* findall binds its result: compared through the log only
  IN << [h |-> A("q"), b |-> C2("p", V("A"), V("B"))],
        [h |-> C2("p", X, Y), b |-> Conj(Pres[pre], Conj(A("$snap"), Conj(inner, Conj(chk, PostG))))] >>
     \o (IF k = 6 THEN << [h |-> C3("r", X, Y, W), b |-> Conj(Body(s), Fail)] >> ELSE <<>>)

Helpers == << [h |-> C2("eq", V("A"), V("A")), b |-> True],
              [h |-> C1("new", C1("f", V("N"))), b |-> True],
              [h |-> C1("t", V("A")), b |-> Disj(Eq(V("A"), I(1)), Disj(Eq(V("A"), I(2)), Eq(V("A"), I(3))))] >>

VARIABLES m, sc
Init == m = [phase |-> "gen"] /\ sc = <<>>
Quick == Tier = "quick"
Gen ==
  /\ m.phase = "gen"
  /\ \E v \in (IF Quick THEN ({1, 2} \X SeqsQuick) \cup ({3} \X Seqs(2, Core)) \cup ({4} \X (Seqs(1, 1..NG) \cup Seqs(2, Core)))
                         ELSE ({1, 2} \X SeqsThorough) \cup ({3, 4} \X SeqsQuick) \cup ({1} \X Seqs4)) :
       \E k \in 1..NCons :
          /\ sc' = <<v[1], k>> \o v[2]
          /\ m' = LoadX(Script(v[1], k, v[2]) \o Helpers, {}, A("q"))
Run1 == m.phase = "run" /\ m' = StepX(m) /\ UNCHANGED sc
Next == Gen \/ Run1

Inv == MachineOk(m) /\ CollectorsOk(m) /\ (m.phase # "gen" => ExtOk(m))

NProg(k) == IF k = 6 THEN 3 ELSE 2
Emit == m.phase = "done" /\ m.status \in {"done", "exc"} =>
          PrintT(ToJson([sc |-> sc, prog |-> SubSeq(m.prog, 1, NProg(sc[2])), q |-> m.q, qv |-> m.qv, ans |-> m.ans, status |-> m.status,
                         ball |-> m.ball, balts |-> m.balts, out |-> m.out, diffrz |-> m.diffrz, steps |-> m.steps]))
=============================================================================
