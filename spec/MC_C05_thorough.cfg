CONSTANT Tier = "thorough"
INIT Init
NEXT Next
INVARIANT PathSound
INVARIANT Refinement
INVARIANT Header
INVARIANT Emit
