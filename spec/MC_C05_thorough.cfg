CONSTANT Tier = "thorough"
INIT Init
NEXT Next
INVARIANT PathSound
INVARIANT RefinementOutsideIndexing
INVARIANT Header
INVARIANT Emit
