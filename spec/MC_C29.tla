------------------------------- MODULE MC_C29 -------------------------------
(* C29: toplevel answers are faithful and re-executable.                                  *)
(* TLC enumerates (program, query) pairs: queries p(X) over consulted programs of one or  *)
(* two clauses from a grammar in the style of MC_C07 (control constructs included), pure   *)
(* queries over fixed helper predicates, library calls member/2, append/3, between/3 and   *)
(* queries with dif/2. The abstract machine Prolog!Step computes the solutions; module     *)
(* Toplevel gives the admissible transcripts. One vector per finished machine.             *)
EXTENDS Toplevel, Json

CONSTANT Tier

X == V("X")  Y == V("Y")  Z == V("Z")
a == A("a")  b == A("b")  c == A("c")
P1(t) == C1("p", t)
Q1(t) == C1("q", t)
T1(t) == C1("t", t)
R2(s, t) == C2("r", s, t)
Mem(x, l) == C2("member", x, l)
App(x, y, z) == C3("append", x, y, z)
Btw(l, h, x) == C3("between", l, h, x)

(* consulted on both sides *)
Helpers == <<
  [h |-> Q1(a), b |-> True], [h |-> Q1(b), b |-> True],
  [h |-> T1(I(1)), b |-> True], [h |-> T1(I(2)), b |-> True], [h |-> T1(I(3)), b |-> True],
  [h |-> R2(a, I(1)), b |-> True], [h |-> R2(b, I(2)), b |-> True], [h |-> R2(c, I(3)), b |-> True],
  [h |-> C2("u", X, Y), b |-> Conj(Q1(X), R2(X, Y))],
  [h |-> C1("s", C1("f", X)), b |-> True], [h |-> C1("s", C2("g", X, Y)), b |-> Q1(X)], [h |-> C1("s", Cons(X, Y)), b |-> True]
>>
(* the library predicates by their textbook clauses (specification side only; the real system uses its libraries) *)
LibHelpers == <<
  [h |-> Mem(X, Cons(X, V("T"))), b |-> True],
  [h |-> Mem(X, Cons(V("H"), V("T"))), b |-> Mem(X, V("T"))],
  [h |-> App(Nil, X, X), b |-> True],
  [h |-> App(Cons(V("H"), V("T")), Y, Cons(V("H"), V("R"))), b |-> App(V("T"), Y, V("R"))],
  [h |-> Btw(V("L"), V("H"), V("L")), b |-> C2("=<", V("L"), V("H"))],
  [h |-> Btw(V("L"), V("H"), X), b |-> Conj(C2("<", V("L"), V("H")), Conj(C2("is", V("L1"), C2("+", V("L"), I(1))), Btw(V("L1"), V("H"), X)))]
>>
AllHelpers == Helpers \o LibHelpers

Atoms0 == { Q1(X), Q1(Y), T1(Y), R2(X, Y), Eq(X, a), Eq(X, Y), Eq(X, C1("f", Y)), Eq(X, C2("g", Y, Z)), Eq(X, ListOf(<<a, Y>>)),
            Cut, Fail, True, C2("\\=", X, a), C1("var", X), C2("is", X, C2("+", I(1), I(1))), C2("u", X, Y),
            C1("s", X), C2("is", X, V("W")), C1("zz", X), C1("throw", a) }
AtomsS == { Q1(X), Q1(Y), Eq(X, a), Eq(X, Y), Cut, Fail, True, C1("s", X) }
Level1(S) == { Disj(g1, g2) : g1 \in S, g2 \in S }
        \cup { It(g1, g2) : g1 \in S, g2 \in S }
        \cup { Not(g1) : g1 \in S }
        \cup { Call1(g1) : g1 \in S }
        \cup { C3("findall", Y, g1, X) : g1 \in {Q1(Y), T1(Y), Fail, R2(Z, Y)} }
        \cup { C3("catch", g1, V("E"), g2) : g1 \in {C1("throw", a), Q1(X), Conj(Q1(X), C1("throw", X))}, g2 \in {True, Eq(X, c)} }
        \cup { C1("once", Q1(X)) }
BodiesQuick == Atoms0 \cup Level1({Q1(X), Eq(X, a), Cut, Fail})
              \cup { Conj(g1, g2) : g1 \in {Q1(X), Eq(X, Y), C1("s", X)}, g2 \in {Cut, Q1(Y), Eq(X, a), Fail} }
BodiesFull == Atoms0 \cup Level1(AtomsS)
              \cup { Conj(g1, g2) : g1 \in AtomsS, g2 \in AtomsS }
              \cup { Conj(g1, Conj(g2, g3)) : g1 \in {Q1(X), T1(Y)}, g2 \in {Cut, Q1(Y), Eq(X, Y)}, g3 \in {Cut, Fail, Q1(X)} }
Bodies == IF Tier = "quick" THEN BodiesQuick ELSE BodiesFull
Heads == IF Tier = "quick" THEN { P1(X), P1(C1("f", X)) } ELSE { P1(X), P1(a), P1(C1("f", X)) }
ClausesA == { [h |-> hd, b |-> bd] : hd \in Heads, bd \in Bodies }
ClausesB == IF Tier = "quick" THEN { [h |-> P1(b), b |-> True] }
            ELSE { [h |-> P1(b), b |-> True], [h |-> P1(X), b |-> Q1(X)], [h |-> P1(c), b |-> Cut] }

(* queries over the helpers and the library only (no consulted p/1) *)
L3 == ListOf(<<a, b, c>>)
PureQueries ==
  { Q1(X), R2(X, Y), C2("u", X, Y), C1("s", X), Conj(Q1(X), Q1(Y)), Conj(Q1(X), R2(X, Y)), Conj(R2(X, Y), C2("<", Y, I(3))),
    Eq(X, Y), Eq(X, C1("f", Y)), Conj(Eq(X, Y), Eq(Y, a)), Eq(C2("g", X, Y), C2("g", Y, Z)), True, Fail, Conj(Q1(X), Fail),
    Disj(Eq(X, a), Eq(Y, b)), Disj(Eq(X, a), Fail), Disj(Fail, Eq(X, a)), Ite(Q1(X), Eq(Y, X), Eq(Y, c)), Not(Q1(c)), Not(Q1(a)),
    Conj(Q1(X), Cut), C1("once", Q1(X)), C3("findall", X, Q1(X), V("L")), C3("findall", C2("-", X, Y), R2(X, Y), V("L")),
    C2("is", X, C2("+", I(1), I(2))), C2("is", X, C2("+", Y, I(1))), C1("zz", X), C1("throw", a), Conj(Q1(X), C1("throw", C1("f", X))),
    Disj(Eq(X, a), C1("throw", b)), C3("catch", C1("throw", a), V("E"), True), C3("catch", Q1(X), V("E"), True),
    Eq(X, ListOf(<<a, Y, C1("f", Z)>>)), Eq(X, Cons(a, Y)), Eq(X, I(-1)), Eq(X, C2("-", I(1), I(2))), Eq(X, C2("-", a, C2("-", b, c))),
    Eq(X, C2("-", C2("-", a, b), c)), Eq(X, C1("-", a)), Eq(X, C1("-", I(1))), Eq(X, C2(",", a, b)), Eq(X, C2(":-", a, b)),
    Eq(X, A("[]")), Eq(X, A("{}")), Eq(X, A("hello world")), Eq(X, A("Abc")), Eq(X, C1("f", A("A b"))), Eq(X, C2("+", a, C2("*", b, c))),
    Eq(X, C2("*", C2("+", a, b), c)), Eq(X, C1("\\+", a)), Eq(X, C2("=", a, b)), Eq(X, C2("f", Y, Y)), Eq(C2("f", X, Y), C2("f", Y, X)),
    Mem(X, L3), Mem(a, L3), Mem(X, Nil), Mem(a, Cons(X, Cons(Y, Nil))), Conj(Mem(X, L3), Q1(X)), Conj(Mem(X, L3), C2("\\=", X, b)),
    App(X, Y, ListOf(<<a, b>>)), App(ListOf(<<a>>), ListOf(<<b>>), X), App(X, ListOf(<<b>>), ListOf(<<a, b>>)), App(ListOf(<<a>>), X, Y),
    Btw(I(1), I(3), X), Btw(I(1), I(1), X), Btw(I(2), I(1), X), Btw(I(1), I(3), I(2)), Conj(Btw(I(1), I(3), X), T1(X)),
    Conj(Btw(I(1), I(2), X), Btw(I(1), I(2), Y)), Conj(Btw(I(1), I(3), X), C2(">", X, I(1))) }

(* queries with dif/2: [g: the rest of the query, s, t: the arguments, first: is dif written first?] *)
DifQueries ==
  { [g |-> g, s |-> st[1], t |-> st[2], first |-> f] :
      g \in { True, Q1(X), R2(X, Y), Mem(X, L3), Eq(X, a), Eq(X, C1("f", Y)), Conj(Q1(X), Q1(Y)) },
      st \in { <<X, a>>, <<X, Y>>, <<C1("f", X), C1("f", b)>>, <<C2("g", X, a), C2("g", b, Y)>>, <<X, c>> },
      f \in BOOLEAN }

VARIABLES m, kind, dq, dl
vars == <<m, kind, dq, dl>>
NoDq == [g |-> True, s |-> a, t |-> a, first |-> FALSE]

Init == m = [phase |-> "gen"] /\ kind = "none" /\ dq = NoDq /\ dl = TRUE
Gen ==
  /\ m.phase = "gen" /\ dl' = TRUE
  /\ \/ /\ kind' = "prog" /\ dq' = NoDq
        /\ \E ca \in ClausesA :
             IF Tier = "quick"
             THEN (* one program per clause: alone under the head p(X), after p(b) under the head p(f(X)) *)
                  IF ca.h = P1(X) THEN m' = Load(<<ca>> \o AllHelpers, {}, P1(X))
                  ELSE \E cb \in ClausesB : m' = Load(<<cb, ca>> \o AllHelpers, {}, P1(X))
             ELSE \/ m' = Load(<<ca>> \o AllHelpers, {}, P1(X))
                  \/ \E cb \in ClausesB : m' = Load(<<ca, cb>> \o AllHelpers, {}, P1(X)) \/ m' = Load(<<cb, ca>> \o AllHelpers, {}, P1(X))
     \/ /\ kind' = "pure" /\ dq' = NoDq
        /\ \E q \in PureQueries : m' = Load(AllHelpers, {}, q)
     \/ /\ kind' = "dif"
        /\ \E d \in DifQueries :
             /\ dq' = d
             /\ m' = Load(AllHelpers, {}, Conj(d.g, Conj(Eq(V("S_"), d.s), Eq(V("T_"), d.t))))
(* dl: was no alternative left when the latest answer was delivered? *)
Run1 == /\ m.phase = "run" /\ m' = Step(m) /\ UNCHANGED <<kind, dq>>
        /\ dl' = IF m.gs = <<>> THEN NoAlternative(m.cps) ELSE dl
Next == Gen \/ Run1

Inv == MachineOk(m)

Idx(seq, x) == CHOOSE j \in 1..Len(seq) : seq[j] = x


DifOutside == kind = "dif" /\ \E j \in 1..Len(m.ans) :
                 DifState(m.ans[j][Idx(m.qv, V("S_"))], m.ans[j][Idx(m.qv, V("T_"))]) = "cyclic"

Emit == m.phase = "done" /\ m.status \in {"done", "exc"} /\ ~DifOutside =>
  LET nprog == Len(m.prog) - Len(AllHelpers)
      prog  == SubSeq(m.prog, 1, nprog)
      (* the query as typed, its variables, and per solution: values, residual goals *)
      realq == IF kind # "dif" THEN m.q
               ELSE IF dq.first THEN (IF dq.g = True THEN C2("dif", dq.s, dq.t) ELSE Conj(C2("dif", dq.s, dq.t), dq.g))
               ELSE (IF dq.g = True THEN C2("dif", dq.s, dq.t) ELSE Conj(dq.g, C2("dif", dq.s, dq.t)))
      qv    == VarSeq(realq)
      proj(ans) == [j \in 1..Len(qv) |-> ans[Idx(m.qv, qv[j])]]
      dstate(ans) == IF kind # "dif" THEN "entailed"
                     ELSE DifState(ans[Idx(m.qv, V("S_"))], ans[Idx(m.qv, V("T_"))])
      keep  == SelectSeq(m.ans, LAMBDA ans : dstate(ans) # "fail")
      sols  == [j \in 1..Len(keep) |-> proj(keep[j])]
      res(ans) == IF dstate(ans) = "residual"
                  THEN <<C2("dif", ans[Idx(m.qv, V("S_"))], ans[Idx(m.qv, V("T_"))])>> ELSE <<>>
      k     == Len(sols)
      lastdet == kind # "dif" /\ dl
      exc   == m.status = "exc"
  IN PrintT(ToJson([kind |-> kind, prog |-> prog, q |-> realq, qv |-> qv,
                    sols |-> [j \in 1..k |-> [b |-> sols[j], res |-> res(keep[j]),
                                              n |-> IF kind # "dif" /\ ~exc THEN Successes(sols, j) ELSE 0]],
                    ans |-> sols, status |-> m.status, ball |-> m.ball, balts |-> m.balts,
                    transcripts |-> Transcripts(k, lastdet, exc), lastdet |-> lastdet, steps |-> m.steps]))
=============================================================================
