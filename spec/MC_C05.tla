------------------------------- MODULE MC_C05 -------------------------------
(* C05 model.  TLC                                                                              *)
(*  (1) checks the representation layer: every production path yields a well-formed number of    *)
(*      the intended value (PathSound), and small values really occur boxed (header.boxed_small); *)
(*  (2) checks the refinement "layer-B consumer = layer-A consumer of the value" for every        *)
(*      (value, path, consumer) (invariant Refinement).  With NumRep!BoxedArgTakesVariablePath =   *)
(*      FALSE (the code before /repo commit 86aa075) first-argument indexing does not refine: a    *)
(*      boxed key selects no clause; such design-level counter-examples are printed with           *)
(*      refines = FALSE and summarised in the header (the verdict on the implementation is only     *)
(*      ever Expect, layer A);                                                                      *)
(*  (3) prints one vector per (value, path, consumer) [quick, thorough] and per                    *)
(*      (value, path, path, pair consumer) [thorough] with the goal texts and the expected answer. *)
EXTENDS NumRep, Json

CONSTANT Tier   \* "quick" | "thorough"

P(n) == Pow2(n)
K(k) == FromInt(k)
ValuesQuick ==
  {K(0), K(1), K(2), K(5), K(255), K(-1), Sub(P(55), One), P(55), Neg(P(55)), Sub(Neg(P(55)), One), P(63), P(70)}
ValuesMore ==
  {K(3), K(6), K(7), K(100), K(256), K(1200), K(-5), P(31), P(32), Sub(P(55), Two), Add(P(55), One),
   Add(Neg(P(55)), One), Neg(P(63)), P(64), Add(Pow(K(10), 30), K(7))}
Values == IF Tier = "quick" THEN ValuesQuick ELSE ValuesQuick \cup ValuesMore

PairPaths == {"lit", "codes", "addsub", "muldiv", "findall_copy", "assert_fetch", "trunc", "succ_boxed"}

VARIABLES phase, v, p, q, c,
          rp, rq     \* the layer-B numbers produced by the paths p and q (computed once per initial state)
vars == <<phase, v, p, q, c, rp, rq>>

(* one initial state per (value, path) resp. (value, path, path); the consumers are its successors *)
Init ==
  /\ phase = "pick" /\ c = ""
  /\ v \in Values
  /\ p \in Paths /\ PathApplicable(p, v)
  /\ \/ q = ""
     \/ Tier = "thorough" /\ p \in PairPaths /\ q \in PairPaths /\ PathApplicable(q, v)
  /\ rp = PathRep(p, v)
  /\ rq = IF q = "" THEN rp ELSE PathRep(q, v)
Next ==
  /\ phase = "pick" /\ phase' = "case" /\ UNCHANGED <<v, p, q, rp, rq>>
  /\ IF q = "" THEN c' \in {x \in Consumers : Applicable(x, v)} ELSE c' \in PairConsumers

(* (1) *)
PathSound ==
  phase = "pick" => (Alpha(rp) = v /\ WellFormed(rp) /\ Alpha(rq) = v /\ WellFormed(rq))

(* (2) *)
RefinesHere ==
  IF q = "" THEN Refines(c, rp) ELSE PairConsumerB(c, rp, rq) = PairExpect(c, v)
Refinement ==
  (phase = "case" /\ (BoxedArgTakesVariablePath \/ c \notin IndexConsumers \cup {"p_index"})) => RefinesHere

Subst == [V |-> ToDec(v), VP1 |-> ToDec(Add(v, One)), VM1 |-> ToDec(Sub(v, One)),
          VP2 |-> ToDec(Add(v, Two)), VM2 |-> ToDec(Sub(v, Two))]

BoxedSmall == {<<ToDec(w), pp>> : <<w, pp>> \in {x \in Values \X Paths :
                 PathApplicable(x[2], x[1]) /\ FitsFix(x[1]) /\ PathRep(x[2], x[1]).r = "box"}}
DesignCounterexamples ==
  {<<cc, pp>> : <<w, pp, cc>> \in {x \in Values \X Paths \X Consumers :
                 PathApplicable(x[2], x[1]) /\ Applicable(x[3], x[1]) /\ ~Refines(x[3], PathRep(x[2], x[1]))}}

Header ==
  (phase = "pick" /\ q = "" /\ p = "lit" /\ v = K(0)) =>
    PrintT(ToJson([kind |-> "header", program |-> Program, setup |-> Setup,
                   boxed_small |-> BoxedSmall, design_counterexamples |-> DesignCounterexamples,
                   out_consumers |-> OutConsumers, index_consumers |-> IndexConsumers \cup {"p_index"}]))

Emit ==
  phase = "case" =>
    PrintT(ToJson([kind |-> "case", subst |-> Subst, small |-> SmallNat(v, 300), fits |-> FitsFix(v),
                   path |-> p, path_goal |-> PathGoal(p), rep |-> rp.r,
                   path2 |-> q, path2_goal |-> IF q = "" THEN "" ELSE PathGoal(q),
                   rep2 |-> IF q = "" THEN "" ELSE rq.r,
                   consumer |-> c, goal |-> IF q = "" THEN Goal(c) ELSE PairGoal(c),
                   exp |-> IF q = "" THEN Expect(c, v) ELSE PairExpect(c, v),
                   refines |-> RefinesHere]))
=============================================================================
