------------------------------ MODULE Trace_C52 ------------------------------
(* C52, impl -> spec: validation of recorded library(random) observations against Random.tla.  *)
(* ndjson events (written by props/C52.py):                                                     *)
(*   {"ev":"reset"}                     a new scenario: nothing known, not seeded               *)
(*   {"ev":"newmachine"}                the following calls run on a freshly booted machine      *)
(*   {"ev":"call","op":..,"args":[..],"res":{"k":..,"v":..,"sign":..,"exp":..}}                   *)
(* The generated stream is not logged: st.known is inferred from the first observation of each  *)
(* (seed, call history) key and must explain every later observation (the re-seeded runs).       *)
EXTENDS Random, Json, IOUtils

VARIABLES l, st

Rec == ndJsonDeserialize(IOEnv.TRACE)

Init == l = 1 /\ st = St0

Reset == Rec[l].ev = "reset" /\ st' = St0
NewM  == Rec[l].ev = "newmachine" /\ st' = NewMachine(st)
Call  == /\ Rec[l].ev = "call"
         /\ LET e == Rec[l] IN
            /\ Allowed(st, e.op, e.args, e.res)
            /\ st' = Step(st, e.op, e.args, e.res)

Next == /\ l <= Len(Rec)
        /\ l' = l + 1
        /\ (Reset \/ NewM \/ Call)

(* POSTCONDITION: the whole trace was explained; otherwise the first unexplained line is printed *)
TraceAccepted ==
  LET d == TLCGet("stats").diameter IN
  IF d - 1 = Len(Rec) THEN TRUE ELSE PrintT(<<"REJECT", d>>) /\ FALSE
=============================================================================
