CONSTANTS Tier = "quick" MaxSteps = 400 MaxAns = 50
INIT Init
NEXT Next
INVARIANT Inv
INVARIANT Emit
