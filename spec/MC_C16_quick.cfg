CONSTANT Tier = "quick"
INIT Init
NEXT Next
INVARIANT Emit
INVARIANT SaneInt
INVARIANT SaneFlt
INVARIANT SaneLex
