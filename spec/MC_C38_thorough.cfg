CONSTANTS Tier = "thorough" MaxSteps = 800 MaxAns = 8
INIT Init
NEXT Next
INVARIANT Inv
INVARIANT Emit
