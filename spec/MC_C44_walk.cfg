CONSTANT Mode = "walk"
CONSTANT Depth = 8
INIT Init
NEXT Next
INVARIANT Emit
INVARIANT TypeInv
