CONSTANTS Tier = "thorough" Mode = "sim" MaxSteps = 400 MaxAns = 12
INIT Init
NEXT Next
INVARIANT Inv
INVARIANT Emit
