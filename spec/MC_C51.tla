------------------------------- MODULE MC_C51 -------------------------------
(* C51: CSV parsing and writing follow the documented format.                                 *)
(* Families of cases (one "case" state each, printed as a JSON vector):                        *)
(*   parse      a table (rows of field texts) rendered as a document in a textual variant      *)
(*              (quoting mode, line end, trailing newline) x documented options; the vector    *)
(*              carries the document and the frame Csv!Frame assigns to it                     *)
(*   malformed  documents outside the RFC 4180 grammar (nothing is promised: only crashes count) *)
(*   write      a frame and writer options; the written text is judged by Csv!WriterAccepts    *)
(*              (spec/Trace_C51.tla) and must parse back (real parser) to the given frame      *)
EXTENDS Csv, Json, FiniteSets

CONSTANT Tier

fA == <<97>>       fComma == <<44>>   fDQ == <<34>>   fCR == <<13>>   fLF == <<10>>   fSp == <<32>>
fE == <<233>>      fEmpty == <<>>     fNum == <<49, 50>>   fSemi == <<59>>

AlphaFull  == {fA, fComma, fDQ, fCR, fLF, fSp, fE, fEmpty, fNum}
AlphaMid   == {fA, fComma, fDQ, fLF, fEmpty}
AlphaExtra == {<<34, 34>>, <<97, 44, 98>>, <<13, 10>>, <<97, 34, 98>>, <<32, 97, 32>>, <<97, 59, 98>>, <<34, 44, 34>>}

Tuples(n, alpha) == [1..n -> alpha]

-----------------------------------------------------------------------------
(* parse family *)

ParseFirsts ==
  IF Tier = "quick" THEN Tuples(1, AlphaFull) \cup Tuples(2, AlphaFull)
  ELSE Tuples(1, AlphaFull \cup AlphaExtra) \cup Tuples(2, AlphaFull \cup AlphaExtra) \cup Tuples(3, AlphaMid)

(* thorough, 3x3 sampled: all fields "a" except up to two positions that range over the full alphabet *)
Base33 == [i \in 1..3 |-> [j \in 1..3 |-> fA]]
Patch(t, i, j, v) == [t EXCEPT ![i][j] = v]
Sampled33(first) ==
  {t \in {Patch(Patch(Base33, i1, j1, v1), i2, j2, v2) :
            i1 \in 1..3, j1 \in 1..3, v1 \in AlphaFull, i2 \in 2..3, j2 \in 1..3, v2 \in AlphaFull} : t[1] = first}

TablesFrom(first) ==
  LET c == Len(first) IN
  IF Tier = "quick" THEN
       {<<first>>}
       \cup (IF c = 1 THEN {<<first, r>> : r \in Tuples(1, AlphaFull)} ELSE {})
       \cup (IF c = 2 /\ first \in Tuples(2, AlphaMid) THEN {<<first, r>> : r \in Tuples(2, AlphaMid)} ELSE {})
  ELSE {<<first>>}
       \cup (IF c = 1 THEN {<<first, r>> : r \in Tuples(1, AlphaFull \cup AlphaExtra)}
                           \cup {<<first, r, s>> : r \in Tuples(1, AlphaFull), s \in Tuples(1, AlphaFull)} ELSE {})
       \cup (IF c = 2 /\ first \in Tuples(2, AlphaFull) THEN {<<first, r>> : r \in Tuples(2, AlphaFull)} ELSE {})
       \cup (IF c = 3 THEN Sampled33(first) ELSE {})

Small(t) == Len(t) * Len(t[1]) <= 2
Variant(q, l, tr, s, h) == [qmode |-> q, le |-> l, trail |-> tr, sep |-> s, header |-> h]
OptSets == {<<cComma, TRUE>>, <<cComma, FALSE>>, <<cSemi, FALSE>>, <<cSemi, TRUE>>}

Variants(t) ==
  IF Tier = "quick" THEN
     IF Small(t)
     THEN {Variant(q, l, tr, o[1], o[2]) : q \in {"min", "all"}, l \in {"LF", "CRLF"}, tr \in BOOLEAN,
                                            o \in {<<cComma, TRUE>>, <<cComma, FALSE>>, <<cSemi, FALSE>>}}
     ELSE {Variant("min", l, FALSE, cComma, TRUE) : l \in {"LF", "CRLF"}} \cup {Variant("odd", "LF", TRUE, cComma, FALSE)}
  ELSE
     IF Small(t)
     THEN {Variant(q, l, tr, o[1], o[2]) : q \in {"min", "all", "odd"}, l \in {"LF", "CRLF"}, tr \in BOOLEAN, o \in OptSets}
     ELSE IF Len(t[1]) = 1
     THEN {Variant(q, l, tr, cComma, h) : q \in {"min", "all"}, l \in {"LF", "CRLF"}, tr \in BOOLEAN, h \in BOOLEAN}
     ELSE {Variant(q, l, FALSE, o[1], o[2]) : q \in {"min", "odd"}, l \in {"LF", "CRLF"}, o \in {<<cComma, TRUE>>, <<cSemi, FALSE>>}}

(* The one ambiguity of the format itself: a last record consisting of a single empty unquoted *)
(* field is indistinguishable from a trailing line end.  Such renderings are not documents of  *)
(* the table and are skipped.                                                                   *)
Ambiguous(t, v) == LET last == t[Len(t)] IN Len(last) = 1 /\ last[1] = <<>> /\ ~Quoted(last[1], v.sep, v.qmode, Len(t), 1)

-----------------------------------------------------------------------------
(* malformed family *)
Q(s) == <<cDQ>> \o s \o <<cDQ>>
Malformed ==
  { <<cDQ>> \o <<97, 98, 99>>,                                  \* "abc
    <<97, cDQ, 98>>,                                            \* a"b
    Q(<<97>>) \o <<98, cComma, 99>>,                            \* "a"b,c
    <<97, cComma, cDQ, 98>>,                                    \* a,"b
    Q(<<97>>) \o <<cDQ>>,                                       \* "a""
    <<97, cComma, 98, cLF>> \o <<cDQ, 99, cLF, 100>>,           \* a,b\n"c\nd
    <<97, cComma, 98, cDQ, cLF, 99, cComma, 100>>,              \* a,b"\nc,d
    <<cDQ>>,                                                    \* "
    <<cDQ, cDQ, cDQ>>,                                          \* """
    Q(<<97>>) \o <<32>> \o <<cComma, 98>>,                      \* "a" ,b
    <<32>> \o Q(<<97>>) \o <<cComma, 98>>,                      \*  "a",b
    <<97, cLF>> \o <<cDQ, 98, cComma, 99>> }                    \* a\n"b,c

-----------------------------------------------------------------------------
(* write family: frames of documented values *)
VA == VStr(fA)
WValsFull == {VA, VStr(fComma), VStr(fDQ), VStr(fLF), VStr(fCR), VStr(fSp), VStr(fE), VNull, VInt(fNum), VInt(<<55>>)}
WValsMid  == {VA, VStr(fComma), VNull, VInt(fNum)}
HeaderNames == <<VStr(<<104>>), VStr(<<107>>), VStr(<<109>>)>>                              \* "h" "k" "m"
Hdr(c) == SubSeq(HeaderNames, 1, c)

WriteFirsts ==
  IF Tier = "quick" THEN Tuples(1, WValsFull) \cup Tuples(2, WValsFull)
  ELSE Tuples(1, WValsFull) \cup Tuples(2, WValsFull) \cup Tuples(3, WValsMid)

WRowsFrom(first) ==
  LET c == Len(first) IN
  {<<first>>}
  \cup (IF c = 1 THEN {<<first, r>> : r \in Tuples(1, WValsFull)} ELSE {})
  \cup (IF c = 2 /\ first \in Tuples(2, WValsMid) THEN {<<first, r>> : r \in Tuples(2, WValsMid)} ELSE {})
  \cup (IF Tier = "thorough" /\ c = 2 THEN {<<first, r>> : r \in Tuples(2, WValsFull)} ELSE {})
  \cup (IF Tier = "thorough" /\ c = 3 THEN {<<first, r>> : r \in Tuples(3, WValsMid)} ELSE {})
  \cup (IF first = [j \in 1..c |-> VA] THEN {<<>>} ELSE {})                                 \* a frame without rows

NullBackslashN == <<92, 78>>       \* the documented example null_value('\\N')
WOpt(s, l, h, n) == [sep |-> s, le |-> l, header |-> h, nulltext |-> n]
WOpts(rows) ==
  IF rows = <<>> THEN {WOpt(cComma, l, h, <<>>) : l \in {"LF", "CRLF"}, h \in BOOLEAN}
  ELSE IF Tier = "quick" /\ Len(rows) = 2 /\ Len(rows[1]) = 2
  THEN {WOpt(cComma, "LF", h, <<>>) : h \in BOOLEAN}
  ELSE IF Tier = "quick" /\ Len(rows) * Len(rows[1]) = 2
  THEN {WOpt(cComma, l, h, n) : l \in {"LF", "CRLF"}, h \in BOOLEAN, n \in {<<>>, NullBackslashN}}
  ELSE IF Len(rows) * Len(rows[1]) > 2
  THEN {WOpt(cComma, "LF", h, <<>>) : h \in BOOLEAN} \cup {WOpt(cSemi, "CRLF", FALSE, NullBackslashN)}
  ELSE {WOpt(s, l, h, n) : s \in {cComma, cSemi}, l \in {"LF", "CRLF"}, h \in BOOLEAN, n \in {<<>>, NullBackslashN}}

-----------------------------------------------------------------------------
VARIABLES phase, fam, first, case
vars == <<phase, fam, first, case>>

NoCase == [text |-> <<>>]

Init == /\ phase = "pick" /\ case = NoCase
        /\ \/ fam = "parse" /\ first \in ParseFirsts
           \/ fam = "malformed" /\ first \in {<<m>> : m \in Malformed}
           \/ fam = "write" /\ first \in WriteFirsts

ParseCase(t, v) ==
  LET text == Encode(t, v.sep, v.qmode, v.le, v.trail)
      f    == Frame(text, v.sep, v.header)
  IN [text |-> text, sep |-> v.sep, header |-> v.header, st |-> f.st, h |-> f.h, rows |-> f.rows,
      table |-> t, qmode |-> v.qmode, le |-> v.le, trail |-> v.trail]

WriteCase(c, rows, o) ==
  [text |-> <<>>, sep |-> o.sep, header |-> o.header, st |-> "write", h |-> Hdr(c), rows |-> rows,
   le |-> o.le, nulltext |-> o.nulltext]

Next ==
  /\ phase = "pick" /\ phase' = "case" /\ UNCHANGED <<fam, first>>
  /\ \/ /\ fam = "parse"
        /\ \E t \in TablesFrom(first) : \E v \in Variants(t) :
             /\ ~Ambiguous(t, v)
             /\ case' = ParseCase(t, v)
             /\ case'.st # "unspec"
     \/ /\ fam = "malformed"
        /\ \E s \in {cComma, cSemi} : \E h \in BOOLEAN :
             case' = [text |-> first[1], sep |-> s, header |-> h, st |-> ParseDoc(first[1], s).st, h |-> <<>>, rows |-> <<>>]
     \/ /\ fam = "write"
        /\ \E rows \in WRowsFrom(first) : \E o \in WOpts(rows) : case' = WriteCase(Len(first), rows, o)

-----------------------------------------------------------------------------
(* the frame the real parser must return for a text written from (h, rows) with null text n:  *)
(* [] fields read back as [] only with the default null_value(empty)                           *)
ReadBack(v, n) == IF v.k = "n" /\ n # <<>> THEN VStr(n) ELSE v

Emit ==
  phase = "case" =>
  CASE fam = "parse" ->
         /\ case.st = "ok"                                   \* every generated document is in the grammar
         /\ Texts(ParseDoc(case.text, case.sep).recs) = case.table          \* Parse(Encode(t)) = t
         /\ PrintT(ToJson([fam |-> fam, text |-> case.text, sep |-> case.sep, header |-> case.header,
                           h |-> case.h, rows |-> case.rows, qmode |-> case.qmode, le |-> case.le, trail |-> case.trail,
                           dims |-> <<Len(case.table), Len(case.table[1])>>]))
    [] fam = "malformed" ->
         /\ case.st = "malformed"
         /\ PrintT(ToJson([fam |-> fam, text |-> case.text, sep |-> case.sep, header |-> case.header]))
    [] fam = "write" ->
         PrintT(ToJson([fam |-> fam, sep |-> case.sep, header |-> case.header, le |-> case.le, nulltext |-> case.nulltext,
                        h |-> case.h, rows |-> case.rows,
                        back |-> [i \in 1..Len(case.rows) |-> [j \in 1..Len(case.rows[i]) |-> ReadBack(case.rows[i][j], case.nulltext)]]]))

-----------------------------------------------------------------------------
(* sanity theorems *)
ASSUME GrammarExamples ==
  /\ Texts(ParseDoc(<<97, 44, 98, 10, 49, 44, 50>>, cComma).recs) = <<<<fA, <<98>>>>, <<<<49>>, <<50>>>>>>
  /\ Texts(ParseDoc(<<97, 44, 98, 13, 10, 49, 44, 50, 13, 10>>, cComma).recs) = <<<<fA, <<98>>>>, <<<<49>>, <<50>>>>>>
  /\ Texts(ParseDoc(Q(<<97, 34, 34, 44, 10>>) \o <<44, 98>>, cComma).recs) = <<<<<<97, 34, 44, 10>>, <<98>>>>>>
  /\ ParseDoc(<<97, 59, 98>>, cSemi).recs = <<<<PField(fA, FALSE), PField(<<98>>, FALSE)>>>>
  /\ ParseDoc(<<97, 13, 98>>, cComma).st = "unspec"
  /\ Frame(<<111, 44, 50, 44, 44, 116>>, cComma, FALSE) =
       [st |-> "ok", h |-> <<>>, rows |-> <<<<VStr(<<111>>), VInt(<<50>>), VNull, VStr(<<116>>)>>>>]
ASSUME WriterExamples ==
  /\ WriterAccepts(<<104, 10, 97, 10>>, <<VStr(<<104>>)>>, <<<<VA>>>>, cComma, "LF", TRUE, <<>>)
  /\ WriterAccepts(<<104, 13, 10, 34, 44, 34>>, <<VStr(<<104>>)>>, <<<<VStr(fComma)>>>>, cComma, "CRLF", TRUE, <<>>)
  /\ ~WriterAccepts(<<104, 10, 44>>, <<VStr(<<104>>)>>, <<<<VStr(fComma)>>>>, cComma, "LF", TRUE, <<>>)
  /\ ~WriterAccepts(<<91, 97, 93>>, <<>>, <<<<VA>>>>, cComma, "LF", FALSE, <<>>)
  /\ WriterAccepts(<<49, 50, 44, 92, 78>>, <<>>, <<<<VInt(fNum), VNull>>>>, cComma, "LF", FALSE, NullBackslashN)
=============================================================================
