---------------------------- MODULE TermUniverse ----------------------------
(* The universes of terms shared by MC_C10 (unification) and MC_C23 (term inspection):        *)
(* sequences of build trees (TermsExt) of depth <= 2 over the variables X, Y, Z (with sharing), *)
(* atoms, small and big integers (literal and computed), a float, a rational, strings / lists / *)
(* partial lists / partial strings and the structures f/1, g/2.                                 *)
(*   UQ  the quick universe (hand-picked, every kind and every sharing pattern)                 *)
(*   UT  the thorough universe: UQ plus a grammar of depth <= 2                                 *)
EXTENDS TermsExt

X == V("X")
Y == V("Y")
Z == V("Z")
a == A("a")
b == A("b")
c == A("c")
Ch(s) == Chars(s)
P70 == Pow2T(70)
F10 == FloatT("3ff0000000000000")
R13 == Rd(I(1), I(3))
f(x) == C1("f", x)
g(x, y) == C2("g", x, y)
Sab == Str(Ch(<<"a", "b">>))
Sb  == Str(Ch(<<"b">>))

Leaves == <<X, Y, Z, a, b, I(1), P70, Calc(P70), F10, R13, Nil>>

UQ == Leaves \o
  <<f(X), f(Y), f(a), f(b), f(f(X)), f(f(a)), f(P70), f(Calc(P70)), f(I(1)), f(Calc(I(1))),
    g(X, Y), g(Y, X), g(X, X), g(a, X), g(X, a), g(a, b), g(X, f(X)), g(f(Y), Y), g(f(X), f(a)),
    g(Y, f(Z)), g(Z, Z), g(a, a), g(f(Y), X), g(X, g(Y, Z)), g(f(X), f(Y)), g(Y, g(X, X)),
    Sab, ListOf(<<a, b>>), Cons(a, X), Cons(a, Sb), PStr(Ch(<<"a", "b">>), Y), PStr(Ch(<<"a">>), Z),
    ListOf(<<X, b>>), Cons(X, Y), PListOf(<<a, b>>, Z), Str(Ch(<<"a">>)), ListOf(<<a>>), ListOf(<<X>>),
    Cons(a, b), UnivCons(a, X), Str(Ch(<<"a", "b", "c">>)), ListOf(<<X, Y>>), ListOf(<<Y, X>>),
    PListOf(<<a, X>>, Y), Cons(X, X), PStr(Ch(<<"a">>), X), Cons(Y, Sb), ListOf(<<X, X>>),
    PStr(Ch(<<"a">>), Sb), Cons(X, ListOf(<<X>>)), g(X, Sab), g(Sab, Cons(a, Y))>>

(* thorough: a grammar of depth <= 2 *)
Prod(F(_, _), s1, s2) ==
  [k \in 1..(Len(s1) * Len(s2)) |-> F(s1[((k - 1) \div Len(s2)) + 1], s2[((k - 1) % Len(s2)) + 1])]
Map1(F(_), s) == [k \in 1..Len(s) |-> F(s[k])]
L1 == <<X, Y, Z, a, b, P70>>
Strs == <<Str(Ch(<<"a">>)), Sab, Str(Ch(<<"a", "b", "c">>)), PStr(Ch(<<"a", "b">>), Y), PStr(Ch(<<"a">>), Z),
          PStr(Ch(<<"a">>), Sb), PStr(Ch(<<"a", "b">>), X)>>
D1 == Map1(f, Leaves) \o Prod(g, L1, L1) \o Prod(Cons, <<X, Y, a, b>>, <<X, Y, Z, Nil, Sb, b>>) \o Strs
Mid == <<f(X), f(Y), f(a), g(X, Y), g(Y, X), g(X, X), g(a, Z), Cons(a, X), Cons(X, Y), Cons(a, Nil), Sab,
         PStr(Ch(<<"a">>), Z)>>
ArgL == <<X, Y, a, P70>>
D2 == Map1(f, Mid) \o Prod(g, Mid, ArgL) \o Prod(g, ArgL, Mid) \o Prod(g, <<f(X), f(Y), f(a), g(X, Y), Cons(a, X), Sab>>,
                                                                     <<f(X), f(Z), f(b), g(Y, X), Cons(a, Y), Cons(a, Sb)>>)
      \o Prod(Cons, <<X, a, f(X), f(Y)>>, <<Cons(a, X), Cons(X, Y), Cons(b, Nil), Sab, Sb, PStr(Ch(<<"a">>), Z),
                                            PStr(Ch(<<"b">>), Y)>>)
UT == UQ \o D1 \o D2

RECURSIVE DenAll(_, _)
DenAll(u, k) == IF k > Len(u) THEN <<>> ELSE <<Den(u[k])>> \o DenAll(u, k + 1)
Force(fn) == fn \o <<>>        \* a lazily evaluated function over 1..n as a tuple
=============================================================================
