------------------------------- MODULE MC_C27 -------------------------------
(* C27: clp(Z) labeling is sound and complete on finite domains.                             *)
(* Each state of phase "case" is one constraint system drawn from the template grammar     *)
(* below (expression depth <= 2, reification depth <= 2, <= MaxC constraints, <= 3          *)
(* variables, domains inside -3..4).  The grammar is far too large to enumerate, so the     *)
(* cases are a deterministic pseudo-random sample: case n is a pure function of            *)
(* (VERIF_SEED, n) through a Lehmer generator written in TLA+ (no reliance on TLC's own     *)
(* randomisation, so that the same seed gives the same vectors at any worker count).        *)
(* For every case the specification (module Clpz) computes the solutions in lexicographic   *)
(* order, for every constraint its truth value (and whether its Boolean positions hold 0/1) *)
(* on every assignment of the domains, per-variable projections of the solutions and the    *)
(* value of an objective expression; the driver replays the case against library(clpz).    *)
EXTENDS Clpz, Json, IOUtils, TLC

CONSTANTS NCases,   \* number of cases
          MaxC,     \* maximal number of constraints per system
          Groups    \* number of initial states (parallelism)

EnvSeed == atoi(IOEnv.VERIF_SEED)    \* read once in Init (IOEnv is expensive) and carried in the variable sd

(* Lehmer / Park-Miller minimal standard generator with Schrage's decomposition: every      *)
(* intermediate value stays below 2^31.                                                     *)
Nxt(s) == LET t == 16807 * (s % 127773) - 2836 * (s \div 127773)
          IN IF t > 0 THEN t ELSE t + 2147483647

RECURSIVE Str(_, _, _)
Str(s, k, acc) == IF k = 0 THEN acc ELSE Str(Nxt(s), k - 1, Append(acc, s))

StreamLen == 320
Stream(n, Seed) ==
  LET s0 == 1 + ((((((Seed % 30011) + 30011) % 30011) * 30013) + (n * 7)) % 2147483646)
  IN Str(Nxt(Nxt(Nxt(s0))), StreamLen, <<>>)

(* ---------------------------------------------------------------------------------------- *)
(* Template grammar.  R is the random stream of the case; every syntactic position reads    *)
(* fixed slots of R, so the shape of one subterm does not shift the choices of another.     *)
Consts == <<-4, -3, -2, -1, 0, 1, 2, 3, 4, 5>>
Pick(R, b, k) == R[b] % k
Of(R, b, seq) == seq[1 + (R[b] % Len(seq))]

IntE(i)  == [k |-> "int", i |-> i]
VarE(i)  == [k |-> "var", i |-> i]

\* leaf: slots b, b+1
Leaf(R, b, nv) == IF Pick(R, b, 100) < 60 THEN VarE(1 + Pick(R, b + 1, nv)) ELSE IntE(Of(R, b + 1, Consts))
VarLeaf(R, b, nv) == VarE(1 + Pick(R, b + 1, nv))

W(d) == IF d = 0 THEN 3 ELSE IF d = 1 THEN 9 ELSE 21
\* expression of depth <= d: slots b .. b+W(d)-1
RECURSIVE Expr(_, _, _, _)
Expr(R, b, d, nv) ==
  IF d = 0 THEN Leaf(R, b + 1, nv)
  ELSE LET t == Pick(R, b, 100) IN
       IF t < 25 THEN Leaf(R, b + 1, nv)
       ELSE IF t < 35 THEN [k |-> "un", op |-> Of(R, b + 1, UnOps), l |-> Expr(R, b + 3, d - 1, nv)]
       ELSE LET op == Of(R, b + 1, BinOps) IN
            IF op = "^"   \* keep powers small: base and exponent are leaves
              THEN [k |-> "bin", op |-> op, l |-> Leaf(R, b + 4, nv), r |-> Leaf(R, b + 4 + W(d - 1), nv)]
              ELSE [k |-> "bin", op |-> op, l |-> Expr(R, b + 3, d - 1, nv),
                    r |-> Expr(R, b + 3 + W(d - 1), d - 1, nv)]

\* relation with sides of depth <= dl and <= dr: slots b .. b+W(dl)+W(dr)
RelW(dl, dr) == 1 + W(dl) + W(dr)
Rel(R, b, dl, dr, nv) ==
  [k |-> "rel", op |-> Of(R, b, RelOps), l |-> Expr(R, b + 1, dl, nv), r |-> Expr(R, b + 1 + W(dl), dr, nv)]

\* a sub-domain of -3..4 for a reified in/2: slots b, b+1
SubDom(R, b) == LET lo == -3 + Pick(R, b, 8)
                    hi == lo + Pick(R, b + 1, 5 - lo)
                IN lo..hi

\* reifiable formula of connective depth <= d: slots b .. b+PW(d)-1
PW(d) == IF d = 0 THEN 22 ELSE IF d = 1 THEN 46 ELSE 94
Atomic(R, b, nv) ==
  LET t == Pick(R, b, 100) IN
  IF t < 70 THEN Rel(R, b + 2, 1, 1, nv)
  ELSE IF t < 85 THEN [k |-> "bvar", i |-> 1 + Pick(R, b + 1, nv)]
  ELSE IF t < 95 THEN [k |-> "in", i |-> 1 + Pick(R, b + 1, nv), d |-> SubDom(R, b + 2)]
  ELSE [k |-> "bint", i |-> Pick(R, b + 1, 2)]
RECURSIVE Form(_, _, _, _, _)
Form(R, b, d, nv, top) ==
  IF d = 0 THEN Atomic(R, b + 1, nv)
  ELSE LET t == Pick(R, b, 100) IN
       IF ~top /\ t < 40 THEN Atomic(R, b + 1, nv)
       ELSE IF t < 52 THEN [k |-> "not", l |-> Form(R, b + 2, d - 1, nv, FALSE)]
       ELSE [k |-> "conn", op |-> Of(R, b + 1, ConnOps), l |-> Form(R, b + 2, d - 1, nv, FALSE),
             r |-> Form(R, b + 2 + PW(d - 1), d - 1, nv, FALSE)]

RECURSIVE Leaves(_, _, _, _)
Leaves(R, b, len, nv) == IF len = 0 THEN <<>> ELSE <<Leaf(R, b, nv)>> \o Leaves(R, b + 2, len - 1, nv)

\* top-level constraint: slots b .. b+CW-1
CW == 1 + PW(2)
Con(R, b, nv) ==
  LET t == Pick(R, b, 100) IN
  IF t < 38 THEN Rel(R, b + 1, 2, 1, nv)
  ELSE IF t < 75 THEN Form(R, b + 1, 2, nv, TRUE)
  ELSE IF t < 87 THEN [k |-> "distinct", op |-> Of(R, b + 1, <<"all_distinct", "all_different">>),
                       xs |-> Leaves(R, b + 3, 2 + Pick(R, b + 2, 2), nv)]
  ELSE [k |-> "sum", op |-> Of(R, b + 1, RelOps), xs |-> Leaves(R, b + 3, 1 + Pick(R, b + 2, 3), nv),
        r |-> Expr(R, b + 12, 1, nv)]

\* domain of a variable: an interval inside -3..4 (width biased upwards: the larger of two draws),
\* one time in three with a hole: slots b, b+1, b+2
DomOf(R, b) ==
  LET lo == -3 + Pick(R, b, 6)
      sp == 5 - lo
      w  == Max2(Pick(R, b + 1, sp), (R[b + 1] \div 1024) % sp)
      hi == lo + w
      iv == lo..hi
      h  == lo + 1 + Pick(R, b + 2, 8)
  IN IF h < hi /\ (R[b + 2] \div 1024) % 3 = 0 THEN iv \ {h} ELSE iv

Sels == <<"leftmost", "ff", "ffc", "min", "max">>
Ords == <<"up", "down">>
Brs  == <<"step", "enum", "bisect">>

GenCase(R, n) ==
  LET nv == LET t == Pick(R, 1, 100) IN IF t < 15 THEN 1 ELSE IF t < 60 THEN 2 ELSE 3
      nc == 1 + Pick(R, 2, MaxC)
  IN [n |-> n, nv |-> nv,
      dom |-> [i \in 1..nv |-> DomOf(R, 3 * i)],
      sys |-> [j \in 1..nc |-> Con(R, 30 + (j - 1) * CW, nv)],
      \* the 30 combinations of labeling options are cycled through by the case number
      opts |-> <<Sels[1 + (n % 5)], Ords[1 + ((n \div 5) % 2)], Brs[1 + ((n \div 10) % 3)]>>,
      obj |-> [dir |-> Of(R, 12, <<"min", "max">>), e |-> Expr(R, 13, 1, nv)]]

(* ---------------------------------------------------------------------------------------- *)
VARIABLES phase, g, sd, c
vars == <<phase, g, sd, c>>

Init == phase = "pick" /\ g \in 0..(Groups - 1) /\ sd = EnvSeed /\ c = <<>>
Next ==
  /\ phase = "pick" /\ phase' = "case" /\ sd' = sd
  /\ g' \in {n \in 1..NCases : n % Groups = g}
  /\ c' = GenCase(Stream(g', sd), g')

(* sanity of the specification itself: the ordered enumeration is the set comprehension *)
Sane ==
  phase = "case" =>
    LET ls == LexSolutions(c.sys, c.nv, c.dom)
        S  == Solutions(c.sys, c.nv, c.dom)
    IN /\ Len(ls) = Cardinality(S)
       /\ {ls[i] : i \in 1..Len(ls)} = {[i \in 1..c.nv |-> a[i]] : a \in S}
       /\ \A i \in 1..(Len(ls) - 1) :
            \E p \in 1..c.nv : ls[i][p] < ls[i + 1][p] /\ \A q \in 1..(p - 1) : ls[i][q] = ls[i + 1][q]
       /\ Len(LexAssignments(c.nv, c.dom)) = Cardinality(Assignments(c.nv, c.dom))

RECURSIVE UnionKinds(_, _)
UnionKinds(sys, j) == IF j > Len(sys) THEN {} ELSE Kinds(sys[j]) \cup UnionKinds(sys, j + 1)

Emit ==
  phase = "case" =>
    LET as == LexAssignments(c.nv, c.dom)
        ms == [j \in 1..Len(c.sys) |-> HoldsMask(c.sys[j], as)]
        Ok(a) == \A j \in 1..Len(c.sys) : Holds(c.sys[j], a)
        ls == SelectSeq(as, Ok)
        ov == [i \in 1..Len(ls) |-> Eval(c.obj.e, ls[i])]
    IN PrintT(ToJson(
         [n |-> c.n, nv |-> c.nv,
          dom |-> [i \in 1..c.nv |-> Sorted(c.dom[i])],
          sys |-> c.sys,
          sols |-> ls,                          \* solutions in lexicographic order
          masks |-> ms,                         \* per constraint: 0/1 over the lexicographic assignments
          bmasks |-> [j \in 1..Len(c.sys) |->   \* per constraint: are all Boolean positions 0/1 under the assignment
                       [i \in 1..Len(as) |-> IF BoolOK(c.sys[j], as[i]) THEN 1 ELSE 0]],
          nassign |-> Len(as),
          proj |-> [i \in 1..c.nv |-> Sorted({ls[j][i] : j \in 1..Len(ls)})],
          partial |-> \E i \in 1..Len(as) : \E j \in 1..Len(c.sys) : ~AllDefined(c.sys[j], as[i]),
          kinds |-> UnionKinds(c.sys, 1),
          opts |-> c.opts,
          obj |-> c.obj,
          objdef |-> \A i \in 1..Len(as) : Eval(c.obj.e, as[i]).ok,
          objv |-> [i \in 1..Len(ls) |-> ov[i].v]]))
=============================================================================
