------------------------------- MODULE MC_C35 -------------------------------
(* C35: reloading a program is idempotent.                                                      *)
(* TLC enumerates scenarios = (kinds of the two sources, API per source, three texts); each is   *)
(* one session on one machine: the concatenation of all history shapes of 3-6 loads over the     *)
(* operations 1 = s1 loads T1, 2 = s1 loads T2, 3 = s2 loads T3.  TLC walks the                   *)
(* history through Loader!LoadText, checks the laws of the loader specification itself           *)
(* (idempotence, replacement, independence of owners, footprint of a no-op load) and prints one  *)
(* vector per history: the operations, the texts, and after every load the expected outcome of   *)
(* the probe query of every predicate (answers of Prolog.tla on the clauses of the state),       *)
(* whether the load was the identity on the abstract state and its repetition count k.           *)
EXTENDS Loader, Json

CONSTANT Tier

Code(f, cs, fl) == [fam |-> f, cs |-> cs, fl |-> fl]

Singles == { {x} : x \in Flags }
FlagSetsQ == Singles \cup {Flags}
Pairs == { {x, y} : x \in {"dyn", "disc", "multi", "init", "op"}, y \in Flags }     \* includes the singletons of the first five
FlagSetsT == Pairs \cup {Flags, {}} \cup { Flags \ {x} : x \in Flags }

(* a fixed numbering of the flag sets so that the clause sets vary with them *)
FlagIdx(fl) == Cardinality(fl) + (IF "dyn" \in fl THEN 1 ELSE 0) + (IF "multi" \in fl THEN 2 ELSE 0)
               + (IF "op" \in fl THEN 3 ELSE 0) + (IF "float" \in fl THEN 4 ELSE 0) + (IF "str" \in fl THEN 5 ELSE 0)
               + (IF "init" \in fl THEN 1 ELSE 0) + (IF "long" \in fl THEN 2 ELSE 0) + (IF "big" \in fl THEN 3 ELSE 0)

(* feature-centred triples: the feature set in T1 (reloaded), absent from T2 (replacement), present in T3 (other source) *)
FeatureTriples(FS) == { <<Code("x", (FlagIdx(fl) % 6) + 1, fl), Code("x", ((FlagIdx(fl) + 2) % 7), {}), Code("y", ((FlagIdx(fl) + 4) % 7), fl)>> : fl \in FS }
(* clause-centred triples *)
ClauseTriplesQ == { <<Code("x", cs, {}), Code("x", (cs % 6) + 1, {"disc"}), Code("y", 5, {"multi"})>> : cs \in 1..6 }
ClauseTriplesT == { <<Code("x", c1, f1), Code("x", c2, {"disc", "dyn"}), Code("y", c3, {"multi", "disc"})>> :
                      c1 \in 1..6, c2 \in {0, 3, 6}, c3 \in {3, 5}, f1 \in {{}, {"multi", "dyn"}} }
Triples == IF Tier = "quick" THEN FeatureTriples(FlagSetsQ) \cup ClauseTriplesQ
           ELSE FeatureTriples(FlagSetsT) \cup ClauseTriplesT

(* one session = one Machine: the history shapes over the operations 1 = s1 loads T1, 2 = s1 loads T2, 3 = s2 loads T3, *)
(* concatenated (the loader state is carried along; a Machine boot costs as much as a hundred loads)                    *)
ShapeSeqQ == << <<1, 1, 1, 1>>, <<2, 2, 1, 1, 1>>, <<3, 1, 3, 1>>, <<2, 1, 2, 1>>, <<3, 3, 1, 1, 3, 3>>,
                <<2, 3, 2, 3, 2>>, <<2, 2, 3, 1, 1>>, <<3, 3, 2, 2, 2, 1>> >>
AllLen3 == [i \in 1..27 |-> <<(((i - 1) \div 9) % 3) + 1, (((i - 1) \div 3) % 3) + 1, ((i - 1) % 3) + 1>>]
ShapeSeqT == AllLen3 \o << <<1, 1, 1, 1, 1>>, <<3, 3, 3, 3, 3>>, <<2, 2, 2, 2, 2>> >>
RECURSIVE Flat(_)
Flat(ss) == IF ss = <<>> THEN <<>> ELSE Head(ss) \o Flat(Tail(ss))
Slots == Flat(IF Tier = "quick" THEN ShapeSeqQ ELSE ShapeSeqT)
(* the split program: s2 holds only the declaration `:- dynamic(d_x/1)`, s1 the clauses of d_x/1 (two versions); s2 is   *)
(* loaded first and never again (what a later declaration does to the clauses of another file is not specified)         *)
SplitSlots == <<3, 1, 1, 1, 2, 2, 1, 1>>
SlotsOf(s) == IF s.split THEN SplitSlots ELSE Slots

KindPairs == { <<"str", "str">>, <<"file", "file">>, <<"str", "file">> }
ApiPairs  == { <<"load", "load">>, <<"consult", "consult">>, <<"load", "consult">> }

(* with one common owner ("user") the two sources may define the same predicates: T3 moves to family x *)
SplitTriples == { <<Code("x", c1, {"dcl"}), Code("x", c2, {"dcl", "dcl2"}), Code("y", 0, {"xdyn"})>> : c1 \in {1, 4}, c2 \in {2} }
Scenarios == { [kinds |-> kp, apis |-> ap, t |-> tr, same |-> sm, split |-> FALSE] :
                 kp \in KindPairs, ap \in ApiPairs, tr \in Triples, sm \in {FALSE, TRUE} }
             \cup { [kinds |-> <<"file", "file">>, apis |-> ap, t |-> tr, same |-> FALSE, split |-> TRUE] :
                      ap \in ApiPairs, tr \in SplitTriples }
Admissible(s) == s.same => (s.kinds = <<"str", "str">> /\ s.t[3].cs \in {1, 3, 5})

(* texts of the anonymous owner agree on declaring p/q discontiguous (see Loader: outside the model otherwise) *)
WithDisc(code, on) == [code EXCEPT !.fl = IF on THEN @ \cup {"disc"} ELSE @ \ {"disc"}]
T1Of(s) == s.t[1]
T2Of(s) == IF s.kinds[1] = "str" THEN WithDisc(s.t[2], "disc" \in s.t[1].fl) ELSE s.t[2]
T3Of(s) == IF s.same THEN WithDisc([s.t[3] EXCEPT !.fam = "x"], "disc" \in s.t[1].fl) ELSE s.t[3]
OpOf(s, slot) == CASE slot = 1 -> [src |-> "s1", kind |-> s.kinds[1], api |-> s.apis[1], code |-> T1Of(s)]
                   [] slot = 2 -> [src |-> "s1", kind |-> s.kinds[1], api |-> s.apis[1], code |-> T2Of(s)]
                   [] slot = 3 -> [src |-> "s2", kind |-> s.kinds[2], api |-> s.apis[2], code |-> T3Of(s)]
Ops(s) == [j \in 1..Len(SlotsOf(s)) |-> OpOf(s, SlotsOf(s)[j])]
Do(L, op) == LoadText(L, op.src, op.kind, op.code)

(* the states along a history: <<L0, L1, .., Ln>> *)
RECURSIVE StatesFrom(_, _, _)
StatesFrom(ops, j, acc) == IF j > Len(ops) THEN acc ELSE StatesFrom(ops, j + 1, Append(acc, Do(acc[Len(acc)], ops[j])))
StatesOf(ops) == StatesFrom(ops, 1, <<L0>>)

(* predicates worth probing in a scenario: everything some text of it defines or calls *)
ProbeKeys(s) == LET ds == DefKeys(Text(T1Of(s))) \cup DefKeys(Text(T2Of(s))) \cup DefKeys(Text(T3Of(s)))
                IN ds \cup { <<PN("x"), 1>>, <<PN("y"), 1>> }
ProbeSeq(s) == SelectSeq(KeySeq, LAMBDA K : K \in ProbeKeys(s))

(* a load that is the identity on the state leaves every probe outcome as it was: reuse it *)
RECURSIVE Walk(_, _, _, _, _)
Walk(ops, sts, ks, j, acc) ==
  IF j > Len(ops) THEN acc
  ELSE LET before == sts[j]
           after  == sts[j + 1]
           noop   == after = before
           info   == [noop   |-> noop,
                      k      |-> Cardinality({i \in 1..j : ops[i] = ops[j]}),
                      probes |-> IF noop /\ j > 1 THEN <<>>                                                    \* <<>>: as after the previous load
                                 ELSE LET dk == SelectSeq(ks, LAMBDA K : K \in after.dyn /\ K[2] = 1)
                                      IN [i \in 1..Len(ks) |-> Probe(after, ks[i])] \o [i \in 1..Len(dk) |-> ProbeCl(after, dk[i])]]
       IN Walk(ops, sts, ks, j + 1, Append(acc, info))
Steps(s, ops) == Walk(ops, StatesOf(ops), ProbeSeq(s), 1, <<>>)

VARIABLES phase, sc
Init == phase = "pick" /\ sc = [kinds |-> <<>>, split |-> FALSE]
Next == /\ phase = "pick"
        /\ \E s \in Scenarios : Admissible(s) /\ sc' = s
        /\ phase' = "case"

(* ---- laws of the specification (TLC decides them on every state of every history) ---- *)
OwnedBy(L, o, K) == SelectSeq(L.cl[K], LAMBDA c : c.own = o)
Laws ==
  phase = "case" =>
    LET ops == Ops(sc)
        sts == StatesOf(ops) IN
    \A j \in 1..Len(ops) :
      LET before == sts[j]
          op     == ops[j]
          after  == sts[j + 1]
          o      == Owner(op.src, op.kind)
          text   == Text(op.code)
      IN (* (A) idempotence: loading the same text by the same source again changes nothing *)
         /\ Do(after, op) = after
         (* replacement: a predicate the text defines holds, for this owner, exactly the clauses of the text *)
         /\ \A K \in DefKeys(text) : OwnedBy(after, o, K) = Tagged(text, K, o)
         /\ \A K \in DefKeys(text) \ after.multi : after.cl[K] = Tagged(text, K, o)
         (* a source with a file identity keeps nothing of its previous text *)
         /\ (op.kind = "file") => \A K \in AllKeys \ DefKeys(text) : OwnedBy(after, o, K) = <<>>
         (* independence: clauses of other owners are untouched, except that a non-multifile predicate is redefined as a whole *)
         /\ \A K \in AllKeys : (K \notin DefKeys(text) \/ K \in after.multi) =>
                SelectSeq(after.cl[K], LAMBDA c : c.own # o) = SelectSeq(before.cl[K], LAMBDA c : c.own # o)
         (* nothing is ever forgotten by the tables that only grow; the abstract footprint of a reload is that of the load *)
         /\ (after = before) => FootprintA(after) = FootprintA(before)
         /\ before.seen \subseteq after.seen /\ before.dyn \subseteq after.dyn /\ before.multi \subseteq after.multi

Emit ==
  phase = "case" =>
    LET ops == Ops(sc) IN
    PrintT(ToJson([kinds |-> sc.kinds, apis |-> sc.apis, same |-> sc.same,
                   ops   |-> [j \in 1..Len(ops) |-> [src |-> ops[j].src, kind |-> ops[j].kind, api |-> ops[j].api, slot |-> SlotsOf(sc)[j],
                                                     code |-> [fam |-> ops[j].code.fam, cs |-> ops[j].code.cs]]],
                   texts |-> <<Text(T1Of(sc)), Text(T2Of(sc)), Text(T3Of(sc))>>,
                   codes |-> <<T1Of(sc), T2Of(sc), T3Of(sc)>>,
                   steps |-> Steps(sc, ops)]))
=============================================================================
