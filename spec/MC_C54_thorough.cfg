CONSTANT Tier = "thorough"
CONSTANT Useq <- UThorough
INIT Init
NEXT Next
INVARIANT ReifTotal
INVARIANT Emit
