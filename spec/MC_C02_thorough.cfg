CONSTANT Tier = "thorough"
INIT Init
NEXT Next
INVARIANT TabOk
INVARIANT ResOk
INVARIANT Emit
