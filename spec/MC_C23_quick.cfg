CONSTANT Tier = "quick"
INIT Init
NEXT Next
INVARIANT CaseTheorems
INVARIANT Emit
