CONSTANTS Tier = "quick" MaxSteps = 400 MaxAns = 6
INIT Init
NEXT Next
INVARIANT Inv
INVARIANT Emit
