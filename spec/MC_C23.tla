------------------------------- MODULE MC_C23 -------------------------------
(* C23: term construction and inspection builtins match the term model (TermOps).             *)
(*                                                                                            *)
(* A case is a builtin with its argument tuple (build trees, TermsExt).  Initial states: one   *)
(* per (builtin, first argument); their successors add the remaining arguments, so that TLC's  *)
(* workers share the enumeration.  For every case TLC checks the theorems that tie the         *)
(* operators of TermOps to independent readings (subsumption by brute force, copy = variant    *)
(* with fresh variables, term_variables = the set of variables without duplicates, functor/univ *)
(* round trips) and prints the case with its expected result.  Cases whose unification would    *)
(* build a cyclic term are not printed (C24).                                                   *)
(* quick: the universe UQ of TermUniverse x every argument mode / ill-typed argument;           *)
(* thorough: UT, subsumes_term pairs selected by a hash of (i, j, seed).                        *)
EXTENDS TermOps, TermUniverse, Json, IOUtils

CONSTANT Tier   \* "quick" | "thorough"

U == IF Tier = "quick" THEN UQ ELSE UT
Seed == IF "C23_SEED" \in DOMAIN IOEnv THEN atoi(IOEnv.C23_SEED) ELSE 1
Rate == IF Tier = "quick" THEN 1 ELSE 4
Selected(r, s) == Rate = 1 \/ r = s \/ (((r * 7919) + (s * 104729) + ((r * s) % 1013) + (Seed * 31)) % Rate) = 0

Range(s) == {s[k] : k \in 1..Len(s)}

(* variables that occur in no universe term *)
W  == V("W")
N0 == V("N0")
A0 == V("A0")
L0 == V("L0")
V0 == V("V0")
V1 == V("V1")
foo == A("foo")

FunctorNames == <<N0, foo, A("f"), A("."), I(1), F10, C1("foo", a), Sab, Nil, X>>
FunctorArities == <<A0, I(0), I(1), I(2), I(3), I(-1), I(255), I(256), a, F10, P70, Calc(I(2)), R13>>
ArgNs   == <<N0, I(0), I(1), I(2), I(3), I(-1), a, F10, P70, Calc(I(1)), R13>>
ArgAs   == <<A0, a, X, f(Y), Sb>>
UnivLs  == <<L0, Nil, ListOf(<<foo>>), ListOf(<<foo, a>>), ListOf(<<foo, X, b>>), Cons(A("f"), Y), ListOf(<<I(1)>>),
             ListOf(<<I(1), a>>), ListOf(<<C1("foo", a)>>), ListOf(<<C1("foo", a), b>>), ListOf(<<V0>>), ListOf(<<V0, a>>),
             foo, Cons(foo, A("bar")), Sab, ListOf(<<A("f"), Sab>>), ListOf(<<A("g"), X, Y>>), ListOf(<<A("."), a, X>>),
             ListOf(<<F10>>), PStr(Ch(<<"a", "b">>), Y), Cons(A("f"), Sb), ListOf(<<P70>>), ListOf(<<Nil>>)>>
CopyCs  == <<A0, a, f(V0), g(V0, V0), X, Cons(V0, V1)>>
VarLs   == <<V0, Nil, ListOf(<<V0>>), Cons(V0, V1), foo, Cons(a, foo), Sab, Cons(X, V0), ListOf(<<Y, X>>)>>

UW == U \o <<W>>
FirstArgs(op) ==
  CASE op = "arg" -> Range(ArgNs)
    [] op \in {"functor", "univ"} -> Range(UW)
    [] OTHER -> Range(U)
(* the remaining arguments, as the set of tuples to append; i is the index of the first argument in U *)
RestArgs(op, first) ==
  CASE op = "functor"        -> {<<n, ar>> : n \in Range(FunctorNames), ar \in Range(FunctorArities)}
    [] op = "arg"            -> {<<t, aa>> : t \in Range(UW), aa \in Range(ArgAs)}
    [] op = "univ"           -> {<<l>> : l \in Range(UnivLs)}
    [] op = "copy_term"      -> {<<cc>> : cc \in Range(CopyCs)}
    [] op = "term_variables" -> {<<vs>> : vs \in Range(VarLs)}
    [] op = "ground"         -> {<<>>}
    [] op = "subsumes_term"  ->
         LET i == CHOOSE k \in 1..Len(U) : U[k] = first
         IN {<<U[j]>> : j \in {jj \in 1..Len(U) : Selected(i, jj)}}

VARIABLES phase, op, x
vars == <<phase, op, x>>

Init == phase = "pick" /\ op \in Range(Ops) /\ x \in {<<t>> : t \in FirstArgs(op)}
Next == phase = "pick" /\ phase' = "case" /\ op' = op /\ x' \in {x \o r : r \in RestArgs(op, x[1])}

DenArgs(xs) == [k \in 1..Len(xs) |-> Den(xs[k])]

CaseTheorems ==
  phase = "case" =>
    LET d == Force(DenArgs(x)) IN
    CASE op = "subsumes_term"  -> Subsumes(d[1], d[2]) <=> SubsumesBrute(d[1], d[2])
      [] op = "copy_term"      -> CopyOk(d[1])
      [] op = "term_variables" -> VarSeqOk(d[1])
      [] op = "ground"         ->
           (* round trips: decomposing and rebuilding a compound gives it back; the most general term *)
           (* made by functor/3 subsumes it                                                            *)
           d[1].t = "c" =>
             /\ LET dec == Univ(d[1], L0)
                    lst == dec.sols[1].a[2]
                    reb == Univ(W, lst)
                IN dec.k = "sols" /\ Len(dec.sols) = 1 /\ reb.k = "sols" /\ reb.sols = <<Tup(<<d[1], lst>>)>>
             /\ LET mk == Functor(W, A(d[1].n), I(Len(d[1].a)))
                IN mk.k = "sols" /\ Len(mk.sols) = 1 /\ Subsumes(mk.sols[1].a[1], d[1])
      [] OTHER -> TRUE

AllNames == UNION {NamesOf(Den(t)) : t \in Range(UW) \cup Range(FunctorNames) \cup Range(FunctorArities) \cup Range(ArgNs)
                                          \cup Range(ArgAs) \cup Range(UnivLs) \cup Range(CopyCs) \cup Range(VarLs)}
           \cup {"t", "instantiation_error", "type_error", "domain_error", "representation_error", "integer", "atom",
                 "atomic", "compound", "list", "max_arity", "not_less_than_zero", "non_empty_list", "_G"}

Emit ==
  /\ (phase = "pick" /\ op = "ground" /\ x[1] = U[1]) =>
       PrintT(ToJson([k |-> "tab", names |-> NameTable(AllNames), n |-> Len(U), seed |-> Seed, ops |-> Ops]))
  /\ phase = "case" =>
       LET d == Force(DenArgs(x))
           r == Run(op, d)
       IN r.k # "cyc" => PrintT(ToJson([k |-> "case", op |-> op, x |-> x, r |-> r.k, sols |-> r.sols, errs |-> r.errs]))
=============================================================================
