------------------------------- MODULE MC_C49 -------------------------------
(* C49: between/3, length/2, numlist/3, succ/2 enumerate exactly their relations.           *)
(* Every "case" state is one call (pred, a1, a2, a3) over the argument pools below (all      *)
(* instantiation modes, including aliased variables); the outcome computed by Between.tla is *)
(* printed as one JSON vector and replayed against the real predicates by props/C49.py.      *)
EXTENDS Between, Json

CONSTANT Tier   \* "quick" | "thorough"

Quick == Tier = "quick"
Cap   == IF Quick THEN 5 ELSE 9      \* answers compared for large/infinite answer sequences
Box   == 2                           \* numlist open modes: solutions with bounds in -Box..Box must show up early (fairness)
MaxSpan == 64                        \* numlist with two integer bounds is generated only for Upper - Lower =< MaxSpan

P(n) == Pow2(n)
Plus(b, d) == Add(b, FromInt(d))
SmallInts == IF Quick THEN {-1, 0, 1, 3} ELSE {-2, -1, 0, 1, 2, 3}
BigInts ==
  IF Quick THEN {Plus(P(55), -1), P(55), P(64), Plus(P(64), 2), Neg(P(64))}
  ELSE {Plus(P(55), -1), P(55), Plus(P(55), 1), Neg(P(55)), Plus(Neg(P(55)), -1),
        Plus(P(63), -1), P(63), Neg(P(63)), Plus(Neg(P(63)), -1), P(64), Plus(P(64), 2), Neg(P(64))}
IntTerms == {I(k) : k \in SmallInts} \cup {IntT(b) : b \in BigInts}

One0     == FloatT("3ff0000000000000")      \* 1.0
PartialA == Cons(AtomT("a"), VarT("P"))     \* [a|_]
NonInts  == IF Quick THEN {AtomT("inf"), AtomT("a"), One0}
            ELSE {AtomT("inf"), AtomT("infinite"), AtomT("a"), One0, PartialA, Nil}

A == AtomT("a")
Bt == AtomT("b")
L(items) == MkList(items, Nil)
PL(items, v) == MkList(items, VarT(v))

(* ---- between(Lo, Hi, X) ---- *)
BetweenBounds == IntTerms \cup NonInts \cup {VarT("X"), VarT("Y")}
BetweenX == {I(k) : k \in {0, 1, 2, 3}} \cup {IntT(P(55)), IntT(Plus(P(64), 1)), IntT(Neg(P(64)))}
            \cup {VarT("X"), VarT("Z"), A, One0}
            \cup (IF Quick THEN {} ELSE {I(-2), I(-1), IntT(Plus(P(55), -1)), IntT(P(64)), PartialA})

(* ---- succ(I, S) ---- *)
SuccArgs == IntTerms \cup NonInts \cup {VarT("X"), VarT("Y")}

(* ---- length(Xs, N) ---- *)
LengthLists ==
  {Nil, L(<<A>>), L(<<A, Bt>>), L(<<VarT("E")>>), VarT("Xs"), PL(<<A>>, "T"), PL(<<A, Bt>>, "T"),
   Cons(A, Bt), A, One0, I(0),
   L(<<VarT("N")>>), PL(<<A>>, "N"), PL(<<VarT("N")>>, "T"), VarT("N"), L(<<A, VarT("N"), Bt>>)}
  \cup (IF Quick THEN {} ELSE {L(<<A, Bt, A>>), PL(<<A, Bt, A>>, "T"), MkList(<<A, Bt>>, Bt), PL(<<A, VarT("N")>>, "T"),
                               L(<<I(1), I(2)>>), Cpd("f", <<A>>)})
LengthNs == IntTerms \cup NonInts \cup {VarT("N")}

(* ---- numlist(Lo, Hi, List) ---- *)
NumSmall == IF Quick THEN {-1, 0, 2} ELSE {-2, -1, 0, 1, 2, 3}
NumBig   == IF Quick THEN {P(64), Plus(P(64), 2)} ELSE {P(55), Plus(P(55), 1), P(64), Plus(P(64), 2), Neg(P(64)), Plus(Neg(P(64)), 1)}
NumClosedBounds == {I(k) : k \in NumSmall} \cup {IntT(b) : b \in NumBig} \cup NonInts
NumOpenBounds == {I(k) : k \in NumSmall} \cup (IF Quick THEN {} ELSE {IntT(P(64))})
NumLists ==
  {Nil, L(<<VarT("E1"), VarT("E2")>>), L(<<I(2), I(3)>>), L(<<I(0)>>), VarT("Ls"), PL(<<I(0)>>, "T"),
   PL(<<VarT("E1"), VarT("E2")>>, "T"), Cons(A, Bt), PL(<<A>>, "T"), L(<<I(-1), I(0), VarT("E3")>>)}
  \cup (IF Quick THEN {} ELSE {A, L(<<VarT("E1")>>), L(<<I(-1), I(0), I(1), I(2)>>), L(<<I(2), I(5)>>), PL(<<I(2), I(5)>>, "T"),
                               L(<<VarT("E1"), I(0), VarT("E3")>>), L(<<IntT(P(64)), VarT("E2"), IntT(Plus(P(64), 2))>>),
                               PL(<<IntT(P(64))>>, "T"), One0})

(* lists of the open modes: the quick tier keeps this small because every finite relation costs a termination probe *)
NumOpenLists ==
  IF Quick THEN {Nil, L(<<VarT("E1"), VarT("E2")>>), L(<<I(2), I(3)>>), VarT("Ls"), PL(<<I(0)>>, "T"),
                 PL(<<VarT("E1"), VarT("E2")>>, "T"), Cons(A, Bt)}
  ELSE NumLists

(* closed: both bounds instantiated; open: at least one bound unbound (incl. the same variable twice) *)
NumAdmissible(lo, hi) ==
  (lo.t = "i" /\ hi.t = "i") => (Lt(hi.b, lo.b) \/ Le(Sub(hi.b, lo.b), FromInt(MaxSpan)))

VARIABLES phase, pred, a1, a2, a3
vars == <<phase, pred, a1, a2, a3>>

None == AtomT("$none")

Firsts(p) ==
  CASE p = "between" -> BetweenBounds
    [] p = "succ"    -> SuccArgs
    [] p = "length"  -> LengthLists
    [] p = "numlist" -> NumClosedBounds
    [] p = "numlist_open" -> NumOpenBounds \cup {VarT("Lo"), A, One0}

Init ==
  /\ phase = "pick" /\ a2 = None /\ a3 = None
  /\ pred \in {"between", "succ", "length", "numlist", "numlist_open"}
  /\ a1 \in Firsts(pred)

Next ==
  /\ phase = "pick" /\ phase' = "case" /\ UNCHANGED <<pred, a1>>
  /\ CASE pred = "between" -> a2' \in BetweenBounds /\ a3' \in BetweenX
       [] pred = "succ"    -> a2' \in SuccArgs /\ a3' = None
       [] pred = "length"  -> a2' \in LengthNs /\ a3' = None
       [] pred = "numlist" -> /\ a2' \in NumClosedBounds /\ NumAdmissible(a1, a2') /\ a3' \in NumLists
                              /\ Numlist(a1, a2', a3', Box, MaxSpan).kind # "resource"
       [] pred = "numlist_open" ->
             /\ a2' \in (IF a1.t = "v" THEN NumOpenBounds \cup {VarT("Lo"), VarT("Hi"), A, One0} ELSE {VarT("Hi")})
             /\ a3' \in NumOpenLists
             /\ Numlist(a1, a2', a3', Box, MaxSpan).kind # "resource"     \* spans beyond MaxSpan are not generated

Outcome ==
  CASE pred = "between" -> Between(a1, a2, a3, Cap)
    [] pred = "succ"    -> Succ(a1, a2)
    [] pred = "length"  -> Length(a1, a2, Cap)
    [] pred \in {"numlist", "numlist_open"} -> Numlist(a1, a2, a3, Box, MaxSpan)

Args == IF pred \in {"succ", "length"} THEN <<a1, a2>> ELSE <<a1, a2, a3>>
Name == IF pred = "numlist_open" THEN "numlist" ELSE pred

Emit ==
  phase = "case" =>
  LET o == Outcome IN
  PrintT(ToJson([pred |-> Name, open |-> (pred = "numlist_open"), args |-> OutSeq(Args), kind |-> o.kind,
                 errs |-> {Out(e) : e \in o.errs},
                 sols |-> IF o.sols = <<>> THEN <<>> ELSE [j \in 1..Len(o.sols) |-> OutSeq(o.sols[j])],
                 more |-> o.more]))

(* sanity of the specification itself (a failure is a tool error, not a violation) *)
Sane ==
  phase = "case" =>
  LET o == Outcome IN
  /\ o.kind \in {"sols", "err", "errfail", "resource", "open"}
  /\ (o.kind \in {"err", "errfail"}) => o.errs # {}
  /\ (o.kind = "sols" /\ ~o.more) => Len(o.sols) <= Cap
  /\ \A j \in 1..Len(o.sols) : Len(o.sols[j]) = Len(Args)
  /\ (Name = "numlist" /\ o.kind \in {"sols", "open"}) => \A j \in 1..Len(o.sols) : NumlistHolds(Args, o.sols[j])
  /\ (pred = "numlist") => o.kind # "open"
=============================================================================
