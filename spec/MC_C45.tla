------------------------------- MODULE MC_C45 -------------------------------
(* C45: every assignment of variable names to the variable positions of a few clause skeletons.         *)
(* A skeleton is a clause text with numbered holes (in text order) together with the term it denotes    *)
(* under the standard operator table; a case fills the holes with names from Names in every pattern of   *)
(* repetition.  The vector gives the clause text and what read_term must report, expressed through the   *)
(* numbering of the term's variables by first occurrence: the term with variable number k replaced by    *)
(* '$v'(k), the number of variables, variable_names as [Name, k] in order, singletons as a set.          *)
EXTENDS ReadVars, Terms, Json

CONSTANT Tier   \* "quick" | "thorough"

Names == IF Tier = "quick" THEN {"X", "Y", "_", "_A", "Xs"} ELSE {"X", "Y", "_", "_A", "Xs", "_a", "__"}

L(s) == [k |-> "lit", s |-> s, i |-> 0]
H(i) == [k |-> "hole", s |-> "", i |-> i]
Ho(i) == VI("h", i)
Str(s) == [t |-> "s", n |-> s, i |-> 0, a |-> <<>>]   \* a double quoted list: the list of its characters (double_quotes = chars)
Sk(n, pieces, term) == [n |-> n, pieces |-> pieces, term |-> term]

(* "X", "_Y" inside a double quoted list and 'X', '_' as quoted atoms are not variables *)
Skeletons ==
  << Sk(0, <<L("foo('X',\"X_\",'_')")>>, C3("foo", A("X"), Str("X_"), A("_"))),
     Sk(1, <<H(1)>>, Ho(1)),
     Sk(2, <<L("f("), H(1), L(","), H(2), L(")")>>, C2("f", Ho(1), Ho(2))),
     Sk(3, <<L("f("), H(1), L(","), H(2), L(","), H(3), L(")")>>, C3("f", Ho(1), Ho(2), Ho(3))),
     Sk(3, <<L("["), H(1), L(","), H(2), L("|"), H(3), L("]")>>, PListOf(<<Ho(1), Ho(2)>>, Ho(3))),
     Sk(3, <<H(1), L("+"), H(2), L("*"), H(3)>>, C2("+", Ho(1), C2("*", Ho(2), Ho(3)))),
     Sk(2, <<L("{"), H(1), L(","), H(2), L("}")>>, C1("{}", C2(",", Ho(1), Ho(2)))),
     Sk(2, <<L("f("), H(1), L(",\"X_\",'X',"), H(2), L(",\"_Y\")")>>, C(  "f", <<Ho(1), Str("X_"), A("X"), Ho(2), Str("_Y")>>)),
     Sk(4, <<L("g(f("), H(1), L("),["), H(2), L(","), H(3), L("],"), H(4), L(")")>>,
           C3("g", C1("f", Ho(1)), ListOf(<<Ho(2), Ho(3)>>), Ho(4))),
     Sk(4, <<L("p("), H(1), L("):-q("), H(2), L(","), H(3), L("),r("), H(4), L(")")>>,
           C2(":-", C1("p", Ho(1)), C2(",", C2("q", Ho(2), Ho(3)), C1("r", Ho(4))))),
     Sk(5, <<L("f("), H(1), L(",["), H(2), L("|"), H(3), L("],"), H(4), L("+"), H(5), L(")")>>,
           C3("f", Ho(1), PListOf(<<Ho(2)>>, Ho(3)), C2("+", Ho(4), Ho(5)))),
     Sk(6, <<L("h("), H(1), L(",{"), H(2), L("},'_A',\"Y\","), H(3), L("-"), H(4), L("*"), H(5), L(",["), H(6), L("])")>>,
           C("h", <<Ho(1), C1("{}", Ho(2)), A("_A"), Str("Y"), C2("-", Ho(3), C2("*", Ho(4), Ho(5))), ListOf(<<Ho(6)>>)>>)) >>
MaxHoles == IF Tier = "quick" THEN 5 ELSE 6
Used == {j \in 1..Len(Skeletons) : Skeletons[j].n <= MaxHoles}

VARIABLES phase, sk, occ
vars == <<phase, sk, occ>>
Init == phase = "pick" /\ sk \in Used /\ occ = <<>>
Next == /\ phase = "pick" /\ phase' = "case" /\ UNCHANGED sk
        /\ occ' \in [1..Skeletons[sk].n -> Names]

RECURSIVE TextOf(_, _, _)
TextOf(ps, k, o) == IF k > Len(ps) THEN "" ELSE (IF ps[k].k = "lit" THEN ps[k].s ELSE o[ps[k].i]) \o TextOf(ps, k + 1, o)

(* the term with variable number k written as '$v'(k) *)
RECURSIVE Fill(_, _)
Fill(x, o) == IF x.t = "v" THEN C1("$v", I(Rank(o, x.i)))
              ELSE IF x.t = "c" THEN [x EXCEPT !.a = [j \in 1..Len(x.a) |-> Fill(x.a[j], o)]]
              ELSE x

(* canonical text as rendered by lib/terms.py: functional notation, quoted atoms, list syntax *)
Q(x) == "'" \o x \o "'"
QA(x) == IF x \in {"[]", "{}"} THEN x ELSE Q(x)
RECURSIVE Txt(_)
RECURSIVE TxtArgs(_, _)
RECURSIVE TxtList(_)
RECURSIVE TxtChars(_, _)
TxtArgs(args, k) == IF k > Len(args) THEN "" ELSE (IF k > 1 THEN "," ELSE "") \o Txt(args[k]) \o TxtArgs(args, k + 1)
TxtList(x) == IF IsF(x, ".", 2) THEN "," \o Txt(x.a[1]) \o TxtList(x.a[2])
              ELSE IF x = Nil THEN "]" ELSE "|" \o Txt(x) \o "]"
TxtChars(s, k) == IF k > Len(s) THEN "" ELSE (IF k > 1 THEN "," ELSE "") \o Q(SubSeq(s, k, k)) \o TxtChars(s, k + 1)
Txt(x) == CASE x.t = "v" -> x.n
            [] x.t = "a" -> QA(x.n)
            [] x.t = "i" -> ToString(x.i)
            [] x.t = "s" -> "[" \o TxtChars(x.n, 1) \o "]"
            [] x.t = "c" -> IF IsF(x, ".", 2) THEN "[" \o Txt(x.a[1]) \o TxtList(x.a[2])
                            ELSE QA(x.n) \o "(" \o TxtArgs(x.a, 1) \o ")"
SetToSeq(S) == LET RECURSIVE F(_)
                   F(T) == IF T = {} THEN <<>> ELSE LET x == CHOOSE x \in T : TRUE IN <<x>> \o F(T \ {x})
               IN F(S)

Emit == phase = "case" =>
          PrintT(ToJson([sk |-> sk, text |-> TextOf(Skeletons[sk].pieces, 1, occ) \o " .", occ |-> occ,
                         term |-> Txt(Fill(Skeletons[sk].term, occ)), nv |-> NVars(occ),
                         names |-> VariableNames(occ), singles |-> SetToSeq(Singletons(occ))]))
SaneInv == phase = "case" => Sane(occ) /\ Variables(occ) = [k \in 1..NVars(occ) |-> k]
(* the holes of a skeleton are numbered in text order, each once *)
ASSUME \A j \in 1..Len(Skeletons) :
         LET hs == SelectSeq(Skeletons[j].pieces, LAMBDA p : p.k = "hole") IN
         Len(hs) = Skeletons[j].n /\ \A i \in 1..Len(hs) : hs[i].i = i
=============================================================================
