------------------------------ MODULE NumSets ------------------------------
(* Operand alphabets for the numeric properties C02 / C04: integers around the representation *)
(* boundaries (2^31, 2^53 float precision, 2^55 small-integer limit, 2^63/2^64 machine word,   *)
(* beyond the double range), rationals, and doubles described exactly by (sign, mantissa,     *)
(* exponent).                                                                                 *)
EXTENDS ArithFloat, Json

P(n) == Pow2(n)
near(n, ds) == {Add(P(n), FromInt(d)) : d \in ds}
Ten(n) == Pow(FromInt(10), n)
PM(S) == S \cup {Neg(v) : v \in S}

(* ---- integers ---- *)
IntPosQuick ==
  {FromInt(k) : k \in {1, 2, 3, 7}} \cup near(53, {-1, 0, 1, 2}) \cup near(55, {-1, 0})
  \cup near(63, {0}) \cup near(64, {0, 1}) \cup {Ten(30)} \cup {P(1024)}
IntPosFull ==
  {FromInt(k) : k \in {1, 2, 3, 7, 10, 255}}
  \cup near(31, {-1, 0, 1}) \cup near(32, {-1, 0, 1}) \cup near(53, {-1, 0, 1, 2, 3}) \cup near(54, {-1, 1, 2, 3})
  \cup near(55, {-2, -1, 0, 1}) \cup near(56, {-1, 1})
  \cup near(62, {-1, 0, 1}) \cup near(63, {-1, 0, 1}) \cup near(64, {-1, 0, 1}) \cup near(70, {0, 1})
  \cup {Ten(30), Add(Ten(30), FromInt(7)), Ten(400)}
  \cup {P(1024), Sub(P(1024), P(970)), Sub(Sub(P(1024), P(970)), One), Sub(P(1024), P(971))}
IntsOf(tier) == LET pos == IF tier = "quick" THEN IntPosQuick ELSE IntPosFull
                IN {NI(v) : v \in PM(pos) \cup {BZero}}

(* ---- rationals <<n, d>> (d > 0; 4 rdiv 2 is deliberately not reduced: scryer keeps 2/1 a rational) ---- *)
F3 == FromInt(3)
RatPosQuick ==
  {<<One, F3>>, <<One, Two>>, <<FromInt(4), Two>>, <<One, FromInt(10)>>, <<Add(P(64), One), P(64)>>,
   <<Add(P(54), One), Two>>, <<One, P(1080)>>, <<F3, P(1076)>>, <<FromInt(7), F3>>}
RatPosFull ==
  RatPosQuick \cup
  {<<FromInt(7), Two>>, <<FromInt(5), Two>>, <<F3, FromInt(10)>>, <<Two, F3>>, <<Add(P(64), One), F3>>, <<Ten(400), F3>>,
   <<Add(P(53), One), One>>, <<Add(P(55), One), P(55)>>, <<Add(P(54), F3), Two>>, <<One, P(1074)>>, <<FromInt(5), P(1077)>>,
   <<One, P(1075)>>, <<Ten(30), FromInt(7)>>, <<FromInt(13), F3>>, <<FromInt(7), FromInt(5)>>}
RatsOf(tier) == LET pos == IF tier = "quick" THEN RatPosQuick ELSE RatPosFull
                IN {NR(p[1], p[2]) : p \in pos} \cup {NR(Neg(p[1]), p[2]) : p \in pos}

(* ---- doubles ---- *)
MaxM == Sub(P(53), One)
FPosQuick ==
  {Mk(0, One, -1074),                  \* min subnormal
   Mk(0, Sub(P(52), One), -1074),      \* max subnormal
   Mk(0, One, -1022),                  \* min normal
   Mk(0, One, 0),                      \* 1.0
   Mk(0, Add(P(52), One), -52),        \* 1 + ulp
   Mk(0, MaxM, -53),                   \* 1 - ulp/2
   FromRat(One, FromInt(10)),          \* 0.1
   FromRat(One, F3),                   \* the double nearest 1/3
   FromRat(FromInt(7), F3),            \* the double nearest 7/3
   Mk(0, One, -1),                     \* 0.5
   Mk(0, F3, -1),                      \* 1.5
   Mk(0, FromInt(5), -1),              \* 2.5
   Mk(0, FromInt(7), 0),               \* 7.0
   Mk(0, MaxM, 0),                     \* 2^53 - 1
   Mk(0, One, 53),                     \* 2^53
   Mk(0, Add(P(52), One), 1),          \* 2^53 + 2
   Mk(0, One, 55), Mk(0, One, 63), Mk(0, One, 64),
   FromBig(Ten(30)),                   \* 1e30
   Mk(0, MaxM, 971),                   \* max double
   Mk(0, MaxM, 970)}                   \* max / 2
FPosFull ==
  FPosQuick \cup
  {Mk(0, Two, -1074), Mk(0, P(52), -1074), Mk(0, Add(P(52), One), -1074),
   Mk(0, F3, -2), Mk(0, FromInt(7), -1), Mk(0, FromInt(9), -2), Mk(0, FromInt(255), 0), Mk(0, FromInt(4), 0), Mk(0, FromInt(9), 0),
   FromRat(F3, FromInt(10)), FromRat(Two, F3), FromRat(One, FromInt(7)),
   Mk(0, Sub(P(52), One), 0), Mk(0, Add(P(52), One), 0), Mk(0, Add(P(52), F3), 1), Mk(0, One, 54), Mk(0, Add(P(52), One), 2),
   Mk(0, One, 31), Mk(0, One, 32), Mk(0, One, 56), Mk(0, One, 62), Mk(0, Add(P(52), One), 12), Mk(0, One, 70), Mk(0, One, 100),
   Mk(0, One, 511), Mk(0, One, 512), Mk(0, One, -511), Mk(0, One, -537), Mk(0, One, 1023), Mk(0, F3, 1022),
   FromBig(Ten(308)), FromRat(One, Ten(308)), Mk(0, FromInt(709), 0), Mk(0, FromInt(710), 0), Mk(0, FromInt(1000), 0),
   FromRat(FromInt(14142), FromInt(10000))}
FloatsOf(tier) == LET pos == IF tier = "quick" THEN FPosQuick ELSE FPosFull
                  IN {NF(x) : x \in pos} \cup {NF(FNeg(x)) : x \in pos} \cup {NF(FZero(0)), NF(FZero(1))}

(* rendering of a number for the vectors: decimal strings for the big parts; for a double also its bit pattern *)
JNum(a) == [t |-> a.t, s |-> a.s, n |-> ToDec(a.n), d |-> ToDec(a.d), e |-> a.e,
            bits |-> IF a.t = "f" THEN ToDec(Bits(AsF(a))) ELSE "0"]

NumOk(a) == IF a.t = "f" THEN Canonical(AsF(a)) /\ a.d = One
            ELSE a.s = 0 /\ a.e = 0 /\ ~a.d.neg /\ ~IsZero(a.d) /\ (a.t = "i" => a.d = One)
=============================================================================
