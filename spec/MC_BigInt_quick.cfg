CONSTANT Tier = "quick"
INIT Init
NEXT Next
INVARIANT PairInv
INVARIANT ShiftInv
