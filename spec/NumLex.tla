------------------------------- MODULE NumLex -------------------------------
(* C16 - the numeric token of Prolog text, its exact value, and the correctly rounded binary64 *)
(* of a decimal float literal.  Layer A only (one pure function from text to value).           *)
(*                                                                                             *)
(* Text is a sequence of code points.  Sources:                                                *)
(*  ISO/IEC 13211-1 6.4.4 (integer numbers: integer constant, character code constant         *)
(*    0'c, binary 0b, octal 0o, hexadecimal 0x constants), 6.4.5 (floating point numbers:      *)
(*    integer constant, fraction, optional exponent with optional sign), 6.4.2.1 (single       *)
(*    quoted character, escape sequences), 6.4.1 (layout text = layout characters and          *)
(*    comments), 6.3.1.2 with Cor.2 ("a term which is a name - followed directly by a numeric  *)
(*    constant denotes the negative number"; the constant is a token and may therefore be      *)
(*    preceded by layout text: integer(- 1) is true), 8.16.7/8.16.8 with Cor.2 (number_chars/  *)
(*    number_codes parse the text, with optional leading layout text, as a number; anything    *)
(*    else, including trailing layout, is a syntax_error).                                     *)
(*  Scryer extension (src/parser/lexer.rs skip_underscore_in_number; not in the ISO text):     *)
(*    digit groups - the decimal digits of an integer constant (also the integer part of a     *)
(*    float) may be separated by one underscore followed by optional layout text:              *)
(*    1_000_000,  1_ 000.  An underscore that is not followed (after layout) by a digit is a   *)
(*    syntax error.  (Read as ISO text it would be the integer followed by a variable token,   *)
(*    which is a syntax error in every term as well, so the two readings are observably equal *)
(*    wherever this specification is compared with the implementation.)                        *)
(*  Scryer: a float literal whose correctly rounded value is not finite is                     *)
(*    syntax_error(infinite_float) (DESIGN.md Appendix 2); this module says "err".             *)
EXTENDS BigInt

EOF == -1
At(s, i) == IF i >= 1 /\ i <= Len(s) THEN s[i] ELSE EOF

Digit(c)    == c >= 48 /\ c <= 57
OctDigit(c) == c >= 48 /\ c <= 55
BinDigit(c) == c = 48 \/ c = 49
HexDigit(c) == Digit(c) \/ (c >= 65 /\ c <= 70) \/ (c >= 97 /\ c <= 102)
HexVal(c)   == IF Digit(c) THEN c - 48 ELSE IF c >= 97 THEN c - 87 ELSE c - 55

(* 6.5.4 layout characters (Scryer's new line / layout set: space, TAB, LF, CR, VT, FF) *)
LayoutChar(c) == c \in {32, 9, 10, 13, 11, 12}
(* 6.5.1 graphic char  # $ & * + - . / : < = > ? @ ^ ~  ; symbol char = graphic char or backslash *)
GraphicChar(c) == c \in {35, 36, 38, 42, 43, 45, 46, 47, 58, 60, 61, 62, 63, 64, 94, 126}
SymbolChar(c)  == GraphicChar(c) \/ c = 92
(* 6.5.3 solo char  ! ( ) , ; [ ] { } | %  *)
SoloChar(c) == c \in {33, 40, 41, 44, 59, 91, 93, 123, 125, 124, 37}
(* 6.5.2 alphanumeric char: letters, digits, underscore; extended characters above 127 that are *)
(* neither control nor white space count as letters (Scryer: src/parser/macros.rs alpha_char)   *)
ExtSpace(c) == c \in {133, 160, 5760, 8232, 8233, 8239, 8287, 12288} \/ (c >= 8192 /\ c <= 8202)
AlnumChar(c) == (c >= 48 /\ c <= 57) \/ (c >= 65 /\ c <= 90) \/ (c >= 97 /\ c <= 122) \/ c = 95
                \/ (c >= 160 /\ ~ExtSpace(c) /\ c <= 1114111 /\ ~(c >= 55296 /\ c <= 57343))
MetaChar(c) == c \in {92, 39, 34, 96}

-----------------------------------------------------------------------------
(* layout text: layout characters, % comments up to the end of the line, bracketed comments.    *)
(* Result: index of the first character that is not layout text, or 0 if a bracketed comment    *)
(* is not closed.                                                                               *)
RECURSIVE LineEnd(_, _)
LineEnd(s, i) == IF At(s, i) = EOF THEN i ELSE IF s[i] = 10 THEN i + 1 ELSE LineEnd(s, i + 1)

RECURSIVE CommentEnd(_, _)
CommentEnd(s, i) == IF At(s, i) = EOF THEN 0
                    ELSE IF s[i] = 42 /\ At(s, i + 1) = 47 THEN i + 2
                    ELSE CommentEnd(s, i + 1)

RECURSIVE SkipLayout(_, _)
SkipLayout(s, i) ==
  LET c == At(s, i) IN
  IF LayoutChar(c) THEN SkipLayout(s, i + 1)
  ELSE IF c = 37 THEN SkipLayout(s, LineEnd(s, i))
  ELSE IF c = 47 /\ At(s, i + 1) = 42
       THEN LET j == CommentEnd(s, i + 2) IN IF j = 0 THEN 0 ELSE SkipLayout(s, j)
  ELSE i

-----------------------------------------------------------------------------
(* digit runs; magnitudes are BigInt limb sequences *)
Small(d) == IF d = 0 THEN <<>> ELSE <<d>>

RECURSIVE DecRun(_, _, _)
DecRun(s, i, acc) ==
  IF Digit(At(s, i)) THEN DecRun(s, i + 1, MAdd(MMulSmall(acc, 10), Small(s[i] - 48))) ELSE <<acc, i>>

RECURSIVE HexRun(_, _, _)
HexRun(s, i, acc) ==
  IF HexDigit(At(s, i)) THEN HexRun(s, i + 1, MAdd(MMulSmall(acc, 16), Small(HexVal(s[i])))) ELSE <<acc, i>>
RECURSIVE OctRun(_, _, _)
OctRun(s, i, acc) ==
  IF OctDigit(At(s, i)) THEN OctRun(s, i + 1, MAdd(MMulSmall(acc, 8), Small(s[i] - 48))) ELSE <<acc, i>>
RECURSIVE BinRun(_, _, _)
BinRun(s, i, acc) ==
  IF BinDigit(At(s, i)) THEN BinRun(s, i + 1, MAdd(MMulSmall(acc, 2), Small(s[i] - 48))) ELSE <<acc, i>>

(* native-integer runs (saturating, for exponents and character codes) *)
Cap == 2000000
RECURSIVE NatRun(_, _, _, _)
NatRun(s, i, acc, radix) ==
  LET c == At(s, i)
      ok == IF radix = 16 THEN HexDigit(c) ELSE IF radix = 8 THEN OctDigit(c) ELSE Digit(c)
  IN IF ok THEN NatRun(s, i + 1, IF acc >= Cap THEN Cap ELSE acc * radix + HexVal(c), radix)
     ELSE <<acc, i>>

(* integer constant with digit groups, starting at the digit s[i]:                    *)
(* <<magnitude, next index, ok, grouped>>                                             *)
RECURSIVE IntGroups(_, _, _, _)
IntGroups(s, i, acc, grouped) ==
  LET r == DecRun(s, i, acc) IN
  IF At(s, r[2]) = 95
  THEN LET k == SkipLayout(s, r[2] + 1) IN
       IF k > 0 /\ Digit(At(s, k)) THEN IntGroups(s, k, r[1], TRUE) ELSE <<r[1], r[2], FALSE, TRUE>>
  ELSE <<r[1], r[2], TRUE, grouped>>

-----------------------------------------------------------------------------
(* 6.4.2.1 single quoted character starting at s[i] (the character after 0'):          *)
(* <<code, next index>>, next index = 0 if there is none.                              *)
ValidCode(n) == n <= 1114111 /\ ~(n >= 55296 /\ n <= 57343)
ControlEscape(c) == CASE c = 97 -> 7 [] c = 98 -> 8 [] c = 102 -> 12 [] c = 110 -> 10
                      [] c = 114 -> 13 [] c = 116 -> 9 [] c = 118 -> 11 [] OTHER -> -1
NoChar == <<0, 0>>
NumEscape(s, i, radix) ==      \* digits start at i; must be closed by a backslash
  LET r == NatRun(s, i, 0, radix) IN
  IF At(s, r[2]) = 92 /\ ValidCode(r[1]) THEN <<r[1], r[2] + 1>> ELSE NoChar
QChar(s, i) ==
  LET c == At(s, i) IN
  IF c = 39 THEN (IF At(s, i + 1) = 39 THEN <<39, i + 2>> ELSE NoChar)
  ELSE IF c = 34 \/ c = 96 THEN <<c, i + 1>>
  ELSE IF c = 92 THEN
    LET d == At(s, i + 1) IN
    IF MetaChar(d) THEN <<d, i + 2>>
    ELSE IF OctDigit(d) THEN NumEscape(s, i + 1, 8)
    ELSE IF d = 120 THEN (IF HexDigit(At(s, i + 2)) THEN NumEscape(s, i + 2, 16) ELSE NoChar)
    ELSE IF ControlEscape(d) >= 0 THEN <<ControlEscape(d), i + 2>>
    ELSE NoChar
  ELSE IF GraphicChar(c) \/ AlnumChar(c) \/ SoloChar(c) \/ c = 32 THEN <<c, i + 1>>
  ELSE NoChar

-----------------------------------------------------------------------------
(* The numeric token starting at the digit s[i] (longest match, 6.4):                   *)
(*   k    "int" | "float" | "err"                                                        *)
(*   v    value of an integer / decimal mantissa of a float (BigInt, non-negative)       *)
(*   e    decimal exponent of a float (value = v * 10^e), 0 for integers                 *)
(*   j    index of the first character after the token                                   *)
(*   form "dec" "hex" "oct" "bin" "chr" (0'c) "esc" (0'\..) "frac" "exp" "sexp" (signed) *)
(*   grp  digit groups were used                                                         *)
Tok(k, m, e, j, form, grp) == [k |-> k, v |-> [neg |-> FALSE, m |-> m], e |-> e, j |-> j, form |-> form, grp |-> grp]

NumToken(s, i) ==
  LET c1 == At(s, i + 1) IN
  IF s[i] = 48 /\ c1 = 39 THEN
    LET q == QChar(s, i + 2) IN
    IF q[2] > 0 THEN Tok("int", NatLimbs(q[1]), 0, q[2], IF s[i + 2] = 92 THEN "esc" ELSE "chr", FALSE)
    ELSE Tok("int", <<>>, 0, i + 1, "dec", FALSE)      \* 0 followed by a quote that starts no character code
  ELSE IF s[i] = 48 /\ c1 = 120 /\ HexDigit(At(s, i + 2)) THEN
    LET r == HexRun(s, i + 2, <<>>) IN Tok("int", r[1], 0, r[2], "hex", FALSE)
  ELSE IF s[i] = 48 /\ c1 = 111 /\ OctDigit(At(s, i + 2)) THEN
    LET r == OctRun(s, i + 2, <<>>) IN Tok("int", r[1], 0, r[2], "oct", FALSE)
  ELSE IF s[i] = 48 /\ c1 = 98 /\ BinDigit(At(s, i + 2)) THEN
    LET r == BinRun(s, i + 2, <<>>) IN Tok("int", r[1], 0, r[2], "bin", FALSE)
  ELSE
    LET g == IntGroups(s, i, <<>>, FALSE) IN
    IF ~g[3] THEN Tok("err", <<>>, 0, g[2], "dec", TRUE)
    ELSE IF At(s, g[2]) = 46 /\ Digit(At(s, g[2] + 1)) THEN
      LET f  == DecRun(s, g[2] + 1, g[1])
          nf == f[2] - (g[2] + 1)
          sg == At(s, f[2] + 1)
          d0 == IF sg \in {43, 45} THEN f[2] + 2 ELSE f[2] + 1
      IN IF At(s, f[2]) \in {101, 69} /\ Digit(At(s, d0)) THEN
           LET ex == NatRun(s, d0, 0, 10)
               ev == IF sg = 45 THEN 0 - ex[1] ELSE ex[1]
           IN Tok("float", f[1], ev - nf, ex[2], IF sg \in {43, 45} THEN "sexp" ELSE "exp", g[4])
         ELSE Tok("float", f[1], 0 - nf, f[2], "frac", g[4])
    ELSE Tok("int", g[1], 0, g[2], "dec", g[4])

-----------------------------------------------------------------------------
(* Correct rounding (IEEE 754 round-to-nearest, ties-to-even) of M * 10^E, M > 0, to binary64. *)
(* The result is the 64-bit pattern of the positive double as a BigInt, or Overflow.            *)
(* With v = M * 10^E:  choose the binary exponent e (>= -1074) such that q = floor(v / 2^e) has  *)
(* exactly 53 bits (fewer for subnormals, where e = -1074), round q by the discarded part, and  *)
(* assemble  bits = (e + 1074) * 2^52 + q  (this formula also covers the carry into the next   *)
(* binade and the step from subnormal to normal).  One exact division is made, at an exponent   *)
(* e0 < e, giving q0 = floor(v / 2^e0) and whether it was exact; q and the discarded part are    *)
(* then q0 div 2^(e-e0) and q0 mod 2^(e-e0).                                                     *)
TopDigits(n) == IF n < 10 THEN 1 ELSE IF n < 100 THEN 2 ELSE IF n < 1000 THEN 3 ELSE 4
DecLen(m) == IF m = <<>> THEN 0 ELSE 4 * (Len(m) - 1) + TopDigits(m[Len(m)])

Ten == FromInt(10)
Five == FromInt(5)
P52 == Pow2(52)
InfBits == Mul(FromInt(2047), P52)
Overflow == [neg |-> TRUE, m |-> <<1>>]     \* marker (never a bit pattern)

(* <<floor(num * 2^(-sh) / den), remainder is zero>> *)
ScaledDiv(num, den, sh) ==
  LET n2 == IF sh < 0 THEN Mul(num, Pow2(0 - sh)) ELSE num
      d2 == IF sh > 0 THEN Mul(den, Pow2(sh)) ELSE den
      qr == MDivMod(n2.m, d2.m)
  IN <<qr[1], qr[2] = <<>> >>

FloatBits(M, E) ==
  LET dd == DecLen(M.m) + E        \* 10^(dd-1) <= v < 10^dd
  IN IF dd > 310 THEN Overflow
     ELSE IF dd < -330 THEN BZero  \* v < 10^-330 < 2^-1075: rounds to +0.0
     ELSE
       \* v = M * 10^E = (num / den) * 2^E  with the powers of five only (smaller numbers)
       LET num == IF E >= 0 THEN Mul(M, Pow(Five, E)) ELSE M
           den == IF E >= 0 THEN One ELSE Pow(Five, 0 - E)
           \* lg estimates floor(log2 10^(dd-1)) to within one, so that q0 below has between 60 and 68 bits
           lg  == (((dd + 399) * 3322) \div 1000) - 1329
           e0  == lg - 62
           d0  == ScaledDiv(num, den, e0 - E)        \* q0 = floor(v / 2^e0)
           q0  == d0[1]
           b   == Len(MBits(q0))                     \* floor(log2 v) = e0 + b - 1
           e1  == e0 + b - 53
           e   == IF e1 < -1074 THEN -1074 ELSE e1
           sh  == e - e0                             \* >= 1 because b >= 54
           qr  == MDivMod(q0, Pow2(sh).m)            \* q = floor(v / 2^e), low = the discarded bits of q0
           q   == qr[1]
           c   == MCmp(qr[2], Pow2(sh - 1).m)        \* discarded part against one half (exact only if d0[2])
           odd == q # <<>> /\ q[1] % 2 = 1
           up  == c > 0 \/ (c = 0 /\ (~d0[2] \/ odd))
           qu  == IF up THEN MAdd(q, <<1>>) ELSE q
           bits == Add(Mul(FromInt(e + 1074), P52), [neg |-> FALSE, m |-> qu])
       IN IF b < 54 THEN Assert(FALSE, "FloatBits: bad exponent estimate")
          ELSE IF Cmp(bits, InfBits) >= 0 THEN Overflow ELSE bits

SignBit == Pow2(63)

(* decomposition of a finite double given by its 64 bit pattern: <<negative, q, e>> with |x| = q * 2^e *)
Unpack(bits) ==
  LET neg  == Cmp(bits, SignBit) >= 0
      mag  == IF neg THEN Sub(bits, SignBit) ELSE bits
      qr   == TDivMod(mag, P52)
      be   == ToInt(qr[1])
  IN IF be = 0 THEN <<neg, qr[2], -1074>> ELSE <<neg, Add(qr[2], P52), be - 1075>>

-----------------------------------------------------------------------------
(* Values.  [k |-> "int", v |-> BigInt] | [k |-> "float", v |-> bit pattern as BigInt]           *)
(*        | [k |-> "err", v |-> BZero] (syntax error) | [k |-> "other", v |-> BZero] (see below)  *)
SynErr == [k |-> "err", v |-> BZero]
Other  == [k |-> "other", v |-> BZero]

(* Floats are compared as values: the property speaks of the mathematical value of a literal, and the value *)
(* of "-0.0" is zero.  Scryer's floats have a single zero (every -0.0 is normalised to 0.0, also by is/2), so *)
(* zero is always the pattern 0.                                                                             *)
TokValue(t, neg) ==
  IF t.k = "int" THEN [k |-> "int", v |-> IF neg THEN Neg(t.v) ELSE t.v]
  ELSE LET b == IF IsZero(t.v) THEN BZero ELSE FloatBits(t.v, t.e) IN
       IF b = Overflow THEN SynErr
       ELSE [k |-> "float", v |-> IF neg /\ ~IsZero(b) THEN Add(b, SignBit) ELSE b]

(* [layout text] [ - [layout text] ] digit...  :  <<negative, index of the first digit>>, index 0 if the *)
(* text does not start like that.  The sign is a name token whose atom is - (6.3.1.2 "term = name, integer" *)
(* with the condition that the name is -): either the graphic token - , which must be the whole token       *)
(* (6.4.2: a graphic token is the longest sequence of symbol characters, so "--1" and "-.5" do not start a  *)
(* negative number), or a quoted token with the single character - ('-', '\x2d\', '\55\').                 *)
SignEnd(s, i) ==     \* index after a sign token starting at s[i], or 0
  IF At(s, i) = 45 THEN (IF SymbolChar(At(s, i + 1)) THEN 0 ELSE i + 1)
  ELSE IF At(s, i) = 39 THEN
    LET q == QChar(s, i + 1) IN
    IF q[2] > 0 /\ q[1] = 45 /\ At(s, q[2]) = 39 /\ At(s, q[2] + 1) # 39 THEN q[2] + 1 ELSE 0
  ELSE 0
Prefix(s) ==
  LET i0  == SkipLayout(s, 1)
      se  == IF i0 > 0 THEN SignEnd(s, i0) ELSE 0
      neg == se > 0
      i1  == IF neg THEN SkipLayout(s, se) ELSE i0
  IN <<neg, IF i1 > 0 /\ Digit(At(s, i1)) THEN i1 ELSE 0>>

(* the lexical analysis shared by the operators below: sign, first digit index, token *)
NoTok == Tok("err", <<>>, 0, 0, "none", FALSE)
Lex(s) == LET p == Prefix(s) IN [neg |-> p[1], i |-> p[2], t |-> IF p[2] = 0 THEN NoTok ELSE NumToken(s, p[2])]

(* number_codes/2, number_chars/2 (8.16.7, 8.16.8): the whole text must be one (possibly negative) number *)
NumberOfLex(s, x) ==
  IF x.i = 0 \/ x.t.k = "err" \/ x.t.j # Len(s) + 1 THEN SynErr ELSE TokValue(x.t, x.neg)
NumberOfText(s) == NumberOfLex(s, Lex(s))

(* read_term on a text: the first term read.  Only what this module can decide is decided:               *)
(*   the text starts with a (possibly negative) number token that is followed by an end token -> that    *)
(*   number; the number token is malformed -> syntax error; anything else -> "other": the reader must    *)
(*   not produce a number (further tokens follow the number, so the term read is compound or the text    *)
(*   is a syntax error; the term grammar is not part of this module).  Nothing is said ("any") about a   *)
(*   text that starts with an open parenthesis.                                                          *)
IsEnd(s, k) == At(s, k) = 46 /\ (At(s, k + 1) = EOF \/ LayoutChar(At(s, k + 1)) \/ At(s, k + 1) = 37)
AnyRes == [k |-> "any", v |-> BZero]
ReadOfLex(s, x) ==
  IF x.i = 0 THEN (IF At(s, SkipLayout(s, 1)) = 40 THEN AnyRes ELSE Other)   \* "(1)" is a term that is a number
  ELSE IF x.t.k = "err" THEN SynErr
  ELSE LET k == SkipLayout(s, x.t.j) IN
       IF k > 0 /\ IsEnd(s, k) THEN TokValue(x.t, x.neg) ELSE Other
ReadOfText(s) == ReadOfLex(s, Lex(s))

(* a malformed token whose offending underscore is followed by nothing but layout text up to the end of the text *)
ErrAtEnd(s, x) == x.i > 0 /\ x.t.k = "err" /\ SkipLayout(s, x.t.j + 1) = Len(s) + 1

(* what remains after the token, for coverage classes *)
RestKindOfLex(s, x) ==
  IF x.i = 0 THEN "nonum"
  ELSE IF x.t.k = "err" THEN "tokerr"
  ELSE IF x.t.j = Len(s) + 1 THEN "none"
  ELSE LET k == SkipLayout(s, x.t.j) IN
       IF k = Len(s) + 1 THEN "layout"
       ELSE IF k > 0 /\ IsEnd(s, k) THEN "end"
       ELSE IF At(s, x.t.j) = 46 THEN "dot" ELSE IF At(s, x.t.j) \in {101, 69} THEN "exp" ELSE "more"

-----------------------------------------------------------------------------
(* text helpers: TLA+ strings of printable ASCII to code points *)
Ascii == " !\"#$%&'()*+,-./0123456789:;<=>?@ABCDEFGHIJKLMNOPQRSTUVWXYZ[\\]^_`abcdefghijklmnopqrstuvwxyz{|}~"
CodeOf(ch) == 31 + (CHOOSE i \in 1..95 : SubSeq(Ascii, i, i) = ch)
Codes(str) == [i \in 1..Len(str) |-> CodeOf(SubSeq(str, i, i))]

=============================================================================
