-------------------------------- MODULE Terms --------------------------------
(* Prolog terms as uniform records [t, n, i, a] so that equality is total in TLC:        *)
(*   variable  [t |-> "v", n |-> name, i |-> renaming index, a |-> <<>>]                  *)
(*   atom      [t |-> "a", n |-> name, i |-> 0, a |-> <<>>]                               *)
(*   integer   [t |-> "i", n |-> "", i |-> value (native, 32-bit safe), a |-> <<>>]       *)
(*   compound  [t |-> "c", n |-> functor name, i |-> 0, a |-> <<args>>]                   *)
(* Lists are '.'/2 chains ending in the atom "[]".  A store (substitution) is a function  *)
(* from variable records to terms; it is kept triangular and acyclic (bindings are made   *)
(* only after an occurs check, see Unify).                                                *)
EXTENDS Integers, Sequences, FiniteSets, TLC

V(n)       == [t |-> "v", n |-> n, i |-> 0, a |-> <<>>]
VI(n, k)   == [t |-> "v", n |-> n, i |-> k, a |-> <<>>]
A(n)       == [t |-> "a", n |-> n, i |-> 0, a |-> <<>>]
I(k)       == [t |-> "i", n |-> "", i |-> k, a |-> <<>>]
C(n, args) == [t |-> "c", n |-> n, i |-> 0, a |-> args]
C1(n, x)       == C(n, <<x>>)
C2(n, x, y)    == C(n, <<x, y>>)
C3(n, x, y, z) == C(n, <<x, y, z>>)

Nil        == A("[]")
Cons(h, t) == C2(".", h, t)
RECURSIVE ListOf(_)
ListOf(s)  == IF s = <<>> THEN Nil ELSE Cons(Head(s), ListOf(Tail(s)))
RECURSIVE PListOf(_, _)
PListOf(s, tl) == IF s = <<>> THEN tl ELSE Cons(Head(s), PListOf(Tail(s), tl))

IsVar(x)  == x.t = "v"
IsAtom(x) == x.t = "a"
IsInt(x)  == x.t = "i"
IsCmp(x)  == x.t = "c"
IsAtomic(x) == x.t \in {"a", "i"}
IsCallable(x) == x.t \in {"a", "c"}
IsA(x, n)    == x.t = "a" /\ x.n = n
IsF(x, n, k) == x.t = "c" /\ x.n = n /\ Len(x.a) = k

True  == A("true")
Fail  == A("fail")
Conj(x, y) == C2(",", x, y)
Disj(x, y) == C2(";", x, y)
Ite(c, t, e) == C2(";", C2("->", c, t), e)
It(c, t)     == C2("->", c, t)
Not(g)       == C1("\\+", g)
Eq(x, y)     == C2("=", x, y)
Cut          == A("!")
Call1(g)     == C1("call", g)

RECURSIVE ConjOf(_)
ConjOf(s) == IF s = <<>> THEN True ELSE IF Len(s) = 1 THEN s[1] ELSE Conj(s[1], ConjOf(Tail(s)))

(* ---- size, variables, renaming ---- *)
RECURSIVE TSize(_)
RECURSIVE SumSizes(_, _)
SumSizes(args, k) == IF k = 0 THEN 0 ELSE TSize(args[k]) + SumSizes(args, k - 1)
TSize(x) == IF x.t = "c" THEN 1 + SumSizes(x.a, Len(x.a)) ELSE 1

RECURSIVE VarsOf(_)
VarsOf(x) == IF x.t = "v" THEN {x}
             ELSE IF x.t = "c" THEN UNION {VarsOf(x.a[k]) : k \in 1..Len(x.a)}
             ELSE {}

(* variables in depth-first left-to-right first-occurrence order *)
RECURSIVE VarSeqAcc(_, _)
RECURSIVE VarSeqArgs(_, _, _)
VarSeqArgs(args, k, acc) == IF k > Len(args) THEN acc ELSE VarSeqArgs(args, k + 1, VarSeqAcc(args[k], acc))
VarSeqAcc(x, acc) ==
  IF x.t = "v" THEN (IF \E j \in 1..Len(acc) : acc[j] = x THEN acc ELSE Append(acc, x))
  ELSE IF x.t = "c" THEN VarSeqArgs(x.a, 1, acc)
  ELSE acc
VarSeq(x) == VarSeqAcc(x, <<>>)

RECURSIVE Rename(_, _)
Rename(x, k) == IF x.t = "v" THEN [x EXCEPT !.i = k]
                ELSE IF x.t = "c" THEN [x EXCEPT !.a = [j \in 1..Len(x.a) |-> Rename(x.a[j], k)]]
                ELSE x

(* ---- stores ---- *)
EmptyStore == <<>>          \* the function with empty domain

RECURSIVE Deref(_, _)
Deref(st, x) == IF x.t = "v" /\ x \in DOMAIN st THEN Deref(st, st[x]) ELSE x

RECURSIVE Apply(_, _)
Apply(st, x) == LET d == Deref(st, x)
                IN IF d.t = "c" THEN [d EXCEPT !.a = [j \in 1..Len(d.a) |-> Apply(st, d.a[j])]] ELSE d

RECURSIVE Occurs(_, _, _)
Occurs(st, v, x) == LET d == Deref(st, x)
                    IN IF d.t = "v" THEN d = v
                       ELSE IF d.t = "c" THEN \E j \in 1..Len(d.a) : Occurs(st, v, d.a[j])
                       ELSE FALSE

Bind(st, v, x) == (v :> x) @@ st

(* ---- unification (finite trees).  Result: [ok, st, cyc]; cyc = the occurs check fired, i.e. *)
(* the real system (occurs_check = false) would build a cyclic term: such behaviours are outside *)
(* the finite-tree specification and are dropped by the generators.                              *)
RECURSIVE UnifyW(_, _)
UnifyW(st, wl) ==
  IF wl = <<>> THEN [ok |-> TRUE, st |-> st, cyc |-> FALSE]
  ELSE LET s == Deref(st, wl[1][1])
           u == Deref(st, wl[1][2])
           rest == Tail(wl)
       IN IF s = u THEN UnifyW(st, rest)
          ELSE IF s.t = "v" THEN
                 IF Occurs(st, s, u) THEN [ok |-> FALSE, st |-> st, cyc |-> TRUE]
                 ELSE UnifyW(Bind(st, s, u), rest)
          ELSE IF u.t = "v" THEN
                 IF Occurs(st, u, s) THEN [ok |-> FALSE, st |-> st, cyc |-> TRUE]
                 ELSE UnifyW(Bind(st, u, s), rest)
          ELSE IF s.t = "c" /\ u.t = "c" /\ s.n = u.n /\ Len(s.a) = Len(u.a)
                 THEN UnifyW(st, [k \in 1..Len(s.a) |-> <<s.a[k], u.a[k]>>] \o rest)
          ELSE [ok |-> FALSE, st |-> st, cyc |-> FALSE]

Unify(st, x, y) == UnifyW(st, << <<x, y>> >>)

(* structural identity (==) under a store *)
Identical(st, x, y) == Apply(st, x) = Apply(st, y)

(* proper list test on dereferenced terms *)
RECURSIVE IsList(_, _)
IsList(st, x) == LET d == Deref(st, x) IN IsA(d, "[]") \/ (IsF(d, ".", 2) /\ IsList(st, d.a[2]))
(* list or partial list (a '.'/2 chain ending in [] or in a variable) *)
RECURSIVE PartialList(_, _)
PartialList(st, x) == LET d == Deref(st, x) IN d.t = "v" \/ IsA(d, "[]") \/ (IsF(d, ".", 2) /\ PartialList(st, d.a[2]))
==============================================================================
