------------------------------ MODULE Trace_C40 ------------------------------
(* C40, impl -> spec: validation of recorded call_with_inference_limit/3 runs against InferLimit.tla.   *)
(* ndjson events written by props/C40.py, one per goal:                                                *)
(*   {"ev":"goal","id":..,"kind":"plain","def":{"sols":[{"s":..,"r1":"-"}..],"end":..,"ball":..},       *)
(*    "runs":[{"lim":L,"items":[{"s":..,"r1":..,"r":..}..],"end":"stop"|"ball"|..,"ball":..}..],         *)
(*    "m": largest limit run, "keep":[limits whose outcome nested goals refer to], "ish": is the goal H,  *)
(*    "base":"","ilim":0,"hid":""}                                                                        *)
(*   kind "nest" | "seq" | "loopseq": the goal is call_with_inference_limit(Base, ilim, R1) [, H | , loop] *)
(*   run under an outer limit; its definition is *derived* from the outcome of (Base, ilim) run alone      *)
(*   (state variable alone), for "seq" with the cost of H run alone as the minimal step (hlb).             *)
(* def comes from the abstract machine (MC_C40), runs from the real system.  The inference costs are      *)
(* logged nowhere: a goal event is explained iff some cost assignment predicts all its runs                *)
(* (InferLimit!Verdict = "ok").  An unexplained event is reported (REJECT line, verdict) and validation    *)
(* goes on with the next goal; the trace is accepted iff no event was rejected and the whole trace was     *)
(* consumed (POSTCONDITION).                                                                              *)
EXTENDS InferLimit, Json, IOUtils, TLC

VARIABLES l, alone, hlb

Rec == ndJsonDeserialize(IOEnv.TRACE)

Init == l = 1 /\ alone = <<>> /\ hlb = <<>>

RefOk(e) == \/ e.kind = "plain"
            \/ /\ <<e.base, e.ilim>> \in DOMAIN alone
               /\ e.kind = "seq" => e.hid \in DOMAIN hlb

DefOf(e) == IF e.kind = "plain" THEN e.def
            ELSE IF e.kind = "loopseq" THEN LoopDef(alone[<<e.base, e.ilim>>])
            ELSE NestDef(alone[<<e.base, e.ilim>>])

StepOf(e) == IF e.kind = "seq" THEN hlb[e.hid] ELSE 0

VerdictOf(e) == IF ~RefOk(e) THEN "noref" ELSE Verdict(DefOf(e), e.runs, e.m, StepOf(e))

Kept(e) == LET ks == {e.keep[j] : j \in 1..Len(e.keep)} IN
           [p \in {<<e.id, k>> : k \in ks} |->
              Obs(e.runs[CHOOSE j \in 1..Len(e.runs) : e.runs[j].lim = p[2]])]

Next == /\ l <= Len(Rec)
        /\ l' = l + 1
        /\ LET e == Rec[l]
               v == VerdictOf(e)
           IN /\ v # "ok" => PrintT(<<"REJECT", l, v>>)
              /\ alone' = IF v = "ok" /\ e.kind = "plain" /\ Len(e.keep) > 0 THEN Kept(e) @@ alone ELSE alone
              /\ hlb' = IF v = "ok" /\ e.ish THEN (e.id :> FirstCostLB(e.runs)) @@ hlb ELSE hlb

TraceAccepted ==
  LET d == TLCGet("stats").diameter IN
  IF d - 1 = Len(Rec) THEN TRUE ELSE PrintT(<<"INCOMPLETE", d>>) /\ FALSE
=============================================================================
