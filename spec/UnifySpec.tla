------------------------------ MODULE UnifySpec ------------------------------
(* Layer A for C10: what X = Y, unify_with_occurs_check/2 and \= have to do under the three     *)
(* values of the occurs_check flag.                                                             *)
(*                                                                                              *)
(*  finite trees    Terms!Unify (occurs check; result [ok, st, cyc]) - the meaning of            *)
(*                  unify_with_occurs_check/2 and of = under occurs_check = true                 *)
(*  rational trees  RUnify below (no occurs check, bindings may be cyclic; terminates by the     *)
(*                  set of visited pairs) - the meaning of = under occurs_check = false          *)
(*  flag = error    "a cyclic binding raises the documented error instead": the error            *)
(*                  representation_error(term) (builtins.pl / DESIGN Appendix 2) when            *)
(*                  unification meets a cyclic binding, failure when it meets a clash.  Which    *)
(*                  of the two is met FIRST depends on the order in which the implementation     *)
(*                  visits the equations and is not specified: Flags collects both               *)
(*                  independently; when both are present either outcome is accepted.             *)
(* All operators work on denotations (TermsExt!Den): strings and partial strings are lists,      *)
(* numbers are values.                                                                           *)
EXTENDS TermsExt

(* ---- rational-tree unification ---- *)
RECURSIVE RUnifyW(_, _, _)
RUnifyW(st, wl, seen) ==
  IF wl = <<>> THEN [ok |-> TRUE, st |-> st]
  ELSE LET s == Deref(st, wl[1][1])
           u == Deref(st, wl[1][2])
           rest == Tail(wl)
       IN IF s = u THEN RUnifyW(st, rest, seen)
          ELSE IF s.t = "v" THEN RUnifyW(Bind(st, s, u), rest, seen)
          ELSE IF u.t = "v" THEN RUnifyW(Bind(st, u, s), rest, seen)
          ELSE IF s.t = "c" /\ u.t = "c" /\ s.n = u.n /\ Len(s.a) = Len(u.a) THEN
                 (IF <<s, u>> \in seen THEN RUnifyW(st, rest, seen)
                  ELSE RUnifyW(st, [k \in 1..Len(s.a) |-> <<s.a[k], u.a[k]>>] \o rest, seen \cup {<<s, u>>}))
          ELSE [ok |-> FALSE, st |-> st]
RUnify(st, x, y) == RUnifyW(st, << <<x, y>> >>, {})

(* the instance of x under a (possibly cyclic) store is an infinite tree *)
RECURSIVE CyclicIn(_, _, _)
CyclicIn(st, x, path) ==
  IF x.t = "v" THEN (x \in DOMAIN st /\ (x \in path \/ CyclicIn(st, st[x], path \cup {x})))
  ELSE IF x.t = "c" THEN \E k \in 1..Len(x.a) : CyclicIn(st, x.a[k], path)
  ELSE FALSE
Cyclic(st, x) == CyclicIn(st, x, {})

(* ---- clash / cyclic-binding flags of finite-tree unification, collected independently:        *)
(* an equation that clashes or fails the occurs check is skipped (cf. Herbrand!Solve).  Which    *)
(* failure an implementation meets first depends on the order in which it visits the arguments;  *)
(* the flags are collected for the left-to-right and the right-to-left order and joined. ---- *)
RECURSIVE FlagsW(_, _, _, _, _)
FlagsW(st, wl, clash, cyc, rev) ==
  IF wl = <<>> THEN [clash |-> clash, cyc |-> cyc]
  ELSE LET s == Deref(st, wl[1][1])
           u == Deref(st, wl[1][2])
           rest == Tail(wl)
       IN IF s = u THEN FlagsW(st, rest, clash, cyc, rev)
          ELSE IF s.t = "v" THEN
                 (IF Occurs(st, s, u) THEN FlagsW(st, rest, clash, TRUE, rev)
                  ELSE FlagsW(Bind(st, s, u), rest, clash, cyc, rev))
          ELSE IF u.t = "v" THEN
                 (IF Occurs(st, u, s) THEN FlagsW(st, rest, clash, TRUE, rev)
                  ELSE FlagsW(Bind(st, u, s), rest, clash, cyc, rev))
          ELSE IF s.t = "c" /\ u.t = "c" /\ s.n = u.n /\ Len(s.a) = Len(u.a)
                 THEN LET n == Len(s.a)
                          eqs == [k \in 1..n |-> IF rev THEN <<s.a[n + 1 - k], u.a[n + 1 - k]>> ELSE <<s.a[k], u.a[k]>>]
                      IN FlagsW(st, eqs \o rest, clash, cyc, rev)
          ELSE FlagsW(st, rest, TRUE, cyc, rev)
FlagsDir(x, y, rev) == FlagsW(EmptyStore, << <<x, y>> >>, FALSE, FALSE, rev)
Flags(x, y) == LET l == FlagsDir(x, y, FALSE)
                   r == FlagsDir(x, y, TRUE)
               IN [clash |-> l.clash \/ r.clash, cyc |-> l.cyc \/ r.cyc]

(* ---- expected outcomes.  An outcome is one of                                                 *)
(*   "ok"     success; afterwards S == T, the pair is acyclic, S is (a variant of) Inst(x, y),    *)
(*            and the witness variable is still unbound and distinct from every variable of S     *)
(*   "okcyc"  success; afterwards S == T and the pair is cyclic (only the flag value false)       *)
(*   "fail"   failure          "error"  error(representation_error(term), _)                      *)
(* Expected(mode, pred, x, y) is the SET of admissible outcomes (a singleton except for the        *)
(* error mode when a clash and a cyclic binding are both present).                                 *)
Modes == <<"false", "true", "error">>
Preds == <<"=", "call=", "uwoc", "\\=">>

Inst(x, y) == Apply(Unify(EmptyStore, x, y).st, x)

UnifyOutcomes(mode, x, y) ==
  LET f  == Unify(EmptyStore, x, y)
      r  == RUnify(EmptyStore, x, y)
      fl == Flags(x, y)
  IN CASE mode = "true"  -> IF f.ok THEN {"ok"} ELSE {"fail"}
       [] mode = "false" -> IF ~r.ok THEN {"fail"}
                            ELSE IF Cyclic(r.st, x) \/ Cyclic(r.st, y) THEN {"okcyc"} ELSE {"ok"}
       [] mode = "error" -> IF f.ok THEN {"ok"}
                            ELSE IF r.ok THEN {"error"}       \* no clash in any order: a clash refutes rational trees too
                            ELSE (IF fl.clash THEN {"fail"} ELSE {}) \cup (IF fl.cyc THEN {"error"} ELSE {})

(* \= succeeds (binding nothing: "nok") iff = fails, fails iff = succeeds, and lets the error through *)
Negate(o) == CASE o = "fail" -> "nok" [] o = "error" -> "error" [] OTHER -> "fail"

Expected(mode, pred, x, y) ==
  CASE pred \in {"=", "call="} -> UnifyOutcomes(mode, x, y)
    [] pred = "uwoc" -> UnifyOutcomes("true", x, y)      \* independent of the flag
    [] pred = "\\="  -> {Negate(o) : o \in UnifyOutcomes(mode, x, y)}

(* ---- theorems about the oracle (checked by TLC on the universe of MC_C10) ---- *)
Idempotent(st) == \A v \in DOMAIN st : VarsOf(Apply(st, v)) \cap DOMAIN st = {}
(* H: a finite set of ground terms; vars: the variables of x and y *)
GroundSubsts(vars, H) == [vars -> H]
Theorems(x, y, H) ==
  LET f  == Unify(EmptyStore, x, y)
      r  == RUnify(EmptyStore, x, y)
      fl == Flags(x, y)
      vars == VarsOf(x) \cup VarsOf(y)
  IN /\ f.ok => /\ Apply(f.st, x) = Apply(f.st, y)                      \* soundness
                /\ Idempotent(f.st)
                /\ DOMAIN f.st \subseteq vars                           \* nothing else is bound
                /\ r.ok /\ ~Cyclic(r.st, x) /\ ~Cyclic(r.st, y)
                /\ Apply(r.st, x) = Apply(f.st, x)                      \* both readings agree on finite results
     /\ \A rev \in BOOLEAN : f.ok <=> (~FlagsDir(x, y, rev).clash /\ ~FlagsDir(x, y, rev).cyc)
     /\ (~f.ok /\ f.cyc) => fl.cyc
     /\ (~f.ok /\ ~f.cyc) => fl.clash
     /\ (r.ok /\ ~f.ok) => (~fl.clash /\ (Cyclic(r.st, x) \/ Cyclic(r.st, y)))   \* only a cyclic solution was missing
     /\ ~r.ok => ~f.ok
     (* most general: a ground substitution over H unifies x and y iff it is an instance of the mgu *)
     /\ \A sg \in GroundSubsts(vars, H) :
          (Apply(sg, x) = Apply(sg, y)) <=> (f.ok /\ \A v \in vars : Apply(sg, Apply(f.st, v)) = sg[v])
=============================================================================
