-------------------------------- MODULE Clpb --------------------------------
(* Layer A for C46: the meaning of Boolean expressions of library(clpb) and of its           *)
(* interface predicates, by truth table.                                                     *)
(*                                                                                           *)
(* Source of every choice: the documentation comment of /repo/src/lib/clpb.pl                *)
(*   - table "Boolean expressions": 0 false, 1 true, variable, ~E NOT, E+E OR, E*E AND,      *)
(*     E#E XOR, E=:=E equality, E=\=E disequality (same as #), E=<E less or equal            *)
(*     (implication), E>=E, E<E, E>E (the order is that of the truth values 0 < 1),          *)
(*     card(Is,Exprs) "true iff the number of true expressions in the list Exprs is a        *)
(*     member of the list Is of integers and integer ranges of the form From-To",            *)
(*     +(Exprs) / *(Exprs) "the disjunction and conjunction of all elements in the list";    *)
(*   - sat(+Expr) "True iff the Boolean expression Expr is satisfiable" (a posted            *)
(*     constraint stays posted: later goals are "with respect to the posted constraints");   *)
(*   - taut(+Expr,-T) "If Expr is a tautology with respect to the posted constraints,        *)
(*     succeeds with T = 1. If Expr cannot be satisfied, succeeds with T = 0. Otherwise,     *)
(*     it fails.";                                                                           *)
(*   - labeling(+Vs) "Assigns truth values to the variables Vs such that all constraints     *)
(*     are satisfied" / "Enumerate concrete solutions";                                      *)
(*   - sat_count(+Expr,-Count) "Count is the number of different assignments of truth        *)
(*     values to the variables in the Boolean expression Expr, such that Expr is true and    *)
(*     all posted constraints are satisfiable";                                              *)
(*   - "The unification of a CLP(B) variable X with a term T is equivalent to posting the    *)
(*     constraint sat(X=:=T)."                                                               *)
(* Not modelled (outside the property's list of connectives): atoms (universally quantified  *)
(* parameters), V^E (existential quantification), weighted_maximum/3, random_labeling/2.     *)
EXTENDS Integers, Sequences, FiniteSets

(* Formulas.  Variables are indices 1..nv.                                                   *)
(*   [k |-> "c", i |-> 0 or 1]                                                               *)
(*   [k |-> "v", i |-> index]                                                                *)
(*   [k |-> "un",  op |-> "~", a |-> <<f>>]                                                  *)
(*   [k |-> "bin", op |-> one of BinOps, a |-> <<f, g>>]                                     *)
(*   [k |-> "nary", op |-> "+" or "*", a |-> sequence of formulas]     +(Exprs), *(Exprs)    *)
(*   [k |-> "card", is |-> sequence of <<lo, hi>> (lo <= hi), a |-> sequence of formulas]    *)
BinOps == <<"*", "+", "#", "=:=", "=\\=", "=<", ">=", "<", ">">>

Const(i)        == [k |-> "c", i |-> i]
Var(i)          == [k |-> "v", i |-> i]
Not(f)          == [k |-> "un", op |-> "~", a |-> <<f>>]
Bin(op, f, g)   == [k |-> "bin", op |-> op, a |-> <<f, g>>]
Nary(op, fs)    == [k |-> "nary", op |-> op, a |-> fs]
Card(is, fs)    == [k |-> "card", is |-> is, a |-> fs]

BinVal(op, x, y) ==
  CASE op = "*"     -> IF x = 1 /\ y = 1 THEN 1 ELSE 0
    [] op = "+"     -> IF x = 1 \/ y = 1 THEN 1 ELSE 0
    [] op = "#"     -> IF x # y THEN 1 ELSE 0
    [] op = "=:="   -> IF x = y THEN 1 ELSE 0
    [] op = "=\\="  -> IF x # y THEN 1 ELSE 0
    [] op = "=<"    -> IF x <= y THEN 1 ELSE 0
    [] op = ">="    -> IF x >= y THEN 1 ELSE 0
    [] op = "<"     -> IF x < y THEN 1 ELSE 0
    [] op = ">"     -> IF x > y THEN 1 ELSE 0

(* truth value (0 or 1) of formula f under assignment a (a function from indices to 0..1) *)
RECURSIVE Ev(_, _)
Ev(f, a) ==
  CASE f.k = "c"    -> f.i
    [] f.k = "v"    -> a[f.i]
    [] f.k = "un"   -> 1 - Ev(f.a[1], a)
    [] f.k = "bin"  -> BinVal(f.op, Ev(f.a[1], a), Ev(f.a[2], a))
    [] f.k = "nary" -> IF f.op = "+"
                         THEN (IF \E j \in 1..Len(f.a) : Ev(f.a[j], a) = 1 THEN 1 ELSE 0)
                         ELSE (IF \A j \in 1..Len(f.a) : Ev(f.a[j], a) = 1 THEN 1 ELSE 0)
    [] f.k = "card" -> LET n == Cardinality({j \in 1..Len(f.a) : Ev(f.a[j], a) = 1})
                       IN IF \E p \in 1..Len(f.is) : f.is[p][1] <= n /\ n <= f.is[p][2] THEN 1 ELSE 0

RECURSIVE Vars(_)
Vars(f) ==
  CASE f.k = "c" -> {}
    [] f.k = "v" -> {f.i}
    [] OTHER     -> UNION {Vars(f.a[j]) : j \in 1..Len(f.a)}

RECURSIVE Ops(_)
Ops(f) ==
  CASE f.k = "c" -> {"const"}
    [] f.k = "v" -> {}
    [] f.k = "nary" -> {f.op \o "/1"} \cup UNION {Ops(f.a[j]) : j \in 1..Len(f.a)}
    [] f.k = "card" -> {"card"} \cup UNION {Ops(f.a[j]) : j \in 1..Len(f.a)}
    [] OTHER     -> {f.op} \cup UNION {Ops(f.a[j]) : j \in 1..Len(f.a)}

RECURSIVE Depth(_)
Depth(f) ==
  IF f.k \in {"c", "v"} THEN 0
  ELSE LET ds == {Depth(f.a[j]) : j \in 1..Len(f.a)}
       IN 1 + (IF ds = {} THEN 0 ELSE CHOOSE d \in ds : \A e \in ds : e <= d)

Assignments(nv) == [1..nv -> {0, 1}]

(* the models of f among the assignments of the variables 1..nv *)
Models(f, nv) == {a \in Assignments(nv) : Ev(f, a) = 1}

(* ---------------------------------------------------------------------------------------- *)
(* The constraint store: the effect of a sequence of actions                                 *)
(*   [t |-> "sat", f |-> formula]       sat(f)         (several posts conjoin)               *)
(*   [t |-> "unify", i |-> p, j |-> q]  Vp = Vq        (equivalent to sat(Vp =:= Vq))        *)
(*   [t |-> "bind", i |-> p, j |-> c]   Vp = c, c in 0..1 (equivalent to sat(Vp =:= c))      *)
ActHolds(act, a) ==
  CASE act.t = "sat"   -> Ev(act.f, a) = 1
    [] act.t = "unify" -> a[act.i] = a[act.j]
    [] act.t = "bind"  -> a[act.i] = act.j

StoreModels(acts, nv) == {a \in Assignments(nv) : \A p \in 1..Len(acts) : ActHolds(acts[p], a)}

(* the conjunction of goals sat(..), unifications succeeds iff the store is satisfiable; it  *)
(* fails at the first action after which the store has no model                              *)
StoreSat(acts, nv) == StoreModels(acts, nv) # {}

(* taut(g, T) with respect to store models S (S nonempty): 1 tautology, 0 unsatisfiable,     *)
(* -1: the goal fails                                                                        *)
Taut(g, S) ==
  IF \A a \in S : Ev(g, a) = 0 THEN 0
  ELSE IF \A a \in S : Ev(g, a) = 1 THEN 1
  ELSE -1

(* sat_count(g, N): the number of assignments of the variables of g that make g true and     *)
(* can be extended to a model of the store                                                   *)
Count(g, S) ==
  LET vs == Vars(g) IN Cardinality({[v \in vs |-> a[v]] : a \in {b \in S : Ev(g, b) = 1}})
=============================================================================
