CONSTANTS Tier = "quick" Part = "goals" MaxSteps = 300 MaxAns = 40
INIT Init
NEXT Next
INVARIANT MachInv
INVARIANT GoalsOk
INVARIANT Emit
