------------------------------- MODULE OpCfg -------------------------------
(* The operator table as a state machine (the configuration of C15 / C50).                      *)
(*                                                                                              *)
(* State: a set of operator records [n, k, p, s]: name, kind ("prefix" | "infix" | "postfix"),   *)
(* priority 1..1200, specifier.  There is at most one record per (name, kind) (ISO 6.3.4.3), and  *)
(* no name is both an infix and a postfix operator (ISO 6.3.4.3, enforced by Scryer:             *)
(* src/machine/machine_errors.rs SessionError::OpIsInfixAndPostFix).                              *)
(*                                                                                              *)
(* Action Op(p, s, n) is op/3 restricted to ADMISSIBLE declarations (ISO 8.14.3, builtins.pl     *)
(* op/3): the full error model of op/3 is the subject of C43 and is not repeated here.            *)
(*   - priority 0 removes the (name, kind) entry, any other priority adds or replaces it;        *)
(*   - ',' '[]' '{}' cannot be declared (permission_error in builtins.pl valid_op/1);             *)
(*   - '|' only as an infix operator of priority >= 1001 (or 0)  (builtins.pl op/3, first branch);*)
(*   - an infix declaration for a name that is a postfix operator, and vice versa, is refused.    *)
EXTENDS Integers, Sequences, FiniteSets, TLC

Specifiers == {"xfx", "xfy", "yfx", "fy", "fx", "xf", "yf"}
KindOf(s) == IF s \in {"fx", "fy"} THEN "prefix" ELSE IF s \in {"xf", "yf"} THEN "postfix" ELSE "infix"
Kinds == {"prefix", "infix", "postfix"}

OpRec(p, s, n) == [n |-> n, k |-> KindOf(s), p |-> p, s |-> s]

(* The table of a freshly booted Scryer: src/parser/ast.rs default_op_dir plus the directives of *)
(* src/lib/ops_and_meta_predicates.pl (in ISO 6.3.4.4 table 7 order where they coincide).        *)
BootTable ==
  { OpRec(1200, "xfx", ":-"), OpRec(1200, "fx", ":-"), OpRec(1200, "fx", "?-"), OpRec(1200, "xfx", "-->"),
    OpRec(1100, "xfy", ";"), OpRec(1050, "xfy", "->"), OpRec(1000, "xfy", ","), OpRec(900, "fy", "\\+"),
    OpRec(700, "xfx", "="), OpRec(700, "xfx", "\\="), OpRec(700, "xfx", "=="), OpRec(700, "xfx", "\\=="),
    OpRec(700, "xfx", "@<"), OpRec(700, "xfx", "@>"), OpRec(700, "xfx", "@=<"), OpRec(700, "xfx", "@>="),
    OpRec(700, "xfx", "=.."), OpRec(700, "xfx", "is"), OpRec(700, "xfx", "=:="), OpRec(700, "xfx", "=\\="),
    OpRec(700, "xfx", "<"), OpRec(700, "xfx", ">"), OpRec(700, "xfx", "=<"), OpRec(700, "xfx", ">="),
    OpRec(700, "fx", "non_counted_backtracking"),
    OpRec(600, "xfy", ":"), OpRec(500, "yfx", "+"), OpRec(500, "yfx", "-"), OpRec(500, "yfx", "/\\"), OpRec(500, "yfx", "\\/"),
    OpRec(400, "yfx", "*"), OpRec(400, "yfx", "/"), OpRec(400, "yfx", "//"), OpRec(400, "yfx", "rdiv"), OpRec(400, "yfx", "<<"),
    OpRec(400, "yfx", ">>"), OpRec(400, "yfx", "div"), OpRec(400, "yfx", "mod"), OpRec(400, "yfx", "rem"),
    OpRec(200, "xfx", "**"), OpRec(200, "xfy", "^"), OpRec(200, "fy", "+"), OpRec(200, "fy", "-"), OpRec(200, "fy", "\\") }

(* library(dcgs) (loaded by every check that uses charsio/format) exports op(1105, xfy, '|')     *)
DcgsTable == BootTable \cup { OpRec(1105, "xfy", "|") }

Has(tbl, n, k)   == \E o \in tbl : o.n = n /\ o.k = k
Entry(tbl, n, k) == CHOOSE o \in tbl : o.n = n /\ o.k = k
IsOp(tbl, n)     == \E o \in tbl : o.n = n

Admissible(tbl, p, s, n) ==
  /\ p \in 0..1200 /\ s \in Specifiers
  /\ n \notin {",", "[]", "{}"}
  /\ n = "|" => (KindOf(s) = "infix" /\ (p >= 1001 \/ p = 0))
  /\ (p > 0 /\ KindOf(s) = "infix")   => ~Has(tbl, n, "postfix")
  /\ (p > 0 /\ KindOf(s) = "postfix") => ~Has(tbl, n, "infix")

Declare(tbl, p, s, n) ==
  LET rest == {o \in tbl : ~(o.n = n /\ o.k = KindOf(s))}
  IN IF p = 0 THEN rest ELSE rest \cup {OpRec(p, s, n)}

(* well-formedness of every reachable table *)
TableOk(tbl) ==
  /\ \A o \in tbl : o.p \in 1..1200 /\ o.s \in Specifiers /\ o.k = KindOf(o.s)
  /\ \A o1, o2 \in tbl : (o1.n = o2.n /\ o1.k = o2.k) => o1 = o2
  /\ \A o \in tbl : ~(Has(tbl, o.n, "infix") /\ Has(tbl, o.n, "postfix"))
  /\ OpRec(1000, "xfy", ",") \in tbl
  /\ ~IsOp(tbl, "[]") /\ ~IsOp(tbl, "{}")
  /\ \A o \in tbl : o.n = "|" => (o.k = "infix" /\ o.p >= 1001)

(* the functor shapes that the table turns into operator notation: <<name, arity>> *)
ShapeOf(o) == <<o.n, IF o.k = "infix" THEN 2 ELSE 1>>
Shapes(tbl) == {ShapeOf(o) : o \in tbl}
=============================================================================
