------------------------------ MODULE BigTerms ------------------------------
(* C34: large and deeply nested terms never crash the process.                           *)
(*                                                                                       *)
(* A deliberately thin model (DESIGN.md section 9: claimed at exploration level). A case  *)
(* is an operation op applied to a term of shape s and size n; the process either        *)
(* delivers the answer given here in closed form or raises a Prolog resource error;      *)
(* proc = "crashed" is never reachable. Why a real process dies (native stack depth) is   *)
(* not expressible here: the model contributes the case table and the functional oracle. *)
(*                                                                                       *)
(* Shapes (built at run time by the helper predicates of props/C34.py):                  *)
(*   list   [1,2,...,n]                       rnest  f(f(...f(a)...)), n times f         *)
(*   lnest  (((0-1)-2)-...)-n                  dlist  [[[...[]...]]], n pairs of brackets  *)
(*   conj   (true,(true,...,true)), n commas   vars   a list of n distinct variables       *)
(*   wide   w(L1,...,L250), each Li = [1,...,n div 250]                                   *)
(* The sibling T' of a term T differs from it only at the place visited last by a        *)
(* left-to-right depth-first walk: last list element n+1 instead of n, leaf b instead of *)
(* a, last summand n+1, innermost [a] instead of [], last conjunct fail instead of true. *)
EXTENDS Naturals, Sequences, TLC

Shapes == {"list", "rnest", "lnest", "dlist", "conj", "vars", "wide"}
Ground == Shapes \ {"vars"}

(* D(n) = total number of decimal digits of 1..n *)
RECURSIVE Dg(_, _, _)
Dg(n, k, lo) == IF n < lo THEN 0
                ELSE k * ((IF n < 10 * lo - 1 THEN n ELSE 10 * lo - 1) - lo + 1) + Dg(n, k + 1, 10 * lo)
D(n) == Dg(n, 1, 1)

(* number of characters of writeq(T) (ISO 7.10.5: no layout, operators - and , infix without spaces) *)
TextLen(s, n) ==
  CASE s = "list"  -> 2 + (n - 1) + D(n)                 \* [1,2,...,n]
    [] s = "rnest" -> 3 * n + 1                          \* f( n times, a, ) n times
    [] s = "lnest" -> D(n) + 1 + n                       \* 0-1-2-...-n  (yfx: no parentheses on the left)
    [] s = "dlist" -> 2 * n + 2
    [] s = "conj"  -> 5 * n + 4                          \* true,true,...,true (xfy: no parentheses on the right)
    [] s = "wide"  -> LET k == n \div 250 IN 3 + 249 + 250 * (2 + (k - 1) + D(k))

(* standard order of T against its sibling T' (ISO 7.2) *)
SiblingOrder(s) == IF s = "conj" THEN ">" ELSE "<"       \* fail @< true; n @< n+1; a @< b; [] @< [a]

Ops == {"eq", "neq", "compare", "unify", "unify_fail", "copy", "copy_vars", "findall", "assert", "assert_body",
        "length", "length_gen", "term_variables", "ground", "keysort", "sort", "write", "read_chars", "read_file",
        "consult_fact", "consult_body", "throw", "numbervars"}

Applicable(op, s) ==
  CASE op \in {"eq", "neq", "compare", "unify", "unify_fail", "copy", "findall", "assert", "throw",
               "write", "read_chars", "read_file", "consult_fact"} -> s \in Ground
    [] op \in {"assert_body", "consult_body"} -> s = "conj"
    [] op \in {"length", "keysort", "sort"} -> s = "list"
    [] op \in {"length_gen", "copy_vars", "numbervars"} -> s = "vars"
    [] op \in {"term_variables", "ground"} -> s \in Shapes

(* the answer, as text: true/false, an order symbol or a decimal number *)
Expected(op, s, n) ==
  CASE op \in {"eq", "unify", "copy", "findall", "assert", "assert_body", "keysort", "read_chars", "read_file",
               "consult_fact", "consult_body", "throw"} -> "true"
    [] op \in {"neq", "unify_fail"} -> "false"
    [] op = "compare" -> SiblingOrder(s)
    [] op \in {"length", "length_gen", "copy_vars", "sort", "numbervars"} -> ToString(n)
    [] op = "term_variables" -> IF s = "vars" THEN ToString(n) ELSE "0"
    [] op = "ground" -> IF s = "vars" THEN "false" ELSE "true"
    [] op = "write" -> ToString(TextLen(s, n))

Outcomes == {"answer", "resource_error"}      \* the only allowed ends of a case
=============================================================================
