CONSTANTS Tier = "thorough" MaxSteps = 100 MaxAns = 10
INIT Init
NEXT Next
INVARIANT Inv
INVARIANT Emit
