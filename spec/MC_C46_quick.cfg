CONSTANTS
  Stride = 23
  NSingle = 2500
  NStore = 2500
  DMax = 3
  NVMax = 4
  Groups = 16
INIT Init
NEXT Next
INVARIANT Sane
INVARIANT Emit
