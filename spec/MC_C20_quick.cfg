CONSTANT Tier = "quick"
INIT Init
NEXT Next
INVARIANT Layout
INVARIANT Compare
INVARIANT Known
INVARIANT ValLaws
INVARIANT Emit
