CONSTANT Tier = "quick"
INIT Init
NEXT Next
INVARIANT Layout
INVARIANT Compare
INVARIANT ValLaws
INVARIANT Emit
