------------------------------ MODULE Between ------------------------------
(* Layer A for C49: the integer relation builtins between/3, length/2, numlist/3, succ/2.    *)
(*                                                                                             *)
(* Sources of the documented behaviour (cited next to each operator):                          *)
(*   between/3, numlist/3 : doc comments in src/lib/between.pl                                 *)
(*   length/2             : doc comment in src/lib/lists.pl; DESIGN.md Appendix 2              *)
(*                          ("Atoms and integers"); the error cases are those of the ISO       *)
(*                          draft for length/2 that the library implements                     *)
(*   succ/2               : doc comment in src/lib/iso_ext.pl                                  *)
(*                                                                                             *)
(* A call is a tuple of argument terms; an outcome is a record                                 *)
(*   [kind, errs, sols, more]                                                                  *)
(*   kind = "sols"    : the answers are exactly sols, in this order (each answer is the tuple  *)
(*                      of the call's arguments after instantiation, compared up to renaming   *)
(*                      of variables); more = FALSE: the call terminates after them (finite    *)
(*                      relation => finite answer sequence); more = TRUE: sols are the first   *)
(*                      Cap answers and further answers follow.                                *)
(*   kind = "err"     : the call raises error(E, _) with E \in errs and gives no answer first. *)
(*                      Where several documented errors apply (between(_, a, X)) the           *)
(*                      documentation fixes no priority, hence a set.                          *)
(*   kind = "errfail" : the documentation leaves it open whether the call fails or raises     *)
(*                      E \in errs (numlist/3 with a List that is neither a list nor a         *)
(*                      partial list: the type_error(list, _) is inherited from findall/3).    *)
(*   kind = "resource": the only tuple of the relation is not representable (a list with more *)
(*                      than MaxList elements): a resource error, no answer.                   *)
(*   kind = "open"    : numlist/3 with an unbound bound and infinitely many solutions.  The   *)
(*                      relation has no least element in general (numlist(L, 1, Ls)), and the  *)
(*                      doc comment of numlist/3 promises no order: the answers must be        *)
(*                      distinct members of the relation (NumlistHolds, validated on the       *)
(*                      recorded answers by Trace_C49) and sols (every solution with both      *)
(*                      bounds in -Box..Box) must appear among the first answers (fairness).   *)
EXTENDS BigInt, FiniteSets

-----------------------------------------------------------------------------
(* terms: uniform records so that equality is total *)

IntT(b)      == [t |-> "i", b |-> b,     n |-> "",   a |-> <<>>]
AtomT(s)     == [t |-> "a", b |-> BZero, n |-> s,    a |-> <<>>]
VarT(s)      == [t |-> "v", b |-> BZero, n |-> s,    a |-> <<>>]
FloatT(hex)  == [t |-> "f", b |-> BZero, n |-> hex,  a |-> <<>>]    \* hex: 16 hex digits of the IEEE bits
Cpd(name, args) == [t |-> "c", b |-> BZero, n |-> name, a |-> args]
Cons(h, tl)  == Cpd(".", <<h, tl>>)
Nil          == AtomT("[]")
I(k)         == IntT(FromInt(k))

IsCons(x) == x.t = "c" /\ x.n = "." /\ Len(x.a) = 2

RECURSIVE MkList(_, _)
MkList(items, tail) == IF items = <<>> THEN tail ELSE Cons(Head(items), MkList(Tail(items), tail))

RECURSIVE SkipLen(_)
SkipLen(x) == IF IsCons(x) THEN 1 + SkipLen(x.a[2]) ELSE 0
RECURSIVE SkipTail(_)
SkipTail(x) == IF IsCons(x) THEN SkipTail(x.a[2]) ELSE x
RECURSIVE Items(_)
Items(x) == IF IsCons(x) THEN <<x.a[1]>> \o Items(x.a[2]) ELSE <<>>

(* substitution of one variable *)
RECURSIVE Subst(_, _, _)
Subst(x, v, val) ==
  IF x.t = "v" THEN (IF x.n = v THEN val ELSE x)
  ELSE IF x.t = "c" THEN Cpd(x.n, [j \in 1..Len(x.a) |-> Subst(x.a[j], v, val)])
  ELSE x

Fresh(k, base) == IF k = 0 THEN <<>> ELSE [j \in 1..k |-> VarT("_G" \o ToString(base + j))]

(* one-sided unification of a pattern with a ground term; a substitution is a set of <<name, term>> *)
NoMatch == [ok |-> FALSE, m |-> {}]
Match0  == [ok |-> TRUE,  m |-> {}]
RECURSIVE Match(_, _, _)
RECURSIVE MatchSeq(_, _, _, _)
Match(p, g, s) ==
  IF ~s.ok THEN s
  ELSE IF p.t = "v" THEN
         IF \E pr \in s.m : pr[1] = p.n
           THEN (IF (CHOOSE pr \in s.m : pr[1] = p.n)[2] = g THEN s ELSE NoMatch)
           ELSE [ok |-> TRUE, m |-> s.m \cup {<<p.n, g>>}]
  ELSE IF p.t = "c" THEN
         IF g.t = "c" /\ g.n = p.n /\ Len(g.a) = Len(p.a) THEN MatchSeq(p.a, g.a, 1, s) ELSE NoMatch
  ELSE IF p = g THEN s ELSE NoMatch
MatchSeq(ps, gs, j, s) == IF j > Len(ps) THEN s ELSE MatchSeq(ps, gs, j + 1, Match(ps[j], gs[j], s))

Matches(pats, grounds) == MatchSeq(pats, grounds, 1, Match0).ok

-----------------------------------------------------------------------------
(* errors and outcomes *)

InstErr        == AtomT("instantiation_error")
TypeErr(ty, c) == Cpd("type_error", <<AtomT(ty), c>>)
DomErr(d, c)   == Cpd("domain_error", <<AtomT(d), c>>)
ResErr(r)      == Cpd("resource_error", <<AtomT(r)>>)

Sols(ss, more) == [kind |-> "sols",     errs |-> {}, sols |-> ss,   more |-> more]
Err(es)        == [kind |-> "err",      errs |-> es, sols |-> <<>>, more |-> FALSE]
ErrFail(es)    == [kind |-> "errfail",  errs |-> es, sols |-> <<>>, more |-> FALSE]
Resource       == [kind |-> "resource", errs |-> {}, sols |-> <<>>, more |-> FALSE]
Open(box)      == [kind |-> "open",     errs |-> {}, sols |-> box,  more |-> TRUE]

(* must_be(integer, V) : library(error) *)
MustBeInt(v) == IF v.t = "v" THEN {InstErr} ELSE IF v.t # "i" THEN {TypeErr("integer", v)} ELSE {}
(* can_be(integer, V) *)
CanBeInt(v)  == IF v.t \notin {"v", "i"} THEN {TypeErr("integer", v)} ELSE {}
(* can_be(not_less_than_zero, V) *)
CanBeNat(v)  == IF v.t \notin {"v", "i"} THEN {TypeErr("integer", v)}
                ELSE IF v.t = "i" /\ v.b.neg THEN {DomErr("not_less_than_zero", v)} ELSE {}

-----------------------------------------------------------------------------
(* between(+Lower, +Upper, ?X): "Given Lower and Upper are both integer numbers, true iff X    *)
(* is an integer so that Lower =< X =< Upper" (between.pl).  Bounds must be integers: `inf`    *)
(* and `infinite` are type errors (DESIGN.md Appendix 2).  Enumeration ascending (doc example) *)

Between(lo, hi, x, cap) ==
  LET es == MustBeInt(lo) \cup MustBeInt(hi) \cup CanBeInt(x) IN
  IF es # {} THEN Err(es)
  ELSE IF x.t = "i"
    THEN Sols(IF Le(lo.b, x.b) /\ Le(x.b, hi.b) THEN << <<lo, hi, x>> >> ELSE <<>>, FALSE)
  ELSE LET cnt == Add(Sub(hi.b, lo.b), One)
           k   == IF Le(cnt, BZero) THEN 0 ELSE IF Le(cnt, FromInt(cap)) THEN ToInt(cnt) ELSE cap
       IN Sols(IF k = 0 THEN <<>> ELSE [j \in 1..k |-> <<lo, hi, IntT(Add(lo.b, FromInt(j - 1)))>>],
               Lt(FromInt(cap), cnt))

-----------------------------------------------------------------------------
(* succ(?I, ?S): "True iff S is the successor of the non-negative integer I.  At least one of  *)
(* the arguments must be instantiated." (iso_ext.pl)                                           *)

Succ(i, s) ==
  LET es == CanBeNat(i) \cup CanBeNat(s) \cup (IF i.t = "v" /\ s.t = "v" THEN {InstErr} ELSE {}) IN
  IF es # {} THEN Err(es)
  ELSE IF i.t = "i" /\ s.t = "i"
    THEN Sols(IF Add(i.b, One) = s.b THEN << <<i, s>> >> ELSE <<>>, FALSE)
  ELSE IF i.t = "i" THEN Sols(<< <<i, IntT(Add(i.b, One))>> >>, FALSE)
  ELSE IF IsZero(s.b) THEN Sols(<<>>, FALSE)
  ELSE Sols(<< <<IntT(Sub(s.b, One)), s>> >>, FALSE)

-----------------------------------------------------------------------------
(* length(?Xs, ?N): "Relates a list to its length" (lists.pl).                                  *)
(*  N neither variable nor integer -> type_error(integer, N); N < 0 -> domain_error(           *)
(*  not_less_than_zero, N) (both independent of Xs: length(a, a) is a type error);              *)
(*  Xs a partial list whose tail is N -> resource_error(finite_memory) (length(L, L));          *)
(*  Xs neither list nor partial list -> failure (length([a|b], N) fails);                       *)
(*  partial list, N unbound -> lengths ascending from the length of the prefix.                 *)

MaxList == Pow2(48)    \* more elements than any heap of this implementation can hold

Length(l, n, cap) ==
  LET nerrs == IF n.t \notin {"v", "i"} THEN {TypeErr("integer", n)}
               ELSE IF n.t = "i" /\ n.b.neg THEN {DomErr("not_less_than_zero", n)} ELSE {}
      k  == SkipLen(l)
      tl == SkipTail(l)
  IN
  IF nerrs # {} THEN Err(nerrs)
  ELSE IF tl = Nil THEN
         IF n.t = "i" THEN Sols(IF n.b = FromInt(k) THEN << <<l, n>> >> ELSE <<>>, FALSE)
         ELSE Sols(<< <<Subst(l, n.n, I(k)), I(k)>> >>, FALSE)       \* N may occur in Xs: length([N], N)
  ELSE IF tl.t = "v" THEN
         IF n.t = "v" /\ n.n = tl.n THEN Err({ResErr("finite_memory")})
         ELSE IF n.t = "i" THEN
           LET r == Sub(n.b, FromInt(k)) IN
           IF r.neg THEN Sols(<<>>, FALSE)
           ELSE IF ~Le(r, MaxList) THEN Resource
           ELSE Sols(<< <<Subst(l, tl.n, MkList(Fresh(ToInt(r), 0), Nil)), n>> >>, FALSE)
         ELSE Sols([j \in 1..cap |->
                      LET l1 == Subst(l, tl.n, MkList(Fresh(j - 1, 0), Nil))
                      IN <<Subst(l1, n.n, I(k + j - 1)), I(k + j - 1)>>], TRUE)
  ELSE Sols(<<>>, FALSE)

-----------------------------------------------------------------------------
(* numlist(?Lower, ?Upper, ?List): "True iff List is a list of the form [Lower, ..., Upper]"   *)
(* (between.pl).  numlist(3, 1, L) fails: the relation needs Lower =< Upper.                    *)
(* Preconditions of this operator (kept by the generators): the variables among the items of   *)
(* List are pairwise distinct and distinct from the bound variables.                            *)

RECURSIVE Range(_, _)
Range(l, n) == IF n = 0 THEN <<>> ELSE <<IntT(l)>> \o Range(Add(l, One), n - 1)

(* the ground tuple for bounds l =< u (BigInt), u - l small *)
NumTuple(l, u) == <<IntT(l), IntT(u), MkList(Range(l, ToInt(Sub(u, l)) + 1), Nil)>>

(* membership of a ground answer in the relation and in the call: used on recorded answers *)
NumlistHolds(call, ans) ==
  /\ ans[1].t = "i" /\ ans[2].t = "i"
  /\ Le(ans[1].b, ans[2].b)
  /\ Le(Sub(ans[2].b, ans[1].b), FromInt(100000))
  /\ ans = NumTuple(ans[1].b, ans[2].b)
  /\ Matches(call, ans)

Numlist(lo, hi, list, box, maxspan) ==
  LET es   == CanBeInt(lo) \cup CanBeInt(hi)
      k    == SkipLen(list)
      tl   == SkipTail(list)
      its  == Items(list)
      wf   == tl = Nil \/ tl.t = "v"
      call == <<lo, hi, list>>
      same == lo.t = "v" /\ hi.t = "v" /\ lo.n = hi.n
      nknown == tl = Nil
      ints == {j \in 1..k : its[j].t = "i"}
      bad  == \E j \in 1..k : its[j].t \notin {"i", "v"}          \* an item that is no integer: empty relation
      (* is the lower bound determined, and its value *)
      lknown == lo.t = "i" \/ ints # {} \/ (hi.t = "i" /\ nknown)
      lval == IF lo.t = "i" THEN lo.b
              ELSE IF ints # {} THEN LET j == CHOOSE j \in ints : TRUE IN Sub(its[j].b, FromInt(j - 1))
              ELSE Sub(hi.b, FromInt(k - 1))
      uknown == hi.t = "i" \/ (lknown /\ nknown) \/ (lknown /\ same)
      uval == IF hi.t = "i" THEN hi.b ELSE IF same THEN lval ELSE Add(lval, FromInt(k - 1))
      incons == lknown /\ \E j \in ints : its[j].b # Add(lval, FromInt(j - 1))   \* e.g. [2,5|T]
      empty == bad \/ incons \/ (nknown /\ k = 0) \/ (same /\ k > 1) \/ (same /\ nknown /\ k # 1)
  IN
  IF es # {} THEN Err(es \cup (IF wf THEN {} ELSE {TypeErr("list", list)}))
  ELSE IF ~wf THEN ErrFail({TypeErr("list", list)})
  ELSE IF empty THEN Sols(<<>>, FALSE)
  ELSE IF lknown /\ uknown THEN
         IF Lt(uval, lval) THEN Sols(<<>>, FALSE)
         ELSE IF ~Le(Sub(uval, lval), FromInt(maxspan)) THEN Resource      \* excluded by the generators
         ELSE LET g == NumTuple(lval, uval) IN Sols(IF Matches(call, g) THEN <<g>> ELSE <<>>, FALSE)
  ELSE LET cands == {p \in (0 - box..box) \X (0 - box..box) : p[1] <= p[2]}
           good  == {p \in cands : Matches(call, NumTuple(FromInt(p[1]), FromInt(p[2])))}
           seq   == LET RECURSIVE ToSeq(_)
                        ToSeq(S) == IF S = {} THEN <<>>
                                    ELSE LET p == CHOOSE p \in S : TRUE
                                         IN <<NumTuple(FromInt(p[1]), FromInt(p[2]))>> \o ToSeq(S \ {p})
                    IN ToSeq(good)
       IN Open(seq)

-----------------------------------------------------------------------------
(* JSON image of a term for the driver (lib/terms.py, from_tla) *)
RECURSIVE Out(_)
Out(x) ==
  IF x.t = "i" THEN [t |-> "big", n |-> ToDec(x.b), i |-> 0, a |-> <<>>]
  ELSE IF x.t = "c" THEN [t |-> "c", n |-> x.n, i |-> 0, a |-> [j \in 1..Len(x.a) |-> Out(x.a[j])]]
  ELSE [t |-> x.t, n |-> x.n, i |-> 0, a |-> <<>>]
OutSeq(xs) == IF xs = <<>> THEN <<>> ELSE [j \in 1..Len(xs) |-> Out(xs[j])]
=============================================================================
