------------------------------- MODULE MC_C46 -------------------------------
(* C46: clp(B) decides satisfiability and counts models exactly.                             *)
(* Every state of phase "case" is one case: a store (sequence of sat/1 posts and             *)
(* unifications, possibly empty) and a query formula g.  The specification (module Clpb)     *)
(* gives the models of the store, of g alone, the taut/2 verdict and the sat_count/2 value   *)
(* of g with respect to the store; the driver replays the case against library(clpb).       *)
(*                                                                                           *)
(* Three families of cases:                                                                  *)
(*   "exh"    all formulas of depth <= 1 over the leaves 0, 1, V1, V2, V3 and the formulas   *)
(*            of depth 2 built from the depth <= 1 formulas over V1, V2, V3: all of them     *)
(*            when Stride = 1, else those whose index hash (which depends on VERIF_SEED)     *)
(*            is 0 modulo Stride; empty store                                                *)
(*   "single" pseudo-random formulas of depth <= DMax over <= NVMax variables including      *)
(*            constants, card/2, +(List), *(List); empty store                               *)
(*   "store"  pseudo-random stores of 1..3 actions (sat, V=V, V=0/1) and a query formula     *)
(* Pseudo-random cases are a pure function of (VERIF_SEED, case number) through a Lehmer     *)
(* generator written in TLA+ (the same seed gives the same vectors at any worker count).     *)
EXTENDS Clpb, Json, IOUtils, TLC

CONSTANTS Stride,    \* sampling of the exhaustive depth-2 family (1 = all)
          NSingle,   \* number of "single" cases
          NStore,    \* number of "store" cases
          DMax,      \* depth bound of random formulas
          NVMax,     \* maximal number of variables of random cases (>= 2)
          Groups     \* number of initial states (parallelism)

EnvSeed == atoi(IOEnv.VERIF_SEED)   \* read once, in Init (IOEnv is expensive); carried in variable sd

(* Lehmer / Park-Miller generator with Schrage's decomposition (all intermediates < 2^31) *)
Nxt(s) == LET t == 16807 * (s % 127773) - 2836 * (s \div 127773)
          IN IF t > 0 THEN t ELSE t + 2147483647
Start(n, salt, Seed) ==
  LET s0 == 1 + ((((((Seed % 30011) + 30011) % 30011) * 30013) + (n * 7) + (salt * 1000003)) % 2147483646)
  IN Nxt(Nxt(Nxt(Nxt(s0))))

(* ---------------------------------------------------------------------------------------- *)
(* exhaustive family                                                                         *)
(* the k-th formula of depth <= 1 over the given leaves (n leaves, n + n + 9*n*n formulas), *)
(* decoded arithmetically: leaves, then negated leaves, then op(leaf, leaf)                 *)
D1N(n) == n + n + Len(BinOps) * n * n
D1At(leaves, k) ==
  LET n == Len(leaves) IN
  IF k <= n THEN leaves[k]
  ELSE IF k <= n + n THEN Not(leaves[k - n])
  ELSE LET q == k - n - n - 1
       IN Bin(BinOps[1 + (q \div (n * n))], leaves[1 + ((q % (n * n)) \div n)], leaves[1 + (q % n)])

LeavesC == <<Const(0), Const(1), Var(1), Var(2), Var(3)>>    \* 235 formulas of depth <= 1
LeavesV == <<Var(1), Var(2), Var(3)>>                          \* 87 formulas of depth <= 1
NC == D1N(5)
NV == D1N(3)

Keep(o, i, j, Seed) == Stride = 1 \/ ((o * 7) + (i * 31) + (j * 17) + Seed) % Stride = 0

Case(kind, n, nv, acts, f) == [kind |-> kind, n |-> n, nv |-> nv, acts |-> acts, f |-> f]

ExhCases(g, Seed) ==
  {Case("exh", 0, 3, <<>>, D1At(LeavesC, i)) : i \in {i \in 1..NC : i % Groups = g}}
  \cup {Case("exh", 0, 3, <<>>, Not(D1At(LeavesV, i))) : i \in {i \in 1..NV : i % Groups = g /\ Keep(0, i, 0, Seed)}}
  \cup {Case("exh", 0, 3, <<>>, Bin(BinOps[x[1]], D1At(LeavesV, x[2]), D1At(LeavesV, x[3]))) :
          x \in {y \in (1..Len(BinOps)) \X {i \in 1..NV : i % Groups = g} \X (1..NV) : Keep(y[1], y[2], y[3], Seed)}}

(* ---------------------------------------------------------------------------------------- *)
(* pseudo-random formulas: Gen(s, d, nv, lo) = [f |-> formula of depth <= d, s |-> next       *)
(* generator state]; lo = 22 forces a non-leaf at the root when d > 0, lo = 0 elsewhere       *)
RECURSIVE Gen(_, _, _, _), GenSeq(_, _, _, _), GenIs(_, _, _)
GenSeq(s, d, nv, len) ==
  IF len = 0 THEN [fs |-> <<>>, s |-> s]
  ELSE LET h == Gen(s, d, nv, 0)
           t == GenSeq(h.s, d, nv, len - 1)
       IN [fs |-> <<h.f>> \o t.fs, s |-> t.s]
GenIs(s, cnt, top) ==    \* cnt entries <<lo, hi>> with 0 <= lo <= top, lo <= hi <= lo + 2
  IF cnt = 0 THEN [is |-> <<>>, s |-> s]
  ELSE LET s1 == Nxt(s)
           s2 == Nxt(s1)
           lo == s1 % (top + 1)
           hi == lo + <<0, 0, 0, 1, 2>>[1 + (s2 % 5)]
           t  == GenIs(s2, cnt - 1, top)
       IN [is |-> << <<lo, hi>> >> \o t.is, s |-> t.s]
Gen(s, d, nv, lo) ==
  LET s1 == Nxt(s)
      s2 == Nxt(s1)
      t  == lo + (s1 % (100 - lo))
  IN IF d = 0 \/ t < 22
       THEN [f |-> IF s2 % 10 < 8 THEN Var(1 + ((s2 \div 16) % nv)) ELSE Const((s2 \div 16) % 2), s |-> s2]
     ELSE IF t < 34
       THEN LET h == Gen(s2, d - 1, nv, 0) IN [f |-> Not(h.f), s |-> h.s]
     ELSE IF t < 84
       THEN LET l == Gen(s2, d - 1, nv, 0)
                r == Gen(l.s, d - 1, nv, 0)
            IN [f |-> Bin(BinOps[1 + ((s2 \div 16) % Len(BinOps))], l.f, r.f), s |-> r.s]
     ELSE IF t < 91
       THEN LET h == GenSeq(s2, d - 1, nv, (s2 \div 16) % 4)
            IN [f |-> Nary(IF (s2 \div 64) % 2 = 0 THEN "+" ELSE "*", h.fs), s |-> h.s]
     ELSE LET len == 1 + ((s2 \div 16) % 3)
              h   == GenSeq(s2, d - 1, nv, len)
              is  == GenIs(h.s, (s2 \div 64) % 4, len + 1)
          IN [f |-> Card(is.is, h.fs), s |-> is.s]

MkSingle(n, Seed) ==
  LET s  == Start(n, 1, Seed)
      nv == 1 + (s % NVMax)
      d  == 1 + ((s \div 8) % DMax)
  IN Case("single", n, nv, <<>>, Gen(Nxt(s), d, nv, 22).f)

RECURSIVE GenActs(_, _, _)
GenActs(s, cnt, nv) ==
  IF cnt = 0 THEN [acts |-> <<>>, s |-> s]
  ELSE LET s1 == Nxt(s)
           s2 == Nxt(s1)
           t  == s1 % 100
           i  == 1 + (s2 % nv)
           j  == 1 + ((i + ((s2 \div 16) % (nv - 1))) % nv)          \* j # i
           h  == Gen(s2, 1 + ((s2 \div 8) % 2), nv, 22)
           a  == IF t < 64 THEN [act |-> [t |-> "sat", i |-> 0, j |-> 0, f |-> h.f], s |-> h.s]
                 ELSE IF t < 84 THEN [act |-> [t |-> "unify", i |-> i, j |-> j, f |-> Const(1)], s |-> s2]
                 ELSE [act |-> [t |-> "bind", i |-> i, j |-> (s2 \div 64) % 2, f |-> Const(1)], s |-> s2]
           r  == GenActs(a.s, cnt - 1, nv)
       IN [acts |-> <<a.act>> \o r.acts, s |-> r.s]

MkStore(n, Seed) ==
  LET s  == Start(n, 2, Seed)
      nv == 2 + (s % (NVMax - 1))
      as == GenActs(Nxt(s), 1 + ((s \div 8) % 3), nv)
      q  == Gen(as.s, 1 + ((s \div 64) % 2), nv, 10)
  IN Case("store", n, nv, as.acts, q.f)

RndCases(g, Seed) ==
  {MkSingle(n, Seed) : n \in {n \in 1..NSingle : n % Groups = g}}
  \cup {MkStore(n, Seed) : n \in {n \in 1..NStore : n % Groups = g}}

(* ---------------------------------------------------------------------------------------- *)
VARIABLES phase, g, sd, c
vars == <<phase, g, sd, c>>

Init == phase = "pick" /\ g \in 0..(Groups - 1) /\ sd = EnvSeed /\ c = <<>>
Next == /\ phase = "pick" /\ phase' = "case" /\ g' = g /\ sd' = sd
        /\ c' \in ExhCases(g, sd) \cup RndCases(g, sd)

SM == StoreModels(c.acts, c.nv)

(* sanity of the specification itself (a failure is a tool error, not a finding):            *)
(*  - the models of ~g are the complement of the models of g                                 *)
(*  - with an empty store the count over Vars(g), scaled to all nv variables, is the number  *)
(*    of models; taut is 1/0 exactly for all/no assignments                                  *)
(*  - the store models are the intersection of the models of its actions                     *)
RECURSIVE Pow2(_)
Pow2(n) == IF n = 0 THEN 1 ELSE 2 * Pow2(n - 1)
Sane ==
  phase = "case" =>
    LET M == Models(c.f, c.nv)
        A == Assignments(c.nv)
    IN /\ Models(Not(c.f), c.nv) = A \ M
       /\ Count(c.f, A) * Pow2(c.nv - Cardinality(Vars(c.f))) = Cardinality(M)
       /\ (Taut(c.f, A) = 1) = (M = A)
       /\ (Taut(c.f, A) = 0) = (M = {})
       /\ Vars(c.f) \subseteq 1..c.nv
       /\ SM = {a \in A : \A p \in 1..Len(c.acts) : a \in StoreModels(<<c.acts[p]>>, c.nv)}
       /\ Count(c.f, SM) <= Cardinality(SM)

Emit ==
  phase = "case" =>
    LET S == SM                                                  \* all assignments if the store is empty
        M == IF c.acts = <<>> THEN Models(c.f, c.nv) ELSE S      \* what labeling must enumerate (see driver)
    IN PrintT(ToJson(
      [kind |-> c.kind, n |-> c.n, nv |-> c.nv, acts |-> c.acts, f |-> c.f,
       sat |-> M # {},
       models |-> M,
       taut |-> IF S = {} THEN -2 ELSE Taut(c.f, S),
       count |-> Count(c.f, S),
       ops |-> Ops(c.f), depth |-> Depth(c.f), nvars |-> Cardinality(Vars(c.f))]))
=============================================================================
