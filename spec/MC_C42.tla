------------------------------- MODULE MC_C42 -------------------------------
(* C42: TLC enumerates module layouts (2 or 3 modules plus the top module), computes with Modules!Eval  *)
(* the allowed outcomes of every call site and prints one vector per layout.                             *)
(*   module i (i = 1..K): defines p/1 or not, exports it or not; module 1 defines the meta-predicate      *)
(*   mp/1 (declared mp(0)) and exports it or not; every module exports its driver d<i>/1; module i         *)
(*   imports from every earlier module j < i with a mode: none | all | selp (list [p/1]) | selo (list of   *)
(*   the other exports: d<j>/1, and mp/1 for j = 1); a module that imports p and defines p re-defines an    *)
(*   imported name.  The top module defines p or not and imports from every module.                         *)
(*   call sites in every module: p(X); call(p(X)); findall(X,p(X),L); mp(p(X)); and for every module N:      *)
(*   N:p(X); N:call(p(X)); call(N:p(X)); mp(N:p(X)); N:mp(p(X)); d<N>(X) (the driver imported from N);        *)
(*   from the top module also nomod:p(X) for a module that does not exist.                                   *)
EXTENDS Modules, TLC, Json

CONSTANTS Tier, K

ModesFull == {"none", "all", "selp", "selo"}
ModesSmall == {"none", "all", "selp"}
Modes == IF Tier = "quick" \/ K = 3 THEN ModesSmall ELSE ModesFull

MName(i) == IF i = K + 1 THEN "top" ELSE "m" \o ToString(i)
DName(i) == "d" \o ToString(i)

ImpSpec(mode, j) ==
  CASE mode = "none" -> [mode |-> "none", list |-> {}]
    [] mode = "all"  -> [mode |-> "all", list |-> {}]
    [] mode = "selp" -> [mode |-> "list", list |-> {"p"}]
    [] mode = "selo" -> [mode |-> "list", list |-> {DName(j)} \cup (IF j = 1 THEN {"mp"} ELSE {})]

(* parameters of module i: [defp, expp, expmp, imps: sequence of modes for modules 1..i-1] *)
(* quick tier, K = 3: a sample -- p exported iff defined, modes none/all, module 3 and the top module use one mode for all *)
Sample == Tier = "quick" /\ K = 3
Params(i) ==
  { [defp |-> dp, expp |-> ep, expmp |-> em, imps |-> im] :
      dp \in BOOLEAN, ep \in BOOLEAN, em \in (IF i = 1 /\ K = 2 THEN BOOLEAN ELSE {i = 1}),
      im \in (IF Sample THEN (IF i >= K THEN {[j \in 1..(i - 1) |-> md] : md \in {"none", "all"}}
                                       ELSE [1..(i - 1) -> {"none", "all"}])
              ELSE [1..(i - 1) -> Modes]) }

ParamOk(i, pr) == /\ pr.expp => pr.defp
                  /\ i = K + 1 => ~pr.expp
                  /\ (Sample /\ i <= K) => (pr.expp = pr.defp)

ModuleOf(i, pr) ==
  [name |-> MName(i),
   defs |-> (IF pr.defp THEN {"p"} ELSE {}) \cup (IF i = 1 THEN {"mp"} ELSE {}) \cup {DName(i)},
   exports |-> (IF pr.expp THEN {"p"} ELSE {}) \cup (IF i = 1 /\ pr.expmp THEN {"mp"} ELSE {})
               \cup (IF i = K + 1 THEN {} ELSE {DName(i)}),
   imps |-> [n \in {MName(j) : j \in 1..(i - 1)} |->
               ImpSpec(pr.imps[CHOOSE j \in 1..(i - 1) : MName(j) = n], CHOOSE j \in 1..(i - 1) : MName(j) = n)]]

(* ---- call sites: [ctx (module index), label, goal] in a fixed order ---- *)
P == PredG("p")
SitesOf(i) ==
  << [ctx |-> i, label |-> "d", n |-> 0, goal |-> P],
     [ctx |-> i, label |-> "c", n |-> 0, goal |-> MetaG("call", P)],
     [ctx |-> i, label |-> "f", n |-> 0, goal |-> MetaG("findall", P)],
     [ctx |-> i, label |-> "mq", n |-> 0, goal |-> MetaG("mp", P)] >>
  \o [x \in 1..(5 * (K + 1)) |->
        LET n == ((x - 1) \div 5) + 1
            w == ((x - 1) % 5) + 1
            N == MName(n)
        IN CASE w = 1 -> [ctx |-> i, label |-> "q", n |-> n, goal |-> QualG(N, P)]
             [] w = 2 -> [ctx |-> i, label |-> "k", n |-> n, goal |-> QualG(N, MetaG("call", P))]
             [] w = 3 -> [ctx |-> i, label |-> "x", n |-> n, goal |-> MetaG("call", QualG(N, P))]
             [] w = 4 -> [ctx |-> i, label |-> "m", n |-> n, goal |-> MetaG("mp", QualG(N, P))]
             [] w = 5 -> [ctx |-> i, label |-> "n", n |-> n, goal |-> QualG(N, MetaG("mp", P))]]
  \o [n \in 1..K |-> [ctx |-> i, label |-> "e", n |-> n, goal |-> PredG(DName(n))]]

(* The arguments of a meta-predicate call are module-expanded when the calling clause is compiled, from the   *)
(* meta_predicate declarations known at that moment (src/loader.pl expand_module_names, which asks             *)
(* predicate_property(Module:Goal, meta_predicate(_))).  Modules are loaded in layout order, so the site        *)
(* N:mp(p(X)) is generated only for N loaded no later than the caller; for the unqualified mp(..) sites the     *)
(* declaration always comes from an earlier module through the import.                                          *)
KeepSite(s) == s.label = "n" => s.n <= s.ctx
RECURSIVE AllSites(_)
AllSites(i) == IF i > K + 1 THEN <<>> ELSE SelectSeq(SitesOf(i), KeepSite) \o AllSites(i + 1)
Sites == AllSites(1) \o << [ctx |-> K + 1, label |-> "z", n |-> 0, goal |-> QualG("nomod", P)] >>

VARIABLE st
Init == st = [phase |-> "build", i |-> 1, L |-> <<>>, prm |-> <<>>]

Next ==
  /\ st.phase = "build"
  /\ \E pr \in Params(st.i) :
       /\ ParamOk(st.i, pr)
       /\ LET L2 == Append(st.L, ModuleOf(st.i, pr))
              prm2 == Append(st.prm, pr)
          IN st' = IF st.i = K + 1 THEN [phase |-> "case", i |-> st.i, L |-> L2, prm |-> prm2]
                   ELSE [phase |-> "build", i |-> st.i + 1, L |-> L2, prm |-> prm2]

Expect(L) == [s \in 1..Len(Sites) |-> Eval(L, MName(Sites[s].ctx), Sites[s].goal, FALSE)]

Sane == st.phase = "case" => OwnWins(st.L) /\ QualIndependent(st.L) /\ NoneIsError(st.L) /\ MetaInCaller(st.L)

Emit ==
  /\ (st.phase = "build" /\ st.i = 1) =>
        PrintT(ToJson([kind |-> "sites", k |-> K,
                       sites |-> [s \in 1..Len(Sites) |-> [ctx |-> Sites[s].ctx, label |-> Sites[s].label, n |-> Sites[s].n,
                                                            goal |-> Sites[s].goal]]]))
  /\ st.phase = "case" =>
        PrintT(ToJson([kind |-> "layout", k |-> K,
                       prm |-> [i \in 1..(K + 1) |-> [defp |-> st.prm[i].defp, expp |-> st.prm[i].expp, expmp |-> st.prm[i].expmp,
                                                      imps |-> st.prm[i].imps]],
                       mods |-> st.L,
                       exp |-> Expect(st.L)]))
=============================================================================
