INIT Init
NEXT Next
INVARIANT Verdict
POSTCONDITION Consumed
