------------------------------- MODULE MC_C24 -------------------------------
(* C24: cyclic terms are processed correctly and always terminate.                       *)
(* Every "case" state is one term graph (module TermGraph). TLC checks the sanity of the *)
(* operators on it and prints the expected observations of the whole battery             *)
(* (acyclic_term, ground, term_variables, ==, compare both ways, copy_term, = for every  *)
(* node / pair of nodes), which props/C24.py replays on the real heap.                   *)
EXTENDS TermGraph, Json, IOUtils

CONSTANTS
  Sizes,        \* node counts enumerated completely
  CanonOnly,    \* TRUE: one graph per isomorphism class (least code); FALSE: every labelled graph
  Chunks,       \* initial states per size (parallelism only)
  SampleN,      \* node count of the sampled space (0: none)
  SampleCount   \* graphs sampled from it

VARIABLES phase, n, chunk, code, sd
vars == <<phase, n, chunk, code, sd>>

(* offset of the sample: VERIF_SEED, passed by the driver; read once in Init (IOEnv is expensive) *)
EnvSeed == IF "C24_SEED" \in DOMAIN IOEnv THEN atoi(IOEnv.C24_SEED) ELSE 1

Total(N) == Pw(NK(N), N)
Stride == 50021                        \* coprime to NK(4) = 51 and to NK(3) = 33; idx * Stride < 2^31 for idx < 42 000

Init ==
  /\ phase = "pick" /\ code = 0 /\ sd = EnvSeed % 100000
  /\ \/ n \in Sizes /\ chunk \in 0..(Chunks - 1)
     \/ SampleN > 0 /\ n = SampleN /\ chunk \in Chunks..(2 * Chunks - 1)

Next ==
  /\ phase = "pick" /\ phase' = "case" /\ UNCHANGED <<n, chunk, sd>>
  /\ IF chunk < Chunks
     THEN /\ code' \in {chunk + Chunks * k : k \in 0..(Total(n) \div Chunks)}
          /\ code' < Total(n)
          /\ (CanonOnly => Canonical(Decode(code', n)))
     ELSE \E idx \in 0..(SampleCount - 1) :
            /\ (idx % Chunks) = (chunk - Chunks)
            /\ code' = (((sd * 7919) % Total(n)) + (idx * Stride)) % Total(n)

PairSeq(N) ==
  LET S == {p \in (1..N) \X (1..N) : p[1] < p[2]}
      pos(p) == Cardinality({q \in S : q[1] < p[1] \/ (q[1] = p[1] /\ q[2] < p[2])}) + 1
  IN [k \in 1..Cardinality(S) |-> CHOOSE p \in S : pos(p) = k]

Flip(c) == IF c = "<" THEN ">" ELSE IF c = ">" THEN "<" ELSE c

Check ==
  phase = "case" =>
  LET G  == Decode(code, n)
      P  == Pure(G)
      L  == Live(G)
      K  == 2 * n + 2
      R(i) == Rep(G, i)
      PS == PairSeq(n)
      B  == Bisim(P, L)
      V  == {v \in L : P[v].k = "v"}
      Name(v) == VarName(G, v)
      ac == [i \in 1..n |-> Acyclic(P, R(i))]
      un == [i \in 1..n |->
               [ac |-> ac[i], gr |-> Ground(P, R(i)),
                tv |-> LET s == TermVars(P, R(i)) IN [k \in 1..Len(s) |-> Name(s[k])],
                ord |-> ac[i]]]
      eq == [k \in 1..Len(PS) |-> <<R(PS[k][1]), R(PS[k][2])>> \in B]
      voSeq(vo) == [k \in 1..Cardinality(V) |->
                      Name(CHOOSE v \in V : Cardinality({w \in V : vo[w] < vo[v]}) = k - 1)]
      cmpOf(vo) ==
        LET cyc == CmpCycle(P, L, vo)
            lex(i, j) == LexCmp(P, L, B, vo, i, j)
        IN
        [vo |-> voSeq(vo),
         c  |-> [k \in 1..Len(PS) |-> <<lex(R(PS[k][1]), R(PS[k][2])), lex(R(PS[k][2]), R(PS[k][1]))>>],
         sane |-> \A p \in L \X L :
                    /\ (lex(p[1], p[2]) = "=") <=> (p \in B)
                    /\ lex(p[2], p[1]) = Flip(lex(p[1], p[2]))
                    /\ (CmpLimit(cyc, p[1], p[2]) = "=") <=> (p \in B)
                    /\ CmpLimit(cyc, p[2], p[1]) = Flip(CmpLimit(cyc, p[1], p[2]))
                    /\ (lex(p[1], p[2]) # "?" => CmpLimit(cyc, p[1], p[2]) = lex(p[1], p[2]))]
      cmp == {cmpOf(vo) : vo \in Permutations(V)}
      cpOf(i) ==
        LET P2 == CopyGraph(P, R(i), K) r2 == R(i) + K IN
        [ac |-> Acyclic(P2, r2), gr |-> Ground(P2, r2), nv |-> Len(TermVars(P2, r2)),
         sane |-> Variant(P2, R(i), r2) /\ (\A m \in Reach(P2, r2) : m > K)]
      cp == [i \in 1..n |-> cpOf(i)]
      uOf(k) ==
        LET u == Unify(P, L, R(PS[k][1]), R(PS[k][2])) IN
        IF ~u.ok THEN [ok |-> FALSE, eq |-> <<>>, ac |-> <<>>, gr |-> <<>>, sane |-> ~eq[k]]
        ELSE LET Q  == Quotient(P, L, u.cls)
                 BQ == Bisim(Q, L)
                 RQ(i) == u.cls[R(i)]                                   \* what Xi stands for after the unification
             IN [ok |-> TRUE,
                 eq |-> [j \in 1..Len(PS) |-> <<RQ(PS[j][1]), RQ(PS[j][2])>> \in BQ],
                 ac |-> [i \in 1..n |-> Acyclic(Q, RQ(i))],
                 gr |-> [i \in 1..n |-> Ground(Q, RQ(i))],
                 sane |-> /\ <<RQ(PS[k][1]), RQ(PS[k][2])>> \in BQ      \* the two sides are now equal
                          /\ \A p \in B : <<u.cls[p[1]], u.cls[p[2]]>> \in BQ   \* nothing equal became different
                          /\ (eq[k] => \A p \in L \X L : (<<u.cls[p[1]], u.cls[p[2]]>> \in BQ) <=> (p \in B))]
                                                                         \* unifying equal terms changes nothing
      un2 == [k \in 1..Len(PS) |-> uOf(k)]
      (* ---- sanity of the operators (a failure is an error of the specification) ---- *)
      S1 == /\ \A i \in L : <<i, i>> \in B
            /\ \A p \in B : <<p[2], p[1]>> \in B
            /\ \A p, q \in B : p[2] = q[1] => <<p[1], q[2]>> \in B
      S2 == \A r \in L : Acyclic(P, r) <=> FiniteUnfolding(P, L, r)
      S3 == \A r \in cmp : r.sane
      S4 == \A i \in 1..n : cp[i].sane
      S5 == \A k \in 1..Len(PS) : un2[k].sane
      S6 == \A p \in B : /\ Acyclic(P, p[1]) = Acyclic(P, p[2])
                         /\ {TermVars(P, p[1])[k] : k \in 1..Len(TermVars(P, p[1]))}
                            = {TermVars(P, p[2])[k] : k \in 1..Len(TermVars(P, p[2]))}
  IN /\ Assert(S1, <<"Bisim is not an equivalence", n, code>>)
     /\ Assert(S2, <<"Acyclic differs from finite unfolding", n, code>>)
     /\ Assert(S3, <<"compare: = iff bisimilar / antisymmetry / first difference agrees with truncation limit fails", n, code>>)
     /\ Assert(S4, <<"copy is not a fresh variant", n, code>>)
     /\ Assert(S5, <<"unification sanity fails", n, code>>)
     /\ Assert(S6, <<"bisimilar nodes differ in acyclicity or variables", n, code>>)
     /\ PrintT(ToJson([n |-> n, code |-> code, g |-> G,
                       vn |-> [i \in 1..n |-> IF P[R(i)].k = "v" THEN Name(R(i)) ELSE 0],
                       un |-> un, eq |-> eq, cmp |-> {[vo |-> r.vo, c |-> r.c] : r \in cmp},
                       cp |-> [i \in 1..n |-> [ac |-> cp[i].ac, gr |-> cp[i].gr, nv |-> cp[i].nv]],
                       un2 |-> [k \in 1..Len(PS) |-> [ok |-> un2[k].ok, eq |-> un2[k].eq, ac |-> un2[k].ac, gr |-> un2[k].gr]]]))
=============================================================================
