------------------------------- MODULE MC_C50 -------------------------------
(* C50: generator of the inputs whose access paths are compared by Trace_C50.                   *)
(*  write: the C15 term universe (base vocabulary + operator terms of depth 1 of the table) x    *)
(*         write option sets of CharsIO (all flag combinations, max_depth, invalid option lists); *)
(*  read : the text catalogue of CharsIO x read option sets (variable_names, variables,           *)
(*         singletons and invalid option lists).                                                  *)
(* Tables: the initial table; in the thorough tier also every table one admissible declaration    *)
(* away (OpCfg), with the operator terms of that table.                                           *)
EXTENDS WriteRead, CharsIO, Json

CONSTANT Tier

D(p, s, n) == [p |-> p, s |-> s, n |-> n]
Decls == IF Tier = "quick" THEN {}
         ELSE { D(200, "xfy", "^^"), D(100, "xf", "!!"), D(700, "xfx", "abc"), D(700, "fy", "f"), D(1, "fx", "@"), D(1200, "xfx", "@"), D(0, "fy", "-") }
InterestNames == PoolNames \cup {",", ";", "^", "**", "|"}
Interest(S) == {sh \in S : sh[1] \in InterestNames}
ShapeU == Interest(Shapes(DcgsTable) \cup {ShapeOf(OpRec(d.p, d.s, d.n)) : d \in {e \in Decls : e.p > 0}})

BaseKeys == {<<g, 0>> : g \in Range(BaseGroups)}
GroupItems(g) == IF g \in BaseKeys THEN BaseGroup(g[1]) ELSE Depth1(g, Operands(InterestNames))

(* which option sets an item is written with *)
Rich(it) == it.pos = "base" /\ it.oc \in {"tricky", "list", "curly", "numbervar", "var", "string"}
OptClass(it) ==
  IF Tier = "quick"
  THEN (IF it.oc = "var" THEN "all+bad" ELSE IF Rich(it) THEN "all" ELSE IF it.pos = "base" THEN "few" ELSE "cover")
  ELSE (IF it.oc = "var" THEN "all+bad" ELSE "all")
(* under the tables that are one declaration away from the initial one (thorough tier) the operator terms of the  *)
(* table and the structured part of the base vocabulary are written with the covering option sets                 *)
OtherTableClass(it) == IF it.pos # "base" \/ Rich(it) THEN "cover" ELSE "none"
OptSets == [all |-> FlagSets \cup DepthSets, few |-> FewSets, cover |-> CoverSets, bad |-> BadSets]

VARIABLES phase, tbl, hist, grp
Init ==
  /\ hist = <<>>
  /\ \/ phase = "tbl" /\ tbl = DcgsTable /\ grp = <<"", 0>>
     \/ phase = "pick" /\ tbl = {} /\ grp \in ShapeU \cup BaseKeys
     \/ phase \in {"opts", "texts"} /\ tbl = {} /\ grp = <<"", 0>>
Next ==
  \/ /\ phase = "tbl" /\ Len(hist) < 1
     /\ \E d \in Decls : /\ Admissible(tbl, d.p, d.s, d.n)
                         /\ tbl' = Declare(tbl, d.p, d.s, d.n)
                         /\ hist' = Append(hist, d)
     /\ UNCHANGED <<phase, grp>>
  \/ phase = "pick" /\ phase' = "emit" /\ UNCHANGED <<tbl, hist, grp>>

TablesOk == phase = "tbl" => TableOk(tbl)
PathsOk == /\ \A o \in ROpts : ReadPaths(o) = Paths("read", Cardinality(o))
           /\ Paths("write", 3) = WritePaths

Out(it) == [t |-> it.t, needs |-> it.needs, o |-> it.o, in |-> it.in, pos |-> it.pos, oc |-> it.oc,
            nv |-> <<>>, nvdef |-> TRUE, safe |-> TRUE, os |-> OptClass(it), os2 |-> OtherTableClass(it), vars |-> VarSeq(it.t)]
Emit ==
  /\ phase = "tbl" => PrintT(ToJson([kind |-> "table", hist |-> hist, tbl |-> tbl]))
  /\ phase = "emit" => PrintT(ToJson([kind |-> "terms", grp |-> grp, items |-> {Out(it) : it \in GroupItems(grp)}]))
  /\ phase = "opts" => PrintT(ToJson([kind |-> "opts", w |-> OptSets, r |-> ROpts, rbad |-> BadROpts,
                                      wpaths |-> WritePaths, rpaths0 |-> ReadPaths({}), rpaths1 |-> ReadPaths({"variables"})]))
  /\ phase = "texts" => PrintT(ToJson([kind |-> "texts", s |-> Texts, cp |-> TextsCp]))
=============================================================================
