------------------------------- MODULE MC_C39 -------------------------------
(* C39: DCG translation preserves grammar semantics.                                            *)
(* TLC enumerates grammars (rules for the start symbol nt1//1 built from a body grammar, helper  *)
(* non-terminals nt2//1 in several variants and the recursive nt3//0, pulled in when the body    *)
(* mentions them: 1-3 non-terminals) and inputs (all lists over {a,b,c} up to a length bound,    *)
(* partial lists for generation mode), runs the direct semantics Dcg!StepD on each and prints    *)
(* grammar, query and the expected answer sequence / ball.                                       *)
(* The environment variables C39_CHUNK_K / C39_CHUNK_N (single digits) restrict a run to the    *)
(* cases whose size hash is K modulo N, so that the thorough tier is generated and replayed       *)
(* piecewise.                                                                                    *)
EXTENDS Dcg, Json, IOUtils

CONSTANT Tier

X == V("X")  Y == V("Y")
a == A("a")  b == A("b")  c == A("c")

Seq2(p, q) == C2(",", p, q)
Bar(p, q)  == C2("|", p, q)
Semi(p, q) == C2(";", p, q)
IteD(p, q, r) == C2(";", C2("->", p, q), r)
ItD(p, q)  == C2("->", p, q)
NotD(p)    == C1("\\+", p)
Curly(g)   == C1("{}", g)

Te  == Nil
Ta  == ListOf(<<a>>)
Tb  == ListOf(<<b>>)
Tc  == ListOf(<<c>>)
Tab == ListOf(<<a, b>>)
Tx  == ListOf(<<X>>)
Tax == ListOf(<<a, X>>)
N2  == C1("nt2", X)
N3  == A("nt3")
Gx  == Curly(Eq(X, a))
Gq  == Curly(C1("q", X))
Gf  == Curly(Fail)
Gc  == Curly(Cut)
Gv  == Curly(C1("var", X))
Cl2 == C2("call", A("nt2"), X)          \* call//2: call(nt2, X, S0, S)
Cl1 == C1("call", C1("nt2", X))         \* call//1: call(nt2(X), S0, S)
Ph  == C1("phrase", N2)                 \* phrase//1

R(h, pb, bd) == [h |-> h, pb |-> pb, b |-> bd]

(* helper non-terminals *)
Nt2V1 == << R(C1("nt2", a), <<>>, Ta), R(C1("nt2", b), <<>>, Tb) >>
Nt2V2 == << R(C1("nt2", Y), <<>>, ListOf(<<Y>>)) >>
Nt2V3 == << R(C1("nt2", Y), <<>>, Bar(Seq2(Ta, Curly(Eq(Y, I(1)))), Seq2(Tab, Curly(Eq(Y, I(2)))))) >>
Nt2V4 == << R(C1("nt2", Y), <<Y>>, ListOf(<<Y>>)) >>          \* look-ahead by pushback
Nt3R  == << R(N3, <<>>, Te), R(N3, <<>>, Seq2(Ta, N3)) >>

(* Prolog helper predicates for {}//1 goals *)
Helpers == << [h |-> C1("q", a), b |-> True], [h |-> C1("q", b), b |-> True] >>

RECURSIVE Mentions(_, _)
Mentions(t, n) ==
  IF t.t = "a" THEN t.n = n
  ELSE IF t.t = "c" THEN t.n = n \/ \E j \in 1..Len(t.a) : Mentions(t.a[j], n)
  ELSE FALSE

(* ---- body grammar ---- *)
AtomsQ == { Ta, Tab, Te, Tx, N2, N3, Gx, Cut }
AtomsX == AtomsQ \cup { Tb, Gq, Gf, Gc, Gv, Cl2, Cl1, Ph, Tax }
AtomsS == { Ta, Te, Tx, N2, Cut }

L1Seq(S, T) == { Seq2(p, q) : p \in S, q \in T }
L1Bar(S, T) == { Bar(p, q) : p \in S, q \in T }
L1Semi(S, T) == { Semi(p, q) : p \in S, q \in T }
L1Ite(Cs, Ts, Es) == { IteD(p, q, r) : p \in Cs, q \in Ts, r \in Es }

IteQ == L1Ite({Ta, N2, Gx, Tx}, {Te, Tx, Cut, N3}, {Te, Tx, Tab})
Level1Q == L1Seq(AtomsQ, AtomsQ) \cup L1Bar(AtomsQ, AtomsQ) \cup L1Semi({Ta, N2, Cut}, {Te, Tx, Tab}) \cup IteQ
Level2Q == { Seq2(p, Bar(q, r)) : p \in {Ta, N2}, q \in {Tx, Cut, Gx}, r \in {Te, Tab, N3} }
      \cup { Seq2(Bar(p, q), r) : p \in {Ta, Tab, Te}, q \in {Ta, Tab, Te}, r \in {Tx, Cut, N3} }
      \cup { Bar(Seq2(p, Cut), q) : p \in {Ta, N2, Tx}, q \in {Te, Tab, Tx} }
      \cup { Seq2(p, Seq2(q, r)) : p \in {Ta, N2}, q \in {Cut, Tx, N3}, r \in {Tb, Gx, Cut} }
      \cup { IteD(Seq2(p, Cut), q, r) : p \in {N2, Gq}, q \in {Tx}, r \in {Te} }
      \cup { Seq2(Gq, Seq2(Tx, p)) : p \in {Cut, Gc, Te} }
      \cup { Cl2, Cl1, Ph, Gc, Gq, Gf, Gv, Seq2(Cl2, Tb), Bar(Cl1, Te), Seq2(Gq, Cut), Seq2(Gq, Gc), Seq2(Gv, Tx), Seq2(Tx, Gv) }

IteX == L1Ite({Ta, N2, Gx, Tx, Gq, Cut, Tab}, {Te, Tx, Cut, N3, Tb}, {Te, Tx, Tab, N2})
Level1X == L1Seq(AtomsX, AtomsX) \cup L1Bar(AtomsX, AtomsX) \cup L1Semi(AtomsQ, AtomsQ) \cup IteX
(* depth 3 (thorough): a depth-2 body over the alphabet AtomsT on either side of a sequence / alternative *)
AtomsT == { Ta, Tx, N2, Cut }
Level1T == L1Seq(AtomsT, AtomsT) \cup L1Bar(AtomsT, AtomsT) \cup L1Ite({Ta, N2}, {Tx, Cut}, {Te, Tx})
Level2X == L1Seq(Level1T, AtomsT) \cup L1Seq(AtomsT, Level1T) \cup L1Bar(Level1T, AtomsT) \cup L1Bar(AtomsT, Level1T)
           \cup L1Ite(L1Seq(AtomsS, AtomsS), {Tx, Cut}, {Te, Tab}) \cup Level2Q

BodiesA == AtomsX \cup Level1Q                       \* depth <= 2, basic alphabet
BodiesB == (Level1X \ Level1Q) \cup Level2X           \* depth 2 over the extended alphabet, depth 3
PbBodies   == IF Tier = "quick" THEN AtomsQ \cup L1Seq({Ta, Tx, N2}, {Tx, Cut, Te}) \cup L1Bar({Ta, Tx}, {Te, Tab})
              ELSE BodiesA

(* bodies given directly to phrase/3; some of them contain the constructs Scryer rejects *)
BadBodies == { NotD(Ta), ItD(Ta, Tb), Seq2(Ta, NotD(Tb)), Seq2(NotD(Ta), Tb), Bar(ItD(Ta, Tb), Tc), Bar(Tc, ItD(Ta, Tb)),
               IteD(NotD(Ta), Tb, Tc), IteD(Ta, ItD(Tb, Tc), Te), Seq2(Tc, ItD(Ta, Tb)), Semi(Ta, NotD(Tb)) }
PhraseBodies == (IF Tier = "quick" THEN AtomsX \cup L1Seq(AtomsS, AtomsS) \cup L1Bar(AtomsS, AtomsS) \cup IteQ
                                         \cup { Seq2(p, Bar(q, r)) : p \in {Ta, N2}, q \in {Cut}, r \in {Te, Tab} }
                                         \cup { Bar(Seq2(p, Cut), q) : p \in {Ta, N2, Tx}, q \in {Te, Tab, Tx} }
                                         \cup { IteD(Seq2(N2, Cut), Tx, Te), IteD(Seq2(Gq, Cut), Tx, Te), IteD(Cut, Ta, Tb) }
                 ELSE BodiesA \cup { IteD(Cut, Ta, Tb) } \cup Level2Q) \cup BadBodies

(* ---- grammars ---- *)
VarsQ == {Nt2V1, Nt2V3}
VarsX == {Nt2V1, Nt2V2, Nt2V3, Nt2V4}
WithHelpers(rules, bd, vs) ==
  LET n3 == IF Mentions(bd, "nt3") THEN Nt3R ELSE <<>>
  IN IF Mentions(bd, "nt2") THEN { rules \o v \o n3 : v \in vs } ELSE { rules \o n3 }

NT1X == C1("nt1", X)
(* the rule under test followed / preceded by a second rule for nt1 (the clause order matters for bodies with a   *)
(* cut: the "preceded" order is generated for those), and with a structured head; ml = bound on the input length *)
CfgTwo(bd) == << R(NT1X, <<>>, bd), R(C1("nt1", c), <<>>, Tc) >>
CfgPre(bd) == << R(C1("nt1", c), <<>>, Tc), R(NT1X, <<>>, bd) >>
CfgF(bd)   == << R(C1("nt1", C1("f", X)), <<>>, bd) >>
RuleCase(rs, bd, vs, ml) == { [kind |-> "rule", gram |-> g, body |-> NT1X, ml |-> ml] : g \in WithHelpers(rs, bd, vs) }
PreIfCut(bd, vs, ml) == IF Mentions(bd, "!") THEN RuleCase(CfgPre(bd), bd, vs, ml) ELSE {}

RuleCases ==
  IF Tier = "quick"
  THEN UNION { RuleCase(CfgTwo(bd), bd, VarsQ, 3) \cup PreIfCut(bd, VarsQ, 3) : bd \in BodiesA \cup Level2Q }
  ELSE UNION { RuleCase(CfgTwo(bd), bd, VarsX, 4) \cup PreIfCut(bd, VarsX, 3) \cup RuleCase(CfgF(bd), bd, VarsX, 3) : bd \in BodiesA }
       \cup UNION { RuleCase(CfgTwo(bd), bd, VarsQ, 3) \cup PreIfCut(bd, VarsQ, 3) : bd \in BodiesB }
PbCases ==
  UNION { RuleCase(<< R(NT1X, pb, bd) >>, bd, IF Tier = "quick" THEN VarsQ ELSE {Nt2V1, Nt2V4}, 3) : bd \in PbBodies, pb \in { <<b>>, <<X>> } }

Cases ==      \* [kind, gram, body, ml]
  RuleCases \cup PbCases
  \cup UNION { { [kind |-> "body", gram |-> g, body |-> bd, ml |-> IF Tier = "quick" THEN 2 ELSE 3] :
                 g \in WithHelpers(<<>>, bd, IF Tier = "quick" THEN VarsQ ELSE VarsX) } : bd \in PhraseBodies }

(* ---- inputs ---- *)
Tok == {a, b, c}
Lists(n) == UNION { { ListOf(s) : s \in [1..k -> Tok] } : k \in 0..n }
E1 == V("E1")  E2 == V("E2")  TT == V("T")  LL == V("L")  RR == V("R")  GG == V("G")
Partial == { LL, PListOf(<<a>>, TT), ListOf(<<E1>>), ListOf(<<a, E1>>), PListOf(<<E1, b>>, TT), ListOf(<<E1, E2>>) }

QL == IF Tier = "quick" THEN 1 ELSE 2
Queries(cs) ==
  LET bd == cs.body IN
  IF cs.kind = "rule" THEN
       { [qk |-> "p3", q |-> C3("phrase", bd, l, RR)] : l \in Lists(cs.ml) \cup Partial }
       \cup { [qk |-> "p2", q |-> C2("phrase", bd, l)] : l \in Lists(QL) \cup Partial }
       \cup { [qk |-> "p3", q |-> C3("phrase", C1("nt1", b), l, RR)] : l \in Lists(QL) \cup {LL} }
       \cup { [qk |-> "var", q |-> Conj(Eq(GG, bd), C3("phrase", GG, l, RR))] : l \in Lists(1) \cup {LL} }
  ELSE { [qk |-> "p3", q |-> C3("phrase", bd, l, RR)] : l \in Lists(cs.ml) \cup Partial }
       \cup { [qk |-> "var", q |-> Conj(Eq(GG, bd), C3("phrase", GG, l, RR))] : l \in Lists(cs.ml) \cup Partial }
       \cup { [qk |-> "p2", q |-> C2("phrase", bd, l)] : l \in Lists(QL) }
       \* phrase/3 in a context with an outer choice point: a cut in the body must stay local to phrase/3
       \cup { [qk |-> "ctx", q |-> Semi(C3("phrase", bd, l, RR), Eq(RR, A("z")))] : l \in Lists(2) \cup {LL} }
       \cup { [qk |-> "ctxv", q |-> Conj(Eq(GG, bd), Semi(C3("phrase", GG, l, RR), Eq(RR, A("z"))))] : l \in Lists(1) }

(* ---- chunking ---- *)
Digit(ch) == CASE ch = "0" -> 0 [] ch = "1" -> 1 [] ch = "2" -> 2 [] ch = "3" -> 3 [] ch = "4" -> 4
               [] ch = "5" -> 5 [] ch = "6" -> 6 [] ch = "7" -> 7 [] ch = "8" -> 8 [] ch = "9" -> 9
ChunkK == IF "C39_CHUNK_K" \in DOMAIN IOEnv THEN Digit(IOEnv.C39_CHUNK_K) ELSE 0
ChunkN == IF "C39_CHUNK_N" \in DOMAIN IOEnv THEN Digit(IOEnv.C39_CHUNK_N) ELSE 1

(* one TLC state per case: the machine runs to completion inside one transition; the machine      *)
(* invariants are evaluated at every step of the run (status "broken" if one fails => Inv fails).  *)
RECURSIVE RunChk(_)
RunChk(mm) == IF mm.phase = "done" THEN mm
              ELSE IF ~MachineOk(mm) THEN [mm EXCEPT !.phase = "done", !.status = "broken"]
              ELSE RunChk(StepD(mm))

VARIABLE m
Init == m = [phase |-> "gen"]
PickCase ==
  /\ m.phase = "gen"
  /\ \E cs \in Cases :
       /\ (ChunkN = 1 \/ (TSize(cs.body) + Len(cs.gram) + (IF cs.gram = <<>> THEN 0 ELSE TSize(cs.gram[1].b) + TSize(cs.gram[Len(cs.gram)].b))) % ChunkN = ChunkK)
       /\ m' = [phase |-> "case", cs |-> cs]
PickQuery ==
  /\ m.phase = "case"
  /\ \E qq \in Queries(m.cs) :
       m' = RunChk(LoadD(m.cs.gram, Helpers, qq.q) @@ [qk |-> qq.qk, kind |-> m.cs.kind])
Next == PickCase \/ PickQuery

Inv == m.phase = "done" => m.status # "broken" /\ CollectorsOk(m)

Emit == m.phase = "done" /\ m.status \in {"done", "exc", "capped"} =>
          PrintT(ToJson([gram |-> m.gram, q |-> m.q, qv |-> m.qv, qk |-> m.qk, kind |-> m.kind,
                         ans |-> m.ans, status |-> m.status, ball |-> m.ball, steps |-> m.steps]))
=============================================================================
