CONSTANT Tier = "thorough"
CONSTANT Mode = "walk"
INIT Init
NEXT Next
INVARIANT Emit
INVARIANT TilesInv
