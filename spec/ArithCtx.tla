------------------------------ MODULE ArithCtx ------------------------------
(* C03: arithmetic does not depend on how the expression reaches is/2.                         *)
(*                                                                                             *)
(* Layer A.  An expression is a tree; `Eval(e)` is its meaning: a number or the Formal of an   *)
(* ISO error.  The property says that *every evaluation context* delivers `Eval(e)`.           *)
(*   - Where the integer fragment (ArithInt over BigInt) defines the value, Eval is an exact   *)
(*     oracle (value, or error class + culprit).                                               *)
(*   - Everywhere else (floats, rationals, float functions, `/`, `**`, mixed modes ...) this    *)
(*     specification has no arithmetic to offer (no reals in TLA+): Eval(e) is `Unk`, an        *)
(*     *unlogged* value which the trace specification (Trace_C03) infers from the first         *)
(*     observation and which every other context has to reproduce bit for bit.                  *)
(*                                                                                             *)
(* Layer B (what the code looks like): there are two evaluators with separate per-functor       *)
(* dispatch tables, the compiled one (arithmetic.rs get_unary_instr/get_binary_instr/           *)
(* push_literal, instructions in dispatch.rs) and the run-time tree walker (arithmetic_ops.rs   *)
(* arith_eval_by_metacall); `TableDiff` states what it means for the tables to agree.           *)
(*                                                                                             *)
(* Expression records (uniform shape so that equality is total in TLC):                        *)
(*   [t |-> "int",  n |-> "",     v |-> BigInt value, a |-> <<>>]   integer literal            *)
(*   [t |-> "flt",  n |-> 16 hex digits of the IEEE-754 bits, ...]   float literal              *)
(*   [t |-> "atom", n |-> name,   ...]   atom: evaluable constant (e, pi, epsilon) or not       *)
(*   [t |-> "var",  ...]                  an unbound variable                                   *)
(*   [t |-> "op",   n |-> functor, a |-> <<e1>> or <<e1, e2>>]   compound                       *)
EXTENDS ArithInt

CONSTANTS UnaryF, BinaryF, NullaryF    \* the evaluable functors (sets of strings)

IntL(v)        == [t |-> "int",  n |-> "", v |-> v,     a |-> <<>>]
Flt(bits)     == [t |-> "flt",  n |-> bits, v |-> BZero, a |-> <<>>]
Atom(n)       == [t |-> "atom", n |-> n,  v |-> BZero, a |-> <<>>]
Var           == [t |-> "var",  n |-> "_", v |-> BZero, a |-> <<>>]
Op1(f, x)     == [t |-> "op",   n |-> f,  v |-> BZero, a |-> <<x>>]
Op2(f, x, y)  == [t |-> "op",   n |-> f,  v |-> BZero, a |-> <<x, y>>]

(* the specification's own table of evaluables (Scryer: src/arithmetic.rs, the two match       *)
(* statements; ISO 9.1/9.3/9.4 plus rdiv, gcd, xor, div, epsilon).  The driver diffs it and     *)
(* the two tables extracted from the sources, see TableDiff.                                    *)
SpecUnary   == {"abs", "-", "+", "cos", "sin", "tan", "log", "exp", "sqrt", "acos", "asin", "atan",
                "float", "truncate", "round", "ceiling", "floor", "float_integer_part",
                "float_fractional_part", "sign", "\\"}
SpecBinary  == {"+", "-", "/", "//", "max", "min", "div", "rdiv", "*", "**", "^", ">>", "<<",
                "/\\", "\\/", "xor", "mod", "rem", "gcd", "atan2"}
SpecNullary == {"e", "pi", "epsilon"}

(* B-level agreement of the two dispatch tables: a functor known to exactly one evaluator       *)
(* evaluates in one context and raises type_error(evaluable, F/N) in another.                   *)
TableDiff(compiled, runtime) ==
  [only_compiled |-> compiled \ runtime, only_runtime |-> runtime \ compiled]

-----------------------------------------------------------------------------
(* results *)
IVal(v)  == [k |-> "int", v |-> v,     s |-> ""]
ErrR(s)  == [k |-> "err", v |-> BZero, s |-> s]
Unk      == [k |-> "unk", v |-> BZero, s |-> ""]

(* canonical text of a Formal: functional notation, no quotes, no blanks (the driver renders   *)
(* the observed Formal with the same rules); the culprit is part of the text.                   *)
NotEvaluable(name, arity) == "type_error(evaluable,/(" \o name \o "," \o ToString(arity) \o "))"
ErrText(r) ==
  CASE r.e = "zero_divisor" -> "evaluation_error(zero_divisor)"
    [] r.e = "undefined"    -> "evaluation_error(undefined)"
    [] r.e = "type_float"   -> "type_error(float," \o ToDec(r.c) \o ")"

OfInt(r) == IF r.ok THEN IVal(r.v) ELSE ErrR(ErrText(r))

(* Operands are evaluated left to right, then the functor is applied (ISO 9.1 does not fix the *)
(* order of detection when several errors apply, 7.12 leaves it implementation dependent; the  *)
(* property nevertheless demands ONE outcome per expression, whichever it is, so the order     *)
(* below only matters for the exact oracle and is the one both evaluators implement: both walk *)
(* the term in post-order, arithmetic.rs ArithInstructionIterator and stackful_post_order_iter).*)
RECURSIVE Eval(_)
Eval(e) ==
  CASE e.t = "int"  -> IVal(e.v)
    [] e.t = "flt"  -> Unk
    [] e.t = "var"  -> ErrR("instantiation_error")
    [] e.t = "atom" -> IF e.n \in NullaryF THEN Unk ELSE ErrR(NotEvaluable(e.n, 0))
    [] e.t = "op" /\ Len(e.a) = 1 ->
         LET r1 == Eval(e.a[1]) IN
         IF r1.k = "err" THEN r1
         ELSE IF e.n \notin UnaryF THEN (IF r1.k = "unk" THEN Unk ELSE ErrR(NotEvaluable(e.n, 1)))
         ELSE IF r1.k = "unk" \/ e.n \notin UnOps THEN Unk
         ELSE OfInt(EvalUn(e.n, r1.v))
    [] e.t = "op" /\ Len(e.a) = 2 ->
         LET r1 == Eval(e.a[1]) IN
         IF r1.k = "err" THEN r1
         ELSE LET r2 == Eval(e.a[2]) IN
              IF r2.k = "err" THEN (IF r1.k = "unk" THEN Unk ELSE r2)
              ELSE IF e.n \notin BinaryF THEN (IF r1.k = "unk" \/ r2.k = "unk" THEN Unk ELSE ErrR(NotEvaluable(e.n, 2)))
              ELSE IF r1.k = "unk" \/ r2.k = "unk" \/ e.n \notin BinOps THEN Unk
              ELSE OfInt(EvalBin(e.n, r1.v, r2.v))

(* Note on `IF r1.k = "unk" THEN Unk ELSE r2`: when the left operand has no oracle it may itself *)
(* raise an error (e.g. log(0)), so the outcome of the whole expression is left to inference.  *)

-----------------------------------------------------------------------------
(* evaluation contexts.  Each context is described by the expression it hands to the           *)
(* evaluator(s); the claim of the property is Eval(CtxExpr(c, e)) = Eval(e) for every context.  *)
(* "value" contexts deliver the value; "test" contexts (=:=) deliver a truth value against a    *)
(* probe number p and must be true exactly if Eval(e) is numerically equal to p, or raise the   *)
(* error of e.                                                                                  *)
(*   inline   i(X) :- X is E.                           compiled arithmetic instructions          *)
(*   var      v(X) :- T = E, X is T.                    run-time walk of a heap term              *)
(*   findall  f(X) :- findall(Y, Y is E, L), L = [X].   goal copied and called                    *)
(*   assert   a(X) :- assertz((d(Y) :- Y is E)), d(X).  compiled at run time                      *)
(*   call     c(X) :- G = (X is E), call(G).            is/2 as a called predicate                *)
(*   catch    ?- catch(X is E, error(Err,_), true).     a query                                   *)
(*   nested   n(X) :- X is +(E).                        sub-expression of a compiled expression   *)
(*   mixed    m(X) :- A = E1, B = E2, X is op(A, B).    compiled operator, operands fetched from  *)
(*                                                      registers holding terms (get_number)      *)
(*   cmp_l    l(P) :- E =:= P.      cmp_r   r(P) :- P =:= E.                                      *)
(* A clause whose expression contains a literal non-evaluable atom or functor is rejected when it *)
(* is loaded, with error(Formal, load/1): that Formal is the outcome of the context (for          *)
(* "assert" it is raised by assertz/1 at run time).                                               *)
ValueContexts == {"inline", "var", "findall", "assert", "call", "catch", "nested", "mixed"}
TestContexts  == {"cmp_l", "cmp_r"}
Contexts      == ValueContexts \cup TestContexts

(* only "nested" changes the expression: X is +(E); unary plus is the identity (ISO 9.1.7 (+)/1) *)
CtxExpr(c, e) == IF c = "nested" THEN Op1("+", e) ELSE e

(* contexts in which the expression text is compiled to arithmetic instructions *)
CompiledContexts == {"inline", "nested", "mixed", "cmp_l", "cmp_r", "assert"}

-----------------------------------------------------------------------------
(* generator guard: keep the *size* of results bounded (exponents and shift counts must be      *)
(* small known integers, a float or rational literal, or an error); everything else is free.    *)
IsRatLeaf(e) == e.t = "op" /\ e.n = "rdiv" /\ Len(e.a) = 2 /\ e.a[1].t = "int" /\ e.a[2].t = "int"
SmallMag(v, bound) == FitsInt(v) /\ ToInt(Abs(v)) <= bound

RECURSIVE Admissible(_)
Admissible(e) ==
  IF e.t # "op" THEN TRUE
  ELSE /\ \A i \in 1..Len(e.a) : Admissible(e.a[i])
       /\ IF Len(e.a) = 2 /\ e.n \in {"^", "**", "<<", ">>"}
          THEN LET x == e.a[1]  y == e.a[2]  ry == Eval(y)  rx == Eval(x) IN
               \/ ry.k = "err"
               \/ y.t = "flt"
               \/ IsRatLeaf(y)
               \/ /\ ry.k = "int" /\ SmallMag(ry.v, 70)
                  /\ (e.n \in {"^", "**"} /\ SmallMag(ry.v, 70) /\ ~SmallMag(ry.v, 5))
                       => (rx.k # "int" \/ Len(rx.v.m) <= 2)
          ELSE TRUE

RECURSIVE Depth(_)
Depth(e) == IF e.t # "op" THEN 0
            ELSE IF Len(e.a) = 1 THEN 1 + Depth(e.a[1])
            ELSE 1 + (IF Depth(e.a[1]) > Depth(e.a[2]) THEN Depth(e.a[1]) ELSE Depth(e.a[2]))
=============================================================================
