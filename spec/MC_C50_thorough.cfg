CONSTANTS Tier = "thorough"
INIT Init
NEXT Next
INVARIANT TablesOk
INVARIANT PathsOk
INVARIANT Emit
