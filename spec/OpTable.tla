------------------------------- MODULE OpTable -------------------------------
(* C43: the operator table as a state machine (layer A).                                          *)
(*                                                                                                  *)
(* Sources: ISO/IEC 13211-1 6.3.4 (operators, table 7), 8.14.3 (op/3), 8.14.4 (current_op/3) with   *)
(* Cor.1/Cor.2 (div, prefix +, the bar, [] and {}), as refined by the property statement C43 and    *)
(* by the comments next to op/3 in /repo/src/lib/builtins.pl (each raise cites its 8.14.3.3 item).  *)
(*                                                                                                  *)
(* State: a function from (name, class) to (priority, specifier); priority 0 = no such operator.    *)
(* The table is projected to a finite set Names of atoms (the rules are name-wise independent,      *)
(* except that the special names ',', '[]', '{}' and '|' are named by the rules themselves).         *)
(* Arguments of op/3 and current_op/3 are terms in the representation of module Terms, so that      *)
(* unbound, ill-typed and list-valued arguments are first-class.                                    *)
EXTENDS Terms

CONSTANT Names          \* set of strings: the atoms the table is projected to

PrefixSpecs  == {"fy", "fx"}
InfixSpecs   == {"xfx", "xfy", "yfx"}
PostfixSpecs == {"xf", "yf"}
Specifiers   == PrefixSpecs \cup InfixSpecs \cup PostfixSpecs
Classes      == {"prefix", "infix", "postfix"}
ClassOf(s)   == IF s \in PrefixSpecs THEN "prefix" ELSE IF s \in InfixSpecs THEN "infix" ELSE "postfix"
MaxPriority  == 1200
ArgMax       == 999     \* 6.3.3.1: an argument is a term of priority 999

None        == [p |-> 0, s |-> "none"]
Def(p, s)   == [p |-> p, s |-> s]
Keys        == Names \X Classes
EmptyTable  == [k \in Keys |-> None]
Defined(tb, n, c) == tb[<<n, c>>].p > 0
With(tb, n, p, s) == [tb EXCEPT ![<<n, ClassOf(s)>>] = IF p = 0 THEN None ELSE Def(p, s)]

(* the operators of the table as a set of triples <<priority, specifier, name>> *)
Entries(tb) == {<<tb[k].p, tb[k].s, k[1]>> : k \in {k \in Keys : tb[k].p > 0}}

(* ISO table 7 (6.3.4.4) with Cor.1 (no change) and Cor.2 (div, prefix +); the bar is NOT predefined *)
IsoTable ==
     {<<1200, "xfx", n>> : n \in {":-", "-->"}}
\cup {<<1200, "fx", n>>  : n \in {":-", "?-"}}
\cup {<<1100, "xfy", ";">>, <<1050, "xfy", "->">>, <<1000, "xfy", ",">>, <<900, "fy", "\\+">>}
\cup {<<700, "xfx", n>>  : n \in {"=", "\\=", "==", "\\==", "@<", "@>", "@=<", "@>=", "=..", "is", "=:=", "=\\=",
                                   "<", ">", "=<", ">="}}
\cup {<<500, "yfx", n>>  : n \in {"+", "-", "/\\", "\\/"}}
\cup {<<400, "yfx", n>>  : n \in {"*", "/", "//", "rem", "mod", "div", "<<", ">>"}}
\cup {<<200, "xfx", "**">>, <<200, "xfy", "^">>}
\cup {<<200, "fy", n>>   : n \in {"-", "+", "\\"}}

(* the initial table: the predefined operators of the names in the projection *)
InitTable == [k \in Keys |->
                LET hit == {e \in IsoTable : e[3] = k[1] /\ ClassOf(e[2]) = k[2]}
                IN IF hit = {} THEN None ELSE LET e == CHOOSE e \in hit : TRUE IN Def(e[1], e[2])]

(* what every reachable table satisfies (6.3.4.3 as amended; property C43) *)
Consistent(tb) ==
  /\ \A k \in Keys : \/ tb[k] = None
                     \/ tb[k].p \in 1..MaxPriority /\ tb[k].s \in Specifiers /\ ClassOf(tb[k].s) = k[2]
  /\ \A n \in Names : ~(Defined(tb, n, "infix") /\ Defined(tb, n, "postfix"))
  /\ \A c \in Classes : "," \in Names => tb[<<",", c>>] = InitTable[<<",", c>>]
  /\ \A c \in Classes : \A n \in {"[]", "{}"} \cap Names : tb[<<n, c>>] = None
  /\ "|" \in Names => /\ tb[<<"|", "prefix">>] = None /\ tb[<<"|", "postfix">>] = None
                      /\ tb[<<"|", "infix">>].p \in {0} \cup (1001..MaxPriority)

-----------------------------------------------------------------------------
(* error terms (the Formal of error(Formal, _)) *)
InstErr        == A("instantiation_error")
TypeErr(t, c)  == C2("type_error", A(t), c)
DomErr(d, c)   == C2("domain_error", A(d), c)
PermErr(a, n)  == C3("permission_error", A(a), A("operator"), A(n))

RECURSIVE LItems(_)
LItems(x) == IF IsF(x, ".", 2) THEN <<x.a[1]>> \o LItems(x.a[2]) ELSE <<>>
RECURSIVE LTail(_)
LTail(x)  == IF IsF(x, ".", 2) THEN LTail(x.a[2]) ELSE x

(* 8.14.3.3 a, d, h *)
PriorityErrs(P) == IF IsVar(P) THEN {InstErr}
                   ELSE IF ~IsInt(P) THEN {TypeErr("integer", P)}
                   ELSE IF P.i < 0 \/ P.i > MaxPriority THEN {DomErr("operator_priority", P)} ELSE {}
(* 8.14.3.3 b, e, i *)
SpecErrs(S) == IF IsVar(S) THEN {InstErr}
               ELSE IF ~IsAtom(S) THEN {TypeErr("atom", S)}
               ELSE IF S.n \notin Specifiers THEN {DomErr("operator_specifier", S)} ELSE {}
(* 8.14.3.3 c (partial list), f.  The atom [] is an atom here (builtins.pl valid_op/1: "Op == []" raises the  *)
(* permission error of Cor.2), not the empty list of names.                                                  *)
ShapeErrs(N) == IF IsVar(N) THEN {InstErr}
                ELSE IF IsAtom(N) THEN {}
                ELSE IF IsF(N, ".", 2)
                     THEN (IF IsVar(LTail(N)) THEN {InstErr} ELSE IF LTail(N) = Nil THEN {} ELSE {TypeErr("list", N)})
                     ELSE {TypeErr("list", N)}
(* the name positions of the third argument *)
NameTerms(N) == IF IsAtom(N) THEN <<N>> ELSE LItems(N)
(* 8.14.3.3 c (element), g *)
ElemErrs(N) == UNION {IF IsVar(NameTerms(N)[j]) THEN {InstErr}
                      ELSE IF ~IsAtom(NameTerms(N)[j]) THEN {TypeErr("atom", NameTerms(N)[j])} ELSE {}
                      : j \in 1..Len(NameTerms(N))}
(* 8.14.3.3 j, k: ',' ; Cor.2: [] and {} (builtins.pl valid_op/1) *)
ProtErrs(n) == IF n = "," THEN {PermErr("modify", ",")}
               ELSE IF n \in {"[]", "{}"} THEN {PermErr("create", n)} ELSE {}
(* Cor.2 / builtins.pl op/3 (conformity_testing #72): the bar only as an infix operator of priority >= 1001, or 0.  *)
(* The restriction is violated by a valid non-infix specifier or by a priority in 1..1000.                          *)
BarBad(P, S) == \/ IsAtom(S) /\ S.n \in Specifiers /\ S.n \notin InfixSpecs
                \/ IsInt(P) /\ P.i > 0 /\ P.i < 1001
AtomNames(N) == {NameTerms(N)[j].n : j \in {j \in 1..Len(NameTerms(N)) : IsAtom(NameTerms(N)[j])}}
NameErrs(P, S, N) == UNION {ProtErrs(n) \cup (IF n = "|" /\ BarBad(P, S) THEN {PermErr("create", "|")} ELSE {}) : n \in AtomNames(N)}

(* errors that do not depend on the table.  ISO fixes no precedence among simultaneously applicable errors: *)
(* the call must raise ONE of them.                                                                          *)
StaticErrs(P, S, N) == PriorityErrs(P) \cup SpecErrs(S) \cup ShapeErrs(N) \cup ElemErrs(N) \cup NameErrs(P, S, N)

(* 8.14.3.3 l / 6.3.4.3: no infix and postfix operator with the same name *)
Conflict(tb, p, s, n) ==
  p > 0 /\ \/ ClassOf(s) = "infix" /\ Defined(tb, n, "postfix")
           \/ ClassOf(s) = "postfix" /\ Defined(tb, n, "infix")

(* the errors that stop the processing of one element e of the third argument in table tb (P, S valid) *)
ElemStop(tb, P, S, e) ==
  IF IsVar(e) THEN {InstErr}
  ELSE IF ~IsAtom(e) THEN {TypeErr("atom", e)}
  ELSE ProtErrs(e.n) \cup (IF e.n = "|" /\ BarBad(P, S) THEN {PermErr("create", "|")} ELSE {})
       \cup (IF Conflict(tb, P.i, S.n, e.n) THEN {PermErr("create", e.n)} ELSE {})

(* elements processed left to right (8.14.3.1: "for each"); stops at the first element that raises an error *)
RECURSIVE RunNames(_, _, _, _)
RunNames(tb, P, S, es) ==
  IF es = <<>> THEN [ok |-> TRUE, tb |-> tb, errs |-> {}]
  ELSE IF ElemStop(tb, P, S, Head(es)) # {} THEN [ok |-> FALSE, tb |-> tb, errs |-> ElemStop(tb, P, S, Head(es))]
  ELSE RunNames(With(tb, Head(es).n, P.i, S.n), P, S, Tail(es))

(* op(P, S, N) in table tb:                                                                               *)
(*   errs = {}  : the call succeeds and the table becomes the single element of alts                       *)
(*   errs # {}  : the call raises error(E, _) with E \in errs and the table becomes an element of alts.    *)
(* A rejected call leaves the table unchanged (property C43).  ISO does not say whether op/3 is atomic     *)
(* over a LIST of names ("for each"): an implementation may validate the whole call first (then any of     *)
(* the table-independent errors may be raised and nothing is applied; builtins.pl does this for the        *)
(* list elements) or process the elements one by one (then the elements before the first offending one     *)
(* have been applied, and the error is one of that element - in particular the infix/postfix conflict,      *)
(* which depends on the table built so far).  Both are accepted for a list; for a single name and for      *)
(* an invalid priority or specifier the table must be unchanged.                                           *)
OpResult(tb, P, S, N) ==
  LET st == StaticErrs(P, S, N) IN
  IF PriorityErrs(P) \cup SpecErrs(S) # {} \/ IsVar(N) \/ ~(IsAtom(N) \/ IsF(N, ".", 2))
  THEN [errs |-> st, alts |-> {tb}]
  ELSE LET r    == RunNames(tb, P, S, NameTerms(N))
           tail == IF r.ok /\ ~IsAtom(N) THEN ShapeErrs(N) ELSE {}        \* the end of a partial / improper list
       IN IF r.ok /\ tail = {} THEN [errs |-> {}, alts |-> {r.tb}]
          ELSE [errs |-> st \cup r.errs \cup tail, alts |-> IF IsAtom(N) THEN {tb} ELSE {tb, r.tb}]

(* current_op(P, T, N) for arguments that are unbound or a valid priority / specifier / atom (8.14.4):   *)
(* the set of solutions.  The order of solutions is not specified.                                       *)
Match(x, v) == IsVar(x) \/ x = v
CurrentOp(tb, P, T, N) == {e \in Entries(tb) : Match(P, I(e[1])) /\ Match(T, A(e[2])) /\ Match(N, A(e[3]))}

-----------------------------------------------------------------------------
(* The reader under a table (6.3.4, 6.3.3.1), restricted to probe sentences over the non-operator atoms a, b, c *)
(* and the functor f, where the reading is determined by the table:                                            *)
(*   i1  a n b      p1  n a      s1  a n           the operator classes                                        *)
(*   i2  a n b n c  p2  n n a    s2  a n n         associativity (x / y argument positions)                    *)
(*   ia  f(a n b)   pa  f(n a)   sa  f(a n)        priority against the argument limit 999                     *)
(* The result is the canonical text of the term read, or "" for a syntax error.                                *)
Forms == {"i1", "p1", "s1", "i2", "p2", "s2", "ia", "pa", "sa"}
Tokens(n, form) ==
  CASE form = "i1" -> <<"a", n, "b">>
    [] form = "p1" -> <<n, "a">>
    [] form = "s1" -> <<"a", n>>
    [] form = "i2" -> <<"a", n, "b", n, "c">>
    [] form = "p2" -> <<n, n, "a">>
    [] form = "s2" -> <<"a", n, n>>
    [] form = "ia" -> <<"f", "(", "a", n, "b", ")">>
    [] form = "pa" -> <<"f", "(", n, "a", ")">>
    [] form = "sa" -> <<"f", "(", "a", n, ")">>

(* the sentences whose reading the table determines: the repeated forms only when the name has no other class *)
(* (an operator atom as an operand makes "n n a" ambiguous), the bar only as an infix symbol.                 *)
Specified(tb, n, form) ==
  /\ n = "|" => form \in {"i1", "i2", "ia"}
  /\ form = "i2" => ~Defined(tb, n, "prefix") /\ ~Defined(tb, n, "postfix")
  /\ form = "p2" => ~Defined(tb, n, "infix") /\ ~Defined(tb, n, "postfix")
  /\ form = "s2" => ~Defined(tb, n, "infix") /\ ~Defined(tb, n, "prefix")

Q(x)         == "'" \o x \o "'"                \* canonical quoted atom (the probe names need no escapes)
T1(n, x)     == Q(n) \o "(" \o x \o ")"
T2(n, x, y)  == Q(n) \o "(" \o x \o "," \o y \o ")"
Read(tb, n, form) ==
  LET pre == tb[<<n, "prefix">>]  inf == tb[<<n, "infix">>]  post == tb[<<n, "postfix">>] IN
  CASE form = "i1" -> IF inf.p > 0 THEN T2(n, Q("a"), Q("b")) ELSE ""
    [] form = "p1" -> IF pre.p > 0 THEN T1(n, Q("a")) ELSE ""
    [] form = "s1" -> IF post.p > 0 THEN T1(n, Q("a")) ELSE ""
    [] form = "i2" -> IF inf.p > 0 /\ inf.s = "xfy" THEN T2(n, Q("a"), T2(n, Q("b"), Q("c")))
                      ELSE IF inf.p > 0 /\ inf.s = "yfx" THEN T2(n, T2(n, Q("a"), Q("b")), Q("c")) ELSE ""
    [] form = "p2" -> IF pre.p > 0 /\ pre.s = "fy" THEN T1(n, T1(n, Q("a"))) ELSE ""
    [] form = "s2" -> IF post.p > 0 /\ post.s = "yf" THEN T1(n, T1(n, Q("a"))) ELSE ""
    [] form = "ia" -> IF inf.p > 0 /\ inf.p <= ArgMax THEN T1("f", T2(n, Q("a"), Q("b"))) ELSE ""
    [] form = "pa" -> IF pre.p > 0 /\ pre.p <= ArgMax THEN T1("f", T1(n, Q("a"))) ELSE ""
    [] form = "sa" -> IF post.p > 0 /\ post.p <= ArgMax THEN T1("f", T1(n, Q("a"))) ELSE ""

-----------------------------------------------------------------------------
(* Fix(from, to): a sequence of op/3 calls (as <<priority, specifier, name>>) that turns table from into table *)
(* to: first the removals, then the definitions (so that no infix/postfix conflict can arise on the way).      *)
SetToSeq(S) == LET RECURSIVE F(_)
                   F(T) == IF T = {} THEN <<>> ELSE LET x == CHOOSE x \in T : TRUE IN <<x>> \o F(T \ {x})
               IN F(S)
Fix(from, to) ==
  LET diff == {k \in Keys : from[k] # to[k]}
      rem  == {<<0, from[k].s, k[1]>> : k \in {k \in diff : to[k].p = 0}}
      add  == {<<to[k].p, to[k].s, k[1]>> : k \in {k \in diff : to[k].p > 0}}
  IN SetToSeq(rem) \o SetToSeq(add)
RECURSIVE ApplySeq(_, _)
ApplySeq(tb, acts) ==
  IF acts = <<>> THEN tb
  ELSE LET a == Head(acts)  r == OpResult(tb, I(a[1]), A(a[2]), A(a[3]))
       IN IF r.errs = {} THEN ApplySeq(CHOOSE t \in r.alts : TRUE, Tail(acts)) ELSE EmptyTable
FixOk(from, to) == ApplySeq(from, Fix(from, to)) = to
=============================================================================
