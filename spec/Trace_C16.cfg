INIT Init
NEXT Next
INVARIANT Verdict
