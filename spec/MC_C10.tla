------------------------------- MODULE MC_C10 -------------------------------
(* C10: unification computes most general unifiers.                                           *)
(*                                                                                            *)
(* The universe U is a sequence of build trees (TermsExt) of depth <= 2 over the variables     *)
(* X, Y, Z (with sharing), atoms, small and big integers (literal and computed), a float, a    *)
(* rational, strings / lists / partial lists / partial strings and the structures f/1, g/2.    *)
(* One state per row i.  For every selected pair (i, j) TLC checks the theorems about the      *)
(* oracle (UnifySpec!Theorems: soundness, idempotence, agreement of the finite-tree and the    *)
(* rational-tree reading, most-generality against brute force over the ground terms H) and     *)
(* prints, per flag value and predicate, the set of admissible outcomes and the instance.      *)
(* quick: all pairs; thorough: a larger universe, pairs selected by a hash of (i, j, seed).    *)
EXTENDS UnifySpec, TermUniverse, Json, IOUtils

CONSTANT Tier   \* "quick" | "thorough"

U == IF Tier = "quick" THEN UQ ELSE UT
N == Len(U)

(* ground terms for the brute-force generality check *)
H == IF Tier = "quick" THEN {a, b, I(1), C1("f", a), Cons(a, Nil)} ELSE {a, b, C1("f", a), Cons(a, Nil)}

Seed == IF "C10_SEED" \in DOMAIN IOEnv THEN atoi(IOEnv.C10_SEED) ELSE 1
(* thorough: about one pair in Rate (plus the diagonal) *)
Rate == 4
Selected(r, s) == Tier = "quick" \/ r = s \/ (((r * 7919) + (s * 104729) + ((r * s) % 1013) + (Seed * 31)) % Rate) = 0

G == 16
VARIABLES phase, grp, i
vars == <<phase, grp, i>>

Init == phase = "group" /\ grp \in 0..(G - 1) /\ i = 0
Next == phase = "group" /\ phase' = "row" /\ grp' = grp /\ i' \in {r \in 1..N : r % G = grp}

Exp(x, y) == [m \in 1..Len(Modes) |-> [p \in 1..Len(Preds) |-> Expected(Modes[m], Preds[p], x, y)]]
NoInst == A("-")

RowTheorems ==
  phase = "row" =>
    LET du == DenAll(U, 1) IN
    \A j \in {jj \in 1..N : Selected(i, jj)} : Theorems(du[i], du[j], H)

AllNames(du) == UNION {NamesOf(du[k]) : k \in 1..Len(du)}

Emit ==
  /\ (phase = "group" /\ grp = 0) =>
       LET du == DenAll(U, 1) IN
       PrintT(ToJson([k |-> "tab", names |-> NameTable(AllNames(du)), n |-> N, modes |-> Modes, preds |-> Preds,
                      seed |-> Seed]))
  /\ phase = "row" =>
       LET du == DenAll(U, 1)
           js == {jj \in 1..N : Selected(i, jj)}
       IN PrintT(ToJson([k |-> "row", i |-> i, b |-> U[i], tm |-> du[i],
                         ps |-> [j \in js |->
                                   [exp  |-> Exp(du[i], du[j]),
                                    inst |-> IF Unify(EmptyStore, du[i], du[j]).ok THEN Inst(du[i], du[j]) ELSE NoInst]]]))
=============================================================================
