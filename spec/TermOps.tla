------------------------------- MODULE TermOps -------------------------------
(* Layer A for C23: the term construction and inspection builtins as functions on the term    *)
(* model (Terms / TermsExt; arguments are denotations, so strings and partial strings are the  *)
(* lists they denote and a list cell is the compound '.'/2).                                    *)
(*                                                                                              *)
(* A call  op(A1, .., An)  has the result                                                       *)
(*   [k |-> "sols", sols |-> <<t(A1, .., An) theta_1, ..>>, errs |-> {}]   its solutions in      *)
(*            order, each as the instance of the argument tuple (all these builtins are          *)
(*            determinate: at most one), compared up to renaming - fresh variables made by the   *)
(*            builtin are VI("_G", k) - or                                                       *)
(*   [k |-> "err", sols |-> <<>>, errs |-> {Formal, ..}]   the call raises error(Formal, _);     *)
(*            when several error conditions of the ISO clause hold at once the standard does     *)
(*            not say which is reported: errs is the set of all that hold.                       *)
(* Sources: ISO/IEC 13211-1 8.5.1 (functor/3), 8.5.2 (arg/3), 8.5.3 (=../2), 8.5.4 (copy_term/2), *)
(* 7.1.1.4 + Cor.2 8.5.5 (term_variables/2), Cor.2 8.2.4 (subsumes_term/2), 8.3.10 (ground/1), as *)
(* summarised in the property and DESIGN Appendix 2 ("Errors"); the clause letters are cited at   *)
(* each condition.  max_arity is the value of the Prolog flag (255 in this system).               *)
EXTENDS TermsExt

MaxArity == 255

Tup(args) == C("t", args)
Sols(s)  == [k |-> "sols", sols |-> s, errs |-> {}]
Errs(e)  == [k |-> "err", sols |-> <<>>, errs |-> e]
(* the call unifies the pairs <<l, r>> of eqs and answers the instance of the argument tuple; a    *)
(* call whose unification would bind a variable to a term containing it has the result Cyc and is  *)
(* not emitted by the model                                                                        *)
UnifyAll(eqs) == UnifyW(EmptyStore, eqs)
Cyc      == [k |-> "cyc", sols |-> <<>>, errs |-> {}]     \* would create a cyclic term: outside this model (C24)
Answer(args, eqs) ==
  LET u == UnifyAll(eqs) IN
  IF u.cyc THEN Cyc ELSE IF u.ok THEN Sols(<<Apply(u.st, Tup(args))>>) ELSE Sols(<<>>)

InstErr          == A("instantiation_error")
TypeErr(ty, x)   == C2("type_error", A(ty), x)
DomErr(d, x)     == C2("domain_error", A(d), x)
ReprErr(w)       == C1("representation_error", A(w))

Fresh(k) == VI("_G", k)
FreshArgs(n) == [k \in 1..n |-> Fresh(k)]
IntLt(x, k) == B!Cmp(IntVal(x), B!FromInt(k)) < 0      \* integer term x < native k
IntGt(x, k) == B!Cmp(IntVal(x), B!FromInt(k)) > 0

(* ---- functor/3 (8.5.1) ---- *)
NameOf(t)  == IF t.t = "c" THEN A(t.n) ELSE t
ArityOf(t) == IF t.t = "c" THEN Len(t.a) ELSE 0
Functor(t, n, ar) ==
  IF t.t # "v" THEN Answer(<<t, n, ar>>, << <<n, NameOf(t)>>, <<ar, I(ArityOf(t))>> >>)
  ELSE
    LET errs ==
          (IF n.t = "v" \/ ar.t = "v" THEN {InstErr} ELSE {})                                   \* a) b)
          \cup (IF ar.t # "v" /\ ~IsInteger(ar) THEN {TypeErr("integer", ar)} ELSE {})           \* d)
          \cup (IF n.t = "c" THEN {TypeErr("atomic", n)} ELSE {})                                \* c)
          \cup (IF IsInteger(ar) /\ IntGt(ar, 0) /\ n.t \notin {"v", "c", "a"}
                THEN {TypeErr("atom", n)} ELSE {})                                               \* e)
          \cup (IF IsInteger(ar) /\ IntGt(ar, MaxArity) THEN {ReprErr("max_arity")} ELSE {})     \* f)
          \cup (IF IsInteger(ar) /\ IntLt(ar, 0) THEN {DomErr("not_less_than_zero", ar)} ELSE {}) \* g)
    IN IF errs # {} THEN Errs(errs)
       ELSE IF ar = I(0) THEN Answer(<<t, n, ar>>, << <<t, n>> >>)
       ELSE Answer(<<t, n, ar>>, << <<t, C(n.n, FreshArgs(ar.i))>> >>)

(* ---- arg/3 (8.5.2); N unbound is an instantiation error in this system as in ISO ---- *)
Arg(n, t, x) ==
  LET errs ==
        (IF n.t = "v" \/ t.t = "v" THEN {InstErr} ELSE {})                                       \* a) b)
        \cup (IF n.t # "v" /\ ~IsInteger(n) THEN {TypeErr("integer", n)} ELSE {})                \* c)
        \cup (IF t.t \notin {"v", "c"} THEN {TypeErr("compound", t)} ELSE {})                    \* d)
        \cup (IF IsInteger(n) /\ IntLt(n, 0) THEN {DomErr("not_less_than_zero", n)} ELSE {})     \* e)
  IN IF errs # {} THEN Errs(errs)
     ELSE IF n.t = "i" /\ n.i >= 1 /\ n.i <= Len(t.a) THEN Answer(<<n, t, x>>, << <<x, t.a[n.i]>> >>)
     ELSE Sols(<<>>)                                       \* N = 0 or N > arity: failure

(* ---- =../2 (8.5.3) ---- *)
RECURSIVE ListEnd(_)
ListEnd(l) == IF IsF(l, ".", 2) THEN ListEnd(l.a[2]) ELSE l       \* what the '.'/2 chain ends in
RECURSIVE ListItems(_)
ListItems(l) == IF IsF(l, ".", 2) THEN <<l.a[1]>> \o ListItems(l.a[2]) ELSE <<>>
IsProperList(l)  == IsA(ListEnd(l), "[]")
IsPartialList(l) == ListEnd(l).t = "v"
Univ(t, l) ==
  LET items == ListItems(l)
      h == items[1]
      errs ==
        (IF t.t = "v" /\ IsPartialList(l) THEN {InstErr} ELSE {})                                          \* a)
        \cup (IF ~IsProperList(l) /\ ~IsPartialList(l) THEN {TypeErr("list", l)} ELSE {})                  \* b)
        \cup (IF t.t = "v" /\ IsProperList(l) /\ items # <<>> /\ h.t = "v" THEN {InstErr} ELSE {})         \* c)
        \cup (IF IsProperList(l) /\ Len(items) > 1 /\ h.t \notin {"v", "a"} THEN {TypeErr("atom", h)} ELSE {})   \* d)
        \cup (IF IsProperList(l) /\ Len(items) = 1 /\ h.t = "c" THEN {TypeErr("atomic", h)} ELSE {})       \* e)
        \cup (IF t.t = "v" /\ IsA(l, "[]") THEN {DomErr("non_empty_list", l)} ELSE {})                     \* f)
        \cup (IF t.t = "v" /\ IsProperList(l) /\ Len(items) - 1 > MaxArity THEN {ReprErr("max_arity")} ELSE {}) \* g)
  IN IF errs # {} THEN Errs(errs)
     ELSE IF t.t = "v" THEN
            (IF Len(items) = 1 THEN Answer(<<t, l>>, << <<t, h>> >>)
             ELSE Answer(<<t, l>>, << <<t, C(h.n, Tail(items))>> >>))
     ELSE IF t.t = "c" THEN Answer(<<t, l>>, << <<l, ListOf(<<A(t.n)>> \o t.a)>> >>)
     ELSE Answer(<<t, l>>, << <<l, ListOf(<<t>>)>> >>)

(* ---- copy_term/2 (8.5.4): C is unified with a renamed copy of T (fresh variables, sharing     *)
(* preserved); T itself is untouched unless C shares variables with it ---- *)
CopyTerm(t, c) == Answer(<<t, c>>, << <<c, Rename(t, 1)>> >>)

(* ---- term_variables/2 (Cor.2 8.5.5): Vs must be a partial list or a list ---- *)
TermVariables(t, vs) ==
  IF ~IsProperList(vs) /\ ~IsPartialList(vs) THEN Errs({TypeErr("list", vs)})
  ELSE Answer(<<t, vs>>, << <<vs, ListOf(VarSeq(t))>> >>)

(* ---- ground/1, subsumes_term/2 (no bindings) ---- *)
Ground(t) == IF VarsOf(t) = {} THEN Sols(<<Tup(<<t>>)>>) ELSE Sols(<<>>)
(* General subsumes Specific iff they unify (with occurs check) by a substitution that leaves     *)
(* Specific unchanged (Cor.2 8.2.4)                                                                *)
Subsumes(g, s) == LET u == Unify(EmptyStore, g, s) IN u.ok /\ Apply(u.st, s) = s
SubsumesTerm(g, s) == IF Subsumes(g, s) THEN Sols(<<Tup(<<g, s>>)>>) ELSE Sols(<<>>)

(* dispatch by name *)
Ops == <<"functor", "arg", "univ", "copy_term", "term_variables", "ground", "subsumes_term">>
NArgs(op) == CASE op = "functor" -> 3 [] op = "arg" -> 3 [] op = "ground" -> 1 [] OTHER -> 2
Run(op, x) ==
  CASE op = "functor"        -> Functor(x[1], x[2], x[3])
    [] op = "arg"            -> Arg(x[1], x[2], x[3])
    [] op = "univ"           -> Univ(x[1], x[2])
    [] op = "copy_term"      -> CopyTerm(x[1], x[2])
    [] op = "term_variables" -> TermVariables(x[1], x[2])
    [] op = "ground"         -> Ground(x[1])
    [] op = "subsumes_term"  -> SubsumesTerm(x[1], x[2])

(* ---- theorems about the oracle (checked per case in MC_C23) ---- *)
(* brute-force reading of subsumption: some substitution (applied in parallel) of the variables   *)
(* of G that do not occur in S (the substitution has to leave S unchanged) by subterms of S maps G *)
(* onto S - complete, because a variable of G has to be mapped to the subterm of S at its position *)
RECURSIVE SubTerms(_)
SubTerms(x) == {x} \cup (IF x.t = "c" THEN UNION {SubTerms(x.a[k]) : k \in 1..Len(x.a)} ELSE {})
RECURSIVE Subst(_, _)
Subst(sg, x) == IF x.t = "v" THEN (IF x \in DOMAIN sg THEN sg[x] ELSE x)
                ELSE IF x.t = "c" THEN [x EXCEPT !.a = [k \in 1..Len(x.a) |-> Subst(sg, x.a[k])]]
                ELSE x
SubsumesBrute(g, s) == \E sg \in [(VarsOf(g) \ VarsOf(s)) -> SubTerms(s)] : Subst(sg, g) = s
CopyOk(t) == LET r == Rename(t, 1) IN
             /\ VarsOf(r) \cap VarsOf(t) = {}
             /\ Len(VarSeq(r)) = Len(VarSeq(t))
             /\ Unify(EmptyStore, r, t).ok /\ Subsumes(r, t) /\ Subsumes(t, r)       \* a variant
VarSeqOk(t) == LET s == VarSeq(t) IN
               /\ {s[k] : k \in 1..Len(s)} = VarsOf(t)
               /\ \A p, q \in 1..Len(s) : s[p] = s[q] => p = q
=============================================================================
