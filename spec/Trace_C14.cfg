INIT Init
NEXT Next
INVARIANT Emit
