CONSTANT Tier = "quick"
INIT Init
NEXT Next
INVARIANT Sane
INVARIANT Emit
