------------------------------- MODULE Format -------------------------------
(* Layer A for C36: the meaning of format_//2 / format/2 format strings, read off the          *)
(* directive table in the documentation comment of /repo/src/lib/format.pl (lines 31-84).      *)
(*                                                                                             *)
(* Text is a sequence of code points.  Run(fs, args) interprets the format string fs against   *)
(* the argument list args and yields                                                            *)
(*    [kind |-> "ok",  out |-> text]            the documented text                            *)
(*    [kind |-> "err", err |-> class]           an error must be raised (class see below)      *)
(*    [kind |-> "rel", dec, n]                  ~NL that needs line breaks: the documentation  *)
(*                                              only bounds the digits per line, the output is *)
(*                                              judged by LAccepts (trace direction)           *)
(*    [kind |-> "unspec"]                       the documentation does not determine the       *)
(*                                              result; such cases are never emitted           *)
(*                                                                                             *)
(* Readings of the documentation that needed a decision (each cites the table):                *)
(*  D1  Only the forms listed in the table are directives.  Everything else after "~" is       *)
(*      undocumented and must raise an error (property C36): ~c ~e ~g ~p, a numeric argument   *)
(*      on ~w ~q ~a ~s ~i ~~ ~t, "~`" not followed by "Ct", "~" at the end of the string.      *)
(*      "~+" without N is not in the table either ("~N+ where N is an integer"); since every   *)
(*      other Prolog gives it a default column the case is left unspecified here.              *)
(*  D2  "~Nd: like ~d, placing the last N digits after a decimal point": the digits of |x|     *)
(*      are padded with zeros on the left to N+1 digits, the sign precedes the digits          *)
(*      (-5 with N = 2 is -0.05).  "If N is 0 or omitted, no decimal point is used".           *)
(*  D3  "~ND: separating digits to the left of the decimal point in groups of three":          *)
(*      groups are counted from the decimal point, only digits are grouped (not the sign).     *)
(*  D4  "~NL: at most N digits appear on a line; 0 or omitted: 72".  How lines are separated   *)
(*      is not documented; when the whole text (sign included) fits on one line the text is    *)
(*      that of ~d, otherwise the result is "rel" and LAccepts states what is documented.      *)
(*  D5  "~Nf: format the float argument using N digits after the decimal point".  The value    *)
(*      is taken exactly (floats are given to the specification as M/2^K, integers and         *)
(*      rationals as themselves; the example block of format.pl shows format("~2f",[3]))       *)
(*      and rounded to N decimals, to nearest, ties away from zero (the table does not name    *)
(*      the tie rule; away-from-zero is ISO round/1, which the library is documented in terms  *)
(*      of nowhere else, and is the schoolbook reading).  N = 0 gives zero digits after the    *)
(*      point (written without a point).  "~f" without N: the table gives no default; 6 is     *)
(*      what every format/printf this directive descends from uses, and is taken here.         *)
(*      A negative value that rounds to zero has no documented sign: unspecified.              *)
(*  D6  "~Nr: N between 2 and 36 ... lower-case letters; omitted: 8".  Other N: error.         *)
(*  D7  Column control.  "~N|" places a tab stop at column N, "~N+" N after the previous tab   *)
(*      stop (or start of line), "~|" at the current position; "~t"/"~`Ct" distribute the      *)
(*      space between the two closest tab stops: space = distance of the stops - text between  *)
(*      them.  Spaces come from fill points only; without a fill point nothing is inserted.    *)
(*      "Evenly": every fill point gets space \div k; the examples in format.pl                 *)
(*      (format("~ta~tb~tc~10|",[]) gives "  a  b   c") show that the remainder goes to the    *)
(*      last fill point.  If the text does not fit, nothing is inserted.  When an earlier      *)
(*      cell of the same line was not filled exactly (overflow, or too short without a fill    *)
(*      point) the real column differs from the tab stop and the documentation does not say    *)
(*      which one later fill points refer to: unspecified.  The same holds for a line that     *)
(*      contains a raw newline character.  Fill points that are not followed by a tab stop     *)
(*      on their line have no second stop to fill up to and insert nothing.                    *)
(*  D8  "~*" takes the next argument as the numeric argument; it must be a non-negative        *)
(*      integer (negative: unspecified, other types: an error of class "any": the library      *)
(*      reports such arguments with different terms depending on the directive).               *)
(*  D9  Errors.  The documentation names no error terms.  The classes are those observed       *)
(*      (DESIGN.md Appendix 2) and are compared on functor and first argument only:            *)
(*        "unknown" domain_error(format_string,_)   undocumented directive / radix             *)
(*        "few"     domain_error(non_empty_list,_)  argument list exhausted                    *)
(*        "many"    domain_error(empty_list,_)      arguments left over                        *)
(*        "type"    type_error(_,_)                 ill-typed argument                         *)
(*        "any"     some error(_,_)                 more than one cause, "~*" involved in an   *)
(*                                                  arity problem, or an undocumented directive *)
(*                                                  met with no arguments left                  *)
EXTENDS BigInt

-----------------------------------------------------------------------------
(* code points and small text helpers *)

cNL == 10      cSpace == 32   cQuote == 39   cStar == 42    cPlus == 43   cComma == 44
cMinus == 45   cDot == 46     cZero == 48    cBackq == 96   cBar == 124   cTilde == 126
cUnder == 95   cBackslash == 92  cLPar == 40  cRPar == 41  cLBr == 91  cRBr == 93

IsDigit(c) == c >= 48 /\ c <= 57

RECURSIVE NatCodes(_)
NatCodes(n) == IF n < 10 THEN <<48 + n>> ELSE NatCodes(n \div 10) \o <<48 + (n % 10)>>

Limb4(n) == <<48 + (n \div 1000), 48 + ((n \div 100) % 10), 48 + ((n \div 10) % 10), 48 + (n % 10)>>
RECURSIVE LimbsCodes(_, _)
LimbsCodes(m, i) == IF i = 0 THEN <<>> ELSE Limb4(m[i]) \o LimbsCodes(m, i - 1)

(* decimal digits of a magnitude / signed decimal text of a BigInt *)
MagCodes(m) == IF m = <<>> THEN <<48>> ELSE NatCodes(m[Len(m)]) \o LimbsCodes(m, Len(m) - 1)
DecCodes(x) == IF x.neg THEN <<cMinus>> \o MagCodes(x.m) ELSE MagCodes(x.m)

Zeros(n) == [i \in 1..n |-> cZero]
Rep(c, n) == [i \in 1..n |-> c]

RECURSIVE Flat(_)
Flat(ss) == IF ss = <<>> THEN <<>> ELSE ss[1] \o Flat(Tail(ss))

RECURSIVE JoinWith(_, _)
JoinWith(ss, sep) == IF ss = <<>> THEN <<>>
                     ELSE IF Len(ss) = 1 THEN ss[1]
                     ELSE ss[1] \o sep \o JoinWith(Tail(ss), sep)

Has(cs, c) == \E i \in 1..Len(cs) : cs[i] = c

-----------------------------------------------------------------------------
(* ~Nd ~ND ~NU (D2, D3) *)

(* digits padded so that at least one digit precedes the last n *)
PadFor(ds, n) == IF Len(ds) <= n THEN Zeros(n + 1 - Len(ds)) \o ds ELSE ds
IntPart(ds, n)  == LET p == PadFor(ds, n) IN SubSeq(p, 1, Len(p) - n)
FracPart(ds, n) == LET p == PadFor(ds, n) IN IF n = 0 THEN <<>> ELSE <<cDot>> \o SubSeq(p, Len(p) - n + 1, Len(p))

RECURSIVE Group3(_, _)
Group3(ds, sep) == IF Len(ds) <= 3 THEN ds
                   ELSE Group3(SubSeq(ds, 1, Len(ds) - 3), sep) \o <<sep>> \o SubSeq(ds, Len(ds) - 2, Len(ds))

(* sep = 0: no grouping *)
PointText(neg, ds, n, sep) ==
  (IF neg THEN <<cMinus>> ELSE <<>>)
  \o (IF sep = 0 THEN IntPart(ds, n) ELSE Group3(IntPart(ds, n), sep))
  \o FracPart(ds, n)

DText(x, n, sep) == PointText(x.neg, MagCodes(x.m), n, sep)

-----------------------------------------------------------------------------
(* ~Nr ~NR (D6) *)

DigitChar(d, upper) == IF d < 10 THEN 48 + d ELSE (IF upper THEN 65 ELSE 97) + (d - 10)

RECURSIVE MagRadix(_, _, _)
MagRadix(m, r, upper) ==
  IF m = <<>> THEN <<>>
  ELSE LET qr == MDivSmall(m, r) IN MagRadix(qr[1], r, upper) \o <<DigitChar(qr[2], upper)>>

RadixCodes(x, r, upper) ==
  IF IsZero(x) THEN <<cZero>>
  ELSE (IF x.neg THEN <<cMinus>> ELSE <<>>) \o MagRadix(x.m, r, upper)

(* inverse, used by the sanity theorems of the model only *)
CharDigit(c) == IF IsDigit(c) THEN c - 48 ELSE IF c >= 97 THEN c - 87 ELSE c - 55
RECURSIVE MagFromRadix(_, _, _, _)
MagFromRadix(cs, i, r, acc) ==
  IF i > Len(cs) THEN acc
  ELSE MagFromRadix(cs, i + 1, r, MAdd(MMulSmall(acc, r), Trim(<<CharDigit(cs[i])>>)))
FromRadix(cs, r) == IF cs[1] = cMinus THEN Norm(TRUE, MagFromRadix(cs, 2, r, <<>>))
                    ELSE Norm(FALSE, MagFromRadix(cs, 1, r, <<>>))

-----------------------------------------------------------------------------
(* ~Nf (D5): the exact value p/q (q > 0) rounded to n decimals, ties away from zero *)

Pow10(n) == Pow(FromInt(10), n)

(* magnitude of round(|p/q| * 10^n) *)
RoundScaled(p, q, n) ==
  LET s  == MMul(p.m, Pow10(n).m)
      qr == MDivMod(s, q.m)
  IN IF MCmp(MMulSmall(qr[2], 2), q.m) >= 0 THEN MAdd(qr[1], <<1>>) ELSE qr[1]

FUnspecified(p, q, n) == p.neg /\ RoundScaled(p, q, n) = <<>>
FText(p, q, n) == LET r == RoundScaled(p, q, n)
                  IN PointText(p.neg /\ r # <<>>, MagCodes(r), n, 0)

-----------------------------------------------------------------------------
(* terms (arguments).  Uniform record:                                                       *)
(*   t = "a" atom (n = name), "i" integer (z), "r" rational z/q, "f" float = z / 2^k,        *)
(*       "s" string (n = its characters), "c" compound n(a[1],..), "l" proper list of a[..]  *)

MkTerm(t, n, z, q, k, a) == [t |-> t, n |-> n, z |-> z, q |-> q, k |-> k, a |-> a]
AtomC(cs)     == MkTerm("a", cs, BZero, One, 0, <<>>)
IntT(x)       == MkTerm("i", <<>>, x, One, 0, <<>>)
RatT(p, q)    == MkTerm("r", <<>>, p, q, 0, <<>>)
FltT(m, k)    == MkTerm("f", <<>>, m, One, k, <<>>)
StrC(cs)      == MkTerm("s", cs, BZero, One, 0, <<>>)
CmpC(cs, as)  == MkTerm("c", cs, BZero, One, 0, as)
ListT(as)     == MkTerm("l", <<>>, BZero, One, 0, as)

(* ~w / ~q (write/1, writeq/1) on the subset of terms whose text is settled: atoms,          *)
(* integers, strings (= lists of characters), proper lists, compounds in canonical           *)
(* functional notation with non-operator functors, '$VAR'(N) (both write/1 and writeq/1     *)
(* have numbervars(true)) and a - b between atomic non-negative operands.                    *)

SmallLetter(c) == (c >= 97 /\ c <= 122) \/ c = 233        \* a-z and e-acute (Appendix 2: lower-case non-ASCII letters are unquoted)
AlnumChar(c)   == SmallLetter(c) \/ (c >= 65 /\ c <= 90) \/ IsDigit(c) \/ c = cUnder
SymbolChar(c)  == c \in {43, 45, 42, 47, 92, 94, 60, 62, 61, 126, 58, 46, 63, 64, 35, 38, 36}

Bare(n) ==
  \/ n \in {<<91, 93>>, <<123, 125>>, <<33>>, <<59>>}
  \/ n # <<>> /\ SmallLetter(n[1]) /\ \A i \in 1..Len(n) : AlnumChar(n[i])
  \/ n # <<>> /\ n # <<cDot>> /\ \A i \in 1..Len(n) : SymbolChar(n[i])      \* a lone "." is the end token and is quoted

RECURSIVE Escaped(_)
Escaped(n) == IF n = <<>> THEN <<>>
              ELSE (IF n[1] = cQuote THEN <<cBackslash, cQuote>>
                    ELSE IF n[1] = cBackslash THEN <<cBackslash, cBackslash>>
                    ELSE IF n[1] = cNL THEN <<cBackslash, 110>>
                    ELSE <<n[1]>>) \o Escaped(Tail(n))

AtomText(n, qd) == IF ~qd \/ Bare(n) THEN n ELSE <<cQuote>> \o Escaped(n) \o <<cQuote>>

VarName(i) == <<65 + (i % 26)>> \o (IF i \div 26 = 0 THEN <<>> ELSE NatCodes(i \div 26))

DollarVar == <<36, 86, 65, 82>>
IsVarTerm(tm) == tm.t = "c" /\ tm.n = DollarVar /\ Len(tm.a) = 1 /\ tm.a[1].t = "i"
                 /\ ~tm.a[1].z.neg /\ FitsInt(tm.a[1].z)
SimpleOperand(tm) == (tm.t = "a" /\ tm.n # <<>> /\ SmallLetter(tm.n[1]) /\ Bare(tm.n)) \/ (tm.t = "i" /\ ~tm.z.neg)
IsMinusTerm(tm) == tm.t = "c" /\ tm.n = <<cMinus>> /\ Len(tm.a) = 2

RECURSIVE Writable(_)
Writable(tm) ==
  CASE tm.t \in {"a", "i", "s"} -> TRUE
    [] tm.t \in {"r", "f"}      -> FALSE      \* float/rational text belongs to C15/C55
    [] tm.t = "l"               -> \A i \in 1..Len(tm.a) : Writable(tm.a[i])
    [] tm.t = "c"               ->
         IF IsVarTerm(tm) THEN TRUE
         ELSE IF IsMinusTerm(tm) THEN SimpleOperand(tm.a[1]) /\ SimpleOperand(tm.a[2])
         ELSE /\ Len(tm.a) >= 1
              /\ tm.n # <<>> /\ (SmallLetter(tm.n[1]) \/ (tm.n[1] >= 65 /\ tm.n[1] <= 90))
              /\ \A i \in 1..Len(tm.n) : AlnumChar(tm.n[i]) \/ tm.n[i] = cSpace
              /\ \A i \in 1..Len(tm.a) : Writable(tm.a[i])

RECURSIVE WriteT(_, _)
WriteT(tm, qd) ==
  CASE tm.t = "i" -> DecCodes(tm.z)
    [] tm.t = "a" -> AtomText(tm.n, qd)
    [] tm.t = "s" -> <<cLBr>> \o JoinWith([i \in 1..Len(tm.n) |-> AtomText(<<tm.n[i]>>, qd)], <<cComma>>) \o <<cRBr>>
    [] tm.t = "l" -> <<cLBr>> \o JoinWith([i \in 1..Len(tm.a) |-> WriteT(tm.a[i], qd)], <<cComma>>) \o <<cRBr>>
    [] tm.t = "c" ->
         IF IsVarTerm(tm) THEN VarName(ToInt(tm.a[1].z))
         ELSE IF IsMinusTerm(tm) THEN WriteT(tm.a[1], qd) \o <<cMinus>> \o WriteT(tm.a[2], qd)
         ELSE AtomText(tm.n, qd) \o <<cLPar>>
              \o JoinWith([i \in 1..Len(tm.a) |-> WriteT(tm.a[i], qd)], <<cComma>>) \o <<cRPar>>
    [] OTHER -> <<>>

-----------------------------------------------------------------------------
(* ~NL acceptance (D4): the digit/sign characters of the output, in order, are the decimal *)
(* text, and no line carries more than n digits.                                            *)

RECURSIVE KeepNum(_)
KeepNum(cs) == IF cs = <<>> THEN <<>>
               ELSE (IF IsDigit(cs[1]) \/ cs[1] = cMinus THEN <<cs[1]>> ELSE <<>>) \o KeepNum(Tail(cs))

RECURSIVE LinesOk(_, _, _, _)
LinesOk(cs, i, cnt, n) ==
  IF i > Len(cs) THEN TRUE
  ELSE IF cs[i] = cNL THEN LinesOk(cs, i + 1, 0, n)
  ELSE IF IsDigit(cs[i]) THEN cnt + 1 <= n /\ LinesOk(cs, i + 1, cnt + 1, n)
  ELSE LinesOk(cs, i + 1, cnt, n)

LAccepts(out, dec, n) == KeepNum(out) = dec /\ LinesOk(out, 1, 0, n)

-----------------------------------------------------------------------------
(* the interpreter *)

NoNumDirs  == {119, 113, 97, 115, 105, 126, 116}            \* w q a s i ~ t
OptNumDirs == {100, 68, 85, 76, 102, 114, 82, 110, 124}     \* d D U L f r R n |
ArgDirs    == {119, 113, 97, 115, 105, 100, 68, 85, 76, 102, 114, 82}   \* consume one argument

RECURSIVE DigitEnd(_, _)
DigitEnd(fs, i) == IF i <= Len(fs) /\ IsDigit(fs[i]) THEN DigitEnd(fs, i + 1) ELSE i
RECURSIVE NumVal(_, _, _, _)
NumVal(fs, i, j, acc) == IF i >= j THEN acc ELSE NumVal(fs, i + 1, j, acc * 10 + (fs[i] - 48))
RECURSIVE TextEnd(_, _)
TextEnd(fs, i) == IF i <= Len(fs) /\ fs[i] # cTilde THEN TextEnd(fs, i + 1) ELSE i

TextEl(cs, w) == [f |-> FALSE, c |-> 0, cs |-> cs, w |-> w]       \* w: text produced by ~w / ~q (only used for coverage traits)
FillEl(c)     == [f |-> TRUE,  c |-> c, cs |-> <<>>, w |-> FALSE]

(* interpreter state.  `traits` (and the fields w, sill that feed it) tag input situations     *)
(* ("negative integer with at most N digits under ~Nd", "~w text in a cell closed by ~|", ..) *)
(* for coverage classes and for the signatures of known findings; they never influence the    *)
(* expected text or error class.                                                               *)
Start(fs, args) ==
  [fs |-> fs, i |-> 1, args |-> args, out |-> <<>>, cell |-> <<>>, stop |-> 0, exact |-> TRUE, rawnl |-> FALSE, sill |-> FALSE,
   perr |-> "", terr |-> FALSE, serr |-> FALSE, xerr |-> FALSE, xstar |-> FALSE, unspec |-> FALSE,
   rel |-> FALSE, reldec |-> <<>>, reln |-> 0, traits |-> {}]

RECURSIVE CellLen(_)
CellLen(cell) == IF cell = <<>> THEN 0 ELSE Len(cell[1].cs) + CellLen(Tail(cell))
RECURSIVE CellFills(_)
CellFills(cell) == IF cell = <<>> THEN 0 ELSE (IF cell[1].f THEN 1 ELSE 0) + CellFills(Tail(cell))

(* text of a cell whose fill points get `base` characters each and the last one `base + extra` *)
RECURSIVE CellText(_, _, _, _)
CellText(cell, left, base, extra) ==
  IF cell = <<>> THEN <<>>
  ELSE IF cell[1].f
       THEN Rep(cell[1].c, IF left = 1 THEN base + extra ELSE base) \o CellText(Tail(cell), left - 1, base, extra)
       ELSE cell[1].cs \o CellText(Tail(cell), left, base, extra)

AddText(st, cs)  == [st EXCEPT !.cell = Append(@, TextEl(cs, FALSE)), !.rawnl = @ \/ Has(cs, cNL)]
AddTextW(st, cs) == [st EXCEPT !.cell = Append(@, TextEl(cs, TRUE)), !.rawnl = @ \/ Has(cs, cNL)]
CellHasW(cell)   == \E i \in 1..Len(cell) : cell[i].w
AddFill(st, c)  == [st EXCEPT !.cell = Append(@, FillEl(c))]

(* close the pending cell at tab stop position T (D7) *)
FlushStop(st, T) ==
  LET len == CellLen(st.cell)
      k   == CellFills(st.cell)
      pad == T - st.stop - len
      use == IF pad > 0 /\ k > 0 THEN pad ELSE 0
  IN [st EXCEPT !.out    = @ \o CellText(st.cell, k, IF k = 0 THEN 0 ELSE use \div k, IF k = 0 THEN 0 ELSE use % k),
                !.cell   = <<>>,
                !.sill   = FALSE,
                !.stop   = T,
                !.unspec = @ \/ (k > 0 /\ (~st.exact \/ st.rawnl)),
                !.exact  = @ /\ (pad = 0 \/ (pad > 0 /\ k > 0)),
                !.traits = @ \cup (IF k > 1 /\ use % k # 0 THEN {"col-remainder"} ELSE {})
                             \cup (IF k > 0 /\ pad > 0 THEN {"col-pad"} ELSE {})
                             \cup (IF pad < 0 THEN {"col-overflow"} ELSE {})]

(* close the pending cell without a tab stop (end of line / end of string): fill points insert nothing *)
FlushLine(st) == [st EXCEPT !.out = @ \o CellText(st.cell, 0, 0, 0), !.cell = <<>>, !.sill = FALSE]

NewLines(st, n) ==
  LET s == FlushLine(st)
  IN [s EXCEPT !.out = @ \o Rep(cNL, n), !.stop = 0, !.exact = TRUE, !.rawnl = FALSE]

Fail(st, cls) == [st EXCEPT !.perr = cls]

(* the directive starting at st.i (fs[st.i] = "~") *)
Directive(st) ==
  LET fs   == st.fs
      j    == st.i + 1
  IN
  IF j > Len(fs) THEN Fail(st, IF st.args = <<>> THEN "any" ELSE "unknown")
  ELSE
  LET star == fs[j] = cStar
      de   == IF star THEN j + 1 ELSE DigitEnd(fs, j)
      hasN == star \/ de > j
  IN
  IF de > Len(fs) THEN Fail(st, IF st.args = <<>> THEN "any" ELSE "unknown")
  ELSE
  LET d    == fs[de]
      isFillC == d = cBackq /\ ~hasN /\ de + 2 <= Len(fs) /\ fs[de + 2] = 116
      documented == \/ (d \in NoNumDirs /\ ~hasN)
                    \/ d \in OptNumDirs
                    \/ (d = cPlus /\ hasN)
                    \/ isFillC
  IN
  IF d = cPlus /\ ~hasN THEN [st EXCEPT !.unspec = TRUE, !.perr = "any"]           \* D1
  ELSE IF ~documented THEN Fail(st, IF st.args = <<>> THEN "any" ELSE "unknown")
  ELSE IF star /\ st.args = <<>> THEN Fail(st, "any")
  ELSE
  LET sarg   == IF star THEN st.args[1] ELSE IntT(BZero)
      args1  == IF star THEN Tail(st.args) ELSE st.args
      starOk == ~star \/ (sarg.t = "i" /\ ~sarg.z.neg /\ FitsInt(sarg.z) /\ ToInt(sarg.z) <= 1000)
      starUnspec == star /\ sarg.t = "i" /\ ~starOk
      N      == IF star THEN (IF starOk THEN ToInt(sarg.z) ELSE 0)
                ELSE IF hasN THEN NumVal(fs, j, de, 0) ELSE 0
      needArg == d \in ArgDirs
  IN
  IF needArg /\ args1 = <<>> THEN Fail(st, IF star THEN "any" ELSE "few")
  ELSE
  LET arg   == IF needArg THEN args1[1] ELSE IntT(BZero)
      args2 == IF needArg THEN Tail(args1) ELSE args1
      s0    == [st EXCEPT !.i = IF isFillC THEN de + 3 ELSE de + 1,
                          !.args = args2,
                          !.unspec = @ \/ starUnspec,
                          !.serr = @ \/ (star /\ ~starOk /\ ~starUnspec),
                          !.traits = @ \cup (IF star THEN {"star"} ELSE {})
                                       \cup (IF star /\ ~starOk /\ ~starUnspec THEN {"star-illtyped"} ELSE {})]
      typeErr(s) == [s EXCEPT !.terr = TRUE]
      badStar == star /\ ~starOk
  IN
  CASE d = 119 \/ d = 113 ->                                    \* ~w ~q
         IF Writable(arg) THEN AddTextW(s0, WriteT(arg, d = 113)) ELSE [s0 EXCEPT !.unspec = TRUE]
    [] d = 97 ->                                                \* ~a
         IF arg.t = "a" THEN AddText(s0, arg.n) ELSE typeErr(s0)
    [] d = 115 ->                                               \* ~s
         IF arg.t = "s" THEN AddText(s0, arg.n) ELSE [typeErr(s0) EXCEPT !.sill = TRUE]     \* sill: coverage trait only
    [] d = 105 -> s0                                            \* ~i
    [] d = cTilde -> AddText(s0, <<cTilde>>)                    \* ~~
    [] d = 116 -> AddFill(s0, cSpace)                           \* ~t
    [] d = cBackq -> AddFill(s0, fs[de + 1])                    \* ~`Ct
    [] d \in {100, 68, 85} ->                                   \* ~Nd ~ND ~NU
         IF arg.t # "i" THEN typeErr(s0)
         ELSE IF badStar THEN s0
         ELSE LET sep == IF d = 100 THEN 0 ELSE IF d = 68 THEN cComma ELSE cUnder
                  nd  == Len(MagCodes(arg.z.m))
                  tr  == (IF arg.z.neg /\ N >= 1 /\ nd <= N THEN {"Nd-neg-short"} ELSE {})
                         \cup (IF arg.z.neg /\ sep # 0 /\ nd > N /\ (nd - N) % 3 = 0 THEN {"DU-neg-group3"} ELSE {})
              IN [AddText(s0, DText(arg.z, N, sep)) EXCEPT !.traits = @ \cup tr]
    [] d = 76 ->                                                \* ~NL
         IF arg.t # "i" THEN typeErr(s0)
         ELSE IF badStar THEN s0
         ELSE LET n   == IF N = 0 THEN 72 ELSE N
                  dec == DecCodes(arg.z)
              IN IF Len(dec) <= n THEN AddText(s0, dec)
                 ELSE [s0 EXCEPT !.rel = TRUE, !.unspec = @ \/ s0.rel, !.reldec = dec, !.reln = n]
    [] d = 102 ->                                               \* ~f ~Nf
         IF arg.t \notin {"i", "r", "f"} THEN typeErr(s0)
         ELSE IF badStar THEN s0
         ELSE LET n == IF hasN THEN N ELSE 6
                  p == arg.z
                  q == IF arg.t = "f" THEN Pow2(arg.k) ELSE arg.q
              IN IF FUnspecified(p, q, n) THEN [s0 EXCEPT !.unspec = TRUE]
                 ELSE [AddText(s0, FText(p, q, n)) EXCEPT !.traits = @ \cup (IF n = 0 THEN {"f-zero-digits"} ELSE {})]
    [] d = 114 \/ d = 82 ->                                     \* ~Nr ~NR
         IF arg.t # "i" THEN typeErr(s0)
         ELSE IF badStar THEN s0
         ELSE LET r == IF hasN THEN N ELSE 8
              IN IF r < 2 \/ r > 36 THEN [s0 EXCEPT !.xerr = TRUE, !.xstar = @ \/ star]
                 ELSE AddText(s0, RadixCodes(arg.z, r, d = 82))
    [] d = 110 ->                                               \* ~n ~Nn
         IF badStar THEN s0 ELSE NewLines(s0, IF hasN THEN N ELSE 1)
    [] d = cBar ->                                              \* ~| ~N|
         IF badStar THEN s0
         ELSE IF hasN THEN FlushStop(s0, N)
         ELSE [FlushStop(s0, st.stop + CellLen(st.cell))
               EXCEPT !.traits = @ \cup (IF CellHasW(st.cell) THEN {"wq-cell-closed-by-bar"} ELSE {})
                                    \cup (IF st.sill THEN {"s-illtyped-closed-by-bar"} ELSE {})]
    [] d = cPlus ->                                             \* ~N+
         IF badStar THEN s0 ELSE FlushStop(s0, st.stop + N)

Step(st) ==
  IF st.fs[st.i] # cTilde
  THEN LET e == TextEnd(st.fs, st.i)
       IN [AddText(st, SubSeq(st.fs, st.i, e - 1)) EXCEPT !.i = e]
  ELSE Directive(st)

RECURSIVE Loop(_)
Loop(st) == IF st.i > Len(st.fs) \/ st.perr # "" THEN st ELSE Loop(Step(st))

Result(kind, out, err, dec, n, traits) ==
  [kind |-> kind, out |-> out, err |-> err, dec |-> dec, n |-> n, traits |-> traits]

Run(fs, args) ==
  LET e  == Loop(Start(fs, args))
      e1 == IF e.perr = "" /\ e.args # <<>> THEN Fail(e, "many") ELSE e
      f  == FlushLine(e1)
      execErr == f.terr \/ f.serr \/ f.xerr
  IN
  IF f.unspec THEN Result("unspec", <<>>, "", <<>>, 0, f.traits)
  ELSE IF f.perr # "" THEN Result("err", <<>>, IF execErr THEN "any" ELSE f.perr, <<>>, 0, f.traits)
  ELSE IF f.serr \/ (f.terr /\ f.xerr) THEN Result("err", <<>>, "any", <<>>, 0, f.traits)
  ELSE IF f.xerr THEN Result("err", <<>>, IF f.xstar THEN "any" ELSE "unknown", <<>>, 0, f.traits)
  ELSE IF f.terr THEN Result("err", <<>>, "type", <<>>, 0, f.traits)
  ELSE IF f.rel THEN (IF f.out = <<>> THEN Result("rel", <<>>, "", f.reldec, f.reln, f.traits)
                      ELSE Result("unspec", <<>>, "", <<>>, 0, f.traits))
  ELSE Result("ok", f.out, "", <<>>, 0, f.traits)

=============================================================================
