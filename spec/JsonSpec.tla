------------------------------ MODULE JsonSpec ------------------------------
(* Layer A for C41: JSON text <-> the term form documented in                              *)
(* /repo/src/lib/serialization/json.pl.                                                     *)
(*                                                                                           *)
(* Sources.                                                                                  *)
(*  * Grammar: the McKeeman form on https://www.json.org/json-en.html, which json.pl names  *)
(*    as the grammar it follows ("The DCGs are written to match the McKeeman form ... as     *)
(*    closely as possible"), identical to RFC 8259 sections 2-7.                             *)
(*  * \uXXXX: RFC 8259 section 7: a code point outside the Basic Multilingual Plane is       *)
(*    written as a 12-character sequence encoding the UTF-16 surrogate pair, so a high       *)
(*    surrogate escape followed by a low surrogate escape denotes ONE supplementary code     *)
(*    point. A lone surrogate escape denotes no Unicode character; a Prolog character list   *)
(*    cannot hold one, so such a text has no term and is classed as rejected.                *)
(*  * Term form: json.pl, json_value//1: pairs(Pairs) with Pairs = [string(Key)-Value,...], *)
(*    list(Values), string(Chars), number(Number), boolean(true|false), null.                *)
(*                                                                                           *)
(* A text is a sequence of code points. A JSON value is the uniform record                   *)
(*   [k, b, s, a, n]:  k kind, b boolean payload, s code points (string payload or key),    *)
(*                     a children, n number payload.                                         *)
(*   kinds: "null" "bool" "str" "num" "arr" "obj"; the children of an "obj" are "pair"       *)
(*   records (s = key, a = <<value>>), in source order (duplicates are kept).                *)
(* A number payload is [kind, exact, rnd, neg, m, e2] with value (-1)^neg * m / 2^e2, m a    *)
(* BigInt magnitude (limb sequence, see BigInt.tla). An "int" holds the exact integer; a     *)
(* "float"/"any" numeral denotes the binary64 nearest to its decimal value (Rne below).      *)
(*   kind "int"   the term must hold a Prolog integer: texts without fraction whose exponent *)
(*                is absent or >= 0 (json.pl documents  phrase(json_number(N), "123E2")      *)
(*                gives N = 12300, and the generator writes integers as plain digits, so     *)
(*                the round-trip law needs it).                                              *)
(*   kind "float" the term must hold a float: texts with a fraction part. The generator      *)
(*                writes floats through number_chars/2, i.e. with a fraction ("2.5",         *)
(*                "1.0e10"), and parse(generate(T)) = T then needs a float back.             *)
(*   kind "any"   no fraction and a negative exponent ("25e-1"): the documentation does not  *)
(*                say which numeric type represents it; only the value is specified.         *)
(*   rnd          a remark, not part of the value: the numeral is not itself a binary64 and  *)
(*                was rounded (to nearest, ties to even). Values are compared after Strip.   *)
(*   exact        FALSE when the value is not decided by this module: results outside the    *)
(*                normal binary64 range (subnormal, overflow) and exponents of more than 6   *)
(*                digits; then only validity and the kind are specified.                     *)
(* The sign of a zero is not part of the value (JSON has no signed zero).                    *)
EXTENDS Integers, Sequences, TLC

BI == INSTANCE BigInt

-----------------------------------------------------------------------------
(* code points of ASCII string literals *)
Ascii == " !\"#$%&'()*+,-./0123456789:;<=>?@ABCDEFGHIJKLMNOPQRSTUVWXYZ[\\]^_`abcdefghijklmnopqrstuvwxyz{|}~"
OrdTab == [i \in 1..Len(Ascii) |-> SubSeq(Ascii, i, i)]
Ord(c) == 31 + CHOOSE i \in 1..Len(Ascii) : OrdTab[i] = c
Cps(str) == [i \in 1..Len(str) |-> Ord(SubSeq(str, i, i))]

RECURSIVE Concat(_)
Concat(ss) == IF ss = <<>> THEN <<>> ELSE Head(ss) \o Concat(Tail(ss))

-----------------------------------------------------------------------------
(* values *)
NoNum == [kind |-> "none", exact |-> TRUE, rnd |-> FALSE, neg |-> FALSE, m |-> <<>>, e2 |-> 0]
V(k, b, s, a, n) == [k |-> k, b |-> b, s |-> s, a |-> a, n |-> n]
JNull     == V("null", FALSE, <<>>, <<>>, NoNum)
JBool(b)  == V("bool", b, <<>>, <<>>, NoNum)
JStr(s)   == V("str", FALSE, s, <<>>, NoNum)
JNum(n)   == V("num", FALSE, <<>>, <<>>, n)
JArr(vs)  == V("arr", FALSE, <<>>, vs, NoNum)
JObj(ps)  == V("obj", FALSE, <<>>, ps, NoNum)
JPair(key, v) == V("pair", FALSE, key, <<v>>, NoNum)
(* the value without the remarks of its numerals *)
RECURSIVE Strip(_)
Strip(v) == [k |-> v.k, b |-> v.b, s |-> v.s, a |-> [i \in 1..Len(v.a) |-> Strip(v.a[i])], n |-> [v.n EXCEPT !.rnd = FALSE]]

-----------------------------------------------------------------------------
(* numbers: exact value of a decimal numeral *)
Ten == BI!FromInt(10)
Five == BI!FromInt(5)

RECURSIVE DigitsVal(_, _, _)
DigitsVal(ds, i, acc) ==
  IF i > Len(ds) THEN acc
  ELSE DigitsVal(ds, i + 1, BI!Add(BI!Mul(acc, Ten), BI!FromInt(ds[i])))

(* native value of at most 6 exponent digits *)
RECURSIVE SmallVal(_, _, _)
SmallVal(ds, i, acc) == IF i > Len(ds) THEN acc ELSE SmallVal(ds, i + 1, acc * 10 + ds[i])

IsEven(x) == x.m = <<>> \/ x.m[1] % 2 = 0
(* divide out factors of two while the binary exponent is positive *)
Half(x) == [neg |-> FALSE, m |-> BI!MDivSmall(x.m, 2)[1]]            \* x >= 0
RECURSIVE Reduce(_, _)
Reduce(x, e2) == IF e2 > 0 /\ IsEven(x) /\ ~BI!IsZero(x) THEN Reduce(Half(x), e2 - 1)
                 ELSE <<x, e2>>
(* quotient and remainder of non-negative a by positive b (short division when b is one limb) *)
DivModPos(a, b) ==
  IF Len(b.m) = 1
    THEN LET r == BI!MDivSmall(a.m, b.m[1])
         IN <<[neg |-> FALSE, m |-> r[1]], [neg |-> FALSE, m |-> IF r[2] = 0 THEN <<>> ELSE <<r[2]>>]>>
    ELSE BI!TDivMod(a, b)

(* IEEE 754 binary64, round to nearest, ties to even, of the positive rational N / Dn:       *)
(* [ok, m, q, inexact] with value m * 2^q and 2^52 <= m <= 2^53; ok = FALSE outside the       *)
(* normal range (subnormal results and overflow are not modelled).                            *)
P52 == BI!Pow2(52)
P53 == BI!Pow2(53)
RECURSIVE RneAt(_, _, _)
RneAt(N, Dn, q) ==
  LET num == IF q < 0 THEN BI!Mul(N, BI!Pow2(0 - q)) ELSE N
      den == IF q > 0 THEN BI!Mul(Dn, BI!Pow2(q)) ELSE Dn
      qr  == DivModPos(num, den)
      M   == qr[1]
  IN IF ~BI!Lt(M, P53) THEN RneAt(N, Dn, q + 1)
     ELSE IF BI!Lt(M, P52) THEN RneAt(N, Dn, q - 1)
     ELSE LET c  == BI!Cmp(BI!Mul(qr[2], BI!Two), den)
              up == c > 0 \/ (c = 0 /\ ~IsEven(M))
              M2 == IF up THEN BI!Add(M, BI!One) ELSE M
          IN [ok |-> q >= -1074 /\ (q < 971 \/ (q = 971 /\ BI!Lt(M2, P53))),
              m |-> M2, q |-> q, inexact |-> ~BI!IsZero(qr[2])]
Rne(N, Dn) == RneAt(N, Dn, BI!BitLen(N) - BI!BitLen(Dn) - 53)

MaxExpDigits == 6

(* ids, fds, eds: digit sequences of the integer, fraction and exponent parts.                *)
(* The numeral denotes D * 10^x10 exactly; an "int" keeps that integer, a "float"/"any"       *)
(* numeral denotes the binary64 nearest to it (RFC 8259 section 6 names binary64 as the       *)
(* interoperable number range/precision; Prolog floats are binary64).                         *)
NumValue(neg, ids, hasFrac, fds, hasExp, eneg, eds) ==
  LET ev   == IF hasExp THEN SmallVal(eds, 1, 0) ELSE 0
      ex   == IF eneg THEN 0 - ev ELSE ev
      x10  == ex - Len(fds)                       \* value = D * 10^x10
      D    == DigitsVal(ids \o fds, 1, BI!BZero)
      kind == IF hasFrac THEN "float" ELSE IF ex >= 0 THEN "int" ELSE "any"
      N    == IF x10 >= 0 THEN BI!Mul(D, BI!Pow(Ten, x10)) ELSE D
      Dn   == IF x10 >= 0 THEN BI!One ELSE BI!Pow(Ten, 0 - x10)
      Und  == [kind |-> kind, exact |-> FALSE, rnd |-> FALSE, neg |-> FALSE, m |-> <<>>, e2 |-> 0]
  IN IF Len(eds) > MaxExpDigits THEN Und
     ELSE IF kind = "int" \/ BI!IsZero(D)
       THEN [kind |-> kind, exact |-> TRUE, rnd |-> FALSE, neg |-> (neg /\ ~BI!IsZero(N)), m |-> N.m, e2 |-> 0]
     ELSE LET r   == Rne(N, Dn)
              red == IF r.q >= 0 THEN <<BI!Mul(r.m, BI!Pow2(r.q)), 0>> ELSE Reduce(r.m, 0 - r.q)
          IN IF ~r.ok THEN Und
             ELSE [kind |-> kind, exact |-> TRUE, rnd |-> r.inexact, neg |-> neg, m |-> red[1].m, e2 |-> red[2]]

-----------------------------------------------------------------------------
(* recursive-descent parser; a result is [ok, v, p] with p the next position *)
At(t, p) == IF p >= 1 /\ p <= Len(t) THEN t[p] ELSE -1      \* -1: end of input
Bad == [ok |-> FALSE, v |-> JNull, p |-> 0]
R(v, p) == [ok |-> TRUE, v |-> v, p |-> p]

IsWs(c) == c \in {32, 10, 13, 9}                            \* ws: space, LF, CR, TAB
RECURSIVE SkipWs(_, _)
SkipWs(t, p) == IF IsWs(At(t, p)) THEN SkipWs(t, p + 1) ELSE p

IsDigit(c) == c >= 48 /\ c <= 57
HexVal(c) == IF c >= 48 /\ c <= 57 THEN c - 48
             ELSE IF c >= 65 /\ c <= 70 THEN c - 55
             ELSE IF c >= 97 /\ c <= 102 THEN c - 87
             ELSE -1
Hex4(t, p) ==
  LET a == HexVal(At(t, p))  b == HexVal(At(t, p + 1))  c == HexVal(At(t, p + 2))  d == HexVal(At(t, p + 3))
  IN IF a < 0 \/ b < 0 \/ c < 0 \/ d < 0 THEN -1 ELSE a * 4096 + b * 256 + c * 16 + d

IsHighSur(u) == u >= 55296 /\ u <= 56319      \* D800..DBFF
IsLowSur(u)  == u >= 56320 /\ u <= 57343      \* DC00..DFFF
IsScalar(c)  == c >= 0 /\ c <= 1114111 /\ ~(c >= 55296 /\ c <= 57343)

(* escape: '"' '\' '/' 'b' 'f' 'n' 'r' 't' *)
EscCode(e) == CASE e = 34 -> 34 [] e = 92 -> 92 [] e = 47 -> 47 [] e = 98 -> 8 [] e = 102 -> 12
                [] e = 110 -> 10 [] e = 114 -> 13 [] e = 116 -> 9 [] OTHER -> -1

BadS == [ok |-> FALSE, s |-> <<>>, p |-> 0]
(* characters '"' : p is just after the opening quote *)
RECURSIVE PChars(_, _, _)
PChars(t, p, acc) ==
  LET c == At(t, p) IN
  IF c = -1 THEN BadS
  ELSE IF c = 34 THEN [ok |-> TRUE, s |-> acc, p |-> p + 1]
  ELSE IF c = 92 THEN
    LET e == At(t, p + 1) IN
    IF e = 117 THEN
      LET u == Hex4(t, p + 2) IN
      IF u < 0 THEN BadS
      ELSE IF IsHighSur(u) THEN
        (IF At(t, p + 6) = 92 /\ At(t, p + 7) = 117 /\ IsLowSur(Hex4(t, p + 8))
           THEN PChars(t, p + 12, Append(acc, 65536 + (u - 55296) * 1024 + (Hex4(t, p + 8) - 56320)))
           ELSE BadS)                                        \* lone high surrogate
      ELSE IF IsLowSur(u) THEN BadS                          \* lone low surrogate
      ELSE PChars(t, p + 6, Append(acc, u))
    ELSE IF EscCode(e) >= 0 THEN PChars(t, p + 2, Append(acc, EscCode(e)))
    ELSE BadS
  ELSE IF c < 32 \/ ~IsScalar(c) THEN BadS                   \* character: '0020' . '10FFFF' - '"' - '\'
  ELSE PChars(t, p + 1, Append(acc, c))

RECURSIVE PDigits(_, _, _)
(* longest digit run from p: <<digits, next position>> *)
PDigits(t, p, acc) == IF IsDigit(At(t, p)) THEN PDigits(t, p + 1, Append(acc, At(t, p) - 48)) ELSE <<acc, p>>

PNumber(t, p) ==
  LET neg == At(t, p) = 45
      p1  == IF neg THEN p + 1 ELSE p
      c1  == At(t, p1)
      int == IF c1 = 48 THEN <<(<<0>>), p1 + 1>>             \* integer: digit | onenine digits
             ELSE IF c1 >= 49 /\ c1 <= 57 THEN PDigits(t, p1, <<>>)
             ELSE <<(<<>>), 0>>
  IN IF int[1] = <<>> THEN Bad
     ELSE
     LET p2      == int[2]
         hasFrac == At(t, p2) = 46
         fr      == IF hasFrac THEN PDigits(t, p2 + 1, <<>>) ELSE <<(<<>>), p2>>
     IN IF hasFrac /\ fr[1] = <<>> THEN Bad                   \* fraction: '.' digits
        ELSE
        LET p3     == fr[2]
            hasExp == At(t, p3) = 69 \/ At(t, p3) = 101
            sgn    == At(t, p3 + 1)
            eneg   == hasExp /\ sgn = 45
            p4     == IF hasExp /\ (sgn = 45 \/ sgn = 43) THEN p3 + 2 ELSE p3 + 1
            ex     == IF hasExp THEN PDigits(t, p4, <<>>) ELSE <<(<<>>), p3>>
        IN IF hasExp /\ ex[1] = <<>> THEN Bad                 \* exponent: 'E' sign digits
           ELSE R(JNum(NumValue(neg, int[1], hasFrac, fr[1], hasExp, eneg, ex[1])), ex[2])

Match(t, p, w) == p + Len(w) - 1 <= Len(t) /\ SubSeq(t, p, p + Len(w) - 1) = w
WTrue  == <<116, 114, 117, 101>>
WFalse == <<102, 97, 108, 115, 101>>
WNull  == <<110, 117, 108, 108>>

RECURSIVE PValue(_, _), PElement(_, _), PMembers(_, _, _), PElements(_, _, _)
(* element: ws value ws *)
PElement(t, p) ==
  LET r == PValue(t, SkipWs(t, p)) IN IF r.ok THEN [r EXCEPT !.p = SkipWs(t, r.p)] ELSE Bad
PValue(t, p) ==
  LET c == At(t, p) IN
  CASE c = 123 -> (LET q == SkipWs(t, p + 1) IN                 \* object: '{' ws '}' | '{' members '}'
                   IF At(t, q) = 125 THEN R(JObj(<<>>), q + 1) ELSE PMembers(t, p + 1, <<>>))
    [] c = 91  -> (LET q == SkipWs(t, p + 1) IN                 \* array: '[' ws ']' | '[' elements ']'
                   IF At(t, q) = 93 THEN R(JArr(<<>>), q + 1) ELSE PElements(t, p + 1, <<>>))
    [] c = 34  -> (LET s == PChars(t, p + 1, <<>>) IN IF s.ok THEN R(JStr(s.s), s.p) ELSE Bad)
    [] c = 45 \/ IsDigit(c) -> PNumber(t, p)
    [] c = 116 -> IF Match(t, p, WTrue) THEN R(JBool(TRUE), p + 4) ELSE Bad
    [] c = 102 -> IF Match(t, p, WFalse) THEN R(JBool(FALSE), p + 5) ELSE Bad
    [] c = 110 -> IF Match(t, p, WNull) THEN R(JNull, p + 4) ELSE Bad
    [] OTHER   -> Bad
(* member: ws string ws ':' element ; p at the start of a member *)
PMembers(t, p, acc) ==
  LET q == SkipWs(t, p) IN
  IF At(t, q) # 34 THEN Bad
  ELSE LET s == PChars(t, q + 1, <<>>) IN
  IF ~s.ok THEN Bad
  ELSE LET q2 == SkipWs(t, s.p) IN
  IF At(t, q2) # 58 THEN Bad
  ELSE LET e == PElement(t, q2 + 1) IN
  IF ~e.ok THEN Bad
  ELSE LET acc2 == Append(acc, JPair(s.s, e.v)) IN
  IF At(t, e.p) = 44 THEN PMembers(t, e.p + 1, acc2)
  ELSE IF At(t, e.p) = 125 THEN R(JObj(acc2), e.p + 1)
  ELSE Bad
PElements(t, p, acc) ==
  LET e == PElement(t, p) IN
  IF ~e.ok THEN Bad
  ELSE LET acc2 == Append(acc, e.v) IN
  IF At(t, e.p) = 44 THEN PElements(t, e.p + 1, acc2)
  ELSE IF At(t, e.p) = 93 THEN R(JArr(acc2), e.p + 1)
  ELSE Bad

(* json: element, covering the whole text (phrase/2) *)
Parse(t) == LET r == PElement(t, 1)
            IN IF r.ok /\ r.p = Len(t) + 1 THEN [ok |-> TRUE, v |-> r.v] ELSE [ok |-> FALSE, v |-> JNull]

-----------------------------------------------------------------------------
(* writing text: syntax trees and spellings.                                                 *)
(* A syntax tree is a value whose "num" leaves carry their *spelling* in s (n = NoNum);      *)
(* Sem maps it to the value it denotes. A style st = [ws, esc]: ws maps each whitespace slot *)
(* of the grammar ("bv" before a value, "av" after a value, "em" inside an empty object or   *)
(* array, "bk" before a key, "ak" after a key) to a ws sequence; esc is a spelling rule for  *)
(* the characters of strings.                                                                *)

HexDigitL(d) == IF d < 10 THEN 48 + d ELSE 87 + d
HexDigitU(d) == IF d < 10 THEN 48 + d ELSE 55 + d
U4(u, upper) == LET h(d) == IF upper THEN HexDigitU(d) ELSE HexDigitL(d)
                IN <<92, 117, h(u \div 4096), h((u \div 256) % 16), h((u \div 16) % 16), h(u % 16)>>
UEsc(c, upper) == IF c < 65536 THEN U4(c, upper)
                  ELSE U4(55296 + ((c - 65536) \div 1024), upper) \o U4(56320 + ((c - 65536) % 1024), upper)
ShortEsc(c) == CASE c = 34 -> <<92, 34>> [] c = 92 -> <<92, 92>> [] c = 47 -> <<92, 47>> [] c = 8 -> <<92, 98>>
                 [] c = 12 -> <<92, 102>> [] c = 10 -> <<92, 110>> [] c = 13 -> <<92, 114>> [] c = 9 -> <<92, 116>>
                 [] OTHER -> <<>>
RawOk(c) == c >= 32 /\ c # 34 /\ c # 92
(* spellings of one character: "raw" (raw if the grammar allows it, else the short escape,   *)
(* else \u), "short" (short escape if there is one, else as raw), "ul" / "uu" (\uXXXX with   *)
(* lower / upper case hex digits, a surrogate pair above FFFF)                               *)
SpellChar(c, how) ==
  CASE how = "ul" -> UEsc(c, FALSE)
    [] how = "uu" -> UEsc(c, TRUE)
    [] how = "short" -> IF ShortEsc(c) # <<>> THEN ShortEsc(c) ELSE IF RawOk(c) THEN <<c>> ELSE UEsc(c, FALSE)
    [] OTHER -> IF RawOk(c) THEN <<c>> ELSE IF ShortEsc(c) # <<>> THEN ShortEsc(c) ELSE UEsc(c, FALSE)
Spellings == {"raw", "short", "ul", "uu"}

(* hows: one spelling per character *)
SpellString(cs, hows) == <<34>> \o Concat([i \in 1..Len(cs) |-> SpellChar(cs[i], hows[i])]) \o <<34>>
WriteString(cs, how) == SpellString(cs, [i \in 1..Len(cs) |-> how])

RECURSIVE Write(_, _)
WriteSeq(items, sep) ==     \* items: sequence of texts
  Concat([i \in 1..Len(items) |-> IF i = 1 THEN items[i] ELSE sep \o items[i]])
Write(tr, st) ==
  LET el(x) == st.ws.bv \o Write(x, st) \o st.ws.av IN
  CASE tr.k = "null" -> WNull
    [] tr.k = "bool" -> IF tr.b THEN WTrue ELSE WFalse
    [] tr.k = "num"  -> tr.s
    [] tr.k = "str"  -> WriteString(tr.s, st.esc)
    [] tr.k = "arr"  -> IF tr.a = <<>> THEN <<91>> \o st.ws.em \o <<93>>
                        ELSE <<91>> \o WriteSeq([i \in 1..Len(tr.a) |-> el(tr.a[i])], <<44>>) \o <<93>>
    [] tr.k = "obj"  -> IF tr.a = <<>> THEN <<123>> \o st.ws.em \o <<125>>
                        ELSE <<123>> \o WriteSeq([i \in 1..Len(tr.a) |->
                                 st.ws.bk \o WriteString(tr.a[i].s, st.esc) \o st.ws.ak \o <<58>> \o el(tr.a[i].a[1])], <<44>>)
                             \o <<125>>
WriteDoc(tr, st) == st.ws.bv \o Write(tr, st) \o st.ws.av

NoWs == [bv |-> <<>>, av |-> <<>>, em |-> <<>>, bk |-> <<>>, ak |-> <<>>]
Plain == [ws |-> NoWs, esc |-> "raw"]

RECURSIVE Sem(_)
Sem(tr) ==
  CASE tr.k = "num" -> PNumber(tr.s, 1).v
    [] tr.k = "arr" -> JArr([i \in 1..Len(tr.a) |-> Sem(tr.a[i])])
    [] tr.k = "obj" -> JObj([i \in 1..Len(tr.a) |-> JPair(tr.a[i].s, Sem(tr.a[i].a[1]))])
    [] OTHER -> tr
TNum(spelling) == V("num", FALSE, spelling, <<>>, NoNum)

-----------------------------------------------------------------------------
(* canonical generator: the compact text of a value (no insignificant whitespace, strings    *)
(* with the "raw" spelling, integers in decimal, exact floats in positional decimal notation *)
(* with at least one fraction digit). Gen is total on values whose numbers are exact and of  *)
(* kind "int" or "float"; Parse(Gen(v)) = v is checked by the model.                         *)
RECURSIVE DecDigits(_)
DecDigits(m) == IF m = <<>> THEN <<>>
                ELSE LET qr == BI!MDivSmall(m, 10) IN Append(DecDigits(qr[1]), qr[2])
DigitCps(ds) == [i \in 1..Len(ds) |-> 48 + ds[i]]
GenNum(n) ==
  LET sign == IF n.neg THEN <<45>> ELSE <<>> IN
  IF n.kind = "int" THEN sign \o (IF n.m = <<>> THEN <<48>> ELSE DigitCps(DecDigits(n.m)))
  ELSE LET scaled == BI!Mul([neg |-> FALSE, m |-> n.m], BI!Pow(Five, n.e2))   \* m * 5^e2 = value * 10^e2
           ds0    == DecDigits(scaled.m)
           need   == n.e2 + 1
           ds     == IF Len(ds0) < need THEN [i \in 1..(need - Len(ds0)) |-> 0] \o ds0 ELSE ds0
           ip     == SubSeq(ds, 1, Len(ds) - n.e2)
           fp     == IF n.e2 = 0 THEN <<0>> ELSE SubSeq(ds, Len(ds) - n.e2 + 1, Len(ds))
       IN sign \o DigitCps(ip) \o <<46>> \o DigitCps(fp)
RECURSIVE Gen(_)
Gen(v) ==
  CASE v.k = "null" -> WNull
    [] v.k = "bool" -> IF v.b THEN WTrue ELSE WFalse
    [] v.k = "num"  -> GenNum(v.n)
    [] v.k = "str"  -> WriteString(v.s, "raw")
    [] v.k = "arr"  -> <<91>> \o WriteSeq([i \in 1..Len(v.a) |-> Gen(v.a[i])], <<44>>) \o <<93>>
    [] v.k = "obj"  -> <<123>> \o WriteSeq([i \in 1..Len(v.a) |->
                           WriteString(v.a[i].s, "raw") \o <<58>> \o Gen(v.a[i].a[1])], <<44>>) \o <<125>>

RECURSIVE Generable(_)
Generable(v) ==
  CASE v.k = "num" -> v.n.exact /\ v.n.kind \in {"int", "float"}
    [] v.k \in {"arr", "obj", "pair"} -> \A i \in 1..Len(v.a) : Generable(v.a[i])
    [] OTHER -> TRUE

-----------------------------------------------------------------------------
(* the documented term form, as records the driver renders (printed only, never compared):   *)
(*   [t |-> "a", n]      the atom n              [t |-> "c", n, a]   the compound n(a[1],..)  *)
(*   [t |-> "l", a]      the list of a           [t |-> "s", s]      the list of the          *)
(*   [t |-> "num", num]  a number payload with m as decimal text      characters s            *)
TAtom(n) == [t |-> "a", n |-> n]
TCmp(n, a) == [t |-> "c", n |-> n, a |-> a]
TList(a) == [t |-> "l", a |-> a]
TStr(s) == [t |-> "s", s |-> s]
TNumber(n) == [t |-> "num",
               num |-> [kind |-> n.kind, exact |-> n.exact, rnd |-> n.rnd, neg |-> n.neg, m |-> BI!ToDec([neg |-> FALSE, m |-> n.m]), e2 |-> n.e2]]
RECURSIVE ToTerm(_)
ToTerm(v) ==
  CASE v.k = "null" -> TAtom("null")
    [] v.k = "bool" -> TCmp("boolean", <<TAtom(IF v.b THEN "true" ELSE "false")>>)
    [] v.k = "str"  -> TCmp("string", <<TStr(v.s)>>)
    [] v.k = "num"  -> TCmp("number", <<TNumber(v.n)>>)
    [] v.k = "arr"  -> TCmp("list", <<TList([i \in 1..Len(v.a) |-> ToTerm(v.a[i])])>>)
    [] v.k = "obj"  -> TCmp("pairs", <<TList([i \in 1..Len(v.a) |->
                           TCmp("-", <<TCmp("string", <<TStr(v.a[i].s)>>), ToTerm(v.a[i].a[1])>>)])>>)
=============================================================================
