-------------------------------- MODULE Delim --------------------------------
(* Layer A for the delimited-control half of C38: reset/3 and shift/1 of library(cont) as goal   *)
(* forms of the abstract machine.  Prolog.tla is not modified: StepL(m) executes the goal forms  *)
(* below and delegates everything else to Prolog!Step.                                           *)
(*                                                                                               *)
(*   reset(G, Ball, Cont)   runs call(G) followed by the frame '$reset_end'(Ball, Cont) that     *)
(*                          delimits it on the goal stack.  When G succeeds without shifting,    *)
(*                          '$reset_end' is reached: Cont = none and Ball is left alone           *)
(*                          (src/lib/cont.pl with reset_continuation_marker in system_calls.rs;  *)
(*                          src/lib/tabling.pl tests `Continuation = none`).                      *)
(*   shift(B)               the frames between shift/1 and the nearest '$reset_end'(Ball, Cont)   *)
(*                          - the remaining computation of G - are removed from the goal stack   *)
(*                          and packed into a continuation K; execution goes on after that       *)
(*                          reset/3 with Cont = cont(K) and Ball = B (unified, not copied).      *)
(*                          Choice points are not touched: backtracking into G resumes G under   *)
(*                          the same reset.                                                       *)
(*   call(K)                pushes the frames of K again: the remaining computation is resumed   *)
(*                          where K is called (in particular under the resets that enclose the   *)
(*                          call).  K can be called any number of times; its variables are       *)
(*                          shared, not copied.  A cut inside K is local to K                     *)
(*                          (system_calls.rs call_continuation_chunk: "adjust cut point to        *)
(*                          occur after call_continuation").                                      *)
(*                                                                                               *)
(* The representation of K is not specified (the library produces cont(true) or                  *)
(* cont(cont:call_continuation(Chunks))): the model uses '$k'(ListOfGoals) and the driver never  *)
(* compares continuations.                                                                        *)
(*                                                                                               *)
(* Outside the specified fragment (status "unspec", such behaviours are not emitted):            *)
(*   - shift/1 with no enclosing reset/3 (nothing is documented; the tree fails silently);       *)
(*   - a captured segment that still contains a cut (its barrier is meaningless once the         *)
(*     segment is re-installed elsewhere), the commit of an if-then-else / negation / once       *)
(*     whose condition shifted, or a findall/3 collector.                                         *)
(* A catch/3 whose goal shifts stops being active for the code after the reset (its marker       *)
(* leaves the goal stack with the segment); inside the resumed K the marker is a no-op: what an   *)
(* exception raised *inside the resumed remainder of that catch goal* does is not specified and   *)
(* the generators do not produce such programs.                                                   *)
EXTENDS Prolog

Unspec(m) == Finish(m, "unspec")

RECURSIVE FirstReset(_, _)
FirstReset(gs, j) == IF j > Len(gs) THEN 0
                     ELSE IF IsF(gs[j].g, "$reset_end", 2) THEN j ELSE FirstReset(gs, j + 1)

RECURSIVE HasCut(_, _)
HasCut(st, x) ==
  LET d == Deref(st, x) IN
  IF IsA(d, "!") THEN TRUE
  ELSE IF d.t = "c" /\ Len(d.a) = 2 /\ d.n \in {",", ";", "->"} THEN HasCut(st, d.a[1]) \/ HasCut(st, d.a[2])
  ELSE FALSE

Capturable(st, fr) ==
  LET d == Deref(st, fr.g) IN
  /\ ~(d.t = "c" /\ d.n \in {"$cut", "$fa_push", "$fa_done", "$retract", "$clause", "$retry"})
  /\ ~HasCut(st, d)

KGoal(g) == IF IsF(g, "$popcatch", 1) THEN True ELSE g

RECURSIVE ListItems(_, _)
ListItems(st, l) == LET d == Deref(st, l) IN IF IsF(d, ".", 2) THEN <<d.a[1]>> \o ListItems(st, d.a[2]) ELSE <<>>

StepL(m) ==
  IF m.gs = <<>> \/ m.steps >= MaxSteps THEN Step(m)
  ELSE LET fr   == m.gs[1]
           g    == Deref(m.st, fr.g)
           rest == Tail(m.gs)
           m0   == [m EXCEPT !.steps = m.steps + 1]
           h0   == Len(m.cps)
       IN
       IF IsF(g, "reset", 3) THEN
            [m0 EXCEPT !.gs = <<F(Call1(g.a[1]), h0), F(C2("$reset_end", g.a[2], g.a[3]), 0)>> \o rest]
       ELSE IF IsF(g, "$reset_end", 2) THEN
            LET u == Unify(m.st, g.a[2], A("none"))
            IN IF u.ok THEN [m0 EXCEPT !.st = u.st, !.gs = rest] ELSE Backtrack(m0)
       ELSE IF IsF(g, "shift", 1) THEN
            LET j == FirstReset(rest, 1) IN
            IF j = 0 THEN Unspec(m0)
            ELSE LET seg   == SubSeq(rest, 1, j - 1)
                     mk    == rest[j].g
                     after == SubSeq(rest, j + 1, Len(rest))
                     k     == C1("$k", ListOf([i \in 1..Len(seg) |-> KGoal(seg[i].g)]))
                 IN IF \E i \in 1..Len(seg) : ~Capturable(m.st, seg[i]) THEN Unspec(m0)
                    ELSE [m0 EXCEPT !.gs = <<F(Eq(mk.a[2], C1("cont", k)), 0), F(Eq(mk.a[1], g.a[1]), 0)>> \o after]
       ELSE IF IsF(g, "$k", 1) THEN
            LET items == ListItems(m.st, g.a[1])
            IN [m0 EXCEPT !.gs = [i \in 1..Len(items) |-> F(items[i], h0)] \o rest]
       ELSE Step(m)

RECURSIVE RunL(_)
RunL(m) == IF m.phase = "done" THEN m ELSE RunL(StepL(m))
==============================================================================
