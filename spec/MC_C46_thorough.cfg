CONSTANTS
  Stride = 1
  NSingle = 40000
  NStore = 40000
  DMax = 4
  NVMax = 6
  Groups = 32
INIT Init
NEXT Next
INVARIANT Sane
INVARIANT Emit
