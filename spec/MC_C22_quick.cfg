CONSTANT Tier = "quick"
INIT Init
NEXT Next
INVARIANT SpecSane
INVARIANT Emit
