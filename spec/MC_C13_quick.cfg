CONSTANT Tier = "quick"
INIT Init
NEXT Next
INVARIANT Theorems
INVARIANT Emit
