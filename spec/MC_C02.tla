------------------------------- MODULE MC_C02 -------------------------------
(* C02: float and mixed-type evaluation follows IEEE-754 with the ISO checks.                 *)
(* Every state of phase "case" is one expression over the alphabet tab (indices i, j, k) with *)
(* the specification's result (ArithFloat over Float64/BigInt): a value (bit pattern of the   *)
(* double, or the exact integer), an error class, or - for transcendental functions and       *)
(* inexact ** - "some finite double" (DESIGN.md section 9).  The alphabet is printed once,    *)
(* each case as one vector; the driver replays them against the real is/2.                    *)
(* The alphabet and the index sets live in state variables (tab, sets) only so that TLC       *)
(* computes them once (it re-evaluates definitions built on RECURSIVE operators at every use).*)
EXTENDS NumSets, FiniteSets, SequencesExt

CONSTANT Tier   \* "quick" | "thorough"

Q == Tier = "quick"
F(i) == NF(FromBig(FromInt(i)))
FR(n, d) == NF(FromRat(FromInt(n), FromInt(d)))
I(i) == NI(FromInt(i))
R(n, d) == NR(FromInt(n), FromInt(d))
FM(s, m, e) == NF(Mk(s, m, e))
NegN(a) == IF a.t = "f" THEN NF(FNeg(AsF(a))) ELSE [a EXCEPT !.n = Neg(a.n)]
WithNeg(S) == S \cup {NegN(a) : a \in S}

MaxD == FM(0, MaxM, 971)
MinSub == FM(0, One, -1074)

(* ---- operand sets ---- *)
(* doubles for the binary operations *)
F2q == {NF(FZero(0)), NF(FZero(1)), MinSub, FM(0, Sub(P(52), One), -1074), FM(0, One, -1022), F(1), FM(0, Add(P(52), One), -52),
        FR(1, 10), FR(1, 3), FM(0, FromInt(3), -1), FM(0, One, 53), FM(0, Add(P(52), One), 1), MaxD, FM(0, MaxM, 970),
        F(-1), FR(-1, 10), NegN(MaxD), NF(FromBig(Ten(30)))}
F2 == IF Q THEN F2q ELSE FloatsOf("quick")
(* integers and rationals mixed with them *)
M2q == {I(0), I(1), I(-3), NI(Add(P(53), One)), NI(Sub(P(55), One)), NI(Add(P(64), One)), NI(Ten(30)), NI(P(1024)),
        R(1, 3), R(-7, 2), NR(Add(P(64), One), P(64)), NR(One, P(1080)), NR(FromInt(3), P(1076)), R(7, 3)}
M2 == IF Q THEN M2q
      ELSE M2q \cup {I(7), I(-1), NI(Neg(Add(P(53), FromInt(3)))), NI(P(55)), NI(Neg(P(63))), NI(Sub(Sub(P(1024), P(970)), One)),
                     NI(Sub(P(1024), P(970))), NI(Neg(Ten(400))), R(1, 10), R(5, 2), NR(Add(P(54), One), Two), NR(Ten(400), FromInt(3)),
                     NR(Sub(Sub(P(1024), P(970)), One), One), NR(FromInt(-5), P(1077)), R(-13, 3), R(7, 5)}
(* unary operations *)
UnSet == FloatsOf(Tier) \cup M2 \cup {R(5, 2), R(-5, 2), R(7, 2), R(-1, 2), R(49, 100), I(-7), NI(Neg(P(64)))}
(* transcendental functions: domain edges, overflow edges, exact special points *)
TrSet == {I(0), NF(FZero(0)), NF(FZero(1)), I(1), F(1), I(-1), F(-1), I(2), F(-2), FM(0, One, -1), F(709), F(710), I(1000), F(-1000),
          MaxD, NegN(MaxD), MinSub, NI(Ten(400)), R(1, 2), R(-3, 2), FM(0, Add(P(52), One), -52), FM(1, Add(P(52), One), -52)}
At2Set == {I(0), NF(FZero(0)), NF(FZero(1)), I(1), F(-1), FM(0, FromInt(5), -1), NI(Ten(400)), R(1, 2)}
(* bases and exponents of ** *)
PowB == {I(0), NF(FZero(0)), NF(FZero(1)), I(1), I(2), F(2), I(-2), F(-8), I(3), I(10), FM(0, One, -1), FM(0, FromInt(3), -1), FR(1, 10),
         NI(Add(P(53), One)), MaxD, I(4), F(9), R(1, 2), NI(Ten(400)), F(-1), MinSub}
        \cup (IF Q THEN {} ELSE {F(10), I(-1), I(7), FM(0, One, 511), FM(0, One, -537), R(-1, 2), F(5), FM(0, One, 53), F(-3), R(9, 4)})
PowE == {I(0), NF(FZero(0)), I(1), I(2), I(3), I(-1), I(-2), FM(0, One, -1), FM(1, One, -1), I(10), I(2000), I(-2000), I(1074), I(-1074),
         F(2), F(-3), R(1, 2), I(64), NI(Ten(400)), I(100), I(308)}
        \cup (IF Q THEN {} ELSE {I(1023), I(1024), I(-1075), I(-1022), F(3), FR(1, 3), I(53), I(308), I(309), I(400), R(-3, 2), F(1024), I(4097)})
(* min / max *)
MmSet == {I(1), F(1), I(2), FM(0, FromInt(5), -1), NI(Add(P(53), One)), FM(0, One, 53), NI(P(53)), R(1, 2), FM(0, One, -1), R(2, 1),
          NF(FZero(0)), NF(FZero(1)), I(0), MaxD, NI(P(1024)), F(-1), I(-1), R(-7, 2)}
        \cup (IF Q THEN {} ELSE F2q \cup M2q)
(* integer-only evaluables applied to floats *)
TySet == {I(3), FM(0, FromInt(3), -1), F(-2), NI(P(64)), NF(FZero(0)), FM(0, One, 70)}
(* nested expressions *)
NsSet == {FR(1, 10), MaxD, I(3), NI(Add(P(53), One))} \cup (IF Q THEN {} ELSE {MinSub, R(1, 3), I(0)})


ArithOps == {"+", "-", "*"}
UnOps    == {"float", "-", "+", "abs", "sign", "floor", "ceiling", "truncate", "round", "float_integer_part",
             "float_fractional_part", "sqrt"}
TrOps    == {"log", "exp", "sin", "cos", "tan", "asin", "acos", "atan"}
Kinds    == {"arith", "div", "un", "transc", "atan2", "pow", "minmax", "type", "typeun", "nest"}

OpsOf(kd) == CASE kd = "arith"  -> ArithOps
               [] kd = "div"    -> {"/"}
               [] kd = "un"     -> UnOps
               [] kd = "transc" -> TrOps
               [] kd = "atan2"  -> {"atan2"}
               [] kd = "pow"    -> {"**"}
               [] kd = "minmax" -> {"min", "max"}
               [] kd = "type"   -> IntOnlyBin
               [] kd = "typeun" -> {"\\"}
               [] kd = "nest"   -> {"+", "-", "*", "/"}

VARIABLES vs, tab, prom, sets, phase, kind, op, op2, i, j, k, res
vars == <<vs, tab, prom, sets, phase, kind, op, op2, i, j, k, res>>

Idx(t, S) == {n \in 1..Len(t) : t[n] \in S}

First(kd, s) == CASE kd \in {"arith", "div"} -> s.f2 \cup s.m2
                  [] kd = "un"     -> s.un
                  [] kd = "transc" -> s.tr
                  [] kd = "atan2"  -> s.at
                  [] kd = "pow"    -> s.pb
                  [] kd = "minmax" -> s.mm
                  [] kd \in {"type", "typeun"} -> s.ty
                  [] kd = "nest"   -> s.ns
Second(kd, s, i1) == CASE kd = "arith"  -> IF i1 \in s.m2 THEN s.f2 ELSE s.f2 \cup s.m2
                       [] kd = "div"    -> s.f2 \cup s.m2
                       [] kd = "atan2"  -> s.at
                       [] kd = "pow"    -> s.pe
                       [] kd = "minmax" -> s.mm
                       [] kd = "type"   -> s.ty
                       [] kd = "nest"   -> s.ns
                       [] OTHER         -> {0}
Third(kd, s) == IF kd = "nest" THEN s.ns ELSE {0}

(* - sign of a rational is not a float matter (ISO has no rationals): left out.                                   *)
(* - min/max are decided here only when a float takes part (integer vs rational ordering is C04's subject).     *)
(* - integer-only evaluables: exactly one argument is a float, so that the culprit is determined (ISO 7.12:     *)
(*   when several error conditions hold, which one is reported is implementation dependent).                    *)
Admissible(kd, o, a, b) ==
  /\ (kd = "un" /\ o = "sign" => a.t # "r")
  /\ (kd = "minmax" => a.t = "f" \/ b.t = "f")
  /\ (kd = "type" => (a.t = "f") # (b.t = "f"))
  /\ (kd = "typeun" => a.t = "f")

(* x, y, z: the conversions to double of a, b, c (prom); EvalBin(o, a, b) = EvalBinP(o, a, b, Promote(a), Promote(b)) *)
Eval(kd, o, o2, a, b, c, x, y, z) ==
  CASE kd \in {"arith", "div", "atan2", "pow", "minmax", "type"} -> EvalBinP(o, a, b, x, y)
    [] kd \in {"un", "transc", "typeun"} -> EvalUnP(o, a, x)
    [] kd = "nest" -> LET r1 == EvalBinP(o, a, b, x, y)
                      IN IF r1.k = "val" THEN EvalBinP(o2, r1.v, c, Promote(r1.v), z) ELSE r1

(* vs: the operand sets (values), tab: their union as a sequence, prom: conversions to double, sets: index sets *)
Init ==
  /\ vs = [f2 |-> F2, m2 |-> M2, un |-> UnSet, tr |-> TrSet, at |-> At2Set, pb |-> PowB, pe |-> PowE, mm |-> MmSet,
           ty |-> TySet, ns |-> NsSet]
  /\ tab = SetToSeq(UNION {vs[f] : f \in DOMAIN vs})
  /\ prom = [n \in 1..Len(tab) |-> Promote(tab[n])]
  /\ sets = [f \in DOMAIN vs |-> Idx(tab, vs[f])]
  /\ phase = "pick" /\ kind \in Kinds /\ op \in OpsOf(kind) /\ op2 = "" /\ i \in First(kind, sets)
  /\ j = 0 /\ k = 0 /\ res = Skip

Next ==
  /\ phase = "pick" /\ phase' = "case" /\ UNCHANGED <<vs, tab, prom, sets, kind, op, i>>
  /\ j' \in Second(kind, sets, i) /\ k' \in Third(kind, sets)
  /\ op2' \in (IF kind = "nest" THEN {"+", "-", "*", "/"} ELSE {""})
  /\ LET a == tab[i]
         b == IF j' = 0 THEN NNone ELSE tab[j']
         c == IF k' = 0 THEN NNone ELSE tab[k']
         x == prom[i]
         y == IF j' = 0 THEN FZero(0) ELSE prom[j']
         z == IF k' = 0 THEN FZero(0) ELSE prom[k']
     IN /\ Admissible(kind, op, a, b)
        /\ res' = Eval(kind, op, op2', a, b, c, x, y, z)
        /\ res'.k # "skip"

(* well-formedness of everything the specification produces *)
ResOk ==
  phase = "case" =>
    /\ res.k \in {"val", "err", "anyfloat", "either", "near"}
    /\ (res.k \in {"val", "either", "near"} => NumOk(res.v))
    /\ (res.k = "either" => NumOk(res.c))
    /\ (res.k = "err" => res.err \in {"zero_divisor", "undefined", "float_overflow", "type_integer"})
    /\ (res.k = "err" /\ res.err = "type_integer" => res.c.t # "i")
Lead  == phase = "pick" /\ kind = "div" /\ i = CHOOSE n \in First("div", sets) : TRUE      \* one designated initial state
TabOk == Lead => \A n \in 1..Len(tab) : NumOk(tab[n]) /\ Canonical(prom[n])

Emit ==
  IF phase = "case"
  THEN PrintT(ToJson([kind |-> kind, op |-> op, op2 |-> op2, i |-> i, j |-> j, k |-> k,
                      rk |-> res.k, v |-> JNum(res.v), err |-> res.err, c |-> JNum(res.c)]))
  ELSE Lead => PrintT(ToJson([table |-> [n \in 1..Len(tab) |-> JNum(tab[n])]]))
=============================================================================
