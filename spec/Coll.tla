-------------------------------- MODULE Coll --------------------------------
(* Layer A for C14 (and the value layer of C53): a small term alphabet with the standard  *)
(* order of terms, the sorting builtins, and the list / ordset / pairs / assoc libraries   *)
(* as the mathematical sequence / set / map operations they are documented to compute.     *)
(*                                                                                          *)
(* Terms are uniform records [t, n, i, a] (tag, name as a sequence of code points, integer *)
(* payload, arguments):  "v" variable, "f" float, "i" integer, "a" atom, "c" compound.      *)
(* A float carries its IEEE bit pattern as 16 hex digits in n (what the binding renders)    *)
(* and twice its value in i (what the order compares); only floats with an integral double  *)
(* are used.  The module is self-contained (it does not use the general StdOrder module).   *)
EXTENDS Integers, Sequences, FiniteSets, TLC

(* ------------------------------------------------------------------------------------ *)
(* names                                                                                  *)
(* ------------------------------------------------------------------------------------ *)
Ord(ch) ==
  CASE ch = "a" -> 97  [] ch = "b" -> 98  [] ch = "c" -> 99  [] ch = "d" -> 100 [] ch = "e" -> 101
    [] ch = "f" -> 102 [] ch = "g" -> 103 [] ch = "h" -> 104 [] ch = "i" -> 105 [] ch = "j" -> 106
    [] ch = "k" -> 107 [] ch = "l" -> 108 [] ch = "m" -> 109 [] ch = "n" -> 110 [] ch = "o" -> 111
    [] ch = "p" -> 112 [] ch = "q" -> 113 [] ch = "r" -> 114 [] ch = "s" -> 115 [] ch = "t" -> 116
    [] ch = "u" -> 117 [] ch = "v" -> 118 [] ch = "w" -> 119 [] ch = "x" -> 120 [] ch = "y" -> 121
    [] ch = "z" -> 122 [] ch = "_" -> 95  [] ch = "-" -> 45  [] ch = "." -> 46  [] ch = "[" -> 91
    [] ch = "]" -> 93  [] ch = "<" -> 60  [] ch = ">" -> 62  [] ch = "=" -> 61
    [] ch = "0" -> 48  [] ch = "1" -> 49  [] ch = "2" -> 50  [] ch = "3" -> 51  [] ch = "4" -> 52
    [] ch = "5" -> 53  [] ch = "6" -> 54  [] ch = "7" -> 55  [] ch = "8" -> 56  [] ch = "9" -> 57
    [] ch = "A" -> 65  [] ch = "B" -> 66  [] ch = "C" -> 67  [] ch = "D" -> 68  [] ch = "E" -> 69
    [] ch = "F" -> 70  [] ch = "G" -> 71  [] ch = "H" -> 72  [] ch = "I" -> 73  [] ch = "J" -> 74
    [] ch = "K" -> 75  [] ch = "L" -> 76  [] ch = "M" -> 77  [] ch = "N" -> 78  [] ch = "O" -> 79
    [] ch = "P" -> 80  [] ch = "Q" -> 81  [] ch = "R" -> 82  [] ch = "S" -> 83  [] ch = "T" -> 84
    [] ch = "U" -> 85  [] ch = "V" -> 86  [] ch = "W" -> 87  [] ch = "X" -> 88  [] ch = "Y" -> 89
    [] ch = "Z" -> 90
RECURSIVE CPFrom(_, _)
CPFrom(s, i) == IF i > Len(s) THEN <<>> ELSE <<Ord(SubSeq(s, i, i))>> \o CPFrom(s, i + 1)
CP(s) == CPFrom(s, 1)          \* the code points of a TLA+ string, as a tuple

(* ------------------------------------------------------------------------------------ *)
(* terms                                                                                  *)
(* ------------------------------------------------------------------------------------ *)
Var(s)      == [t |-> "v", n |-> CP(s), i |-> 0, a |-> <<>>]
IntT(k)      == [t |-> "i", n |-> <<>>,  i |-> k, a |-> <<>>]
Flt(hex, k) == [t |-> "f", n |-> CP(hex), i |-> k, a |-> <<>>]     \* k = 2 * value
AtomN(n)    == [t |-> "a", n |-> n, i |-> 0, a |-> <<>>]
Atom(s)     == AtomN(CP(s))
CmpdN(n, args) == [t |-> "c", n |-> n, i |-> 0, a |-> args]
Cmpd(s, args)  == CmpdN(CP(s), args)

Nil         == Atom("[]")
True        == Atom("true")
Cons(h, tl) == Cmpd(".", <<h, tl>>)
Pair(k, v)  == Cmpd("-", <<k, v>>)
IsPair(x)   == x.t = "c" /\ x.n = CP("-") /\ Len(x.a) = 2
RECURSIVE LT(_)
LT(s) == IF s = <<>> THEN Nil ELSE Cons(Head(s), LT(Tail(s)))     \* the list term of a sequence
RECURSIVE LTail(_, _)
LTail(s, tl) == IF s = <<>> THEN tl ELSE Cons(Head(s), LTail(Tail(s), tl))   \* partial list
IsCons(x)   == x.t = "c" /\ x.n = CP(".") /\ Len(x.a) = 2
RECURSIVE SeqOf(_)
SeqOf(x) == IF IsCons(x) THEN <<x.a[1]>> \o SeqOf(x.a[2]) ELSE <<>>   \* inverse of LT on proper lists

(* compact JSON image of a term, used when a vector is printed (a rendering, not part of the model): *)
(* <<0, int>>, <<1, atom name>>, <<2, functor name, args>>, <<3, variable name>>, <<4, float bits>>,   *)
(* <<5, elements>> for a proper list and <<6, elements, tail>> for any other '.'/2 chain             *)
RECURSIVE Pk(_), PkList(_, _)
Pk(x) ==
  CASE x.t = "i" -> <<0, x.i>>
    [] x.t = "a" -> <<1, x.n>>
    [] x.t = "v" -> <<3, x.n>>
    [] x.t = "f" -> <<4, x.n>>
    [] x.t = "c" -> IF IsCons(x) THEN PkList(<<>>, x)
                    ELSE <<2, x.n, [j \in 1..Len(x.a) |-> Pk(x.a[j])]>>
PkList(acc, x) == IF IsCons(x) THEN PkList(Append(acc, Pk(x.a[1])), x.a[2])
                  ELSE IF x = Nil THEN <<5, acc>> ELSE <<6, acc, Pk(x)>>
PkSeq(s) == [j \in 1..Len(s) |-> Pk(s[j])]

(* ------------------------------------------------------------------------------------ *)
(* standard order of terms (property C13, restated): Var < Float < Integer < Atom <       *)
(* Compound; numbers of one class by value; atoms by code points; compounds by arity,     *)
(* then name, then arguments left to right.  The order between two *distinct* variables   *)
(* is implementation defined; the models use at most one variable, so Cmp on variables is *)
(* only ever asked about identical ones (the name comparison below is a total extension). *)
(* ------------------------------------------------------------------------------------ *)
Sign(k) == IF k < 0 THEN -1 ELSE IF k > 0 THEN 1 ELSE 0
RECURSIVE SeqCmpFrom(_, _, _)
SeqCmpFrom(s, u, i) ==
  IF i > Len(s) THEN (IF i > Len(u) THEN 0 ELSE -1)
  ELSE IF i > Len(u) THEN 1
  ELSE IF s[i] # u[i] THEN Sign(s[i] - u[i])
  ELSE SeqCmpFrom(s, u, i + 1)
SeqCmp(s, u) == SeqCmpFrom(s, u, 1)

ClassRank(x) == CASE x.t = "v" -> 0 [] x.t = "f" -> 1 [] x.t = "i" -> 2 [] x.t = "a" -> 3 [] x.t = "c" -> 4

RECURSIVE Cmp(_, _), CmpArgs(_, _, _)
Cmp(x, y) ==
  IF ClassRank(x) # ClassRank(y) THEN Sign(ClassRank(x) - ClassRank(y))
  ELSE CASE x.t = "v" -> SeqCmp(x.n, y.n)
         [] x.t = "f" -> Sign(x.i - y.i)
         [] x.t = "i" -> Sign(x.i - y.i)
         [] x.t = "a" -> SeqCmp(x.n, y.n)
         [] x.t = "c" -> IF Len(x.a) # Len(y.a) THEN Sign(Len(x.a) - Len(y.a))
                         ELSE LET c == SeqCmp(x.n, y.n) IN
                              IF c # 0 THEN c ELSE CmpArgs(x.a, y.a, 1)
CmpArgs(xs, ys, i) ==
  IF i > Len(xs) THEN 0
  ELSE LET c == Cmp(xs[i], ys[i]) IN IF c # 0 THEN c ELSE CmpArgs(xs, ys, i + 1)

Lt(x, y) == Cmp(x, y) < 0
Le(x, y) == Cmp(x, y) <= 0

(* sanity of the oracle on a universe U: a strict total order whose equality is identity *)
TotalOrderOn(U) ==
  /\ \A x, y \in U : (Cmp(x, y) = 0) <=> (x = y)
  /\ \A x, y \in U : Cmp(x, y) = -Cmp(y, x)
  /\ \A x, y, z \in U : (Le(x, y) /\ Le(y, z)) => Le(x, z)

(* ------------------------------------------------------------------------------------ *)
(* sequences                                                                              *)
(* ------------------------------------------------------------------------------------ *)
Range(s)   == {s[i] : i \in 1..Len(s)}
Front(s)   == SubSeq(s, 1, Len(s) - 1)
Rev(s)     == [i \in 1..Len(s) |-> s[Len(s) + 1 - i]]
Without(s, i) == SubSeq(s, 1, i - 1) \o SubSeq(s, i + 1, Len(s))
Map(F(_), s)  == [i \in 1..Len(s) |-> F(s[i])]
RECURSIVE Concat(_)
Concat(ss) == IF ss = <<>> THEN <<>> ELSE Head(ss) \o Concat(Tail(ss))

RECURSIVE ListsUpTo(_, _)
ListsUpTo(A, n) ==             \* all sequences over A of length <= n
  IF n = 0 THEN {<<>>}
  ELSE LET S == ListsUpTo(A, n - 1) IN S \cup {Append(s, e) : s \in {u \in S : Len(u) = n - 1}, e \in A}
ListsOfLen(A, n) == {s \in ListsUpTo(A, n) : Len(s) = n}

Perms(n) == {p \in [1..n -> 1..n] : \A i, j \in 1..n : p[i] = p[j] => i = j}

(* ------------------------------------------------------------------------------------ *)
(* sorting (ISO 8.4.3 sort/2, 8.4.4 keysort/2)                                            *)
(* ------------------------------------------------------------------------------------ *)
RECURSIVE Ins(_, _)
Ins(x, s) ==                   \* insert after every element that is <= x: keeps the sort stable
  IF s = <<>> THEN <<x>>
  ELSE IF Lt(x, Head(s)) THEN <<x>> \o s
  ELSE <<Head(s)>> \o Ins(x, Tail(s))
RECURSIVE MSort(_)
MSort(s) == IF s = <<>> THEN <<>> ELSE Ins(s[Len(s)], MSort(Front(s)))    \* stable, duplicates kept
RECURSIVE Dedup(_)
Dedup(s) ==                    \* drop adjacent identical elements
  IF Len(s) <= 1 THEN s
  ELSE IF Cmp(s[1], s[2]) = 0 THEN Dedup(Tail(s)) ELSE <<s[1]>> \o Dedup(Tail(s))
Sort2(s) == Dedup(MSort(s))    \* sort/2: "sorted according to term order, identical elements removed"

StrictlyAsc(s) == \A i \in 1..(Len(s) - 1) : Lt(s[i], s[i + 1])
Ascending(s)   == \A i \in 1..(Len(s) - 1) : Le(s[i], s[i + 1])

KeyOf(p) == p.a[1]
ValOf(p) == p.a[2]
RECURSIVE InsK(_, _)
InsK(p, s) ==
  IF s = <<>> THEN <<p>>
  ELSE IF Lt(KeyOf(p), KeyOf(Head(s))) THEN <<p>> \o s
  ELSE <<Head(s)>> \o InsK(p, Tail(s))
RECURSIVE KeySort(_)
KeySort(s) == IF s = <<>> THEN <<>> ELSE InsK(s[Len(s)], KeySort(Front(s)))   \* stable on keys

(* the characterisation the insertion sorts above must satisfy (checked by TLC as a sanity *)
(* theorem of the oracle): a permutation of the input, ascending, and stable               *)
IsStableSortOf(out, in, K(_)) ==
  \E p \in Perms(Len(in)) :
     /\ Len(out) = Len(in)
     /\ \A i \in 1..Len(in) : out[i] = in[p[i]]
     /\ \A i \in 1..(Len(in) - 1) : Le(K(out[i]), K(out[i + 1]))
     /\ \A i, j \in 1..Len(in) : (i < j /\ Cmp(K(out[i]), K(out[j])) = 0) => p[i] < p[j]
Ident(x) == x
SortSanity(s) ==
  /\ IsStableSortOf(MSort(s), s, Ident)
  /\ StrictlyAsc(Sort2(s)) /\ Range(Sort2(s)) = Range(s)
  /\ Sort2(Sort2(s)) = Sort2(s)
KeySortSanity(ps) == IsStableSortOf(KeySort(ps), ps, KeyOf)

(* a finite set of terms as its ordered-set representation *)
RECURSIVE SortSet(_)
SortSet(S) ==
  IF S = {} THEN <<>>
  ELSE LET m == CHOOSE x \in S : \A y \in S : Le(x, y) IN <<m>> \o SortSet(S \ {m})
OrdSubsets(U) == {SortSet(S) : S \in SUBSET U}

(* list_to_set/2: "doesn't contain any repeated element", first occurrences kept in order *)
RECURSIVE FirstOcc(_, _)
FirstOcc(s, seen) ==
  IF s = <<>> THEN <<>>
  ELSE IF Head(s) \in seen THEN FirstOcc(Tail(s), seen)
  ELSE <<Head(s)>> \o FirstOcc(Tail(s), seen \cup {Head(s)})

(* group_pairs_by_key/2: adjacent pairs with identical keys are merged, Key-[V1,V2,..]   *)
RECURSIVE GroupAdj(_)
GroupAdj(ps) ==
  IF ps = <<>> THEN <<>>
  ELSE LET k == KeyOf(ps[1])
           RECURSIVE Run(_)
           Run(i) == IF i <= Len(ps) /\ KeyOf(ps[i]) = k THEN Run(i + 1) ELSE i - 1
           e == Run(1)
       IN <<Pair(k, LT([i \in 1..e |-> ValOf(ps[i])]))>> \o GroupAdj(SubSeq(ps, e + 1, Len(ps)))

(* ------------------------------------------------------------------------------------ *)
(* results                                                                                *)
(*   k = "ok"    the goal has exactly one solution and binds the result to v               *)
(*       "true"  succeeds (no result)        "fail"  fails                                 *)
(*       "err"   raises error(v, _)                                                        *)
(*       "bag"   the solutions (collected with findall/3) are the elements of list v as a  *)
(*               multiset (the libraries do not document a solution order)                 *)
(*       "oneof" succeeds with one of the elements of list v; fails if v is empty          *)
(* ------------------------------------------------------------------------------------ *)
Ok(v)    == [k |-> "ok", v |-> v]
Succeeds == [k |-> "true", v |-> Nil]
Fails    == [k |-> "fail", v |-> Nil]
Err(v)   == [k |-> "err", v |-> v]
Bag(s)   == [k |-> "bag", v |-> LT(s)]
OneOf(s) == [k |-> "oneof", v |-> LT(s)]
Test(b)  == IF b THEN Succeeds ELSE Fails

TypeError(ty, culprit) == Cmpd("type_error", <<Atom(ty), culprit>>)
DomainError(d, culprit) == Cmpd("domain_error", <<Atom(d), culprit>>)
InstErr == Atom("instantiation_error")

(* ------------------------------------------------------------------------------------ *)
(* library(lists)  (documentation: the %% comments of src/lib/lists.pl)                   *)
(* ------------------------------------------------------------------------------------ *)
IndexSeq(n) == [i \in 1..n |-> i]
R3(x, y, z) == Cmpd("r", <<x, y, z>>)
Wrap(x)     == Cmpd("w", <<x>>)

Splits(s)      == [i \in 1..(Len(s) + 1) |-> Pair(LT(SubSeq(s, 1, i - 1)), LT(SubSeq(s, i, Len(s))))]
Selects(s)     == [i \in 1..Len(s) |-> Pair(s[i], LT(Without(s, i)))]
SelectsOf(e, s) == LET idx == SelectSeq(IndexSeq(Len(s)), LAMBDA i : s[i] = e)
                   IN [j \in 1..Len(idx) |-> LT(Without(s, idx[j]))]
NthAll(s, base) == [i \in 1..Len(s) |-> Pair(IntT(i - 1 + base), s[i])]
Nth4All(s, base) == [i \in 1..Len(s) |-> R3(IntT(i - 1 + base), s[i], LT(Without(s, i)))]
PermsOf(s)     == LET P == Perms(Len(s))
                      RECURSIVE Enum(_)
                      Enum(Q) == IF Q = {} THEN <<>>
                                 ELSE LET p == CHOOSE q \in Q : TRUE
                                      IN <<LT([i \in 1..Len(s) |-> s[p[i]]])>> \o Enum(Q \ {p})
                  IN Enum(P)
RECURSIVE SumSeq(_)
SumSeq(s) == IF s = <<>> THEN 0 ELSE s[1].i + SumSeq(Tail(s))
MaxOf(s) == CHOOSE x \in Range(s) : \A y \in Range(s) : y.i <= x.i
MinOf(s) == CHOOSE x \in Range(s) : \A y \in Range(s) : y.i >= x.i

(* transpose/2 of an r x c matrix (r >= 1) given as a sequence of row sequences *)
Transpose(rows) ==
  IF rows = <<>> THEN <<>>
  ELSE [j \in 1..Len(rows[1]) |-> [i \in 1..Len(rows) |-> rows[i][j]]]

(* ------------------------------------------------------------------------------------ *)
(* library(assoc): the abstract state is a finite map key -> value                        *)
(* ------------------------------------------------------------------------------------ *)
EmptyMap        == [k \in {} |-> Nil]
MapPut(m, k, v) == [x \in (DOMAIN m) \cup {k} |-> IF x = k THEN v ELSE m[x]]
MapDel(m, k)    == [x \in (DOMAIN m) \ {k} |-> m[x]]
MapOfPairs(ps)  == [k \in {KeyOf(ps[i]) : i \in 1..Len(ps)} |->
                      ValOf(ps[CHOOSE i \in 1..Len(ps) : KeyOf(ps[i]) = k])]
UniqueKeys(ps)  == \A i, j \in 1..Len(ps) : KeyOf(ps[i]) = KeyOf(ps[j]) => i = j
MapKeys(m)      == SortSet(DOMAIN m)                                  \* ascending keys
MapPairs(m)     == LET ks == MapKeys(m) IN [i \in 1..Len(ks) |-> Pair(ks[i], m[ks[i]])]
MapVals(m)      == LET ks == MapKeys(m) IN [i \in 1..Len(ks) |-> m[ks[i]]]

(* the update actions of the history machine (op name, key, value) on the abstract map *)
MapMinKey(m) == MapKeys(m)[1]
MapMaxKey(m) == LET ks == MapKeys(m) IN ks[Len(ks)]
ApplyOp(m, op, k, v) ==
  CASE op = "put"    -> MapPut(m, k, v)                                   \* put_assoc/4: insert or change
    [] op = "del"    -> MapDel(m, k)                                      \* del_assoc/4: fails (no change) if absent
    [] op = "upd"    -> IF k \in DOMAIN m THEN MapPut(m, k, v) ELSE m     \* get_assoc/5: replace the value of a present key
    [] op = "delmin" -> IF DOMAIN m = {} THEN m ELSE MapDel(m, MapMinKey(m))
    [] op = "delmax" -> IF DOMAIN m = {} THEN m ELSE MapDel(m, MapMaxKey(m))
    [] OTHER         -> m
(* what the action itself reports: number of solutions and the output term *)
None == Atom("none")
OpSolutions(m, op, k) ==
  CASE op = "put" -> 1
    [] op \in {"del", "upd"} -> IF k \in DOMAIN m THEN 1 ELSE 0
    [] op \in {"delmin", "delmax"} -> IF DOMAIN m = {} THEN 0 ELSE 1
    [] OTHER -> 1
OpOutput(m, op, k) ==
  CASE op \in {"del", "upd"} -> IF k \in DOMAIN m THEN m[k] ELSE None     \* the value that was associated
    [] op = "delmin" -> IF DOMAIN m = {} THEN None ELSE Pair(MapMinKey(m), m[MapMinKey(m)])
    [] op = "delmax" -> IF DOMAIN m = {} THEN None ELSE Pair(MapMaxKey(m), m[MapMaxKey(m)])
    [] OTHER -> None

(* the concrete representation documented in assoc.pl: t (empty) or t(K,V,Balance,L,R),   *)
(* "a balanced binary tree (AVL tree)"; is_assoc/1's comment spells out the invariant:     *)
(* keys in order, branches of each subtree differ in depth by at most 1, and the balance   *)
(* field is <, - or > according to which branch is deeper.                                 *)
IsLeafT(x) == x.t = "a" /\ x.n = CP("t")
IsNodeT(x) == x.t = "c" /\ x.n = CP("t") /\ Len(x.a) = 5
RECURSIVE TreeShape(_), Height(_), InOrder(_), Balanced(_)
TreeShape(x) == IsLeafT(x) \/ (IsNodeT(x) /\ TreeShape(x.a[4]) /\ TreeShape(x.a[5]))
Height(x)    == IF IsLeafT(x) THEN 0
                ELSE LET hl == Height(x.a[4])  hr == Height(x.a[5]) IN 1 + (IF hl > hr THEN hl ELSE hr)
InOrder(x)   == IF IsLeafT(x) THEN <<>>
                ELSE InOrder(x.a[4]) \o <<Pair(x.a[1], x.a[2])>> \o InOrder(x.a[5])
Balanced(x)  == IsLeafT(x) \/
                LET hl == Height(x.a[4])  hr == Height(x.a[5]) IN
                /\ hl - hr \in {-1, 0, 1}
                /\ x.a[3] = (IF hl > hr THEN Atom("<") ELSE IF hl < hr THEN Atom(">") ELSE Atom("-"))
                /\ Balanced(x.a[4]) /\ Balanced(x.a[5])
AVL(x)       == /\ TreeShape(x)
                /\ Balanced(x)
                /\ StrictlyAsc(Map(KeyOf, InOrder(x)))                 \* BST order w.r.t. the standard order
Represents(x, m) == AVL(x) /\ InOrder(x) = MapPairs(m)                  \* abstract(tree) = model
=============================================================================
