------------------------------- MODULE Float64 -------------------------------
(* IEEE-754 binary64 over BigInt (TLC has no reals/floats).                                   *)
(*                                                                                            *)
(* A double is a record [k, s, m, e]:                                                         *)
(*   k = "fin":  the value (-1)^s * m * 2^e with m a non-negative BigInt and e a native int,  *)
(*               canonical:  zero      m = 0,             e = 0   (s keeps the IEEE zero sign) *)
(*                           normal    2^52 <= m < 2^53,  -1074 <= e <= 971                    *)
(*                           subnormal 0 < m < 2^52,      e = -1074                            *)
(*   k = "inf":  +-infinity (only ever an intermediate result: the evaluation layer turns it  *)
(*               into evaluation_error(float_overflow))                                       *)
(*   k = "nan":  not a number (turned into evaluation_error(undefined))                       *)
(* Rounding is round-to-nearest, ties-to-even (the IEEE default and the only mode of the      *)
(* reference computation).  Every operation is "exact value, then one RoundPos".             *)
EXTENDS BigInt

Fin(s, m, e) == [k |-> "fin", s |-> s, m |-> m, e |-> e]
FZero(s)     == Fin(s, BZero, 0)
Inf(s)       == [k |-> "inf", s |-> s, m |-> BZero, e |-> 0]
NaN          == [k |-> "nan", s |-> 0, m |-> BZero, e |-> 0]

IsFin(x)   == x.k = "fin"
FIsZero(x) == x.k = "fin" /\ IsZero(x.m)

TwoP52 == Pow2(52)
TwoP53 == Pow2(53)
TwoP60 == Pow2(60)
TwoP63 == Pow2(63)
TwoP120 == Pow2(120)
EMin == -1074
EMax == 971

(* canonical-form predicate (checked as an invariant on every generated value) *)
Canonical(x) ==
  \/ x.k \in {"inf", "nan"}
  \/ /\ x.k = "fin" /\ x.s \in {0, 1} /\ ~x.m.neg
     /\ \/ IsZero(x.m) /\ x.e = 0
        \/ Le(TwoP52, x.m) /\ Lt(x.m, TwoP53) /\ x.e >= EMin /\ x.e <= EMax
        \/ ~IsZero(x.m) /\ Lt(x.m, TwoP52) /\ x.e = EMin

-----------------------------------------------------------------------------
(* bit length of a magnitude: the k with 2^(k-1) <= m < 2^k  (0 for zero) *)
RECURSIVE NatBits(_)
NatBits(n) == IF n = 0 THEN 0 ELSE 1 + NatBits(n \div 2)
RECURSIVE MBitLen(_)
MBitLen(m) == IF m = <<>> THEN 0
              ELSE IF Len(m) = 1 THEN NatBits(m[1])
              ELSE 13 + MBitLen(MDivSmall(m, 8192)[1])
BLen(x) == MBitLen(x.m)

IsOdd(x) == x.m # <<>> /\ x.m[1] % 2 = 1       \* Base is even

Signed(s, mag) == IF s = 1 THEN Neg(mag) ELSE mag
SignBit(x) == IF x.neg THEN 1 ELSE 0

-----------------------------------------------------------------------------
(* RoundPos(s, n, d, e): the double nearest to (-1)^s * (n/d) * 2^e, ties to even,            *)
(* for BigInts n > 0, d > 0 and a native exponent e.                                          *)
(* With bl = bitlen(n) - bitlen(d):  2^(bl-1) < n/d < 2^(bl+1).                               *)
(*  - value >= 2^1024 rounds to infinity, value <= 2^-1075 rounds to zero (the two shortcuts  *)
(*    only keep the shifts below small; the general path decides everything in between).     *)
(*  - otherwise pick the exponent t >= -1074 with q = floor(value / 2^t) < 2^53 (and >= 2^52  *)
(*    unless t was clamped to -1074: subnormal), round q by the remainder, renormalise.       *)
RoundAt(s, n, d, e, t) ==
  LET sh == e - t
      N  == IF sh >= 0 THEN Mul(n, Pow2(sh)) ELSE n
      D  == IF sh < 0 THEN Mul(d, Pow2(0 - sh)) ELSE d
      qr == TDivMod(N, D)
  IN [q |-> qr[1], r |-> qr[2], D |-> D]

RoundPos(s, n, d, e) ==
  LET bl == BLen(n) - BLen(d) IN
  IF e + bl - 1 >= 1024 THEN Inf(s)
  ELSE IF e + bl + 1 <= -1075 THEN FZero(s)
  ELSE
    LET t0 == e + bl - 53
        t1 == IF t0 < EMin THEN EMin ELSE t0
        a1 == RoundAt(s, n, d, e, t1)
        big == Cmp(a1.q, TwoP53) >= 0
        t  == IF big THEN t1 + 1 ELSE t1
        a  == IF big THEN RoundAt(s, n, d, e, t) ELSE a1
        c  == Cmp(Mul(a.r, Two), a.D)
        up == c > 0 \/ (c = 0 /\ IsOdd(a.q))
        q1 == IF up THEN Add(a.q, One) ELSE a.q
        carry == q1 = TwoP53
        m  == IF carry THEN TwoP52 ELSE q1
        te == IF carry THEN t + 1 ELSE t
    IN IF IsZero(m) THEN FZero(s)
       ELSE IF te > EMax THEN Inf(s)
       ELSE Fin(s, m, te)

(* was the rounding exact?  (used to restrict ** to exactly representable results) *)
ExactPos(n, d, e) ==
  LET x == RoundPos(0, n, d, e) IN
  /\ x.k = "fin" /\ ~IsZero(x.m)
  /\ (IF x.e >= e THEN Mul(Mul(x.m, Pow2(x.e - e)), d) = n
      ELSE Mul(x.m, d) = Mul(n, Pow2(e - x.e)))

(* round the signed rational num/den (den > 0) *)
FromRat(num, den) == IF IsZero(num) THEN FZero(0) ELSE RoundPos(SignBit(num), Abs(num), den, 0)
FromBig(i) == FromRat(i, One)

(* the double m * 2^e given by an arbitrary (non-canonical) non-negative mantissa: exact when representable *)
Mk(s, m, e) == IF IsZero(m) THEN FZero(s) ELSE RoundPos(s, m, One, e)

-----------------------------------------------------------------------------
(* exact rational view of a finite double: <<numerator (signed), denominator > 0>> (not reduced) *)
RatOf(x) == IF x.e >= 0 THEN <<Signed(x.s, Mul(x.m, Pow2(x.e))), One>>
            ELSE <<Signed(x.s, x.m), Pow2(0 - x.e)>>

(* comparison of two rationals given as <<n, d>> with d > 0 *)
RatCmp(p, q) == Cmp(Mul(p[1], q[2]), Mul(q[1], p[2]))

(* comparison of finite doubles: -1, 0, 1 (-0.0 = 0.0).                                       *)
(* FCmpExact is the definition (compare the exact values); FCmp is the equivalent cheap form: *)
(* in canonical form the magnitudes are ordered lexicographically by (e, m) - normal numbers  *)
(* have 2^52 <= m < 2^53 and subnormal ones share e = -1074 with the smallest normal binade.  *)
(* MC_Float64 checks FCmp = FCmpExact on its alphabet.                                        *)
FCmpExact(x, y) == RatCmp(RatOf(x), RatOf(y))

MagCmp(x, y) == IF x.e # y.e THEN (IF x.e < y.e THEN -1 ELSE 1) ELSE Cmp(x.m, y.m)
FCmp(x, y) ==
  IF IsZero(x.m) /\ IsZero(y.m) THEN 0
  ELSE IF IsZero(x.m) THEN (IF y.s = 1 THEN 1 ELSE -1)
  ELSE IF IsZero(y.m) THEN (IF x.s = 1 THEN -1 ELSE 1)
  ELSE IF x.s # y.s THEN (IF x.s = 1 THEN -1 ELSE 1)
  ELSE IF x.s = 1 THEN 0 - MagCmp(x, y) ELSE MagCmp(x, y)

-----------------------------------------------------------------------------
(* IEEE operations on finite doubles *)
FNeg(x) == [x EXCEPT !.s = 1 - x.s]
FAbs(x) == [x EXCEPT !.s = 0]

(* both operands non-zero: exact sum on a common exponent, one rounding *)
FAddExact(x, y) ==
  LET lo  == IF x.e < y.e THEN x.e ELSE y.e
      sum == Add(Signed(x.s, Mul(x.m, Pow2(x.e - lo))), Signed(y.s, Mul(y.m, Pow2(y.e - lo))))
  IN IF IsZero(sum) THEN FZero(0)            \* exact cancellation gives +0 under round-to-nearest
     ELSE RoundPos(SignBit(sum), Abs(sum), One, lo)

(* When the exponents differ by more than 64 the operand x with the larger exponent is normal  *)
(* (a subnormal has the least exponent), |x| >= 2^(52+x.e), its neighbours are at least        *)
(* 2^(x.e-1) away, and |y| < 2^(53+y.e) < 2^(x.e-11): the double nearest to x + y is x and no  *)
(* tie is possible.  The shortcut only keeps the integers small; MC_Float64 checks it against  *)
(* FAddExact.                                                                                  *)
FAdd(x, y) ==
  IF IsZero(x.m) /\ IsZero(y.m) THEN FZero(IF x.s = 1 /\ y.s = 1 THEN 1 ELSE 0)
  ELSE IF IsZero(x.m) THEN y
  ELSE IF IsZero(y.m) THEN x
  ELSE IF x.e - y.e > 64 THEN x
  ELSE IF y.e - x.e > 64 THEN y
  ELSE FAddExact(x, y)
FSub(x, y) == FAdd(x, FNeg(y))

FMul(x, y) ==
  LET s == (x.s + y.s) % 2 IN
  IF IsZero(x.m) \/ IsZero(y.m) THEN FZero(s) ELSE RoundPos(s, Mul(x.m, y.m), One, x.e + y.e)

(* y # 0 (division by zero is decided by the evaluation layer) *)
FDivide(x, y) ==
  LET s == (x.s + y.s) % 2 IN
  IF IsZero(x.m) THEN FZero(s) ELSE RoundPos(s, x.m, y.m, x.e - y.e)

(* integer square root of a non-negative BigInt by Newton's iteration from an over-estimate *)
RECURSIVE NewtonSqrt(_, _)
NewtonSqrt(N, x) == LET y == TDiv(Add(x, TDiv(N, x)), Two)
                    IN IF Lt(y, x) THEN NewtonSqrt(N, y) ELSE x
ISqrt(N) == IF IsZero(N) THEN BZero ELSE NewtonSqrt(N, Pow2((BLen(N) + 1) \div 2))

(* correctly rounded square root of a finite double x >= 0:                                   *)
(* x = m1 * 2^e1 with e1 even; r = isqrt(m1 * 2^120) has at least 60 bits; the discarded part *)
(* is a sticky half-unit below r, seven or more bits below the rounding position.             *)
FSqrt(x) ==
  IF IsZero(x.m) THEN x
  ELSE LET odd == (x.e + 1074) % 2 = 1
           m1  == IF odd THEN Mul(x.m, Two) ELSE x.m
           e1  == IF odd THEN x.e - 1 ELSE x.e
           N   == Mul(m1, TwoP120)
           r   == ISqrt(N)
           ex  == Mul(r, r) = N
           n2  == IF ex THEN Mul(r, Two) ELSE Add(Mul(r, Two), One)
           h   == (e1 + 1074) \div 2 - 537              \* = e1 / 2, exact since e1 is even
       IN RoundPos(0, n2, One, h - 60 - 1)

-----------------------------------------------------------------------------
(* A rational with the same floor, ceiling, truncation and rounding as the finite double x:    *)
(* its exact value, except that for x.e < -60 (then 0 < |x| < 2^-8) the stand-in m / 2^60       *)
(* (also of the same sign and below 1/2 in magnitude) keeps the integers small.                *)
RoundingView(x) ==
  IF x.e >= 0 THEN <<Signed(x.s, Mul(x.m, Pow2(x.e))), One>>
  ELSE IF x.e >= -60 THEN <<Signed(x.s, x.m), Pow2(0 - x.e)>>
  ELSE <<Signed(x.s, x.m), TwoP60>>

(* roundings of a rational <<n, d>> (d > 0) to an integer, ISO 9.1.6.1 *)
RFloor(p)    == FDiv(p[1], p[2])
RCeiling(p)  == Neg(FDiv(Neg(p[1]), p[2]))
RTruncate(p) == TDiv(p[1], p[2])
(* round: sign(x) * floor(|x| + 1/2)  (halves away from zero) *)
RRound(p)    == Signed(SignBit(p[1]), FDiv(Add(Mul(Abs(p[1]), Two), p[2]), Mul(p[2], Two)))

(* the IEEE bit pattern as a BigInt below 2^64 *)
Bits(x) ==
  LET sb == IF x.s = 1 THEN TwoP63 ELSE BZero IN
  IF x.k = "inf" THEN Add(sb, Mul(FromInt(2047), TwoP52))
  ELSE IF x.k = "nan" THEN Add(Mul(FromInt(2047), TwoP52), Pow2(51))
  ELSE IF Lt(x.m, TwoP52) THEN Add(sb, x.m)
  ELSE Add(sb, Add(Mul(FromInt(x.e + 1075), TwoP52), Sub(x.m, TwoP52)))
=============================================================================
