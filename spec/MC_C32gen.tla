------------------------------ MODULE MC_C32gen ------------------------------
(* scenario generator for the free-schedule conformance runs of C32: which texts each thread *)
(* interns, in which order (overlapping and disjoint sets, repeated texts).                  *)
EXTENDS Integers, Sequences, TLC, Json
CONSTANT Tier
Names == {"x", "y", "z", "w"}
Seqs == UNION {[1..n -> Names] : n \in 1..(IF Tier = "quick" THEN 2 ELSE 3)}
VARIABLE sc
Init == sc \in [1..(IF Tier = "quick" THEN 3 ELSE 4) -> Seqs]
Next == UNCHANGED sc
Emit == PrintT(ToJson([threads |-> sc]))
=============================================================================
