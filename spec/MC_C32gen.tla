------------------------------ MODULE MC_C32gen ------------------------------
(* scenario generator for the free-schedule conformance runs of C32: which texts each thread *)
(* interns, in which order (overlapping and disjoint sets, repeated texts).                  *)
EXTENDS Integers, Sequences, TLC, Json
CONSTANT Tier
Names == {"x", "y", "z", "w"}
(* (the driver samples the scenarios it runs: a universe of 84^4 scenarios with sequences of three texts could not even be   *)
(* printed in the time the thorough tier has; four threads with one or two texts each are 160 000 scenarios)                   *)
Seqs == UNION {[1..n -> Names] : n \in 1..2}
VARIABLE sc
Init == sc \in [1..(IF Tier = "quick" THEN 3 ELSE 4) -> Seqs]
Next == UNCHANGED sc
Emit == PrintT(ToJson([threads |-> sc]))
=============================================================================
