CONSTANTS Tier = "quick" Mode = "exh"
INIT Init
NEXT Next
INVARIANT TablesOk
INVARIANT ItemsOk
INVARIANT Emit
