------------------------------ MODULE Trace_C50 ------------------------------
(* C50 trace validation (impl -> spec).                                                        *)
(*                                                                                             *)
(* The driver submits every input of MC_C50 (a term with write options, a text with read        *)
(* options) to every access path of the real system and logs                                    *)
(*   {ev: "input", id, op: "write" | "read", nopts}     a new input (nopts = number of options)  *)
(*   {ev: "obs", id, path, kind, result}                what a path delivered: kind "ok" with    *)
(*                                                      the text written / the canonical text    *)
(*                                                      of what was read, kind "error" with the  *)
(*                                                      Formal of the error, kind "fail" (the    *)
(*                                                      goal failed, e.g. variables(a) does not  *)
(*                                                      unify), kind "other" (panic, no answer,  *)
(*                                                      non-error ball)                          *)
(*   {ev: "end"}                                                                                *)
(* The result of (op, input, options) is NOT logged as such: `val` is that unlogged variable.   *)
(* The first observation of an input fixes it, every later observation of the same input has to *)
(* agree with it, and every path of CharsIO!Paths has to be observed.  Observations that no     *)
(* action can take are consumed by Reject, which records the input in `bad`, so that one run     *)
(* reports every disagreeing input; the trace is accepted iff it is consumed completely          *)
(* (POSTCONDITION Consumed) and the verdict has bad = {}.                                        *)
EXTENDS CharsIO, Json, IOUtils

Rec == ndJsonDeserialize(IOEnv.TRACE)

VARIABLES l, cur, need, val, bad
vars == <<l, cur, need, val, bad>>

None == [kind |-> "none", result |-> ""]
IsEv(name) == l <= Len(Rec) /\ Rec[l].ev = name

Init == l = 1 /\ cur = -1 /\ need = {} /\ val = None /\ bad = {}

Closed == IF need # {} THEN bad \cup {cur} ELSE bad

Begin ==
  /\ IsEv("input")
  /\ cur' = Rec[l].id /\ need' = Paths(Rec[l].op, Rec[l].nopts) /\ val' = None
  /\ bad' = Closed
  /\ l' = l + 1

ObsOk(ev) ==
  /\ ev.id = cur /\ ev.path \in need
  /\ ev.kind \in {"ok", "error", "fail"}
  /\ \E v \in {[kind |-> ev.kind, result |-> ev.result]} : val = None \/ val = v
Obs ==
  /\ IsEv("obs") /\ ObsOk(Rec[l])
  /\ val' = [kind |-> Rec[l].kind, result |-> Rec[l].result]
  /\ need' = need \ {Rec[l].path}
  /\ l' = l + 1 /\ UNCHANGED <<cur, bad>>

Reject ==
  /\ IsEv("obs") /\ ~ObsOk(Rec[l])
  /\ bad' = bad \cup {Rec[l].id}
  /\ need' = need \ {Rec[l].path}
  /\ l' = l + 1 /\ UNCHANGED <<cur, val>>

End ==
  /\ IsEv("end")
  /\ bad' = Closed /\ need' = {}
  /\ l' = l + 1 /\ UNCHANGED <<cur, val>>

Next == Begin \/ Obs \/ Reject \/ End

Verdict == l = Len(Rec) + 1 => PrintT(ToJson([kind |-> "verdict", events |-> Len(Rec), bad |-> bad]))

Consumed == TLCGet("stats").diameter - 1 = Len(Rec)
=============================================================================
