CONSTANTS Tier = "quick"
INIT Init
NEXT Next
INVARIANT TablesOk
INVARIANT PathsOk
INVARIANT Emit
