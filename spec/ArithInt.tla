------------------------------ MODULE ArithInt ------------------------------
(* Layer A: the integer fragment of is/2.  Values are BigInt records; a result is      *)
(* [ok |-> TRUE, v |-> value] or [ok |-> FALSE, e |-> error class, c |-> culprit].      *)
(* Error classes follow ISO 9.1/9.3/9.4 and Cor.2 for ^/2:                               *)
(*   "zero_divisor"  evaluation_error(zero_divisor)                                      *)
(*   "undefined"     evaluation_error(undefined)                                         *)
(*   "type_float"    type_error(float, culprit)   (integer ^ negative integer)           *)
EXTENDS BigInt

Ok(v)      == [ok |-> TRUE,  v |-> v, e |-> "", c |-> BZero]
Err(e, c)  == [ok |-> FALSE, v |-> BZero, e |-> e, c |-> c]

MinusOne == FromInt(-1)

BinOps == {"+", "-", "*", "//", "div", "mod", "rem", "gcd", "^", ">>", "<<", "/\\", "\\/", "xor", "min", "max"}
UnOps  == {"-", "+", "abs", "sign", "\\"}

(* the shift count as a native number, clamped: counts beyond MaxShift behave like MaxShift *)
(* for >> (the result is the sign fill); the generators never ask for << beyond MaxShift.   *)
MaxShift == 400
ShiftCount(y) == IF FitsInt(Abs(y)) /\ ToInt(Abs(y)) <= MaxShift THEN ToInt(Abs(y)) ELSE MaxShift + 1

ShrBy(x, k) == IF k > MaxShift THEN (IF x.neg THEN MinusOne ELSE BZero) ELSE Shr(x, k)

IntPow(x, y) ==
  IF y.neg
    THEN IF IsZero(x) THEN Err("undefined", x)
         ELSE IF x = One THEN Ok(One)
         ELSE IF x = MinusOne THEN Ok(IF ToInt(Mod(y, Two)) = 0 THEN One ELSE MinusOne)
         ELSE Err("type_float", x)
    ELSE Ok(Pow(x, ToInt(y)))       \* generators keep y small when y >= 0

EvalBin(op, x, y) ==
  CASE op = "+"   -> Ok(Add(x, y))
    [] op = "-"   -> Ok(Sub(x, y))
    [] op = "*"   -> Ok(Mul(x, y))
    [] op = "//"  -> IF IsZero(y) THEN Err("zero_divisor", y) ELSE Ok(TDiv(x, y))
    [] op = "div" -> IF IsZero(y) THEN Err("zero_divisor", y) ELSE Ok(FDiv(x, y))
    [] op = "mod" -> IF IsZero(y) THEN Err("zero_divisor", y) ELSE Ok(Mod(x, y))
    [] op = "rem" -> IF IsZero(y) THEN Err("zero_divisor", y) ELSE Ok(Rem(x, y))
    [] op = "gcd" -> Ok(Gcd(x, y))
    [] op = "^"   -> IntPow(x, y)
    [] op = ">>"  -> IF y.neg THEN Ok(Shl(x, ShiftCount(y))) ELSE Ok(ShrBy(x, ShiftCount(y)))
    [] op = "<<"  -> IF y.neg THEN Ok(ShrBy(x, ShiftCount(y))) ELSE Ok(Shl(x, ShiftCount(y)))
    [] op = "/\\" -> Ok(BAnd(x, y))
    [] op = "\\/" -> Ok(BOr(x, y))
    [] op = "xor" -> Ok(BXor(x, y))
    [] op = "min" -> Ok(Min(x, y))
    [] op = "max" -> Ok(Max(x, y))

EvalUn(op, x) ==
  CASE op = "-"    -> Ok(Neg(x))
    [] op = "+"    -> Ok(x)
    [] op = "abs"  -> Ok(Abs(x))
    [] op = "sign" -> Ok(FromInt(Sign(x)))
    [] op = "\\"   -> Ok(BNot(x))

(* integer comparison, used by C04 *)
CmpRel(rel, x, y) ==
  LET c == Cmp(x, y) IN
  CASE rel = "=:="  -> c = 0
    [] rel = "=\\=" -> c # 0
    [] rel = "<"    -> c < 0
    [] rel = "=<"   -> c <= 0
    [] rel = ">"    -> c > 0
    [] rel = ">="   -> c >= 0
=============================================================================
