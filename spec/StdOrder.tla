------------------------------ MODULE StdOrder ------------------------------
(* Layer A for C13: the standard order of terms, as the property states it:                    *)
(*                                                                                              *)
(*     Var < Float < Integer/Rational < Atom < Compound                                         *)
(*                                                                                              *)
(*  - variables: by an unknown but fixed total order (parameter vr: variable -> rank; the       *)
(*    binding infers it, see Trace_C13);                                                        *)
(*  - floats by value; integers and rationals together by value (every float precedes every     *)
(*    integer, whatever the values: DESIGN Appendix 2 "compare(>,1,2.0)", and ISO 7.2);         *)
(*  - atoms by their code-point sequences;                                                      *)
(*  - compounds by arity, then name (as atoms), then arguments left to right.                   *)
(* Strings and partial strings are the lists they denote: Compare only ever sees denotations    *)
(* (TermsExt!Den), a list cell is the compound '.'/2.                                            *)
(* Result: -1 | 0 | 1.                                                                           *)
EXTENDS TermsExt

ClassRank(x) ==
  CASE x.t = "v" -> 0
    [] x.t = "f" -> 1
    [] x.t \in {"i", "big", "r"} -> 2
    [] x.t = "a" -> 3
    [] x.t = "c" -> 4

RECURSIVE Compare(_, _, _), CompareArgs(_, _, _, _)
Compare(s, u, vr) ==
  IF ClassRank(s) # ClassRank(u) THEN Sgn(ClassRank(s) - ClassRank(u))
  ELSE CASE s.t = "v" -> (IF s = u THEN 0 ELSE Sgn(vr[s] - vr[u]))
         [] s.t = "f" -> FloatCmp(s.n, u.n)
         [] s.t \in {"i", "big", "r"} -> RatCmp(s, u)
         [] s.t = "a" -> NameCmp(s.n, u.n)
         [] s.t = "c" ->
              IF Len(s.a) # Len(u.a) THEN Sgn(Len(s.a) - Len(u.a))
              ELSE LET c == NameCmp(s.n, u.n) IN
                   IF c # 0 THEN c ELSE CompareArgs(s.a, u.a, 1, vr)
CompareArgs(xs, ys, k, vr) ==
  IF k > Len(xs) THEN 0
  ELSE LET c == Compare(xs[k], ys[k], vr) IN IF c # 0 THEN c ELSE CompareArgs(xs, ys, k + 1, vr)

Sym(c) == IF c < 0 THEN "<" ELSE IF c > 0 THEN ">" ELSE "="

(* the term-comparison predicates in terms of the one order (o = Sym(Compare(S, T, vr))):      *)
(* "cmp<", "cmp=", "cmp>" stand for compare/3 called with its first argument bound.            *)
CmpPreds == <<"==", "\\==", "@<", "@=<", "@>", "@>=", "cmp<", "cmp=", "cmp>">>
Holds(p, o) ==
  CASE p = "=="   -> o = "="
    [] p = "\\==" -> o # "="
    [] p = "@<"   -> o = "<"
    [] p = "@=<"  -> o # ">"
    [] p = "@>"   -> o = ">"
    [] p = "@>="  -> o # "<"
    [] p = "cmp<" -> o = "<"
    [] p = "cmp=" -> o = "="
    [] p = "cmp>" -> o = ">"

(* theorems about the oracle, checked by TLC on the universes of MC_C13: for a fixed variable   *)
(* ranking the relation is a total order whose equality is term identity                        *)
AntiSymAt(s, u, vr)  == Compare(s, u, vr) = 0 - Compare(u, s, vr)
EqIsIdentAt(s, u, vr) == (Compare(s, u, vr) = 0) <=> (s = u)
TransAt(s, u, w, vr) == (Compare(s, u, vr) <= 0 /\ Compare(u, w, vr) <= 0) => Compare(s, w, vr) <= 0
=============================================================================
