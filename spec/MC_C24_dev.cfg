CONSTANTS
  Sizes = {1, 2}
  CanonOnly = TRUE
  Chunks = 2
  SampleN = 0
  SampleCount = 0
  Seed = 1
INIT Init
NEXT Next
INVARIANT Check
