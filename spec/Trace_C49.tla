------------------------------ MODULE Trace_C49 ------------------------------
(* C49, impl -> spec direction for the open modes of numlist/3 (an unbound bound, infinitely   *)
(* many solutions, no documented order): every recorded answer must be a member of the         *)
(* relation and an instance of the call (Between!NumlistHolds).                                 *)
(* One ndjson line per answer: {"case": id, "call": [Lo, Hi, List], "ans": [Lo', Hi', List']}   *)
(* with terms in the record shape of Between.tla (integers as BigInt limb records).             *)
EXTENDS Between, Json, IOUtils

VARIABLE l

Rec == ndJsonDeserialize(IOEnv.TRACE)

Init == l = 1
Next == /\ l <= Len(Rec)
        /\ NumlistHolds(Rec[l].call, Rec[l].ans)
        /\ l' = l + 1

(* POSTCONDITION: the whole trace was consumed; otherwise the first unexplained line is printed *)
TraceAccepted ==
  LET d == TLCGet("stats").diameter IN
  IF d - 1 = Len(Rec) THEN TRUE ELSE PrintT(<<"REJECT", d>>) /\ FALSE
=============================================================================
