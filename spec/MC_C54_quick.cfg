CONSTANT Tier = "quick"
CONSTANT Useq <- UQuick
INIT Init
NEXT Next
INVARIANT ReifTotal
INVARIANT Emit
