------------------------------- MODULE MC_C36 -------------------------------
(* C36: format/2 directives produce the documented text.                                      *)
(* Every "case" state is one (format string, argument list); the specification's result       *)
(* (Format!Run) is printed as a JSON vector that props/C36.py replays against the real         *)
(* library in five ways.  Cases whose result the documentation does not determine             *)
(* (kind "unspec") are not generated.                                                         *)
(* Families: single (one directive instance alone and inside literal text), pair / triple     *)
(* (2 / 3 directive instances from a core set), arity (an argument dropped / added),          *)
(* col1..col3 (column scenarios with 1..3 tab stops and 0..3 fill points per cell).           *)
EXTENDS Format, Json, FiniteSets

CONSTANT Tier   \* "quick" | "thorough"

-----------------------------------------------------------------------------
(* text literals: TLA+ strings to code points (printable ASCII) *)
Ascii == " !\"#$%&'()*+,-./0123456789:;<=>?@ABCDEFGHIJKLMNOPQRSTUVWXYZ[\\]^_`abcdefghijklmnopqrstuvwxyz{|}~"
CodeOf == [ch \in {SubSeq(Ascii, i, i) : i \in 1..95} |-> 31 + CHOOSE i \in 1..95 : SubSeq(Ascii, i, i) = ch]
S(s) == [i \in 1..Len(s) |-> CodeOf[SubSeq(s, i, i)]]
Eacute == <<233>>

AtomT(s)     == AtomC(S(s))
StrT(s)      == StrC(S(s))
CmpT(s, as)  == CmpC(S(s), as)
NatT(n)      == IntT(FromInt(n))

-----------------------------------------------------------------------------
(* directive instances: [d |-> text of the directive, a |-> the arguments it consumes] *)
I(d, a) == [d |-> d, a |-> a]
Lit(s)  == I(S(s), <<>>)
Empty   == I(<<>>, <<>>)

(* "~" N ch   (n < 0: N omitted) *)
DirN(ch, n) == <<cTilde>> \o (IF n < 0 THEN <<>> ELSE NatCodes(n)) \o S(ch)
DirS(ch)    == S("~*") \o S(ch)

RECURSIVE FlatD(_)
FlatD(is) == IF is = <<>> THEN <<>> ELSE is[1].d \o FlatD(Tail(is))
RECURSIVE FlatA(_)
FlatA(is) == IF is = <<>> THEN <<>> ELSE is[1].a \o FlatA(Tail(is))
Cat(is)  == I(FlatD(is), FlatA(is))

-----------------------------------------------------------------------------
(* argument values *)
Ns == {-1, 0, 1, 3, 12}

Big64  == Pow2(64)
Big30  == Add(Pow(FromInt(10), 30), FromInt(7))
Long80 == Add(Pow(FromInt(10), 79), FromInt(123456789))           \* 80 digits
Long75 == Neg(Add(Pow(FromInt(10), 74), FromInt(987654321)))      \* negative, 75 digits

IntsFull  == {FromInt(k) : k \in {0, 5, -5, 123, -123, 1234, -1234567, 999999}} \cup {Big64, Neg(Big30)}
IntsSmall == {FromInt(k) : k \in {0, -123, 1234567}} \cup {Big64}
IntsL     == {FromInt(k) : k \in {123, -12, 1234567, -1234567}} \cup {Big30, Long80, Long75}
IntsR     == {FromInt(k) : k \in {0, 35, 255, -255}} \cup {Big64}

(* numbers for ~Nf: floats M/2^K {0.5, 1.25, 3.0, 100.125, -2.5, 0.0, 0.96875}, integers, rationals *)
FVals == {FltT(FromInt(1), 1), FltT(FromInt(5), 2), FltT(FromInt(3), 0), FltT(FromInt(801), 3), FltT(FromInt(-5), 1),
          FltT(FromInt(0), 0), FltT(FromInt(31), 5),
          NatT(3), NatT(-7), IntT(Big30),
          RatT(FromInt(1), FromInt(3)), RatT(FromInt(-1), FromInt(3)), RatT(FromInt(2), FromInt(3)), RatT(FromInt(-5), FromInt(2))}

Fx  == CmpT("f", <<AtomT("x"), AtomT("A b")>>)
WArgs == {AtomT("abc"), AtomT("A b"), AtomT("[]"), AtomC(Eacute), AtomT("+"), NatT(42), NatT(-7), IntT(Neg(Big30)),
          Fx, CmpT("g", <<NatT(1), NatT(-2), CmpT("h", <<AtomT("y")>>)>>), ListT(<<AtomT("a"), AtomT("B"), NatT(3)>>),
          ListT(<<>>), StrT("aB"), CmpT("-", <<AtomT("x"), AtomT("y")>>), CmpT("-", <<AtomT("k"), NatT(1)>>),
          CmpT("$VAR", <<NatT(1)>>), CmpT("$VAR", <<NatT(27)>>), CmpT("Foo bar", <<AtomT("z")>>)}

WrongForInt == {AtomT("abc"), FltT(FromInt(3), 1), StrT("ab"), Fx}
WrongForNum == {AtomT("abc"), StrT("ab"), Fx}

-----------------------------------------------------------------------------
(* instance sets *)

NumInst(ch, ints, stars) ==
  {I(DirN(ch, n), <<IntT(x)>>) : n \in Ns, x \in ints}
  \cup {I(DirS(ch), <<NatT(sv), IntT(x)>>) : sv \in stars, x \in ints}

WQInst == {I(DirN("w", -1), <<t>>) : t \in WArgs} \cup {I(DirN("q", -1), <<t>>) : t \in WArgs}
AInst  == {I(DirN("a", -1), <<t>>) : t \in {AtomT("abc"), AtomT("A b"), AtomC(Eacute), NatT(42), StrT("abc"), Fx}}
SInst  == {I(DirN("s", -1), <<t>>) : t \in {StrT("abc"), StrT(""), StrC(S("a ") \o Eacute), AtomT("abc"), NatT(42), ListT(<<NatT(1), NatT(2)>>)}}
DInst  == NumInst("d", IntsFull, {0, 2})
DDInst == NumInst("D", IntsFull, {0, 2})
UInst  == NumInst("U", IntsSmall, {2})
LInst  == NumInst("L", IntsL, {5})
FInst  == {I(DirN("f", n), <<v>>) : n \in Ns, v \in FVals} \cup {I(DirS("f"), <<NatT(sv), v>>) : sv \in {0, 2}, v \in FVals}
RInst  == {I(DirN(ch, n), <<IntT(x)>>) : ch \in {"r", "R"}, n \in Ns \cup {2, 16, 36, 37}, x \in IntsR}
          \cup {I(DirS(ch), <<NatT(sv), IntT(x)>>) : ch \in {"r", "R"}, sv \in {1, 2, 16, 37}, x \in IntsR}
NInst  == {I(DirN("n", n), <<>>) : n \in Ns} \cup {I(DirS("n"), <<NatT(2)>>)}
MiscInst == {I(DirN("i", -1), <<t>>) : t \in {AtomT("abc"), NatT(42), Fx}} \cup {I(S("~~"), <<>>)}
TypeInst ==
  {I(DirN(ch, n), <<t>>) : ch \in {"d", "D", "U", "L", "r", "R"}, n \in {-1, 3}, t \in WrongForInt}
  \cup {I(DirN("f", n), <<t>>) : n \in {-1, 3}, t \in WrongForNum}
  \cup {I(DirS(ch), <<t, NatT(1234)>>) : ch \in {"d", "D", "L", "f", "r"}, t \in {AtomT("abc"), FltT(FromInt(4), 1)}}
  \cup {I(DirS(ch), <<t>>) : ch \in {"n", "|", "+"}, t \in {AtomT("abc"), FltT(FromInt(4), 1)}}
  \cup {I(S("ab~t") \o DirS(ch), <<t>>) : ch \in {"|", "+"}, t \in {AtomT("abc"), FltT(FromInt(4), 1)}}
  \cup {I(S("~s") \o st, <<t>>) : st \in {S("~|"), S("~t~8|"), S("~3+")}, t \in {AtomT("abc"), NatT(42), ListT(<<NatT(1), NatT(2)>>)}}

(* undocumented forms, each met with and without a following argument *)
UnknownTexts ==
  {S(s) : s \in {"~c", "~e", "~g", "~p", "~x", "~Z", "~", "~3", "~*", "~3a", "~3w", "~3q", "~3s", "~3i", "~3~", "~3t",
                 "~*a", "~*i", "~*t", "~`", "~`x", "~`xy", "~2`xt", "~3c", "~2e"}}
UnknownInst == {I(u, a) : u \in UnknownTexts, a \in {<<>>, <<AtomT("abc")>>, <<NatT(65), NatT(66)>>}}

PlainInst == {Lit("hello"), Empty, I(S("a") \o Eacute \o <<cNL>> \o S("b"), <<>>)}

Singles == WQInst \cup AInst \cup SInst \cup DInst \cup DDInst \cup UInst \cup LInst \cup FInst \cup RInst \cup NInst
           \cup MiscInst \cup TypeInst \cup UnknownInst \cup PlainInst

(* core set for pairs / triples: one or two representatives of every directive, error kind and column element *)
CoreQuick ==
  { I(DirN("w", -1), <<Fx>>), I(DirN("q", -1), <<AtomT("A b")>>), I(DirN("a", -1), <<AtomT("abc")>>),
    I(DirN("s", -1), <<StrC(S("a ") \o Eacute)>>), I(DirN("d", -1), <<NatT(-5)>>), I(DirN("d", 3), <<NatT(1234)>>),
    I(DirN("d", 3), <<NatT(-5)>>),
    I(DirN("D", -1), <<NatT(1234567)>>), I(DirN("D", 1), <<NatT(-1234567)>>), I(DirN("U", 3), <<IntT(Big64)>>),
    I(DirN("L", -1), <<NatT(123)>>), I(DirN("f", 1), <<FltT(FromInt(5), 2)>>), I(DirN("f", 3), <<RatT(FromInt(1), FromInt(3))>>),
    I(DirN("f", -1), <<FltT(FromInt(-5), 1)>>), I(DirN("r", -1), <<NatT(255)>>), I(DirN("R", 12), <<NatT(-255)>>),
    I(DirS("r"), <<NatT(16), NatT(255)>>), I(DirS("d"), <<NatT(2), NatT(1234)>>),
    I(DirN("n", -1), <<>>), I(DirN("n", 3), <<>>), I(DirN("i", -1), <<AtomT("abc")>>), I(S("~~"), <<>>),
    I(S("~e"), <<>>), I(S("~c"), <<NatT(65)>>), I(DirN("a", -1), <<NatT(42)>>), I(DirN("d", -1), <<AtomT("abc")>>),
    I(S("~t"), <<>>), I(S("~`*t"), <<>>), I(S("~|"), <<>>), I(S("~12|"), <<>>), I(S("~3+"), <<>>), I(DirS("|"), <<NatT(7)>>),
    Lit("ab") }
CoreMid == CoreQuick \cup
  { I(DirN("q", -1), <<ListT(<<AtomT("a"), AtomT("B"), NatT(3)>>)>>), I(DirN("w", -1), <<CmpT("$VAR", <<NatT(27)>>)>>),
    I(DirN("s", -1), <<StrT("")>>), I(DirN("d", 1), <<NatT(0)>>), I(DirN("D", 3), <<NatT(-123)>>), I(DirN("D", 12), <<IntT(Neg(Big30))>>),
    I(DirN("U", -1), <<NatT(1234567)>>), I(DirN("f", 0), <<FltT(FromInt(801), 3)>>), I(DirN("f", 12), <<RatT(FromInt(2), FromInt(3))>>),
    I(DirN("f", 3), <<NatT(-7)>>), I(DirS("f"), <<NatT(2), FltT(FromInt(31), 5)>>), I(DirN("r", 3), <<IntT(Big64)>>),
    I(DirN("R", 36), <<NatT(35)>>), I(DirN("r", 1), <<NatT(5)>>), I(DirS("n"), <<NatT(2)>>), I(DirN("n", 0), <<>>),
    I(DirN("s", -1), <<AtomT("abc")>>), I(DirN("f", 1), <<AtomT("abc")>>), I(S("~3a"), <<AtomT("abc")>>), I(S("~`-t"), <<>>),
    I(S("~4|"), <<>>), I(S("~0|"), <<>>), I(S("~6+"), <<>>), I(DirS("+"), <<NatT(5)>>), I(DirS("|"), <<AtomT("abc")>>),
    Lit("x y"), I(Eacute, <<>>) }
Core  == IF Tier = "quick" THEN CoreQuick ELSE CoreMid
Core3 == CoreQuick
Glue  == IF Tier = "quick" THEN {Empty} ELSE {Empty, Lit("-")}

ArityBase == Singles \ UnknownInst

-----------------------------------------------------------------------------
(* column scenarios *)
pF == I(S("~t"), <<>>)
pG == I(S("~`*t"), <<>>)
pH == I(S("~`-t"), <<>>)
pA == I(S("~a"), <<AtomT("hello")>>)
pD == I(S("~d"), <<NatT(123)>>)
pW == I(S("~w"), <<CmpT("f", <<AtomT("x")>>)>>)

PatsFull == { <<Lit("ab")>>, <<pF, Lit("ab")>>, <<pA, pF>>, <<pF, pD, pF>>, <<Lit("a"), pG, Lit("b")>>,
              <<pF, Lit("a"), pG, Lit("bc"), pH>>, <<pF, pG, Lit("abc")>>, <<>>, <<pG>>, <<pF, pW, pF, pF>>,
              <<I(Eacute, <<>>), pF>>, <<Lit("abcdef")>>, <<pF, Lit("abcdefgh"), pF>> }
PatsMid  == { <<Lit("ab")>>, <<pF, Lit("ab")>>, <<pA, pF>>, <<pF, pD, pF>>, <<Lit("a"), pG, Lit("b")>>, <<pF, pG, Lit("abc")>>, <<>> }
PatsTiny == { <<pF, Lit("ab")>>, <<pA, pH>>, <<pG, pD, pF>>, <<Lit("a"), pF, pF, Lit("b")>> }

sAbs(n)  == I(DirN("|", n), <<>>)
sRel(n)  == I(DirN("+", n), <<>>)
StopsFull == {I(S("~|"), <<>>), sAbs(0), sAbs(4), sAbs(8), sAbs(12), sRel(3), sRel(6), sRel(11),
              I(DirS("|"), <<NatT(7)>>), I(DirS("+"), <<NatT(5)>>)}
StopsMid  == {I(S("~|"), <<>>), sAbs(8), sAbs(12), sRel(6), sRel(9), I(DirS("+"), <<NatT(7)>>)}
StopsTiny == {sAbs(8), sRel(6), sRel(9), I(S("~|"), <<>>)}

Cells(pats, stops) == {Cat(p \o <<s>>) : p \in pats, s \in stops}
Cells1 == Cells(PatsFull, StopsFull)
Cells2 == IF Tier = "quick" THEN Cells(PatsMid, StopsMid) ELSE Cells(PatsFull, StopsFull)
Cells3 == IF Tier = "quick" THEN Cells(PatsTiny, StopsTiny) ELSE Cells(PatsMid, StopsMid)

Pres  == {Empty, I(S("x~n"), <<>>)}
Tails == {Empty, Lit("|"), I(S("~a"), <<AtomT("z")>>)}
Seps  == {Empty, I(S("~n"), <<>>)}

-----------------------------------------------------------------------------
Families == IF Tier = "quick" THEN {"single", "pair", "arity", "col1", "col2", "col3"}
            ELSE {"single", "pair", "triple", "arity", "col1", "col2", "col3"}

Firsts(f) ==
  CASE f = "single" -> Singles
    [] f = "pair"   -> Core
    [] f = "triple" -> Core3
    [] f = "arity"  -> ArityBase
    [] f = "col1"   -> Cells1
    [] f = "col2"   -> Cells2
    [] f = "col3"   -> Cells3

Extra == AtomT("extra")

Cases(f, x) ==
  CASE f = "single" -> {x, Cat(<<Lit("ab "), x, I(S(" ") \o Eacute, <<>>)>>)}
    [] f = "pair"   -> {Cat(<<x, g, y>>) : g \in Glue, y \in Core}
    [] f = "triple" -> {Cat(<<x, y, z>>) : y \in Core3, z \in Core3}
    [] f = "arity"  -> {I(x.d, x.a \o <<Extra>>)}
                       \cup (IF x.a = <<>> THEN {} ELSE {I(x.d, SubSeq(x.a, 1, Len(x.a) - 1))})
                       \cup (IF Len(x.a) = 2 THEN {I(x.d, <<x.a[2]>>)} ELSE {})
    [] f = "col1"   -> {Cat(<<p, x, t>>) : p \in Pres, t \in Tails}
    [] f = "col2"   -> {Cat(<<x, s, y, Lit("|")>>) : s \in Seps, y \in Cells2}
    [] f = "col3"   -> {Cat(<<x, y, z>>) : y \in Cells3, z \in Cells3}

VARIABLES phase, fam, first, case
vars == <<phase, fam, first, case>>

Init == /\ phase = "pick" /\ case = Empty
        /\ fam \in Families
        /\ first \in Firsts(fam)

Next == /\ phase = "pick" /\ phase' = "case" /\ UNCHANGED <<fam, first>>
        /\ case' \in Cases(fam, first)
        /\ Run(case'.d, case'.a).kind # "unspec"

-----------------------------------------------------------------------------
RECURSIVE ArgJson(_)
ArgJson(tm) == [t |-> tm.t, n |-> tm.n, z |-> ToDec(tm.z), q |-> ToDec(tm.q), k |-> tm.k,
                a |-> [i \in 1..Len(tm.a) |-> ArgJson(tm.a[i])]]

ErrClasses == {"unknown", "few", "many", "type", "any"}

Emit ==
  phase = "case" =>
  LET r == Run(case.d, case.a) IN
  /\ r.kind \in {"ok", "err", "rel"}
  /\ r.kind = "err" => r.err \in ErrClasses
  /\ r.kind = "ok"  => \A i \in 1..Len(r.out) : r.out[i] \in 0..1114111
  /\ (~Has(case.d, cTilde) /\ case.a = <<>>) => (r.kind = "ok" /\ r.out = case.d)     \* literal text is used literally
  /\ PrintT(ToJson([fam |-> fam, fs |-> case.d, args |-> [i \in 1..Len(case.a) |-> ArgJson(case.a[i])],
                    kind |-> r.kind, out |-> r.out, err |-> r.err, dec |-> r.dec, n |-> r.n, traits |-> r.traits]))

-----------------------------------------------------------------------------
(* sanity theorems of the specification itself (evaluated once at start-up; failure = tool error) *)

RECURSIVE Strip(_, _)
Strip(cs, c) == IF cs = <<>> THEN <<>> ELSE (IF cs[1] = c THEN <<>> ELSE <<cs[1]>>) \o Strip(Tail(cs), c)

Out(fs, args) == Run(fs, args).out

ASSUME RadixRoundTrip ==
  \A x \in IntsFull \cup IntsR : \A r \in {2, 8, 10, 16, 36} :
     /\ FromRadix(RadixCodes(x, r, FALSE), r) = x
     /\ FromRadix(RadixCodes(x, r, TRUE), r) = x
ASSUME RadixTenIsDecimal == \A x \in IntsFull \cup IntsL : RadixCodes(x, 10, TRUE) = DecCodes(x)
ASSUME PointAndGroups ==
  \A x \in IntsFull : \A n \in {0, 1, 3, 12} :
     /\ Strip(DText(x, n, cComma), cComma) = DText(x, n, 0)
     /\ FromRadix(Strip(DText(x, n, 0), cDot), 10) = x
     /\ (n > 0 => DText(x, n, 0)[Len(DText(x, n, 0)) - n] = cDot)
ASSUME RoundingIsNearest ==
  \A v \in FVals : \A n \in {0, 1, 3, 6, 12} :
     LET p == v.z
         q == IF v.t = "f" THEN Pow2(v.k) ELSE v.q
         r == [neg |-> FALSE, m |-> RoundScaled(p, q, n)]
         d == Abs(Sub(Mul(Abs(p), Pow10(n)), Mul(r, q)))
     IN Le(Mul(Two, d), q)
(* the examples given in format.pl *)
ASSUME DocExamples ==
  /\ Out(S("~s~n~`.t~w!~12|"), <<StrT("hello"), AtomT("there")>>) = S("hello") \o <<cNL>> \o S("......there!")
  /\ Out(S("~ta~t~4|"), <<>>) = S(" a  ")
  /\ Out(S("~ta~tb~tc~10|"), <<>>) = S("  a  b   c")
  /\ Out(S("~ta~t~tb~tc~20|"), <<>>) = S("    a        b     c")
  /\ Out(S("~2f~n"), <<NatT(3)>>) = S("3.00") \o <<cNL>>
  /\ Out(S("~12r"), <<NatT(300)>>) = S("210")
  /\ Out(S("~q"), <<AtomT(".")>>) = S("'.'")
  /\ Out(S("~`at~50|~n"), <<>>) = Rep(97, 50) \o <<cNL>>
  /\ Out(S("~a~t~10||~t~a~10+|~`*t~a~`-t~10+|"), <<AtomT("ab"), AtomT("cd"), AtomT("ef")>>) = S("ab        |       cd|***ef----|")
=============================================================================
