CONSTANTS
  Sizes = {1, 2, 3}
  CanonOnly = TRUE
  Chunks = 100
  SampleN = 0
  SampleCount = 0
INIT Init
NEXT Next
INVARIANT Check
