INIT Init
NEXT Next
